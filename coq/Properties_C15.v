(* C15 - Labels are exported or local exactly as written or as documented by default. *)
From Coq Require Import List ZArith Bool.
From Pory Require Import Lexer Ast Emitter EmitProps TopProps.
Import ListNotations.

(* in the code of a script (statement or inline map script) the script's own label carries the given scope, every label
   the compiler invents (name_<n>) is local, and every other label is one the author wrote, with the author's scope *)
Theorem script_label_scopes :
  forall mp tl name glob fs order is, render_chunks mp tl name glob fs order = Ok is ->
    forall n g, In (n, g) (labels_of is) ->
      (n = name /\ g = glob) \/ (exists i, n = lbl name i /\ g = false) \/
      (exists c, In c fs /\ In (n, g) (user_labels (cstmts c))).
Proof. exact render_chunks_label_scopes. Qed.
Print Assumptions script_label_scopes.

(* an exported label (::) in the code of a script is the script's own name, declared global, or a label the author marked (global) *)
Theorem exported_labels_of_a_script :
  forall mp tl name glob fs order is, render_chunks mp tl name glob fs order = Ok is ->
    forall n, In n (exported is) -> (n = name /\ glob = true) \/ exists c, In c fs /\ In (n, true) (user_labels (cstmts c)).
Proof. exact TopProps.exported_script. Qed.
Print Assumptions exported_labels_of_a_script.

(* a text block exports its label iff the text is global (hoisted texts are created local, see C06); movement steps, mart
   items and raw lines never define exported labels *)
Theorem exported_labels_of_a_text : forall mp x, exported (emit_text mp x) = glob_name (xname x) (xglob x).
Proof. exact TopProps.exported_text. Qed.
Print Assumptions exported_labels_of_a_text.

(* ---------- from the source text to the label lines (Scopes.v) ---------- *)
(* `modifier_of ts`: the scope modifier written after a keyword / label name - none, (global), (local); `declares default ts name g`:
   the statement at ts names `name` with scope g = what the modifier says, else the default; documented defaults: script, text,
   mapscripts global - movement, mart local.  Parser: every top-level statement and every label statement records exactly the
   written scope (the theorems named ..._scope_as_written, label_statement_scope, block_labels_as_written at every depth); hoisted texts and movements
   are local.  Emitter: every label line carries the recorded flag, every label the compiler invents is local
   (script_label_lines, top_label_lines, program_label_lines).  Printing: `::` iff exported.  compile_label_scopes: for every
   compiled source, every label line of the output is a declaration or label statement of the source with the written /
   default scope, or a compiler-invented local label. *)
From Coq Require Import String.
Open Scope list_scope.
From Pory Require Import Parser Format Consume Worklist ProgWf Scopes.
Theorem scope_modifier_reads :
  forall (default : bool) (ts : toks) (m : modifier),
  modifier_of ts = Some m -> scope_modifier default ts = Ok (scope_of default m, after_modifier m ts).
Proof. exact Scopes.scope_modifier_reads. Qed.
Print Assumptions scope_modifier_reads.

Theorem scope_modifier_rejects :
  forall (default : bool) (ts : toks), modifier_of ts = None -> exists e : perr, scope_modifier default ts = Err e.
Proof. exact Scopes.scope_modifier_rejects. Qed.
Print Assumptions scope_modifier_rejects.

Theorem scope_modifier_inv :
  forall (default : bool) (ts : toks) (g : bool) (ts' : toks),
  scope_modifier default ts = Ok (g, ts') -> exists m : modifier, modifier_of ts = Some m /\ g = scope_of default m /\ ts' = after_modifier m ts.
Proof. exact Scopes.scope_modifier_inv. Qed.
Print Assumptions scope_modifier_inv.

Theorem script_scope_as_written :
  forall (autovars : list (text * autovar)) (switches : list (text * text)) (env_errors : bool)
    (parse_format : toks -> res (token * text * text * toks)) (consts : list (text * text)) (f : nat) (ts : toks) (name : text) 
    (g : bool) (body : list stmt) (imp : impdata) (ts' : toks),
  parse_script autovars switches env_errors parse_format consts f ts = Ok (name, g, body, imp, ts') -> declares true ts name g.
Proof. exact Scopes.script_scope_as_written. Qed.
Print Assumptions script_scope_as_written.

Theorem text_scope_as_written :
  forall (switches : list (text * text)) (env_errors : bool) (parse_format : toks -> res (token * text * text * toks)) 
    (f : nat) (ts : toks) (td : textdef) (ts' : toks),
  parse_text switches env_errors parse_format f ts = Ok (td, ts') -> declares true ts (xname td) (xglob td).
Proof. exact Scopes.text_scope_as_written. Qed.
Print Assumptions text_scope_as_written.

Theorem movement_scope_as_written :
  forall (switches : list (text * text)) (env_errors : bool) (f : nat) (ts : toks) (tp : top) (ts' : toks),
  parse_movement switches env_errors f ts = Ok (tp, ts') ->
  exists (name : text) (g : bool) (steps : list token), tp = TMovement name g (cur ts) steps /\ declares false ts name g.
Proof. exact Scopes.movement_scope_as_written. Qed.
Print Assumptions movement_scope_as_written.

Theorem mart_scope_as_written :
  forall (switches : list (text * text)) (env_errors : bool) (consts : list (text * text)) (f : nat) (ts : toks) (tp : top) (ts' : toks),
  parse_mart switches env_errors consts f ts = Ok (tp, ts') ->
  exists (name : text) (g : bool) (items : list text) (itoks : list token), tp = TMart name g (cur ts) items itoks /\ declares false ts name g.
Proof. exact Scopes.mart_scope_as_written. Qed.
Print Assumptions mart_scope_as_written.

Theorem mapscripts_scope_as_written :
  forall (autovars : list (text * autovar)) (switches : list (text * text)) (env_errors : bool)
    (parse_format : toks -> res (token * text * text * toks)) (consts : list (text * text)) (f : nat) (ts : toks) (tp : top) 
    (imp : impdata) (ts' : toks),
  parse_mapscripts autovars switches env_errors parse_format consts f ts = Ok (tp, imp, ts') ->
  exists (name : text) (g : bool) (plain : list mapscript) (tables : list tablems),
    tp = TMapScripts name g plain tables /\ declares true ts name g.
Proof. exact Scopes.mapscripts_scope_as_written. Qed.
Print Assumptions mapscripts_scope_as_written.

Theorem documented_defaults :
  forall (autovars : list (text * autovar)) (switches : list (text * text)) (env_errors : bool)
    (parse_format : toks -> res (token * text * text * toks)) (ts : toks) (kw : toktype) (n : text) (g : bool),
  recorded autovars switches env_errors parse_format ts kw n g ->
  peekis LPAREN ts = false -> g = match kw with
                                  | SCRIPT | TEXT | MAPSCRIPTS => true
                                  | _ => false
                                  end.
Proof. exact Scopes.documented_defaults. Qed.
Print Assumptions documented_defaults.

Theorem global_modifier_is_recorded :
  forall (autovars : list (text * autovar)) (switches : list (text * text)) (env_errors : bool)
    (parse_format : toks -> res (token * text * text * toks)) (ts : toks) (kw : toktype) (n : text) (g : bool),
  recorded autovars switches env_errors parse_format ts kw n g -> peekis LPAREN ts = true -> is GLOBAL (pk 2 ts) = true -> g = true.
Proof. exact Scopes.global_modifier_is_recorded. Qed.
Print Assumptions global_modifier_is_recorded.

Theorem local_modifier_is_recorded :
  forall (autovars : list (text * autovar)) (switches : list (text * text)) (env_errors : bool)
    (parse_format : toks -> res (token * text * text * toks)) (ts : toks) (kw : toktype) (n : text) (g : bool),
  recorded autovars switches env_errors parse_format ts kw n g -> peekis LPAREN ts = true -> is LOCAL (pk 2 ts) = true -> g = false.
Proof. exact Scopes.local_modifier_is_recorded. Qed.
Print Assumptions local_modifier_is_recorded.

Theorem try_label_reads :
  forall (ts : toks) (g : bool), label_written ts g -> try_label ts = Some (SLabel (tlit (cur ts)) g (cur ts), at_colon ts).
Proof. exact Scopes.try_label_reads. Qed.
Print Assumptions try_label_reads.

Theorem try_label_inv :
  forall (ts : toks) (s : stmt) (ts' : toks),
  try_label ts = Some (s, ts') -> exists g : bool, label_written ts g /\ s = SLabel (tlit (cur ts)) g (cur ts) /\ ts' = at_colon ts.
Proof. exact Scopes.try_label_inv. Qed.
Print Assumptions try_label_inv.

Theorem label_statement_scope :
  forall (autovars : list (text * autovar)) (switches : list (text * text)) (env_errors : bool)
    (parse_format : toks -> res (token * text * text * toks)) (consts : list (text * text)) (f : nat) (script : text) 
    (bs cs : list nat) (ts : toks) (g : bool),
  ttype (cur ts) = IDENT ->
  label_written ts g ->
  parse_stmt autovars switches env_errors parse_format consts (S f) script bs cs ts =
  Ok ([SLabel (tlit (cur ts)) g (cur ts)], imp0, at_colon ts).
Proof. exact Scopes.label_statement_scope. Qed.
Print Assumptions label_statement_scope.

Theorem block_labels_as_written :
  forall (autovars : list (text * autovar)) (switches : list (text * text)) (env_errors : bool)
    (parse_format : toks -> res (token * text * text * toks)) (consts : list (text * text)),
  (forall (ts : toks) (tk : token) (v sty : text) (ts' : toks),
   parse_format ts = Ok (tk, v, sty, ts') -> forall a : toks, advs a ts -> advs a ts') ->
  forall (f : nat) (script : text) (bs cs : list nat) (start : token) (ts : toks) (ss : list stmt) (imp : impdata) (ts' base : toks),
  parse_block autovars switches env_errors parse_format consts f script bs cs start ts [] imp0 = Ok (ss, imp, ts') ->
  advs base ts -> forall (n : text) (g : bool) (tk : token), In (n, g, tk) (deep_labels ss) -> label_at base n g tk.
Proof. exact Scopes.block_labels_as_written. Qed.
Print Assumptions block_labels_as_written.

Theorem hoisted_are_local :
  forall (imp : impdata) (h h' : hst) (ps : list patch),
  add_implicit imp h = (h', ps) ->
  Forall hoisted_text (htexts h) -> Forall hoisted_movement (hmovs h) -> Forall hoisted_text (htexts h') /\ Forall hoisted_movement (hmovs h').
Proof. exact Scopes.hoisted_are_local. Qed.
Print Assumptions hoisted_are_local.

Theorem program_scopes_as_written :
  forall (autovars : list (text * autovar)) (switches : list (text * text)) (env_errors : bool)
    (parse_format : toks -> res (token * text * text * toks)),
  (forall (ts : toks) (tk : token) (v sty : text) (ts' : toks),
   parse_format ts = Ok (tk, v, sty, ts') -> forall a : toks, advs a ts -> advs a ts') ->
  forall (ts : toks) (p : program),
  parse_program autovars switches env_errors parse_format ts = Ok p -> Forall (top_scope_ok ts) (tops p) /\ Forall (text_scope_ok ts) (texts p).
Proof. exact Scopes.program_scopes_as_written. Qed.
Print Assumptions program_scopes_as_written.

Theorem text_label_line :
  forall (mp : option text) (x : textdef), labels_of (emit_text mp x) = [(xname x, xglob x)].
Proof. exact Scopes.text_label_line. Qed.
Print Assumptions text_label_line.

Theorem movement_label_line :
  forall (mp : option text) (name : text) (glob : bool) (tk : token) (steps : list token),
  labels_of (emit_movement mp name glob tk steps) = [(name, glob)].
Proof. exact Scopes.movement_label_line. Qed.
Print Assumptions movement_label_line.

Theorem mart_label_line :
  forall (mp : option text) (name : text) (glob : bool) (tk : token) (items : list text) (itoks : list token),
  labels_of (emit_mart mp name glob tk items itoks) = [(name, glob)].
Proof. exact Scopes.mart_label_line. Qed.
Print Assumptions mart_label_line.

Theorem label_statement_rendered :
  forall (mp : option text) (n : text) (g : bool) (tk : token), render_stmt mp (SLabel n g tk) = marker mp (tline tk) ++ [ILabel n g].
Proof. exact Scopes.label_statement_rendered. Qed.
Print Assumptions label_statement_rendered.

Theorem script_label_lines :
  forall (mp : option text) (tl : list text) (name : text) (glob optimize : bool) (body : list stmt) (is : list instr),
  emit_script mp tl name glob optimize body = Emitter.Ok is ->
  src_ok body -> exists subs : list Z, ~ In 0%Z subs /\ Permutation.Permutation (labels_of is) (script_labels name glob subs body).
Proof. exact Scopes.script_label_lines. Qed.
Print Assumptions script_label_lines.

Theorem script_code_starts_with_own_label :
  forall (mp : option text) (tl : list text) (name : text) (glob optimize : bool) (body : list stmt) (is : list instr),
  emit_script mp tl name glob optimize body = Emitter.Ok is -> src_ok body -> exists rest : list instr, is = ILabel name glob :: rest.
Proof. exact Scopes.script_code_starts_with_own_label. Qed.
Print Assumptions script_code_starts_with_own_label.

Theorem top_label_lines :
  forall (mp : option text) (tl : list text) (optimize : bool) (tp : top) (is : list instr),
  emit_top mp tl optimize tp = Some (Emitter.Ok is) ->
  scripts_ok (top_scripts tp) ->
  (forall (n : text) (g : bool), In (ILabel n g) is -> top_may tp n g) /\ (forall (n : text) (g : bool), top_must tp n g -> In (ILabel n g) is).
Proof. exact Scopes.top_label_lines. Qed.
Print Assumptions top_label_lines.

Theorem program_label_lines :
  forall (optimize : bool) (mp : option text) (p : program) (is : list instr),
  emit_program_instrs optimize mp p = Emitter.Ok is ->
  Forall src_ok (bodies_of (tops p)) ->
  (forall (n : text) (g : bool),
   In (ILabel n g) is ->
   (exists tp : top, In tp (tops p) /\ top_may tp n g) \/ (exists x : textdef, In x (texts p) /\ n = xname x /\ g = xglob x)) /\
  (forall (n : text) (g : bool),
   (exists tp : top, In tp (tops p) /\ top_must tp n g) \/ (exists x : textdef, In x (texts p) /\ n = xname x /\ g = xglob x) ->
   In (ILabel n g) is).
Proof. exact Scopes.program_label_lines. Qed.
Print Assumptions program_label_lines.

Theorem label_line_printed :
  forall (path n : text) (g : bool), print_instr path (ILabel n g) = n ++ (if g then t "::" else t ":") ++ nl.
Proof. exact Scopes.label_line_printed. Qed.
Print Assumptions label_line_printed.

Theorem exported_iff_double_colon :
  forall (path n : text) (g : bool), print_instr path (ILabel n g) = n ++ t "::" ++ nl <-> g = true.
Proof. exact Scopes.exported_iff_double_colon. Qed.
Print Assumptions exported_iff_double_colon.

Theorem local_iff_single_colon :
  forall (path n : text) (g : bool), print_instr path (ILabel n g) = n ++ t ":" ++ nl <-> g = false.
Proof. exact Scopes.local_iff_single_colon. Qed.
Print Assumptions local_iff_single_colon.

Theorem source_label_lines_as_written :
  forall (hl hd hs : N -> bool) (autovars : list (text * autovar)) (switches : list (text * text)) (ee : bool) (fc : fontcfg) 
    (cli_font : text) (cli_maxlen : Z) (src : text) (p : program) (optimize : bool) (mp : option text) (code : list instr),
  parse_program autovars switches ee (parse_format fc cli_font cli_maxlen ee) (lex hl hd hs src) = Ok p ->
  emit_program_instrs optimize mp p = Emitter.Ok code ->
  forall (n : text) (g : bool),
  In (ILabel n g) code ->
  (exists kw : toktype, In kw naming_keywords /\ declared (lex hl hd hs src) kw n g) \/
  (exists tk : token, label_at (lex hl hd hs src) n g tk) \/ g = false /\ invented_label p n.
Proof. exact Scopes.source_label_lines_as_written. Qed.
Print Assumptions source_label_lines_as_written.

Theorem source_exported_labels_are_written :
  forall (hl hd hs : N -> bool) (autovars : list (text * autovar)) (switches : list (text * text)) (ee : bool) (fc : fontcfg) 
    (cli_font : text) (cli_maxlen : Z) (src : text) (p : program) (optimize : bool) (mp : option text) (code : list instr),
  parse_program autovars switches ee (parse_format fc cli_font cli_maxlen ee) (lex hl hd hs src) = Ok p ->
  emit_program_instrs optimize mp p = Emitter.Ok code ->
  forall n : text,
  In (ILabel n true) code ->
  (exists (kw : toktype) (ts' : toks),
     In kw naming_keywords /\
     advs (lex hl hd hs src) ts' /\
     ttype (cur ts') = kw /\ (modifier_of ts' = Some MGlobal \/ modifier_of ts' = Some MNone /\ default_scope kw = true)) \/
  (exists ts' : toks,
     advs (lex hl hd hs src) ts' /\
     ttype (cur ts') = IDENT /\
     n = tlit (cur ts') /\
     is LPAREN (pk 1 ts') = true /\ is GLOBAL (pk 2 ts') = true /\ is RPAREN (pk 3 ts') = true /\ is COLON (pk 4 ts') = true).
Proof. exact Scopes.source_exported_labels_are_written. Qed.
Print Assumptions source_exported_labels_are_written.

Theorem source_declared_labels_are_emitted :
  forall (hl hd hs : N -> bool) (autovars : list (text * autovar)) (switches : list (text * text)) (ee : bool) (fc : fontcfg) 
    (cli_font : text) (cli_maxlen : Z) (src : text) (p : program) (optimize : bool) (mp : option text) (code : list instr),
  parse_program autovars switches ee (parse_format fc cli_font cli_maxlen ee) (lex hl hd hs src) = Ok p ->
  emit_program_instrs optimize mp p = Emitter.Ok code ->
  (forall (n : text) (g : bool) (b : list stmt),
   In (TScript n g b) (tops p) ->
   In (ILabel n g) code /\ (forall (n' : text) (g' : bool) (tk : token), In (n', g', tk) (deep_labels b) -> In (ILabel n' g') code)) /\
  (forall (n : text) (g : bool) (tk : token) (steps : list token), In (TMovement n g tk steps) (tops p) -> In (ILabel n g) code) /\
  (forall (n : text) (g : bool) (tk : token) (items : list text) (itoks : list token),
   In (TMart n g tk items itoks) (tops p) -> In (ILabel n g) code) /\
  (forall (n : text) (g : bool) (plain : list mapscript) (tables : list tablems),
   In (TMapScripts n g plain tables) (tops p) ->
   In (ILabel n g) code /\
   (forall tb : tablems, In tb tables -> In (ILabel (tmName tb) false) code) /\
   (forall (sn : text) (b : list stmt),
    In (sn, b) (inline_scripts plain tables) ->
    In (ILabel sn false) code /\ (forall (n' : text) (g' : bool) (tk : token), In (n', g', tk) (deep_labels b) -> In (ILabel n' g') code))) /\
  (forall x : textdef, In x (texts p) -> In (ILabel (xname x) (xglob x)) code).
Proof. exact Scopes.source_declared_labels_are_emitted. Qed.
Print Assumptions source_declared_labels_are_emitted.

Theorem source_scopes_as_written :
  forall (hl hd hs : N -> bool) (autovars : list (text * autovar)) (switches : list (text * text)) (ee : bool) (fc : fontcfg) 
    (cli_font : text) (cli_maxlen : Z) (src : text) (p : program),
  parse_program autovars switches ee (parse_format fc cli_font cli_maxlen ee) (lex hl hd hs src) = Ok p ->
  Forall (top_scope_ok (lex hl hd hs src)) (tops p) /\ Forall (text_scope_ok (lex hl hd hs src)) (texts p).
Proof. exact Scopes.source_scopes_as_written. Qed.
Print Assumptions source_scopes_as_written.

Theorem compile_label_scopes :
  forall (hl hd hs : N -> bool) (autovars : list (text * autovar)) (switches : list (text * text)) (ee : bool) (fc : fontcfg) 
    (cli_font : text) (cli_maxlen : Z) (optimize : bool) (mp : option text) (src out : text),
  Compile.compile hl hd hs autovars switches ee fc cli_font cli_maxlen optimize mp src = Compile.OutText out ->
  let ts := lex hl hd hs src in
  exists (p : program) (code : list instr),
    parse_program autovars switches ee (parse_format fc cli_font cli_maxlen ee) ts = Ok p /\
    emit_program_instrs optimize mp p = Emitter.Ok code /\
    out = print_instrs mp code /\
    (forall (n : text) (g : bool),
     In (ILabel n g) code ->
     (exists kw : toktype, In kw naming_keywords /\ declared ts kw n g) \/
     (exists tk : token, label_at ts n g tk) \/ g = false /\ invented_label p n) /\
    (forall (n : text) (g : bool),
     In (ILabel n g) code -> exists pre post : list N, out = pre ++ (n ++ (if g then t "::" else t ":") ++ nl) ++ post).
Proof. exact Scopes.compile_label_scopes. Qed.
Print Assumptions compile_label_scopes.


(* ---- the other half at top level (ProgramGrammar.v): an accepted token stream IS a sequence of top-level statements; the parser's
   top-level loop drops, duplicates and reorders nothing. parse_tops_grammar: parse_tops succeeds IFF the stream decomposes into
   statements each parsed by its own parser from what the previous one left (stmts); top_step_shape: only the seven keywords; a
   const adds a constant and nothing else, every other statement adds exactly ONE top - the one written there: same keyword, the
   written name, the written scope modifier or the documented default (top_written) - a text statement also exactly one text.
   program_grammar(_real), compile_program_grammar: tops p = the tops of the statements in source order ++ the hoisted movements,
   texts p = the hoisted texts ++ the text statements in source order, hoisted ones local with invented names.
   program_counts, every_written_statement_is_in_the_program, every_program_statement_is_written. parse_tops_error,
   first_failing_statement_decides: the first failing statement's error is the program's error (ProgramGrammar.parse_program_error_cases:
   else one of the two name checks). accepted_is_tops_run / source_accepted_is_tops_run: the witness Independence.v asks for, for every
   accepted source without NUL (boundary B20: eof_only_last). ---- *)
From Pory Require ProgramGrammar. Open Scope list_scope.
Theorem parse_tops_grammar :
  forall (av : list (text * autovar)) (sw : list (text * text)) (ee : bool) (pf : toks -> res (token * text * text * toks)) 
    (f : nat) (st : pstate) (ts : toks) (st' : pstate),
  parse_tops av sw ee pf f st ts = Ok st' <-> (exists l : list ProgramGrammar.piece, ProgramGrammar.stmts av sw ee pf f st ts l st').
Proof. exact ProgramGrammar.parse_tops_grammar. Qed.
Print Assumptions parse_tops_grammar.

Theorem stmts_fun :
  forall (av : list (text * autovar)) (sw : list (text * text)) (ee : bool) (pf : toks -> res (token * text * text * toks)) 
    (f : nat) (st : pstate) (ts : toks) (l1 : list ProgramGrammar.piece) (st1 : pstate) (l2 : list ProgramGrammar.piece) 
    (st2 : pstate), ProgramGrammar.stmts av sw ee pf f st ts l1 st1 -> ProgramGrammar.stmts av sw ee pf f st ts l2 st2 -> l1 = l2 /\ st1 = st2.
Proof. exact ProgramGrammar.stmts_fun. Qed.
Print Assumptions stmts_fun.

Theorem top_step_shape :
  forall (av : list (text * autovar)) (sw : list (text * text)) (ee : bool) (pf : toks -> res (token * text * text * toks)) 
    (f : nat) (c : list (text * text)) (h : hst) (ts : toks) (c' : list (text * text)) (h' : hst) (tps : list top) (txs : list textdef)
    (y : toks),
  Independence.top_step av sw ee pf f c h ts = Ok (c', h', tps, txs, y) ->
  ProgramGrammar.ends_as (ttype (cur ts)) ts y /\
  (ttype (cur ts) = CONST /\
   tps = [] /\ txs = [] /\ h' = h /\ (exists name v : text, c' = (name, v) :: c /\ ProgramGrammar.const_written c ts name) \/
   ttype (cur ts) <> CONST /\
   c' = c /\
   (exists tp : top,
      tps = [tp] /\
      ProgramGrammar.top_written ts tp /\
      match tp with
      | TTextStmt => h' = h /\ (exists x : textdef, txs = [x] /\ ProgramGrammar.text_written ts x)
      | TScript _ _ _ | TMapScripts _ _ _ _ => txs = []
      | _ => h' = h /\ txs = []
      end)).
Proof. exact ProgramGrammar.top_step_shape. Qed.
Print Assumptions top_step_shape.

Theorem stmts_to_state :
  forall (av : list (text * autovar)) (sw : list (text * text)) (ee : bool) (pf : toks -> res (token * text * text * toks)) 
    (f : nat) (st : pstate) (ts : toks) (l : list ProgramGrammar.piece) (f' : nat) (st' : pstate) (ts' : toks),
  ProgramGrammar.stmts_to av sw ee pf f st ts l f' st' ts' ->
  ptops st' = ptops st ++ ProgramGrammar.added_tops l /\
  ptexts st' = ptexts st ++ ProgramGrammar.added_texts l /\
  pconsts st' = last (map ProgramGrammar.p_c' l) (pconsts st) /\ ph st' = last (map ProgramGrammar.p_h' l) (ph st).
Proof. exact ProgramGrammar.stmts_to_state. Qed.
Print Assumptions stmts_to_state.

Theorem stmts_to_written :
  forall (av : list (text * autovar)) (sw : list (text * text)) (ee : bool) (pf : toks -> res (token * text * text * toks)) 
    (f : nat) (st : pstate) (ts : toks) (l : list ProgramGrammar.piece) (f' : nat) (st' : pstate) (ts' : toks),
  ProgramGrammar.stmts_to av sw ee pf f st ts l f' st' ts' ->
  Forall2 ProgramGrammar.top_written (ProgramGrammar.top_starts l) (ProgramGrammar.added_tops l) /\
  Forall2 ProgramGrammar.text_written (ProgramGrammar.kw_starts TEXT l) (ProgramGrammar.added_texts l) /\
  (exists cs : list (text * text),
     pconsts st' = cs ++ pconsts st /\ Forall2 ProgramGrammar.const_named (ProgramGrammar.kw_starts CONST l) (rev cs)).
Proof. exact ProgramGrammar.stmts_to_written. Qed.
Print Assumptions stmts_to_written.

Theorem stmts_to_keywords :
  forall (av : list (text * autovar)) (sw : list (text * text)) (ee : bool) (pf : toks -> res (token * text * text * toks)) 
    (f : nat) (st : pstate) (ts : toks) (l : list ProgramGrammar.piece) (f' : nat) (st' : pstate) (ts' : toks),
  ProgramGrammar.stmts_to av sw ee pf f st ts l f' st' ts' ->
  Forall (fun x : toks => is_toplevel (ttype (cur x)) = true) (ProgramGrammar.starts l).
Proof. exact ProgramGrammar.stmts_to_keywords. Qed.
Print Assumptions stmts_to_keywords.

Theorem program_grammar :
  forall (av : list (text * autovar)) (sw : list (text * text)) (ee : bool) (pf : toks -> res (token * text * text * toks)),
  Independence.format_advs pf ->
  forall (ts : toks) (p : program),
  parse_program av sw ee pf ts = Ok p ->
  exists (l : list ProgramGrammar.piece) (st' : pstate),
    ProgramGrammar.stmts av sw ee pf (5 * Datatypes.length ts + 4) ProgramGrammar.pstate0 ts l st' /\
    tops p = ProgramGrammar.added_tops l ++ hmovs (ph st') /\
    texts p = htexts (ph st') ++ ProgramGrammar.added_texts l /\
    Forall2 ProgramGrammar.top_written (ProgramGrammar.top_starts l) (ProgramGrammar.added_tops l) /\
    Forall2 ProgramGrammar.text_written (ProgramGrammar.kw_starts TEXT l) (ProgramGrammar.added_texts l) /\
    Forall hoisted_movement (hmovs (ph st')) /\ Forall hoisted_text (htexts (ph st')) /\ Forall (advs ts) (ProgramGrammar.starts l).
Proof. exact ProgramGrammar.program_grammar. Qed.
Print Assumptions program_grammar.

Theorem program_grammar_real :
  forall (av : list (text * autovar)) (sw : list (text * text)) (ee : bool) (fc : fontcfg) (cli_font : text) (cli_maxlen : Z) 
    (ts : toks) (p : program),
  parse_program av sw ee (parse_format fc cli_font cli_maxlen ee) ts = Ok p ->
  exists (l : list ProgramGrammar.piece) (st' : pstate),
    ProgramGrammar.stmts av sw ee (parse_format fc cli_font cli_maxlen ee) (5 * Datatypes.length ts + 4) ProgramGrammar.pstate0 ts l st' /\
    tops p = ProgramGrammar.added_tops l ++ hmovs (ph st') /\
    texts p = htexts (ph st') ++ ProgramGrammar.added_texts l /\
    Forall2 ProgramGrammar.top_written (ProgramGrammar.top_starts l) (ProgramGrammar.added_tops l) /\
    Forall2 ProgramGrammar.text_written (ProgramGrammar.kw_starts TEXT l) (ProgramGrammar.added_texts l) /\
    Forall hoisted_movement (hmovs (ph st')) /\ Forall hoisted_text (htexts (ph st')) /\ Forall (advs ts) (ProgramGrammar.starts l).
Proof. exact ProgramGrammar.program_grammar_real. Qed.
Print Assumptions program_grammar_real.

Theorem compile_program_grammar :
  forall (hl hd hs : N -> bool) (av : list (text * autovar)) (sw : list (text * text)) (ee : bool) (fc : fontcfg) (cli_font : text)
    (cli_maxlen : Z) (optimize : bool) (mp : option text) (src out : text),
  Compile.compile hl hd hs av sw ee fc cli_font cli_maxlen optimize mp src = Compile.OutText out ->
  let ts := lex hl hd hs src in
  exists (p : program) (l : list ProgramGrammar.piece) (st' : pstate),
    parse_program av sw ee (parse_format fc cli_font cli_maxlen ee) ts = Ok p /\
    ProgramGrammar.stmts av sw ee (parse_format fc cli_font cli_maxlen ee) (5 * Datatypes.length ts + 4) ProgramGrammar.pstate0 ts l st' /\
    tops p = ProgramGrammar.added_tops l ++ hmovs (ph st') /\
    texts p = htexts (ph st') ++ ProgramGrammar.added_texts l /\
    Forall2 ProgramGrammar.top_written (ProgramGrammar.top_starts l) (ProgramGrammar.added_tops l) /\
    Forall2 ProgramGrammar.text_written (ProgramGrammar.kw_starts TEXT l) (ProgramGrammar.added_texts l) /\
    Forall hoisted_movement (hmovs (ph st')) /\ Forall hoisted_text (htexts (ph st')) /\ Forall (advs ts) (ProgramGrammar.starts l).
Proof. exact ProgramGrammar.compile_program_grammar. Qed.
Print Assumptions compile_program_grammar.

Theorem program_counts :
  forall (av : list (text * autovar)) (sw : list (text * text)) (ee : bool) (pf : toks -> res (token * text * text * toks)),
  Independence.format_advs pf ->
  forall (ts : toks) (p : program) (l : list ProgramGrammar.piece) (st' : pstate),
  parse_program av sw ee pf ts = Ok p ->
  ProgramGrammar.stmts av sw ee pf (5 * Datatypes.length ts + 4) ProgramGrammar.pstate0 ts l st' ->
  (forall kw : toktype,
   kw <> CONST ->
   kw <> MOVEMENT -> Datatypes.length (filter (ProgramGrammar.kind_is kw) (tops p)) = Datatypes.length (ProgramGrammar.kw_starts kw l)) /\
  Datatypes.length (filter (ProgramGrammar.kind_is MOVEMENT) (tops p)) =
  Datatypes.length (ProgramGrammar.kw_starts MOVEMENT l) + Datatypes.length (hmovs (ph st')) /\
  Datatypes.length (texts p) = Datatypes.length (htexts (ph st')) + Datatypes.length (ProgramGrammar.kw_starts TEXT l).
Proof. exact ProgramGrammar.program_counts. Qed.
Print Assumptions program_counts.

Theorem every_written_statement_is_in_the_program :
  forall (av : list (text * autovar)) (sw : list (text * text)) (ee : bool) (pf : toks -> res (token * text * text * toks)),
  Independence.format_advs pf ->
  forall (ts : toks) (p : program) (l : list ProgramGrammar.piece) (st' : pstate),
  parse_program av sw ee pf ts = Ok p ->
  ProgramGrammar.stmts av sw ee pf (5 * Datatypes.length ts + 4) ProgramGrammar.pstate0 ts l st' ->
  forall x : toks,
  In x (ProgramGrammar.starts l) ->
  (ttype (cur x) <> CONST -> exists tp : top, In tp (tops p) /\ ProgramGrammar.top_written x tp) /\
  (ttype (cur x) = TEXT -> exists td : textdef, In td (texts p) /\ ProgramGrammar.text_written x td).
Proof. exact ProgramGrammar.every_written_statement_is_in_the_program. Qed.
Print Assumptions every_written_statement_is_in_the_program.

Theorem every_program_statement_is_written :
  forall (av : list (text * autovar)) (sw : list (text * text)) (ee : bool) (pf : toks -> res (token * text * text * toks)),
  Independence.format_advs pf ->
  forall (ts : toks) (p : program) (l : list ProgramGrammar.piece) (st' : pstate),
  parse_program av sw ee pf ts = Ok p ->
  ProgramGrammar.stmts av sw ee pf (5 * Datatypes.length ts + 4) ProgramGrammar.pstate0 ts l st' ->
  (forall tp : top,
   In tp (tops p) -> (exists x : toks, In x (ProgramGrammar.starts l) /\ ProgramGrammar.top_written x tp) \/ hoisted_movement tp) /\
  (forall td : textdef,
   In td (texts p) -> (exists x : toks, In x (ProgramGrammar.starts l) /\ ProgramGrammar.text_written x td) \/ hoisted_text td).
Proof. exact ProgramGrammar.every_program_statement_is_written. Qed.
Print Assumptions every_program_statement_is_written.

Theorem parse_tops_outcome :
  forall (av : list (text * autovar)) (sw : list (text * text)) (ee : bool) (pf : toks -> res (token * text * text * toks)) 
    (f : nat) (st : pstate) (ts : toks),
  exists (l : list ProgramGrammar.piece) (f1 : nat) (st1 : pstate) (ts1 : toks),
    ProgramGrammar.stmts_to av sw ee pf f st ts l f1 st1 ts1 /\
    (f1 = 0 /\ parse_tops av sw ee pf f st ts = Fuel \/
     (exists f2 : nat, f1 = S f2 /\ curis EOF ts1 = true /\ parse_tops av sw ee pf f st ts = Ok st1) \/
     (exists f2 : nat,
        f1 = S f2 /\
        curis EOF ts1 = false /\
        ProgramGrammar.is_ok (Independence.top_step av sw ee pf f2 (pconsts st1) (ph st1) ts1) = false /\
        parse_tops av sw ee pf f st ts = ProgramGrammar.res_of (Independence.top_step av sw ee pf f2 (pconsts st1) (ph st1) ts1))).
Proof. exact ProgramGrammar.parse_tops_outcome. Qed.
Print Assumptions parse_tops_outcome.

Theorem parse_tops_error :
  forall (av : list (text * autovar)) (sw : list (text * text)) (ee : bool) (pf : toks -> res (token * text * text * toks)) 
    (f : nat) (st : pstate) (ts : toks) (e : perr),
  parse_tops av sw ee pf f st ts = Err e <->
  (exists (l : list ProgramGrammar.piece) (f2 : nat) (st1 : pstate) (ts1 : toks),
     ProgramGrammar.stmts_to av sw ee pf f st ts l (S f2) st1 ts1 /\
     curis EOF ts1 = false /\ Independence.top_step av sw ee pf f2 (pconsts st1) (ph st1) ts1 = Err e).
Proof. exact ProgramGrammar.parse_tops_error. Qed.
Print Assumptions parse_tops_error.

Theorem first_failing_statement_decides :
  forall (av : list (text * autovar)) (sw : list (text * text)) (ee : bool) (pf : toks -> res (token * text * text * toks)) 
    (ts : list token) (l : list ProgramGrammar.piece) (f2 : nat) (st1 : pstate) (ts1 : toks) (e : perr),
  ProgramGrammar.stmts_to av sw ee pf (5 * Datatypes.length ts + 4) ProgramGrammar.pstate0 ts l (S f2) st1 ts1 ->
  curis EOF ts1 = false -> Independence.top_step av sw ee pf f2 (pconsts st1) (ph st1) ts1 = Err e -> parse_program av sw ee pf ts = Err e.
Proof. exact ProgramGrammar.first_failing_statement_decides. Qed.
Print Assumptions first_failing_statement_decides.


Theorem parse_tops_tops_run :
  forall (av : list (text * autovar)) (sw : list (text * text)) (ee : bool) (pf : toks -> res (token * text * text * toks)) 
    (f : nat) (st : pstate) (ts : toks) (st' : pstate),
  parse_tops av sw ee pf f st ts = Ok st' ->
  exists (f1 : nat) (st1 : pstate) (ts1 : toks),
    Independence.tops_run av sw ee pf f st ts f1 st1 ts1 /\
    parse_tops av sw ee pf f1 st1 ts1 = Ok st' /\
    (curis EOF ts1 = true /\ st1 = st' \/
     ttype (cur ts1) = CONST /\
     curis EOF ts1 = false /\
     (exists (f2 : nat) (c' : list (text * text)) (y : toks),
        f1 = S f2 /\
        Independence.top_step av sw ee pf f2 (pconsts st1) (ph st1) ts1 = Ok (c', ph st1, [], [], y) /\
        curis EOF y = true /\ parse_tops av sw ee pf f2 (Independence.st_add st1 c' (ph st1) [] []) (adv y) = Ok st')).
Proof. exact ProgramGrammar.parse_tops_tops_run. Qed.
Print Assumptions parse_tops_tops_run.

Theorem accepted_is_tops_run :
  forall (av : list (text * autovar)) (sw : list (text * text)) (ee : bool) (pf : toks -> res (token * text * text * toks)),
  Independence.format_advs pf ->
  forall (f : nat) (st : pstate) (ts : toks) (st' : pstate),
  ProgramGrammar.eof_only_last ts ->
  parse_tops av sw ee pf f st ts = Ok st' ->
  exists (f1 : nat) (st1 : pstate) (ts1 : toks),
    Independence.tops_run av sw ee pf f st ts f1 st1 ts1 /\
    parse_tops av sw ee pf f1 st1 ts1 = Ok st' /\
    ptops st1 = ptops st' /\
    ptexts st1 = ptexts st' /\
    ph st1 = ph st' /\
    (curis EOF ts1 = true /\ st1 = st' \/
     ttype (cur ts1) = CONST /\
     curis EOF ts1 = false /\
     (exists name v : text, pconsts st' = (name, v) :: pconsts st1 /\ ProgramGrammar.const_written (pconsts st1) ts1 name)).
Proof. exact ProgramGrammar.accepted_is_tops_run. Qed.
Print Assumptions accepted_is_tops_run.

Theorem lex_eof_only_last :
  forall (hl hd hs : N -> bool) (src : list N), ~ In 0%N src -> ProgramGrammar.eof_only_last (lex hl hd hs src).
Proof. exact ProgramGrammar.lex_eof_only_last. Qed.
Print Assumptions lex_eof_only_last.

Theorem source_accepted_is_tops_run :
  forall (hl hd hs : N -> bool) (av : list (text * autovar)) (sw : list (text * text)) (ee : bool) (fc : fontcfg) (cli_font : text)
    (cli_maxlen : Z) (src : list N) (f : nat) (st st' : pstate),
  ~ In 0%N src ->
  parse_tops av sw ee (parse_format fc cli_font cli_maxlen ee) f st (lex hl hd hs src) = Ok st' ->
  exists (f1 : nat) (st1 : pstate) (ts1 : toks),
    Independence.tops_run av sw ee (parse_format fc cli_font cli_maxlen ee) f st (lex hl hd hs src) f1 st1 ts1 /\
    parse_tops av sw ee (parse_format fc cli_font cli_maxlen ee) f1 st1 ts1 = Ok st' /\
    ptops st1 = ptops st' /\
    ptexts st1 = ptexts st' /\
    ph st1 = ph st' /\
    (curis EOF ts1 = true /\ st1 = st' \/
     ttype (cur ts1) = CONST /\
     curis EOF ts1 = false /\
     (exists name v : text, pconsts st' = (name, v) :: pconsts st1 /\ ProgramGrammar.const_written (pconsts st1) ts1 name)).
Proof. exact ProgramGrammar.source_accepted_is_tops_run. Qed.
Print Assumptions source_accepted_is_tops_run.

Theorem accepted_files_same_statements :
  forall (av : list (text * autovar)) (sw : list (text * text)) (ee : bool) (fc : fontcfg) (cli_font : text) (cli_maxlen : Z) 
    (ra rb : toks) (A X : list token),
  eof_ended ra ->
  eof_ended rb ->
  Independence.class_ok ra rb ->
  ProgramGrammar.eof_only_last (X ++ ra) ->
  ProgramGrammar.eof_only_last (A ++ X ++ rb) ->
  forall (l1 : list ProgramGrammar.piece) (f1 : nat) (s1 : pstate) (t1 : toks),
  ProgramGrammar.stmts_to av sw ee (parse_format fc cli_font cli_maxlen ee) (5 * Datatypes.length (X ++ ra) + 4) ProgramGrammar.pstate0
    (X ++ ra) l1 f1 s1 t1 ->
  ProgramGrammar.boundary l1 t1 ra ->
  forall (l2 : list ProgramGrammar.piece) (f2 : nat) (s2 : pstate) (t2 : toks),
  ProgramGrammar.stmts_to av sw ee (parse_format fc cli_font cli_maxlen ee) (5 * Datatypes.length (A ++ X ++ rb) + 4) ProgramGrammar.pstate0
    (A ++ X ++ rb) l2 f2 s2 t2 ->
  ProgramGrammar.boundary l2 t2 (X ++ rb) ->
  forall (la : list ProgramGrammar.piece) (g : nat) (sA : pstate),
  ProgramGrammar.stmts_to av sw ee (parse_format fc cli_font cli_maxlen ee) (5 * Datatypes.length (A ++ X ++ rb) + 4) ProgramGrammar.pstate0
    (A ++ X ++ rb) la g sA (X ++ rb) ->
  pconsts sA = [] ->
  ph sA = hst0 ->
  forall p : program,
  parse_program av sw ee (parse_format fc cli_font cli_maxlen ee) (A ++ X ++ rb) = Ok p ->
  exists (l1a l1b l2b : list ProgramGrammar.piece) (d' rt : list top) (ht rx : list textdef),
    l1 = l1a ++ l1b /\
    l2 = la ++ l2b /\
    Independence.shifted ra rb (ProgramGrammar.added_tops l1a) d' /\
    tops p = ProgramGrammar.added_tops la ++ d' ++ rt /\ texts p = ht ++ ProgramGrammar.added_texts la ++ ProgramGrammar.added_texts l1a ++ rx.
Proof. exact ProgramGrammar.accepted_files_same_statements. Qed.
Print Assumptions accepted_files_same_statements.

