(* C15 - Labels are exported or local exactly as written or as documented by default. *)
From Coq Require Import List ZArith Bool.
From Pory Require Import Lexer Ast Emitter EmitProps TopProps.
Import ListNotations.

(* in the code of a script (statement or inline map script) the script's own label carries the given scope, every label
   the compiler invents (name_<n>) is local, and every other label is one the author wrote, with the author's scope *)
Theorem script_label_scopes :
  forall mp tl name glob fs order is, render_chunks mp tl name glob fs order = Ok is ->
    forall n g, In (n, g) (labels_of is) ->
      (n = name /\ g = glob) \/ (exists i, n = lbl name i /\ g = false) \/
      (exists c, In c fs /\ In (n, g) (user_labels (cstmts c))).
Proof. exact render_chunks_label_scopes. Qed.
Print Assumptions script_label_scopes.

(* an exported label (::) in the code of a script is the script's own name, declared global, or a label the author marked (global) *)
Theorem exported_labels_of_a_script :
  forall mp tl name glob fs order is, render_chunks mp tl name glob fs order = Ok is ->
    forall n, In n (exported is) -> (n = name /\ glob = true) \/ exists c, In c fs /\ In (n, true) (user_labels (cstmts c)).
Proof. exact TopProps.exported_script. Qed.
Print Assumptions exported_labels_of_a_script.

(* a text block exports its label iff the text is global (hoisted texts are created local, see C06); movement steps, mart
   items and raw lines never define exported labels *)
Theorem exported_labels_of_a_text : forall mp x, exported (emit_text mp x) = glob_name (xname x) (xglob x).
Proof. exact TopProps.exported_text. Qed.
Print Assumptions exported_labels_of_a_text.

(* ---------- from the source text to the label lines (Scopes.v) ---------- *)
(* `modifier_of ts`: the scope modifier written after a keyword / label name - none, (global), (local); `declares default ts name g`:
   the statement at ts names `name` with scope g = what the modifier says, else the default; documented defaults: script, text,
   mapscripts global - movement, mart local.  Parser: every top-level statement and every label statement records exactly the
   written scope (the theorems named ..._scope_as_written, label_statement_scope, block_labels_as_written at every depth); hoisted texts and movements
   are local.  Emitter: every label line carries the recorded flag, every label the compiler invents is local
   (script_label_lines, top_label_lines, program_label_lines).  Printing: `::` iff exported.  compile_label_scopes: for every
   compiled source, every label line of the output is a declaration or label statement of the source with the written /
   default scope, or a compiler-invented local label. *)
From Coq Require Import String.
Open Scope list_scope.
From Pory Require Import Parser Format Consume Worklist ProgWf Scopes.
Theorem scope_modifier_reads :
  forall (default : bool) (ts : toks) (m : modifier),
  modifier_of ts = Some m -> scope_modifier default ts = Ok (scope_of default m, after_modifier m ts).
Proof. exact Scopes.scope_modifier_reads. Qed.
Print Assumptions scope_modifier_reads.

Theorem scope_modifier_rejects :
  forall (default : bool) (ts : toks), modifier_of ts = None -> exists e : perr, scope_modifier default ts = Err e.
Proof. exact Scopes.scope_modifier_rejects. Qed.
Print Assumptions scope_modifier_rejects.

Theorem scope_modifier_inv :
  forall (default : bool) (ts : toks) (g : bool) (ts' : toks),
  scope_modifier default ts = Ok (g, ts') -> exists m : modifier, modifier_of ts = Some m /\ g = scope_of default m /\ ts' = after_modifier m ts.
Proof. exact Scopes.scope_modifier_inv. Qed.
Print Assumptions scope_modifier_inv.

Theorem script_scope_as_written :
  forall (autovars : list (text * autovar)) (switches : list (text * text)) (env_errors : bool)
    (parse_format : toks -> res (token * text * text * toks)) (consts : list (text * text)) (f : nat) (ts : toks) (name : text) 
    (g : bool) (body : list stmt) (imp : impdata) (ts' : toks),
  parse_script autovars switches env_errors parse_format consts f ts = Ok (name, g, body, imp, ts') -> declares true ts name g.
Proof. exact Scopes.script_scope_as_written. Qed.
Print Assumptions script_scope_as_written.

Theorem text_scope_as_written :
  forall (switches : list (text * text)) (env_errors : bool) (parse_format : toks -> res (token * text * text * toks)) 
    (f : nat) (ts : toks) (td : textdef) (ts' : toks),
  parse_text switches env_errors parse_format f ts = Ok (td, ts') -> declares true ts (xname td) (xglob td).
Proof. exact Scopes.text_scope_as_written. Qed.
Print Assumptions text_scope_as_written.

Theorem movement_scope_as_written :
  forall (switches : list (text * text)) (env_errors : bool) (f : nat) (ts : toks) (tp : top) (ts' : toks),
  parse_movement switches env_errors f ts = Ok (tp, ts') ->
  exists (name : text) (g : bool) (steps : list token), tp = TMovement name g (cur ts) steps /\ declares false ts name g.
Proof. exact Scopes.movement_scope_as_written. Qed.
Print Assumptions movement_scope_as_written.

Theorem mart_scope_as_written :
  forall (switches : list (text * text)) (env_errors : bool) (consts : list (text * text)) (f : nat) (ts : toks) (tp : top) (ts' : toks),
  parse_mart switches env_errors consts f ts = Ok (tp, ts') ->
  exists (name : text) (g : bool) (items : list text) (itoks : list token), tp = TMart name g (cur ts) items itoks /\ declares false ts name g.
Proof. exact Scopes.mart_scope_as_written. Qed.
Print Assumptions mart_scope_as_written.

Theorem mapscripts_scope_as_written :
  forall (autovars : list (text * autovar)) (switches : list (text * text)) (env_errors : bool)
    (parse_format : toks -> res (token * text * text * toks)) (consts : list (text * text)) (f : nat) (ts : toks) (tp : top) 
    (imp : impdata) (ts' : toks),
  parse_mapscripts autovars switches env_errors parse_format consts f ts = Ok (tp, imp, ts') ->
  exists (name : text) (g : bool) (plain : list mapscript) (tables : list tablems),
    tp = TMapScripts name g plain tables /\ declares true ts name g.
Proof. exact Scopes.mapscripts_scope_as_written. Qed.
Print Assumptions mapscripts_scope_as_written.

Theorem documented_defaults :
  forall (autovars : list (text * autovar)) (switches : list (text * text)) (env_errors : bool)
    (parse_format : toks -> res (token * text * text * toks)) (ts : toks) (kw : toktype) (n : text) (g : bool),
  recorded autovars switches env_errors parse_format ts kw n g ->
  peekis LPAREN ts = false -> g = match kw with
                                  | SCRIPT | TEXT | MAPSCRIPTS => true
                                  | _ => false
                                  end.
Proof. exact Scopes.documented_defaults. Qed.
Print Assumptions documented_defaults.

Theorem global_modifier_is_recorded :
  forall (autovars : list (text * autovar)) (switches : list (text * text)) (env_errors : bool)
    (parse_format : toks -> res (token * text * text * toks)) (ts : toks) (kw : toktype) (n : text) (g : bool),
  recorded autovars switches env_errors parse_format ts kw n g -> peekis LPAREN ts = true -> is GLOBAL (pk 2 ts) = true -> g = true.
Proof. exact Scopes.global_modifier_is_recorded. Qed.
Print Assumptions global_modifier_is_recorded.

Theorem local_modifier_is_recorded :
  forall (autovars : list (text * autovar)) (switches : list (text * text)) (env_errors : bool)
    (parse_format : toks -> res (token * text * text * toks)) (ts : toks) (kw : toktype) (n : text) (g : bool),
  recorded autovars switches env_errors parse_format ts kw n g -> peekis LPAREN ts = true -> is LOCAL (pk 2 ts) = true -> g = false.
Proof. exact Scopes.local_modifier_is_recorded. Qed.
Print Assumptions local_modifier_is_recorded.

Theorem try_label_reads :
  forall (ts : toks) (g : bool), label_written ts g -> try_label ts = Some (SLabel (tlit (cur ts)) g (cur ts), at_colon ts).
Proof. exact Scopes.try_label_reads. Qed.
Print Assumptions try_label_reads.

Theorem try_label_inv :
  forall (ts : toks) (s : stmt) (ts' : toks),
  try_label ts = Some (s, ts') -> exists g : bool, label_written ts g /\ s = SLabel (tlit (cur ts)) g (cur ts) /\ ts' = at_colon ts.
Proof. exact Scopes.try_label_inv. Qed.
Print Assumptions try_label_inv.

Theorem label_statement_scope :
  forall (autovars : list (text * autovar)) (switches : list (text * text)) (env_errors : bool)
    (parse_format : toks -> res (token * text * text * toks)) (consts : list (text * text)) (f : nat) (script : text) 
    (bs cs : list nat) (ts : toks) (g : bool),
  ttype (cur ts) = IDENT ->
  label_written ts g ->
  parse_stmt autovars switches env_errors parse_format consts (S f) script bs cs ts =
  Ok ([SLabel (tlit (cur ts)) g (cur ts)], imp0, at_colon ts).
Proof. exact Scopes.label_statement_scope. Qed.
Print Assumptions label_statement_scope.

Theorem block_labels_as_written :
  forall (autovars : list (text * autovar)) (switches : list (text * text)) (env_errors : bool)
    (parse_format : toks -> res (token * text * text * toks)) (consts : list (text * text)),
  (forall (ts : toks) (tk : token) (v sty : text) (ts' : toks),
   parse_format ts = Ok (tk, v, sty, ts') -> forall a : toks, advs a ts -> advs a ts') ->
  forall (f : nat) (script : text) (bs cs : list nat) (start : token) (ts : toks) (ss : list stmt) (imp : impdata) (ts' base : toks),
  parse_block autovars switches env_errors parse_format consts f script bs cs start ts [] imp0 = Ok (ss, imp, ts') ->
  advs base ts -> forall (n : text) (g : bool) (tk : token), In (n, g, tk) (deep_labels ss) -> label_at base n g tk.
Proof. exact Scopes.block_labels_as_written. Qed.
Print Assumptions block_labels_as_written.

Theorem hoisted_are_local :
  forall (imp : impdata) (h h' : hst) (ps : list patch),
  add_implicit imp h = (h', ps) ->
  Forall hoisted_text (htexts h) -> Forall hoisted_movement (hmovs h) -> Forall hoisted_text (htexts h') /\ Forall hoisted_movement (hmovs h').
Proof. exact Scopes.hoisted_are_local. Qed.
Print Assumptions hoisted_are_local.

Theorem program_scopes_as_written :
  forall (autovars : list (text * autovar)) (switches : list (text * text)) (env_errors : bool)
    (parse_format : toks -> res (token * text * text * toks)),
  (forall (ts : toks) (tk : token) (v sty : text) (ts' : toks),
   parse_format ts = Ok (tk, v, sty, ts') -> forall a : toks, advs a ts -> advs a ts') ->
  forall (ts : toks) (p : program),
  parse_program autovars switches env_errors parse_format ts = Ok p -> Forall (top_scope_ok ts) (tops p) /\ Forall (text_scope_ok ts) (texts p).
Proof. exact Scopes.program_scopes_as_written. Qed.
Print Assumptions program_scopes_as_written.

Theorem text_label_line :
  forall (mp : option text) (x : textdef), labels_of (emit_text mp x) = [(xname x, xglob x)].
Proof. exact Scopes.text_label_line. Qed.
Print Assumptions text_label_line.

Theorem movement_label_line :
  forall (mp : option text) (name : text) (glob : bool) (tk : token) (steps : list token),
  labels_of (emit_movement mp name glob tk steps) = [(name, glob)].
Proof. exact Scopes.movement_label_line. Qed.
Print Assumptions movement_label_line.

Theorem mart_label_line :
  forall (mp : option text) (name : text) (glob : bool) (tk : token) (items : list text) (itoks : list token),
  labels_of (emit_mart mp name glob tk items itoks) = [(name, glob)].
Proof. exact Scopes.mart_label_line. Qed.
Print Assumptions mart_label_line.

Theorem label_statement_rendered :
  forall (mp : option text) (n : text) (g : bool) (tk : token), render_stmt mp (SLabel n g tk) = marker mp (tline tk) ++ [ILabel n g].
Proof. exact Scopes.label_statement_rendered. Qed.
Print Assumptions label_statement_rendered.

Theorem script_label_lines :
  forall (mp : option text) (tl : list text) (name : text) (glob optimize : bool) (body : list stmt) (is : list instr),
  emit_script mp tl name glob optimize body = Emitter.Ok is ->
  src_ok body -> exists subs : list Z, ~ In 0%Z subs /\ Permutation.Permutation (labels_of is) (script_labels name glob subs body).
Proof. exact Scopes.script_label_lines. Qed.
Print Assumptions script_label_lines.

Theorem script_code_starts_with_own_label :
  forall (mp : option text) (tl : list text) (name : text) (glob optimize : bool) (body : list stmt) (is : list instr),
  emit_script mp tl name glob optimize body = Emitter.Ok is -> src_ok body -> exists rest : list instr, is = ILabel name glob :: rest.
Proof. exact Scopes.script_code_starts_with_own_label. Qed.
Print Assumptions script_code_starts_with_own_label.

Theorem top_label_lines :
  forall (mp : option text) (tl : list text) (optimize : bool) (tp : top) (is : list instr),
  emit_top mp tl optimize tp = Some (Emitter.Ok is) ->
  scripts_ok (top_scripts tp) ->
  (forall (n : text) (g : bool), In (ILabel n g) is -> top_may tp n g) /\ (forall (n : text) (g : bool), top_must tp n g -> In (ILabel n g) is).
Proof. exact Scopes.top_label_lines. Qed.
Print Assumptions top_label_lines.

Theorem program_label_lines :
  forall (optimize : bool) (mp : option text) (p : program) (is : list instr),
  emit_program_instrs optimize mp p = Emitter.Ok is ->
  Forall src_ok (bodies_of (tops p)) ->
  (forall (n : text) (g : bool),
   In (ILabel n g) is ->
   (exists tp : top, In tp (tops p) /\ top_may tp n g) \/ (exists x : textdef, In x (texts p) /\ n = xname x /\ g = xglob x)) /\
  (forall (n : text) (g : bool),
   (exists tp : top, In tp (tops p) /\ top_must tp n g) \/ (exists x : textdef, In x (texts p) /\ n = xname x /\ g = xglob x) ->
   In (ILabel n g) is).
Proof. exact Scopes.program_label_lines. Qed.
Print Assumptions program_label_lines.

Theorem label_line_printed :
  forall (path n : text) (g : bool), print_instr path (ILabel n g) = n ++ (if g then t "::" else t ":") ++ nl.
Proof. exact Scopes.label_line_printed. Qed.
Print Assumptions label_line_printed.

Theorem exported_iff_double_colon :
  forall (path n : text) (g : bool), print_instr path (ILabel n g) = n ++ t "::" ++ nl <-> g = true.
Proof. exact Scopes.exported_iff_double_colon. Qed.
Print Assumptions exported_iff_double_colon.

Theorem local_iff_single_colon :
  forall (path n : text) (g : bool), print_instr path (ILabel n g) = n ++ t ":" ++ nl <-> g = false.
Proof. exact Scopes.local_iff_single_colon. Qed.
Print Assumptions local_iff_single_colon.

Theorem source_label_lines_as_written :
  forall (hl hd hs : N -> bool) (autovars : list (text * autovar)) (switches : list (text * text)) (ee : bool) (fc : fontcfg) 
    (cli_font : text) (cli_maxlen : Z) (src : text) (p : program) (optimize : bool) (mp : option text) (code : list instr),
  parse_program autovars switches ee (parse_format fc cli_font cli_maxlen ee) (lex hl hd hs src) = Ok p ->
  emit_program_instrs optimize mp p = Emitter.Ok code ->
  forall (n : text) (g : bool),
  In (ILabel n g) code ->
  (exists kw : toktype, In kw naming_keywords /\ declared (lex hl hd hs src) kw n g) \/
  (exists tk : token, label_at (lex hl hd hs src) n g tk) \/ g = false /\ invented_label p n.
Proof. exact Scopes.source_label_lines_as_written. Qed.
Print Assumptions source_label_lines_as_written.

Theorem source_exported_labels_are_written :
  forall (hl hd hs : N -> bool) (autovars : list (text * autovar)) (switches : list (text * text)) (ee : bool) (fc : fontcfg) 
    (cli_font : text) (cli_maxlen : Z) (src : text) (p : program) (optimize : bool) (mp : option text) (code : list instr),
  parse_program autovars switches ee (parse_format fc cli_font cli_maxlen ee) (lex hl hd hs src) = Ok p ->
  emit_program_instrs optimize mp p = Emitter.Ok code ->
  forall n : text,
  In (ILabel n true) code ->
  (exists (kw : toktype) (ts' : toks),
     In kw naming_keywords /\
     advs (lex hl hd hs src) ts' /\
     ttype (cur ts') = kw /\ (modifier_of ts' = Some MGlobal \/ modifier_of ts' = Some MNone /\ default_scope kw = true)) \/
  (exists ts' : toks,
     advs (lex hl hd hs src) ts' /\
     ttype (cur ts') = IDENT /\
     n = tlit (cur ts') /\
     is LPAREN (pk 1 ts') = true /\ is GLOBAL (pk 2 ts') = true /\ is RPAREN (pk 3 ts') = true /\ is COLON (pk 4 ts') = true).
Proof. exact Scopes.source_exported_labels_are_written. Qed.
Print Assumptions source_exported_labels_are_written.

Theorem source_declared_labels_are_emitted :
  forall (hl hd hs : N -> bool) (autovars : list (text * autovar)) (switches : list (text * text)) (ee : bool) (fc : fontcfg) 
    (cli_font : text) (cli_maxlen : Z) (src : text) (p : program) (optimize : bool) (mp : option text) (code : list instr),
  parse_program autovars switches ee (parse_format fc cli_font cli_maxlen ee) (lex hl hd hs src) = Ok p ->
  emit_program_instrs optimize mp p = Emitter.Ok code ->
  (forall (n : text) (g : bool) (b : list stmt),
   In (TScript n g b) (tops p) ->
   In (ILabel n g) code /\ (forall (n' : text) (g' : bool) (tk : token), In (n', g', tk) (deep_labels b) -> In (ILabel n' g') code)) /\
  (forall (n : text) (g : bool) (tk : token) (steps : list token), In (TMovement n g tk steps) (tops p) -> In (ILabel n g) code) /\
  (forall (n : text) (g : bool) (tk : token) (items : list text) (itoks : list token),
   In (TMart n g tk items itoks) (tops p) -> In (ILabel n g) code) /\
  (forall (n : text) (g : bool) (plain : list mapscript) (tables : list tablems),
   In (TMapScripts n g plain tables) (tops p) ->
   In (ILabel n g) code /\
   (forall tb : tablems, In tb tables -> In (ILabel (tmName tb) false) code) /\
   (forall (sn : text) (b : list stmt),
    In (sn, b) (inline_scripts plain tables) ->
    In (ILabel sn false) code /\ (forall (n' : text) (g' : bool) (tk : token), In (n', g', tk) (deep_labels b) -> In (ILabel n' g') code))) /\
  (forall x : textdef, In x (texts p) -> In (ILabel (xname x) (xglob x)) code).
Proof. exact Scopes.source_declared_labels_are_emitted. Qed.
Print Assumptions source_declared_labels_are_emitted.

Theorem source_scopes_as_written :
  forall (hl hd hs : N -> bool) (autovars : list (text * autovar)) (switches : list (text * text)) (ee : bool) (fc : fontcfg) 
    (cli_font : text) (cli_maxlen : Z) (src : text) (p : program),
  parse_program autovars switches ee (parse_format fc cli_font cli_maxlen ee) (lex hl hd hs src) = Ok p ->
  Forall (top_scope_ok (lex hl hd hs src)) (tops p) /\ Forall (text_scope_ok (lex hl hd hs src)) (texts p).
Proof. exact Scopes.source_scopes_as_written. Qed.
Print Assumptions source_scopes_as_written.

Theorem compile_label_scopes :
  forall (hl hd hs : N -> bool) (autovars : list (text * autovar)) (switches : list (text * text)) (ee : bool) (fc : fontcfg) 
    (cli_font : text) (cli_maxlen : Z) (optimize : bool) (mp : option text) (src out : text),
  Compile.compile hl hd hs autovars switches ee fc cli_font cli_maxlen optimize mp src = Compile.OutText out ->
  let ts := lex hl hd hs src in
  exists (p : program) (code : list instr),
    parse_program autovars switches ee (parse_format fc cli_font cli_maxlen ee) ts = Ok p /\
    emit_program_instrs optimize mp p = Emitter.Ok code /\
    out = print_instrs mp code /\
    (forall (n : text) (g : bool),
     In (ILabel n g) code ->
     (exists kw : toktype, In kw naming_keywords /\ declared ts kw n g) \/
     (exists tk : token, label_at ts n g tk) \/ g = false /\ invented_label p n) /\
    (forall (n : text) (g : bool),
     In (ILabel n g) code -> exists pre post : list N, out = pre ++ (n ++ (if g then t "::" else t ":") ++ nl) ++ post).
Proof. exact Scopes.compile_label_scopes. Qed.
Print Assumptions compile_label_scopes.

