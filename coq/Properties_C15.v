(* C15 - Labels are exported or local exactly as written or as documented by default. *)
From Coq Require Import List ZArith Bool.
From Pory Require Import Lexer Ast Emitter EmitProps TopProps.
Import ListNotations.

(* in the code of a script (statement or inline map script) the script's own label carries the given scope, every label
   the compiler invents (name_<n>) is local, and every other label is one the author wrote, with the author's scope *)
Theorem script_label_scopes :
  forall mp tl name glob fs order is, render_chunks mp tl name glob fs order = Ok is ->
    forall n g, In (n, g) (labels_of is) ->
      (n = name /\ g = glob) \/ (exists i, n = lbl name i /\ g = false) \/
      (exists c, In c fs /\ In (n, g) (user_labels (cstmts c))).
Proof. exact render_chunks_label_scopes. Qed.
Print Assumptions script_label_scopes.

(* an exported label (::) in the code of a script is the script's own name, declared global, or a label the author marked (global) *)
Theorem exported_labels_of_a_script :
  forall mp tl name glob fs order is, render_chunks mp tl name glob fs order = Ok is ->
    forall n, In n (exported is) -> (n = name /\ glob = true) \/ exists c, In c fs /\ In (n, true) (user_labels (cstmts c)).
Proof. exact TopProps.exported_script. Qed.
Print Assumptions exported_labels_of_a_script.

(* a text block exports its label iff the text is global (hoisted texts are created local, see C06); movement steps, mart
   items and raw lines never define exported labels *)
Theorem exported_labels_of_a_text : forall mp x, exported (emit_text mp x) = glob_name (xname x) (xglob x).
Proof. exact TopProps.exported_text. Qed.
Print Assumptions exported_labels_of_a_text.
