(* C15 - Labels are exported or local exactly as written or as documented by default. *)
From Coq Require Import List ZArith Bool.
From Pory Require Import Lexer Ast Emitter EmitProps.
Import ListNotations.

(* in the code of a script (statement or inline map script) the script's own label carries the given scope, every label
   the compiler invents (name_<n>) is local, and every other label is one the author wrote, with the author's scope *)
Theorem script_label_scopes :
  forall mp tl name glob fs order is, render_chunks mp tl name glob fs order = Ok is ->
    forall n g, In (n, g) (labels_of is) ->
      (n = name /\ g = glob) \/ (exists i, n = lbl name i /\ g = false) \/
      (exists c, In c fs /\ In (n, g) (user_labels (cstmts c))).
Proof. exact render_chunks_label_scopes. Qed.
Print Assumptions script_label_scopes.
