(* C02 - Conditions branch on the value of the written boolean expression. *)
From Coq Require Import List String ZArith Bool Lia.
Open Scope string_scope. Open Scope list_scope.
From Pory Require Import Lexer Ast Emitter Sem2 Tr SpecLemmas Tables TablesOK Parser BexpParse.
Import ListNotations.

(* emitter side (T3): a chain of one-test chunks built for an expression reaches the success target iff the
   expression is true, evaluating leaves (and their AutoVar preambles) in source order with short-circuit *)
Theorem cond_chain_correct :
  forall (St : Type) (exec : cmd -> St -> stepres St) (flag_set trainer_beaten : text -> St -> bool)
         (cmp_var cmp_var_value : text -> text -> St -> comparison) (case_matches : text -> text -> St -> bool)
         (G : list chunk), (forall i c, get_chunk G i = Some c -> (0 <= i)%Z) -> forall (e : bexp) (en su fa : Z),
    tr_cond G e en su fa ->
    forall s ev s' r, eval_bexp St exec flag_set trainer_beaten cmp_var cmp_var_value e s = (ev, s', r) ->
    exists j, (1 <= j)%nat /\
      steps (@gfinal) (gstep St exec flag_set trainer_beaten cmp_var cmp_var_value case_matches G) j (ggoto G en) s ev
            (cond_target G su fa r) s'.
Proof. exact cond_sim. Qed.
Print Assumptions cond_chain_correct.

(* the reference evaluation is the usual reading: without preambles the result is the boolean value and the state is unchanged *)
Theorem eval_is_boolean_value :
  forall (St : Type) (exec : cmd -> St -> stepres St) (flag_set trainer_beaten : text -> St -> bool)
         (cmp_var cmp_var_value : text -> text -> St -> comparison) (e : bexp) (s : St),
    pure e -> eval_bexp St exec flag_set trainer_beaten cmp_var cmp_var_value e s =
              ([], s, Some (bvalue St flag_set trainer_beaten cmp_var cmp_var_value e s)).
Proof. exact eval_pure. Qed.
Print Assumptions eval_is_boolean_value.

(* the negation used for '!' is getNegatedBooleanOperator of parser/parser.go (regenerated from /repo on every run) *)
Theorem negation_is_the_go_table :
  (forall o, tok_of_cmpop (negate_op o) = lookup_neg go_negation (tok_of_cmpop o)) /\
  (forall o, tok_of_bop (negate_bop o) = lookup_neg go_negation (tok_of_bop o)).
Proof. split; [exact negation_agree_cmp|exact negation_agree_bop]. Qed.
Print Assumptions negation_is_the_go_table.

(* ---------- parser side (T1): the recursive-descent parser builds the tree of the usual reading ---------- *)
(* Surface grammar (BexpParse.v):  expr ::= atom tail;  tail ::= empty | && atom tail | || expr;  atom ::= LEAF | ( expr ) | !( expr ).
   For every such expression (any number of leaves, any nesting, redundant parentheses included) the parser, started after
   the opening parenthesis of a condition, consumes exactly its tokens and returns a tree whose evaluation - AutoVar commands run,
   final state, value, short-circuit points - is the left-to-right short-circuit evaluation of the written expression,
   '!( )' having been pushed to the leaves. *)
Theorem condition_parses_to_its_meaning :
  forall autovars switches env_errors parse_format consts script F0
         (St : Type) (exec : cmd -> St -> stepres St) (flag_set trainer_beaten : text -> St -> bool)
         (cmp_var cmp_var_value : text -> text -> St -> comparison) e lp rest f,
  wf_expr autovars switches env_errors parse_format consts script F0 e -> lok_expr e ->
  (need_expr F0 e <= f)%nat -> stop rest ->
  exists T imp', bool_expr autovars switches env_errors parse_format consts f false false script (lp :: print_expr e ++ rest) = Parser.Ok (T, imp', rest) /\
    imp_eq imp' (imp_expr e) /\
    forall s, eval_bexp St exec flag_set trainer_beaten cmp_var cmp_var_value T s =
              sev_expr St exec flag_set trainer_beaten cmp_var cmp_var_value e s.
Proof. exact BexpParse.condition_parses_to_its_meaning. Qed.
Print Assumptions condition_parses_to_its_meaning.

(* without AutoVar leaves the value is: OR over the '||'-separated groups of the AND over their '&&'-separated atoms,
   an atom being a leaf, a parenthesised expression, or the negation of one *)
Theorem condition_value_is_precedence_reading :
  forall autovars switches env_errors parse_format consts script F0
         (St : Type) (exec : cmd -> St -> stepres St) (flag_set trainer_beaten : text -> St -> bool)
         (cmp_var cmp_var_value : text -> text -> St -> comparison) e lp rest f,
  wf_expr autovars switches env_errors parse_format consts script F0 e -> lok_expr e -> pure_expr e ->
  (need_expr F0 e <= f)%nat -> stop rest ->
  exists T imp', bool_expr autovars switches env_errors parse_format consts f false false script (lp :: print_expr e ++ rest) = Parser.Ok (T, imp', rest) /\
    forall s, eval_bexp St exec flag_set trainer_beaten cmp_var cmp_var_value T s =
              ([], s, Some (existsb (forallb (den_atom St flag_set trainer_beaten cmp_var cmp_var_value s)) (flat_expr e))).
Proof. exact BexpParse.condition_value_is_precedence_reading. Qed.
Print Assumptions condition_value_is_precedence_reading.

(* the premises are met: the leaf parser satisfies leaf_spec on the four leaf forms without AutoVar command and without value() *)
Theorem leaf_forms_parse :
  forall autovars switches env_errors parse_format consts script F0, (1 <= F0)%nat ->
  (forall k lp ops rp, kindtok k -> ttype lp = LPAREN -> operand_ok ops -> ttype rp = RPAREN ->
     leaf_spec autovars switches env_errors parse_format consts script F0 (k :: lp :: ops ++ [rp])
       (mkleaf consts k ops (match kind_of k with KVar => ONe | _ => OEq end) (match kind_of k with KVar => t "0" | _ => t "TRUE" end) false) imp0) /\
  (forall nt k lp ops rp, ttype nt = NOT -> kindtok k -> ttype lp = LPAREN -> operand_ok ops -> ttype rp = RPAREN ->
     leaf_spec autovars switches env_errors parse_format consts script F0 (nt :: k :: lp :: ops ++ [rp])
       (mkleaf consts k ops OEq (match kind_of k with KVar => t "0" | _ => t "FALSE" end) false) imp0) /\
  (forall k lp ops rp o v, ttype k = FLAG \/ ttype k = DEFEATED -> ttype lp = LPAREN -> operand_ok ops -> ttype rp = RPAREN ->
     ttype o = EQ \/ ttype o = NEQ -> ttype v = TRUE \/ ttype v = FALSE ->
     leaf_spec autovars switches env_errors parse_format consts script F0 (k :: lp :: ops ++ [rp; o; v])
       (mkleaf consts k ops (if is EQ o then OEq else ONe) (if is TRUE v then t "TRUE" else t "FALSE") false) imp0) /\
  (forall k lp ops rp o op vals, ttype k = VAR -> ttype lp = LPAREN -> operand_ok ops -> ttype rp = RPAREN ->
     is_cmp_tok o = Some op -> value_ok vals ->
     leaf_spec autovars switches env_errors parse_format consts script F0 (k :: lp :: ops ++ rp :: o :: vals)
       (mkleaf consts k ops op (opnd consts vals) false) imp0).
Proof.
  intros autovars switches env_errors parse_format consts script F0 HF. split; [|split; [|split]].
  - intros; apply leaf_bare; assumption.
  - intros; apply leaf_not; assumption.
  - intros; apply leaf_flagcmp; assumption.
  - intros; apply leaf_varcmp; assumption.
Qed.
Print Assumptions leaf_forms_parse.

(* and those leaves mean what the manual says *)
Theorem leaf_forms_mean :
  forall consts (St : Type) (flag_set trainer_beaten : text -> St -> bool) (cmp_var cmp_var_value : text -> text -> St -> comparison),
  (forall k ops (eq tr : bool) s, ttype k = FLAG ->
     leaf_holds St flag_set trainer_beaten cmp_var cmp_var_value
       (mkleaf consts k ops (if eq then OEq else ONe) (if tr then t "TRUE" else t "FALSE") false) s =
     Bool.eqb (flag_set (opnd consts ops) s) (Bool.eqb eq tr)) /\
  (forall k ops (eq tr : bool) s, ttype k = DEFEATED ->
     leaf_holds St flag_set trainer_beaten cmp_var cmp_var_value
       (mkleaf consts k ops (if eq then OEq else ONe) (if tr then t "TRUE" else t "FALSE") false) s =
     Bool.eqb (trainer_beaten (opnd consts ops) s) (Bool.eqb eq tr)) /\
  (forall k ops o v s, ttype k = VAR ->
     leaf_holds St flag_set trainer_beaten cmp_var cmp_var_value (mkleaf consts k ops o v false) s =
     cmp_holds o (cmp_var (opnd consts ops) v s)).
Proof.
  intros. split; [|split].
  - exact (flag_leaf_meaning consts St flag_set trainer_beaten cmp_var cmp_var_value).
  - exact (defeated_leaf_meaning consts St flag_set trainer_beaten cmp_var cmp_var_value).
  - exact (var_leaf_meaning consts St flag_set trainer_beaten cmp_var cmp_var_value).
Qed.
Print Assumptions leaf_forms_mean.

(* non-vacuity: flag(A) && !(var(B) == 1 || !defeated(T)) || flag(C) meets every premise above *)
Theorem premises_hold_for_an_example :
  forall autovars switches env_errors parse_format consts script,
  wf_expr autovars switches env_errors parse_format consts script 1 (e_ex consts) /\ lok_expr (e_ex consts) /\ pure_expr (e_ex consts).
Proof. exact BexpParse.premises_hold. Qed.
Print Assumptions premises_hold_for_an_example.
