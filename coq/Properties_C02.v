(* C02 - Conditions branch on the value of the written boolean expression. *)
From Coq Require Import List String ZArith Bool Lia.
Open Scope string_scope. Open Scope list_scope.
From Pory Require Import Lexer Ast Emitter Sem2 Tr SpecLemmas Tables TablesOK Parser BexpParse.
Import ListNotations.

(* emitter side (T3): a chain of one-test chunks built for an expression reaches the success target iff the
   expression is true, evaluating leaves (and their AutoVar preambles) in source order with short-circuit *)
Theorem cond_chain_correct :
  forall (St : Type) (exec : cmd -> St -> stepres St) (flag_set trainer_beaten : text -> St -> bool)
         (cmp_var cmp_var_value : text -> text -> St -> comparison) (case_matches : text -> text -> St -> bool)
         (G : list chunk), (forall i c, get_chunk G i = Some c -> (0 <= i)%Z) -> forall (e : bexp) (en su fa : Z),
    tr_cond G e en su fa ->
    forall s ev s' r, eval_bexp St exec flag_set trainer_beaten cmp_var cmp_var_value e s = (ev, s', r) ->
    exists j, (1 <= j)%nat /\
      steps (@gfinal) (gstep St exec flag_set trainer_beaten cmp_var cmp_var_value case_matches G) j (ggoto G en) s ev
            (cond_target G su fa r) s'.
Proof. exact cond_sim. Qed.
Print Assumptions cond_chain_correct.

(* the reference evaluation is the usual reading: without preambles the result is the boolean value and the state is unchanged *)
Theorem eval_is_boolean_value :
  forall (St : Type) (exec : cmd -> St -> stepres St) (flag_set trainer_beaten : text -> St -> bool)
         (cmp_var cmp_var_value : text -> text -> St -> comparison) (e : bexp) (s : St),
    pure e -> eval_bexp St exec flag_set trainer_beaten cmp_var cmp_var_value e s =
              ([], s, Some (bvalue St flag_set trainer_beaten cmp_var cmp_var_value e s)).
Proof. exact eval_pure. Qed.
Print Assumptions eval_is_boolean_value.

(* the negation used for '!' is getNegatedBooleanOperator of parser/parser.go (regenerated from /repo on every run) *)
Theorem negation_is_the_go_table :
  (forall o, tok_of_cmpop (negate_op o) = lookup_neg go_negation (tok_of_cmpop o)) /\
  (forall o, tok_of_bop (negate_bop o) = lookup_neg go_negation (tok_of_bop o)).
Proof. split; [exact negation_agree_cmp|exact negation_agree_bop]. Qed.
Print Assumptions negation_is_the_go_table.

(* ---------- parser side (T1): the recursive-descent parser builds the tree of the usual reading ---------- *)
(* Surface grammar (BexpParse.v):  expr ::= atom tail;  tail ::= empty | && atom tail | || expr;  atom ::= LEAF | ( expr ) | !( expr ).
   For every such expression (any number of leaves, any nesting, redundant parentheses included) the parser, started after
   the opening parenthesis of a condition, consumes exactly its tokens and returns a tree whose evaluation - AutoVar commands run,
   final state, value, short-circuit points - is the left-to-right short-circuit evaluation of the written expression,
   '!( )' having been pushed to the leaves. *)
Theorem condition_parses_to_its_meaning :
  forall autovars switches env_errors parse_format consts script F0
         (St : Type) (exec : cmd -> St -> stepres St) (flag_set trainer_beaten : text -> St -> bool)
         (cmp_var cmp_var_value : text -> text -> St -> comparison) e lp rest f,
  wf_expr autovars switches env_errors parse_format consts script F0 e -> lok_expr e ->
  (need_expr F0 e <= f)%nat -> stop rest ->
  exists T imp', bool_expr autovars switches env_errors parse_format consts f false false script (lp :: print_expr e ++ rest) = Parser.Ok (T, imp', rest) /\
    imp_eq imp' (imp_expr e) /\
    forall s, eval_bexp St exec flag_set trainer_beaten cmp_var cmp_var_value T s =
              sev_expr St exec flag_set trainer_beaten cmp_var cmp_var_value e s.
Proof. exact BexpParse.condition_parses_to_its_meaning. Qed.
Print Assumptions condition_parses_to_its_meaning.

(* without AutoVar leaves the value is: OR over the '||'-separated groups of the AND over their '&&'-separated atoms,
   an atom being a leaf, a parenthesised expression, or the negation of one *)
Theorem condition_value_is_precedence_reading :
  forall autovars switches env_errors parse_format consts script F0
         (St : Type) (exec : cmd -> St -> stepres St) (flag_set trainer_beaten : text -> St -> bool)
         (cmp_var cmp_var_value : text -> text -> St -> comparison) e lp rest f,
  wf_expr autovars switches env_errors parse_format consts script F0 e -> lok_expr e -> pure_expr e ->
  (need_expr F0 e <= f)%nat -> stop rest ->
  exists T imp', bool_expr autovars switches env_errors parse_format consts f false false script (lp :: print_expr e ++ rest) = Parser.Ok (T, imp', rest) /\
    forall s, eval_bexp St exec flag_set trainer_beaten cmp_var cmp_var_value T s =
              ([], s, Some (existsb (forallb (den_atom St flag_set trainer_beaten cmp_var cmp_var_value s)) (flat_expr e))).
Proof. exact BexpParse.condition_value_is_precedence_reading. Qed.
Print Assumptions condition_value_is_precedence_reading.

(* the premises are met: the leaf parser satisfies leaf_spec on the four leaf forms without AutoVar command and without value() *)
Theorem leaf_forms_parse :
  forall autovars switches env_errors parse_format consts script F0, (1 <= F0)%nat ->
  (forall k lp ops rp, kindtok k -> ttype lp = LPAREN -> operand_ok ops -> ttype rp = RPAREN ->
     leaf_spec autovars switches env_errors parse_format consts script F0 (k :: lp :: ops ++ [rp])
       (mkleaf consts k ops (match kind_of k with KVar => ONe | _ => OEq end) (match kind_of k with KVar => t "0" | _ => t "TRUE" end) false) imp0) /\
  (forall nt k lp ops rp, ttype nt = NOT -> kindtok k -> ttype lp = LPAREN -> operand_ok ops -> ttype rp = RPAREN ->
     leaf_spec autovars switches env_errors parse_format consts script F0 (nt :: k :: lp :: ops ++ [rp])
       (mkleaf consts k ops OEq (match kind_of k with KVar => t "0" | _ => t "FALSE" end) false) imp0) /\
  (forall k lp ops rp o v, ttype k = FLAG \/ ttype k = DEFEATED -> ttype lp = LPAREN -> operand_ok ops -> ttype rp = RPAREN ->
     ttype o = EQ \/ ttype o = NEQ -> ttype v = TRUE \/ ttype v = FALSE ->
     leaf_spec autovars switches env_errors parse_format consts script F0 (k :: lp :: ops ++ [rp; o; v])
       (mkleaf consts k ops (if is EQ o then OEq else ONe) (if is TRUE v then t "TRUE" else t "FALSE") false) imp0) /\
  (forall k lp ops rp o op vals, ttype k = VAR -> ttype lp = LPAREN -> operand_ok ops -> ttype rp = RPAREN ->
     is_cmp_tok o = Some op -> value_ok vals ->
     leaf_spec autovars switches env_errors parse_format consts script F0 (k :: lp :: ops ++ rp :: o :: vals)
       (mkleaf consts k ops op (opnd consts vals) false) imp0).
Proof.
  intros autovars switches env_errors parse_format consts script F0 HF. split; [|split; [|split]].
  - intros; apply leaf_bare; assumption.
  - intros; apply leaf_not; assumption.
  - intros; apply leaf_flagcmp; assumption.
  - intros; apply leaf_varcmp; assumption.
Qed.
Print Assumptions leaf_forms_parse.

(* and those leaves mean what the manual says *)
Theorem leaf_forms_mean :
  forall consts (St : Type) (flag_set trainer_beaten : text -> St -> bool) (cmp_var cmp_var_value : text -> text -> St -> comparison),
  (forall k ops (eq tr : bool) s, ttype k = FLAG ->
     leaf_holds St flag_set trainer_beaten cmp_var cmp_var_value
       (mkleaf consts k ops (if eq then OEq else ONe) (if tr then t "TRUE" else t "FALSE") false) s =
     Bool.eqb (flag_set (opnd consts ops) s) (Bool.eqb eq tr)) /\
  (forall k ops (eq tr : bool) s, ttype k = DEFEATED ->
     leaf_holds St flag_set trainer_beaten cmp_var cmp_var_value
       (mkleaf consts k ops (if eq then OEq else ONe) (if tr then t "TRUE" else t "FALSE") false) s =
     Bool.eqb (trainer_beaten (opnd consts ops) s) (Bool.eqb eq tr)) /\
  (forall k ops o v s, ttype k = VAR ->
     leaf_holds St flag_set trainer_beaten cmp_var cmp_var_value (mkleaf consts k ops o v false) s =
     cmp_holds o (cmp_var (opnd consts ops) v s)).
Proof.
  intros. split; [|split].
  - exact (flag_leaf_meaning consts St flag_set trainer_beaten cmp_var cmp_var_value).
  - exact (defeated_leaf_meaning consts St flag_set trainer_beaten cmp_var cmp_var_value).
  - exact (var_leaf_meaning consts St flag_set trainer_beaten cmp_var cmp_var_value).
Qed.
Print Assumptions leaf_forms_mean.

(* non-vacuity: flag(A) && !(var(B) == 1 || !defeated(T)) || flag(C) meets every premise above *)
Theorem premises_hold_for_an_example :
  forall autovars switches env_errors parse_format consts script,
  wf_expr autovars switches env_errors parse_format consts script 1 (e_ex consts) /\ lok_expr (e_ex consts) /\ pure_expr (e_ex consts).
Proof. exact BexpParse.premises_hold. Qed.
Print Assumptions premises_hold_for_an_example.

(* ---------- every leaf form, without the leaf_spec hypothesis (LeafForms.v) ---------- *)
(* Leaf grammar: lform ::= head ctail | '!' head; head ::= var/flag/defeated ( operand ) | AutoVar name | AutoVar name ( args );
   ctail ::= nothing | op value | op value ( ... ).  form_parses: the leaf parser consumes exactly the tokens of a well-formed
   leaf and returns its record (kind, operand, operator, value, strict flag, preamble command); form_leaf_meaning /
   value_leaf_meaning / autovar_leaf_meaning: the record means what the manual says (value(...) compares with the value as
   written, an AutoVar leaf runs its command, then compares the configured variable); condition_parses_to_its_meaning_forms:
   for every condition built from these leaves with && || ! ( ), the parser consumes exactly its tokens and returns a tree whose
   evaluation is the left-to-right short-circuit evaluation of the written condition - no hypothesis about the leaf parser left;
   accepted_plain_leaf_is_a_form: conversely every accepted leaf without preamble is of this grammar. *)
From Pory Require Consume.
From Pory Require Import CmdArgs ConstSites LeafForms.
Theorem form_parses :
  forall (autovars : list (text * autovar)) (switches : list (text * text)) (env_errors : bool)
    (parse_format : toks -> res (token * text * text * toks)) (consts : list (text * text)) (script : text) (lf : lform) 
    (R : list token),
  wf_lform autovars switches env_errors parse_format lf ->
  follow R ->
  forall (f : nat) (pre : token),
  1 + Datatypes.length (form_toks lf) <= f ->
  leaf_expr autovars switches env_errors parse_format consts f script (pre :: form_toks lf ++ R) =
  Ok (form_leaf autovars consts lf (Datatypes.length R), form_imp script lf (Datatypes.length R), R).
Proof. exact LeafForms.form_parses. Qed.
Print Assumptions form_parses.

Theorem pure_form_leaf_spec :
  forall (autovars : list (text * autovar)) (switches : list (text * text)) (env_errors : bool)
    (parse_format : toks -> res (token * text * text * toks)) (consts : list (text * text)) (script : text) (F0 : nat) 
    (lf : lform),
  1 <= F0 ->
  wf_lform autovars switches env_errors parse_format lf ->
  pure_form lf -> leaf_spec autovars switches env_errors parse_format consts script F0 (form_toks lf) (form_leaf autovars consts lf 0) imp0.
Proof. exact LeafForms.pure_form_leaf_spec. Qed.
Print Assumptions pure_form_leaf_spec.

Theorem leaf_varcmp_value :
  forall (autovars : list (text * autovar)) (switches : list (text * text)) (env_errors : bool)
    (parse_format : toks -> res (token * text * text * toks)) (consts : list (text * text)) (script : text) (F0 : nat) 
    (k lp : token) (ops : list token) (rp o : token) (op : cmpop) (vt lp2 : token) (seg : list token) (rp2 : token),
  1 <= F0 ->
  ttype k = VAR ->
  ttype lp = LPAREN ->
  operand_ok ops ->
  ttype rp = RPAREN ->
  is_cmp_tok o = Some op ->
  ttype vt = VALUE ->
  ttype lp2 = LPAREN ->
  ttype rp2 = RPAREN ->
  pdepth 0 seg = Some 0 ->
  Forall (fun x : token => ttype x <> EOF) seg ->
  leaf_spec autovars switches env_errors parse_format consts script F0 (k :: lp :: ops ++ rp :: o :: vt :: lp2 :: seg ++ [rp2])
    (mkleaf consts k ops op (join sp (wrap_value (map (cr consts) seg))) true) imp0.
Proof. exact LeafForms.leaf_varcmp_value. Qed.
Print Assumptions leaf_varcmp_value.

Theorem parser_builds_tree_forms :
  forall (autovars : list (text * autovar)) (switches : list (text * text)) (env_errors : bool)
    (parse_format : toks -> res (token * text * text * toks)) (consts : list (text * text)) (script : text),
  (forall a : catom, CPatom autovars switches env_errors parse_format consts script a) /\
  (forall t : ctl, CPtl autovars switches env_errors parse_format consts script t) /\
  (forall e : cexpr, CPexpr autovars switches env_errors parse_format consts script e).
Proof. exact LeafForms.parser_builds_tree_forms. Qed.
Print Assumptions parser_builds_tree_forms.

Theorem condition_parses_to_its_meaning_forms :
  forall (autovars : list (text * autovar)) (switches : list (text * text)) (env_errors : bool)
    (parse_format : toks -> res (token * text * text * toks)) (consts : list (text * text)) (script : text) (St : Type)
    (exec : cmd -> St -> stepres St) (flag_set trainer_beaten : text -> St -> bool) (cmp_var cmp_var_value : text -> text -> St -> comparison)
    (e : cexpr) (lp : token) (rest : list token) (f : nat),
  wfc_expr autovars switches env_errors parse_format e ->
  stop rest ->
  3 * Datatypes.length (toks_expr e) + 2 <= f ->
  exists (T : bexp) (imp' : impdata),
    bool_expr autovars switches env_errors parse_format consts f false false script (lp :: toks_expr e ++ rest) = Ok (T, imp', rest) /\
    T = tree_expr false (el_expr autovars consts script (Datatypes.length rest) e) /\
    imp_eq imp' (imp_expr (el_expr autovars consts script (Datatypes.length rest) e)) /\
    (forall s : St,
     eval_bexp St exec flag_set trainer_beaten cmp_var cmp_var_value T s =
     cev_expr autovars consts St exec flag_set trainer_beaten cmp_var cmp_var_value (Datatypes.length rest) e s).
Proof. exact LeafForms.condition_parses_to_its_meaning_forms. Qed.
Print Assumptions condition_parses_to_its_meaning_forms.

Theorem condition_value_is_precedence_reading_forms :
  forall (autovars : list (text * autovar)) (switches : list (text * text)) (env_errors : bool)
    (parse_format : toks -> res (token * text * text * toks)) (consts : list (text * text)) (script : text) (St : Type)
    (exec : cmd -> St -> stepres St) (flag_set trainer_beaten : text -> St -> bool) (cmp_var cmp_var_value : text -> text -> St -> comparison)
    (e : cexpr) (lp : token) (rest : list token) (f : nat),
  wfc_expr autovars switches env_errors parse_format e ->
  purec_expr e ->
  stop rest ->
  3 * Datatypes.length (toks_expr e) + 2 <= f ->
  exists (T : bexp) (imp' : impdata),
    bool_expr autovars switches env_errors parse_format consts f false false script (lp :: toks_expr e ++ rest) = Ok (T, imp', rest) /\
    (forall s : St,
     eval_bexp St exec flag_set trainer_beaten cmp_var cmp_var_value T s =
     ([], s, Some (existsb (forallb (cden_atom autovars consts St flag_set trainer_beaten cmp_var cmp_var_value s)) (cflat_expr e)))).
Proof. exact LeafForms.condition_value_is_precedence_reading_forms. Qed.
Print Assumptions condition_value_is_precedence_reading_forms.

Theorem value_leaf_meaning :
  forall (consts : list (text * text)) (St : Type) (flag_set trainer_beaten : text -> St -> bool)
    (cmp_var cmp_var_value : text -> text -> St -> comparison) (k : token) (ops : list token) (o : cmpop) (v : text) 
    (s : St),
  ttype k = VAR ->
  leaf_holds St flag_set trainer_beaten cmp_var cmp_var_value (mkleaf consts k ops o v true) s =
  cmp_holds o (cmp_var_value (opnd consts ops) v s).
Proof. exact LeafForms.value_leaf_meaning. Qed.
Print Assumptions value_leaf_meaning.

Theorem form_leaf_meaning :
  forall (autovars : list (text * autovar)) (switches : list (text * text)) (env_errors : bool)
    (parse_format : toks -> res (token * text * text * toks)) (consts : list (text * text)) (St : Type) (exec : cmd -> St -> stepres St)
    (flag_set trainer_beaten : text -> St -> bool) (cmp_var cmp_var_value : text -> text -> St -> comparison) (lf : lform) 
    (k : nat) (s : St),
  wf_lform autovars switches env_errors parse_format lf ->
  eval_leaf St exec flag_set trainer_beaten cmp_var cmp_var_value (form_leaf autovars consts lf k) s =
  form_eval autovars consts St exec flag_set trainer_beaten cmp_var cmp_var_value lf k s.
Proof. exact LeafForms.form_leaf_meaning. Qed.
Print Assumptions form_leaf_meaning.

Theorem autovar_leaf_meaning :
  forall (autovars : list (text * autovar)) (switches : list (text * text)) (env_errors : bool)
    (parse_format : toks -> res (token * text * text * toks)) (consts : list (text * text)) (St : Type) (exec : cmd -> St -> stepres St)
    (flag_set trainer_beaten : text -> St -> bool) (cmp_var cmp_var_value : text -> text -> St -> comparison) (h : head) 
    (c : ctail) (k : nat) (s : St) (cm : cmd),
  wf_lform autovars switches env_errors parse_format (LPos h c) ->
  head_cmd consts h (Datatypes.length (ctail_toks c) + k) = Some cm ->
  eval_leaf St exec flag_set trainer_beaten cmp_var cmp_var_value (form_leaf autovars consts (LPos h c) k) s =
  match exec cm s with
  | Continue _ s' =>
      ([cm], s',
       Some
         (cmp_holds (tail_op KVar c)
            ((if tail_strict c then cmp_var_value else cmp_var) (head_operand autovars consts h) (tail_value consts KVar c) s')))
  | Stop _ => ([cm], s, None)
  end.
Proof. exact LeafForms.autovar_leaf_meaning. Qed.
Print Assumptions autovar_leaf_meaning.

Theorem accepted_plain_leaf_is_a_form :
  forall (autovars : list (text * autovar)) (switches : list (text * text)) (env_errors : bool)
    (parse_format : toks -> res (token * text * text * toks)) (consts : list (text * text)) (script : text) (f : nat) 
    (ts0 : toks) (l : leaf) (imp : impdata) (ts' : toks),
  leaf_expr autovars switches env_errors parse_format consts f script ts0 = Ok (l, imp, ts') ->
  Consume.eof_ended ts0 ->
  lpre l = None ->
  exists lf : lform,
    pure_form lf /\
    shape_form lf /\ ts0 = cur ts0 :: form_toks lf ++ ts' /\ l = form_leaf autovars consts lf 0 /\ imp = imp0 /\ next_ok lf (cur ts').
Proof. exact LeafForms.accepted_plain_leaf_is_a_form. Qed.
Print Assumptions accepted_plain_leaf_is_a_form.

Theorem shape_wf :
  forall (autovars : list (text * autovar)) (switches : list (text * text)) (env_errors : bool)
    (parse_format : toks -> res (token * text * text * toks)) (lf : lform),
  shape_form lf ->
  Forall (fun x : token => ttype x <> EOF) (inner_toks lf) -> value_written lf -> wf_lform autovars switches env_errors parse_format lf.
Proof. exact LeafForms.shape_wf. Qed.
Print Assumptions shape_wf.

Theorem accepted_autovar_leaf_partial :
  forall (autovars : list (text * autovar)) (switches : list (text * text)) (env_errors : bool)
    (parse_format : toks -> res (token * text * text * toks)) (consts : list (text * text)) (script : text) (f : nat) 
    (ts0 : toks) (l : leaf) (imp : impdata) (ts' : toks) (c : cmd),
  leaf_expr autovars switches env_errors parse_format consts f script ts0 = Ok (l, imp, ts') ->
  lpre l = Some c ->
  let ts := if peekis NOT ts0 then adv ts0 else ts0 in
  exists (av : autovar) (ts2 : toks),
    peekis IDENT ts = true /\
    assoc autovars (tlit (pk 1 ts)) = Some av /\
    command_stmt switches env_errors parse_format consts f script (adv ts) = Ok (c, imp, ts2) /\
    lk l = KVar /\
    lline l = tline (ctok c) /\
    loperand l = match avPos av with
                 | Some p => nth (Z.to_nat p) (cargs c) []
                 | None => avName av
                 end /\
    match avPos av with
    | Some p => (0 <= p < Z.of_nat (Datatypes.length (cargs c)))%Z
    | None => True
    end /\
    (if peekis NOT ts0
     then lop l = OEq /\ lvalue l = t "0" /\ lstrict l = false /\ ts' = adv ts2
     else cond_var_operator consts f (adv ts2) = Ok (lop l, lvalue l, lstrict l, ts')).
Proof. exact LeafForms.accepted_autovar_leaf_partial. Qed.
Print Assumptions accepted_autovar_leaf_partial.

