(* C02 - Conditions branch on the value of the written boolean expression. *)
From Coq Require Import List ZArith Bool.
From Pory Require Import Lexer Ast Parser Emitter Sem2 Tr SpecLemmas Tables TablesOK.
Import ListNotations.

(* emitter side (T3): a chain of one-test chunks built for an expression reaches the success target iff the
   expression is true, evaluating leaves (and their AutoVar preambles) in source order with short-circuit *)
Theorem cond_chain_correct :
  forall (St : Type) (exec : cmd -> St -> stepres St) (flag_set trainer_beaten : text -> St -> bool)
         (cmp_var cmp_var_value : text -> text -> St -> comparison) (case_matches : text -> text -> St -> bool)
         (G : list chunk), (forall i c, get_chunk G i = Some c -> (0 <= i)%Z) -> forall (e : bexp) (en su fa : Z),
    tr_cond G e en su fa ->
    forall s ev s' r, eval_bexp St exec flag_set trainer_beaten cmp_var cmp_var_value e s = (ev, s', r) ->
    exists j, (1 <= j)%nat /\
      steps (@gfinal) (gstep St exec flag_set trainer_beaten cmp_var cmp_var_value case_matches G) j (ggoto G en) s ev
            (cond_target G su fa r) s'.
Proof. exact cond_sim. Qed.
Print Assumptions cond_chain_correct.

(* the reference evaluation is the usual reading: without preambles the result is the boolean value and the state is unchanged *)
Theorem eval_is_boolean_value :
  forall (St : Type) (exec : cmd -> St -> stepres St) (flag_set trainer_beaten : text -> St -> bool)
         (cmp_var cmp_var_value : text -> text -> St -> comparison) (e : bexp) (s : St),
    pure e -> eval_bexp St exec flag_set trainer_beaten cmp_var cmp_var_value e s =
              ([], s, Some (bvalue St flag_set trainer_beaten cmp_var cmp_var_value e s)).
Proof. exact eval_pure. Qed.
Print Assumptions eval_is_boolean_value.

(* the negation used for '!' is getNegatedBooleanOperator of parser/parser.go (regenerated from /repo on every run) *)
Theorem negation_is_the_go_table :
  (forall o, tok_of_cmpop (negate_op o) = lookup_neg go_negation (tok_of_cmpop o)) /\
  (forall o, tok_of_bop (negate_bop o) = lookup_neg go_negation (tok_of_bop o)).
Proof. split; [exact negation_agree_cmp|exact negation_agree_bop]. Qed.
Print Assumptions negation_is_the_go_table.
