(* C18 - "... lint mode accepts every program normal mode accepts and never fails because switches or fonts are missing."

   The lint parser (Go: NewLintParser = New(l, commandConfig, "", "", 0, nil) with enableEnvironmentErrors = false) is the
   model's parse_program with  env_errors = false, switches = [], the empty font configuration fc_none, no font option and
   line length 0; the command configuration (autovars) is the one of the real compilation.  All statements are about the
   model's own functions parse_program / Format.parse_format, for EVERY token list (the consequences for source texts use
   lex), every command configuration, switch set, font configuration and option.

   MAIN THEOREMS (each followed by Print Assumptions: closed under the global context)
   1. lint_accepts_what_normal_accepts : a token list the compiler's parser accepts (any switches, fonts, options) is
      accepted by the lint parser.   General form  env_errors_off_accepts_more : what is accepted under ANY switches, fonts,
      options and mode is accepted by EVERY parser with the environment errors off, whatever switches / fonts that one has.
      Proof: a simulation of the two runs, one lemma per parsing function: the lint run consumes the same tokens and
      takes the same decisions; only the selected poryswitch cases, the formatted texts and what is built from them differ,
      and nothing is decided from those (the constant table, the command arguments, the conditions, the break / continue
      stacks, the case values of switch statements are EQUAL in the two runs; of a switch's case list only its emptiness is
      used; of the final name check only the names of the author's text and movement statements, which are equal).
   2. lint_never_fails_for_missing_environment : with the environment errors off (any switches, any fonts) no error carries
      one of the four environment messages  env_messages = "poryswitch used, but no compile switches", "no poryswitch for X
      was specified", "no poryswitch case found", "unknown fontID"  (these are all the errors of Parser.v / Format.v that
      are guarded by env_errors; the Go parser's font-file warnings are log lines, not errors).
   3. compilation_error_is_environment_or_name_clash_or_lint_error : an error of a compilation is an environment error, or
      one of the two name-clash errors of the final name check ("duplicate text label" / "duplicate movement label"), or
      it is EXACTLY (message and position) the error the lint parser reports for the same tokens.
   Consequences for source texts (with the no-crash and termination theorems of C18):
   - lint_error_is_an_error_of_every_compilation : an error shown by the linter is an error of every compilation of that
     text, whatever switches and fonts are supplied;   lint_error_explained : and that compilation's error is the
     linter's own error unless it is an environment error or a name clash;
   - lint_answer : the lint parser answers every source text with a program or with an error that is not an environment
     error (never Panic, never out of fuel).
   Examples (vm_compute): ex_switches, ex_font (the three switch errors and the font error occur in normal mode on texts
   the linter accepts: the converse of theorem 1 is false, as intended), ex_lint_rejects / ex_same_error (the linter
   still reports real errors, the same error value as the compiler), ex_name_clash_only_normal.

   Not proved here: nothing of the statement quoted above is left open for the parser.  The emitter is not part of lint
   mode (the Go linter only parses); Compile.compile with the lint configuration also runs the emitter, about which nothing
   is claimed. *)
From Coq Require Import List String Ascii ZArith NArith Lia Bool.
From Pory Require Import Lexer Ast Format Consume NameClash.
From Pory Require Import Parser.
Import ListNotations.
Open Scope list_scope.

(* ------------------------------------------------------------------------------------------------------------------ *)
(* automation: case analysis of a hypothesis  H : (normal run) = Ok r ; the goal (the lint run) is reduced in step    *)
(* ------------------------------------------------------------------------------------------------------------------ *)
Ltac sk_step H :=
  cbv beta iota zeta in H; cbv beta iota zeta;
  lazymatch type of H with
  | Ok _ = Ok _ => inversion H; subst; clear H
  | Some _ = Some _ => inversion H; subst; clear H
  | None = Some _ => discriminate H
  | Err _ = Ok _ => discriminate H
  | Panic = Ok _ => discriminate H
  | Fuel = Ok _ => discriminate H
  | err_tok _ _ = Ok _ => discriminate H
  | err_range _ _ _ = Ok _ => discriminate H
  | (if ?c then _ else _) = _ => destruct c eqn:?
  | (match ?x with _ => _ end) = _ =>
      lazymatch x with
      | (if ?c then _ else _) => destruct c eqn:?
      | (match ?y with _ => _ end) => destruct y eqn:?
      | _ => destruct x eqn:?
      end
  | (let '(_, _) := ?x in _) = _ => destruct x eqn:?
  end.
Ltac sk_split H :=
  repeat (sk_step H);
  repeat match goal with
         | E : ?t = Ok _ |- _ => sk_step E
         end.

(* a fact about the lint run obtained from a fact about the normal run *)
Definition KK (P : Prop) : Prop := P.
Ltac inst K :=
  lazymatch type of K with
  | forall x : ?A, _ => let e := fresh "e" in evar (e : A); specialize (K e); subst e; inst K
  | _ => idtac
  end.
Ltac open K :=
  lazymatch type of K with
  | exists _, _ => let x := fresh "x" in destruct K as [x K]; open K
  | _ /\ _ => let R := fresh "R" in destruct K as [K R]; open K
  | _ => idtac
  end.
Ltac use_K :=
  match goal with
  | K : KK _ |- _ => let K2 := fresh "Q" in pose proof K as K2; unfold KK in K2; inst K2; open K2; rewrite K2; clear K2
  end.
(* a test already decided in the normal run, on a token the lint run has only now reached *)
Ltac use_fact :=
  match goal with
  | Hb : ?c = ?v |- context [?c] => tryif is_var c then fail else rewrite Hb
  end.
Ltac run_K := repeat (cbv beta iota zeta; first [use_K | use_fact]); cbv beta iota zeta.
Ltac fin := try solve [repeat eexists].
(* the lint run selects a poryswitch case of its own: whichever it is, it continues at the same token *)
Ltac sel_case :=
  repeat (match goal with
          | |- context [match assoc ?a ?b with _ => _ end] => destruct (assoc a b)
          | |- context [let (_, _) := ?p in _] => destruct p
          end; run_K); fin.
Ltac mark E := let T := type of E in change (KK T) in E.
Ltac app L E K :=
  first [ pose proof (L _ E) as K | pose proof (L _ _ E) as K | pose proof (L _ _ _ E) as K | pose proof (L _ _ _ _ E) as K
        | pose proof (L _ _ _ _ _ E) as K | pose proof (L _ _ _ _ _ _ E) as K | pose proof (L _ _ _ _ _ _ _ E) as K
        | pose proof (L _ _ _ _ _ _ _ _ E) as K | pose proof (L _ _ _ _ _ _ _ _ _ E) as K
        | pose proof (L _ _ _ _ _ _ _ _ _ _ E) as K | pose proof (L _ _ _ _ _ _ _ _ _ _ _ E) as K
        | pose proof (L _ _ _ _ _ _ _ _ _ _ _ _ E) as K | pose proof (L _ _ _ _ _ _ _ _ _ _ _ _ _ E) as K
        | pose proof (L _ _ _ _ _ _ _ _ _ _ _ _ _ _ E) as K | pose proof (L _ _ _ _ _ _ _ _ _ _ _ _ _ _ _ E) as K
        | pose proof (L _ _ _ _ _ _ _ _ _ _ _ _ _ _ _ _ E) as K ].
Ltac mk_Ks lem :=
  repeat match goal with
  | E : ?t = Ok _ |- _ =>
      let K := fresh "K" in
      first [ lem E K | match goal with L : forall _, _ |- _ => app L E K end ]; clear E; mark K
  end.

Section SIM.
Variable autovars : list (text * autovar).
Variable sw sw' : list (text * text).
Variable pf pf' : toks -> res (token * text * text * toks).
Hypothesis pf_sim : forall ts tk v sty ts', pf ts = Ok (tk, v, sty, ts') -> exists v', pf' ts = Ok (tk, v', sty, ts').
Variable consts : list (text * text).

Lemma sim_header ee ts sc sv ts' :
  poryswitch_header sw ee ts = Ok (sc, sv, ts') -> poryswitch_header sw' false ts = Ok (sc, assoc sw' sc, ts').
Proof.
  unfold poryswitch_header. intros H.
  replace (match sw' with [] => false | _ :: _ => false end) with false by (destruct sw'; reflexivity).
  sk_split H; reflexivity.
Qed.

Ltac lem0 E K := first [ app sim_header E K | app pf_sim E K ].

Lemma sim_list ee : forall f,
  (forall k multi ts acc r ts', list_value sw ee f k multi ts acc = Ok (r, ts') ->
     forall acc', exists r', list_value sw' false f k multi ts acc' = Ok (r', ts')) /\
  (forall k start ts acc r ts', list_cases sw ee f k start ts acc = Ok (r, ts') ->
     forall acc', exists r', list_cases sw' false f k start ts acc' = Ok (r', ts')).
Proof.
  induction f as [|f [IH1 IH2]]; [split; intros; discriminate|]. split.
  - intros k multi ts acc r ts' H acc'. rewrite list_value_unfold in H. rewrite list_value_unfold.
    sk_split H; mk_Ks lem0; run_K; fin.
    all: sel_case.
  - intros k start ts acc r ts' H acc'. rewrite list_cases_unfold in H. rewrite list_cases_unfold.
    sk_split H; mk_Ks lem0; run_K; fin.
Qed.

Lemma sim_list_value ee f k multi ts acc r ts' : list_value sw ee f k multi ts acc = Ok (r, ts') ->
  forall acc', exists r', list_value sw' false f k multi ts acc' = Ok (r', ts').
Proof. apply (sim_list ee f). Qed.

Lemma sim_moves ee f ts r ts' : moves_operator sw ee f ts = Ok (r, ts') -> exists r', moves_operator sw' false f ts = Ok (r', ts').
Proof.
  unfold moves_operator, movement_value. intros H. sk_split H. apply sim_list_value with (acc' := []) in H. exact H.
Qed.

Ltac lem1 E K := first [ lem0 E K | app sim_list_value E K | app sim_moves E K ].

Lemma sim_command_args ee : forall f script cmdtok cidv ts depth parts args imp r i ts',
  command_args sw ee pf consts f script cmdtok cidv ts depth parts args imp = Ok (r, i, ts') ->
  forall imp', exists i', command_args sw' false pf' consts f script cmdtok cidv ts depth parts args imp' = Ok (r, i', ts').
Proof.
  induction f as [|f IH]; intros script cmdtok cidv ts depth parts args imp r i ts' H imp'; [discriminate|].
  cbn [command_args] in H. cbn [command_args]. sk_split H; mk_Ks lem1; run_K; fin.
Qed.

Lemma sim_command_stmt ee f script ts c i ts' :
  command_stmt sw ee pf consts f script ts = Ok (c, i, ts') -> exists i', command_stmt sw' false pf' consts f script ts = Ok (c, i', ts').
Proof. unfold command_stmt. intros H. sk_split H; mk_Ks ltac:(fun E K => first [lem1 E K | app sim_command_args E K]); run_K; fin. Qed.

Lemma sim_var_or_autovar ee f script ts r i ts' :
  var_or_autovar autovars sw ee pf consts f script ts = Ok (r, i, ts') ->
  exists i', var_or_autovar autovars sw' false pf' consts f script ts = Ok (r, i', ts').
Proof. unfold var_or_autovar. intros H. sk_split H; mk_Ks ltac:(fun E K => first [lem1 E K | app sim_command_stmt E K]); run_K; fin. Qed.

Ltac lem2 E K := first [ lem1 E K | app sim_command_args E K | app sim_command_stmt E K | app sim_var_or_autovar E K ].

Lemma sim_leaf ee f script ts l i ts' :
  leaf_expr autovars sw ee pf consts f script ts = Ok (l, i, ts') ->
  exists i', leaf_expr autovars sw' false pf' consts f script ts = Ok (l, i', ts').
Proof. unfold leaf_expr. intros H. sk_split H; mk_Ks lem2; run_K; fin. Qed.

Ltac lem3 E K := first [ lem2 E K | app sim_leaf E K ].

Lemma sim_bexp ee : forall f,
  (forall single negated script ts e i ts', bool_expr autovars sw ee pf consts f single negated script ts = Ok (e, i, ts') ->
     exists i', bool_expr autovars sw' false pf' consts f single negated script ts = Ok (e, i', ts')) /\
  (forall left single negated script ts e i ts', right_side autovars sw ee pf consts f left single negated script ts = Ok (e, i, ts') ->
     exists i', right_side autovars sw' false pf' consts f left single negated script ts = Ok (e, i', ts')).
Proof.
  induction f as [|f [IH1 IH2]]; [split; intros; discriminate|]. split.
  - intros single negated script ts e i ts' H. rewrite bool_expr_unfold in H. rewrite bool_expr_unfold.
    sk_split H; mk_Ks lem3; run_K; fin.
  - intros left single negated script ts e i ts' H. rewrite right_side_unfold in H. rewrite right_side_unfold.
    sk_split H; mk_Ks lem3; run_K; fin.
Qed.
Lemma sim_bool_expr ee f single negated script ts e i ts' :
  bool_expr autovars sw ee pf consts f single negated script ts = Ok (e, i, ts') ->
  exists i', bool_expr autovars sw' false pf' consts f single negated script ts = Ok (e, i', ts').
Proof. apply (sim_bexp ee f). Qed.

Ltac lem4 E K := first [ lem3 E K | app sim_bool_expr E K ].

Notation Nstmt ee := (parse_stmt autovars sw ee pf consts).
Notation Lstmt := (parse_stmt autovars sw' false pf' consts).

Definition SIMS (ee : bool) (f : nat) : Prop :=
  (forall script bs cs ts ss imp ts', parse_stmt autovars sw ee pf consts f script bs cs ts = Ok (ss, imp, ts') ->
     exists ss' imp', parse_stmt autovars sw' false pf' consts f script bs cs ts = Ok (ss', imp', ts')) /\
  (forall script bs cs start ts acc imp ss imp1 ts', parse_block autovars sw ee pf consts f script bs cs start ts acc imp = Ok (ss, imp1, ts') ->
     forall acc' imp', exists ss' imp1', parse_block autovars sw' false pf' consts f script bs cs start ts acc' imp' = Ok (ss', imp1', ts')) /\
  (forall script bs cs start ts acc imp ss imp1 ts', parse_switch_block autovars sw ee pf consts f script bs cs start ts acc imp = Ok (ss, imp1, ts') ->
     forall acc' imp', exists ss' imp1', parse_switch_block autovars sw' false pf' consts f script bs cs start ts acc' imp' = Ok (ss', imp1', ts')) /\
  (forall req script bs cs ts e b imp ts', parse_cond autovars sw ee pf consts f req script bs cs ts = Ok (e, b, imp, ts') ->
     exists b' imp', parse_cond autovars sw' false pf' consts f req script bs cs ts = Ok (e, b', imp', ts')) /\
  (forall script bs cs ts ss imp ts', parse_if autovars sw ee pf consts f script bs cs ts = Ok (ss, imp, ts') ->
     exists ss' imp', parse_if autovars sw' false pf' consts f script bs cs ts = Ok (ss', imp', ts')) /\
  (forall script bs cs ts acc imp l imp1 ts', parse_elifs autovars sw ee pf consts f script bs cs ts acc imp = Ok (l, imp1, ts') ->
     forall acc' imp', exists l' imp1', parse_elifs autovars sw' false pf' consts f script bs cs ts acc' imp' = Ok (l', imp1', ts')) /\
  (forall script bs cs ts ss imp ts', parse_switch autovars sw ee pf consts f script bs cs ts = Ok (ss, imp, ts') ->
     exists ss' imp', parse_switch autovars sw' false pf' consts f script bs cs ts = Ok (ss', imp', ts')) /\
  (forall script bs cs brace ts acc seen hasdef imp l imp1 ts',
     parse_cases autovars sw ee pf consts f script bs cs brace ts acc seen hasdef imp = Ok (l, imp1, ts') ->
     forall acc' imp', exists l' imp1',
       parse_cases autovars sw' false pf' consts f script bs cs brace ts acc' seen hasdef imp' = Ok (l', imp1', ts') /\
       ((acc' = [] <-> acc = []) -> (l' = [] <-> l = []))) /\
  (forall script bs cs ts ss imp ts', parse_pory autovars sw ee pf consts f script bs cs ts = Ok (ss, imp, ts') ->
     exists ss' imp', parse_pory autovars sw' false pf' consts f script bs cs ts = Ok (ss', imp', ts')) /\
  (forall script bs cs start ts acc l ts', parse_pory_cases autovars sw ee pf consts f script bs cs start ts acc = Ok (l, ts') ->
     forall acc', exists l', parse_pory_cases autovars sw' false pf' consts f script bs cs start ts acc' = Ok (l', ts')) /\
  (forall script bs cs multi ts acc imp ss imp1 ts', parse_pory_stmts autovars sw ee pf consts f script bs cs multi ts acc imp = Ok (ss, imp1, ts') ->
     forall acc' imp', exists ss' imp1', parse_pory_stmts autovars sw' false pf' consts f script bs cs multi ts acc' imp' = Ok (ss', imp1', ts')).

Lemma sims_all ee : forall f, SIMS ee f.
Proof.
  induction f as [|f IH]; [unfold SIMS; repeat split; intros; discriminate|].
  destruct IH as (Istmt & Iblock & Iswb & Icond & Iif & Ielifs & Iswitch & Icases & Ipory & Ipcases & Ipstmts).
  unfold SIMS. split; [|split; [|split; [|split; [|split; [|split; [|split; [|split; [|split; [|split]]]]]]]]].
  - intros script bs cs ts ss imp ts' H. rewrite parse_stmt_unfold in H. rewrite parse_stmt_unfold.
    sk_split H; mk_Ks lem4; run_K; fin.
  - intros script bs cs start ts acc imp ss imp1 ts' H acc' imp'. rewrite parse_block_unfold in H. rewrite parse_block_unfold.
    sk_split H; mk_Ks lem4; run_K; fin.
  - intros script bs cs start ts acc imp ss imp1 ts' H acc' imp'. rewrite parse_switch_block_unfold in H. rewrite parse_switch_block_unfold.
    sk_split H; mk_Ks lem4; run_K; fin.
  - intros req script bs cs ts e b imp ts' H. rewrite parse_cond_unfold in H. rewrite parse_cond_unfold.
    sk_split H; mk_Ks lem4; run_K; fin.
  - intros script bs cs ts ss imp ts' H. rewrite parse_if_unfold in H. rewrite parse_if_unfold.
    sk_split H; mk_Ks lem4; run_K; fin.
  - intros script bs cs ts acc imp l imp1 ts' H acc' imp'. rewrite parse_elifs_unfold in H. rewrite parse_elifs_unfold.
    sk_split H; mk_Ks lem4; run_K; fin.
  - intros script bs cs ts ss imp ts' H. rewrite parse_switch_unfold in H. rewrite parse_switch_unfold.
    sk_split H; mk_Ks lem4; run_K; fin.
    all: match goal with R : _ -> (?x = [] <-> _ = []) |- _ =>
           destruct x; [exfalso; discriminate (proj1 (R (conj (fun _ => eq_refl) (fun _ => eq_refl))) eq_refl)|fin] end.
  - intros script bs cs brace ts acc seen hasdef imp l imp1 ts' H acc' imp'. rewrite parse_cases_unfold in H. rewrite parse_cases_unfold.
    sk_split H; mk_Ks lem4; run_K.
    all: do 2 eexists; (split; [reflexivity|]);
      first [ intros A; exact A
            | intros _; match goal with R : _ -> (_ = [] <-> _ = []) |- _ => apply R; split; intro X; apply app_eq_nil in X; destruct X; discriminate end ].
  - intros script bs cs ts ss imp ts' H. rewrite parse_pory_unfold in H. rewrite parse_pory_unfold.
    sk_split H; mk_Ks lem4; run_K; fin.
    all: sel_case.
  - intros script bs cs start ts acc l ts' H acc'. rewrite parse_pory_cases_unfold in H. rewrite parse_pory_cases_unfold.
    sk_split H; mk_Ks lem4; run_K; fin.
  - intros script bs cs multi ts acc imp ss imp1 ts' H acc' imp'. rewrite parse_pory_stmts_unfold in H. rewrite parse_pory_stmts_unfold.
    sk_split H; mk_Ks lem4; run_K; fin.
Qed.

Lemma sim_block ee f script bs cs start ts acc imp ss imp1 ts' :
  parse_block autovars sw ee pf consts f script bs cs start ts acc imp = Ok (ss, imp1, ts') ->
  forall acc' imp', exists ss' imp1', parse_block autovars sw' false pf' consts f script bs cs start ts acc' imp' = Ok (ss', imp1', ts').
Proof. apply (sims_all ee f). Qed.

Ltac lem5 E K := first [ lem4 E K | app sim_block E K ].

Lemma sim_script ee f ts n g b i ts' :
  parse_script autovars sw ee pf consts f ts = Ok (n, g, b, i, ts') ->
  exists b' i', parse_script autovars sw' false pf' consts f ts = Ok (n, g, b', i', ts').
Proof. unfold parse_script. intros H. sk_split H; mk_Ks lem5; run_K; fin. Qed.

Lemma sim_text_value ts v sty ts' : text_value pf ts = Ok (v, sty, ts') -> exists v', text_value pf' ts = Ok (v', sty, ts').
Proof. unfold text_value. intros H. sk_split H; mk_Ks lem5; run_K; fin. Qed.

Ltac lem6 E K := first [ lem5 E K | app sim_text_value E K ].

Lemma sim_pory_text_cases : forall f start ts acc r ts', pory_text_cases pf f start ts acc = Ok (r, ts') ->
  forall acc', exists r', pory_text_cases pf' f start ts acc' = Ok (r', ts').
Proof.
  induction f as [|f IH]; intros start ts acc r ts' H acc'; [discriminate|]. cbn [pory_text_cases] in H. cbn [pory_text_cases].
  sk_split H; mk_Ks lem6; run_K; fin.
Qed.

Ltac lem7 E K := first [ lem6 E K | app sim_pory_text_cases E K ].

Lemma sim_pory_text ee f ts v sty ts' : pory_text sw ee pf f ts = Ok (v, sty, ts') ->
  exists v' sty', pory_text sw' false pf' f ts = Ok (v', sty', ts').
Proof. unfold pory_text. intros H. sk_split H; mk_Ks lem7; run_K; fin. all: sel_case. Qed.

Ltac lem8 E K := first [ lem7 E K | app sim_pory_text E K ].

Lemma sim_text ee f ts td ts' : parse_text sw ee pf f ts = Ok (td, ts') ->
  exists td', parse_text sw' false pf' f ts = Ok (td', ts') /\ xname td' = xname td.
Proof. unfold parse_text. intros H. sk_split H; mk_Ks lem8; run_K; fin. Qed.

Lemma sim_movement ee f ts tp ts' : parse_movement sw ee f ts = Ok (tp, ts') ->
  exists tp', parse_movement sw' false f ts = Ok (tp', ts') /\ mov_entries [tp'] = mov_entries [tp].
Proof. unfold parse_movement, movement_value. intros H. sk_split H; mk_Ks lem8; run_K; fin. Qed.

Lemma sim_mart ee f ts tp ts' : parse_mart sw ee consts f ts = Ok (tp, ts') ->
  exists tp', parse_mart sw' false consts f ts = Ok (tp', ts') /\ mov_entries [tp'] = mov_entries [tp].
Proof. unfold parse_mart, mart_value. intros H. sk_split H; mk_Ks lem8; run_K; fin. Qed.

Lemma sim_ms_table ee : forall f mapname tyname ts i acc imp es imp1 ts',
  ms_table autovars sw ee pf consts f mapname tyname ts i acc imp = Ok (es, imp1, ts') ->
  forall acc' imp', exists es' imp1', ms_table autovars sw' false pf' consts f mapname tyname ts i acc' imp' = Ok (es', imp1', ts').
Proof.
  induction f as [|f IH]; intros mapname tyname ts i acc imp es imp1 ts' H acc' imp'; [discriminate|].
  cbn [ms_table] in H. cbn [ms_table]. sk_split H; mk_Ks lem8; run_K; fin.
Qed.

Ltac lem9 E K := first [ lem8 E K | app sim_ms_table E K ].

Lemma sim_ms_entries ee : forall f mapname ts plain tables imp p1 t1 imp1 ts',
  ms_entries autovars sw ee pf consts f mapname ts plain tables imp = Ok (p1, t1, imp1, ts') ->
  forall plain' tables' imp', exists p1' t1' imp1', ms_entries autovars sw' false pf' consts f mapname ts plain' tables' imp' = Ok (p1', t1', imp1', ts').
Proof.
  induction f as [|f IH]; intros mapname ts plain tables imp p1 t1 imp1 ts' H plain' tables' imp'; [discriminate|].
  cbn [ms_entries] in H. cbn [ms_entries]. sk_split H; mk_Ks lem9; run_K; fin.
Qed.

Ltac lem10 E K := first [ lem9 E K | app sim_ms_entries E K ].

Lemma sim_mapscripts ee f ts tp imp ts' :
  parse_mapscripts autovars sw ee pf consts f ts = Ok (tp, imp, ts') ->
  exists n g plain tables imp', parse_mapscripts autovars sw' false pf' consts f ts = Ok (TMapScripts n g plain tables, imp', ts') /\
     exists n0 g0 plain0 tables0, tp = TMapScripts n0 g0 plain0 tables0.
Proof. unfold parse_mapscripts. intros H. sk_split H; mk_Ks lem10; run_K; fin. Qed.
End SIM.

(* ------------------------------------------------------------------------------------------------------------------ *)
Section SIM2.
Variable autovars : list (text * autovar).
Variable sw sw' : list (text * text).
Variable pf pf' : toks -> res (token * text * text * toks).
Hypothesis pf_sim : forall ts tk v sty ts', pf ts = Ok (tk, v, sty, ts') -> exists v', pf' ts = Ok (tk, v', sty, ts').

Ltac lemT E K :=
  first [ app (sim_script autovars sw sw' pf pf' pf_sim) E K | app (sim_text sw sw' pf pf' pf_sim) E K
        | app (sim_movement sw sw') E K | app (sim_mart sw sw') E K | app (sim_mapscripts autovars sw sw' pf pf' pf_sim) E K ].

Lemma sim_tops ee : forall f st ts r, parse_tops autovars sw ee pf f st ts = Ok r ->
  forall h' tops' texts', exists r',
    parse_tops autovars sw' false pf' f {| pconsts := pconsts st; ph := h'; ptops := tops'; ptexts := texts' |} ts = Ok r' /\
    pconsts r' = pconsts r /\
    (mov_entries tops' = mov_entries (ptops st) -> mov_entries (ptops r') = mov_entries (ptops r)) /\
    (map xname texts' = map xname (ptexts st) -> map xname (ptexts r') = map xname (ptexts r)).
Proof.
  induction f as [|f IH]; intros st ts r H h' tops' texts'; [discriminate|].
  destruct st as [c h tops texts]. cbn [parse_tops] in H. cbn [parse_tops]. cbn [pconsts ph ptops ptexts] in *.
  sk_split H; mk_Ks lemT; run_K.
  all: repeat (match goal with |- context [let '(_, _) := ?p in _] => destruct p end; run_K).
  all: (eexists; split; [reflexivity|]); cbn [pconsts ptops ptexts].
  all: repeat match goal with R : _ /\ _ |- _ => destruct R | R : exists _, _ |- _ => destruct R end; subst.
  all: split; [first [assumption | reflexivity] | ].
  all: split; intro A; try assumption; try (match goal with R : _ -> ?G |- ?G => apply R end; cbn [pconsts ptops ptexts]; rewrite ?mov_entries_app, ?map_app).
  all: try solve [ f_equal; first [assumption | reflexivity | cbn; congruence] ].
  all: try assumption.
Qed.

Lemma NoDup_app_l {A} (a b : list A) : NoDup (a ++ b) -> NoDup a.
Proof.
  induction a as [|x a IH]; cbn; intros H; [constructor|]. inversion H as [|? ? N1 N2]; subst.
  constructor; [intro I; apply N1, in_or_app; left; exact I|apply IH, N2].
Qed.
Lemma NoDup_app_r {A} (a b : list A) : NoDup (a ++ b) -> NoDup b.
Proof. induction a as [|x a IH]; cbn; intros H; [exact H|]. inversion H; subst. auto. Qed.

Lemma nodup_text_suffix (a b : list textdef) : dup_text [] (a ++ b) = None -> dup_text [] b = None.
Proof. rewrite !dup_text_none_nodup, map_app. apply NoDup_app_r. Qed.
Lemma nodup_mov_prefix (a b : list top) : dup_mov [] (a ++ b) = None -> dup_mov [] a = None.
Proof. rewrite !dup_mov_none_nodup, mov_names_app. apply NoDup_app_l. Qed.

(* the parser with any parse function for format(): what is accepted with (sw, ee, pf) is accepted with (sw', false, pf') *)
Lemma lint_accepts_param ee ts p :
  parse_program autovars sw ee pf ts = Ok p -> exists p', parse_program autovars sw' false pf' ts = Ok p'.
Proof.
  unfold parse_program. intros H.
  destruct (parse_tops autovars sw ee pf (5 * List.length ts + 4) _ ts) as [st| | |] eqn:E; try discriminate.
  destruct (sim_tops ee _ _ _ _ E hst0 [] []) as (st' & E' & _ & RM & RT). cbn [pconsts ptops ptexts] in *.
  rewrite E'. cbv beta iota zeta in H |- *. cbn [checked_texts checked_tops].
  destruct (dup_text [] (checked_texts ee st)) eqn:D1; [discriminate|].
  destruct (dup_mov [] (checked_tops ee st)) eqn:D2; [discriminate|].
  assert (T : dup_text [] (ptexts st') = None).
  { apply dup_text_none_nodup. rewrite (RT eq_refl). apply dup_text_none_nodup.
    unfold checked_texts in D1. destruct ee; [exact (nodup_text_suffix _ _ D1)|exact D1]. }
  assert (M : dup_mov [] (ptops st') = None).
  { apply dup_mov_none_nodup. unfold mov_names. rewrite (RM eq_refl). apply dup_mov_none_nodup.
    unfold checked_tops in D2. destruct ee; [exact (nodup_mov_prefix _ _ D2)|exact D2]. }
  rewrite T, M. eexists. reflexivity.
Qed.
End SIM2.

(* ------------------------------------------------------------------------------------------------------------------ *)
(* the format() operator: which tokens it consumes and whether its syntax is accepted does not depend on the fonts      *)
Ltac prj := cbn [pFont pFontTok pMax pLines pCursor pSpec] in *.

Lemma sim_named_loop : forall f ts p had r had' ts', named_loop f ts p had = Ok (r, had', ts') ->
  forall fo ft mx ln cu, exists r',
    named_loop f ts {| pFont := fo; pFontTok := ft; pMax := mx; pLines := ln; pCursor := cu; pSpec := pSpec p |} had = Ok (r', had', ts').
Proof.
  induction f as [|f IH]; intros ts p had r had' ts' H fo ft mx ln cu; [discriminate|].
  cbn [named_loop] in H. cbn [named_loop]. prj.
  sk_split H; prj; mk_Ks ltac:(fun E K => fail); prj; run_K; fin.
Qed.

Ltac sat_facts :=
  repeat match goal with
         | Hb : ?c = true, Hc : context [if ?c then _ else _] |- _ => rewrite Hb in Hc; cbv iota in Hc
         | Hb : ?c = false, Hc : context [if ?c then _ else _] |- _ => rewrite Hb in Hc; cbv iota in Hc
         end.

Lemma sim_format fc cf ml ee fc' cf' ml' ts tk v sty ts' :
  parse_format fc cf ml ee ts = Ok (tk, v, sty, ts') -> exists v', parse_format fc' cf' ml' false ts = Ok (tk, v', sty, ts').
Proof.
  intros H. unfold parse_format in H. unfold parse_format.
  destruct (expect_peek LPAREN ts) as [ts1|]; [|discriminate]. cbv zeta in H. cbv zeta.
  destruct (if peekis STRINGTYPE ts1 then (tlit (pk 1 ts1), adv ts1) else ([], ts1)) as [sty0 ts2].
  destruct (expect_peek STRING ts2) as [ts3|]; [|discriminate].
  match type of H with (match ?x with _ => _ end) = _ => destruct x as [[p ts4]| | |] eqn:EM; try discriminate end.
  match goal with |- exists v', (match ?y with _ => _ end) = _ => assert (EM' : exists p', y = Ok (p', ts4)) end.
  { clear H. prj. sk_split EM; prj; mk_Ks ltac:(fun E K => first [app sim_named_loop E K]); prj; sat_facts; run_K; fin. }
  destruct EM' as [p' EM']. rewrite EM'.
  destruct (expect_peek RPAREN ts4) as [ts5|]; [|discriminate].
  match goal with |- context [match format_text ?a ?b ?c ?d ?e ?g with _ => _ end] => destruct (format_text a b c d e g) end.
  all: sk_split H; fin.
Qed.

(* ================================================================================================================== *)
(* MAIN THEOREM 1: lint mode accepts every program normal mode accepts                                                  *)
(* ================================================================================================================== *)
(* the configuration of the lint parser: no switches, no fonts, no font / line length options, environment errors off *)
Definition fc_none : fontcfg := {| fcDefault := []; fcFonts := [] |}.
Definition lint_parse (autovars : list (text * autovar)) (ts : toks) : res program :=
  parse_program autovars [] false (parse_format fc_none [] 0%Z false) ts.

(* general form: a token list accepted under ANY switches, fonts, options and mode is accepted by every parser that has the
   environment errors turned off, whatever switches and fonts that one is given *)
Theorem env_errors_off_accepts_more :
  forall autovars sw ee fc cli_font cli_maxlen sw' fc' cli_font' cli_maxlen' (ts : toks) p,
    parse_program autovars sw ee (parse_format fc cli_font cli_maxlen ee) ts = Ok p ->
    exists p', parse_program autovars sw' false (parse_format fc' cli_font' cli_maxlen' false) ts = Ok p'.
Proof.
  intros autovars sw ee fc cf ml sw' fc' cf' ml' ts p H.
  eapply lint_accepts_param; [|exact H]. intros. eapply sim_format. eassumption.
Qed.

Theorem lint_accepts_what_normal_accepts :
  forall autovars switches fc cli_font cli_maxlen (ts : toks) p,
    parse_program autovars switches true (parse_format fc cli_font cli_maxlen true) ts = Ok p ->
    exists p', parse_program autovars [] false (parse_format fc_none [] 0%Z false) ts = Ok p'.
Proof. intros. eapply env_errors_off_accepts_more. eassumption. Qed.

(* ================================================================================================================== *)
(* PART 2: with the environment errors turned off no error is one of the environment errors                            *)
(* ================================================================================================================== *)
(* the messages of the errors that depend on the environment (compile switches, font configuration) *)
Definition env_messages : list text :=
  [ t "poryswitch used, but no compile switches"; t "no poryswitch for X was specified"; t "no poryswitch case found"; t "unknown fontID" ].
Definition envb (m : text) : bool := existsb (text_eqb m) env_messages.
Definition not_env {A} (r : res A) : Prop := forall e, r = Err e -> envb (emsg e) = false.

Ltac er_step H :=
  cbv beta iota zeta in H;
  lazymatch type of H with
  | Ok _ = Err _ => discriminate H
  | Panic = Err _ => discriminate H
  | Fuel = Err _ => discriminate H
  | Err _ = Err _ => inversion H; subst; clear H
  | err_tok _ _ = Err _ => unfold err_tok in H; inversion H; subst; clear H
  | err_range _ _ _ = Err _ => unfold err_range in H; inversion H; subst; clear H
  | (if ?c then _ else _) = _ => destruct c eqn:?
  | (match ?x with _ => _ end) = _ =>
      lazymatch x with
      | (if ?c then _ else _) => destruct c eqn:?
      | (match ?y with _ => _ end) => destruct y eqn:?
      | _ => destruct x eqn:?
      end
  | (let '(_, _) := ?x in _) = _ => destruct x eqn:?
  end.
Create HintDb noenv.
Ltac er_done := first [ reflexivity | solve [eauto 2 with noenv] ].
Ltac er_split H :=
  repeat (er_step H);
  repeat match goal with
         | E : ?t = Err _ |- _ => er_step E
         end;
  try er_done.

Section NOENV.
Variable autovars : list (text * autovar).
Variable sw : list (text * text).
Variable pf : toks -> res (token * text * text * toks).
Hypothesis pf_noenv : forall ts e, pf ts = Err e -> envb (emsg e) = false.
Variable consts : list (text * text).
Hint Resolve pf_noenv : noenv.

Lemma header_noenv ts e : poryswitch_header sw false ts = Err e -> envb (emsg e) = false.
Proof.
  unfold poryswitch_header. replace (match sw with [] => false | _ :: _ => false end) with false by (destruct sw; reflexivity).
  cbn [andb]. intros H. er_split H.
Qed.
Hint Resolve header_noenv : noenv.

Lemma list_noenv : forall f,
  (forall k multi ts acc e, list_value sw false f k multi ts acc = Err e -> envb (emsg e) = false) /\
  (forall k start ts acc e, list_cases sw false f k start ts acc = Err e -> envb (emsg e) = false).
Proof.
  induction f as [|f [IH1 IH2]]; [split; intros; discriminate|]. split.
  - intros k multi ts acc e H. rewrite list_value_unfold in H. er_split H.
  - intros k start ts acc e H. rewrite list_cases_unfold in H. er_split H.
Qed.
Lemma list_value_noenv f k multi ts acc e : list_value sw false f k multi ts acc = Err e -> envb (emsg e) = false.
Proof. apply (list_noenv f). Qed.
Hint Resolve list_value_noenv : noenv.

Lemma moves_noenv f ts e : moves_operator sw false f ts = Err e -> envb (emsg e) = false.
Proof. unfold moves_operator, movement_value. intros H. er_split H. Qed.
Hint Resolve moves_noenv : noenv.

Lemma command_args_noenv : forall f script cmdtok cidv ts depth parts args imp e,
  command_args sw false pf consts f script cmdtok cidv ts depth parts args imp = Err e -> envb (emsg e) = false.
Proof.
  induction f as [|f IH]; intros script cmdtok cidv ts depth parts args imp e H; [discriminate|].
  cbn [command_args] in H. er_split H.
Qed.
Hint Resolve command_args_noenv : noenv.

Lemma command_stmt_noenv f script ts e : command_stmt sw false pf consts f script ts = Err e -> envb (emsg e) = false.
Proof. unfold command_stmt. intros H. er_split H. Qed.
Hint Resolve command_stmt_noenv : noenv.

Lemma var_or_autovar_noenv f script ts e : var_or_autovar autovars sw false pf consts f script ts = Err e -> envb (emsg e) = false.
Proof. unfold var_or_autovar. intros H. er_split H. Qed.
Hint Resolve var_or_autovar_noenv : noenv.

Lemma value_parts_noenv : forall f vtok ts depth parts e, value_parts consts f vtok ts depth parts = Err e -> envb (emsg e) = false.
Proof. induction f as [|f IH]; intros vtok ts depth parts e H; [discriminate|]. cbn [value_parts] in H. er_split H. Qed.
Hint Resolve value_parts_noenv : noenv.
Lemma cond_var_operator_noenv f ts e : cond_var_operator consts f ts = Err e -> envb (emsg e) = false.
Proof. unfold cond_var_operator. intros H. er_split H. Qed.
Hint Resolve cond_var_operator_noenv : noenv.
Lemma cond_flag_operator_noenv ts nm e : cond_flag_operator ts nm = Err e -> envb (emsg e) = false.
Proof. unfold cond_flag_operator. intros H. er_split H. Qed.
Hint Resolve cond_flag_operator_noenv : noenv.

Lemma leaf_noenv f script ts e : leaf_expr autovars sw false pf consts f script ts = Err e -> envb (emsg e) = false.
Proof. unfold leaf_expr. intros H. er_split H. Qed.
Hint Resolve leaf_noenv : noenv.

Lemma bexp_noenv : forall f,
  (forall single negated script ts e, bool_expr autovars sw false pf consts f single negated script ts = Err e -> envb (emsg e) = false) /\
  (forall left single negated script ts e, right_side autovars sw false pf consts f left single negated script ts = Err e -> envb (emsg e) = false).
Proof.
  induction f as [|f [IH1 IH2]]; [split; intros; discriminate|]. split.
  - intros single negated script ts e H. rewrite bool_expr_unfold in H. er_split H.
  - intros left single negated script ts e H. rewrite right_side_unfold in H. er_split H.
Qed.
Lemma bool_expr_noenv f single negated script ts e :
  bool_expr autovars sw false pf consts f single negated script ts = Err e -> envb (emsg e) = false.
Proof. apply (bexp_noenv f). Qed.
Hint Resolve bool_expr_noenv : noenv.

Lemma switch_operand_noenv : forall f orig ts parts e, switch_operand consts f orig ts parts = Err e -> envb (emsg e) = false.
Proof. induction f as [|f IH]; intros orig ts parts e H; [discriminate|]. cbn [switch_operand] in H. er_split H. Qed.
Hint Resolve switch_operand_noenv : noenv.

Definition NOENVS (f : nat) : Prop :=
  (forall script bs cs ts e, parse_stmt autovars sw false pf consts f script bs cs ts = Err e -> envb (emsg e) = false) /\
  (forall script bs cs start ts acc imp e, parse_block autovars sw false pf consts f script bs cs start ts acc imp = Err e -> envb (emsg e) = false) /\
  (forall script bs cs start ts acc imp e, parse_switch_block autovars sw false pf consts f script bs cs start ts acc imp = Err e -> envb (emsg e) = false) /\
  (forall req script bs cs ts e, parse_cond autovars sw false pf consts f req script bs cs ts = Err e -> envb (emsg e) = false) /\
  (forall script bs cs ts e, parse_if autovars sw false pf consts f script bs cs ts = Err e -> envb (emsg e) = false) /\
  (forall script bs cs ts acc imp e, parse_elifs autovars sw false pf consts f script bs cs ts acc imp = Err e -> envb (emsg e) = false) /\
  (forall script bs cs ts e, parse_switch autovars sw false pf consts f script bs cs ts = Err e -> envb (emsg e) = false) /\
  (forall script bs cs brace ts acc seen hasdef imp e,
     parse_cases autovars sw false pf consts f script bs cs brace ts acc seen hasdef imp = Err e -> envb (emsg e) = false) /\
  (forall script bs cs ts e, parse_pory autovars sw false pf consts f script bs cs ts = Err e -> envb (emsg e) = false) /\
  (forall script bs cs start ts acc e, parse_pory_cases autovars sw false pf consts f script bs cs start ts acc = Err e -> envb (emsg e) = false) /\
  (forall script bs cs multi ts acc imp e, parse_pory_stmts autovars sw false pf consts f script bs cs multi ts acc imp = Err e -> envb (emsg e) = false).

Lemma noenvs_all : forall f, NOENVS f.
Proof.
  induction f as [|f IH]; [unfold NOENVS; repeat split; intros; discriminate|].
  destruct IH as (Istmt & Iblock & Iswb & Icond & Iif & Ielifs & Iswitch & Icases & Ipory & Ipcases & Ipstmts).
  unfold NOENVS. split; [|split; [|split; [|split; [|split; [|split; [|split; [|split; [|split; [|split]]]]]]]]].
  - intros script bs cs ts e H. rewrite parse_stmt_unfold in H. er_split H.
  - intros script bs cs start ts acc imp e H. rewrite parse_block_unfold in H. er_split H.
  - intros script bs cs start ts acc imp e H. rewrite parse_switch_block_unfold in H. er_split H.
  - intros req script bs cs ts e H. rewrite parse_cond_unfold in H. er_split H.
  - intros script bs cs ts e H. rewrite parse_if_unfold in H. er_split H.
  - intros script bs cs ts acc imp e H. rewrite parse_elifs_unfold in H. er_split H.
  - intros script bs cs ts e H. rewrite parse_switch_unfold in H. er_split H.
  - intros script bs cs brace ts acc seen hasdef imp e H. rewrite parse_cases_unfold in H. er_split H.
  - intros script bs cs ts e H. rewrite parse_pory_unfold in H. er_split H.
  - intros script bs cs start ts acc e H. rewrite parse_pory_cases_unfold in H. er_split H.
  - intros script bs cs multi ts acc imp e H. rewrite parse_pory_stmts_unfold in H. er_split H.
Qed.

Lemma block_noenv f script bs cs start ts acc imp e :
  parse_block autovars sw false pf consts f script bs cs start ts acc imp = Err e -> envb (emsg e) = false.
Proof. apply (noenvs_all f). Qed.
Hint Resolve block_noenv : noenv.

Lemma scope_modifier_noenv d ts e : scope_modifier d ts = Err e -> envb (emsg e) = false.
Proof. unfold scope_modifier. intros H. er_split H. Qed.
Hint Resolve scope_modifier_noenv : noenv.
Lemma script_noenv f ts e : parse_script autovars sw false pf consts f ts = Err e -> envb (emsg e) = false.
Proof. unfold parse_script. intros H. er_split H. Qed.
Lemma text_value_noenv ts e : text_value pf ts = Err e -> envb (emsg e) = false.
Proof. unfold text_value. intros H. er_split H. Qed.
Hint Resolve text_value_noenv : noenv.
Lemma pory_text_cases_noenv : forall f start ts acc e, pory_text_cases pf f start ts acc = Err e -> envb (emsg e) = false.
Proof. induction f as [|f IH]; intros start ts acc e H; [discriminate|]. cbn [pory_text_cases] in H. er_split H. Qed.
Hint Resolve pory_text_cases_noenv : noenv.
Lemma pory_text_noenv f ts e : pory_text sw false pf f ts = Err e -> envb (emsg e) = false.
Proof. unfold pory_text. intros H. er_split H. Qed.
Hint Resolve pory_text_noenv : noenv.
Lemma text_noenv f ts e : parse_text sw false pf f ts = Err e -> envb (emsg e) = false.
Proof. unfold parse_text. intros H. er_split H. Qed.
Lemma movement_noenv f ts e : parse_movement sw false f ts = Err e -> envb (emsg e) = false.
Proof. unfold parse_movement, movement_value. intros H. er_split H. Qed.
Lemma mart_noenv f ts e : parse_mart sw false consts f ts = Err e -> envb (emsg e) = false.
Proof. unfold parse_mart, mart_value. intros H. er_split H. Qed.
Lemma raw_noenv ts e : parse_raw ts = Err e -> envb (emsg e) = false.
Proof. unfold parse_raw. intros H. er_split H. Qed.
Lemma ms_table_noenv : forall f mapname tyname ts i acc imp e,
  ms_table autovars sw false pf consts f mapname tyname ts i acc imp = Err e -> envb (emsg e) = false.
Proof. induction f as [|f IH]; intros mapname tyname ts i acc imp e H; [discriminate|]. cbn [ms_table] in H. er_split H. Qed.
Hint Resolve ms_table_noenv : noenv.
Lemma ms_entries_noenv : forall f mapname ts plain tables imp e,
  ms_entries autovars sw false pf consts f mapname ts plain tables imp = Err e -> envb (emsg e) = false.
Proof. induction f as [|f IH]; intros mapname ts plain tables imp e H; [discriminate|]. cbn [ms_entries] in H. er_split H. Qed.
Hint Resolve ms_entries_noenv : noenv.
Lemma mapscripts_noenv f ts e : parse_mapscripts autovars sw false pf consts f ts = Err e -> envb (emsg e) = false.
Proof. unfold parse_mapscripts. intros H. er_split H. Qed.
End NOENV.

Section NOENV2.
Variable autovars : list (text * autovar).
Variable sw : list (text * text).
Variable pf : toks -> res (token * text * text * toks).
Hypothesis pf_noenv : forall ts e, pf ts = Err e -> envb (emsg e) = false.

Lemma const_noenv f c ts e : parse_const f c ts = Err e -> envb (emsg e) = false.
Proof. unfold parse_const. intros H. er_split H. Qed.

Lemma tops_noenv : forall f st ts e, parse_tops autovars sw false pf f st ts = Err e -> envb (emsg e) = false.
Proof.
  pose proof (script_noenv autovars sw pf pf_noenv) as H1.
  pose proof (text_noenv sw pf pf_noenv) as H2.
  pose proof (movement_noenv sw) as H3.
  pose proof (mart_noenv sw) as H4.
  pose proof (mapscripts_noenv autovars sw pf pf_noenv) as H5.
  pose proof raw_noenv as H6. pose proof const_noenv as H7.
  induction f as [|f IH]; intros st ts e H; [discriminate|].
  cbn [parse_tops] in H. er_split H.
Qed.

Lemma program_noenv_param ts e : parse_program autovars sw false pf ts = Err e -> envb (emsg e) = false.
Proof.
  unfold parse_program. intros H. pose proof tops_noenv as HT. er_split H.
Qed.
End NOENV2.

Lemma named_loop_noenv : forall f ts p had e, named_loop f ts p had = Err e -> envb (emsg e) = false.
Proof. induction f as [|f IH]; intros ts p had e H; [discriminate|]. cbn [named_loop] in H. er_split H. Qed.
#[local] Hint Resolve named_loop_noenv : noenv.
Lemma format_noenv fc cf ml ts e : parse_format fc cf ml false ts = Err e -> envb (emsg e) = false.
Proof. unfold parse_format. intros H. er_split H. Qed.

Theorem lint_never_fails_for_missing_environment :
  forall autovars switches fc cli_font cli_maxlen (ts : toks) e,
    parse_program autovars switches false (parse_format fc cli_font cli_maxlen false) ts = Err e ->
    ~ In (emsg e) env_messages.
Proof.
  intros autovars sw fc cf ml ts e H I.
  pose proof (program_noenv_param autovars sw _ (format_noenv fc cf ml) ts e H) as B.
  unfold envb in B. assert (X : existsb (text_eqb (emsg e)) env_messages = true); [|congruence].
  apply existsb_exists. exists (emsg e). split; [exact I|]. apply teq_iff. reflexivity.
Qed.

(* ================================================================================================================== *)
(* PART 3: the errors of the two runs                                                                                  *)
(* ================================================================================================================== *)
Definition EV (e : perr) : Prop := envb (emsg e) = true.

Lemma ev_or_all {A} e (Q : A -> Prop) : (forall a, EV e \/ Q a) -> EV e \/ forall a, Q a.
Proof.
  intros H. unfold EV in *. destruct (envb (emsg e)) eqn:B; [left; reflexivity|]. right. intros a.
  destruct (H a) as [X|X]; [discriminate X|exact X].
Qed.
Ltac all_in := repeat (apply ev_or_all; intro).

Ltac ek_step H :=
  cbv beta iota zeta in H; cbv beta iota zeta;
  lazymatch type of H with
  | Ok _ = Err _ => discriminate H
  | Panic = Err _ => discriminate H
  | Fuel = Err _ => discriminate H
  | Err _ = Err _ => inversion H; subst; clear H
  | err_tok _ _ = Err _ => unfold err_tok in H; inversion H; subst; clear H
  | err_range _ _ _ = Err _ => unfold err_range in H; inversion H; subst; clear H
  | (if ?c then _ else _) = _ => destruct c eqn:?
  | (match ?x with _ => _ end) = _ =>
      lazymatch x with
      | (if ?c then _ else _) => destruct c eqn:?
      | (match ?y with _ => _ end) => destruct y eqn:?
      | _ => destruct x eqn:?
      end
  | (let '(_, _) := ?x in _) = _ => destruct x eqn:?
  end.
Ltac ek_split H :=
  repeat (ek_step H);
  repeat match goal with
         | E : ?t = Err _ |- _ => ek_step E
         | E : ?t = Ok _ |- _ => sk_step E
         end.
Ltac mk_Ds lem :=
  repeat match goal with
  | E : ?t = Err _ |- _ =>
      let D := fresh "D" in
      first [ lem E D | match goal with L : forall _, _ |- _ => app L E D end ]; clear E;
      destruct D as [D|D]; [left; exact D | mark D]
  end.
Ltac esel :=
  repeat (match goal with
          | |- context [match assoc ?a ?b with _ => _ end] => destruct (assoc a b)
          | |- context [let (_, _) := ?p in _] => destruct p
          end; run_K).
Ltac efin := first [ left; reflexivity | right; intros; run_K; esel; reflexivity ].

Section ESIM.
Variable autovars : list (text * autovar).
Variable sw sw' : list (text * text).
Variable pf pf' : toks -> res (token * text * text * toks).
Hypothesis pf_sim : forall ts tk v sty ts', pf ts = Ok (tk, v, sty, ts') -> exists v', pf' ts = Ok (tk, v', sty, ts').
Hypothesis pf_esim : forall ts e, pf ts = Err e -> EV e \/ pf' ts = Err e.
Variable consts : list (text * text).

Ltac lemA E K :=
  first [ app (sim_header sw sw') E K | app pf_sim E K | app (sim_list_value sw sw') E K | app (sim_moves sw sw') E K
        | app (sim_command_args sw sw' pf pf' pf_sim) E K | app (sim_command_stmt sw sw' pf pf' pf_sim) E K
        | app (sim_var_or_autovar autovars sw sw' pf pf' pf_sim) E K | app (sim_leaf autovars sw sw' pf pf' pf_sim) E K
        | app (sim_bool_expr autovars sw sw' pf pf' pf_sim) E K | app (sim_block autovars sw sw' pf pf' pf_sim) E K
        | app (sim_text_value pf pf' pf_sim) E K | app (sim_pory_text_cases pf pf' pf_sim) E K
        | app (sim_pory_text sw sw' pf pf' pf_sim) E K | app (sim_ms_table autovars sw sw' pf pf' pf_sim) E K
        | app (sim_ms_entries autovars sw sw' pf pf' pf_sim) E K ].

Lemma esim_header ee ts e : poryswitch_header sw ee ts = Err e -> EV e \/ poryswitch_header sw' false ts = Err e.
Proof.
  unfold poryswitch_header. intros H.
  replace (match sw' with [] => false | _ :: _ => false end) with false by (destruct sw'; reflexivity).
  ek_split H; efin.
Qed.

Ltac lemD0 E D := first [ app esim_header E D | app pf_esim E D ].

Lemma esim_list ee : forall f,
  (forall k multi ts acc e, list_value sw ee f k multi ts acc = Err e -> EV e \/ forall acc', list_value sw' false f k multi ts acc' = Err e) /\
  (forall k start ts acc e, list_cases sw ee f k start ts acc = Err e -> EV e \/ forall acc', list_cases sw' false f k start ts acc' = Err e).
Proof.
  induction f as [|f [IH1 IH2]]; [split; intros; discriminate|]. destruct (sim_list sw sw' ee f) as [S1 S2]. split.
  - intros k multi ts acc e H. all_in. rewrite list_value_unfold in H. rewrite list_value_unfold.
    ek_split H; mk_Ks lemA; mk_Ds lemD0; efin.
  - intros k start ts acc e H. all_in. rewrite list_cases_unfold in H. rewrite list_cases_unfold.
    ek_split H; mk_Ks lemA; mk_Ds lemD0; efin.
Qed.

Lemma esim_list_value ee f k multi ts acc e : list_value sw ee f k multi ts acc = Err e ->
  EV e \/ forall acc', list_value sw' false f k multi ts acc' = Err e.
Proof. apply (esim_list ee f). Qed.

Lemma esim_moves ee f ts e : moves_operator sw ee f ts = Err e -> EV e \/ moves_operator sw' false f ts = Err e.
Proof.
  unfold moves_operator, movement_value. intros H. ek_split H; mk_Ks lemA; mk_Ds ltac:(fun E D => first [lemD0 E D | app esim_list_value E D]); efin.
Qed.

Ltac lemD1 E D := first [ lemD0 E D | app esim_list_value E D | app esim_moves E D ].

Lemma esim_command_args ee : forall f script cmdtok cidv ts depth parts args imp e,
  command_args sw ee pf consts f script cmdtok cidv ts depth parts args imp = Err e ->
  EV e \/ forall imp', command_args sw' false pf' consts f script cmdtok cidv ts depth parts args imp' = Err e.
Proof.
  induction f as [|f IH]; intros script cmdtok cidv ts depth parts args imp e H; [discriminate|]. all_in.
  cbn [command_args] in H. cbn [command_args]. ek_split H; mk_Ks lemA; mk_Ds lemD1; efin.
Qed.

Lemma esim_command_stmt ee f script ts e :
  command_stmt sw ee pf consts f script ts = Err e -> EV e \/ command_stmt sw' false pf' consts f script ts = Err e.
Proof. unfold command_stmt. intros H. ek_split H; mk_Ks lemA; mk_Ds ltac:(fun E D => first [lemD1 E D | app esim_command_args E D]); efin. Qed.

Lemma esim_var_or_autovar ee f script ts e :
  var_or_autovar autovars sw ee pf consts f script ts = Err e -> EV e \/ var_or_autovar autovars sw' false pf' consts f script ts = Err e.
Proof. unfold var_or_autovar. intros H. ek_split H; mk_Ks lemA; mk_Ds ltac:(fun E D => first [lemD1 E D | app esim_command_stmt E D]); efin. Qed.

Ltac lemD2 E D := first [ lemD1 E D | app esim_command_args E D | app esim_command_stmt E D | app esim_var_or_autovar E D ].

Lemma esim_leaf ee f script ts e :
  leaf_expr autovars sw ee pf consts f script ts = Err e -> EV e \/ leaf_expr autovars sw' false pf' consts f script ts = Err e.
Proof. unfold leaf_expr. intros H. ek_split H; mk_Ks lemA; mk_Ds lemD2; efin. Qed.

Ltac lemD3 E D := first [ lemD2 E D | app esim_leaf E D ].

Lemma esim_bexp ee : forall f,
  (forall single negated script ts e, bool_expr autovars sw ee pf consts f single negated script ts = Err e ->
     EV e \/ bool_expr autovars sw' false pf' consts f single negated script ts = Err e) /\
  (forall left single negated script ts e, right_side autovars sw ee pf consts f left single negated script ts = Err e ->
     EV e \/ right_side autovars sw' false pf' consts f left single negated script ts = Err e).
Proof.
  induction f as [|f [IH1 IH2]]; [split; intros; discriminate|].
  destruct (sim_bexp autovars sw sw' pf pf' pf_sim consts ee f) as [S1 S2]. split.
  - intros single negated script ts e H. rewrite bool_expr_unfold in H. rewrite bool_expr_unfold.
    ek_split H; mk_Ks lemA; mk_Ds lemD3; efin.
  - intros left single negated script ts e H. rewrite right_side_unfold in H. rewrite right_side_unfold.
    ek_split H; mk_Ks lemA; mk_Ds lemD3; efin.
Qed.
Lemma esim_bool_expr ee f single negated script ts e :
  bool_expr autovars sw ee pf consts f single negated script ts = Err e ->
  EV e \/ bool_expr autovars sw' false pf' consts f single negated script ts = Err e.
Proof. apply (esim_bexp ee f). Qed.

Ltac lemD4 E D := first [ lemD3 E D | app esim_bool_expr E D ].

Definition ESIMS (ee : bool) (f : nat) : Prop :=
  (forall script bs cs ts e, parse_stmt autovars sw ee pf consts f script bs cs ts = Err e ->
     EV e \/ parse_stmt autovars sw' false pf' consts f script bs cs ts = Err e) /\
  (forall script bs cs start ts acc imp e, parse_block autovars sw ee pf consts f script bs cs start ts acc imp = Err e ->
     EV e \/ forall acc' imp', parse_block autovars sw' false pf' consts f script bs cs start ts acc' imp' = Err e) /\
  (forall script bs cs start ts acc imp e, parse_switch_block autovars sw ee pf consts f script bs cs start ts acc imp = Err e ->
     EV e \/ forall acc' imp', parse_switch_block autovars sw' false pf' consts f script bs cs start ts acc' imp' = Err e) /\
  (forall req script bs cs ts e, parse_cond autovars sw ee pf consts f req script bs cs ts = Err e ->
     EV e \/ parse_cond autovars sw' false pf' consts f req script bs cs ts = Err e) /\
  (forall script bs cs ts e, parse_if autovars sw ee pf consts f script bs cs ts = Err e ->
     EV e \/ parse_if autovars sw' false pf' consts f script bs cs ts = Err e) /\
  (forall script bs cs ts acc imp e, parse_elifs autovars sw ee pf consts f script bs cs ts acc imp = Err e ->
     EV e \/ forall acc' imp', parse_elifs autovars sw' false pf' consts f script bs cs ts acc' imp' = Err e) /\
  (forall script bs cs ts e, parse_switch autovars sw ee pf consts f script bs cs ts = Err e ->
     EV e \/ parse_switch autovars sw' false pf' consts f script bs cs ts = Err e) /\
  (forall script bs cs brace ts acc seen hasdef imp e,
     parse_cases autovars sw ee pf consts f script bs cs brace ts acc seen hasdef imp = Err e ->
     EV e \/ forall acc' imp', parse_cases autovars sw' false pf' consts f script bs cs brace ts acc' seen hasdef imp' = Err e) /\
  (forall script bs cs ts e, parse_pory autovars sw ee pf consts f script bs cs ts = Err e ->
     EV e \/ parse_pory autovars sw' false pf' consts f script bs cs ts = Err e) /\
  (forall script bs cs start ts acc e, parse_pory_cases autovars sw ee pf consts f script bs cs start ts acc = Err e ->
     EV e \/ forall acc', parse_pory_cases autovars sw' false pf' consts f script bs cs start ts acc' = Err e) /\
  (forall script bs cs multi ts acc imp e, parse_pory_stmts autovars sw ee pf consts f script bs cs multi ts acc imp = Err e ->
     EV e \/ forall acc' imp', parse_pory_stmts autovars sw' false pf' consts f script bs cs multi ts acc' imp' = Err e).

Lemma esims_all ee : forall f, ESIMS ee f.
Proof.
  induction f as [|f IH]; [unfold ESIMS; repeat split; intros; discriminate|].
  destruct IH as (Istmt & Iblock & Iswb & Icond & Iif & Ielifs & Iswitch & Icases & Ipory & Ipcases & Ipstmts).
  destruct (sims_all autovars sw sw' pf pf' pf_sim consts ee f) as (Sstmt & Sblock & Sswb & Scond & Sif & Selifs & Sswitch & Scases & Spory & Spcases & Spstmts).
  unfold ESIMS. split; [|split; [|split; [|split; [|split; [|split; [|split; [|split; [|split; [|split]]]]]]]]].
  - intros script bs cs ts e H. rewrite parse_stmt_unfold in H. rewrite parse_stmt_unfold.
    ek_split H; mk_Ks lemA; mk_Ds lemD4; efin.
  - intros script bs cs start ts acc imp e H. all_in. rewrite parse_block_unfold in H. rewrite parse_block_unfold.
    ek_split H; mk_Ks lemA; mk_Ds lemD4; efin.
  - intros script bs cs start ts acc imp e H. all_in. rewrite parse_switch_block_unfold in H. rewrite parse_switch_block_unfold.
    ek_split H; mk_Ks lemA; mk_Ds lemD4; efin.
  - intros req script bs cs ts e H. rewrite parse_cond_unfold in H. rewrite parse_cond_unfold.
    ek_split H; mk_Ks lemA; mk_Ds lemD4; efin.
  - intros script bs cs ts e H. rewrite parse_if_unfold in H. rewrite parse_if_unfold.
    ek_split H; mk_Ks lemA; mk_Ds lemD4; efin.
  - intros script bs cs ts acc imp e H. all_in. rewrite parse_elifs_unfold in H. rewrite parse_elifs_unfold.
    ek_split H; mk_Ks lemA; mk_Ds lemD4; efin.
  - intros script bs cs ts e H. rewrite parse_switch_unfold in H. rewrite parse_switch_unfold.
    ek_split H; mk_Ks lemA; mk_Ds lemD4; try efin.
    all: right; run_K.
    all: match goal with R : _ -> (?x = [] <-> _ = []) |- _ =>
           pose proof (proj2 (R (conj (fun _ => eq_refl) (fun _ => eq_refl))) eq_refl); subst x end; reflexivity.
  - intros script bs cs brace ts acc seen hasdef imp e H. all_in. rewrite parse_cases_unfold in H. rewrite parse_cases_unfold.
    ek_split H; mk_Ks lemA; mk_Ds lemD4; efin.
  - intros script bs cs ts e H. rewrite parse_pory_unfold in H. rewrite parse_pory_unfold.
    ek_split H; mk_Ks lemA; mk_Ds lemD4; efin.
  - intros script bs cs start ts acc e H. all_in. rewrite parse_pory_cases_unfold in H. rewrite parse_pory_cases_unfold.
    ek_split H; mk_Ks lemA; mk_Ds lemD4; efin.
  - intros script bs cs multi ts acc imp e H. all_in. rewrite parse_pory_stmts_unfold in H. rewrite parse_pory_stmts_unfold.
    ek_split H; mk_Ks lemA; mk_Ds lemD4; efin.
Qed.

Lemma esim_block ee f script bs cs start ts acc imp e :
  parse_block autovars sw ee pf consts f script bs cs start ts acc imp = Err e ->
  EV e \/ forall acc' imp', parse_block autovars sw' false pf' consts f script bs cs start ts acc' imp' = Err e.
Proof. apply (esims_all ee f). Qed.

Ltac lemD5 E D := first [ lemD4 E D | app esim_block E D ].

Lemma esim_script ee f ts e :
  parse_script autovars sw ee pf consts f ts = Err e -> EV e \/ parse_script autovars sw' false pf' consts f ts = Err e.
Proof. unfold parse_script. intros H. ek_split H; mk_Ks lemA; mk_Ds lemD5; efin. Qed.

Lemma esim_text_value ts e : text_value pf ts = Err e -> EV e \/ text_value pf' ts = Err e.
Proof. unfold text_value. intros H. ek_split H; mk_Ks lemA; mk_Ds lemD5; efin. Qed.

Ltac lemD6 E D := first [ lemD5 E D | app esim_text_value E D ].

Lemma esim_pory_text_cases : forall f start ts acc e, pory_text_cases pf f start ts acc = Err e ->
  EV e \/ forall acc', pory_text_cases pf' f start ts acc' = Err e.
Proof.
  induction f as [|f IH]; intros start ts acc e H; [discriminate|]. all_in. cbn [pory_text_cases] in H. cbn [pory_text_cases].
  ek_split H; mk_Ks lemA; mk_Ds lemD6; efin.
Qed.

Ltac lemD7 E D := first [ lemD6 E D | app esim_pory_text_cases E D ].

Lemma esim_pory_text ee f ts e : pory_text sw ee pf f ts = Err e -> EV e \/ pory_text sw' false pf' f ts = Err e.
Proof. unfold pory_text. intros H. ek_split H; mk_Ks lemA; mk_Ds lemD7; efin. Qed.

Ltac lemD8 E D := first [ lemD7 E D | app esim_pory_text E D ].

Lemma esim_text ee f ts e : parse_text sw ee pf f ts = Err e -> EV e \/ parse_text sw' false pf' f ts = Err e.
Proof. unfold parse_text. intros H. ek_split H; mk_Ks lemA; mk_Ds lemD8; efin. Qed.

Lemma esim_movement ee f ts e : parse_movement sw ee f ts = Err e -> EV e \/ parse_movement sw' false f ts = Err e.
Proof. unfold parse_movement, movement_value. intros H. ek_split H; mk_Ks lemA; mk_Ds lemD8; efin. Qed.

Lemma esim_mart ee f ts e : parse_mart sw ee consts f ts = Err e -> EV e \/ parse_mart sw' false consts f ts = Err e.
Proof. unfold parse_mart, mart_value. intros H. ek_split H; mk_Ks lemA; mk_Ds lemD8; efin. Qed.

Lemma esim_ms_table ee : forall f mapname tyname ts i acc imp e,
  ms_table autovars sw ee pf consts f mapname tyname ts i acc imp = Err e ->
  EV e \/ forall acc' imp', ms_table autovars sw' false pf' consts f mapname tyname ts i acc' imp' = Err e.
Proof.
  induction f as [|f IH]; intros mapname tyname ts i acc imp e H; [discriminate|]. all_in.
  cbn [ms_table] in H. cbn [ms_table]. ek_split H; mk_Ks lemA; mk_Ds lemD8; efin.
Qed.

Ltac lemD9 E D := first [ lemD8 E D | app esim_ms_table E D ].

Lemma esim_ms_entries ee : forall f mapname ts plain tables imp e,
  ms_entries autovars sw ee pf consts f mapname ts plain tables imp = Err e ->
  EV e \/ forall plain' tables' imp', ms_entries autovars sw' false pf' consts f mapname ts plain' tables' imp' = Err e.
Proof.
  induction f as [|f IH]; intros mapname ts plain tables imp e H; [discriminate|]. all_in.
  cbn [ms_entries] in H. cbn [ms_entries]. ek_split H; mk_Ks lemA; mk_Ds lemD9; efin.
Qed.

Ltac lemD10 E D := first [ lemD9 E D | app esim_ms_entries E D ].

Lemma esim_mapscripts ee f ts e :
  parse_mapscripts autovars sw ee pf consts f ts = Err e -> EV e \/ parse_mapscripts autovars sw' false pf' consts f ts = Err e.
Proof. unfold parse_mapscripts. intros H. ek_split H; mk_Ks lemA; mk_Ds lemD10; efin. Qed.
End ESIM.

Section ESIM2.
Variable autovars : list (text * autovar).
Variable sw sw' : list (text * text).
Variable pf pf' : toks -> res (token * text * text * toks).
Hypothesis pf_sim : forall ts tk v sty ts', pf ts = Ok (tk, v, sty, ts') -> exists v', pf' ts = Ok (tk, v', sty, ts').
Hypothesis pf_esim : forall ts e, pf ts = Err e -> EV e \/ pf' ts = Err e.

Ltac lemT E K :=
  first [ app (sim_script autovars sw sw' pf pf' pf_sim) E K | app (sim_text sw sw' pf pf' pf_sim) E K
        | app (sim_movement sw sw') E K | app (sim_mart sw sw') E K | app (sim_mapscripts autovars sw sw' pf pf' pf_sim) E K ].
Ltac lemTD E D :=
  first [ app (esim_script autovars sw sw' pf pf' pf_sim pf_esim) E D | app (esim_text sw sw' pf pf' pf_sim pf_esim) E D
        | app (esim_movement sw sw') E D | app (esim_mart sw sw') E D
        | app (esim_mapscripts autovars sw sw' pf pf' pf_sim pf_esim) E D ].

Lemma esim_tops ee : forall f st ts e, parse_tops autovars sw ee pf f st ts = Err e ->
  EV e \/ forall h' tops' texts',
    parse_tops autovars sw' false pf' f {| pconsts := pconsts st; ph := h'; ptops := tops'; ptexts := texts' |} ts = Err e.
Proof.
  induction f as [|f IH]; intros st ts e H; [discriminate|]. all_in.
  destruct st as [c h tops texts]. cbn [parse_tops] in H. cbn [parse_tops]. cbn [pconsts ph ptops ptexts] in *.
  ek_split H; mk_Ks lemT; mk_Ds lemTD; cbn [pconsts ph ptops ptexts] in *; efin.
Qed.

Definition name_clash_messages : list text := [ t "duplicate text label"; t "duplicate movement label" ].

Lemma error_vs_lint_param ee ts e :
  parse_program autovars sw ee pf ts = Err e ->
  EV e \/ In (emsg e) name_clash_messages \/ parse_program autovars sw' false pf' ts = Err e.
Proof.
  unfold parse_program. intros H.
  destruct (parse_tops autovars sw ee pf (5 * List.length ts + 4) _ ts) as [st|e0| |] eqn:E; try discriminate.
  - right. left. cbv beta iota zeta in H.
    destruct (dup_text [] (checked_texts ee st)); [unfold err_tok in H; inversion H; cbn; auto|].
    destruct (dup_mov [] (checked_tops ee st)); [unfold err_tok in H; inversion H; cbn; auto|discriminate].
  - inversion H; subst. destruct (esim_tops ee _ _ _ _ E) as [D|D]; [left; exact D|]. right. right.
    cbn [pconsts] in D. rewrite D. reflexivity.
Qed.
End ESIM2.

Lemma esim_named_loop : forall f ts p had e, named_loop f ts p had = Err e ->
  EV e \/ forall fo ft mx ln cu,
    named_loop f ts {| pFont := fo; pFontTok := ft; pMax := mx; pLines := ln; pCursor := cu; pSpec := pSpec p |} had = Err e.
Proof.
  induction f as [|f IH]; intros ts p had e H; [discriminate|]. all_in.
  cbn [named_loop] in H. cbn [named_loop]. prj.
  ek_split H; prj; mk_Ks ltac:(fun E K => fail); mk_Ds ltac:(fun E D => fail); prj; efin.
Qed.

Lemma esim_format fc cf ml ee fc' cf' ml' ts e :
  parse_format fc cf ml ee ts = Err e -> EV e \/ parse_format fc' cf' ml' false ts = Err e.
Proof.
  intros H. unfold parse_format in H. unfold parse_format.
  destruct (expect_peek LPAREN ts) as [ts1|]; [|right; exact H]. cbv zeta in H. cbv zeta.
  destruct (if peekis STRINGTYPE ts1 then (tlit (pk 1 ts1), adv ts1) else ([], ts1)) as [sty0 ts2].
  destruct (expect_peek STRING ts2) as [ts3|]; [|right; exact H].
  match type of H with (match ?x with _ => _ end) = _ => destruct x as [[p ts4]|e0| |] eqn:EM; try discriminate end.
  - match goal with |- _ \/ (match ?y with _ => _ end) = _ => assert (EM' : exists p', y = Ok (p', ts4)) end.
    { clear H. prj. sk_split EM; prj; mk_Ks ltac:(fun E K => first [app sim_named_loop E K]); prj; sat_facts; run_K; fin. }
    destruct EM' as [p' EM']. rewrite EM'.
    destruct (expect_peek RPAREN ts4) as [ts5|]; [|right; exact H].
    destruct (format_text fc _ _ _ _ _); [discriminate|]. destruct ee; [|discriminate].
    left. unfold err_tok in H. inversion H. reflexivity.
  - inversion H; subst e0. clear H.
    match goal with |- _ \/ (match ?y with _ => _ end) = _ => assert (EM' : EV e \/ y = Err e) end.
    { prj. ek_split EM; prj; mk_Ks ltac:(fun E K => first [app sim_named_loop E K]); mk_Ds ltac:(fun E D => first [app esim_named_loop E D]);
        prj; sat_facts; efin. }
    destruct EM' as [D|D]; [left; exact D|]. right. rewrite D. reflexivity.
Qed.

Lemma EV_in e : EV e -> In (emsg e) env_messages.
Proof.
  unfold EV, envb. intros H. apply existsb_exists in H. destruct H as (m & I & Q). apply teq_iff in Q. subst m. exact I.
Qed.

(* MAIN THEOREM 3: an error of a compilation (any switches, fonts, options, mode) is an environment error, or a name clash
   found by the final name check, or it is - the same message at the same position - the error every parser with the
   environment errors turned off reports for these tokens *)
Theorem compilation_error_is_environment_or_name_clash_or_lint_error :
  forall autovars sw ee fc cli_font cli_maxlen sw' fc' cli_font' cli_maxlen' (ts : toks) e,
    parse_program autovars sw ee (parse_format fc cli_font cli_maxlen ee) ts = Err e ->
    In (emsg e) env_messages \/ In (emsg e) name_clash_messages \/
    parse_program autovars sw' false (parse_format fc' cli_font' cli_maxlen' false) ts = Err e.
Proof.
  intros autovars sw ee fc cf ml sw' fc' cf' ml' ts e H.
  destruct (error_vs_lint_param autovars sw sw' _ (parse_format fc' cf' ml' false)
              (fun ts tk v sty ts' => sim_format fc cf ml ee fc' cf' ml' ts tk v sty ts')
              (fun ts e => esim_format fc cf ml ee fc' cf' ml' ts e) ee ts e H) as [D|[D|D]].
  - left. apply EV_in, D.
  - right. left. exact D.
  - right. right. exact D.
Qed.

(* ================================================================================================================== *)
(* consequences for source texts                                                                                        *)
(* ================================================================================================================== *)
From Pory Require NoPanic FuelOk.

(* an error shown by the linter is an error of every real compilation of the same text: whatever switches and fonts are
   supplied, the compiler's parser answers with an error too (contrapositive of theorem 1, with the no-crash and
   termination theorems of C18) *)
Theorem lint_error_is_an_error_of_every_compilation :
  forall hl hd hs autovars (src : text) e,
    parse_program autovars [] false (parse_format fc_none [] 0%Z false) (lex hl hd hs src) = Err e ->
    forall switches fc cli_font cli_maxlen, exists e',
      parse_program autovars switches true (parse_format fc cli_font cli_maxlen true) (lex hl hd hs src) = Err e'.
Proof.
  intros hl hd hs autovars src e H sw fc cf ml.
  destruct (parse_program autovars sw true (parse_format fc cf ml true) (lex hl hd hs src)) as [p|e'| |] eqn:E.
  - destruct (lint_accepts_what_normal_accepts _ _ _ _ _ _ _ E) as [p' E']. rewrite E' in H. discriminate.
  - exists e'. reflexivity.
  - exfalso. exact (NoPanic.parser_never_panics _ _ _ _ _ _ _ E).
  - exfalso. exact (FuelOk.parser_never_out_of_fuel _ _ _ _ _ _ _ _ _ _ E).
Qed.

(* the answer of the lint parser to a source text is a program or a located error that is not an environment error *)
Theorem lint_answer :
  forall hl hd hs autovars (src : text),
    (exists p, parse_program autovars [] false (parse_format fc_none [] 0%Z false) (lex hl hd hs src) = Ok p) \/
    (exists e, parse_program autovars [] false (parse_format fc_none [] 0%Z false) (lex hl hd hs src) = Err e /\ ~ In (emsg e) env_messages).
Proof.
  intros hl hd hs autovars src.
  destruct (parse_program autovars [] false (parse_format fc_none [] 0%Z false) (lex hl hd hs src)) as [p|e| |] eqn:E.
  - left. exists p. reflexivity.
  - right. exists e. split; [reflexivity|]. exact (lint_never_fails_for_missing_environment _ _ _ _ _ _ _ E).
  - exfalso. exact (NoPanic.parser_never_panics _ _ _ _ _ _ _ E).
  - exfalso. exact (FuelOk.parser_never_out_of_fuel _ _ _ _ _ _ _ _ _ _ E).
Qed.

(* what the linter's error means for a real compilation of the same text: it fails too, and its error is the linter's own
   error unless it stops earlier at an environment error or ends with a name clash *)
Theorem lint_error_explained :
  forall hl hd hs autovars (src : text) e,
    parse_program autovars [] false (parse_format fc_none [] 0%Z false) (lex hl hd hs src) = Err e ->
    forall switches fc cli_font cli_maxlen, exists e',
      parse_program autovars switches true (parse_format fc cli_font cli_maxlen true) (lex hl hd hs src) = Err e' /\
      (e' = e \/ In (emsg e') env_messages \/ In (emsg e') name_clash_messages).
Proof.
  intros hl hd hs autovars src e H sw fc cf ml.
  destruct (lint_error_is_an_error_of_every_compilation _ _ _ _ _ _ H sw fc cf ml) as [e' E]. exists e'. split; [exact E|].
  destruct (compilation_error_is_environment_or_name_clash_or_lint_error _ _ _ _ _ _ [] fc_none [] 0%Z _ _ E) as [D|[D|D]].
  - right. left. exact D.
  - right. right. exact D.
  - left. rewrite H in D. inversion D. reflexivity.
Qed.

(* ================================================================================================================== *)
(* examples: the hypotheses are satisfiable, the statements are not vacuous, the converse of theorem 1 is false         *)
(* ================================================================================================================== *)
Open Scope string_scope.
Definition msg_of {A} (r : res A) : option string := match r with Err e => Some (show (emsg e)) | _ => None end.
Definition normal_run (sw : list (text * text)) (s : string) := parse_program [] sw true (parse_format fc_none [] 0%Z true) (lex0 s).
Definition lint_run (s : string) := lint_parse [] (lex0 s).

(* poryswitch in a script, a text, a movement and a mart statement, and a format() operator *)
Definition src_all : string :=
  "script A { poryswitch(V) { X { msgbox(format(""hello there"")) } _: lock } }" ++ nl ++
  "text T { poryswitch(V) { X: ""a"" Y: format(""b"") } }" ++ nl ++
  "movement M { walk_up * 2 poryswitch(V) { X: walk_down _ { face_up } } }" ++ nl ++
  "mart S { ITEM_A poryswitch(V) { Y: ITEM_B _: ITEM_C } }".
(* accepted with the switch V = X (hypothesis of theorem 1) and by the linter (its conclusion); without switches, with
   another switch only, or with a value no case of the text statement matches the real compilation stops at one of the
   three switch errors - the linter does not (so the converse of theorem 1 is false, as intended) *)
Example ex_switches :
  accepted (normal_run [(t "V", t "X")] src_all) = true /\ accepted (lint_run src_all) = true /\
  msg_of (normal_run [] src_all) = Some "poryswitch used, but no compile switches" /\
  msg_of (normal_run [(t "W", t "X")] src_all) = Some "no poryswitch for X was specified" /\
  msg_of (normal_run [(t "V", t "Z")] src_all) = Some "no poryswitch case found".
Proof. vm_compute. repeat split; reflexivity. Qed.
(* a font that is not configured: an error of the real compilation, not of the linter *)
Definition src_font : string := "script A { msgbox(format(""hello"", ""nofont"")) }".
Example ex_font : msg_of (normal_run [] src_font) = Some "unknown fontID" /\ accepted (lint_run src_font) = true.
Proof. vm_compute. split; reflexivity. Qed.
(* the linter still reports what is wrong with the text itself (hypothesis of theorem 2 and of lint_error_is_an_error_...):
   the same error as the real compilation *)
Definition src_bad : string := "script A { poryswitch(V) { X { lock } ".
Example ex_lint_rejects :
  msg_of (lint_run src_bad) = Some "missing closing curly braces for poryswitch statement" /\
  msg_of (normal_run [(t "V", t "X")] src_bad) = Some "missing closing curly braces for poryswitch statement".
Proof. vm_compute. split; reflexivity. Qed.
(* the four messages are exactly the texts the parser model uses *)
Example ex_env_messages :
  map show env_messages = ["poryswitch used, but no compile switches"; "no poryswitch for X was specified"; "no poryswitch case found"; "unknown fontID"].
Proof. vm_compute. reflexivity. Qed.
(* theorem 3, third case: the same error value (message and position) in both modes *)
Example ex_same_error : exists e, lint_run src_bad = Err e /\ normal_run [(t "V", t "X")] src_bad = Err e.
Proof. eexists. split; vm_compute; reflexivity. Qed.
(* theorem 3, second case: a name clash with a generated name is found by the real compilation only (NameClash.src_lint) *)
Example ex_name_clash_only_normal :
  msg_of (normal_run [(t "V", t "B")] src_lint) = Some "duplicate text label" /\ accepted (lint_run src_lint) = true.
Proof. vm_compute. split; reflexivity. Qed.
