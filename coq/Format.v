(* Prototype model of parser/formattext.go and of parseFormatStringOperator. *)
From Coq Require Import List String Ascii ZArith NArith Lia Bool.
From Pory Require Import Lexer Ast Parser.
Import ListNotations.
Open Scope list_scope.
Local Open Scope Z_scope.

Record font := { fWidths : list (text * Z); fCursor : Z; fMaxLen : Z; fNumLines : Z }.
Record fontcfg := { fcDefault : text; fcFonts : list (text * font) }.
Definition testFontID : text := t "TEST".

Definition get_width (fc : fontcfg) (value fontID : text) : Z :=
  match assoc (fcFonts fc) fontID with
  | None => 0%Z
  | Some f => match assoc (fWidths f) value with
              | Some w => w
              | None => match assoc (fWidths f) (t "default") with Some w => w | None => 0%Z end
              end
  end.
Definition rune_width (fc : fontcfg) (r : N) (fontID : text) : Z :=
  if text_eqb fontID testFontID then 10%Z else get_width fc [r] fontID.
Definition code_width (fc : fontcfg) (code fontID : text) : Z :=
  if text_eqb fontID testFontID then 100%Z else get_width fc code fontID.

(* regexp {[^}]*} : leftmost matches; returns (codes, stripped) *)
Fixpoint take_to_rbrace (l : text) (acc : text) : option (text * text) :=   (* acc reversed; returns (code incl. braces, rest) *)
  match l with
  | [] => None
  | c :: r => if (c =? 125)%N then Some (rev (c :: acc), r) else take_to_rbrace r (c :: acc)
  end.
Fixpoint split_codes (fuel : nat) (w : text) (stripped : text) (codes : list text) : list text * text :=
  match fuel with O => (codes, stripped ++ w) | S f =>
  match w with
  | [] => (codes, stripped)
  | c :: r => if (c =? 123)%N then
                match take_to_rbrace r [c] with
                | Some (code, rest) => split_codes f rest stripped (codes ++ [code])
                | None => (codes, stripped ++ w)
                end
              else split_codes f r (stripped ++ [c]) codes
  end
  end.
Definition word_width (fc : fontcfg) (w fontID : text) : Z :=
  let '(codes, stripped) := split_codes (S (List.length w)) w [] [] in
  fold_left (fun a c => (a + code_width fc c fontID)%Z) codes 0%Z
  + fold_left (fun a r => (a + rune_width fc r fontID)%Z) stripped 0%Z.

(* getNextWord: returns (position after, start, end) as rune indices into the given text *)
Definition is_brk_letter (c : N) : bool := ((c =? 108) || (c =? 110) || (c =? 112) || (c =? 78))%N.

Fixpoint gnw (l : text) (pos : nat) (esc : bool) (endPos startPos : nat) (fns frr eon : bool) (lvl : nat) (len : nat)
  : nat * nat * nat :=
  match l with
  | [] => if fns then (len, startPos, len) else (len, 0%nat, 0%nat)
  | c :: r =>
      if eon then (pos, startPos, pos)
      else if esc && is_brk_letter c then
        if frr then (endPos, startPos, endPos)
        else gnw r (S pos) esc endPos startPos fns frr true lvl len
      else if (c =? 92)%N && Nat.eqb lvl 0 then
        gnw r (S pos) true pos (if frr then startPos else pos) true frr eon lvl len
      else if (c =? 32)%N then
        if fns && Nat.eqb lvl 0 then (pos, startPos, pos)
        else gnw r (S pos) false endPos startPos fns frr eon lvl len
      else
        let lvl' := if (c =? 123)%N then S lvl else if (c =? 125)%N then pred lvl else lvl in
        gnw r (S pos) false endPos (if fns then startPos else pos) true true eon lvl' len
  end.

Definition get_next_word (txt : text) : nat * text :=
  let '(p, s, e) := gnw txt 0 false 0 0 false false false 0 (List.length txt) in
  (p, firstn (e - s) (skipn s txt)).

Definition bs (c : N) : text := [92%N; c].
Definition is_line_break (w : text) : bool :=
  text_eqb w (bs 110) || text_eqb w (bs 108) || text_eqb w (bs 112) || text_eqb w (bs 78).
Definition is_auto (w : text) := text_eqb w (bs 78).
Definition is_para (w : text) := text_eqb w (bs 112).

Record fst := { fOut : text; fLine : text; fW : Z; fN : Z; fFirst : bool }.

Fixpoint fmt_loop (fuel : nat) (fc : fontcfg) (txt : text) (maxW cursor : Z) (fontID : text) (numLines : Z)
         (spaceW : Z) (pos : nat) (word : text) (s : fst) : text :=
  match fuel with O => fOut s | S f =>
  match word with
  | [] => match fLine s with [] => fOut s | l => fOut s ++ l end
  | _ =>
    let '(endp, nextw) := get_next_word (skipn pos txt) in
    let pos' := (pos + endp)%nat in
    let s' :=
      if is_line_break word then
        let code := if is_auto word then (if (fN s <? numLines - 1)%Z then bs 110 else bs 108) else word in
        {| fOut := fOut s ++ fLine s ++ code ++ [10%N]; fLine := []; fW := 0;
           fN := if is_para word then 0%Z else (fN s + 1)%Z; fFirst := true |}
      else
        let ww := word_width fc word fontID in
        let nww := if fFirst s then ww else (ww + spaceW)%Z in
        let nw0 := (fW s + nww)%Z in
        let nw := if (match nextw with [] => false | _ => true end) && ((numLines - 1 <=? fN s)%Z || is_para nextw)
                  then (nw0 + cursor)%Z else nw0 in
        if (maxW <? nw)%Z && (match fLine s with [] => false | _ => true end) then
          {| fOut := fOut s ++ fLine s ++ (if (numLines - 1 <=? fN s)%Z then bs 108 else bs 110) ++ [10%N];
             fLine := word; fW := ww; fN := (fN s + 1)%Z; fFirst := false |}
        else
          {| fOut := fOut s; fLine := (if fFirst s then fLine s else fLine s ++ [32%N]) ++ word;
             fW := (fW s + nww)%Z; fN := fN s; fFirst := false |} in
    fmt_loop f fc txt maxW cursor fontID numLines spaceW pos' nextw s'
  end
  end.

Definition font_valid (fc : fontcfg) (fontID : text) : bool :=
  match assoc (fcFonts fc) fontID with Some _ => true | None => false end.

(* None = "unknown fontID" error *)
Definition format_text (fc : fontcfg) (txt0 : text) (maxW cursor : Z) (fontID : text) (numLines : Z) : option text :=
  if negb (font_valid fc fontID) && (match fontID with [] => false | _ => true end) && negb (text_eqb fontID testFontID)
  then None else
  let txt := map (fun c => if (c =? 10)%N then 32%N else c) txt0 in
  let spaceW := rune_width fc 32%N fontID in
  let '(pos, word) := get_next_word txt in
  match word with
  | [] => Some []
  | _ => Some (fmt_loop (S (List.length txt)) fc txt maxW cursor fontID numLines spaceW pos word
                        {| fOut := []; fLine := []; fW := 0; fN := 0; fFirst := true |})
  end.

(* ---------- parseFormatStringOperator (repaired D18) ---------- *)
Section FORMATOP.
Variable fc : fontcfg.
Variable cli_font : text.
Variable cli_maxlen : Z.
Variable env_errors : bool.

(* `num, _ := strconv.ParseInt(lit, 0, 64)`: the value on success, 0 on a syntax error and - the error being ignored - the
   nearest int64 on a range error (ParseUint stops at the digit that overflows 64 bits and reports MaxUint64; ParseInt then
   returns MaxInt64 / MinInt64). Found by the proof of FormatParams.v: an earlier version of the model answered 0 here. *)
Fixpoint sat_digits (base : Z) (ds : text) (acc : Z) : option Z :=
  match ds with
  | [] => Some acc
  | d :: r => match digit_val d with
              | Some v => if (v <? base)%Z then
                            let acc' := (acc * base + v)%Z in
                            if (acc' >=? 18446744073709551616)%Z then Some 18446744073709551615%Z else sat_digits base r acc'
                          else None
              | None => None
              end
  end.
Definition go_parse_int_sat (s : text) : Z :=
  let '(neg, body) := match s with 45%N :: r => (true, r) | 43%N :: r => (false, r) | _ => (false, s) end in
  let pre2 (a : N) := match body with 48%N :: x :: _ :: _ => (x =? a)%N | _ => false end in
  let bare2 (a : N) := match body with [48%N; x] => (x =? a)%N | _ => false end in
  let r := match body with
           | [] => None
           | _ =>
             if bare2 120%N || bare2 88%N || bare2 98%N || bare2 66%N || bare2 111%N || bare2 79%N then None
             else if pre2 120%N || pre2 88%N then sat_digits 16 (tl (tl body)) 0
             else if pre2 98%N || pre2 66%N then sat_digits 2 (tl (tl body)) 0
             else if pre2 111%N || pre2 79%N then sat_digits 8 (tl (tl body)) 0
             else match body with
                  | 48%N :: ((_ :: _) as ds) => sat_digits 8 ds 0
                  | _ => sat_digits 10 body 0
                  end
           end in
  match r with
  | None => 0%Z
  | Some un => if neg then (if (un >? 9223372036854775808)%Z then (-9223372036854775808)%Z else (- un)%Z)
               else (if (un >=? 9223372036854775808)%Z then 9223372036854775807%Z else un)
  end.
Definition pint (s : text) : Z := go_parse_int_sat s.
Definition named_params : list text := [t "fontId"; t "maxLineLength"; t "numLines"; t "cursorOverlapWidth"].
Definition mem (x : text) (l : list text) : bool := existsb (text_eqb x) l.

Record fparams := { pFont : text; pFontTok : option token; pMax : Z; pLines : Z; pCursor : Z; pSpec : list text }.

Fixpoint named_loop (fuel : nat) (ts : toks) (p : fparams) (had : bool) : res (fparams * bool * toks) :=
  match fuel with O => Fuel | S f =>
  if negb (peekis IDENT ts) then Ok (p, had, ts) else
  let ts1 := adv ts in
  let ptk := cur ts1 in
  let name := tlit ptk in
  if negb (mem name named_params) then err_tok ptk "invalid format() named parameter" else
  match expect_peek ASSIGN ts1 with
  | None => err_tok (pk 1 ts1) "missing '=' after format() named parameter"
  | Some ts2 =>
      if mem name (pSpec p) then err_tok ptk "duplicate parameter" else
      let spec := name :: pSpec p in
      do (p', ts3) <-
         (if text_eqb name (t "fontId") then
            match expect_peek STRING ts2 with
            | None => err_tok (pk 1 ts2) "invalid fontId. Expected string"
            | Some tsx => Ok ({| pFont := tlit (cur tsx); pFontTok := Some (cur tsx); pMax := pMax p; pLines := pLines p; pCursor := pCursor p; pSpec := spec |}, tsx)
            end
          else
            match expect_peek INT ts2 with
            | None => err_tok (pk 1 ts2) "invalid parameter. Expected integer"
            | Some tsx =>
                let v := pint (tlit (cur tsx)) in
                if text_eqb name (t "maxLineLength") then Ok ({| pFont := pFont p; pFontTok := pFontTok p; pMax := v; pLines := pLines p; pCursor := pCursor p; pSpec := spec |}, tsx)
                else if text_eqb name (t "numLines") then Ok ({| pFont := pFont p; pFontTok := pFontTok p; pMax := pMax p; pLines := v; pCursor := pCursor p; pSpec := spec |}, tsx)
                else Ok ({| pFont := pFont p; pFontTok := pFontTok p; pMax := pMax p; pLines := pLines p; pCursor := v; pSpec := spec |}, tsx)
            end);
      if peekis COMMA ts3 then
        let ts4 := adv ts3 in
        if negb (peekis IDENT ts4 || peekis RPAREN ts4) then err_tok (pk 1 ts4) "invalid parameter. Expected named parameter"
        else named_loop f ts4 p' true
      else named_loop f ts3 p' true
  end
  end.

Definition font_of (id : text) : font :=
  match assoc (fcFonts fc) id with Some f => f | None => {| fWidths := []; fCursor := 0; fMaxLen := 0; fNumLines := 0 |} end.

(* cur = format; result cur = ')' *)
Definition parse_format (ts : toks) : res (token * text * text * toks) :=
  match expect_peek LPAREN ts with
  | None => err_range (cur ts) (pk 1 ts) "format operator must begin with an open parenthesis"
  | Some ts1 =>
      let '(sty, ts2) := if peekis STRINGTYPE ts1 then (tlit (pk 1 ts1), adv ts1) else ([], ts1) in
      match expect_peek STRING ts2 with
      | None => err_tok (pk 1 ts2) "invalid format() argument. Expected a string literal"
      | Some ts3 =>
          let ttok := cur ts3 in
          let font0 := match cli_font with [] => fcDefault fc | _ => cli_font end in
          let p0 := {| pFont := font0; pFontTok := None; pMax := cli_maxlen; pLines := (-1)%Z; pCursor := (-1)%Z; pSpec := [] |} in
          do (p, ts4) <-
             (if peekis COMMA ts3 then
                let tsa := adv ts3 in
                do (p1, had1, expecting, tsb) <-
                   (if peekis INT tsa || peekis STRING tsa then
                      if peekis STRING tsa then
                        let tsc := adv tsa in
                        let p1 := {| pFont := tlit (cur tsc); pFontTok := Some (cur tsc); pMax := pMax p0; pLines := pLines p0; pCursor := pCursor p0; pSpec := [t "fontId"] |} in
                        do (p2, tsd) <-
                           (if peekis COMMA tsc && negb (is IDENT (pk 2 tsc)) then
                              let tse := adv tsc in
                              match expect_peek INT tse with
                              | None => err_tok (pk 1 tse) "invalid format() maxLineLength. Expected integer"
                              | Some tsf => Ok ({| pFont := pFont p1; pFontTok := pFontTok p1; pMax := pint (tlit (cur tsf)); pLines := pLines p1; pCursor := pCursor p1; pSpec := pSpec p1 |}, tsf)
                              end
                            else Ok (p1, tsc));
                        let ex := peekis COMMA tsd in
                        Ok (p2, true, ex, if ex then adv tsd else tsd)
                      else
                        let tsc := adv tsa in
                        let p1 := {| pFont := pFont p0; pFontTok := None; pMax := pint (tlit (cur tsc)); pLines := pLines p0; pCursor := pCursor p0; pSpec := [t "maxLineLength"] |} in
                        do (p2, tsd) <-
                           (if peekis COMMA tsc && negb (is IDENT (pk 2 tsc)) then
                              let tse := adv tsc in
                              match expect_peek STRING tse with
                              | None => err_tok (pk 1 tse) "invalid format() fontId. Expected string"
                              | Some tsf => Ok ({| pFont := tlit (cur tsf); pFontTok := Some (cur tsf); pMax := pMax p1; pLines := pLines p1; pCursor := pCursor p1; pSpec := pSpec p1 |}, tsf)
                              end
                            else Ok (p1, tsc));
                        let ex := peekis COMMA tsd in
                        Ok (p2, true, ex, if ex then adv tsd else tsd)
                    else Ok (p0, false, true, tsa));
                do (p2, had2, tsc) <- (if expecting then named_loop (S (List.length tsb)) tsb p1 had1 else Ok (p1, had1, tsb));
                if negb had2 then err_tok (pk 1 tsc) "invalid format() parameter" else Ok (p2, tsc)
              else Ok (p0, ts3));
          match expect_peek RPAREN ts4 with
          | None => err_tok (pk 1 ts4) "missing closing parenthesis ')' for format()"
          | Some ts5 =>
              let f := font_of (pFont p) in
              let maxl := if (pMax p <=? 0)%Z then fMaxLen f else pMax p in
              let nl := if (pLines p <=? 0)%Z then (if (fNumLines f <=? 0)%Z then 2%Z else fNumLines f) else pLines p in
              let cu := if (pCursor p <=? 0)%Z then fCursor f else pCursor p in
              match format_text fc (tlit ttok) maxl cu (pFont p) nl with
              | Some out => Ok (ttok, out, sty, ts5)
              | None => if env_errors then err_tok (match pFontTok p with Some tk => tk | None => ttok end) "unknown fontID"
                        else Ok (ttok, [], sty, ts5)
              end
          end
      end
  end.
End FORMATOP.
