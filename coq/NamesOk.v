(* C01 / C05 - the conditions on NAMES of the top theorems, stated on the SOURCE instead of on the compiler's output.

   compiled_scripts_correct_from_source (C01Top.v) and program_scripts_correct (ProgramRun.v) carried executable premises computed
   from the emitted code:  names_okb (finals w) code = true,  NoDup (dlabs body), and (theorem 6 of ProgramRun.v) a hypothesis on
   the jump targets of the emitted code.  Here they are replaced by one executable predicate on the script's name and body:

     src_names_ok name body = true   iff   (src_names_ok_spec)
       1. the labels the author wrote in the script, at any depth, are pairwise distinct                        NoDup (dlabs body)
       2. every command statement  goto(l)  (exactly one argument), at any depth, names a label of the script, or a name that is
          neither the script's own name nor of the form <name>_<digits> (the form of every generated sub-label, generated_form)
       3. no AutoVar command of a condition leaf is called end / return / goto.
     (dlabs: WorkLabels.v; the constructs of a body at any depth: MarkerLines.body_constructs.)

   MAIN STATEMENTS
     names_ok_from_source        src_ok body -> src_names_ok name body = true -> emit_graph body = Ok w ->
                                 emit_script mp tl name glob optimize body = Ok code -> names_okb (finals w) code = true
                                 (src_ok body is a theorem for every body of every accepted program: ProgSrc.accepted_bodies_are_src_ok)
     compiled_scripts_correct_src_names       C01 for every script body of every accepted source text, both directions, with
                                 src_names_ok as the only condition on names (left: the 10^40 size bound of the model's printer)
     optimize_equiv_src_names                 C05 (-optimize off / on behave alike) under the same condition
     program_scripts_correct_src_names,       theorem 5 of ProgramRun.v (the script inside the WHOLE program's instruction list)
     program_script_goto_continues_src_names  and its corollary, with src_names_ok in place of names_okb
     jump_targets_from_source    every jump target of an emitted script is a label of the script's own code or the target of a
                                 goto(..) statement the author wrote   (generated_targets_defined: generated jumps stay inside)
     source_labels_in_code       every label the author wrote is a label of the script's code
     program_self_contained_scripts_correct_src_names   theorem 6 of ProgramRun.v: the hypothesis on the jump targets of the emitted
                                 code becomes a hypothesis on the author's goto(..) statements only (each names a label of the script or
                                 something the emitted program does not define)
     lbl_generated_form, generated_form_spec  every generated sub-label  lbl name d (d >= 0)  has the form <name>_<digits>

   EXAMPLES (part 5, all by vm_compute from source texts through the model's lexer / parser / emitter)
     good_hypotheses, good_names_okb, good_compiled_correctly   the hypotheses hold on a script with if / AutoVar condition / while /
                                 break / label / goto to it / goto out, and the theorems apply
     duplicate_label_miscompiled             clause 1 is needed: a label written twice is accepted by parser and emitter, names_okb
                                 even holds, and source and assembly run differently (first L in source order vs first L in emitted order)
     goto_generated_label_miscompiled        clause 2 (<name>_<digits>) is needed: goto(S_2) in script S
     goto_own_name_differs_alone             clause 2 (own name) is needed for the script run alone: goto(S) in script S
     autovar_named_end_miscompiled           clause 3 is needed: `end` configured as an AutoVar command
     label_like_generated_rejected_by_emitter   NO clause "a label is not of the form <name>_<digits>" is needed: a label S_1 in script S
                                 is rejected by the emitter (ErrLabel) when chunk 1 exists, and is harmless otherwise
     far_generated_name_harmless             src_names_ok is sufficient, not necessary (goto(S_99) with no chunk 99)

   PART 6: clause 3 from the command configuration
     autovar_names_from_config   if no AutoVar command of the configuration is called end / return / goto (autovars_ok autovars = true),
                                 clause 3 holds for every script body of every accepted program (via AutoVarProgram.program_autovar_leaves)
     src_names_ok_from_labels, compiled_scripts_correct_src_labels   hence C01 under  autovars_ok autovars  and  src_labels_ok name body
                                 (clauses 1 and 2 only: labels and gotos)

   PART 7: program_local_goto_scripts_correct   theorem 6 with every hypothesis about the script on its source: src_names_ok and
                                 gotos_local body (every goto names a label of the script; e.g. every script without goto statements):
                                 C01 verbatim against the WHOLE program's instruction list

   PART 8: the labels of the emitted program, from the source
     program_labels_from_source  every label of the emitted program is in  program_names p : a script's name, a name <script>_<digits>,
                                 a label an author wrote in a script, the name of a movement / mart / mapscripts statement / table, or a text name
     program_self_contained_scripts_correct_source   theorem 6 of ProgramRun.v with its jump-target hypothesis on the source: every
                                 goto(l) statement of the script names a label of the script or a name outside program_names p
     source_hypotheses_satisfiable   the executable hypotheses on a two-script program

   NOT PROVED HERE / LEFT AS PREMISES: NoDup (lnames prog) (boundary B2: labels of the whole program pairwise distinct) and the 10^40
   size bound of the model's decimal printer stay as they were; src_ok body is needed by names_ok_from_source (a theorem for accepted
   programs).  src_names_ok is sufficient, not necessary (far_generated_name_harmless). *)

From Coq Require Import List String Ascii ZArith NArith Lia Bool Permutation.
From Pory Require Import Lexer Ast Parser Format Emitter Sem2 SemTgt Tr EmitProps RenderSim RenderCheck LabelSim C01Final Worklist
                         WorkLabels WorkShape OrderPerm LabelsUnique RenderFromSource C01Main ProgWf ProgSrc C01Top NameClash ProgramRun.
From Pory Require MarkerLines AutoVarParse AutoVarProgram.
Import ListNotations.
Open Scope list_scope.

(* ================================================================================================================== *)
(* PART 1: names of the form  <name>_<digits>                                                                          *)
(* ================================================================================================================== *)
Definition is_digit (c : N) : bool := (48 <=? c)%N && (c <=? 57)%N.

(* l = name ++ "_" ++ ds  with ds a non-empty string of decimal digits: the form of every generated sub-label *)
Definition generated_form (name l : text) : bool :=
  match starts (name ++ t "_") l with
  | Some ds => match ds with [] => false | _ => forallb is_digit ds end
  | None => false
  end.

Lemma starts_app p : forall s, starts p (p ++ s) = Some s.
Proof. induction p as [|a p IH]; intros s; cbn [starts app]; [reflexivity|]. rewrite N.eqb_refl. apply IH. Qed.

Lemma starts_some p : forall s r, starts p s = Some r -> s = p ++ r.
Proof.
  induction p as [|a p IH]; intros s r H; cbn [starts] in H.
  - injection H as ->. reflexivity.
  - destruct s as [|b s]; [discriminate|]. destruct (N.eqb_spec a b) as [->|]; [|discriminate]. cbn [app]. f_equal. apply IH. exact H.
Qed.

Theorem generated_form_spec name l :
  generated_form name l = true <-> exists ds, l = name ++ t "_" ++ ds /\ ds <> [] /\ forallb is_digit ds = true.
Proof.
  unfold generated_form. split.
  - destruct (starts (name ++ t "_") l) as [ds|] eqn:E; [|discriminate]. intros H. apply starts_some in E. exists ds.
    split; [rewrite E, <- app_assoc; reflexivity|]. destruct ds; [discriminate|]. split; [discriminate|exact H].
  - intros (ds & -> & NE & D). rewrite app_assoc, starts_app. destruct ds; [congruence|exact D].
Qed.

Lemma dec_aux_digits f : forall n acc, forallb is_digit acc = true -> forallb is_digit (dec_aux f n acc) = true.
Proof.
  induction f as [|f IH]; intros n acc H; [exact H|]. rewrite dec_aux_eq.
  assert (D : is_digit (48 + n mod 10)%N = true).
  { pose proof (N.mod_lt n 10 ltac:(lia)) as ML. revert ML. generalize (n mod 10)%N. intros r ML.
    unfold is_digit. apply andb_true_intro. split; apply N.leb_le; lia. }
  destruct (N.eqb (N.div n 10) 0).
  - cbn [forallb]. rewrite D, H. reflexivity.
  - apply IH. cbn [forallb]. rewrite D, H. reflexivity.
Qed.

Lemma dec_digits n : forallb is_digit (dec n) = true.
Proof. unfold dec. apply dec_aux_digits. reflexivity. Qed.

(* every sub-label the emitter generates has this form *)
Theorem lbl_generated_form name d : (0 <= d)%Z -> generated_form name (lbl name d) = true.
Proof.
  intros H. apply generated_form_spec. exists (decZ d). split; [reflexivity|]. split; [apply decZ_nonempty; exact H|].
  rewrite decZ_nonneg by exact H. apply dec_digits.
Qed.

(* ================================================================================================================== *)
(* PART 2: the condition on the source, and names_okb from it                                                          *)
(* ================================================================================================================== *)
Module ML := MarkerLines.

Definition tmem (x : text) (l : list text) : bool := existsb (text_eqb x) l.
Lemma tmem_in x l : tmem x l = true <-> In x l.
Proof.
  unfold tmem. rewrite existsb_exists. split.
  - intros (y & Hy & E). apply text_eqb_iff in E. now subst.
  - intros H. exists x. split; [exact H|now apply text_eqb_iff].
Qed.

(* the AutoVar command of a condition leaf is not called end / return / goto *)
Definition pre_name_ok (l : leaf) : bool :=
  match lpre l with
  | Some p => negb (is_name p "end") && negb (is_name p "return") && negb (is_name p "goto")
  | None => true
  end.

(* a command statement  goto(l)  names a label of the script, or a name that is neither the script's name nor of the
   form <name>_<digits> *)
Definition goto_target_ok (name : text) (labs : list text) (c : cmd) : bool :=
  if is_name c "goto" then
    match cargs c with
    | [l] => tmem l labs || (negb (text_eqb l name) && negb (generated_form name l))
    | _ => true
    end
  else true.

Definition construct_ok (name : text) (labs : list text) (k : ML.construct) : bool :=
  match k with
  | ML.KCommand c => goto_target_ok name labs c
  | ML.KCond l => pre_name_ok l
  | _ => true
  end.

(* THE SOURCE CONDITION.  dlabs body: the labels the author wrote in the script, at any depth (WorkLabels.v);
   ML.body_constructs body: every command statement, label, condition leaf, switch head and case of the body, at any depth
   (MarkerLines.v). *)
Definition src_names_ok (name : text) (body : list stmt) : bool :=
  nodupt (dlabs body) && forallb (construct_ok name (dlabs body)) (ML.body_constructs body).

Theorem src_names_ok_spec name body :
  src_names_ok name body = true <->
  NoDup (dlabs body) /\
  (forall c l, In (ML.KCommand c) (ML.body_constructs body) -> is_name c "goto" = true -> cargs c = [l] ->
     In l (dlabs body) \/ (l <> name /\ generated_form name l = false)) /\
  (forall l p, In (ML.KCond l) (ML.body_constructs body) -> lpre l = Some p ->
     is_name p "end" = false /\ is_name p "return" = false /\ is_name p "goto" = false).
Proof.
  unfold src_names_ok. rewrite andb_true_iff, nodupt_iff, forallb_forall. split.
  - intros [ND F]. split; [exact ND|]. split.
    + intros c l Hc N A. specialize (F _ Hc). cbn [construct_ok] in F. unfold goto_target_ok in F. rewrite N, A in F.
      apply orb_prop in F. destruct F as [F|F]; [left; apply tmem_in; exact F|right].
      apply andb_prop in F. destruct F as [F1 F2]. apply negb_true_iff in F1, F2. split; [|exact F2].
      intros ->. rewrite (proj2 (text_eqb_iff name name) eq_refl) in F1. discriminate.
    + intros l p Hl P. specialize (F _ Hl). cbn [construct_ok] in F. unfold pre_name_ok in F. rewrite P in F.
      apply andb_prop in F. destruct F as [F F3]. apply andb_prop in F. destruct F as [F1 F2].
      apply negb_true_iff in F1, F2, F3. auto.
  - intros (ND & C & L). split; [exact ND|]. intros k Hk. destruct k as [c| |l| | | | | | | | | |]; try reflexivity; cbn [construct_ok].
    + unfold goto_target_ok. destruct (is_name c "goto") eqn:N; [|reflexivity]. destruct (cargs c) as [|l [|l2 r]] eqn:A; try reflexivity.
      destruct (C c l Hk N A) as [H|[H1 H2]].
      * apply tmem_in in H. rewrite H. reflexivity.
      * rewrite H2. destruct (text_eqb l name) eqn:Q; [apply text_eqb_iff in Q; contradiction|]. apply orb_true_r.
    + unfold pre_name_ok. destruct (lpre l) as [p|] eqn:P; [|reflexivity]. destruct (L l p Hk P) as (-> & -> & ->). reflexivity.
Qed.

(* ---------- the label search of the graph finds every label a chunk carries ---------- *)
Lemma after_label_some l : forall ss, In l (map Datatypes.fst (user_labels ss)) -> after_label l ss <> None.
Proof.
  induction ss as [|x r IH]; intros H; [destruct H|].
  destruct x as [cm|n g tk| | | | | | ]; cbn [user_labels flat_map app map] in H; cbn [after_label]; try (apply IH; exact H).
  fold (user_labels r) in H. cbn [Datatypes.fst] in H. destruct (text_eqb n l) eqn:Q; [discriminate|].
  destruct H as [->|H]; [rewrite (proj2 (text_eqb_iff l l) eq_refl) in Q; discriminate|apply IH; exact H].
Qed.

Lemma gfl_some l : forall G, In l (chunk_labels G) -> graph_find_label l G <> None.
Proof.
  induction G as [|x r IH]; intros H; [destruct H|]. cbn [graph_find_label]. unfold chunk_labels in H. cbn [flat_map] in H.
  destruct (after_label l (cstmts x)) as [ss|] eqn:A; [discriminate|]. apply in_app_or in H. destruct H as [H|H].
  - exfalso. exact (after_label_some _ _ H A).
  - apply IH. exact H.
Qed.

(* ---------- the label names of the rendered script ---------- *)
(* every label of the code is the script name, a generated  name_<id>  with id >= 0 the id of a chunk, or a label of a chunk *)
Lemma code_label_cases mp tl name glob G order code l :
  render_chunks mp tl name glob G order = Emitter.Ok code -> In l (lnames code) ->
  l = name \/ (exists c, In c G /\ l = lbl name (cid c)) \/ In l (chunk_labels G).
Proof.
  intros HR Hl. destruct (render_chunks_lnames _ _ _ _ _ _ _ HR) as (regs & E & _). rewrite E in Hl.
  apply in_flat_map in Hl. destruct Hl as (c & Hc & Hl). apply rchunks_in in Hc. destruct Hc as [_ Hc].
  apply in_app_or in Hl. destruct Hl as [Hl|Hl].
  - destruct (lnames_header name glob regs c) as [Q|Q]; rewrite Q in Hl; [destruct Hl|]. destruct Hl as [<-|[]].
    unfold chunk_label. destruct (Z.eqb (cid c) 0); [left; reflexivity|right; left; exists c; auto].
  - right. right. rewrite chunk_labels_ulab. apply in_flat_map. exists c. auto.
Qed.

Local Opaque emit_graph order_of.

(* MAIN LEMMA: the output-level premise names_okb follows from the source condition *)
Theorem names_ok_from_source mp tl name glob optimize body w code :
  src_ok body ->
  src_names_ok name body = true ->
  emit_graph body = Emitter.Ok w ->
  emit_script mp tl name glob optimize body = Emitter.Ok code ->
  names_okb (finals w) code = true.
Proof.
  intros HS HN HW HE. apply src_names_ok_spec in HN. destruct HN as (ND & HG & HL).
  pose proof (ML.emit_graph_in body w HW) as IN. rewrite Forall_forall in IN.
  pose proof (chunk_labels_are_source_labels body w HW HS) as PERM.
  destruct (final_graph_shape body w HW HS) as ([_ RG] & _). rewrite Forall_forall in RG.
  rewrite emit_script_eq, HW in HE.
  unfold names_okb. apply andb_true_intro. split; apply forallb_forall; intros c Hc; destruct (IN c Hc) as [SI BI].
  - unfold pre_okb. destruct (cbr c) as [[d|d|l tr fa|op ol cases dd dest]|]; try reflexivity.
    cbn [ML.br_in] in BI. destruct (lpre l) as [p|] eqn:P; [|reflexivity]. destruct (HL l p BI P) as (-> & -> & ->). reflexivity.
  - unfold goto_okb. apply forallb_forall. intros st Hst. destruct st as [cm|n g tk| | | | | | ]; try reflexivity.
    destruct (is_name cm "goto") eqn:N; [|reflexivity]. destruct (cargs cm) as [|l [|l2 r]] eqn:A; try reflexivity.
    destruct (graph_find_label l (finals w)) as [a|] eqn:GF; [reflexivity|].
    assert (HK : In (ML.KCommand cm) (ML.body_constructs body)).
    { apply (SI _ Hst). rewrite ML.stmt_constructs_cmd. left. reflexivity. }
    apply negb_true_iff. apply not_true_is_false. intros X. apply tmem_in in X.
    destruct (HG cm l HK N A) as [H|[H1 H2]].
    + apply (gfl_some l (finals w)); [|exact GF]. eapply Permutation_in; [symmetry; exact PERM|exact H].
    + destruct (code_label_cases _ _ _ _ _ _ _ _ HE X) as [Q|[(c' & Hc' & Q)|Q]].
      * contradiction.
      * specialize (RG c' Hc'). cbn in RG. rewrite Q, lbl_generated_form in H2 by lia. discriminate.
      * exact (gfl_some l (finals w) Q GF).
Qed.

(* ================================================================================================================== *)
(* PART 3: the top theorems of C01 with the condition on the source                                                    *)
(* ================================================================================================================== *)

(* the source condition gives both premises of compiled_scripts_correct_from_source that spoke about names *)
Lemma src_names_premises hl hd hs autovars switches ee fc cli_font cli_maxlen (src : text) (p : program) :
  parse_program autovars switches ee (parse_format fc cli_font cli_maxlen ee) (lex hl hd hs src) = Parser.Ok p ->
  forall body, In body (bodies_of (tops p)) ->
  forall (mp : option text) (tl : list text) (name : text) (glob optimize : bool) (w : wst) (code : list instr),
  src_names_ok name body = true ->
  emit_graph body = Emitter.Ok w ->
  emit_script mp tl name glob optimize body = Emitter.Ok code ->
  NoDup (dlabs body) /\ names_okb (finals w) code = true.
Proof.
  intros HP body HB mp tl name glob optimize w code HN HW HE.
  pose proof (accepted_bodies_are_src_ok hl hd hs autovars switches ee fc cli_font cli_maxlen src p HP) as A.
  rewrite Forall_forall in A. destruct (A body HB) as [SO _]. split.
  - apply src_names_ok_spec in HN. tauto.
  - eapply names_ok_from_source; eassumption.
Qed.

(* C01 FROM THE SOURCE TEXT, ALL CONDITIONS ON NAMES STATED ON THE SOURCE.  For every accepted source text, every script body
   of the program and every script name: if the author's names pass src_names_ok (labels pairwise distinct; goto targets are
   labels of the script or names that are neither the script name nor <name>_<digits>; no AutoVar command called
   end / return / goto), the emitted instruction list run from the script's label and the structured source perform the same
   commands and finish the same way.  Left: the size bound of the model's 40-digit decimal printer. *)
Theorem compiled_scripts_correct_src_names
  (St : Type) (exec : cmd -> St -> stepres St) (flag_set trainer_beaten : text -> St -> bool)
  (cmp_var cmp_var_value : text -> text -> St -> comparison) (case_matches : text -> text -> St -> bool)
  hl hd hs autovars switches ee fc cli_font cli_maxlen (src : text) (p : program) :
  parse_program autovars switches ee (parse_format fc cli_font cli_maxlen ee) (lex hl hd hs src) = Parser.Ok p ->
  forall body, In body (bodies_of (tops p)) ->
  forall (mp : option text) (tl : list text) (name : text) (glob optimize : bool) (w : wst) (code : list instr),
  src_names_ok name body = true ->
  emit_graph body = Emitter.Ok w ->
  emit_script mp tl name glob optimize body = Emitter.Ok code ->
  (Z.of_nat (List.length (finals w)) <= 10 ^ 40)%Z ->
  (forall n s, exists m,
      run sfinal (sstep St exec flag_set trainer_beaten cmp_var cmp_var_value case_matches (fun l => fl_body l body Kstop)) n (enter body Kstop) s =
      run (@tfinal) (tstep St exec flag_set trainer_beaten cmp_var cmp_var_value case_matches code) m (jump code name) s) /\
  (forall m s, exists n,
      res_le (run (@tfinal) (tstep St exec flag_set trainer_beaten cmp_var cmp_var_value case_matches code) m (jump code name) s)
             (run sfinal (sstep St exec flag_set trainer_beaten cmp_var cmp_var_value case_matches (fun l => fl_body l body Kstop)) n (enter body Kstop) s)).
Proof.
  intros HP body HB mp tl name glob optimize w code HN HW HE SZ.
  destruct (src_names_premises hl hd hs autovars switches ee fc cli_font cli_maxlen src p HP body HB mp tl name glob optimize w code HN HW HE) as [ND NM].
  eapply compiled_scripts_correct_from_source; eassumption.
Qed.

(* C05 with the same condition: the outputs with -optimize off and on behave alike *)
Theorem optimize_equiv_src_names
  (St : Type) (exec : cmd -> St -> stepres St) (flag_set trainer_beaten : text -> St -> bool)
  (cmp_var cmp_var_value : text -> text -> St -> comparison) (case_matches : text -> text -> St -> bool)
  hl hd hs autovars switches ee fc cli_font cli_maxlen (src : text) (p : program) :
  parse_program autovars switches ee (parse_format fc cli_font cli_maxlen ee) (lex hl hd hs src) = Parser.Ok p ->
  forall body, In body (bodies_of (tops p)) ->
  forall (mp : option text) (tl : list text) (name : text) (glob : bool) (w : wst) (code0 code1 : list instr),
  src_names_ok name body = true ->
  emit_graph body = Emitter.Ok w ->
  emit_script mp tl name glob false body = Emitter.Ok code0 ->
  emit_script mp tl name glob true body = Emitter.Ok code1 ->
  (Z.of_nat (List.length (finals w)) <= 10 ^ 40)%Z ->
  (forall m s, exists m', res_le (run (@tfinal) (tstep St exec flag_set trainer_beaten cmp_var cmp_var_value case_matches code0) m (jump code0 name) s)
                                 (run (@tfinal) (tstep St exec flag_set trainer_beaten cmp_var cmp_var_value case_matches code1) m' (jump code1 name) s)) /\
  (forall m s, exists m', res_le (run (@tfinal) (tstep St exec flag_set trainer_beaten cmp_var cmp_var_value case_matches code1) m (jump code1 name) s)
                                 (run (@tfinal) (tstep St exec flag_set trainer_beaten cmp_var cmp_var_value case_matches code0) m' (jump code0 name) s)).
Proof.
  intros HP body HB mp tl name glob w code0 code1 HN HW H0 H1 SZ.
  destruct (src_names_premises hl hd hs autovars switches ee fc cli_font cli_maxlen src p HP body HB mp tl name glob false w code0 HN HW H0) as [ND N0].
  destruct (src_names_premises hl hd hs autovars switches ee fc cli_font cli_maxlen src p HP body HB mp tl name glob true w code1 HN HW H1) as [_ N1].
  eapply optimize_equiv_from_source; eassumption.
Qed.

(* ---------- in the whole program's instruction list (ProgramRun.v, theorems 5 and 6) ---------- *)
Section C01PROG_SRC.
Variable St : Type.
Variable exec : cmd -> St -> stepres St.
Variable flag_set trainer_beaten : text -> St -> bool.
Variable cmp_var cmp_var_value : text -> text -> St -> comparison.
Variable case_matches : text -> text -> St -> bool.
Notation tstep := (tstep St exec flag_set trainer_beaten cmp_var cmp_var_value case_matches).
Notation srun body := (run sfinal (sstep St exec flag_set trainer_beaten cmp_var cmp_var_value case_matches (fun l => fl_body l body Kstop))).

Lemma program_names_okb hl hd hs autovars switches ee fc cli_font cli_maxlen (src : text) (p : program) optimize mp :
  parse_program autovars switches ee (parse_format fc cli_font cli_maxlen ee) (lex hl hd hs src) = Parser.Ok p ->
  forall name glob body, In (name, glob, body) (scripts_of (tops p)) ->
  src_names_ok name body = true ->
  forall w code, emit_graph body = Emitter.Ok w ->
  emit_script mp (map xname (texts p)) name glob optimize body = Emitter.Ok code ->
  names_okb (finals w) code = true.
Proof.
  intros HP name glob body HS HN w code HW HC.
  assert (HB : In body (bodies_of (tops p))).
  { rewrite <- scripts_bodies. apply in_map_iff. exists (name, glob, body). split; [reflexivity|exact HS]. }
  exact (proj2 (src_names_premises hl hd hs autovars switches ee fc cli_font cli_maxlen src p HP body HB mp _ name glob optimize w code HN HW HC)).
Qed.

(* theorem 5 of ProgramRun.v with the source condition in place of names_okb *)
Theorem program_scripts_correct_src_names hl hd hs autovars switches ee fc cli_font cli_maxlen (src : text) (p : program) optimize mp prog :
  parse_program autovars switches ee (parse_format fc cli_font cli_maxlen ee) (lex hl hd hs src) = Parser.Ok p ->
  emit_program_instrs optimize mp p = Emitter.Ok prog ->
  NoDup (lnames prog) ->
  forall name glob body, In (name, glob, body) (scripts_of (tops p)) ->
  src_names_ok name body = true ->
  forall w code, emit_graph body = Emitter.Ok w ->
  emit_script mp (map xname (texts p)) name glob optimize body = Emitter.Ok code ->
  (forall n s, exists m,
      match Datatypes.snd (srun body n (enter body Kstop) s) with
      | Done (OJumpOut l) =>
          exists k s', (k <= m)%nat /\
            steps (@tfinal) (tstep prog) k (jump prog name) s (Datatypes.fst (srun body n (enter body Kstop) s)) (jump prog l) s'
      | _ => run (@tfinal) (tstep prog) m (jump prog name) s = srun body n (enter body Kstop) s
      end) /\
  (forall m s, exists n,
      res_le (run (@tfinal) (tstep prog) m (jump prog name) s) (srun body n (enter body Kstop) s) \/
      exists l k s', Datatypes.snd (srun body n (enter body Kstop) s) = Done (OJumpOut l) /\ In l (lnames prog) /\ (k <= m)%nat /\
        steps (@tfinal) (tstep prog) k (jump prog name) s (Datatypes.fst (srun body n (enter body Kstop) s)) (jump prog l) s').
Proof.
  intros HP HE ND name glob body HS HN w code HW HC.
  pose proof (program_names_okb hl hd hs autovars switches ee fc cli_font cli_maxlen src p optimize mp HP name glob body HS HN w code HW HC) as NM.
  exact (program_scripts_correct St exec flag_set trainer_beaten cmp_var cmp_var_value case_matches
           hl hd hs autovars switches ee fc cli_font cli_maxlen src p optimize mp prog HP HE ND name glob body HS w code HW HC NM).
Qed.

Corollary program_script_goto_continues_src_names hl hd hs autovars switches ee fc cli_font cli_maxlen (src : text) (p : program) optimize mp prog :
  parse_program autovars switches ee (parse_format fc cli_font cli_maxlen ee) (lex hl hd hs src) = Parser.Ok p ->
  emit_program_instrs optimize mp p = Emitter.Ok prog ->
  NoDup (lnames prog) ->
  forall name glob body, In (name, glob, body) (scripts_of (tops p)) ->
  src_names_ok name body = true ->
  forall w code, emit_graph body = Emitter.Ok w ->
  emit_script mp (map xname (texts p)) name glob optimize body = Emitter.Ok code ->
  forall n s l, Datatypes.snd (srun body n (enter body Kstop) s) = Done (OJumpOut l) ->
  exists k s', forall j,
    run (@tfinal) (tstep prog) (k + j) (jump prog name) s =
      (Datatypes.fst (srun body n (enter body Kstop) s) ++ Datatypes.fst (run (@tfinal) (tstep prog) j (jump prog l) s'),
       Datatypes.snd (run (@tfinal) (tstep prog) j (jump prog l) s')).
Proof.
  intros HP HE ND name glob body HS HN w code HW HC.
  pose proof (program_names_okb hl hd hs autovars switches ee fc cli_font cli_maxlen src p optimize mp HP name glob body HS HN w code HW HC) as NM.
  exact (program_script_goto_continues St exec flag_set trainer_beaten cmp_var cmp_var_value case_matches
           hl hd hs autovars switches ee fc cli_font cli_maxlen src p optimize mp prog HP HE ND name glob body HS w code HW HC NM).
Qed.
End C01PROG_SRC.

(* ================================================================================================================== *)
(* PART 4: the jump targets of an emitted script                                                                       *)
(* ================================================================================================================== *)
Lemma jtargets_app a b : jtargets (a ++ b) = jtargets a ++ jtargets b.
Proof. apply flat_map_app. Qed.

Section JT.
Variable mp : option text.
Variable name : text.

Lemma jt_marker line : jtargets (marker mp line) = [].
Proof. unfold marker. destruct mp; reflexivity. Qed.

(* an author's goto(l) statement of the chunk *)
Definition goto_stmt (ss : list stmt) (l : text) : Prop :=
  exists cm, In (SCmd cm) ss /\ is_name cm "goto" = true /\ cargs cm = [l].

Lemma jt_render_stmts l : forall ss, In l (jtargets (flat_map (render_stmt mp) ss)) -> goto_stmt ss l.
Proof.
  induction ss as [|s r IH]; intros H; [destruct H|]. cbn [flat_map] in H. rewrite jtargets_app in H. apply in_app_or in H.
  destruct H as [H|H].
  - destruct s as [cm|n g tk| | | | | | ]; cbn [render_stmt] in H; try (destruct H; fail).
    + rewrite jtargets_app, jt_marker in H. cbn [app jtargets flat_map itargets] in H. rewrite app_nil_r in H.
      destruct (is_name cm "goto") eqn:N; [|destruct H]. destruct (cargs cm) as [|x [|y q]] eqn:A; try (destruct H; fail).
      destruct H as [<-|[]]. exists cm. split; [left; reflexivity|auto].
    + rewrite jtargets_app, jt_marker in H. destruct H.
  - destruct (IH H) as (cm & I & Q). exists cm. split; [right; exact I|exact Q].
Qed.

Lemma jt_gof l d nx m1 : In l (jtargets (Datatypes.fst (Datatypes.fst (goto_or_fall name d nx m1)))) ->
  exists y, In y (Datatypes.snd (Datatypes.fst (goto_or_fall name d nx m1))) /\ l = lbl name y.
Proof.
  unfold goto_or_fall. destruct (m1 && _); [intros []|]. destruct (d =? nx)%Z; [intros []|]. cbn. intros [<-|[]].
  exists d. split; [left; reflexivity|reflexivity].
Qed.

Lemma jt_leaf_cmp l lf d : In l (jtargets (render_leaf_cmp name lf d)) -> l = lbl name d.
Proof.
  unfold render_leaf_cmp. destruct (lk lf); [destruct (flag_truthy lf)| |]; cbn; intros H; repeat (destruct H as [H|H]; [symmetry; exact H|]); destruct H.
Qed.

(* an AutoVar command of a condition of the chunk that is called goto *)
Definition goto_pre (c : chunk) (l : text) : Prop :=
  exists lf tr fa p, cbr c = Some (BrLeaf lf tr fa) /\ lpre lf = Some p /\ is_name p "goto" = true /\ cargs p = [l].

Lemma jt_cases l : forall cases : list (text * Z * Z),
  In l (jtargets (flat_map (fun '(v, vl, d) => marker mp vl ++ [ICase v (lbl name d)]) cases)) ->
  exists y, In y (map (fun '(_, _, d) => d) cases) /\ l = lbl name y.
Proof.
  induction cases as [|[[v vl] d] r IH]; intros H; [destruct H|]. cbn [flat_map] in H. rewrite !jtargets_app, jt_marker in H.
  cbn [app] in H. apply in_app_or in H. destruct H as [H|H].
  - cbn in H. destruct H as [<-|[]]. exists d. split; [left; reflexivity|reflexivity].
  - destruct (IH H) as (y & I & Q). exists y. split; [right; exact I|exact Q].
Qed.

Lemma jt_swhd ol op : jtargets (marker mp ol ++ [ISwitch op]) = [].
Proof. rewrite jtargets_app, jt_marker. reflexivity. Qed.

Lemma jt_branch l c nx : In l (jtargets (Datatypes.fst (Datatypes.fst (render_branch mp name c nx)))) ->
  (exists y, In y (Datatypes.snd (Datatypes.fst (render_branch mp name c nx))) /\ l = lbl name y) \/ goto_pre c l.
Proof.
  unfold render_branch, goto_pre. destruct (cbr c) as [[d|d|lf tr fa|op ol cases dd dest]|].
  - intros H. left. apply jt_gof. exact H.
  - intros H. left. apply jt_gof. exact H.
  - pose proof (jt_gof l fa nx true) as GF. destruct (goto_or_fall name fa nx true) as [[x regs] fall]. cbn [Datatypes.fst Datatypes.snd] in *.
    rewrite !jtargets_app, jt_marker. cbn [app]. intros H. apply in_app_or in H. destruct H as [H|H].
    + right. destruct (lpre lf) as [p|] eqn:P; [|destruct H]. cbn [jtargets flat_map itargets] in H. rewrite app_nil_r in H.
      destruct (is_name p "goto") eqn:N; [|destruct H]. destruct (cargs p) as [|a [|b q]] eqn:A; try (destruct H; fail).
      destruct H as [<-|[]]. exists lf, tr, fa, p. auto.
    + left. apply in_app_or in H. destruct H as [H|H].
      * apply jt_leaf_cmp in H. exists tr. split; [left; reflexivity|exact H].
      * destruct (GF H) as (y & I & Q). exists y. split; [right; exact I|exact Q].
  - intros H. left.
    destruct dd as [dd|].
    + destruct (dd =? nx)%Z; cbn [Datatypes.fst Datatypes.snd] in *.
      * rewrite jtargets_app, jt_swhd in H. cbn [app] in H. apply jt_cases. exact H.
      * rewrite !jtargets_app, jt_marker in H. change (jtargets [ISwitch op]) with (@nil text) in H. cbn [app] in H. apply in_app_or in H. destruct H as [H|H].
        -- destruct (jt_cases _ _ H) as (y & I & Q). exists y. split; [apply in_or_app; left; exact I|exact Q].
        -- cbn in H. destruct H as [<-|[]]. exists dd. split; [apply in_or_app; right; left; reflexivity|reflexivity].
    + destruct (dest =? nx)%Z; [|destruct (dest =? -1)%Z]; cbn [Datatypes.fst Datatypes.snd] in *.
      * rewrite jtargets_app, jt_swhd in H. cbn [app] in H. apply jt_cases. exact H.
      * rewrite !jtargets_app, jt_marker in H. change (jtargets [ISwitch op]) with (@nil text) in H. cbn [app] in H. apply in_app_or in H. destruct H as [H|H]; [|destruct H].
        apply jt_cases. exact H.
      * rewrite !jtargets_app, jt_marker in H. change (jtargets [ISwitch op]) with (@nil text) in H. cbn [app] in H. apply in_app_or in H. destruct H as [H|H].
        -- destruct (jt_cases _ _ H) as (y & I & Q). exists y. split; [apply in_or_app; left; exact I|exact Q].
        -- cbn in H. destruct H as [<-|[]]. exists dest. split; [apply in_or_app; right; left; reflexivity|reflexivity].
  - destruct (cret c =? -1)%Z; [destruct (cend c); intros []|]. destruct (cret c =? nx)%Z; [intros []|]. cbn. intros [<-|[]].
    left. exists (cret c). split; [left; reflexivity|reflexivity].
Qed.

Lemma jt_blocks glob G regs l : forall order nx, In l (jtargets (blocks mp name glob G regs order nx)) ->
  (exists y, In y (all_regs mp name G order nx) /\ l = lbl name y) \/
  (exists c, In c G /\ (goto_stmt (cstmts c) l \/ goto_pre c l)).
Proof.
  induction order as [|i r IH]; intros nx H; [destruct H|]. cbn [blocks all_regs] in *. rewrite jtargets_app in H.
  apply in_app_or in H. destruct H as [H|H].
  - unfold block_of in H. destruct (get_chunk G i) as [c|] eqn:GC; [|destruct H].
    pose proof (EmitProps.get_chunk_in _ _ _ GC) as Hc.
    rewrite jtargets_app in H. apply in_app_or in H. destruct H as [H|H].
    { unfold labelpart in H. destruct (i =? 0)%Z; [destruct H|]. destruct (zmem i regs); destruct H. }
    unfold RenderSim.body_of in H. pose proof (jt_branch l c (hd nx r)) as JB.
    destruct (render_branch mp name c (hd nx r)) as [[b rg] fall]. cbn [Datatypes.fst Datatypes.snd] in JB.
    cbv beta iota in H. rewrite !jtargets_app in H. apply in_app_or in H. destruct H as [H|H].
    + right. exists c. split; [exact Hc|left; apply jt_render_stmts; exact H].
    + apply in_app_or in H. destruct H as [H|H]; [|exfalso; destruct fall; cbn in H; exact H].
      destruct (JB H) as [(y & I & Q)|P].
      * left. exists y. split; [apply in_or_app; left; exact I|exact Q].
      * right. exists c. split; [exact Hc|right; exact P].
  - destruct (IH nx H) as [(y & I & Q)|R]; [left|right; exact R]. exists y. split; [apply in_or_app; right; exact I|exact Q].
Qed.
End JT.

(* every registered target of a chunk whose targets pass the check is an entry of the order *)
Lemma regs_real mp name order c nx y : targets_okb order c = true ->
  In y (Datatypes.snd (Datatypes.fst (render_branch mp name c nx))) -> zmem y order = true.
Proof.
  unfold targets_okb, realb, real_or_retb, render_branch.
  assert (GF : forall d m1, ((d =? -1)%Z || zmem d order = true) -> (m1 = true \/ zmem d order = true) ->
               In y (Datatypes.snd (Datatypes.fst (goto_or_fall name d nx m1))) -> zmem y order = true).
  { intros d m1 K M. unfold goto_or_fall. destruct m1; cbn [andb].
    - destruct (d =? -1)%Z eqn:E; [intros []|]. cbn [orb] in K. destruct (d =? nx)%Z; [intros []|]. cbn. intros [<-|[]]. exact K.
    - destruct M as [M|M]; [discriminate|]. destruct (d =? nx)%Z; [intros []|]. cbn. intros [<-|[]]. exact M. }
  assert (CS : forall cases : list (text * Z * Z), forallb (fun '(_, _, d) => zmem d order) cases = true ->
               In y (map (fun '(_, _, d) => d) cases) -> zmem y order = true).
  { intros cases F H. apply in_map_iff in H. destruct H as ([[v vl] d] & <- & Hx). rewrite forallb_forall in F. exact (F _ Hx). }
  destruct (cbr c) as [[d|d|l tr fa|op ol cases dd dest]|].
  - intros K. apply (GF d false); [rewrite K; apply orb_true_r|right; exact K].
  - intros K. apply (GF d true); [exact K|left; reflexivity].
  - intros K. apply andb_prop in K. destruct K as [K1 K2]. pose proof (GF fa true K2 (or_introl eq_refl)) as Q.
    destruct (goto_or_fall name fa nx true) as [[x regs] fall]. cbn [Datatypes.fst Datatypes.snd] in *. intros [<-|H]; [exact K1|exact (Q H)].
  - intros K. apply andb_prop in K. destruct K as [K1 K2]. destruct dd as [dd|].
    + destruct (dd =? nx)%Z; cbn [Datatypes.fst Datatypes.snd]; [apply CS; exact K1|].
      intros H. apply in_app_or in H. destruct H as [H|[<-|[]]]; [exact (CS _ K1 H)|exact K2].
    + destruct (dest =? nx)%Z; [|destruct (dest =? -1)%Z eqn:E]; cbn [Datatypes.fst Datatypes.snd]; try (apply CS; exact K1).
      intros H. apply in_app_or in H. destruct H as [H|[<-|[]]]; [exact (CS _ K1 H)|]. cbn [orb] in K2. exact K2.
  - intros K. destruct (cret c =? -1)%Z eqn:E; [intros []|]. cbn [orb] in K. destruct (cret c =? nx)%Z; [intros []|]. cbn. intros [<-|[]]. exact K.
Qed.

Lemma all_regs_inv mp name G y : forall order nx, In y (all_regs mp name G order nx) ->
  exists c nx', In c G /\ In y (Datatypes.snd (Datatypes.fst (render_branch mp name c nx'))).
Proof.
  induction order as [|i r IH]; intros nx H; cbn [all_regs] in H; [destruct H|]. apply in_app_or in H. destruct H as [H|H]; [|eapply IH; exact H].
  destruct (get_chunk G i) as [c|] eqn:E; [|destruct H]. exists c, (hd nx r). split; [eapply EmitProps.get_chunk_in; exact E|exact H].
Qed.

Lemma label_instr_lnames n g code : In (ILabel n g) code -> In n (lnames code).
Proof.
  intros X. unfold lnames, labels_of. apply in_map_iff. exists (n, g). split; [reflexivity|]. apply in_flat_map. exists (ILabel n g). split; [exact X|now left].
Qed.

(* the generated jump targets of a rendered script are labels of the script *)
Theorem generated_targets_defined mp tl name glob G order code y :
  render_chunks mp tl name glob G order = Emitter.Ok code ->
  wf_render mp name G order code = true ->
  In y (all_regs mp name G order (-1)) -> In (lbl name y) (lnames code).
Proof.
  intros HR W Hy. unfold wf_render in W. andb W.
  rename W into K1, W0 into K12, W1 into K11, W2 into K10, W3 into K9, W4 into K8, W5 into K7, W6 into K6, W7 into K5, W8 into K4, W9 into K3, W10 into K2.
  pose proof (render_chunks_blocks _ _ _ _ _ _ _ HR) as HC.
  destruct (all_regs_inv _ _ _ _ _ _ Hy) as (c & nx' & Hc & Hr).
  rewrite forallb_forall in K6. pose proof (regs_real mp name order c nx' y (K6 c Hc) Hr) as YO. apply zmem_in in YO.
  rewrite forallb_forall in K3. pose proof (K3 _ YO) as Q. apply andb_prop in Q. destruct Q as [_ Q].
  destruct (get_chunk G y) as [cy|] eqn:GC; [|discriminate].
  assert (Y0 : (y =? 0)%Z = false).
  { destruct (Z.eqb_spec y 0) as [->|]; [|reflexivity]. apply negb_true_iff in K10. apply zmem_in in Hy. congruence. }
  apply (label_instr_lnames _ false). rewrite HC. eapply labelpart_in_blocks; [exact YO|exact GC|].
  unfold labelpart. rewrite Y0. apply zmem_in in Hy. rewrite Hy. left. reflexivity.
Qed.


(* the labels the author wrote in the script are labels of its code *)
Theorem source_labels_in_code mp tl name glob optimize body w code l :
  src_ok body -> emit_graph body = Emitter.Ok w ->
  emit_script mp tl name glob optimize body = Emitter.Ok code ->
  In l (dlabs body) -> In l (lnames code).
Proof.
  intros HS HW HE Hl. rewrite emit_script_eq, HW in HE.
  destruct (render_chunks_lnames _ _ _ _ _ _ _ HE) as (regs & E & _). rewrite E.
  assert (Q : In l (chunk_labels (finals w))) by (eapply Permutation_in; [symmetry; apply (chunk_labels_are_source_labels body w HW HS)|exact Hl]).
  rewrite chunk_labels_ulab in Q. apply in_flat_map in Q. destruct Q as (c & Hc & Q).
  apply in_flat_map. exists c. split; [|apply in_or_app; right; exact Q].
  eapply Permutation_in; [symmetry; apply (rendered_perm optimize body w HW HS)|exact Hc].
Qed.

(* THE JUMP TARGETS OF AN EMITTED SCRIPT: a label of the script's own code, or the target of a goto(..) statement the author wrote *)
Theorem jump_targets_from_source mp tl name glob optimize body w code l :
  emit_graph body = Emitter.Ok w ->
  emit_script mp tl name glob optimize body = Emitter.Ok code ->
  wf_render mp name (finals w) (order_of optimize (finals w)) code = true ->
  In l (jtargets code) ->
  In l (lnames code) \/
  exists c, In (ML.KCommand c) (ML.body_constructs body) /\ is_name c "goto" = true /\ cargs c = [l].
Proof.
  intros HW HE WR Hl. rewrite emit_script_eq, HW in HE.
  pose proof (render_chunks_blocks _ _ _ _ _ _ _ HE) as HC. rewrite HC in Hl.
  destruct (jt_blocks _ _ _ _ _ _ _ _ Hl) as [(y & Hy & ->)|(c & Hc & [(cm & I & N & A)|(lf & tr & fa & p & B & P & N & A)])].
  - left. eapply generated_targets_defined; eassumption.
  - right. exists cm. split; [|auto]. pose proof (ML.emit_graph_in body w HW) as IN. rewrite Forall_forall in IN.
    destruct (IN c Hc) as [SI _]. apply (SI _ I). rewrite ML.stmt_constructs_cmd. left. reflexivity.
  - exfalso. rename WR into W. unfold wf_render in W. andb W. rewrite forallb_forall in W5. specialize (W5 c Hc). unfold pre_okb in W5.
    rewrite B, P, N in W5. cbn in W5. rewrite andb_false_r in W5. discriminate.
Qed.

Section C01PROG_SELF.
Variable St : Type.
Variable exec : cmd -> St -> stepres St.
Variable flag_set trainer_beaten : text -> St -> bool.
Variable cmp_var cmp_var_value : text -> text -> St -> comparison.
Variable case_matches : text -> text -> St -> bool.
Notation tstep := (tstep St exec flag_set trainer_beaten cmp_var cmp_var_value case_matches).
Notation srun body := (run sfinal (sstep St exec flag_set trainer_beaten cmp_var cmp_var_value case_matches (fun l => fl_body l body Kstop))).

(* theorem 6 of ProgramRun.v with conditions on the source: the hypothesis on the jump targets of the emitted code is now a
   hypothesis on the goto(..) statements the AUTHOR wrote in this script - each names a label of the script or something the
   program does not define (the jumps the compiler generates are proved to stay inside the script) *)
Theorem program_self_contained_scripts_correct_src_names hl hd hs autovars switches ee fc cli_font cli_maxlen (src : text) (p : program) optimize mp prog :
  parse_program autovars switches ee (parse_format fc cli_font cli_maxlen ee) (lex hl hd hs src) = Parser.Ok p ->
  emit_program_instrs optimize mp p = Emitter.Ok prog ->
  NoDup (lnames prog) ->
  forall name glob body, In (name, glob, body) (scripts_of (tops p)) ->
  src_names_ok name body = true ->
  (forall c l, In (ML.KCommand c) (ML.body_constructs body) -> is_name c "goto" = true -> cargs c = [l] ->
     In l (dlabs body) \/ ~ In l (lnames prog)) ->
  forall w code, emit_graph body = Emitter.Ok w ->
  emit_script mp (map xname (texts p)) name glob optimize body = Emitter.Ok code ->
  (forall n s, exists m, srun body n (enter body Kstop) s = run (@tfinal) (tstep prog) m (jump prog name) s) /\
  (forall m s, exists n, res_le (run (@tfinal) (tstep prog) m (jump prog name) s) (srun body n (enter body Kstop) s)).
Proof.
  intros HP HE ND name glob body HS HN SELF w code HW HC.
  pose proof (program_names_okb hl hd hs autovars switches ee fc cli_font cli_maxlen src p optimize mp HP name glob body HS HN w code HW HC) as NM.
  apply (program_self_contained_scripts_correct St exec flag_set trainer_beaten cmp_var cmp_var_value case_matches
           hl hd hs autovars switches ee fc cli_font cli_maxlen src p optimize mp prog HP HE ND name glob body HS w code HW HC NM).
  destruct (script_in_program_facts hl hd hs autovars switches ee fc cli_font cli_maxlen src p optimize mp prog HP HE ND name glob body HS w code HW HC NM)
    as (HB & _ & _ & _ & WR & _).
  pose proof (accepted_bodies_are_src_ok hl hd hs autovars switches ee fc cli_font cli_maxlen src p HP) as A.
  rewrite Forall_forall in A. destruct (A body HB) as [SO _].
  intros l Hj Hp. destruct (jump_targets_from_source _ _ _ _ _ _ _ _ _ HW HC WR Hj) as [Q|(c & K & N & AR)]; [exact Q|].
  destruct (SELF c l K N AR) as [Q|Q]; [|contradiction]. eapply source_labels_in_code; eassumption.
Qed.
End C01PROG_SELF.

(* ================================================================================================================== *)
(* PART 5: examples - the hypotheses are satisfiable; every clause of src_names_ok is needed                           *)
(* ================================================================================================================== *)
Local Transparent emit_graph order_of.
Section EXAMPLES.
Open Scope string_scope.
(* command configuration of the examples: checkitem is an AutoVar command - and so is a command called `end` *)
Definition nx_avs : list (text * autovar) :=
  [(t "checkitem", {| avName := t "VAR_RESULT"; avPos := None |}); (t "end", {| avName := t "VAR_RESULT"; avPos := None |})].
Definition nxparse (src : string) := parse_program nx_avs [] false (parse_format fc0 [] 0%Z false) (lex nf nf nf (t src)).
Definition nxprog (src : string) : program := match nxparse src with Parser.Ok p => p | _ => {| tops := []; texts := [] |} end.
Definition nxsc (src : string) : script := nth 0 (scripts_of (tops (nxprog src))) ([], false, []).
Definition nxname src : text := Datatypes.fst (Datatypes.fst (nxsc src)).
Definition nxbody src : list stmt := Datatypes.snd (nxsc src).
Definition nxw src : wst :=
  match emit_graph (nxbody src) with Emitter.Ok w => w | _ => {| remaining := []; finals := []; counter := 0; brk := []; org := [] |} end.
Definition nxcode src opt : list instr := match emit_script None [] (nxname src) true opt (nxbody src) with Emitter.Ok c => c | _ => [] end.
(* the runs of the two sides under the hash oracle of SemTgt.v, readable *)
Definition nxsrc_run src (seed : N) := let r := run_source (nxbody src) 50 seed in (map show (Datatypes.fst r), Datatypes.snd r).
Definition nxtgt_run src (fuel : nat) (seed : N) :=
  let r := run_target (nxcode src false) (nxname src) fuel seed in (map show (Datatypes.fst r), Datatypes.snd r).

(* ---------- a script that passes: if with an AutoVar condition, while, break, a label, a goto to it, a goto out ---------- *)
Definition s_good := "script S { lock" ++ nl ++ " if (flag(A) && checkitem(ITEM_X, 1) == 1) { goto(L) }" ++ nl ++
   " while (var(V) < 3) { step" ++ nl ++ " if (flag(B)) { break } }" ++ nl ++ " L: release" ++ nl ++ " goto(Other) }".

Example good_hypotheses :
  parse_program nx_avs [] false (parse_format fc0 [] 0%Z false) (lex nf nf nf (t s_good)) = Parser.Ok (nxprog s_good) /\
  In (nxbody s_good) (bodies_of (tops (nxprog s_good))) /\
  show (nxname s_good) = "S" /\
  src_names_ok (nxname s_good) (nxbody s_good) = true /\
  emit_graph (nxbody s_good) = Emitter.Ok (nxw s_good) /\
  List.length (finals (nxw s_good)) = 12%nat /\
  (forall opt, emit_script None [] (nxname s_good) true opt (nxbody s_good) = Emitter.Ok (nxcode s_good opt)) /\
  map show (WorkLabels.dlabs (nxbody s_good)) = ["L"] /\
  map show (jtargets (nxcode s_good false)) =
    ["S_4"; "S_7"; "L"; "S_1"; "S_5"; "S_3"; "S_1"; "S_2"; "S_1"; "Other"; "S_9"; "S_11"; "S_8"; "S_6"; "S_6"; "S_10"; "S_7"].
Proof.
  split; [vm_compute; reflexivity|]. split; [vm_compute; left; reflexivity|]. split; [vm_compute; reflexivity|].
  split; [vm_compute; reflexivity|]. split; [vm_compute; reflexivity|]. split; [vm_compute; reflexivity|].
  split; [intros [|]; vm_compute; reflexivity|]. split; vm_compute; reflexivity.
Qed.

(* the main lemma and the top theorem applied to it *)
Example good_names_okb opt : names_okb (finals (nxw s_good)) (nxcode s_good opt) = true.
Proof.
  destruct good_hypotheses as (HP & HB & _ & HN & HW & _ & HE & _).
  exact (proj2 (src_names_premises nf nf nf nx_avs [] false fc0 [] 0%Z (t s_good) (nxprog s_good) HP (nxbody s_good) HB None [] (nxname s_good) true opt _ _ HN HW (HE opt))).
Qed.

Example good_compiled_correctly
  (St : Type) (exec : cmd -> St -> stepres St) (flag_set trainer_beaten : text -> St -> bool)
  (cmp_var cmp_var_value : text -> text -> St -> comparison) (case_matches : text -> text -> St -> bool) opt :
  let body := nxbody s_good in let code := nxcode s_good opt in
  (forall n s, exists m,
      run sfinal (sstep St exec flag_set trainer_beaten cmp_var cmp_var_value case_matches (fun l => fl_body l body Kstop)) n (enter body Kstop) s =
      run (@tfinal) (tstep St exec flag_set trainer_beaten cmp_var cmp_var_value case_matches code) m (jump code (nxname s_good)) s) /\
  (forall m s, exists n,
      res_le (run (@tfinal) (tstep St exec flag_set trainer_beaten cmp_var cmp_var_value case_matches code) m (jump code (nxname s_good)) s)
             (run sfinal (sstep St exec flag_set trainer_beaten cmp_var cmp_var_value case_matches (fun l => fl_body l body Kstop)) n (enter body Kstop) s)).
Proof.
  intros body code. subst body code. destruct good_hypotheses as (HP & HB & _ & HN & HW & LEN & HE & _).
  apply (compiled_scripts_correct_src_names St exec flag_set trainer_beaten cmp_var cmp_var_value case_matches
           nf nf nf nx_avs [] false fc0 [] 0%Z (t s_good) (nxprog s_good) HP (nxbody s_good) HB None [] (nxname s_good) true opt (nxw s_good) _ HN HW (HE opt)).
  rewrite LEN. apply Z.leb_le. vm_compute. reflexivity.
Qed.

(* ---------- clause 1 (labels pairwise distinct) is needed ---------- *)
(* a label written twice is accepted by the parser and by the emitter (names_okb even holds); `goto(L)` reaches the first L of
   the SOURCE order in the structured program (inside the if) and the first L of the EMITTED order in the assembly (after it) *)
Definition s_dup := "script S { goto(L)" ++ nl ++ " if (flag(A)) { L: foo } " ++ nl ++ " L: bar }".
Example duplicate_label_miscompiled :
  nxparse s_dup = Parser.Ok (nxprog s_dup) /\
  emit_script None [] (nxname s_dup) true false (nxbody s_dup) = Emitter.Ok (nxcode s_dup false) /\
  map show (WorkLabels.dlabs (nxbody s_dup)) = ["L"; "L"] /\
  src_names_ok (nxname s_dup) (nxbody s_dup) = false /\
  names_okb (finals (nxw s_dup)) (nxcode s_dup false) = true /\
  map show (lnames (nxcode s_dup false)) = ["S"; "S_1"; "L"; "S_2"; "L"; "S_3"] /\
  nxsrc_run s_dup 39608 = (["foo "; "bar "], Done OReturn) /\
  nxtgt_run s_dup 200 39608 = (["bar "], Done OReturn) /\
  agree 50 200 (nxbody s_dup) (nxcode s_dup false) (nxname s_dup) 39608 = false.
Proof. repeat (split; [vm_compute; reflexivity|]). vm_compute; reflexivity. Qed.

(* ---------- clause 2a (a goto does not name a generated sub-label <name>_<digits>) is needed ---------- *)
(* goto(S_2): the structured program leaves the script (S_2 is no label of the source), the assembly jumps into the if body *)
Definition s_gen := "script S { if (flag(A)) { foo } else { bar }" ++ nl ++ " baz" ++ nl ++ " goto(S_2) }".
Example goto_generated_label_miscompiled :
  nxparse s_gen = Parser.Ok (nxprog s_gen) /\
  emit_script None [] (nxname s_gen) true false (nxbody s_gen) = Emitter.Ok (nxcode s_gen false) /\
  src_names_ok (nxname s_gen) (nxbody s_gen) = false /\
  names_okb (finals (nxw s_gen)) (nxcode s_gen false) = false /\
  map show (lnames (nxcode s_gen false)) = ["S"; "S_1"; "S_2"; "S_3"; "S_4"] /\
  nxsrc_run s_gen 7932 = (["bar "; "baz "], Done (OJumpOut (t "S_2"))) /\
  nxtgt_run s_gen 20 7932 = (["bar "; "baz "; "foo "; "baz "; "foo "], Running) /\
  agree 50 200 (nxbody s_gen) (nxcode s_gen false) (nxname s_gen) 7932 = false.
Proof. repeat (split; [vm_compute; reflexivity|]). vm_compute; reflexivity. Qed.

(* ---------- clause 2b (a goto does not name the script itself) is needed for the script run ALONE ---------- *)
(* goto(S) inside S: the source semantics of one script has no label S (fl_body: OJumpOut S); the script's own code defines S.
   In the whole program the two agree again (theorem 5: after OJumpOut S the program is at  jump prog S); the clause is a
   condition of the per-script statement only. *)
Definition s_self := "script S { foo" ++ nl ++ " goto(S) }".
Example goto_own_name_differs_alone :
  nxparse s_self = Parser.Ok (nxprog s_self) /\
  emit_script None [] (nxname s_self) true false (nxbody s_self) = Emitter.Ok (nxcode s_self false) /\
  src_names_ok (nxname s_self) (nxbody s_self) = false /\
  names_okb (finals (nxw s_self)) (nxcode s_self false) = false /\
  nxsrc_run s_self 39608 = (["foo "], Done (OJumpOut (t "S"))) /\
  nxtgt_run s_self 8 39608 = (["foo "; "foo "; "foo "], Running) /\
  agree 50 200 (nxbody s_self) (nxcode s_self false) (nxname s_self) 39608 = false.
Proof. repeat (split; [vm_compute; reflexivity|]). vm_compute; reflexivity. Qed.

(* ---------- clause 3 (no AutoVar command called end / return / goto) is needed ---------- *)
(* with `end` configured as an AutoVar command, `if (end(X) == 1)` is accepted; the source semantics runs the command and
   compares, the target machine reads the line `end X` as the end of the script *)
Definition s_pre := "script S { if (end(X) == 1) { foo }" ++ nl ++ " bar }".
Example autovar_named_end_miscompiled :
  nxparse s_pre = Parser.Ok (nxprog s_pre) /\
  emit_script None [] (nxname s_pre) true false (nxbody s_pre) = Emitter.Ok (nxcode s_pre false) /\
  src_names_ok (nxname s_pre) (nxbody s_pre) = false /\
  names_okb (finals (nxw s_pre)) (nxcode s_pre false) = false /\
  nxsrc_run s_pre 39608 = (["end X"; "bar "], Done OReturn) /\
  nxtgt_run s_pre 200 39608 = ([], Done OEnd) /\
  agree 50 200 (nxbody s_pre) (nxcode s_pre false) (nxname s_pre) 39608 = false.
Proof. repeat (split; [vm_compute; reflexivity|]). vm_compute; reflexivity. Qed.

(* ---------- NO clause about labels of the form <name>_<digits> is needed ---------- *)
(* a label named like a generated sub-label of its own script is rejected by the emitter (ErrLabel, Emitter.clash; in Go:
   renderStatements against chunkLabels), so  emit_script = Ok  already excludes it; when no chunk of that number exists the
   label is harmless and src_names_ok accepts it *)
Definition s_lab := "script S { if (flag(A)) { foo }" ++ nl ++ " S_1: bar }".
Definition s_lab0 := "script S { foo" ++ nl ++ " S_1: bar }".
Example label_like_generated_rejected_by_emitter :
  nxparse s_lab = Parser.Ok (nxprog s_lab) /\
  (exists tk, emit_script None [] (nxname s_lab) true false (nxbody s_lab) = ErrLabel tk false /\ show (tlit tk) = "S_1" /\ tline tk = 2%Z) /\
  nxparse s_lab0 = Parser.Ok (nxprog s_lab0) /\
  src_names_ok (nxname s_lab0) (nxbody s_lab0) = true /\
  emit_script None [] (nxname s_lab0) true false (nxbody s_lab0) = Emitter.Ok (nxcode s_lab0 false) /\
  map show (lnames (nxcode s_lab0 false)) = ["S"; "S_1"].
Proof.
  split; [vm_compute; reflexivity|]. split; [eexists; split; [vm_compute; reflexivity|split; vm_compute; reflexivity]|].
  repeat (split; [vm_compute; reflexivity|]). vm_compute; reflexivity.
Qed.

(* ---------- src_names_ok is sufficient, not necessary: a goto to <name>_<digits> beyond the chunks of the script ---------- *)
Definition s_far := "script S { foo" ++ nl ++ " goto(S_99) }".
Example far_generated_name_harmless :
  nxparse s_far = Parser.Ok (nxprog s_far) /\
  src_names_ok (nxname s_far) (nxbody s_far) = false /\
  names_okb (finals (nxw s_far)) (nxcode s_far false) = true.
Proof. repeat (split; [vm_compute; reflexivity|]). vm_compute; reflexivity. Qed.
End EXAMPLES.

(* ================================================================================================================== *)
(* PART 6: clause 3 from the command configuration                                                                     *)
(* ================================================================================================================== *)
Module AVP := AutoVarProgram.

Lemma leaves_same e : ML.leaves e = AutoVarParse.leaves e.
Proof. induction e as [l|o a IHa b IHb]; [reflexivity|]. cbn. now rewrite IHa, IHb. Qed.

Lemma cond_in_cons e s r : AVP.cond_in e r -> AVP.cond_in e (s :: r).
Proof.
  intros (b' & s' & B & I & C). inversion B as [|? ? s0 b1 I0 CH B1]; subst.
  - exists (s :: r), s'. split; [apply AVP.bi_refl|]. split; [right; exact I|exact C].
  - exists b', s'. split; [|split; assumption]. eapply AVP.bi_step; [right; exact I0|exact CH|exact B1].
Qed.

Lemma cond_in_child e s b b1 : In s b -> AVP.child s b1 -> AVP.cond_in e b1 -> AVP.cond_in e b.
Proof.
  intros I CH (b' & s' & B & I' & C). exists b', s'. split; [|split; assumption]. eapply AVP.bi_step; eassumption.
Qed.

Lemma cond_in_here e s b : In s b -> AVP.cond_of s e -> AVP.cond_in e b.
Proof. intros I C. exists b, s. split; [apply AVP.bi_refl|split; assumption]. Qed.

Definition leafP (s : stmt) : Prop := forall l b, In s b -> In (ML.KCond l) (ML.stmt_constructs s) ->
  exists e, AVP.cond_in e b /\ In l (AutoVarParse.leaves e).
Definition leafQ (ss : list stmt) : Prop := forall l, In (ML.KCond l) (ML.body_constructs ss) ->
  exists e, AVP.cond_in e ss /\ In l (AutoVarParse.leaves e).

Lemma in_bexp_constructs l e : In (ML.KCond l) (ML.bexp_constructs e) -> In l (AutoVarParse.leaves e).
Proof.
  unfold ML.bexp_constructs. rewrite leaves_same. intros H. apply in_map_iff in H. destruct H as (x & E & Hx). now inversion E; subst.
Qed.

(* every condition leaf listed by body_constructs is a leaf of a condition of the body (AutoVarProgram.cond_in) *)
Lemma cond_leaves_in : forall ss, leafQ ss.
Proof.
  apply (stmts_ind2 leafP leafQ); unfold leafP, leafQ.
  - intros l [].
  - intros s r Ps Qr l H. cbn [ML.body_constructs] in H. apply in_app_or in H. destruct H as [H|H].
    + apply (Ps l (s :: r)); [left; reflexivity|exact H].
    + destruct (Qr l H) as (e & C & L). exists e. split; [apply cond_in_cons; exact C|exact L].
  - intros c l b _ H. rewrite ML.stmt_constructs_cmd in H. destruct H as [H|[]]. discriminate.
  - intros n g tk l b _ H. rewrite ML.stmt_constructs_label in H. destruct H as [H|[]]. discriminate.
  - intros conds els FC FE l b I H. rewrite ML.stmt_constructs_if in H. apply in_app_or in H. destruct H as [H|H].
    + apply in_flat_map in H. destruct H as ([e0 b0] & I0 & H). unfold ML.cond_constructs in H. cbn [Datatypes.fst Datatypes.snd] in H.
      apply in_app_or in H. destruct H as [H|H].
      * exists e0. split; [eapply cond_in_here; [exact I|eapply AVP.co_if; exact I0]|apply in_bexp_constructs; exact H].
      * rewrite Forall_forall in FC. destruct (FC _ I0 l H) as (e & C & L). exists e. split; [|exact L].
        eapply cond_in_child; [exact I|eapply AVP.ch_if; exact I0|exact C].
    + destruct els as [eb|]; [|destruct H]. cbn [ML.opt_constructs] in H. destruct (FE l H) as (e & C & L). exists e. split; [|exact L].
      eapply cond_in_child; [exact I|apply AVP.ch_else|exact C].
  - intros tg c b0 Qb l b I H. rewrite ML.stmt_constructs_while in H. apply in_app_or in H. destruct H as [H|H].
    + destruct c as [e0|]; [|destruct H]. cbn [ML.optb_constructs] in H. exists e0.
      split; [eapply cond_in_here; [exact I|apply AVP.co_while]|apply in_bexp_constructs; exact H].
    + destruct (Qb l H) as (e & C & L). exists e. split; [|exact L]. eapply cond_in_child; [exact I|apply AVP.ch_while|exact C].
  - intros tg b0 c Qb l b I H. rewrite ML.stmt_constructs_dowhile in H. apply in_app_or in H. destruct H as [H|H].
    + destruct (Qb l H) as (e & C & L). exists e. split; [|exact L]. eapply cond_in_child; [exact I|apply AVP.ch_do|exact C].
    + exists c. split; [eapply cond_in_here; [exact I|apply AVP.co_do]|apply in_bexp_constructs; exact H].
  - intros tg l b _ H. rewrite ML.stmt_constructs_break in H. destruct H.
  - intros tg l b _ H. rewrite ML.stmt_constructs_continue in H. destruct H.
  - intros tg o ol cases FC l b I H. rewrite ML.stmt_constructs_switch in H. destruct H as [H|H]; [discriminate|].
    apply in_flat_map in H. destruct H as (c & Ic & H). unfold ML.case_constructs in H. apply in_app_or in H. destruct H as [H|H].
    + unfold ML.case_head in H. destruct (sc_def c); [destruct H|destruct H as [H|[]]; discriminate].
    + rewrite Forall_forall in FC. destruct (FC _ Ic l H) as (e & C & L). exists e. split; [|exact L].
      destruct c as [[[d cv] ln] cb]. eapply cond_in_child; [exact I|eapply AVP.ch_case; exact Ic|exact C].
Qed.

Lemma apply_patches_name : forall ps c c', apply_patches ps c = Some c' -> cname c' = cname c.
Proof.
  induction ps as [|[[i a] lb] r IH]; intros c c' H; cbn [apply_patches] in H; [injection H as <-; reflexivity|].
  destruct (Nat.eqb i (Ast.cid c)); [|apply IH; exact H].
  destruct (set_nth a (cargs c) lb) as [args|]; [|discriminate]. apply IH in H. exact H.
Qed.

(* no AutoVar command of the configuration is called end / return / goto *)
Definition reserved_name (n : text) : bool := text_eqb n (t "end") || text_eqb n (t "return") || text_eqb n (t "goto").
Definition autovars_ok (autovars : list (text * autovar)) : bool := forallb (fun na => negb (reserved_name (Datatypes.fst na))) autovars.

(* clause 3 of src_names_ok holds for every script body of every program accepted under such a configuration *)
Theorem autovar_names_from_config hl hd hs autovars switches ee fc cli_font cli_maxlen (src : text) (p : program) :
  parse_program autovars switches ee (parse_format fc cli_font cli_maxlen ee) (lex hl hd hs src) = Parser.Ok p ->
  autovars_ok autovars = true ->
  forall body, In body (bodies_of (tops p)) ->
  forall l c', In (ML.KCond l) (ML.body_constructs body) -> lpre l = Some c' ->
  is_name c' "end" = false /\ is_name c' "return" = false /\ is_name c' "goto" = false.
Proof.
  intros HP CFG body HB l c' HK HL. destruct (cond_leaves_in body l HK) as (e & CI & LI).
  destruct (AVP.program_autovar_leaves hl hd hs autovars switches ee fc cli_font cli_maxlen src p HP body e l c' HB CI LI HL)
    as (ps & c & consts & f & script & tsc & av & impc & ts2 & -> & _ & _ & _ & _ & _ & AS & _).
  assert (R : reserved_name (cname (pcmd ps c)) = false).
  { unfold pcmd. destruct (apply_patches ps c) as [c1|] eqn:E; [|vm_compute; reflexivity].
    rewrite (apply_patches_name _ _ _ E). apply assoc_in in AS. unfold autovars_ok in CFG. rewrite forallb_forall in CFG.
    specialize (CFG _ AS). cbn [Datatypes.fst] in CFG. apply negb_true_iff in CFG. exact CFG. }
  unfold reserved_name in R. apply orb_false_elim in R. destruct R as [R R3]. apply orb_false_elim in R. destruct R as [R1 R2].
  unfold is_name. auto.
Qed.

(* clauses 1 and 2 alone: labels and gotos *)
Definition src_labels_ok (name : text) (body : list stmt) : bool :=
  nodupt (dlabs body) &&
  forallb (fun k => match k with ML.KCommand c => goto_target_ok name (dlabs body) c | _ => true end) (ML.body_constructs body).

Theorem src_names_ok_from_labels hl hd hs autovars switches ee fc cli_font cli_maxlen (src : text) (p : program) :
  parse_program autovars switches ee (parse_format fc cli_font cli_maxlen ee) (lex hl hd hs src) = Parser.Ok p ->
  autovars_ok autovars = true ->
  forall body, In body (bodies_of (tops p)) ->
  forall name, src_labels_ok name body = true -> src_names_ok name body = true.
Proof.
  intros HP CFG body HB name H. unfold src_labels_ok in H. apply andb_prop in H. destruct H as [H1 H2]. rewrite forallb_forall in H2.
  unfold src_names_ok. rewrite H1. cbn [andb]. apply forallb_forall. intros k Hk. specialize (H2 k Hk).
  destruct k as [c| |l| | | | | | | | | |]; try reflexivity; cbn [construct_ok]; [exact H2|].
  unfold pre_name_ok. destruct (lpre l) as [c'|] eqn:P; [|reflexivity].
  destruct (autovar_names_from_config hl hd hs autovars switches ee fc cli_font cli_maxlen src p HP CFG body HB l c' Hk P) as (-> & -> & ->). reflexivity.
Qed.

(* C01 with the conditions: the configuration has no AutoVar command called end / return / goto; the author's labels are pairwise
   distinct and the author's gotos name labels of the script or names that are neither the script name nor <name>_<digits> *)
Theorem compiled_scripts_correct_src_labels
  (St : Type) (exec : cmd -> St -> stepres St) (flag_set trainer_beaten : text -> St -> bool)
  (cmp_var cmp_var_value : text -> text -> St -> comparison) (case_matches : text -> text -> St -> bool)
  hl hd hs autovars switches ee fc cli_font cli_maxlen (src : text) (p : program) :
  parse_program autovars switches ee (parse_format fc cli_font cli_maxlen ee) (lex hl hd hs src) = Parser.Ok p ->
  autovars_ok autovars = true ->
  forall body, In body (bodies_of (tops p)) ->
  forall (mp : option text) (tl : list text) (name : text) (glob optimize : bool) (w : wst) (code : list instr),
  src_labels_ok name body = true ->
  emit_graph body = Emitter.Ok w ->
  emit_script mp tl name glob optimize body = Emitter.Ok code ->
  (Z.of_nat (List.length (finals w)) <= 10 ^ 40)%Z ->
  (forall n s, exists m,
      run sfinal (sstep St exec flag_set trainer_beaten cmp_var cmp_var_value case_matches (fun l => fl_body l body Kstop)) n (enter body Kstop) s =
      run (@tfinal) (tstep St exec flag_set trainer_beaten cmp_var cmp_var_value case_matches code) m (jump code name) s) /\
  (forall m s, exists n,
      res_le (run (@tfinal) (tstep St exec flag_set trainer_beaten cmp_var cmp_var_value case_matches code) m (jump code name) s)
             (run sfinal (sstep St exec flag_set trainer_beaten cmp_var cmp_var_value case_matches (fun l => fl_body l body Kstop)) n (enter body Kstop) s)).
Proof.
  intros HP CFG body HB mp tl name glob optimize w code HL HW HE SZ.
  eapply compiled_scripts_correct_src_names; try eassumption.
  eapply src_names_ok_from_labels; eassumption.
Qed.

Example config_examples :
  autovars_ok [(t "checkitem", {| avName := t "VAR_RESULT"; avPos := None |}); (t "specialvar", {| avName := []; avPos := Some 0%Z |})] = true /\
  autovars_ok nx_avs = false /\
  src_labels_ok (nxname s_good) (nxbody s_good) = true /\
  src_labels_ok (nxname s_pre) (nxbody s_pre) = true /\ src_names_ok (nxname s_pre) (nxbody s_pre) = false.
Proof. repeat (split; [vm_compute; reflexivity|]). vm_compute; reflexivity. Qed.

(* ================================================================================================================== *)
(* PART 7: theorem 6 with every condition on the source - scripts whose gotos stay inside the script                   *)
(* ================================================================================================================== *)
(* every goto(l) statement of the body, at any depth, names a label the author wrote in this script *)
Definition gotos_local (body : list stmt) : bool :=
  forallb (fun k => match k with
                    | ML.KCommand c => if is_name c "goto" then match cargs c with [l] => tmem l (dlabs body) | _ => true end else true
                    | _ => true
                    end) (ML.body_constructs body).

Lemma gotos_local_spec body : gotos_local body = true ->
  forall c l, In (ML.KCommand c) (ML.body_constructs body) -> is_name c "goto" = true -> cargs c = [l] -> In l (dlabs body).
Proof.
  unfold gotos_local. rewrite forallb_forall. intros F c l K N A. specialize (F _ K). cbn in F. rewrite N, A in F. apply tmem_in. exact F.
Qed.

Section C01PROG_LOCAL.
Variable St : Type.
Variable exec : cmd -> St -> stepres St.
Variable flag_set trainer_beaten : text -> St -> bool.
Variable cmp_var cmp_var_value : text -> text -> St -> comparison.
Variable case_matches : text -> text -> St -> bool.
Notation tstep := (tstep St exec flag_set trainer_beaten cmp_var cmp_var_value case_matches).
Notation srun body := (run sfinal (sstep St exec flag_set trainer_beaten cmp_var cmp_var_value case_matches (fun l => fl_body l body Kstop))).

(* C01 verbatim for the WHOLE program's instruction list, every hypothesis about the script on its source: the script passes
   src_names_ok and all its gotos name its own labels (in particular: every script without a goto statement and with distinct labels) *)
Theorem program_local_goto_scripts_correct hl hd hs autovars switches ee fc cli_font cli_maxlen (src : text) (p : program) optimize mp prog :
  parse_program autovars switches ee (parse_format fc cli_font cli_maxlen ee) (lex hl hd hs src) = Parser.Ok p ->
  emit_program_instrs optimize mp p = Emitter.Ok prog ->
  NoDup (lnames prog) ->
  forall name glob body, In (name, glob, body) (scripts_of (tops p)) ->
  src_names_ok name body = true ->
  gotos_local body = true ->
  forall w code, emit_graph body = Emitter.Ok w ->
  emit_script mp (map xname (texts p)) name glob optimize body = Emitter.Ok code ->
  (forall n s, exists m, srun body n (enter body Kstop) s = run (@tfinal) (tstep prog) m (jump prog name) s) /\
  (forall m s, exists n, res_le (run (@tfinal) (tstep prog) m (jump prog name) s) (srun body n (enter body Kstop) s)).
Proof.
  intros HP HE ND name glob body HS HN GL w code HW HC.
  refine (program_self_contained_scripts_correct_src_names St exec flag_set trainer_beaten cmp_var cmp_var_value case_matches
           hl hd hs autovars switches ee fc cli_font cli_maxlen src p optimize mp prog HP HE ND name glob body HS HN _ w code HW HC).
  intros c l K N A. left. exact (gotos_local_spec body GL c l K N A).
Qed.
End C01PROG_LOCAL.

(* ================================================================================================================== *)
(* PART 8: the labels of the emitted program, from the source                                                          *)
(* ================================================================================================================== *)
Local Opaque emit_graph order_of.

(* what a script can define: its name, names of the form <name>_<digits>, the labels its author wrote *)
Definition script_label (s : script) (l : text) : Prop :=
  l = Datatypes.fst (Datatypes.fst s) \/ generated_form (Datatypes.fst (Datatypes.fst s)) l = true \/ In l (dlabs (Datatypes.snd s)).

Lemma script_code_labels mp tl n g optimize b code l :
  src_ok b -> emit_script mp tl n g optimize b = Emitter.Ok code -> In l (lnames code) -> script_label (n, g, b) l.
Proof.
  intros HS HE Hl. rewrite emit_script_eq in HE. destruct (emit_graph b) as [w| | | |] eqn:HW; try discriminate.
  destruct (final_graph_shape b w HW HS) as ([_ RG] & _). rewrite Forall_forall in RG.
  unfold script_label. cbn [Datatypes.fst Datatypes.snd].
  destruct (code_label_cases _ _ _ _ _ _ _ _ HE Hl) as [Q|[(c & Hc & Q)|Q]].
  - left. exact Q.
  - right. left. rewrite Q. apply lbl_generated_form. specialize (RG c Hc). cbn in RG. lia.
  - right. right. eapply Permutation_in; [apply (chunk_labels_are_source_labels b w HW HS)|exact Q].
Qed.

(* instruction lists without labels *)
Definition nolab (i : instr) : bool := match i with ILabel _ _ => false | _ => true end.
Lemma lnames_nolab is : forallb nolab is = true -> lnames is = [].
Proof.
  induction is as [|i r IH]; [reflexivity|]. cbn [forallb]. intros H. apply andb_prop in H. destruct H as [H1 H2].
  change (i :: r) with ([i] ++ r). rewrite lnames_app, (IH H2), app_nil_r. destruct i; try discriminate; reflexivity.
Qed.
Lemma nolab_app a b : forallb nolab a = true -> forallb nolab b = true -> forallb nolab (a ++ b) = true.
Proof. intros A B. rewrite forallb_app, A, B. reflexivity. Qed.
Lemma nolab_flat_map {A} (f : A -> list instr) l : (forall x, forallb nolab (f x) = true) -> forallb nolab (flat_map f l) = true.
Proof. intros H. induction l as [|x r IH]; [reflexivity|]. cbn [flat_map]. apply nolab_app; [apply H|exact IH]. Qed.
Lemma nolab_marker mp line : forallb nolab (marker mp line) = true.
Proof. unfold marker. destruct mp; reflexivity. Qed.

Section PROGLABELS.
Variable mp : option text.
Variable tl : list text.
Variable optimize : bool.

Lemma nolab_steps : forall steps, forallb nolab (emit_steps mp steps) = true.
Proof.
  induction steps as [|s r IH]; [reflexivity|]. cbn [emit_steps]. apply nolab_app; [apply nolab_marker|].
  apply nolab_app; [reflexivity|]. destruct (text_eqb (tlit s) (t "step_end")); [reflexivity|exact IH].
Qed.
Lemma nolab_items : forall items itoks, forallb nolab (emit_items mp items itoks) = true.
Proof.
  induction items as [|i r IH]; intros itoks; [reflexivity|]. cbn [emit_items]. destruct itoks as [|tk rt]; [reflexivity|].
  destruct (text_eqb i (t "ITEM_NONE")); [reflexivity|]. apply nolab_app; [apply nolab_marker|]. apply nolab_app; [reflexivity|apply IH].
Qed.
Lemma nolab_raw : forall lines line, forallb nolab (emit_raw_lines mp lines line) = true.
Proof.
  induction lines as [|l r IH]; intros line; [reflexivity|]. cbn [emit_raw_lines]. apply nolab_app; [apply nolab_marker|].
  apply nolab_app; [reflexivity|apply IH].
Qed.

Lemma emit_scripts_labels : forall l x, emit_scripts mp tl optimize l = Emitter.Ok x ->
  (forall s, In s (sc_of l) -> src_ok (Datatypes.snd s)) ->
  forall lb, In lb (lnames x) -> exists s, In s (sc_of l) /\ script_label s lb.
Proof.
  induction l as [|[n [b|]] r IH]; intros x H OKS lb Hl.
  - cbn in H. apply Ok_inj in H. subst x. destruct Hl.
  - cbn [emit_scripts] in H. apply bind_ok in H. destruct H as (c & E1 & H). apply bind_ok in H. destruct H as (y & E2 & H).
    apply Ok_inj in H; subst x. unfold sc_of in *. cbn [flat_map Datatypes.fst Datatypes.snd app] in *. fold (sc_of r) in *.
    rewrite lnames_app in Hl. apply in_app_or in Hl. destruct Hl as [Hl|Hl].
    + exists (n, false, b). split; [left; reflexivity|]. eapply script_code_labels; [|exact E1|exact Hl]. apply (OKS (n, false, b)). left. reflexivity.
    + destruct (IH _ E2 (fun s Hs => OKS s (or_intror Hs)) lb Hl) as (s & Is & SL). exists s. split; [right; exact Is|exact SL].
  - cbn [emit_scripts] in H. unfold sc_of in *. cbn [flat_map Datatypes.snd app] in *. exact (IH _ H OKS lb Hl).
Qed.

Definition table_scripts (tables : list tablems) : list script :=
  flat_map (fun tb => flat_map (fun e => match teScript e with Some b => [(teName e, false, b)] | None => [] end) (tmEntries tb)) tables.

Lemma emit_tables_labels : forall tables x, emit_tables mp tl optimize tables = Emitter.Ok x ->
  (forall s, In s (table_scripts tables) -> src_ok (Datatypes.snd s)) ->
  forall lb, In lb (lnames x) -> In lb (map tmName tables) \/ exists s, In s (table_scripts tables) /\ script_label s lb.
Proof.
  induction tables as [|tb r IH]; intros x H OKS lb Hl.
  - cbn in H. apply Ok_inj in H. subst x. destruct Hl.
  - cbn [emit_tables] in H. apply bind_ok in H. destruct H as (c & E1 & H). apply bind_ok in H. destruct H as (y & E2 & H).
    apply Ok_inj in H; subst x. unfold table_scripts in *. cbn [flat_map map] in *. fold (table_scripts r) in *.
    rewrite !lnames_app in Hl. apply in_app_or in Hl. destruct Hl as [Hl|Hl].
    + left. left. rewrite ?lnames_app in Hl. apply in_app_or in Hl. destruct Hl as [[Q|[]]|Hl]; [exact Q|]. exfalso.
      apply in_app_or in Hl. destruct Hl as [Hl|Hl]; [|destruct Hl].
      rewrite lnames_nolab in Hl; [destruct Hl|]. apply nolab_flat_map. intros e. apply nolab_app; [apply nolab_marker|reflexivity].
    + apply in_app_or in Hl. destruct Hl as [Hl|Hl].
      * right. rewrite <- sc_of_entries in OKS. 
        destruct (emit_scripts_labels _ _ E1 (fun s Hs => OKS s (in_or_app _ _ _ (or_introl Hs))) lb Hl) as (s & Is & SL).
        exists s. split; [apply in_or_app; left; rewrite <- sc_of_entries; exact Is|exact SL].
      * destruct (IH _ E2 (fun s Hs => OKS s (in_or_app _ _ _ (or_intror Hs))) lb Hl) as [Q|(s & Is & SL)]; [left; right; exact Q|].
        right. exists s. split; [apply in_or_app; right; exact Is|exact SL].
Qed.

(* the names a top-level statement defines itself (besides what its scripts define) *)
Definition top_own_names (tp : top) : list text :=
  match tp with
  | TMovement n _ _ _ => [n]
  | TMart n _ _ _ _ => [n]
  | TMapScripts n _ _ tables => n :: map tmName tables
  | _ => []
  end.

Lemma emit_top_labels tp x : emit_top mp tl optimize tp = Some (Emitter.Ok x) ->
  (forall s, In s (scripts_of_top tp) -> src_ok (Datatypes.snd s)) ->
  forall lb, In lb (lnames x) -> In lb (top_own_names tp) \/ exists s, In s (scripts_of_top tp) /\ script_label s lb.
Proof.
  destruct tp as [n g b|v ln| |n g tk steps|n g tk items itoks|n g plain tables]; cbn [emit_top scripts_of_top top_own_names]; intros H OKS lb Hl; try discriminate.
  - inversion H as [H']. right. exists (n, g, b). split; [left; reflexivity|]. eapply script_code_labels; [|exact H'|exact Hl].
    apply (OKS (n, g, b)). left. reflexivity.
  - inversion H; subst x. unfold emit_raw in Hl. rewrite lnames_nolab in Hl by apply nolab_raw. destruct Hl.
  - inversion H; subst x. unfold emit_movement in Hl. rewrite !lnames_app in Hl. rewrite (lnames_nolab (marker mp _)) in Hl by apply nolab_marker.
    rewrite (lnames_nolab (emit_steps mp steps)) in Hl by apply nolab_steps. left. exact Hl.
  - inversion H; subst x. unfold emit_mart in Hl. rewrite !lnames_app in Hl. rewrite (lnames_nolab (marker mp _)) in Hl by apply nolab_marker.
    rewrite (lnames_nolab (emit_items mp items itoks)) in Hl by apply nolab_items. left. exact Hl.
  - inversion H as [H']. clear H. unfold emit_mapscripts in H'.
    apply bind_ok in H'. destruct H' as (c & E1 & H). apply bind_ok in H. destruct H as (y & E2 & H). apply Ok_inj in H; subst x.
    rewrite !lnames_app in Hl. apply in_app_or in Hl. destruct Hl as [Hl|Hl].
    + left. left. rewrite ?lnames_app in Hl. apply in_app_or in Hl. destruct Hl as [[Q|[]]|Hl]; [exact Q|]. exfalso.
      apply in_app_or in Hl. destruct Hl as [Hl|Hl].
      { rewrite lnames_nolab in Hl; [destruct Hl|]. apply nolab_flat_map. intros e. apply nolab_app; [apply nolab_marker|reflexivity]. }
      apply in_app_or in Hl. destruct Hl as [Hl|Hl]; [|destruct Hl].
      rewrite lnames_nolab in Hl; [destruct Hl|]. apply nolab_flat_map. intros e. apply nolab_app; [apply nolab_marker|reflexivity].
    + apply in_app_or in Hl. destruct Hl as [Hl|Hl].
      * right. rewrite <- sc_of_plain in OKS.
        destruct (emit_scripts_labels _ _ E1 (fun s Hs => OKS s (in_or_app _ _ _ (or_introl Hs))) lb Hl) as (s & Is & SL).
        exists s. split; [apply in_or_app; left; rewrite <- sc_of_plain; exact Is|exact SL].
      * destruct (emit_tables_labels _ _ E2 (fun s Hs => OKS s (in_or_app _ _ _ (or_intror Hs))) lb Hl) as [Q|(s & Is & SL)]; [left; right; exact Q|].
        right. exists s. split; [apply in_or_app; right; exact Is|exact SL].
Qed.

Lemma emit_tops_labels : forall l i x n, emit_tops mp tl optimize l i = Emitter.Ok (x, n) ->
  (forall s, In s (scripts_of l) -> src_ok (Datatypes.snd s)) ->
  forall lb, In lb (lnames x) -> In lb (flat_map top_own_names l) \/ exists s, In s (scripts_of l) /\ script_label s lb.
Proof.
  induction l as [|tp r IH]; intros i x n H OKS lb Hl.
  - cbn in H. apply Ok_inj in H. inversion H; subst. destruct Hl.
  - unfold scripts_of in *. cbn [flat_map] in *. fold (scripts_of r) in *. cbn [emit_tops] in H.
    destruct (emit_top mp tl optimize tp) as [rt|] eqn:ET.
    + apply bind_ok in H. destruct H as (c & -> & H). apply bind_ok in H. destruct H as ([y n'] & E2 & H). apply Ok_inj in H. inversion H; subst; clear H.
      rewrite !lnames_app in Hl. apply in_app_or in Hl. destruct Hl as [Hl|Hl]; [destruct i; destruct Hl|].
      apply in_app_or in Hl. destruct Hl as [Hl|Hl].
      * destruct (emit_top_labels _ _ ET (fun s Hs => OKS s (in_or_app _ _ _ (or_introl Hs))) lb Hl) as [Q|(s & Is & SL)].
        -- left. apply in_or_app. left. exact Q.
        -- right. exists s. split; [apply in_or_app; left; exact Is|exact SL].
      * destruct (IH _ _ _ E2 (fun s Hs => OKS s (in_or_app _ _ _ (or_intror Hs))) lb Hl) as [Q|(s & Is & SL)].
        -- left. apply in_or_app. right. exact Q.
        -- right. exists s. split; [apply in_or_app; right; exact Is|exact SL].
    + destruct (IH _ _ _ H (fun s Hs => OKS s (in_or_app _ _ _ (or_intror Hs))) lb Hl) as [Q|(s & Is & SL)].
      * left. apply in_or_app. right. exact Q.
      * right. exists s. split; [apply in_or_app; right; exact Is|exact SL].
Qed.

Lemma emit_texts_labels : forall l k lb, In lb (lnames (emit_texts mp l k)) -> In lb (map xname l).
Proof.
  induction l as [|x r IH]; intros k lb Hl; [destruct Hl|]. cbn [emit_texts map] in *. rewrite !lnames_app in Hl.
  apply in_app_or in Hl. destruct Hl as [Hl|Hl]; [destruct k; destruct Hl|]. apply in_app_or in Hl. destruct Hl as [Hl|Hl].
  - left. unfold emit_text in Hl. rewrite !lnames_app in Hl. apply in_app_or in Hl. destruct Hl as [[Q|[]]|Hl]; [exact Q|]. exfalso.
    apply in_app_or in Hl. destruct Hl as [Hl|Hl].
    + rewrite lnames_nolab in Hl by apply nolab_marker. destruct Hl.
    + rewrite lnames_nolab in Hl; [destruct Hl|]. apply forallb_forall. intros i Hi. apply in_map_iff in Hi. destruct Hi as (z & <- & _). reflexivity.
  - right. eapply IH; exact Hl.
Qed.
End PROGLABELS.

(* THE NAMES A PROGRAM CAN DEFINE, read off the parsed program: for each script (top-level or map script) its name, the names
   <name>_<digits> and its author's labels; the names of movements, marts, mapscripts statements and their tables; the names of
   the texts (p is the parsed program: hoisted texts and movements are among texts p / tops p) *)
Definition program_names (p : program) (l : text) : Prop :=
  (exists s, In s (scripts_of (tops p)) /\ script_label s l) \/
  In l (flat_map top_own_names (tops p)) \/
  In l (map xname (texts p)).

Theorem program_labels_from_source hl hd hs autovars switches ee fc cli_font cli_maxlen (src : text) (p : program) optimize mp prog :
  parse_program autovars switches ee (parse_format fc cli_font cli_maxlen ee) (lex hl hd hs src) = Parser.Ok p ->
  emit_program_instrs optimize mp p = Emitter.Ok prog ->
  forall l, In l (lnames prog) -> program_names p l.
Proof.
  intros HP HE l Hl. unfold emit_program_instrs in HE.
  destruct (emit_tops mp (map xname (texts p)) optimize (tops p) 0) as [[x n]| | | |] eqn:E; try discriminate.
  apply Ok_inj in HE. subst prog. rewrite lnames_app in Hl. apply in_app_or in Hl. unfold program_names. destruct Hl as [Hl|Hl].
  - assert (OKS : forall s, In s (scripts_of (tops p)) -> src_ok (Datatypes.snd s)).
    { intros s Hs. pose proof (accepted_bodies_are_src_ok hl hd hs autovars switches ee fc cli_font cli_maxlen src p HP) as A.
      rewrite Forall_forall in A. apply A. rewrite <- scripts_bodies. apply in_map_iff. exists s. split; [reflexivity|exact Hs]. }
    destruct (emit_tops_labels _ _ _ _ _ _ _ E OKS l Hl) as [Q|Q]; [right; left; exact Q|left; exact Q].
  - right. right. eapply emit_texts_labels. exact Hl.
Qed.

Section C01PROG_SOURCE.
Variable St : Type.
Variable exec : cmd -> St -> stepres St.
Variable flag_set trainer_beaten : text -> St -> bool.
Variable cmp_var cmp_var_value : text -> text -> St -> comparison.
Variable case_matches : text -> text -> St -> bool.
Notation tstep := (tstep St exec flag_set trainer_beaten cmp_var cmp_var_value case_matches).
Notation srun body := (run sfinal (sstep St exec flag_set trainer_beaten cmp_var cmp_var_value case_matches (fun l => fl_body l body Kstop))).

(* theorem 6 of ProgramRun.v, the hypothesis on jump targets stated on the source: every goto(l) statement of the script names a
   label of the script or a name that nothing in the parsed program can define (program_names) *)
Theorem program_self_contained_scripts_correct_source hl hd hs autovars switches ee fc cli_font cli_maxlen (src : text) (p : program) optimize mp prog :
  parse_program autovars switches ee (parse_format fc cli_font cli_maxlen ee) (lex hl hd hs src) = Parser.Ok p ->
  emit_program_instrs optimize mp p = Emitter.Ok prog ->
  NoDup (lnames prog) ->
  forall name glob body, In (name, glob, body) (scripts_of (tops p)) ->
  src_names_ok name body = true ->
  (forall c l, In (ML.KCommand c) (ML.body_constructs body) -> is_name c "goto" = true -> cargs c = [l] ->
     In l (dlabs body) \/ ~ program_names p l) ->
  forall w code, emit_graph body = Emitter.Ok w ->
  emit_script mp (map xname (texts p)) name glob optimize body = Emitter.Ok code ->
  (forall n s, exists m, srun body n (enter body Kstop) s = run (@tfinal) (tstep prog) m (jump prog name) s) /\
  (forall m s, exists n, res_le (run (@tfinal) (tstep prog) m (jump prog name) s) (srun body n (enter body Kstop) s)).
Proof.
  intros HP HE ND name glob body HS HN SELF w code HW HC.
  refine (program_self_contained_scripts_correct_src_names St exec flag_set trainer_beaten cmp_var cmp_var_value case_matches
           hl hd hs autovars switches ee fc cli_font cli_maxlen src p optimize mp prog HP HE ND name glob body HS HN _ w code HW HC).
  intros c l K N A. destruct (SELF c l K N A) as [Q|Q]; [left; exact Q|right].
  intros X. apply Q. exact (program_labels_from_source hl hd hs autovars switches ee fc cli_font cli_maxlen src p optimize mp prog HP HE l X).
Qed.
End C01PROG_SOURCE.

(* a program of two scripts, a movement and a text; script A leaves with goto(Elsewhere), a name nothing in the program defines
   (the executable hypotheses; the clause  ~ program_names p "Elsewhere"  is read off the three lists below and the script names) *)
Section EXAMPLE_SOURCE.
Open Scope string_scope.
Definition ps_src : string :=
  "script A { lock" ++ nl ++ " if (flag(F)) { goto(Done) }" ++ nl ++ " msgbox(""hi"")" ++ nl ++ " Done: release" ++ nl ++ " goto(Elsewhere) }" ++ nl ++
  "script B { applymovement(1, M)" ++ nl ++ " end }" ++ nl ++ "movement M { walk_up }".
Definition ps_p : program :=
  match parse_program [] [] false (parse_format fc0 [] 0%Z false) (lex nf nf nf (t ps_src)) with Parser.Ok p => p | _ => {| tops := []; texts := [] |} end.
Definition ps_prog : list instr := match emit_program_instrs false None ps_p with Emitter.Ok x => x | _ => [] end.
Definition ps_body : list stmt := Datatypes.snd (nth 0 (scripts_of (tops ps_p)) ([], false, [])).

Example source_hypotheses_satisfiable :
  parse_program [] [] false (parse_format fc0 [] 0%Z false) (lex nf nf nf (t ps_src)) = Parser.Ok ps_p /\
  emit_program_instrs false None ps_p = Emitter.Ok ps_prog /\
  NoDup (lnames ps_prog) /\
  In (t "A", true, ps_body) (scripts_of (tops ps_p)) /\
  src_names_ok (t "A") ps_body = true /\
  map show (lnames ps_prog) = ["A"; "A_1"; "Done"; "A_2"; "A_3"; "B"; "M"; "A_Text_0"] /\
  map show (dlabs ps_body) = ["Done"] /\
  map show (flat_map top_own_names (tops ps_p)) = ["M"] /\ map show (map xname (texts ps_p)) = ["A_Text_0"].
Proof.
  split; [vm_compute; reflexivity|]. split; [vm_compute; reflexivity|]. split; [apply nodupt_sound; vm_compute; reflexivity|].
  split; [vm_compute; left; reflexivity|]. split; [vm_compute; reflexivity|]. split; [vm_compute; reflexivity|].
  split; [vm_compute; reflexivity|]. split; vm_compute; reflexivity.
Qed.
End EXAMPLE_SOURCE.

