(* C03, parser side: what parse_switch / parse_cases build from the tokens of a switch statement, and which written body
   then runs. *)
From Coq Require Import List String Ascii ZArith NArith Lia Bool.
From Pory Require Import Lexer Ast Emitter Sem2 SpecLemmas Consume C20Proofs MapScriptsParse AutoVarParse.
From Pory Require FuelOk ProgSrc Format.
From Pory Require Import Parser.
Import ListNotations.
Open Scope list_scope.

(* ---------- small facts ---------- *)
Lemma impadd_assoc a b c : impadd (impadd a b) c = impadd a (impadd b c).
Proof. unfold impadd. cbn. rewrite <- !app_assoc. reflexivity. Qed.
Lemma impadd_0_r a : impadd a imp0 = a.
Proof. destruct a. unfold impadd. cbn. rewrite !app_nil_r. reflexivity. Qed.
Lemma impadd_0_l a : impadd imp0 a = a.
Proof. destruct a. reflexivity. Qed.

(* ---------- the source tree of the case list of a switch ---------- *)
(* one item per 'case' / 'default' written; [btoks] = the tokens of the statements written under it, [b] = their parse *)
Inductive sitem :=
| ICase (ck : token) (vs : list token) (colon : token) (btoks : list token) (b : list stmt) (imp : impdata)   (* case VALUE : stmts *)
| IDefault (dk colon : token) (btoks : list token) (b : list stmt) (imp : impdata).                          (* default : stmts *)

Definition item_body (it : sitem) : list stmt := match it with ICase _ _ _ _ b _ => b | IDefault _ _ _ b _ => b end.
Definition item_imp (it : sitem) : impdata := match it with ICase _ _ _ _ _ i => i | IDefault _ _ _ _ i => i end.
Definition item_default (it : sitem) : bool := match it with ICase _ _ _ _ _ _ => false | IDefault _ _ _ _ _ => true end.
Definition item_toks (it : sitem) : list token :=
  match it with
  | ICase ck vs colon btoks _ _ => ck :: vs ++ colon :: btoks
  | IDefault dk colon btoks _ _ => dk :: colon :: btoks
  end.
Definition item_key (it : sitem) : token := match it with ICase ck _ _ _ _ _ => ck | IDefault dk _ _ _ _ => dk end.
Definition items_imp (its : list sitem) : impdata := fold_right (fun it a => impadd (item_imp it) a) imp0 its.
Definition has_default (its : list sitem) : bool := existsb item_default its.

Section TREE.
Variable consts : list (text * text).
(* the text recorded for a run of value tokens: each literal with constants substituted, joined by one space *)
Definition joined (vs : list token) : text := join sp (map (cr consts) vs).

Definition item_value (it : sitem) : text := match it with ICase _ vs _ _ _ _ => joined vs | IDefault _ _ _ _ _ => [] end.
(* the AST case of an item: default flag, value, line of the first value token (of the ':' when no value is written) *)
Definition item_case (it : sitem) : scase :=
  match it with
  | ICase _ vs colon _ b _ => (false, joined vs, tline (hd colon vs), b)
  | IDefault _ _ _ b _ => (true, [], 0%Z, b)
  end.
(* the values of the 'case' items, in source order *)
Definition case_values (its : list sitem) : list text :=
  flat_map (fun it => match it with ICase _ vs _ _ _ _ => [joined vs] | IDefault _ _ _ _ _ => [] end) its.

(* what the parser accepts as a case list: no value written twice (nor already seen), at most one default *)
Fixpoint items_ok (seen : list text) (hasdef : bool) (its : list sitem) : Prop :=
  match its with
  | [] => True
  | ICase _ vs _ _ _ _ :: r => existsb (text_eqb (joined vs)) seen = false /\ items_ok (joined vs :: seen) hasdef r
  | IDefault _ _ _ _ _ :: r => hasdef = false /\ items_ok seen true r
  end.

(* ---------- the grammar ---------- *)
(* [Body ts b imp ts']: the stream ts begins with statements that parse (as the body of a case) to b with inline data imp, and
   ts' is ts from the next 'case' / 'default' / '}' on *)
Variable Body : toks -> list stmt -> impdata -> toks -> Prop.

(* value tokens: up to the ':', no end of file inside *)
Definition value_toks (vs : list token) : Prop :=
  Forall (fun k => ttype k <> COLON) vs /\ Forall (fun k => ttype k <> EOF) (tl vs).

Inductive cases_src : toks -> list sitem -> toks -> Prop :=
| CS_nil rest : cases_src rest [] rest
| CS_case ck vs colon btoks b imp ts its rest :
    ttype ck = CASE -> value_toks vs -> ttype colon = COLON ->
    Body (btoks ++ ts) b imp ts ->
    cases_src ts its rest ->
    cases_src (ck :: vs ++ colon :: btoks ++ ts) (ICase ck vs colon btoks b imp :: its) rest
| CS_default dk colon btoks b imp ts its rest :
    ttype dk = DEFAULT -> ttype colon = COLON ->
    Body (btoks ++ ts) b imp ts ->
    cases_src ts its rest ->
    cases_src (dk :: colon :: btoks ++ ts) (IDefault dk colon btoks b imp :: its) rest.

(* the relation reads exactly the tokens of the items *)
Lemma cases_src_tokens ts its rest : cases_src ts its rest -> ts = flat_map item_toks its ++ rest.
Proof.
  induction 1 as [rest|ck vs colon btoks b imp ts its rest _ _ _ _ _ IH|dk colon btoks b imp ts its rest _ _ _ _ IH].
  - reflexivity.
  - cbn [flat_map]. rewrite <- app_assoc, <- IH. cbn [item_toks app]. rewrite <- app_assoc. reflexivity.
  - cbn [flat_map]. rewrite <- app_assoc, <- IH. reflexivity.
Qed.
Lemma cases_src_len ts its rest : cases_src ts its rest -> (List.length rest + 2 * List.length its <= List.length ts)%nat.
Proof.
  induction 1 as [rest|ck vs colon btoks b imp ts its rest _ _ _ _ _ IH|dk colon btoks b imp ts its rest _ _ _ _ IH]; cbn [List.length].
  - lia.
  - rewrite !app_length. cbn [List.length]. rewrite !app_length. lia.
  - rewrite !app_length. lia.
Qed.
Lemma cases_src_start ts its rest : cases_src ts its rest ->
  match its with [] => ts = rest | it :: _ => exists r, ts = item_key it :: r /\ ttype (item_key it) = (if item_default it then DEFAULT else CASE) end.
Proof. destruct 1; [reflexivity|eexists; split; [reflexivity|assumption]|eexists; split; [reflexivity|assumption]]. Qed.
End TREE.

(* the grammar is monotone in the body predicate *)
Lemma cases_src_mono (B1 B2 : toks -> list stmt -> impdata -> toks -> Prop) :
  (forall ts b i ts', B1 ts b i ts' -> B2 ts b i ts') ->
  forall ts its rest, cases_src B1 ts its rest -> cases_src B2 ts its rest.
Proof. intros H ts its rest. induction 1; [apply CS_nil|apply CS_case; auto|apply CS_default; auto]. Qed.

(* item_case and the accessors of the emitter / semantics *)
Lemma item_case_def consts it : sc_def (item_case consts it) = item_default it.
Proof. destruct it; reflexivity. Qed.
Lemma item_case_val consts it : sc_val (item_case consts it) = item_value consts it.
Proof. destruct it; reflexivity. Qed.
Lemma item_case_body consts it : sc_body (item_case consts it) = item_body it.
Proof. destruct it; reflexivity. Qed.

(* ---------- the two token loops of the switch parser ---------- *)
Section LOOPS.
Variable consts : list (text * text).
Notation cr := (cr consts).

Lemma cur_app_cons (vs : list token) x r : cur (vs ++ x :: r) = hd x vs.
Proof. destruct vs; reflexivity. Qed.

(* collect_until: the tokens before the first stop token; None when the end of the file comes first *)
Lemma collect_until_inv : forall f stop ts parts r ts', collect_until consts f stop ts parts = Some (r, ts') -> eof_ended ts ->
  exists c, ts = c ++ ts' /\ Forall (fun k => stop k = false) c /\ Forall (fun k => ttype k <> EOF) (tl (c ++ [cur ts'])) /\
            stop (cur ts') = true /\ r = parts ++ map cr c /\ eof_ended ts'.
Proof.
  induction f as [|f IH]; intros stop ts parts r ts' H EO; [discriminate|]. cbn [collect_until] in H.
  destruct (stop (cur ts)) eqn:S0.
  - inversion H; subst. exists []. cbn. rewrite app_nil_r. repeat (split; [solve [auto]|]). exact EO.
  - destruct (curis EOF (adv ts)) eqn:C1; [discriminate|].
    destruct EO as [N L]. destruct ts as [|x [|y rr]]; [congruence| |].
    + exfalso. cbn in L. unfold curis in C1. cbn in C1. rewrite (is_true EOF x L) in C1. discriminate.
    + rewrite adv_cons2 in H, C1. cbn [cur hd] in H, S0.
      assert (EO1 : eof_ended (y :: rr)) by (split; [discriminate|exact L]).
      destruct (IH _ _ _ _ _ H EO1) as (c & E1 & F1 & F2 & S1 & R1 & EO').
      exists (x :: c). cbn [app]. rewrite <- E1. split; [reflexivity|]. split; [constructor; assumption|].
      split; [|split; [exact S1|split; [rewrite R1; cbn [map]; rewrite <- app_assoc; reflexivity|exact EO']]].
      cbn [tl]. destruct c as [|c0 c'].
      * cbn [app] in *. subst ts'. constructor; [|constructor]. cbn [cur hd]. apply is_false_inv. exact C1.
      * cbn [app tl] in *. constructor; [|exact F2]. inversion E1; subst. apply is_false_inv. exact C1.
Qed.

Lemma collect_until_spec stop : forall c x r parts f,
  Forall (fun k => stop k = false) c -> Forall (fun k => ttype k <> EOF) (tl (c ++ [x])) -> stop x = true ->
  (List.length c < f)%nat ->
  collect_until consts f stop (c ++ x :: r) parts = Some (parts ++ map cr c, x :: r).
Proof.
  induction c as [|o c IH]; intros x r parts f H1 H2 Hx Hf.
  - destruct f; [cbn in Hf; lia|]. cbn [app collect_until cur hd map]. rewrite Hx, app_nil_r. reflexivity.
  - destruct f; [cbn in Hf; lia|]. inversion H1 as [|? ? S1 S2]; subst. cbn [app tl] in H2.
    cbn [app collect_until cur hd]. rewrite S1. rewrite adv_cons_ne by (destruct c; discriminate).
    assert (C : curis EOF (c ++ x :: r) = false).
    { destruct c as [|o2 c2]; cbn [app] in *; rewrite curis_cons; apply is_false; inversion H2; assumption. }
    rewrite C. rewrite (IH x r _ f S2); [cbn [map]; rewrite <- app_assoc; reflexivity| |exact Hx|cbn in Hf; lia].
    destruct c as [|o2 c2]; cbn [app tl] in *; [constructor|]. inversion H2; assumption.
Qed.

(* collect_until answers None exactly when the loop runs into the last token *)
Lemma collect_until_none stop : forall c x parts f,
  Forall (fun k => stop k = false) c -> ttype x = EOF -> stop x = false -> (List.length c < f)%nat ->
  collect_until consts f stop (c ++ [x]) parts = None.
Proof.
  induction c as [|o c IH]; intros x parts f H1 HX Hx Hf.
  - destruct f; [cbn in Hf; lia|]. cbn [app collect_until cur hd adv]. rewrite Hx. rewrite curis_cons, (is_true EOF x HX). reflexivity.
  - destruct f; [cbn in Hf; lia|]. inversion H1 as [|? ? S1 S2]; subst.
    cbn [app collect_until cur hd]. rewrite S1. rewrite adv_cons_ne by (destruct c; discriminate).
    destruct (curis EOF (c ++ [x])); [reflexivity|]. apply IH; try assumption. cbn in Hf; lia.
Qed.

(* switch_operand: the tokens before the first ')' *)
Definition operand_toks (seg : list token) : Prop := Forall (fun k => ttype k <> RPAREN /\ ttype k <> EOF) seg.

Lemma switch_operand_inv : forall f orig ts parts r ts', switch_operand consts f orig ts parts = Ok (r, ts') -> eof_ended ts ->
  exists seg, ts = seg ++ ts' /\ operand_toks seg /\ curis RPAREN ts' = true /\ eof_ended ts' /\ r = parts ++ map cr seg.
Proof.
  induction f as [|f IH]; intros orig ts parts r ts' H EO; [discriminate|]. cbn [switch_operand] in H.
  destruct (curis RPAREN ts) eqn:S.
  - inversion H; subst. exists []. cbn. rewrite app_nil_r. split; [reflexivity|]. split; [constructor|]. auto.
  - destruct (curis EOF ts) eqn:E1; [discriminate|].
    destruct (eof_uncons ts EO (is_false_inv _ _ E1)) as (x & y & rr & -> & EO1). rewrite adv_cons2 in H. cbn [cur hd] in H.
    destruct (IH _ _ _ _ _ H EO1) as (seg & E2 & F & ST & EO2 & P).
    exists (x :: seg). cbn [app]. rewrite <- E2. split; [reflexivity|].
    split; [constructor; [split; apply is_false_inv; assumption|exact F]|].
    split; [exact ST|]. split; [exact EO2|]. rewrite P. cbn [map]. rewrite <- app_assoc. reflexivity.
Qed.

Lemma switch_operand_spec : forall seg rp R parts f orig,
  operand_toks seg -> ttype rp = RPAREN -> (List.length seg < f)%nat ->
  switch_operand consts f orig (seg ++ rp :: R) parts = Ok (parts ++ map cr seg, rp :: R).
Proof.
  induction seg as [|o seg IH]; intros rp R parts f orig H1 HR Hf.
  - destruct f; [cbn in Hf; lia|]. cbn [app switch_operand map]. rewrite curis_cons, (is_true RPAREN rp HR), app_nil_r. reflexivity.
  - destruct f; [cbn in Hf; lia|]. inversion H1 as [|? ? [S1 S1'] S2]; subst.
    cbn [app switch_operand]. rewrite !curis_cons, (is_false RPAREN o S1), (is_false EOF o S1').
    rewrite adv_cons_ne by (destruct seg; discriminate). cbn [cur hd].
    rewrite (IH rp R _ f orig S2 HR); [cbn [map]; rewrite <- app_assoc; reflexivity|cbn in Hf; lia].
Qed.
End LOOPS.

(* ================= Theorem A: what the parser accepted was a switch of the grammar, and the AST is that of its tree ================= *)
Section SOUND.
Variable autovars : list (text * autovar).
Variable switches : list (text * text).
Variable env_errors : bool.
Variable parse_format : toks -> res (token * text * text * toks).
Hypothesis parse_format_advs : forall ts tk v sty ts', parse_format ts = Ok (tk, v, sty, ts') -> forall a, advs a ts -> advs a ts'.
Variable consts : list (text * text).

Notation parse_stmt := (parse_stmt autovars switches env_errors parse_format consts).
Notation parse_switch_block := (parse_switch_block autovars switches env_errors parse_format consts).
Notation parse_switch := (parse_switch autovars switches env_errors parse_format consts).
Notation parse_cases := (parse_cases autovars switches env_errors parse_format consts).
Notation command_stmt := (command_stmt switches env_errors parse_format consts).
Notation var_or_autovar := (var_or_autovar autovars switches env_errors parse_format consts).

(* a case body: the model's own body parser (parseSwitchBlockStatement) returns b for it.  [bs] / [cs] are the stacks of
   breakable / continuable statements the body is parsed under, [brace] the opening brace of the switch (error messages) *)
Definition body_parsed (script : text) (bs cs : list nat) (brace : token) (ts : toks) (b : list stmt) (imp : impdata) (ts' : toks) : Prop :=
  exists fb, parse_switch_block fb script bs cs brace ts [] imp0 = Ok (b, imp, ts').

(* the same with a lower bound on the fuel that was used (c = 0: no bound); only used to derive Theorem D below *)
Definition body_parsed_from (c : nat) (script : text) (bs cs : list nat) (brace : token) (ts : toks) (b : list stmt) (imp : impdata) (ts' : toks) : Prop :=
  exists fb, (c * S (List.length ts) <= fb)%nat /\ parse_switch_block fb script bs cs brace ts [] imp0 = Ok (b, imp, ts').
Lemma body_parsed_from_weaken c script bs cs brace ts b imp ts' :
  body_parsed_from c script bs cs brace ts b imp ts' -> body_parsed script bs cs brace ts b imp ts'.
Proof. intros (fb & _ & H). exists fb. exact H. Qed.

Definition case_end (k : token) : bool := is RBRACE k || is CASE k || is DEFAULT k.

Lemma parse_switch_block_stop : forall f script bs cs start ts acc imp b imp' ts',
  parse_switch_block f script bs cs start ts acc imp = Ok (b, imp', ts') -> case_end (cur ts') = true.
Proof.
  induction f as [|f IH]; intros script bs cs start ts acc imp b imp' ts' H; [discriminate|].
  rewrite parse_switch_block_unfold in H. destruct (curis RBRACE ts || curis CASE ts || curis DEFAULT ts) eqn:C0.
  - inversion H; subst. exact C0.
  - destruct (curis EOF ts); [discriminate|]. bind H as [[ss imp1] ts1] eqn E1. eapply IH. exact H.
Qed.
Lemma parse_switch_block_advs f script bs cs start ts acc imp b imp' ts' :
  parse_switch_block f script bs cs start ts acc imp = Ok (b, imp', ts') -> advs ts ts'.
Proof.
  intros H. destruct (adv_all autovars switches parse_format consts parse_format_advs env_errors f) as (_ & _ & I & _).
  eapply I; [exact H|apply advs_refl].
Qed.

(* the body parser reads a prefix and stops on the next 'case' / 'default' / '}' *)
Lemma body_parsed_shape script bs cs brace ts b imp ts' :
  body_parsed script bs cs brace ts b imp ts' -> eof_ended ts ->
  exists btoks, ts = btoks ++ ts' /\ case_end (cur ts') = true /\ eof_ended ts'.
Proof.
  intros [fb H] EO. pose proof (parse_switch_block_advs _ _ _ _ _ _ _ _ _ _ _ H) as A.
  destruct (advs_suffix _ _ A) as [btoks E]. exists btoks. split; [exact E|]. split; [eapply parse_switch_block_stop; exact H|].
  eapply advs_eof; eassumption.
Qed.

(* a case body is a sequence of statements, each read by the statement parser; the loop stops in front of the next
   'case' / 'default' / '}' *)
Inductive stmts_src (script : text) (bs cs : list nat) : toks -> list stmt -> impdata -> toks -> Prop :=
| SS_end ts : case_end (cur ts) = true -> stmts_src script bs cs ts [] imp0 ts
| SS_stmt ts fs ss i ts1 b i' ts' :
    case_end (cur ts) = false -> ttype (cur ts) <> EOF ->
    parse_stmt fs script bs cs ts = Ok (ss, i, ts1) ->          (* on return the cursor is on the last token of the statement *)
    stmts_src script bs cs (adv ts1) b i' ts' ->
    stmts_src script bs cs ts (ss ++ b) (impadd i i') ts'.

Lemma parse_switch_block_stmts : forall f script bs cs start ts acc imp b imp' ts',
  parse_switch_block f script bs cs start ts acc imp = Ok (b, imp', ts') ->
  exists b0 i0, stmts_src script bs cs ts b0 i0 ts' /\ b = acc ++ b0 /\ imp' = impadd imp i0.
Proof.
  induction f as [|f IH]; intros script bs cs start ts acc imp b imp' ts' H; [discriminate|].
  rewrite parse_switch_block_unfold in H. destruct (curis RBRACE ts || curis CASE ts || curis DEFAULT ts) eqn:C0.
  - inversion H; subst. exists [], imp0. split; [apply SS_end; exact C0|]. rewrite app_nil_r, impadd_0_r. split; reflexivity.
  - destruct (curis EOF ts) eqn:C1; [discriminate|]. bind H as [[ss imp1] ts1] eqn E1.
    destruct (IH _ _ _ _ _ _ _ _ _ _ H) as (b0 & i0 & S & -> & ->).
    exists (ss ++ b0), (impadd imp1 i0). split; [|split; [rewrite app_assoc; reflexivity|rewrite impadd_assoc; reflexivity]].
    eapply SS_stmt; [exact C0|apply is_false_inv; exact C1|exact E1|exact S].
Qed.

Theorem switch_body_is_statement_sequence script bs cs brace ts b imp ts' :
  body_parsed script bs cs brace ts b imp ts' -> stmts_src script bs cs ts b imp ts'.
Proof.
  intros [fb H]. destruct (parse_switch_block_stmts _ _ _ _ _ _ _ _ _ _ _ H) as (b0 & i0 & S & -> & ->).
  rewrite impadd_0_l. exact S.
Qed.

(* the case loop *)
Lemma parse_cases_sound_gen c : forall f script bs cs brace ts acc seen hasdef imp cases imp' ts',
  parse_cases f script bs cs brace ts acc seen hasdef imp = Ok (cases, imp', ts') -> eof_ended ts -> (c * List.length ts <= f)%nat ->
  exists its, cases_src (body_parsed_from c script bs cs brace) ts its ts' /\ curis RBRACE ts' = true /\ eof_ended ts' /\
    cases = acc ++ map (item_case consts) its /\ imp' = impadd imp (items_imp its) /\ items_ok consts seen hasdef its.
Proof.
  induction f as [|f IH]; intros script bs cs brace ts acc seen hasdef imp cases imp' ts' H EO Hc; [discriminate|].
  rewrite parse_cases_unfold in H.
  destruct (curis RBRACE ts) eqn:C1.
  { inversion H; subst. exists []. split; [apply CS_nil|]. split; [exact C1|]. split; [exact EO|].
    cbn. rewrite app_nil_r, impadd_0_r. auto. }
  destruct (curis CASE ts) eqn:C2.
  { cbv zeta in H. apply is_true_inv in C2.
    destruct (eof_uncons ts EO ltac:(rewrite C2; discriminate)) as (ck & y & r & -> & EO1).
    cbn [cur hd] in C2, H. rewrite adv_cons2 in H.
    destruct (collect_until consts f (is COLON) (y :: r) []) as [[parts ts2]|] eqn:CU; [|discriminate].
    destruct (collect_until_inv _ _ _ _ _ _ _ CU EO1) as (vs & E2 & F1 & F2 & ST & PA & EO2). cbn [app] in PA. subst parts.
    apply is_true_inv in ST.
    destruct (eof_uncons ts2 EO2 ltac:(rewrite ST; discriminate)) as (colon & y2 & r2 & -> & EO3). cbn [cur hd] in ST, F2, H.
    rewrite adv_cons2 in H.
    fold (joined consts vs) in H.
    destruct (existsb (text_eqb (joined consts vs)) seen) eqn:DUP; [discriminate|].
    bind H as [[b imp1] ts3] eqn SB.
    assert (BP : body_parsed script bs cs brace (y2 :: r2) b imp1 ts3) by (exists f; exact SB).
    destruct (body_parsed_shape _ _ _ _ _ _ _ _ BP EO3) as (btoks & E3 & CE & EO4).
    pose proof (f_equal (@List.length token) E2) as LE2. rewrite app_length in LE2. cbn [List.length] in LE2.
    pose proof (f_equal (@List.length token) E3) as LE3. rewrite app_length in LE3. cbn [List.length] in LE3, Hc.
    assert (BPc : body_parsed_from c script bs cs brace (y2 :: r2) b imp1 ts3).
    { exists f. split; [|exact SB]. cbn [List.length]. destruct c; [lia|nia]. }
    destruct (IH _ _ _ _ _ _ _ _ _ _ _ _ H EO4 ltac:(destruct c; [lia|nia])) as (its & CS & CB & EO' & EC & EI & OK).
    exists (ICase ck vs colon btoks b imp1 :: its).
    split; [|split; [exact CB|split; [exact EO'|split; [|split]]]].
    - rewrite E2, E3. apply CS_case; try assumption.
      + split; [eapply Forall_impl; [|exact F1]; intros k; apply is_false_inv|].
        destruct vs as [|v0 vs']; [constructor|]. cbn [app tl] in F2 |- *. apply Forall_app in F2. apply F2.
      + rewrite <- E3. exact BPc.
    - rewrite EC, <- app_assoc. cbn [app map item_case].
      assert (HY : y = hd colon vs) by (destruct vs; inversion E2; reflexivity). rewrite HY. reflexivity.
    - rewrite EI. cbn [items_imp fold_right item_imp]. apply impadd_assoc.
    - cbn [items_ok]. split; [exact DUP|exact OK]. }
  destruct (curis DEFAULT ts) eqn:C3; [|discriminate].
  destruct hasdef; [discriminate|].
  destruct (expect_peek COLON ts) as [ts1|] eqn:P; [|discriminate].
  apply is_true_inv in C3.
  destruct (eof_uncons ts EO ltac:(rewrite C3; discriminate)) as (dk & colon & r & -> & EO1). cbn [cur hd] in C3.
  unfold expect_peek in P. rewrite peekis_cons in P. destruct (is COLON colon) eqn:C4; [|discriminate]. apply is_true_inv in C4.
  rewrite adv_cons2 in P. inversion P; subst ts1. clear P.
  destruct (eof_uncons _ EO1 ltac:(cbn [cur hd]; rewrite C4; discriminate)) as (colon' & y2 & r2 & E & EO3).
  inversion E; subst colon' r. clear E. rewrite adv_cons2 in H.
  bind H as [[b imp1] ts3] eqn SB.
  assert (BP : body_parsed script bs cs brace (y2 :: r2) b imp1 ts3) by (exists f; exact SB).
  destruct (body_parsed_shape _ _ _ _ _ _ _ _ BP EO3) as (btoks & E3 & CE & EO4).
  pose proof (f_equal (@List.length token) E3) as LE3. rewrite app_length in LE3. cbn [List.length] in LE3, Hc.
  assert (BPc : body_parsed_from c script bs cs brace (y2 :: r2) b imp1 ts3).
  { exists f. split; [|exact SB]. cbn [List.length]. destruct c; [lia|nia]. }
  destruct (IH _ _ _ _ _ _ _ _ _ _ _ _ H EO4 ltac:(destruct c; [lia|nia])) as (its & CS & CB & EO' & EC & EI & OK).
  exists (IDefault dk colon btoks b imp1 :: its).
  split; [|split; [exact CB|split; [exact EO'|split; [|split]]]].
  - rewrite E3. apply CS_default; try assumption. rewrite <- E3. exact BPc.
  - rewrite EC, <- app_assoc. reflexivity.
  - rewrite EI. cbn [items_imp fold_right item_imp]. apply impadd_assoc.
  - cbn [items_ok]. split; [reflexivity|exact OK].
Qed.

Lemma parse_cases_sound f script bs cs brace ts acc seen hasdef imp cases imp' ts' :
  parse_cases f script bs cs brace ts acc seen hasdef imp = Ok (cases, imp', ts') -> eof_ended ts ->
  exists its, cases_src (body_parsed script bs cs brace) ts its ts' /\ curis RBRACE ts' = true /\ eof_ended ts' /\
    cases = acc ++ map (item_case consts) its /\ imp' = impadd imp (items_imp its) /\ items_ok consts seen hasdef its.
Proof.
  intros H EO. destruct (parse_cases_sound_gen 0 _ _ _ _ _ _ _ _ _ _ _ _ _ H EO ltac:(lia)) as (its & CS & R).
  exists its. split; [|exact R]. eapply cases_src_mono; [|exact CS]. intros ? ? ? ?. apply body_parsed_from_weaken.
Qed.

(* ---------- the whole statement ---------- *)
(*   switch ( var ( OPERAND ) X { items }          X: one token, skipped unread (parser.go: p.nextToken() after the loop)
     switch ( CMD-TOKENS ) { items }               the command is read by the command-statement parser (AutoVar commands)
   [header_src Cmd ts pre operand oline imph lb cts]: ts is such a header up to the opening brace lb, followed by cts;
   pre = the preamble command (second form), operand / oline = the switched variable and its line, imph = the inline data of
   the preamble.  [Cmd ts c imp ts']: the command parser started on ts returns c and stops on ts' (cursor on the command's
   last token). *)
Inductive header_src (Cmd : toks -> cmd -> impdata -> toks -> Prop)
  : toks -> option cmd -> text -> Z -> impdata -> token -> toks -> Prop :=
| HD_var sw lp vr lp2 seg rp x lb cts :
    ttype lp = LPAREN -> ttype vr = VAR -> ttype lp2 = LPAREN -> operand_toks seg -> ttype rp = RPAREN -> ttype lb = LBRACE ->
    header_src Cmd (sw :: lp :: vr :: lp2 :: seg ++ rp :: x :: lb :: cts)
               None (joined consts seg) (tline (hd rp seg)) imp0 lb cts
| HD_auto sw lp ctoks last rp lb cts av c impc v :
    ttype lp = LPAREN -> ttype (hd last ctoks) <> VAR -> assoc autovars (tlit (hd last ctoks)) = Some av ->
    Cmd (ctoks ++ last :: rp :: lb :: cts) c impc (last :: rp :: lb :: cts) ->
    compared_var av c = Some v ->
    ttype rp = RPAREN -> ttype lb = LBRACE ->
    header_src Cmd (sw :: lp :: ctoks ++ last :: rp :: lb :: cts)
               (Some c) v (tline (ctok c)) impc lb cts.

(* header, items, closing brace rb, then rest.  [Body lb]: the body predicate of the items (lb = the opening brace) *)
Definition switch_src (Body : token -> toks -> list stmt -> impdata -> toks -> Prop) (Cmd : toks -> cmd -> impdata -> toks -> Prop)
  (ts : toks) (pre : option cmd) (operand : text) (oline : Z) (imph : impdata) (its : list sitem) (rb : token) (rest : toks) : Prop :=
  exists lb cts, header_src Cmd ts pre operand oline imph lb cts /\ ttype rb = RBRACE /\ cases_src (Body lb) cts its (rb :: rest).

Definition cmd_parsed (script : text) (ts : toks) (c : cmd) (imp : impdata) (ts' : toks) : Prop :=
  exists fc, command_stmt fc script ts = Ok (c, imp, ts').
Definition cmd_parsed_from (n : nat) (script : text) (ts : toks) (c : cmd) (imp : impdata) (ts' : toks) : Prop :=
  exists fc, (n * S (List.length ts) <= fc)%nat /\ command_stmt fc script ts = Ok (c, imp, ts').

(* the grammar is monotone in the two predicates *)
Lemma header_src_mono (C1 C2 : toks -> cmd -> impdata -> toks -> Prop) :
  (forall ts c i ts', C1 ts c i ts' -> C2 ts c i ts') ->
  forall ts pre operand oline imph lb cts, header_src C1 ts pre operand oline imph lb cts -> header_src C2 ts pre operand oline imph lb cts.
Proof. intros HC ts pre operand oline imph lb cts H. destruct H; [apply HD_var; assumption|eapply HD_auto; eauto]. Qed.
Lemma switch_src_mono (B1 B2 : token -> toks -> list stmt -> impdata -> toks -> Prop) (C1 C2 : toks -> cmd -> impdata -> toks -> Prop) :
  (forall lb ts b i ts', B1 lb ts b i ts' -> B2 lb ts b i ts') -> (forall ts c i ts', C1 ts c i ts' -> C2 ts c i ts') ->
  forall ts pre operand oline imph its rb rest,
    switch_src B1 C1 ts pre operand oline imph its rb rest -> switch_src B2 C2 ts pre operand oline imph its rb rest.
Proof.
  intros HB HC ts pre operand oline imph its rb rest (lb & cts & HD & NR & CS). exists lb, cts.
  split; [eapply header_src_mono; eassumption|]. split; [exact NR|]. eapply cases_src_mono; [|exact CS]. apply HB.
Qed.

(* the statement list of a switch: the preamble command (if any), then the switch *)
Definition switch_stmts (tg : nat) (pre : option cmd) (operand : text) (oline : Z) (its : list sitem) : list stmt :=
  (match pre with Some c => [SCmd c] | None => [] end) ++ [SSwitch tg operand oline (map (item_case consts) its)].

Lemma expect_peek_inv ty s s' : eof_ended s -> ty <> EOF -> expect_peek ty s = Some s' ->
  exists a b r, s = a :: b :: r /\ s' = b :: r /\ ttype b = ty /\ eof_ended (b :: r).
Proof.
  intros [N L] NT P. unfold expect_peek in P. destruct (peekis ty s) eqn:PK; [|discriminate]. inversion P; subst s'.
  destruct s as [|a [|b r]]; [congruence| |].
  - exfalso. unfold peekis in PK. cbn in PK, L. apply is_true_inv in PK. congruence.
  - exists a, b, r. rewrite peekis_cons in PK. apply is_true_inv in PK. repeat split; try assumption; discriminate.
Qed.
Lemma peekis_inv ty s : eof_ended s -> ty <> EOF -> peekis ty s = true ->
  exists a b r, s = a :: b :: r /\ ttype b = ty /\ eof_ended (b :: r).
Proof.
  intros EO NT P. destruct (expect_peek_inv ty s (adv s) EO NT) as (a & b & r & E & _ & T & EO').
  - unfold expect_peek. rewrite P. reflexivity.
  - exists a, b, r. auto.
Qed.

Lemma parse_switch_sound_gen n f script bs cs ts ss imp ts' :
  parse_switch f script bs cs ts = Ok (ss, imp, ts') -> eof_ended ts -> (n * List.length ts <= f)%nat ->
  exists pre operand oline imph its rb rest,
    switch_src (body_parsed_from n script (List.length ts :: bs) cs) (cmd_parsed_from n script) ts pre operand oline imph its rb rest /\
    ts' = rb :: rest /\ eof_ended rest /\
    ss = switch_stmts (List.length ts) pre operand oline its /\
    imp = impadd imph (items_imp its) /\
    its <> [] /\ items_ok consts [] false its.
Proof.
  destruct f as [|f]; [discriminate|]. intros H EO Hn.
  destruct (peekis VAR (adv ts)) eqn:PV.
  - (* switch ( var ( ... ) *)
    rewrite parse_switch_unfold in H. cbv zeta in H.
    destruct (expect_peek LPAREN ts) as [ts1|] eqn:P1; [|discriminate].
    destruct (expect_peek_inv LPAREN _ _ EO ltac:(discriminate) P1) as (sw & lp & r1 & -> & -> & L1 & EO1).
    rewrite adv_cons2 in PV.
    destruct (peekis_inv VAR _ EO1 ltac:(discriminate) PV) as (lp' & vr & r2 & E & L2 & EO2). inversion E; subst lp' r1. clear E.
    unfold Parser.var_or_autovar in H. rewrite PV in H. cbv zeta in H. rewrite adv_cons2 in H.
    destruct (expect_peek LPAREN (vr :: r2)) as [ts2|] eqn:P2; [|discriminate].
    destruct (expect_peek_inv LPAREN _ _ EO2 ltac:(discriminate) P2) as (vr' & lp2 & r3 & E & -> & L3 & EO3). inversion E; subst vr' r2. clear E.
    cbv beta iota zeta in H.
    destruct (eof_uncons _ EO3 ltac:(cbn [cur hd]; rewrite L3; discriminate)) as (lp2' & y & r4 & E & EO4). inversion E; subst lp2' r3. clear E.
    rewrite adv_cons2 in H. cbn [cur hd] in H.
    destruct (switch_operand consts f sw (y :: r4) []) as [[parts tsx]| | |] eqn:SO; try discriminate. cbv beta iota zeta in H.
    destruct (switch_operand_inv _ _ _ _ _ _ _ SO EO4) as (seg & E5 & OT & CR & EO5 & PA). cbn [app] in PA. subst parts.
    apply is_true_inv in CR.
    destruct (eof_uncons _ EO5 ltac:(rewrite CR; discriminate)) as (rp & x & r5 & -> & EO6). cbn [cur hd] in CR.
    rewrite adv_cons2 in H.
    destruct (expect_peek LBRACE (x :: r5)) as [ts4|] eqn:P3; [|discriminate].
    destruct (expect_peek_inv LBRACE _ _ EO6 ltac:(discriminate) P3) as (x' & lb & r6 & E & -> & L4 & EO7). inversion E; subst x' r5. clear E.
    destruct (eof_uncons _ EO7 ltac:(cbn [cur hd]; rewrite L4; discriminate)) as (lb' & y7 & r7 & E & EO8). inversion E; subst lb' r6. clear E.
    rewrite adv_cons2 in H. cbn [cur hd] in H.
    bind H as [[cases imp2] ts5] eqn PC.
    pose proof (f_equal (@List.length token) E5) as LE5. rewrite app_length in LE5. cbn [List.length] in LE5, Hn.
    destruct (parse_cases_sound_gen n _ _ _ _ _ _ _ _ _ _ _ _ _ PC EO8 ltac:(cbn [List.length]; destruct n; [lia|nia]))
      as (its & CS & CB & EO' & EC & EI & OK). cbn [app] in EC.
    apply is_true_inv in CB.
    destruct (eof_uncons _ EO' ltac:(rewrite CB; discriminate)) as (rb & y9 & r9 & -> & EO9). cbn [cur hd] in CB.
    assert (NE : its <> []) by (intros ->; subst cases; discriminate H).
    destruct cases as [|c0 cases0]; [discriminate|]. inversion H; subst ss imp ts'. clear H.
    exists None, (joined consts seg), (tline (hd rp seg)), imp0, its, rb, (y9 :: r9).
    split; [|split; [reflexivity|split; [exact EO9|split; [|split; [|split; [exact NE|exact OK]]]]]].
    + exists lb, (y7 :: r7). split; [|split; [exact CB|exact CS]]. rewrite E5. apply HD_var; assumption.
    + unfold switch_stmts, joined. cbn [app List.length]. rewrite EC.
      assert (HY : y = hd rp seg) by (destruct seg; inversion E5; reflexivity). rewrite HY. reflexivity.
    + rewrite EI. reflexivity.
  - (* switch ( CMD ... ) *)
    destruct (autovar_switch_parse autovars switches env_errors parse_format consts f script bs cs ts ss imp ts' H PV)
      as (av & c & impc & ts2 & cases & impb & PL & HA & HC & PR & PB & PC & NC & -> & v & CV & ->).
    destruct (peekis_inv LPAREN _ EO ltac:(discriminate) PL) as (sw & lp & r1 & -> & L1 & EO1).
    destruct (eof_uncons _ EO1 ltac:(cbn [cur hd]; rewrite L1; discriminate)) as (lp' & y & r2 & E & EO2). inversion E; subst lp' r1. clear E.
    rewrite !adv_cons2 in HC, HA, PV. rewrite peekis_cons in PV. change (pk 1 (lp :: y :: r2)) with y in HA.
    assert (A : advs (y :: r2) ts2) by (eapply command_stmt_advs; [exact parse_format_advs|exact HC|apply advs_refl]).
    destruct (advs_suffix _ _ A) as [ctoks E2]. pose proof (advs_eof _ _ A EO2) as EO3.
    destruct (peekis_inv RPAREN _ EO3 ltac:(discriminate) PR) as (last & rp & r3 & -> & L2 & EO4).
    rewrite adv_cons2 in PB, PC.
    destruct (peekis_inv LBRACE _ EO4 ltac:(discriminate) PB) as (rp' & lb & r4 & E & L3 & EO5). inversion E; subst rp' r3. clear E.
    destruct (eof_uncons _ EO5 ltac:(cbn [cur hd]; rewrite L3; discriminate)) as (lb' & y6 & r6 & E & EO6). inversion E; subst lb' r4. clear E.
    rewrite !adv_cons2 in PC. change (pk 1 (rp :: lb :: y6 :: r6)) with lb in PC.
    pose proof (f_equal (@List.length token) E2) as LE2. rewrite app_length in LE2. cbn [List.length] in LE2, Hn.
    destruct (parse_cases_sound_gen n _ _ _ _ _ _ _ _ _ _ _ _ _ PC EO6 ltac:(cbn [List.length]; destruct n; [lia|nia]))
      as (its & CS & CB & EO' & EC & EI & OK). cbn [app] in EC.
    apply is_true_inv in CB.
    destruct (eof_uncons _ EO' ltac:(rewrite CB; discriminate)) as (rb & y9 & r9 & -> & EO9). cbn [cur hd] in CB.
    assert (NE : its <> []) by (intros ->; subst cases; apply NC; reflexivity).
    assert (HY : y = hd last ctoks) by (destruct ctoks; inversion E2; reflexivity).
    exists (Some c), v, (tline (ctok c)), impc, its, rb, (y9 :: r9).
    split; [|split; [reflexivity|split; [exact EO9|split; [|split; [|split; [exact NE|exact OK]]]]]].
    + exists lb, (y6 :: r6). split; [|split; [exact CB|exact CS]]. rewrite E2. eapply HD_auto; try eassumption.
      * rewrite <- HY. apply is_false_inv. exact PV.
      * rewrite <- HY. exact HA.
      * exists f. split; [|rewrite <- E2; exact HC]. rewrite <- E2. cbn [List.length]. destruct n; [lia|nia].
    + unfold switch_stmts. rewrite EC. reflexivity.
    + rewrite EI. reflexivity.
Qed.

(* THEOREM A *)
Theorem parse_switch_sound f script bs cs ts ss imp ts' :
  parse_switch f script bs cs ts = Ok (ss, imp, ts') -> eof_ended ts ->
  exists pre operand oline imph its rb rest,
    switch_src (body_parsed script (List.length ts :: bs) cs) (cmd_parsed script) ts pre operand oline imph its rb rest /\
    ts' = rb :: rest /\ eof_ended rest /\
    ss = switch_stmts (List.length ts) pre operand oline its /\
    imp = impadd imph (items_imp its) /\
    its <> [] /\ items_ok consts [] false its.
Proof.
  intros H EO. destruct (parse_switch_sound_gen 0 f script bs cs ts ss imp ts' H EO ltac:(lia))
    as (pre & operand & oline & imph & its & rb & rest & SRC & R).
  exists pre, operand, oline, imph, its, rb, rest. split; [|exact R].
  eapply switch_src_mono; [| |exact SRC].
  - intros lb ? ? ? ?. apply body_parsed_from_weaken.
  - intros ? ? ? ? (fc & _ & HC). exists fc. exact HC.
Qed.
End SOUND.

(* ---------- what the acceptance condition says ---------- *)
Lemma existsb_text_in v l : existsb (text_eqb v) l = true <-> In v l.
Proof.
  rewrite existsb_exists. unfold text_eqb. split.
  - intros (x & I & E). destruct (list_eq_dec N.eq_dec v x); [subst; exact I|discriminate].
  - intros I. exists v. split; [exact I|]. destruct (list_eq_dec N.eq_dec v v); [reflexivity|congruence].
Qed.
Lemma existsb_text_notin v l : existsb (text_eqb v) l = false <-> ~ In v l.
Proof. rewrite <- existsb_text_in. destruct (existsb (text_eqb v) l); split; congruence. Qed.

Definition ndefaults (its : list sitem) : nat := List.length (filter item_default its).

(* no value written twice (after substitution of the constants), none of them seen before, at most one default *)
Lemma items_ok_spec consts : forall its seen hasdef,
  items_ok consts seen hasdef its <->
  NoDup (case_values consts its) /\ (forall v, In v (case_values consts its) -> ~ In v seen) /\
  (ndefaults its + (if hasdef then 1 else 0) <= 1)%nat.
Proof.
  induction its as [|[ck vs colon btoks b i|dk colon btoks b i] its IH]; intros seen hasdef.
  - cbn. split; [intros _; split; [constructor|split; [intros v []|destruct hasdef; lia]]|auto].
  - cbn [items_ok case_values flat_map app]. unfold ndefaults. cbn [filter item_default]. fold (ndefaults its).
    rewrite IH, existsb_text_notin. fold (case_values consts its). split.
    + intros (N1 & ND & DS & LE). split; [constructor; [intros I; apply (DS _ I); left; reflexivity|exact ND]|].
      split; [|exact LE]. intros v [<-|I]; [exact N1|]. intros J. apply (DS _ I). right. exact J.
    + intros (ND & DS & LE). inversion ND as [|? ? N2 ND2]; subst.
      split; [apply DS; left; reflexivity|]. split; [exact ND2|]. split; [|exact LE].
      intros v I [<-|J]; [contradiction|]. apply (DS v); [right; exact I|exact J].
  - cbn [items_ok case_values flat_map app]. unfold ndefaults. cbn [filter item_default List.length]. fold (ndefaults its).
    rewrite IH. fold (case_values consts its). split.
    + intros (-> & ND & DS & LE). split; [exact ND|]. split; [exact DS|lia].
    + intros (ND & DS & LE). split; [destruct hasdef; [lia|reflexivity]|]. split; [exact ND|]. split; [exact DS|lia].
Qed.
Lemma items_ok_top consts its :
  items_ok consts [] false its <-> NoDup (case_values consts its) /\ (ndefaults its <= 1)%nat.
Proof.
  rewrite items_ok_spec. split.
  - intros (ND & _ & LE). split; [exact ND|lia].
  - intros (ND & LE). split; [exact ND|]. split; [intros v _ []|lia].
Qed.
Lemma has_default_ndefaults its : has_default its = true <-> (1 <= ndefaults its)%nat.
Proof.
  unfold has_default, ndefaults. induction its as [|it its IH]; cbn [existsb filter List.length]; [split; [discriminate|lia]|].
  destruct (item_default it); cbn [orb List.length]; [split; [lia|reflexivity]|exact IH].
Qed.

(* ================= Theorem B: every switch of the grammar is parsed to the AST of its tree; the rejections ================= *)
Section COMPLETE.
Variable autovars : list (text * autovar).
Variable switches : list (text * text).
Variable env_errors : bool.
Variable parse_format : toks -> res (token * text * text * toks).
Variable consts : list (text * text).
Variable F0 : nat.      (* fuel sufficient for every case body and for the preamble command *)

Notation parse_switch_block := (parse_switch_block autovars switches env_errors parse_format consts).
Notation parse_switch := (parse_switch autovars switches env_errors parse_format consts).
Notation parse_cases := (parse_cases autovars switches env_errors parse_format consts).
Notation command_stmt := (command_stmt switches env_errors parse_format consts).

(* what is assumed of a case body / of the preamble command: the model's parser, given at least F0 fuel, returns it *)
Definition body_parses (script : text) (bs cs : list nat) (brace : token) (ts : toks) (b : list stmt) (imp : impdata) (ts' : toks) : Prop :=
  forall f, (F0 <= f)%nat -> parse_switch_block f script bs cs brace ts [] imp0 = Ok (b, imp, ts').
Definition cmd_parses (script : text) (ts : toks) (c : cmd) (imp : impdata) (ts' : toks) : Prop :=
  forall f, (F0 <= f)%nat -> command_stmt f script ts = Ok (c, imp, ts').

Lemma cases_src_nonempty B ts its R : cases_src B ts its R -> R <> [] -> ts <> [].
Proof. intros H N. rewrite (cases_src_tokens _ _ _ _ H). intros X. apply app_eq_nil in X. destruct X; contradiction. Qed.

(* the case loop reads the items of a well-formed prefix one by one and continues behind them: same accumulators as if the
   items had been pushed by hand *)
Lemma parse_cases_prefix script bs cs brace : forall ts its R, cases_src (body_parses script bs cs brace) ts its R -> R <> [] ->
  forall seen hasdef, items_ok consts seen hasdef its ->
  forall f acc imp, (F0 + List.length ts < f)%nat ->
  exists f', (F0 + List.length R < f')%nat /\
    parse_cases f script bs cs brace ts acc seen hasdef imp =
    parse_cases f' script bs cs brace R (acc ++ map (item_case consts) its) (rev (case_values consts its) ++ seen)
                (hasdef || has_default its) (impadd imp (items_imp its)).
Proof.
  induction 1 as [R|ck vs colon btoks b impb ts its R N1 [V1 V2] N2 HB CS IH|dk colon btoks b impb ts its R N1 N2 HB CS IH];
    intros NR seen hasdef OK f acc imp Hf.
  - exists f. split; [exact Hf|]. cbn. rewrite app_nil_r, orb_false_r, impadd_0_r. reflexivity.
  - destruct f as [|f]; [lia|]. cbn [items_ok] in OK. destruct OK as [DUP OK].
    assert (NT : ts <> []) by (eapply cases_src_nonempty; eassumption).
    cbn [List.length] in Hf. rewrite !app_length in Hf. cbn [List.length] in Hf. rewrite !app_length in Hf.
    rewrite parse_cases_unfold. rewrite !curis_cons, (is_false RBRACE ck ltac:(rewrite N1; discriminate)), (is_true CASE ck N1).
    cbv zeta. rewrite (adv_cons_ne ck) by (destruct vs; discriminate). cbn [cur hd].
    rewrite (collect_until_spec consts (is COLON) vs colon (btoks ++ ts) [] f).
    2:{ eapply Forall_impl; [|exact V1]. intros k. apply is_false. }
    2:{ destruct vs as [|v0 vs']; [constructor|]. cbn [app tl] in V2 |- *. apply Forall_app. split; [exact V2|].
        constructor; [rewrite N2; discriminate|constructor]. }
    2:{ apply is_true. exact N2. }
    2:{ lia. }
    cbn [app]. fold (joined consts vs). rewrite DUP.
    rewrite (adv_cons_ne colon) by (destruct btoks; [exact NT|discriminate]).
    rewrite (HB f ltac:(lia)). cbv beta iota. rewrite cur_app_cons.
    destruct (IH NR _ _ OK f (acc ++ [(false, joined consts vs, tline (hd colon vs), b)]) (impadd imp impb) ltac:(lia)) as (f' & Hf' & E).
    exists f'. split; [exact Hf'|]. rewrite E. cbn [map item_case case_values flat_map app has_default existsb item_default items_imp fold_right item_imp rev].
    fold (case_values consts its). fold (has_default its). fold (items_imp its).
    rewrite <- !app_assoc, impadd_assoc. cbn [app orb]. reflexivity.
  - destruct f as [|f]; [lia|]. cbn [items_ok] in OK. destruct OK as [-> OK].
    assert (NT : ts <> []) by (eapply cases_src_nonempty; eassumption).
    cbn [List.length] in Hf. rewrite !app_length in Hf.
    rewrite parse_cases_unfold. rewrite !curis_cons, (is_false RBRACE dk ltac:(rewrite N1; discriminate)),
      (is_false CASE dk ltac:(rewrite N1; discriminate)), (is_true DEFAULT dk N1).
    unfold expect_peek. rewrite peekis_cons, (is_true COLON colon N2), adv_cons2.
    rewrite (adv_cons_ne colon) by (destruct btoks; [exact NT|discriminate]).
    rewrite (HB f ltac:(lia)). cbv beta iota.
    destruct (IH NR _ _ OK f (acc ++ [(true, [], 0%Z, b)]) (impadd imp impb) ltac:(lia)) as (f' & Hf' & E).
    exists f'. split; [exact Hf'|]. rewrite E. cbn [map item_case case_values flat_map app has_default existsb item_default items_imp fold_right item_imp rev].
    fold (case_values consts its). fold (has_default its). fold (items_imp its).
    rewrite <- !app_assoc, impadd_assoc. cbn [app orb]. reflexivity.
Qed.

(* the case list up to the closing brace *)
Lemma parse_cases_complete script bs cs brace ts its rb rest f acc seen hasdef imp :
  cases_src (body_parses script bs cs brace) ts its (rb :: rest) -> ttype rb = RBRACE ->
  items_ok consts seen hasdef its -> (F0 + List.length ts < f)%nat ->
  parse_cases f script bs cs brace ts acc seen hasdef imp =
    Ok (acc ++ map (item_case consts) its, impadd imp (items_imp its), rb :: rest).
Proof.
  intros CS NR OK Hf.
  destruct (parse_cases_prefix script bs cs brace _ _ _ CS ltac:(discriminate) _ _ OK f acc imp Hf) as (f' & Hf' & E).
  rewrite E. destruct f' as [|f']; [lia|]. rewrite parse_cases_unfold, curis_cons, (is_true RBRACE rb NR). reflexivity.
Qed.

(* ---------- rejections inside the case list ---------- *)
(* a second 'default' (after a well-formed prefix containing one, or with one already seen) is rejected at that token *)
Lemma second_default_rejected script bs cs brace ts its dk R f acc seen hasdef imp :
  cases_src (body_parses script bs cs brace) ts its (dk :: R) -> ttype dk = DEFAULT ->
  items_ok consts seen hasdef its -> hasdef || has_default its = true -> (F0 + List.length ts < f)%nat ->
  parse_cases f script bs cs brace ts acc seen hasdef imp =
    err_tok dk "multiple `default` cases found in switch statement".
Proof.
  intros CS ND OK HD Hf.
  destruct (parse_cases_prefix script bs cs brace _ _ _ CS ltac:(discriminate) _ _ OK f acc imp Hf) as (f' & Hf' & E).
  rewrite E, HD. destruct f' as [|f']; [lia|]. rewrite parse_cases_unfold, !curis_cons.
  rewrite (is_false RBRACE dk ltac:(rewrite ND; discriminate)), (is_false CASE dk ltac:(rewrite ND; discriminate)), (is_true DEFAULT dk ND).
  reflexivity.
Qed.

(* a 'case' whose value (constants substituted, joined) was already written (or seen) is rejected: the error runs from
   that 'case' keyword to its ':' *)
Lemma repeated_value_rejected script bs cs brace ts its ck vs colon R f acc seen hasdef imp :
  cases_src (body_parses script bs cs brace) ts its (ck :: vs ++ colon :: R) ->
  ttype ck = CASE -> value_toks vs -> ttype colon = COLON ->
  items_ok consts seen hasdef its -> In (joined consts vs) (case_values consts its ++ seen) -> (F0 + List.length ts < f)%nat ->
  parse_cases f script bs cs brace ts acc seen hasdef imp = err_range ck colon "duplicate switch cases detected".
Proof.
  intros CS N1 [V1 V2] N2 OK DUP Hf.
  destruct (parse_cases_prefix script bs cs brace _ _ _ CS ltac:(discriminate) _ _ OK f acc imp Hf) as (f' & Hf' & E).
  rewrite E. destruct f' as [|f']; [lia|]. cbn [List.length] in Hf'. rewrite app_length in Hf'.
  rewrite parse_cases_unfold, !curis_cons, (is_false RBRACE ck ltac:(rewrite N1; discriminate)), (is_true CASE ck N1).
  cbv zeta. rewrite (adv_cons_ne ck) by (destruct vs; discriminate).
  rewrite (collect_until_spec consts (is COLON) vs colon R [] f').
  2:{ eapply Forall_impl; [|exact V1]. intros k. apply is_false. }
  2:{ destruct vs as [|v0 vs']; [constructor|]. cbn [app tl] in V2 |- *. apply Forall_app. split; [exact V2|].
      constructor; [rewrite N2; discriminate|constructor]. }
  2:{ apply is_true. exact N2. }
  2:{ lia. }
  cbn [app]. fold (joined consts vs).
  assert (X : existsb (text_eqb (joined consts vs)) (rev (case_values consts its) ++ seen) = true).
  { apply existsb_text_in. apply in_app_or in DUP. apply in_or_app. destruct DUP as [I|I]; [left; apply in_rev in I; exact I|right; exact I]. }
  rewrite X. reflexivity.
Qed.

(* anything but 'case' / 'default' / '}' where an item should start is rejected at that token (the body parser never stops
   in front of such a token, so this concerns the token after '{') *)
Lemma bad_case_start_rejected f script bs cs brace ts acc seen hasdef imp :
  case_end (cur ts) = false ->
  parse_cases (S f) script bs cs brace ts acc seen hasdef imp = err_tok (cur ts) "invalid start of switch case".
Proof.
  unfold case_end. intros H. apply orb_false_elim in H. destruct H as [H H3]. apply orb_false_elim in H. destruct H as [H1 H2].
  rewrite parse_cases_unfold. unfold curis. rewrite H1, H2, H3. reflexivity.
Qed.

(* 'case' without ':' before the end of the file *)
Lemma case_without_colon_rejected f script bs cs brace ck vs e acc seen hasdef imp :
  ttype ck = CASE -> Forall (fun k => ttype k <> COLON) vs -> ttype e = EOF -> (List.length vs < f)%nat ->
  parse_cases (S f) script bs cs brace (ck :: vs ++ [e]) acc seen hasdef imp = err_tok ck "missing `:` after 'case'".
Proof.
  intros N1 V NE Hf. rewrite parse_cases_unfold, !curis_cons, (is_false RBRACE ck ltac:(rewrite N1; discriminate)), (is_true CASE ck N1).
  cbv zeta. rewrite (adv_cons_ne ck) by (destruct vs; discriminate).
  rewrite (collect_until_none consts (is COLON) vs e [] f); [reflexivity| | | |exact Hf].
  - eapply Forall_impl; [|exact V]. intros k. apply is_false.
  - exact NE.
  - apply is_false. rewrite NE. discriminate.
Qed.

(* ---------- the header ---------- *)
Lemma pk1_cons (a : token) l : l <> [] -> pk 1 (a :: l) = cur l.
Proof. destruct l; [congruence|reflexivity]. Qed.

(* after a header of the grammar the switch parser runs the case loop on what follows the opening brace, under the break
   stack extended by the tag of this switch (the number of tokens from 'switch' to the end of the file), same continue stack *)
Lemma parse_switch_header_eq script bs cs ts pre operand oline imph lb cts f :
  header_src autovars consts (cmd_parses script) ts pre operand oline imph lb cts -> cts <> [] ->
  (F0 + List.length ts <= f)%nat ->
  parse_switch (S f) script bs cs ts =
    (do (cases, imp', ts5) <- parse_cases f script (List.length ts :: bs) cs lb cts [] [] false imp0;
     match cases with
     | [] => err_range (cur ts) (cur ts5) "switch statement has no cases or default case"
     | _ => Ok ((match pre with Some c => [SCmd c] | None => [] end) ++ [SSwitch (List.length ts) operand oline cases],
                impadd imph imp', ts5)
     end).
Proof.
  intros HD NC Hf.
  destruct HD as [sw lp vr lp2 seg rp x lb cts L1 L2 L3 OT L4 L5|sw lp ctoks last rp lb cts av c impc v L1 NV HA HC CV L4 L5].
  - set (ts := sw :: lp :: vr :: lp2 :: seg ++ rp :: x :: lb :: cts) in *.
    assert (LEN : (List.length seg + 4 < List.length ts)%nat) by (unfold ts; cbn [List.length]; rewrite app_length; cbn [List.length]; lia).
    rewrite parse_switch_unfold. cbv zeta. unfold ts at 1. unfold expect_peek at 1. rewrite peekis_cons, (is_true LPAREN lp L1), adv_cons2.
    unfold Parser.var_or_autovar. rewrite peekis_cons, (is_true VAR vr L2). cbv zeta. rewrite adv_cons2.
    unfold expect_peek at 1. rewrite peekis_cons, (is_true LPAREN lp2 L3), adv_cons2. cbv beta iota zeta.
    rewrite (adv_cons_ne lp2) by (destruct seg; discriminate).
    rewrite (switch_operand_spec consts seg rp (x :: lb :: cts) [] f (cur ts) OT L4 ltac:(lia)). cbv beta iota zeta. cbn [app].
    rewrite adv_cons2. unfold expect_peek. rewrite peekis_cons, (is_true LBRACE lb L5), adv_cons2. cbn [cur hd].
    rewrite (adv_cons_ne lb cts NC). rewrite cur_app_cons. fold (joined consts seg).
    destruct (parse_cases f script (List.length ts :: bs) cs lb cts [] [] false imp0) as [[[cases imp'] ts5]|e| |]; try reflexivity.
  - set (ts := sw :: lp :: ctoks ++ last :: rp :: lb :: cts) in *.
    assert (E1 : adv ts = lp :: ctoks ++ last :: rp :: lb :: cts) by reflexivity.
    assert (E2 : adv (adv ts) = ctoks ++ last :: rp :: lb :: cts) by (rewrite E1; apply adv_cons_ne; destruct ctoks; discriminate).
    assert (E3 : pk 1 (adv ts) = hd last ctoks) by (rewrite E1, pk1_cons by (destruct ctoks; discriminate); apply cur_app_cons).
    rewrite (autovar_switch_equation autovars switches env_errors parse_format consts f script bs cs ts av).
    + rewrite E2, (HC f ltac:(lia)). cbv beta iota. rewrite CV. rewrite peekis_cons, (is_true RPAREN rp L4). cbn [negb]. cbv zeta.
      rewrite adv_cons2, peekis_cons, (is_true LBRACE lb L5). cbn [negb]. rewrite adv_cons2. cbn [cur hd]. rewrite (adv_cons_ne lb cts NC).
      destruct (parse_cases f script (List.length ts :: bs) cs lb cts [] [] false imp0) as [[[cases imp'] ts5]|e| |]; try reflexivity.
    + unfold ts. rewrite peekis_cons. apply is_true. exact L1.
    + unfold peekis. rewrite E3. apply is_false. exact NV.
    + rewrite E3. exact HA.
Qed.

Lemma cases_src_len_lt B ts its R : cases_src B ts its R -> (List.length R <= List.length ts)%nat.
Proof. intros H. pose proof (cases_src_len _ _ _ _ H). lia. Qed.

Lemma header_len Cmd ts pre operand oline imph lb cts :
  header_src autovars consts Cmd ts pre operand oline imph lb cts -> (List.length cts + 4 <= List.length ts)%nat.
Proof. destruct 1; cbn [List.length]; rewrite app_length; cbn [List.length]; lia. Qed.

(* THEOREM B *)
Theorem parse_switch_complete script bs cs ts pre operand oline imph its rb rest f :
  switch_src autovars consts (body_parses script (List.length ts :: bs) cs) (cmd_parses script) ts pre operand oline imph its rb rest ->
  its <> [] -> items_ok consts [] false its -> (F0 + List.length ts < f)%nat ->
  parse_switch f script bs cs ts =
    Ok (switch_stmts consts (List.length ts) pre operand oline its, impadd imph (items_imp its), rb :: rest).
Proof.
  intros (lb & cts & HD & NR & CS) NE OK Hf. destruct f as [|f]; [lia|].
  pose proof (header_len _ _ _ _ _ _ _ _ HD) as HL.
  rewrite (parse_switch_header_eq script bs cs ts pre operand oline imph lb cts f HD); [|eapply cases_src_nonempty; [exact CS|discriminate]|lia].
  rewrite (parse_cases_complete script (List.length ts :: bs) cs lb cts its rb rest f [] [] false imp0 CS NR OK ltac:(lia)).
  cbv beta iota. cbn [app]. rewrite impadd_0_l. destruct its as [|it its]; [congruence|]. reflexivity.
Qed.

(* ---------- rejections of the whole statement ---------- *)
(* a switch without any case or default: the error runs from 'switch' to the closing brace *)
Theorem switch_without_cases_rejected script bs cs ts pre operand oline imph rb rest f :
  switch_src autovars consts (body_parses script (List.length ts :: bs) cs) (cmd_parses script) ts pre operand oline imph [] rb rest ->
  (F0 + List.length ts < f)%nat ->
  parse_switch f script bs cs ts = err_range (cur ts) rb "switch statement has no cases or default case".
Proof.
  intros (lb & cts & HD & NR & CS) Hf. destruct f as [|f]; [lia|].
  pose proof (header_len _ _ _ _ _ _ _ _ HD) as HL.
  rewrite (parse_switch_header_eq script bs cs ts pre operand oline imph lb cts f HD); [|eapply cases_src_nonempty; [exact CS|discriminate]|lia].
  rewrite (parse_cases_complete script (List.length ts :: bs) cs lb cts [] rb rest f [] [] false imp0 CS NR I ltac:(lia)).
  reflexivity.
Qed.

(* [ts] = a header, well-formed items [its], then a second 'default' *)
Theorem switch_second_default_rejected script bs cs ts pre operand oline imph lb cts its dk R f :
  header_src autovars consts (cmd_parses script) ts pre operand oline imph lb cts ->
  cases_src (body_parses script (List.length ts :: bs) cs lb) cts its (dk :: R) -> ttype dk = DEFAULT ->
  items_ok consts [] false its -> has_default its = true -> (F0 + List.length ts < f)%nat ->
  parse_switch f script bs cs ts = err_tok dk "multiple `default` cases found in switch statement".
Proof.
  intros HD CS ND OK HDF Hf. destruct f as [|f]; [lia|].
  pose proof (header_len _ _ _ _ _ _ _ _ HD) as HL.
  rewrite (parse_switch_header_eq script bs cs ts pre operand oline imph lb cts f HD); [|eapply cases_src_nonempty; [exact CS|discriminate]|lia].
  rewrite (second_default_rejected script (List.length ts :: bs) cs lb cts its dk R f [] [] false imp0 CS ND OK HDF ltac:(lia)).
  reflexivity.
Qed.

(* [ts] = a header, well-formed items [its], then a 'case' whose value is the value of one of [its] *)
Theorem switch_repeated_value_rejected script bs cs ts pre operand oline imph lb cts its ck vs colon R f :
  header_src autovars consts (cmd_parses script) ts pre operand oline imph lb cts ->
  cases_src (body_parses script (List.length ts :: bs) cs lb) cts its (ck :: vs ++ colon :: R) ->
  ttype ck = CASE -> value_toks vs -> ttype colon = COLON ->
  items_ok consts [] false its -> In (joined consts vs) (case_values consts its) -> (F0 + List.length ts < f)%nat ->
  parse_switch f script bs cs ts = err_range ck colon "duplicate switch cases detected".
Proof.
  intros HD CS N1 V N2 OK DUP Hf. destruct f as [|f]; [lia|].
  pose proof (header_len _ _ _ _ _ _ _ _ HD) as HL.
  rewrite (parse_switch_header_eq script bs cs ts pre operand oline imph lb cts f HD); [|eapply cases_src_nonempty; [exact CS|discriminate]|lia].
  rewrite (repeated_value_rejected script (List.length ts :: bs) cs lb cts its ck vs colon R f [] [] false imp0 CS N1 V N2 OK
             ltac:(rewrite app_nil_r; exact DUP) ltac:(lia)).
  reflexivity.
Qed.

(* both errors are located at the offending 'default' / 'case' token (C20Proofs.rejected_at) *)
Corollary err_tok_rejected_at {A} tk m : rejected_at (@err_tok A tk m) tk.
Proof. eexists. split; [reflexivity|]. cbn. auto. Qed.
Corollary err_range_rejected_at {A} a b m : rejected_at (@err_range A a b m) a.
Proof. eexists. split; [reflexivity|]. cbn. auto. Qed.
End COMPLETE.

(* ================= which written body runs ================= *)
(* the first body written at or after an item: a case without statements shares the body of the next item that has some;
   trailing items without statements give nothing *)
Fixpoint next_written (its : list sitem) : list stmt :=
  match its with
  | [] => []
  | it :: r => match item_body it with [] => next_written r | b => b end
  end.

Section MEANING.
Variable consts : list (text * text).
Notation item_case := (item_case consts).
Notation item_value := (item_value consts).

Lemma next_body_items its : next_body (map item_case its) = next_written its.
Proof. induction its as [|it its IH]; [reflexivity|]. cbn [map next_body next_written]. rewrite item_case_body, IH. reflexivity. Qed.

(* [m v] = "the switched variable equals v".  The selection the source semantics makes on the parsed cases (Sem2.select_case),
   read on the items as written: *)
(* (1) the first 'case' whose value matches: its body, or the next written body *)
Theorem written_first_match pre it post m :
  (forall x, In x pre -> item_default x = true \/ m (item_value x) = false) ->
  item_default it = false -> m (item_value it) = true ->
  select_case (map item_case (pre ++ it :: post)) m = next_written (it :: post).
Proof.
  intros HP HD HM. rewrite map_app. cbn [map]. rewrite select_first_match.
  - change (item_case it :: map item_case post) with (map item_case (it :: post)). apply next_body_items.
  - intros x I. apply in_map_iff in I. destruct I as (y & <- & I). rewrite item_case_def, item_case_val. apply HP, I.
  - rewrite item_case_def. exact HD.
  - rewrite item_case_val. exact HM.
Qed.

(* (2) no 'case' matches: the body written under 'default' - wherever it stands - or the next written body *)
Theorem written_default pre d post m :
  (forall x, In x (pre ++ d :: post) -> item_default x = true \/ m (item_value x) = false) ->
  item_default d = true -> (ndefaults (pre ++ d :: post) <= 1)%nat ->
  select_case (map item_case (pre ++ d :: post)) m = next_written (d :: post).
Proof.
  intros HN HD ONE. rewrite select_no_match.
  - rewrite map_app. cbn [map]. rewrite select_default_spec.
    + change (item_case d :: map item_case post) with (map item_case (d :: post)). apply next_body_items.
    + intros x I. apply in_map_iff in I. destruct I as (y & <- & I). rewrite item_case_def.
      destruct (item_default y) eqn:DY; [|reflexivity]. exfalso.
      apply in_split in I. destruct I as (p1 & p2 & ->). unfold ndefaults in ONE.
      rewrite <- !app_assoc in ONE. cbn [app] in ONE. rewrite !filter_app in ONE. cbn [filter] in ONE. rewrite DY in ONE.
      rewrite !app_length in ONE. cbn [List.length] in ONE. rewrite filter_app in ONE. cbn [filter] in ONE. rewrite HD in ONE.
      rewrite app_length in ONE. cbn [List.length] in ONE. lia.
    + rewrite item_case_def. exact HD.
  - intros x I. apply in_map_iff in I. destruct I as (y & <- & I). rewrite item_case_def, item_case_val. apply HN, I.
Qed.

(* (3) no 'case' matches and no 'default' is written: nothing runs *)
Theorem written_no_match_no_default its m :
  (forall x, In x its -> item_default x = false /\ m (item_value x) = false) ->
  select_case (map item_case its) m = [].
Proof.
  intros H. rewrite select_no_match.
  - rewrite select_default_none; [reflexivity|]. intros x I. apply in_map_iff in I. destruct I as (y & <- & I).
    rewrite item_case_def. apply H, I.
  - intros x I. apply in_map_iff in I. destruct I as (y & <- & I). rewrite item_case_val. right. apply H, I.
Qed.

(* what is selected is the body written under one item, or nothing: never the statements of two bodies *)
Theorem written_one_body its m :
  select_case (map item_case its) m = [] \/ exists it, In it its /\ select_case (map item_case its) m = item_body it.
Proof.
  destruct (select_is_one_body (map item_case its) m) as [E|(c & I & E)]; [left; exact E|right].
  apply in_map_iff in I. destruct I as (it & <- & I). exists it. split; [exact I|]. rewrite E. apply item_case_body.
Qed.

(* sharing and trailing items, on the written list *)
Lemma next_written_skip it post : item_body it = [] -> next_written (it :: post) = next_written post.
Proof. intros H. cbn [next_written]. rewrite H. reflexivity. Qed.
Lemma next_written_here it post : item_body it <> [] -> next_written (it :: post) = item_body it.
Proof. intros H. cbn [next_written]. destruct (item_body it); congruence. Qed.
Lemma next_written_trailing its : (forall x, In x its -> item_body x = []) -> next_written its = [].
Proof.
  induction its as [|it its IH]; intros H; [reflexivity|]. cbn [next_written]. rewrite (H it (or_introl eq_refl)).
  apply IH. intros y I. apply H. right. exact I.
Qed.
End MEANING.

(* ---------- the step of the source semantics on the statement the parser returns ---------- *)
Section STEP.
Variable St : Type.
Variable exec : cmd -> St -> stepres St.
Variable flag_set : text -> St -> bool.
Variable trainer_beaten : text -> St -> bool.
Variable cmp_var : text -> text -> St -> comparison.
Variable cmp_var_value : text -> text -> St -> comparison.
Variable case_matches : text -> text -> St -> bool.
Variable find_label : text -> option sstate.
Notation sstep := (sstep St exec flag_set trainer_beaten cmp_var cmp_var_value case_matches find_label).

(* entering: no event, the selected body runs under a switch frame; the statements after the switch wait below it *)
Lemma switch_enters_selected_body tg operand oline cases rest k s :
  sstep (SRun (SSwitch tg operand oline cases) rest k) s =
    ([], enter (select_case cases (fun v => case_matches operand v s)) (Kswitch tg (kseq rest k)), s).
Proof. reflexivity. Qed.
(* when the body is finished (or empty) execution continues with the statement after the switch: no second body *)
Lemma resume_kseq rest k : resume (kseq rest k) = enter rest k.
Proof. destruct rest; reflexivity. Qed.
Lemma switch_frame_resumes_after tg rest k : resume (Kswitch tg (kseq rest k)) = enter rest k.
Proof. destruct rest; reflexivity. Qed.
(* 'break' in the body (outside any loop of the body) leaves the switch: same continuation *)
Lemma break_leaves_switch t r tg rest k s :
  sstep (SRun (SBreak t) r (Kswitch tg (kseq rest k))) s = ([], enter rest k, s).
Proof. cbn [Sem2.sstep pop_break]. rewrite resume_kseq. reflexivity. Qed.
(* also from inside nested blocks of the body that are not loops (if / else bodies push sequence frames only) *)
Lemma break_leaves_switch_nested t r r1 tg rest k s :
  sstep (SRun (SBreak t) r (Kseq r1 (Kswitch tg (kseq rest k)))) s = ([], enter rest k, s).
Proof. cbn [Sem2.sstep pop_break]. rewrite resume_kseq. reflexivity. Qed.
End STEP.


(* ================= composition: tokens -> AST -> the body that runs ================= *)
Section COMPOSE.
Variable autovars : list (text * autovar).
Variable switches : list (text * text).
Variable env_errors : bool.
Variable parse_format : toks -> res (token * text * text * toks).
Variable consts : list (text * text).
Variable St : Type.
Variable exec : cmd -> St -> stepres St.
Variable flag_set : text -> St -> bool.
Variable trainer_beaten : text -> St -> bool.
Variable cmp_var : text -> text -> St -> comparison.
Variable cmp_var_value : text -> text -> St -> comparison.
Variable case_matches : text -> text -> St -> bool.
Variable find_label : text -> option sstate.
Notation sstep := (sstep St exec flag_set trainer_beaten cmp_var cmp_var_value case_matches find_label).
Notation parse_switch := (parse_switch autovars switches env_errors parse_format consts).

(* [runs_written tg operand oline its]: in every machine state s, with any statements [following] the switch and any
   continuation k, the switch statement built from the items [its] steps - without an event - into one body under a switch
   frame below which [following] waits, and that body is
     - the first written body at or after the first 'case' item whose value equals the switched variable, if there is one;
     - else the first written body at or after the 'default' item, if one is written (anywhere);
     - else nothing;
   when the body ends, execution continues with [following]. *)
Definition runs_written (tg : nat) (operand : text) (oline : Z) (its : list sitem) : Prop :=
  forall (s : St) (following : list stmt) (k : cont),
    let m := fun v => case_matches operand v s in
    exists body,
      sstep (SRun (SSwitch tg operand oline (map (item_case consts) its)) following k) s =
        ([], enter body (Kswitch tg (kseq following k)), s) /\
      resume (Kswitch tg (kseq following k)) = enter following k /\
      (forall p it q, its = p ++ it :: q -> item_default it = false -> m (item_value consts it) = true ->
         (forall x, In x p -> item_default x = true \/ m (item_value consts x) = false) -> body = next_written (it :: q)) /\
      (forall p d q, its = p ++ d :: q -> item_default d = true ->
         (forall x, In x its -> item_default x = true \/ m (item_value consts x) = false) -> body = next_written (d :: q)) /\
      ((forall x, In x its -> item_default x = false /\ m (item_value consts x) = false) -> body = []) /\
      (body = [] \/ exists it, In it its /\ body = item_body it).

Lemma items_run_written tg operand oline its : (ndefaults its <= 1)%nat -> runs_written tg operand oline its.
Proof.
  intros ONE s following k m. exists (select_case (map (item_case consts) its) m).
  split; [reflexivity|]. split; [apply switch_frame_resumes_after|]. split; [|split; [|split]].
  - intros p it q -> HD HM HP. apply written_first_match; assumption.
  - intros p d q E HD HN. subst its. apply written_default; assumption.
  - apply written_no_match_no_default.
  - apply written_one_body.
Qed.

Hypothesis parse_format_advs : forall ts tk v sty ts', parse_format ts = Ok (tk, v, sty, ts') -> forall a, advs a ts -> advs a ts'.

(* THEOREM C (from the parser's answer): whatever the switch parser accepts is a switch of the grammar; the statement it
   returns selects the body as written *)
Theorem parsed_switch_runs_the_written_body f script bs cs ts ss imp ts' :
  parse_switch f script bs cs ts = Ok (ss, imp, ts') -> eof_ended ts ->
  exists pre operand oline imph its rb rest,
    switch_src autovars consts (body_parsed autovars switches env_errors parse_format consts script (List.length ts :: bs) cs)
               (cmd_parsed switches env_errors parse_format consts script) ts pre operand oline imph its rb rest /\
    ts' = rb :: rest /\
    ss = (match pre with Some c => [SCmd c] | None => [] end) ++
         [SSwitch (List.length ts) operand oline (map (item_case consts) its)] /\
    its <> [] /\ NoDup (case_values consts its) /\ (ndefaults its <= 1)%nat /\
    runs_written (List.length ts) operand oline its.
Proof.
  intros H EO.
  destruct (parse_switch_sound autovars switches env_errors parse_format parse_format_advs consts f script bs cs ts ss imp ts' H EO)
    as (pre & operand & oline & imph & its & rb & rest & SRC & E1 & _ & E2 & _ & NE & OK).
  apply items_ok_top in OK. destruct OK as [ND ONE].
  exists pre, operand, oline, imph, its, rb, rest. split; [exact SRC|]. split; [exact E1|]. split; [exact E2|].
  split; [exact NE|]. split; [exact ND|]. split; [exact ONE|]. apply items_run_written. exact ONE.
Qed.

(* THEOREM C' (from the written source): a switch of the grammar - no value written twice, at most one default, at least one
   item, bodies and preamble command parsing with every fuel >= F0 - is parsed to the switch statement of its items, which
   selects the body as written *)
Theorem written_switch_runs_the_written_body F0 f script bs cs ts pre operand oline imph its rb rest :
  switch_src autovars consts (body_parses autovars switches env_errors parse_format consts F0 script (List.length ts :: bs) cs)
             (cmd_parses switches env_errors parse_format consts F0 script) ts pre operand oline imph its rb rest ->
  its <> [] -> NoDup (case_values consts its) -> (ndefaults its <= 1)%nat -> (F0 + List.length ts < f)%nat ->
  parse_switch f script bs cs ts =
    Ok ((match pre with Some c => [SCmd c] | None => [] end) ++ [SSwitch (List.length ts) operand oline (map (item_case consts) its)],
        impadd imph (items_imp its), rb :: rest) /\
  runs_written (List.length ts) operand oline its.
Proof.
  intros SRC NE ND ONE Hf. split; [|apply items_run_written; exact ONE].
  apply (parse_switch_complete autovars switches env_errors parse_format consts F0 script bs cs ts pre operand oline imph its rb rest f SRC NE);
    [apply items_ok_top; split; assumption|exact Hf].
Qed.
End COMPOSE.

(* ================= Theorem D: above the fuel bound of FuelOk.v the switch parser accepts exactly the grammar ================= *)
(* monotonicity of the grammar in the body predicate, relative to a property of streams that is inherited by suffixes *)
Lemma cases_src_mono_suffix (B1 B2 : toks -> list stmt -> impdata -> toks -> Prop) (P : toks -> Prop) :
  (forall a b, b <> [] -> P (a ++ b) -> P b) ->
  (forall ts b i ts', P ts -> B1 ts b i ts' -> B2 ts b i ts') ->
  forall ts its R, cases_src B1 ts its R -> R <> [] -> P ts -> cases_src B2 ts its R.
Proof.
  intros SUF IMP ts its R H NR. induction H as [R|ck vs colon btoks b imp ts its R N1 V N2 HB CS IH|dk colon btoks b imp ts its R N1 N2 HB CS IH]; intros PT.
  - apply CS_nil.
  - assert (NT : ts <> []) by (rewrite (cases_src_tokens _ _ _ _ CS); intros X; apply app_eq_nil in X; destruct X; contradiction).
    assert (PB : P (btoks ++ ts)).
    { apply (SUF (ck :: vs ++ [colon])); [intros X; apply app_eq_nil in X; destruct X; contradiction|].
      cbn [app]. rewrite <- app_assoc. exact PT. }
    apply CS_case; try assumption; [apply IMP; assumption|]. apply IH; [exact NR|]. apply (SUF btoks); assumption.
  - assert (NT : ts <> []) by (rewrite (cases_src_tokens _ _ _ _ CS); intros X; apply app_eq_nil in X; destruct X; contradiction).
    assert (PB : P (btoks ++ ts)).
    { apply (SUF [dk; colon]); [intros X; apply app_eq_nil in X; destruct X; contradiction|]. exact PT. }
    apply CS_default; try assumption; [apply IMP; assumption|]. apply IH; [exact NR|]. apply (SUF btoks); assumption.
Qed.

Section EXACT.
Variable autovars : list (text * autovar).
Variable switches : list (text * text).
Variable env_errors : bool.
Variable parse_format : toks -> res (token * text * text * toks).
Variable consts : list (text * text).
Hypothesis parse_format_advs : forall ts tk v sty ts', parse_format ts = Ok (tk, v, sty, ts') -> forall a, advs a ts -> advs a ts'.
(* the format() operator consumes at least one token (true of Format.parse_format: FuelOk.parse_format_lt) *)
Hypothesis parse_format_lt : forall ts tk v sty ts', parse_format ts = Ok (tk, v, sty, ts') -> eof_ended ts -> (List.length ts' < List.length ts)%nat.

Notation parse_switch_block := (parse_switch_block autovars switches env_errors parse_format consts).
Notation parse_switch := (parse_switch autovars switches env_errors parse_format consts).
Notation command_stmt := (command_stmt switches env_errors parse_format consts).

(* fuel-free predicates: the model's parsers run with the fuel bound of FuelOk.v for their own stream *)
Definition body_is (script : text) (bs cs : list nat) (brace : token) (ts : toks) (b : list stmt) (imp : impdata) (ts' : toks) : Prop :=
  parse_switch_block (5 * List.length ts + 3) script bs cs brace ts [] imp0 = Ok (b, imp, ts').
Definition cmd_is (script : text) (ts : toks) (c : cmd) (imp : impdata) (ts' : toks) : Prop :=
  command_stmt (5 * List.length ts + 1) script ts = Ok (c, imp, ts').

Lemma psb_stable script bs cs start ts acc imp : eof_ended ts -> forall g, (5 * List.length ts + 3 <= g)%nat ->
  parse_switch_block g script bs cs start ts acc imp = parse_switch_block (5 * List.length ts + 3) script bs cs start ts acc imp.
Proof.
  intros EO g Hg. induction Hg as [|m Hm IH]; [reflexivity|]. rewrite <- IH.
  destruct (FuelOk.sts_all autovars switches env_errors parse_format consts parse_format_advs parse_format_lt m) as (_ & _ & I & _).
  apply I; assumption.
Qed.
Lemma cmd_stable script ts : eof_ended ts -> forall g, (5 * List.length ts + 1 <= g)%nat ->
  command_stmt g script ts = command_stmt (5 * List.length ts + 1) script ts.
Proof.
  intros EO g Hg. induction Hg as [|m Hm IH]; [reflexivity|]. rewrite <- IH.
  apply (FuelOk.command_stmt_st switches env_errors parse_format consts parse_format_advs parse_format_lt); assumption.
Qed.
(* the answer of the switch parser does not depend on the fuel, from 5 * (number of remaining tokens) on *)
Theorem parse_switch_fuel_independent script bs cs ts : eof_ended ts -> forall f g, (5 * List.length ts <= f)%nat -> (5 * List.length ts <= g)%nat ->
  parse_switch f script bs cs ts = parse_switch g script bs cs ts.
Proof.
  intros EO.
  assert (ST : forall g, (5 * List.length ts <= g)%nat -> parse_switch g script bs cs ts = parse_switch (5 * List.length ts) script bs cs ts).
  { intros g Hg. induction Hg as [|m Hm IH]; [reflexivity|]. rewrite <- IH.
    destruct (FuelOk.sts_all autovars switches env_errors parse_format consts parse_format_advs parse_format_lt m) as (_ & _ & _ & _ & _ & _ & I & _).
    apply I; assumption. }
  intros f g Hf Hg. rewrite (ST f Hf), (ST g Hg). reflexivity.
Qed.

Definition good_stream (N : nat) (ts : toks) : Prop := eof_ended ts /\ (List.length ts <= N)%nat.
Lemma good_stream_suffix N a b : b <> [] -> good_stream N (a ++ b) -> good_stream N b.
Proof. intros NB [EO LE]. split; [eapply eof_ended_app_r; eassumption|]. rewrite app_length in LE. lia. Qed.

(* the fuel-free predicates give the premises of Theorem B, with F0 = the bound for the whole statement *)
Lemma switch_src_is_parses script bs cs ts pre operand oline imph its rb rest :
  eof_ended ts ->
  switch_src autovars consts (body_is script bs cs) (cmd_is script) ts pre operand oline imph its rb rest ->
  switch_src autovars consts (body_parses autovars switches env_errors parse_format consts (5 * List.length ts + 3) script bs cs)
             (cmd_parses switches env_errors parse_format consts (5 * List.length ts + 3) script) ts pre operand oline imph its rb rest.
Proof.
  intros EO (lb & cts & HD & NR & CS).
  assert (SUF : exists p, ts = p ++ cts) by (destruct HD; [eexists (_ :: _ :: _ :: _ :: _ ++ [_; _; _])|eexists (_ :: _ :: _ ++ [_; _; _])]; cbn [app]; rewrite <- app_assoc; reflexivity).
  destruct SUF as [p EP].
  assert (NC : cts <> []) by (rewrite (cases_src_tokens _ _ _ _ CS); intros X; apply app_eq_nil in X; destruct X as [_ X]; discriminate X).
  exists lb, cts. split; [|split; [exact NR|]].
  - destruct HD as [sw lp vr lp2 seg rp x lb cts L1 L2 L3 OT L4 L5|sw lp ctoks last rp lb cts av c impc v L1 NV HA HC CV L4 L5].
    + apply HD_var; assumption.
    + eapply HD_auto; try eassumption. intros g Hg. unfold cmd_is in HC. rewrite <- HC. apply cmd_stable.
      * apply (eof_ended_app_r [sw; lp]); [destruct ctoks; discriminate|exact EO].
      * cbn [List.length] in Hg. lia.
  - eapply (cases_src_mono_suffix _ _ (good_stream (List.length ts))); [apply good_stream_suffix| |exact CS|discriminate|].
    + intros s b i s' [ES LS] HB g Hg. unfold body_is in HB. rewrite <- HB. apply psb_stable; [exact ES|lia].
    + apply (good_stream_suffix _ p); [exact NC|]. rewrite <- EP. split; [exact EO|lia].
Qed.

(* THEOREM D *)
Theorem parse_switch_exact f script bs cs ts ss imp ts' :
  eof_ended ts -> (5 * List.length ts <= f)%nat ->
  (parse_switch f script bs cs ts = Ok (ss, imp, ts') <->
   exists pre operand oline imph its rb rest,
     switch_src autovars consts (body_is script (List.length ts :: bs) cs) (cmd_is script) ts pre operand oline imph its rb rest /\
     its <> [] /\ NoDup (case_values consts its) /\ (ndefaults its <= 1)%nat /\
     ss = switch_stmts consts (List.length ts) pre operand oline its /\
     imp = impadd imph (items_imp its) /\ ts' = rb :: rest).
Proof.
  intros EO Hf. split.
  - intros H.
    destruct (parse_switch_sound_gen autovars switches env_errors parse_format parse_format_advs consts 5 f script bs cs ts ss imp ts' H EO Hf)
      as (pre & operand & oline & imph & its & rb & rest & (lb & cts & HD & NR & CS) & E1 & _ & E2 & E3 & NE & OK).
    apply items_ok_top in OK. destruct OK as [ND ONE].
    exists pre, operand, oline, imph, its, rb, rest.
    split; [|repeat (split; [assumption|]); assumption].
    assert (SUF : exists p, ts = p ++ cts) by (destruct HD; [eexists (_ :: _ :: _ :: _ :: _ ++ [_; _; _])|eexists (_ :: _ :: _ ++ [_; _; _])]; cbn [app]; rewrite <- app_assoc; reflexivity).
    destruct SUF as [p EP].
    assert (NC : cts <> []) by (rewrite (cases_src_tokens _ _ _ _ CS); intros X; apply app_eq_nil in X; destruct X as [_ X]; discriminate X).
    exists lb, cts. split; [|split; [exact NR|]].
    + destruct HD as [sw lp vr lp2 seg rp x lb cts L1 L2 L3 OT L4 L5|sw lp ctoks last rp lb cts av c impc v L1 NV HA (fc & HB & HC) CV L4 L5].
      * apply HD_var; assumption.
      * eapply HD_auto; try eassumption. unfold cmd_is. rewrite <- HC. symmetry. apply cmd_stable; [|lia].
        apply (eof_ended_app_r [sw; lp]); [destruct ctoks; discriminate|exact EO].
    + eapply (cases_src_mono_suffix _ _ eof_ended); [intros a b NB; apply eof_ended_app_r; exact NB| |exact CS|discriminate|].
      * intros s b i s' ES (fb & HB & HP). unfold body_is. rewrite <- HP. symmetry. apply psb_stable; [exact ES|lia].
      * rewrite EP in EO. eapply eof_ended_app_r; eassumption.
  - intros (pre & operand & oline & imph & its & rb & rest & SRC & NE & ND & ONE & -> & -> & ->).
    set (F0 := (5 * List.length ts + 3)%nat).
    rewrite (parse_switch_fuel_independent script bs cs ts EO f (S (F0 + List.length ts)) Hf ltac:(unfold F0; lia)).
    apply (parse_switch_complete autovars switches env_errors parse_format consts F0); [|exact NE|apply items_ok_top; split; assumption|lia].
    apply switch_src_is_parses; assumption.
Qed.
End EXACT.

(* ---------- 'break' / 'continue' written in a case body ---------- *)
(* the bodies of a switch are parsed under the break stack  tag-of-this-switch :: bs  and the unchanged continue stack cs
   (switch_src above: [body_parsed script (List.length ts :: bs) cs]); hence a 'break' written in a case body (outside any loop
   of the body) is annotated with the tag of this switch, and a 'continue' with the innermost enclosing loop *)
Lemma case_body_break_targets_the_switch autovars switches ee pf consts f script tg bs cs ts :
  ttype (cur ts) = BREAK ->
  parse_stmt autovars switches ee pf consts (S f) script (tg :: bs) cs ts = Ok ([SBreak tg], imp0, ts).
Proof. apply break_inside_accepted. Qed.
Lemma case_body_continue_targets_the_loop autovars switches ee pf consts f script tg bs loop cs ts :
  ttype (cur ts) = CONTINUE -> peekis RBRACE ts = true ->
  parse_stmt autovars switches ee pf consts (S f) script (tg :: bs) (loop :: cs) ts = Ok ([SContinue loop], imp0, ts).
Proof. apply continue_last_accepted. Qed.

(* the statement parser hands a statement that starts with 'switch' to the switch parser, whatever the context (stacks bs / cs):
   all theorems about parse_switch are theorems about switch statements in any block *)
Lemma switch_statement_dispatch autovars switches ee pf consts f script bs cs ts :
  ttype (cur ts) = SWITCH ->
  parse_stmt autovars switches ee pf consts (S f) script bs cs ts = parse_switch autovars switches ee pf consts f script bs cs ts.
Proof. intros H. rewrite parse_stmt_unfold, H. reflexivity. Qed.

(* ================= the same for the compiler's format() operator: no hypothesis left ================= *)
Section REAL.
Variable autovars : list (text * autovar).
Variable switches : list (text * text).
Variable ee : bool.
Variable fc : Format.fontcfg.
Variable cli_font : text.
Variable cli_maxlen : Z.
Variable consts : list (text * text).
Notation pf := (Format.parse_format fc cli_font cli_maxlen ee).
Notation parse_switch := (parse_switch autovars switches ee pf consts).

Theorem parse_switch_sound_real f script bs cs ts ss imp ts' :
  parse_switch f script bs cs ts = Ok (ss, imp, ts') -> eof_ended ts ->
  exists pre operand oline imph its rb rest,
    switch_src autovars consts (body_parsed autovars switches ee pf consts script (List.length ts :: bs) cs)
               (cmd_parsed switches ee pf consts script) ts pre operand oline imph its rb rest /\
    ts' = rb :: rest /\ eof_ended rest /\
    ss = switch_stmts consts (List.length ts) pre operand oline its /\
    imp = impadd imph (items_imp its) /\
    its <> [] /\ items_ok consts [] false its.
Proof. apply parse_switch_sound. apply ProgSrc.parse_format_advs. Qed.

Theorem parse_switch_exact_real f script bs cs ts ss imp ts' :
  eof_ended ts -> (5 * List.length ts <= f)%nat ->
  (parse_switch f script bs cs ts = Ok (ss, imp, ts') <->
   exists pre operand oline imph its rb rest,
     switch_src autovars consts (body_is autovars switches ee pf consts script (List.length ts :: bs) cs)
                (cmd_is switches ee pf consts script) ts pre operand oline imph its rb rest /\
     its <> [] /\ NoDup (case_values consts its) /\ (ndefaults its <= 1)%nat /\
     ss = switch_stmts consts (List.length ts) pre operand oline its /\
     imp = impadd imph (items_imp its) /\ ts' = rb :: rest).
Proof. apply parse_switch_exact; [apply ProgSrc.parse_format_advs|apply FuelOk.parse_format_lt]. Qed.

Theorem parsed_switch_runs_the_written_body_real St case_matches exec flag_set trainer_beaten cmp_var cmp_var_value find_label
  f script bs cs ts ss imp ts' :
  parse_switch f script bs cs ts = Ok (ss, imp, ts') -> eof_ended ts ->
  exists pre operand oline imph its rb rest,
    switch_src autovars consts (body_parsed autovars switches ee pf consts script (List.length ts :: bs) cs)
               (cmd_parsed switches ee pf consts script) ts pre operand oline imph its rb rest /\
    ts' = rb :: rest /\
    ss = (match pre with Some c => [SCmd c] | None => [] end) ++
         [SSwitch (List.length ts) operand oline (map (item_case consts) its)] /\
    its <> [] /\ NoDup (case_values consts its) /\ (ndefaults its <= 1)%nat /\
    runs_written consts St exec flag_set trainer_beaten cmp_var cmp_var_value case_matches find_label (List.length ts) operand oline its.
Proof. apply parsed_switch_runs_the_written_body. apply ProgSrc.parse_format_advs. Qed.
End REAL.

(* ================= examples: the hypotheses are satisfiable; the model run on concrete sources ================= *)
Module SwitchExamples.
Definition nf (_ : N) : bool := false.
Definition lex0 (s : string) : toks := lex nf nf nf (t s).
Definition pf0 : toks -> res (token * text * text * toks) := fun _ => Panic.
Lemma pf0_advs : forall ts tk v sty ts', pf0 ts = Ok (tk, v, sty, ts') -> forall a, advs a ts -> advs a ts'.
Proof. discriminate. Qed.
Lemma pf0_lt : forall ts tk v sty ts', pf0 ts = Ok (tk, v, sty, ts') -> eof_ended ts -> (List.length ts' < List.length ts)%nat.
Proof. discriminate. Qed.
Definition consts0 : list (text * text) := [(t "TWO", t "2")].
Definition stmt_name (s : stmt) : text :=
  match s with SCmd c => cname c | SBreak _ => t "break" | SSwitch _ _ _ _ => t "switch" | _ => t "?" end.

(* a switch with a shared body (case 1 shares the body of case TWO), a constant as value, a break, default in the middle, two
   trailing cases without body; the statement is followed by another one *)
Definition ex_src : string :=
  "switch (var(VAR_X)) { case 1: case TWO: foo() break default: bar() case 3: case 4: } end }".
Definition ex_ts : toks := lex0 ex_src.

Example ex_accepted :
  eof_ended ex_ts /\
  exists tg ol l1 l2 l3 l4 imp rest,
    parse_switch [] [] false pf0 consts0 (5 * List.length ex_ts) (t "S") [] [] ex_ts =
      Ok ([SSwitch tg (t "VAR_X") ol
             [(false, t "1", l1, []); (false, t "2", l2, [SCmd {| cname := t "foo"; cargs := []; ctok := nth 14 ex_ts eof0; Ast.cid := 19 |}; SBreak tg]);
              (true, [], 0%Z, [SCmd {| cname := t "bar"; cargs := []; ctok := nth 20 ex_ts eof0; Ast.cid := 13 |}]);
              (false, t "3", l3, []); (false, t "4", l4, [])]], imp, rest) /\
    tg = List.length ex_ts /\ ttype (cur rest) = RBRACE /\ tlit (pk 1 rest) = t "end".
Proof.
  split; [apply ProgSrc.lex_eof|]. eexists _, _, _, _, _, _, _, _. split; [vm_compute; reflexivity|].
  split; [vm_compute; reflexivity|]. split; vm_compute; reflexivity.
Qed.

(* which body runs, computed with the source semantics' select_case on the parsed cases, for the values 1, 2, 3, 4, 7 *)
Example ex_selection :
  match parse_switch [] [] false pf0 consts0 (5 * List.length ex_ts) (t "S") [] [] ex_ts with
  | Ok ([SSwitch _ _ _ cases], _, _) =>
      map (fun v => map stmt_name (select_case cases (text_eqb (t v)))) ["1"; "2"; "3"; "4"; "7"]%string
  | _ => []
  end = [[t "foo"; t "break"]; [t "foo"; t "break"]; []; []; [t "bar"]].
Proof. vm_compute. reflexivity. Qed.

(* the premises of Theorems B and C' hold for this source (with F0 = 5 * number of tokens + 3), by Theorem D and
   switch_src_is_parses: the statement is a switch of the grammar with five items *)
Opaque ex_ts.
Example ex_grammar :
  exists pre operand oline imph its rb rest,
    switch_src [] consts0 (body_parses [] [] false pf0 consts0 (5 * List.length ex_ts + 3) (t "S") [List.length ex_ts] [])
               (cmd_parses [] false pf0 consts0 (5 * List.length ex_ts + 3) (t "S")) ex_ts pre operand oline imph its rb rest /\
    its <> [] /\ NoDup (case_values consts0 its) /\ (ndefaults its <= 1)%nat /\
    pre = None /\ operand = t "VAR_X" /\ map (item_value consts0) its = [t "1"; t "2"; []; t "3"; t "4"] /\
    map item_default its = [false; false; true; false; false].
Proof.
  destruct ex_accepted as (EO & tg & ol & l1 & l2 & l3 & l4 & imp & rest & H & _).
  assert (L : (5 * List.length ex_ts <= 5 * List.length ex_ts)%nat) by apply le_n.
  match type of H with _ = Ok (?ss, ?i, ?r) =>
    pose proof (parse_switch_exact [] [] false pf0 consts0 pf0_advs pf0_lt (5 * List.length ex_ts) (t "S") [] [] ex_ts ss i r EO L) as X end.
  apply (proj1 X) in H. clear X.
  destruct H as (pre & operand & oline & imph & its & rb & rest' & SRC & NE & ND & ONE & ESS & _ & _).
  exists pre, operand, oline, imph, its, rb, rest'.
  split; [apply (switch_src_is_parses [] [] false pf0 consts0 pf0_advs pf0_lt); assumption|].
  split; [exact NE|]. split; [exact ND|]. split; [exact ONE|].
  unfold switch_stmts in ESS. destruct pre as [c|]; [discriminate ESS|]. cbn [app] in ESS. injection ESS as _ EOP _ EC.
  split; [reflexivity|]. split; [symmetry; exact EOP|].
  assert (EV : map (sc_val) (map (item_case consts0) its) = map (item_value consts0) its).
  { rewrite map_map. apply map_ext. intros it. apply item_case_val. }
  assert (ED : map (sc_def) (map (item_case consts0) its) = map item_default its).
  { rewrite map_map. apply map_ext. intros it. apply item_case_def. }
  rewrite <- EV, <- ED, <- EC. split; reflexivity.
Qed.
Transparent ex_ts.

(* the model's answers on ill-formed switches, from source text: a second default (at the second 'default'), a repeated value
   - also when written through a constant - (at that 'case'), no case at all (at 'switch') *)
Example ex_two_defaults :
  let ts := lex0 "switch (var(VAR_X)) { default: foo() case 1: default: bar() }" in
  parse_switch [] [] false pf0 consts0 (5 * List.length ts) (t "S") [] [] ts =
    err_tok (nth 16 ts eof0) "multiple `default` cases found in switch statement" /\ ttype (nth 16 ts eof0) = DEFAULT.
Proof. cbv zeta. split; vm_compute; reflexivity. Qed.
Example ex_repeated_value :
  let ts := lex0 "switch (var(VAR_X)) { case 2: foo() case 1: case TWO: bar() }" in
  parse_switch [] [] false pf0 consts0 (5 * List.length ts) (t "S") [] [] ts =
    err_range (nth 17 ts eof0) (nth 19 ts eof0) "duplicate switch cases detected" /\
  ttype (nth 17 ts eof0) = CASE /\ tlit (nth 18 ts eof0) = t "TWO".
Proof. cbv zeta. split; [|split]; vm_compute; reflexivity. Qed.
Example ex_no_cases :
  let ts := lex0 "switch (var(VAR_X)) { } end" in
  parse_switch [] [] false pf0 consts0 (5 * List.length ts) (t "S") [] [] ts =
    err_range (nth 0 ts eof0) (nth 8 ts eof0) "switch statement has no cases or default case" /\ ttype (nth 8 ts eof0) = RBRACE.
Proof. cbv zeta. split; vm_compute; reflexivity. Qed.

(* two behaviours of the model that a reader of the grammar above should know (parser.go behaves the same):
   - the token after the ')' that closes var( ... is skipped without being looked at (constructor HD_var, token x);
   - 'case' immediately followed by ':' is accepted, with the empty text as value *)
Example ex_unchecked_token :
  let ts := lex0 "switch (var(VAR_X) end { case 1: foo() } }" in
  exists tg ol cases imp rest,
    parse_switch [] [] false pf0 consts0 (5 * List.length ts) (t "S") [] [] ts = Ok ([SSwitch tg (t "VAR_X") ol cases], imp, rest) /\
    tlit (nth 6 ts eof0) = t "end".
Proof. cbv zeta. eexists _, _, _, _, _. split; vm_compute; reflexivity. Qed.
Example ex_empty_value :
  let ts := lex0 "switch (var(VAR_X)) { case : foo() } }" in
  exists tg ol l b imp rest,
    parse_switch [] [] false pf0 consts0 (5 * List.length ts) (t "S") [] [] ts = Ok ([SSwitch tg (t "VAR_X") ol [(false, [], l, b)]], imp, rest).
Proof. cbv zeta. eexists _, _, _, _, _, _. vm_compute. reflexivity. Qed.

(* the premises of the rejection theorems hold on a hand-written token list:
     switch ( var ( X ) ) { case 1 : default : default : } EOF      (second default)
     switch ( var ( X ) ) { case 1 : default : case 1 : } EOF       (repeated value) *)
Definition tkl (ty : toktype) (lit : string) : token :=
  {| ttype := ty; tlit := t lit; tline := 1; tsb := 0; tsu := 0; teline := 1; teb := 0; teu := 0 |}.
Definition ex_tail (bad : list token) : toks := bad ++ [tkl COLON ":"; tkl RBRACE "}"; tkl EOF ""].
Definition ex_cts (bad : list token) : toks :=
  [tkl CASE "case"; tkl INT "1"; tkl COLON ":"; tkl DEFAULT "default"; tkl COLON ":"] ++ ex_tail bad.
Definition ex_bad (bad : list token) : toks :=
  [tkl SWITCH "switch"; tkl LPAREN "("; tkl VAR "var"; tkl LPAREN "("; tkl IDENT "X"; tkl RPAREN ")"; tkl RPAREN ")"; tkl LBRACE "{"] ++ ex_cts bad.
Definition ex_its : list sitem :=
  [ICase (tkl CASE "case") [tkl INT "1"] (tkl COLON ":") [] [] imp0; IDefault (tkl DEFAULT "default") (tkl COLON ":") [] [] imp0].

Lemma ex_header bad : forall av sw ee pf F0,
  header_src av [] (cmd_parses sw ee pf [] F0 (t "S")) (ex_bad bad) None (t "X") 1%Z imp0 (tkl LBRACE "{") (ex_cts bad).
Proof.
  intros. apply (HD_var av [] _ (tkl SWITCH "switch") (tkl LPAREN "(") (tkl VAR "var") (tkl LPAREN "(") [tkl IDENT "X"] (tkl RPAREN ")")
                  (tkl RPAREN ")") (tkl LBRACE "{") (ex_cts bad)); try reflexivity.
  constructor; [split; discriminate|constructor].
Qed.
Lemma ex_prefix x more : ttype x = CASE \/ ttype x = DEFAULT -> forall av sw ee pf script bs cs brace,
  cases_src (body_parses av sw ee pf [] 1 script bs cs brace) (ex_cts (x :: more)) ex_its (ex_tail (x :: more)).
Proof.
  intros TX av sw ee pf script bs cs brace. unfold ex_cts, ex_its.
  assert (STOP : forall ts, case_end (cur ts) = true -> body_parses av sw ee pf [] 1 script bs cs brace ([] ++ ts) [] imp0 ts).
  { intros ts CE f Hf. destruct f as [|f]; [lia|]. rewrite parse_switch_block_unfold. cbn [app].
    unfold case_end in CE. unfold curis. rewrite CE. reflexivity. }
  apply (CS_case _ (tkl CASE "case") [tkl INT "1"] (tkl COLON ":") [] [] imp0); try reflexivity.
  - split; [constructor; [discriminate|constructor]|constructor].
  - apply STOP. reflexivity.
  - apply (CS_default _ (tkl DEFAULT "default") (tkl COLON ":") [] [] imp0 (ex_tail (x :: more))); try reflexivity; [|apply CS_nil].
    apply STOP. unfold ex_tail. cbn [app cur hd]. unfold case_end.
    destruct TX as [T|T]; rewrite (is_true _ _ T); [rewrite orb_true_r; reflexivity|apply orb_true_r].
Qed.

Example ex_second_default_rejected av sw ee pf f : (1 + 17 < f)%nat ->
  parse_switch av sw ee pf [] f (t "S") [] [] (ex_bad [tkl DEFAULT "default"]) =
    err_tok (tkl DEFAULT "default") "multiple `default` cases found in switch statement".
Proof.
  intros Hf.
  apply (switch_second_default_rejected av sw ee pf [] 1 (t "S") [] [] _ None (t "X") 1%Z imp0 (tkl LBRACE "{") (ex_cts [tkl DEFAULT "default"])
           ex_its (tkl DEFAULT "default") [tkl COLON ":"; tkl RBRACE "}"; tkl EOF ""]).
  - apply ex_header.
  - apply (ex_prefix (tkl DEFAULT "default") []). right. reflexivity.
  - reflexivity.
  - apply items_ok_top. split; [repeat constructor; intros []|cbn; lia].
  - reflexivity.
  - exact Hf.
Qed.
Example ex_repeated_value_rejected av sw ee pf f : (1 + 18 < f)%nat ->
  parse_switch av sw ee pf [] f (t "S") [] [] (ex_bad [tkl CASE "case"; tkl INT "1"]) =
    err_range (tkl CASE "case") (tkl COLON ":") "duplicate switch cases detected".
Proof.
  intros Hf.
  apply (switch_repeated_value_rejected av sw ee pf [] 1 (t "S") [] [] _ None (t "X") 1%Z imp0 (tkl LBRACE "{") (ex_cts [tkl CASE "case"; tkl INT "1"])
           ex_its (tkl CASE "case") [tkl INT "1"] (tkl COLON ":") [tkl RBRACE "}"; tkl EOF ""]).
  - apply ex_header.
  - apply (ex_prefix (tkl CASE "case") [tkl INT "1"]). left. reflexivity.
  - reflexivity.
  - split; [constructor; [discriminate|constructor]|constructor].
  - reflexivity.
  - apply items_ok_top. split; [repeat constructor; intros []|cbn; lia].
  - left. reflexivity.
  - exact Hf.
Qed.
End SwitchExamples.
