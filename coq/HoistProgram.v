(* C06, whole programs: inline texts and moves() arguments of commands become labels that denote exactly that content.

   CmdArgs.v (one command: inline_arguments_become_labels, patching_keeps_command), Hoisting.v (the tables: numbering, sharing,
   injectivity, defined once, name clashes) and TextLex.v / Props1.v (emission of a text / a movement) are composed here into
   statements about EVERY command of EVERY body of EVERY program [parse_program] accepts.

   Vocabulary
     cmds b                 all commands of a statement list, at any depth: command statements, and the AutoVar commands in front
                            of the leaves of if / elif / while / do-while conditions ([lpre]); cmd_at_cmds: every site of
                            AutoVarProgram.v (block_in / cond_in / leaves) is in this list; cmds_pstmt: patching maps over it
     named_cmds (tops p)    the pairs (script, c): c a command of a body of the program, script the name of the script statement
                            or the generated name of the inline map script that owns the body (body_named: every body of
                            ProgWf.bodies_of is covered)
     orig script c0 impc    c0 and the inline data impc (idT: inline STRING / TYPE STRING / format(), idM: moves()) are what the
                            model's [command_stmt] returned at a position of the program's token stream, for owner [script]
     tlabel h it l / mlabel h im l    the hoisting tables h hold label l for the inline text it (key: content after terminator /
                            format() processing, string type) / for the moves() im (key of the expanded steps)
     argT k / argM k        the inline items recorded for argument position k

   The invariant (sections 2-4).  [span script lo hi cs I]: the commands cs and the inline data I of a parsed construct lie
   between the stream lengths lo and hi, every command has its origin, and the entries of I addressed to its id ([cid] = number
   of remaining tokens) are exactly its own.  It is carried through command_stmt, var_or_autovar, leaf_expr, bool_expr /
   right_side, the eleven functions of the statement parser (pi_all), ms_table / ms_entries / parse_mapscripts / parse_script,
   for ALL token streams (the streams where [adv] no longer advances are handled by [sep]); own_hoisted turns it, through
   add_implicit / apply_patches, into [hoisted h script c]; parse_tops_hoisted carries that through parse_tops (the tables
   only grow: add_implicit_mono).

   MAIN THEOREMS (sections 4-8; the versions on source texts are in section 8)
     program_commands_hoisted        every (script, c) of named_cmds (tops p) is hoisted w.r.t. the final tables; any mode
     program_inline_arguments        (MAIN 4) every command c of every body is the parsed command c0 with the same name, token, id,
                                     number of arguments; an argument without inline item is unchanged; with inline texts (the last
                                     wins) and no moves() it is the label of that text; with moves() it is the label of the (last)
                                     moves(); every inline item (also an overwritten one) is addressed to this command, to an
                                     existing argument, recorded with the owner's name, its content is  terminate v type  for some v
                                     (the literal / the format() result), and it has a label in the final tables
     program_command_sites           the sites of AutoVarProgram.v are covered by named_cmds
     inline_text_label               (MAIN 2, ee = true) the label of an inline text: (1)(2) names exactly one text of the program,
                                     local, value = the written content after terminator / format() processing, type = the written
                                     string type; (3) the emitted text section contains emit_text of it and defines the label on
                                     no other line; (4) same label iff same (content, type); (5) it is <script>_Text_<n> with
                                     <script> recorded with the FIRST inline text of the file with that (content, type) and
                                     n = number of earlier first appearances of that script
     inline_moves_label              (MAIN 3) the same for moves(): exactly one movement statement, local, same key (same step
                                     literals when no literal contains ':'), its block is emitted, sharing iff same key, name
     inline_text_argument_defined, inline_moves_argument_defined   (MAIN 5) MAIN 4 and MAIN 2 / 3 composed, per argument
     inline_arguments_share_labels   (MAIN 6) two arguments anywhere in the file are the same label iff same (content, type) / key
     inline_argument_names           (MAIN 7) the argument IS text_label / mov_label of the first appearance in source order
     compiled_commands_are_patched_commands, compiled_inline_text_argument, compiled_inline_moves_argument,
     compiled_inline_arguments_share_labels, compiled_inline_argument_names
                                     the same for  lex hl hd hs s  and  Format.parse_format fc cli_font cli_maxlen true
   A clash of a generated name with a user-defined text / movement name is a compile error: Hoisting.text_name_clash_is_error,
   Hoisting.mov_name_clash_is_error (already in Properties_C06.v); here it appears as uniqueness of the definition.

   NOT PROVED / LIMITS
     (a) "defined exactly once in emit_program_instrs" is FALSE for the whole output: Examples.label_defined_twice_in_output
         (a script named S_Text_0 is accepted; the output defines S_Text_0 twice).  Proved instead: exactly one text / movement
         statement of the program has the name, its block is in the output, and the text section has no other definition.
     (b) (5) names the script recorded with the first inline item of the file with that content ([imps] = the inline data of the
         script / mapscripts statements in source order, Hoisting.parsed_imp); that every item of [imps] belongs to a command
         of the final program (so that "recorded script" = "owner of a body that uses the content") is proved for the items
         of the commands (program_inline_arguments: itScript it = script) but the converse inclusion (no recorded item
         without command) is not proved.
     (c) c0 / impc are given by the model's own command parser at a position of the program ([orig]); their reading on the
         source tokens (which pieces of the argument list are inline) is CmdArgs.command_with_arguments, not repeated here.
   OBSERVED IN THE MODEL (Examples.ex_commands / ex_texts): several inline texts in one argument - the last wins, the others are
   defined but never referenced, plain pieces of that argument are dropped; a moves() wins over any inline text of the same
   argument whatever the order. *)
From Coq Require Import List String Ascii ZArith NArith Lia Bool Permutation.
From Pory Require Import Lexer Ast Emitter Consume CmdArgs AutoVarParse ProgWf Hoisting.
From Pory Require AutoVarProgram ProgSrc Format TextLex LabelSim.
From Pory Require Import Parser.
Import ListNotations.
Open Scope list_scope.

(* ====================================================================================================== *)
(*  1. the commands of a statement list (any depth, also the AutoVar commands in front of conditions)       *)
(* ====================================================================================================== *)
Definition opt_cmd (o : option cmd) : list cmd := match o with Some c => [c] | None => [] end.
Fixpoint bexp_cmds (e : bexp) : list cmd :=
  match e with BLeaf l => opt_cmd (lpre l) | BBin _ a b => bexp_cmds a ++ bexp_cmds b end.
Definition obexp_cmds (o : option bexp) : list cmd := match o with Some e => bexp_cmds e | None => [] end.

Fixpoint stmt_cmds (s : stmt) : list cmd :=
  match s with
  | SCmd c => [c]
  | SIf conds els =>
      flat_map (fun cb : bexp * list stmt => bexp_cmds (fst cb) ++ flat_map stmt_cmds (snd cb)) conds ++
      match els with Some b => flat_map stmt_cmds b | None => [] end
  | SWhile _ c b => obexp_cmds c ++ flat_map stmt_cmds b
  | SDoWhile _ b e => flat_map stmt_cmds b ++ bexp_cmds e
  | SSwitch _ _ _ cases => flat_map (fun c : Parser.scase => flat_map stmt_cmds (snd c)) cases
  | _ => []
  end.
Definition cmds (b : list stmt) : list cmd := flat_map stmt_cmds b.
Definition conds_cmds (l : list (bexp * list stmt)) : list cmd :=
  flat_map (fun cb : bexp * list stmt => bexp_cmds (fst cb) ++ cmds (snd cb)) l.
Definition cases_cmds (l : list Parser.scase) : list cmd := flat_map (fun c : Parser.scase => cmds (snd c)) l.
Definition ocmds (o : option (list stmt)) : list cmd := match o with Some b => cmds b | None => [] end.

Lemma cmds_app a b : cmds (a ++ b) = cmds a ++ cmds b.
Proof. apply flat_map_app. Qed.
Lemma conds_cmds_app a b : conds_cmds (a ++ b) = conds_cmds a ++ conds_cmds b.
Proof. apply flat_map_app. Qed.
Lemma cases_cmds_app a b : cases_cmds (a ++ b) = cases_cmds a ++ cases_cmds b.
Proof. apply flat_map_app. Qed.
Lemma stmt_cmds_if conds els : stmt_cmds (SIf conds els) = conds_cmds conds ++ ocmds els.
Proof. reflexivity. Qed.
Lemma stmt_cmds_switch tg o ol cases : stmt_cmds (SSwitch tg o ol cases) = cases_cmds cases.
Proof. reflexivity. Qed.
Lemma cmds_cons s r : cmds (s :: r) = stmt_cmds s ++ cmds r.
Proof. reflexivity. Qed.

Lemma bexp_cmds_leaves e : bexp_cmds e = flat_map (fun l => opt_cmd (lpre l)) (leaves e).
Proof. induction e as [l|o a IHa b IHb]; cbn [bexp_cmds leaves flat_map]; [now rewrite app_nil_r|]. now rewrite flat_map_app, IHa, IHb. Qed.

(* the sites of AutoVarProgram.v: a command statement of a block at any depth, or the command in front of a leaf of a
   condition at any depth *)
Definition cmd_at (c : cmd) (b : list stmt) : Prop :=
  (exists b', AutoVarProgram.block_in b' b /\ In (SCmd c) b') \/
  (exists e l, AutoVarProgram.cond_in e b /\ In l (leaves e) /\ lpre l = Some c).

Lemma in_cmds s b c : In s b -> In c (stmt_cmds s) -> In c (cmds b).
Proof. intros H1 H2. unfold cmds. apply in_flat_map. eauto. Qed.

Lemma child_cmds s b1 c : AutoVarProgram.child s b1 -> In c (cmds b1) -> In c (stmt_cmds s).
Proof.
  intros H I. destruct H as [conds els e b Hin|conds b|tg c0 b|tg b e|tg v ol cases d cv l b Hin].
  - rewrite stmt_cmds_if. apply in_or_app. left. unfold conds_cmds. apply in_flat_map. exists (e, b). split; [exact Hin|].
    apply in_or_app. now right.
  - rewrite stmt_cmds_if. apply in_or_app. now right.
  - cbn [stmt_cmds]. apply in_or_app. now right.
  - cbn [stmt_cmds]. apply in_or_app. now left.
  - rewrite stmt_cmds_switch. unfold cases_cmds. apply in_flat_map. exists (d, cv, l, b). split; [exact Hin|exact I].
Qed.

Lemma block_in_cmds b' b c : AutoVarProgram.block_in b' b -> In c (cmds b') -> In c (cmds b).
Proof.
  induction 1 as [|b' b s b1 Hs Hc _ IH]; [auto|]. intros I. eapply in_cmds; [exact Hs|]. eapply child_cmds; [exact Hc|auto].
Qed.

Lemma cond_of_cmds s e c : AutoVarProgram.cond_of s e -> In c (bexp_cmds e) -> In c (stmt_cmds s).
Proof.
  intros H I. destruct H as [conds els e b Hin|tg e b|tg b e].
  - rewrite stmt_cmds_if. apply in_or_app. left. unfold conds_cmds. apply in_flat_map. exists (e, b). split; [exact Hin|].
    apply in_or_app. now left.
  - cbn [stmt_cmds obexp_cmds]. apply in_or_app. now left.
  - cbn [stmt_cmds]. apply in_or_app. now right.
Qed.

(* every site is found in the flat list [cmds] *)
Theorem cmd_at_cmds c b : cmd_at c b -> In c (cmds b).
Proof.
  intros [(b' & HB & HI)|(e & l & (b' & s & HB & HS & HC) & HL & HP)].
  - eapply block_in_cmds; [exact HB|]. eapply in_cmds; [exact HI|]. now left.
  - eapply block_in_cmds; [exact HB|]. eapply in_cmds; [exact HS|]. eapply cond_of_cmds; [exact HC|].
    rewrite bexp_cmds_leaves. apply in_flat_map. exists l. split; [exact HL|]. rewrite HP. now left.
Qed.

(* patching goes through the list *)
Lemma bexp_cmds_pbexp ps e : bexp_cmds (pbexp ps e) = map (pcmd ps) (bexp_cmds e).
Proof.
  induction e as [l|o a IHa b IHb]; cbn [pbexp bexp_cmds].
  - destruct l as [k o li op v s pre]. cbn [pleaf lpre]. destruct pre; reflexivity.
  - now rewrite map_app, IHa, IHb.
Qed.

Lemma cmds_pstmt ps : forall b, cmds (map (pstmt ps) b) = map (pcmd ps) (cmds b).
Proof.
  apply (LabelSim.stmts_ind2 (fun s => stmt_cmds (pstmt ps s) = map (pcmd ps) (stmt_cmds s))
                             (fun b => cmds (map (pstmt ps) b) = map (pcmd ps) (cmds b))).
  - reflexivity.
  - intros s r Hs Hr. cbn [map]. rewrite !cmds_cons, map_app, Hs, Hr. reflexivity.
  - reflexivity.
  - reflexivity.
  - intros conds els HC HE. cbn [pstmt]. rewrite !stmt_cmds_if, map_app. f_equal.
    + induction HC as [|cb r Hcb _ IH]; [reflexivity|]. cbn [map conds_cmds flat_map fst snd] in *.
      rewrite map_app, map_app, bexp_cmds_pbexp. fold (cmds (map (pstmt ps) (snd cb))). rewrite Hcb. fold (cmds (snd cb)).
      f_equal. exact IH.
    + destruct els as [b|]; [exact HE|reflexivity].
  - intros tg c b Hb. cbn [pstmt stmt_cmds]. rewrite map_app. fold (cmds (map (pstmt ps) b)). rewrite Hb.
    destruct c as [e|]; cbn [obexp_cmds]; [rewrite bexp_cmds_pbexp|]; reflexivity.
  - intros tg b c Hb. cbn [pstmt stmt_cmds]. rewrite map_app. fold (cmds (map (pstmt ps) b)). rewrite Hb, bexp_cmds_pbexp. reflexivity.
  - reflexivity.
  - reflexivity.
  - intros tg o ol cases HC. cbn [pstmt]. rewrite !stmt_cmds_switch.
    induction HC as [|cb r Hcb _ IH]; [reflexivity|]. cbn [map cases_cmds flat_map fst snd] in *.
    rewrite map_app. unfold sc_body in Hcb. fold (cmds (map (pstmt ps) (snd cb))). rewrite Hcb. fold (cmds (snd cb)). f_equal. exact IH.
Qed.

(* ====================================================================================================== *)
(*  2. spans: where the commands and the inline data of a parsed construct lie in the token stream          *)
(* ====================================================================================================== *)
Definition cidT (n : nat) (it : imptext) : bool := Nat.eqb (itCid it) n.
Definition cidM (n : nat) (im : impmov) : bool := Nat.eqb (imCid im) n.

Lemma adv_len2 ts : (2 <= List.length ts -> List.length (adv ts) < List.length ts)%nat.
Proof. destruct ts as [|x [|y r]]; cbn; lia. Qed.

(* [sep lo n]: a stream of length n lies after the [adv] of a stream of length lo *)
Definition sep (lo n : nat) : Prop := (n <= lo /\ (2 <= lo -> n < lo))%nat.
Lemma sep_adv ts : sep (List.length ts) (List.length (adv ts)).
Proof. split; [apply adv_len|apply adv_len2]. Qed.
Lemma sep_le lo n n' : sep lo n -> (n' <= n)%nat -> sep lo n'.
Proof. unfold sep. lia. Qed.
Lemma sep_S n : sep (S n) n.
Proof. unfold sep. lia. Qed.

Ltac adv_lens :=
  repeat match goal with
  | |- context[adv ?x] =>
      lazymatch goal with _ : (List.length (adv x) <= List.length x)%nat |- _ => fail | _ => pose proof (adv_len x) end
  | _ : context[adv ?x] |- _ =>
      lazymatch goal with _ : (List.length (adv x) <= List.length x)%nat |- _ => fail | _ => pose proof (adv_len x) end
  end.

Lemma advs_single x b : advs [x] b -> b = [x].
Proof.
  intros H. remember [x] as a eqn:E. induction H as [|ts ts' H IH]; [reflexivity|]. subst ts. apply IH. reflexivity.
Qed.

Lemma is_lparen_not_rparen x : is LPAREN x = true -> is RPAREN x = true -> False.
Proof. unfold is, tt_eqb. destruct (toktype_eq_dec (ttype x) LPAREN), (toktype_eq_dec (ttype x) RPAREN); congruence. Qed.

Section SPAN.
Variable autovars : list (text * autovar).
Variable switches : list (text * text).
Variable ee : bool.
Variable parse_format : toks -> res (token * text * text * toks).
Hypothesis parse_format_advs : forall ts tk v sty ts', parse_format ts = Ok (tk, v, sty, ts') -> forall a, advs a ts -> advs a ts'.
(* the token stream of the whole program *)
Variable T : toks.

(* the raw command [c] is what the command parser returned at a position of the program, inside a body owned by [script];
   [impc] is the inline data it recorded *)
Definition orig (script : text) (c : cmd) (impc : impdata) : Prop :=
  exists consts f ts ts1, advs T ts /\ command_stmt switches ee parse_format consts f script ts = Ok (c, impc, ts1).

(* ... and among the inline data [I] (of the whole top-level statement) the entries addressed to [cid c] are exactly its own *)
Definition own (script : text) (I : impdata) (c : cmd) : Prop :=
  exists impc, orig script c impc /\
    filter (cidT (Ast.cid c)) (idT I) = idT impc /\ filter (cidM (Ast.cid c)) (idM I) = idM impc.

(* a list of commands, each with the name of the script that owns its body *)
Definition spanN (lo hi : nat) (l : list (text * cmd)) (I : impdata) : Prop :=
  (forall it, In it (idT I) -> lo + 2 <= itCid it <= hi)%nat /\
  (forall im, In im (idM I) -> lo + 2 <= imCid im <= hi)%nat /\
  (forall sc, In sc l -> (lo <= Ast.cid (snd sc) <= hi)%nat /\ own (fst sc) I (snd sc)).
Definition span (script : text) (lo hi : nat) (cs : list cmd) (I : impdata) : Prop := spanN lo hi (map (pair script) cs) I.

Lemma spanN_nil lo hi : spanN lo hi [] imp0.
Proof. split; [intros ? []|]. split; [intros ? []|intros ? []]. Qed.
Lemma span_nil script lo hi : span script lo hi [] imp0.
Proof. apply spanN_nil. Qed.

Lemma spanN_weaken lo hi l I lo' hi' :
  spanN lo hi l I -> (lo' <= lo)%nat -> (hi <= hi')%nat -> spanN lo' hi' l I.
Proof.
  intros (HT & HM & HC) L1 L2. split; [intros it Hit; specialize (HT it Hit); lia|].
  split; [intros im Him; specialize (HM im Him); lia|]. intros sc Hsc. destruct (HC sc Hsc) as [B O]. split; [lia|exact O].
Qed.
Lemma span_weaken script lo hi cs I lo' hi' :
  span script lo hi cs I -> (lo' <= lo)%nat -> (hi <= hi')%nat -> span script lo' hi' cs I.
Proof. apply spanN_weaken. Qed.

Lemma spanN_incl lo hi l l' I : spanN lo hi l I -> (forall x, In x l' -> In x l) -> spanN lo hi l' I.
Proof. intros (HT & HM & HC) Hi. split; [exact HT|]. split; [exact HM|]. intros sc Hsc. apply HC, Hi, Hsc. Qed.

Lemma filter_nil_iff {A} (p : A -> bool) l : (forall x, In x l -> p x = false) -> filter p l = [].
Proof. induction l as [|x l IH]; intros H; [reflexivity|]. cbn [filter]. rewrite (H x (or_introl eq_refl)). apply IH. intros y Hy. apply H. now right. Qed.

Lemma spanN_app lo1 hi1 a I1 lo2 hi2 b I2 :
  spanN lo1 hi1 a I1 -> spanN lo2 hi2 b I2 -> sep lo1 hi2 -> (lo2 <= lo1)%nat -> (hi2 <= hi1)%nat ->
  spanN lo2 hi1 (a ++ b) (impadd I1 I2).
Proof.
  intros (HT1 & HM1 & HC1) (HT2 & HM2 & HC2) [S1 S2] L1 L2. split; [|split].
  - cbn [impadd idT]. intros it Hit. apply in_app_or in Hit. destruct Hit as [Hit|Hit]; [specialize (HT1 it Hit)|specialize (HT2 it Hit)]; lia.
  - cbn [impadd idM]. intros im Him. apply in_app_or in Him. destruct Him as [Him|Him]; [specialize (HM1 im Him)|specialize (HM2 im Him)]; lia.
  - intros [s c] Hsc. cbn [fst snd]. apply in_app_or in Hsc. destruct Hsc as [Hsc|Hsc].
    + destruct (HC1 _ Hsc) as [B (impc & O & FT & FM)]. cbn [fst snd] in *. split; [lia|]. exists impc. split; [exact O|].
      cbn [impadd idT idM]. rewrite !filter_app, FT, FM.
      rewrite (filter_nil_iff (cidT (Ast.cid c)) (idT I2)), (filter_nil_iff (cidM (Ast.cid c)) (idM I2)); [now rewrite !app_nil_r| |].
      * intros im Him. specialize (HM2 im Him). unfold cidM. apply Nat.eqb_neq. lia.
      * intros it Hit. specialize (HT2 it Hit). unfold cidT. apply Nat.eqb_neq. lia.
    + destruct (HC2 _ Hsc) as [B (impc & O & FT & FM)]. cbn [fst snd] in *. split; [lia|]. exists impc. split; [exact O|].
      cbn [impadd idT idM]. rewrite !filter_app, FT, FM.
      rewrite (filter_nil_iff (cidT (Ast.cid c)) (idT I1)), (filter_nil_iff (cidM (Ast.cid c)) (idM I1)); [split; reflexivity| |].
      * intros im Him. specialize (HM1 im Him). unfold cidM. apply Nat.eqb_neq. lia.
      * intros it Hit. specialize (HT1 it Hit). unfold cidT. apply Nat.eqb_neq. lia.
Qed.
Lemma span_app script lo1 hi1 a I1 lo2 hi2 b I2 :
  span script lo1 hi1 a I1 -> span script lo2 hi2 b I2 -> sep lo1 hi2 -> (lo2 <= lo1)%nat -> (hi2 <= hi1)%nat ->
  span script lo2 hi1 (a ++ b) (impadd I1 I2).
Proof. unfold span. rewrite map_app. apply spanN_app. Qed.

(* what has been accumulated before a stream of length n *)
Definition preN (n HI : nat) (l : list (text * cmd)) (I : impdata) : Prop := exists lo, sep lo n /\ spanN lo HI l I.
Definition pre (script : text) (n HI : nat) (cs : list cmd) (I : impdata) : Prop := preN n HI (map (pair script) cs) I.
Lemma preN_nil n HI : preN n HI [] imp0.
Proof. exists (S n). split; [apply sep_S|apply spanN_nil]. Qed.
Lemma pre_nil script n HI : pre script n HI [] imp0.
Proof. apply preN_nil. Qed.
Lemma preN_done n HI l I n' : preN n HI l I -> (n' <= n)%nat -> spanN n' HI l I.
Proof. intros (lo & [S1 _] & H) L. eapply spanN_weaken; [exact H|lia|lia]. Qed.
Lemma pre_done script n HI cs I n' : pre script n HI cs I -> (n' <= n)%nat -> span script n' HI cs I.
Proof. apply preN_done. Qed.
Lemma preN_step n HI a I1 lo2 b I2 n' :
  preN n HI a I1 -> spanN lo2 n b I2 -> (lo2 <= n)%nat -> (n <= HI)%nat -> sep lo2 n' ->
  preN n' HI (a ++ b) (impadd I1 I2).
Proof. intros (lo & S1 & H1) H2 L1 L2 S2. exists lo2. split; [exact S2|]. eapply spanN_app; eauto. destruct S1. lia. Qed.
Lemma pre_step script n HI a I1 lo2 b I2 n' :
  pre script n HI a I1 -> span script lo2 n b I2 -> (lo2 <= n)%nat -> (n <= HI)%nat -> sep lo2 n' ->
  pre script n' HI (a ++ b) (impadd I1 I2).
Proof. unfold pre, span. rewrite map_app. apply preN_step. Qed.
Lemma preN_app n HI a I1 n' hi2 b I2 :
  preN n HI a I1 -> preN n' hi2 b I2 -> (hi2 <= n)%nat -> (n <= HI)%nat -> (n' <= n)%nat ->
  preN n' HI (a ++ b) (impadd I1 I2).
Proof.
  intros (lo1 & S1 & H1) (lo2 & S2 & H2) L1 L2 L3. exists (Nat.min lo1 lo2). split.
  - destruct (Nat.min_spec lo1 lo2) as [[_ ->]|[_ ->]]; [eapply sep_le; eassumption|exact S2].
  - eapply spanN_app; [exact H1|eapply spanN_weaken; [exact H2|apply Nat.le_min_r|apply Nat.le_refl]|eapply sep_le; eassumption|apply Nat.le_min_l|lia].
Qed.
Lemma preN_incl n HI l l' I : preN n HI l I -> (forall x, In x l' -> In x l) -> preN n HI l' I.
Proof. intros (lo & S & H) Hi. exists lo. split; [exact S|eapply spanN_incl; eassumption]. Qed.

Section WITHC.
Variable consts : list (text * text).
Notation command_args := (command_args switches ee parse_format consts).
Notation command_stmt := (command_stmt switches ee parse_format consts).
Notation var_or_autovar := (var_or_autovar autovars switches ee parse_format consts).
Notation leaf_expr := (leaf_expr autovars switches ee parse_format consts).
Notation bool_expr := (bool_expr autovars switches ee parse_format consts).
Notation right_side := (right_side autovars switches ee parse_format consts).

Lemma command_args_closed : forall f script cmdtok cidv ts depth parts args imp r i ts',
  command_args f script cmdtok cidv ts depth parts args imp = Ok (r, i, ts') -> curis RPAREN ts' = true.
Proof.
  induction f as [|f IH]; intros script cmdtok cidv ts depth parts args imp r i ts' H; [discriminate|].
  rewrite CmdArgs.command_args_unfold in H. cbv zeta in H.
  destruct (curis RPAREN ts && Nat.eqb depth 0) eqn:E0.
  { inversion H; subst. apply andb_prop in E0. tauto. }
  destruct (curis EOF ts); [discriminate|].
  destruct (curis COMMA ts); [eapply IH; exact H|].
  destruct (curis LPAREN ts); [eapply IH; exact H|].
  destruct (curis RPAREN ts); [eapply IH; exact H|].
  destruct (curis FORMAT ts).
  { destruct (parse_format ts) as [[[[tk v] sty] ts1]| | |]; try discriminate. eapply IH; exact H. }
  destruct (curis STRING ts); [eapply IH; exact H|].
  destruct (curis STRINGTYPE ts).
  { destruct (negb (curis STRING (adv ts))); [discriminate|]. eapply IH; exact H. }
  destruct (curis MOVES ts).
  { destruct (moves_operator switches ee f ts) as [[mv ts1]| | |]; try discriminate. eapply IH; exact H. }
  eapply IH; exact H.
Qed.

Lemma command_paren_len f script cmdtok cidv ts r i ts1 :
  peekis LPAREN ts = true -> command_args f script cmdtok cidv (adv (adv ts)) 0 [] [] imp0 = Ok (r, i, ts1) ->
  (List.length ts1 + 2 <= List.length ts)%nat.
Proof.
  intros P H. pose proof (command_args_closed _ _ _ _ _ _ _ _ _ _ _ _ H) as C.
  assert (A : advs (adv (adv ts)) ts1) by (eapply command_args_advs; [exact parse_format_advs|exact H|apply advs_refl]).
  destruct ts as [|x [|y [|z r0]]].
  - discriminate P.
  - cbn [adv] in A. apply advs_single in A. subst ts1. exfalso. eapply is_lparen_not_rparen; [exact P|exact C].
  - cbn [adv] in A. apply advs_single in A. subst ts1. exfalso. eapply is_lparen_not_rparen; [exact P|exact C].
  - cbn [adv] in A. apply advs_len in A. cbn [List.length] in *. lia.
Qed.

Lemma command_span f script ts c imp ts1 :
  advs T ts -> command_stmt f script ts = Ok (c, imp, ts1) -> span script (List.length ts1) (List.length ts) [c] imp.
Proof.
  intros A H. destruct (command_inline_data_in_range _ _ _ _ _ _ _ _ _ _ H) as (_ & _ & Hc & BT & BM).
  assert (L : (List.length ts1 <= List.length ts)%nat) by (apply advs_len; eapply command_stmt_advs; [exact parse_format_advs|exact H|apply advs_refl]).
  assert (L2 : idT imp <> [] \/ idM imp <> [] -> (List.length ts1 + 2 <= List.length ts)%nat).
  { unfold Parser.command_stmt in H. destruct (peekis LPAREN ts) eqn:P.
    - destruct (command_args f script (cur ts) (List.length ts) (adv (adv ts)) 0 [] [] imp0) as [[[args i] ts2]| | |] eqn:E; try discriminate.
      inversion H; subst. intros _. eapply command_paren_len; eassumption.
    - inversion H; subst. cbn. intros [X|X]; congruence. }
  rewrite Forall_forall in BT, BM. split; [|split].
  - intros it Hit. destruct (BT it Hit) as [E _]. rewrite E, Hc. split; [|lia]. apply L2. left. intros X. rewrite X in Hit. destruct Hit.
  - intros im Him. destruct (BM im Him) as [E _]. rewrite E, Hc. split; [|lia]. apply L2. right. intros X. rewrite X in Him. destruct Him.
  - intros sc [<-|[]]. cbn [fst snd]. split; [lia|]. exists imp. split; [exists consts, f, ts, ts1; auto|]. split.
    + apply CmdArgs.filter_all. intros it Hit. destruct (BT it Hit) as [E _]. unfold cidT. now apply Nat.eqb_eq.
    + apply CmdArgs.filter_all. intros im Him. destruct (BM im Him) as [E _]. unfold cidM. now apply Nat.eqb_eq.
Qed.

Definition voa_cmds (r : option (text * cmd)) : list cmd := match r with Some (_, c) => [c] | None => [] end.

Lemma voa_span f script ts r imp ts' :
  advs T ts -> var_or_autovar f script ts = Ok (r, imp, ts') ->
  span script (List.length ts') (List.length (adv ts)) (voa_cmds r) imp.
Proof.
  intros A H. unfold Parser.var_or_autovar in H. destruct (peekis VAR ts).
  - cbn zeta in H. destruct (expect_peek LPAREN (adv ts)); [|discriminate]. inversion H; subst. apply span_nil.
  - destruct (assoc autovars (tlit (pk 1 ts))) as [av|]; [|discriminate]. cbn zeta in H.
    destruct (command_stmt f script (adv ts)) as [[[c i] ts2]| | |] eqn:E; try discriminate. cbn beta iota in H.
    assert (S : span script (List.length ts2) (List.length (adv ts)) [c] i) by (eapply command_span; [apply advs_k_adv; exact A|exact E]).
    destruct (avPos av) as [p|].
    + destruct ((p <? 0)%Z || _); [discriminate|]. inversion H; subst. exact S.
    + inversion H; subst. exact S.
Qed.

Lemma leaf_span f script ts l imp ts' :
  advs T ts -> leaf_expr f script ts = Ok (l, imp, ts') ->
  span script (List.length ts') (List.length (adv ts)) (opt_cmd (lpre l)) imp.
Proof.
  intros A H. pose proof H as H0. unfold Parser.leaf_expr in H.
  destruct (if peekis NOT ts then (true, adv ts) else (false, ts)) as [used_not ts0] eqn:EN.
  assert (A0 : advs T ts0 /\ (List.length (adv ts0) <= List.length (adv ts))%nat).
  { destruct (peekis NOT ts); inversion EN; subst; [split; [apply advs_k_adv; exact A|apply adv_len]|split; [exact A|lia]]. }
  destruct A0 as [A0 L0].
  destruct (negb (peekis VAR ts0) && negb (peek_is_autovar autovars ts0) && negb (peekis FLAG ts0) && negb (peekis DEFEATED ts0)); [discriminate|].
  match type of H with (match ?m with _ => _ end) = _ => destruct m as [[[[[[kind opnd] opline] pre0] imp1] ts3]| | |] eqn:E; try discriminate H end.
  assert (S : span script (List.length ts3) (List.length (adv ts0)) (opt_cmd pre0) imp1).
  { destruct (negb (peek_is_autovar autovars ts0)).
    - cbn zeta in E. destruct (expect_peek LPAREN (adv ts0)) as [ts2|]; [|discriminate].
      destruct (peekis RPAREN ts2); [discriminate|]. cbn zeta in E.
      destruct (collect_until consts f (is RPAREN) (adv ts2) []) as [[parts ts4]|]; [|discriminate]. inversion E; subst. apply span_nil.
    - destruct (var_or_autovar f script ts0) as [[[r i] ts1]| | |] eqn:EV; try discriminate. cbn beta iota in E.
      destruct r as [[v c]|]; [|discriminate]. inversion E; subst. exact (voa_span _ _ _ _ _ _ A0 EV). }
  assert (L : (List.length ts' <= List.length ts3)%nat).
  { assert (X : advs (adv ts3) ts').
    { cbn zeta in H. destruct used_not.
      - inversion H; subst. apply advs_refl.
      - destruct kind.
        + destruct (cond_flag_operator (adv ts3) "flag") as [[[o v] ts5]| | |] eqn:EO; try discriminate. inversion H; subst.
          eapply cond_flag_operator_advs; [exact EO|apply advs_refl].
        + destruct (cond_var_operator consts f (adv ts3)) as [[[[o v] st] ts5]| | |] eqn:EO; try discriminate. inversion H; subst.
          eapply cond_var_operator_advs; [exact EO|apply advs_refl].
        + destruct (cond_flag_operator (adv ts3) "defeated") as [[[o v] ts5]| | |] eqn:EO; try discriminate. inversion H; subst.
          eapply cond_flag_operator_advs; [exact EO|apply advs_refl]. }
    apply advs_len in X. pose proof (adv_len ts3). lia. }
  assert (P : lpre l = pre0).
  { cbn zeta in H. destruct used_not; [inversion H; subst; reflexivity|]. destruct kind.
    - destruct (cond_flag_operator (adv ts3) "flag") as [[[o v] ts5]| | |]; try discriminate. inversion H; subst. reflexivity.
    - destruct (cond_var_operator consts f (adv ts3)) as [[[[o v] st] ts5]| | |]; try discriminate. inversion H; subst. reflexivity.
    - destruct (cond_flag_operator (adv ts3) "defeated") as [[[o v] ts5]| | |]; try discriminate. inversion H; subst. reflexivity. }
  assert (I : imp = imp1).
  { cbn zeta in H. destruct used_not; [inversion H; subst; reflexivity|]. destruct kind.
    - destruct (cond_flag_operator (adv ts3) "flag") as [[[o v] ts5]| | |]; try discriminate. inversion H; subst. reflexivity.
    - destruct (cond_var_operator consts f (adv ts3)) as [[[[o v] st] ts5]| | |]; try discriminate. inversion H; subst. reflexivity.
    - destruct (cond_flag_operator (adv ts3) "defeated") as [[[o v] ts5]| | |]; try discriminate. inversion H; subst. reflexivity. }
  rewrite P, I. eapply span_weaken; [exact S|exact L|exact L0].
Qed.

Ltac lenle a b := let X := fresh "LL" in assert (X : advs a b) by advs_go; apply advs_len in X.

Lemma bexp_cmds_neg l : opt_cmd (lpre (neg_leaf l)) = opt_cmd (lpre l).
Proof. reflexivity. Qed.

Lemma right_side_advs f left single negated script ts e i ts' :
  right_side f left single negated script ts = Ok (e, i, ts') -> forall a, advs a ts -> advs a ts'.
Proof. apply (bexp_advs autovars switches parse_format consts parse_format_advs ee f). Qed.

Lemma adv_len_mono a b : (List.length a <= List.length b -> List.length (adv a) <= List.length (adv b))%nat.
Proof. destruct a as [|x [|y r]], b as [|x' [|y' r']]; cbn; lia. Qed.

Lemma bexp_span : forall f,
  (forall single negated script ts e imp ts', advs T ts -> bool_expr f single negated script ts = Ok (e, imp, ts') ->
     span script (List.length ts') (List.length (adv ts)) (bexp_cmds e) imp) /\
  (forall left single negated script ts e imp ts', advs T ts -> right_side f left single negated script ts = Ok (e, imp, ts') ->
     exists cs, bexp_cmds e = bexp_cmds left ++ cs /\ span script (List.length ts') (List.length (adv ts)) cs imp).
Proof.
  induction f as [|f [IHb IHr]]; [split; intros; discriminate|]. split.
  - intros single negated script ts e imp ts' A H. rewrite bool_expr_unfold in H. cbv zeta in H.
    destruct (peekis LPAREN ts || peekis NOT ts && is LPAREN (pk 2 ts)).
    + destruct (if peekis LPAREN ts then (adv ts, negated) else (adv (adv ts), negb negated)) as [ts2 nn] eqn:E2.
      assert (A2 : advs T ts2 /\ (List.length ts2 <= List.length (adv ts))%nat).
      { destruct (peekis LPAREN ts); inversion E2; subst; [split; [advs_go|lia]|split; [advs_go|apply adv_len]]. }
      destruct A2 as [A2 L2].
      destruct (bool_expr f false nn script ts2) as [[[e1 imp1] ts3]| | |] eqn:E3; try discriminate. cbn beta iota in H.
      pose proof (IHb _ _ _ _ _ _ _ A2 E3) as S1.
      lenle ts2 ts3. adv_lens.
      destruct (negb (curis RPAREN ts3)); [discriminate|].
      destruct (negb single && (peekis AND ts3 || peekis OR ts3)).
      * destruct (right_side f e1 single negated script (adv ts3)) as [[[e2 imp2] ts4]| | |] eqn:E4; try discriminate. inversion H; subst.
        assert (A3 : advs T (adv ts3)) by advs_go.
        destruct (IHr _ _ _ _ _ _ _ _ A3 E4) as (cs & -> & S2).
        pose proof (advs_len _ _ (right_side_advs _ _ _ _ _ _ _ _ _ E4 _ (advs_refl _))) as LL1. adv_lens.
        assert (S1' : span script (List.length ts3) (List.length (adv ts)) (bexp_cmds e1) imp1) by (eapply span_weaken; [exact S1|lia|lia]).
        eapply span_app; [exact S1'|exact S2|eapply sep_le; [apply sep_adv|lia]|lia|lia].
      * inversion H; subst. adv_lens. eapply span_weaken; [exact S1|lia|lia].
    + destruct (leaf_expr f script ts) as [[[l imp1] ts1]| | |] eqn:E1; try discriminate. cbn beta iota in H.
      pose proof (leaf_span _ _ _ _ _ _ A E1) as S1.
      assert (C : bexp_cmds (BLeaf (if negated then neg_leaf l else l)) = opt_cmd (lpre l)) by (destruct negated; reflexivity).
      destruct single.
      * inversion H; subst. rewrite C. exact S1.
      * destruct (right_side f (BLeaf (if negated then neg_leaf l else l)) false negated script ts1) as [[[e2 imp2] ts2]| | |] eqn:E2; try discriminate.
        inversion H; subst. assert (A1 : advs T ts1) by advs_go.
        destruct (IHr _ _ _ _ _ _ _ _ A1 E2) as (cs & -> & S2). rewrite C.
        lenle ts ts1.
        pose proof (advs_len _ _ (right_side_advs _ _ _ _ _ _ _ _ _ E2 _ (advs_refl _))) as LL1.
        pose proof (adv_len_mono _ _ LL). adv_lens.
        eapply span_app; [exact S1|exact S2|apply sep_adv| |]; lia.
  - intros left single negated script ts e imp ts' A H. rewrite right_side_unfold in H.
    destruct (curis AND ts).
    + destruct (bool_expr f true negated script ts) as [[[r imp1] ts1]| | |] eqn:E1; try discriminate. cbn beta iota zeta in H.
      destruct (right_side f (BBin (if negated then BOr else BAnd) left r) single negated script ts1) as [[[e2 imp2] ts2]| | |] eqn:E2; try discriminate.
      inversion H; subst. pose proof (IHb _ _ _ _ _ _ _ A E1) as S1. assert (A1 : advs T ts1) by advs_go.
      destruct (IHr _ _ _ _ _ _ _ _ A1 E2) as (cs & -> & S2). cbn [bexp_cmds]. exists (bexp_cmds r ++ cs). split; [now rewrite app_assoc|].
      lenle ts ts1.
      pose proof (advs_len _ _ (right_side_advs _ _ _ _ _ _ _ _ _ E2 _ (advs_refl _))) as LL1.
      pose proof (adv_len_mono _ _ LL). adv_lens.
      eapply span_app; [exact S1|exact S2|apply sep_adv| |]; lia.
    + destruct (curis OR ts).
      * destruct (bool_expr f false negated script ts) as [[[r imp1] ts1]| | |] eqn:E1; try discriminate. inversion H; subst.
        exists (bexp_cmds r). split; [reflexivity|]. exact (IHb _ _ _ _ _ _ _ A E1).
      * inversion H; subst. exists []. split; [now rewrite app_nil_r|apply span_nil].
Qed.

(* ---------- the statement parser ---------- *)
Notation parse_stmt := (parse_stmt autovars switches ee parse_format consts).
Notation parse_block := (parse_block autovars switches ee parse_format consts).
Notation parse_switch_block := (parse_switch_block autovars switches ee parse_format consts).
Notation parse_cond := (parse_cond autovars switches ee parse_format consts).
Notation parse_if := (parse_if autovars switches ee parse_format consts).
Notation parse_elifs := (parse_elifs autovars switches ee parse_format consts).
Notation parse_switch := (parse_switch autovars switches ee parse_format consts).
Notation parse_cases := (parse_cases autovars switches ee parse_format consts).
Notation parse_pory := (parse_pory autovars switches ee parse_format consts).
Notation parse_pory_cases := (parse_pory_cases autovars switches ee parse_format consts).
Notation parse_pory_stmts := (parse_pory_stmts autovars switches ee parse_format consts).
Notation len := (@List.length token).

Lemma pre_app script n HI a I1 n' hi2 b I2 :
  pre script n HI a I1 -> pre script n' hi2 b I2 -> (hi2 <= n)%nat -> (n <= HI)%nat -> (n' <= n)%nat ->
  pre script n' HI (a ++ b) (impadd I1 I2).
Proof. unfold pre. rewrite map_app. apply preN_app. Qed.
Lemma pre_span script n HI cs I : pre script n HI cs I -> span script n HI cs I.
Proof. intros H. eapply pre_done; [exact H|lia]. Qed.

Lemma cmds_single s : cmds [s] = stmt_cmds s.
Proof. unfold cmds. cbn [flat_map]. apply app_nil_r. Qed.

Definition pcases_span (script : text) (lo hi : nat) (l : list (text * (list stmt * impdata))) : Prop :=
  forall k ss imp, In (k, (ss, imp)) l -> span script lo hi (cmds ss) imp.

Definition PI (f : nat) : Prop :=
  (forall script bs cs ts ss imp ts', advs T ts -> parse_stmt f script bs cs ts = Ok (ss, imp, ts') ->
      span script (len ts') (len ts) (cmds ss) imp) /\
  (forall script bs cs start ts acc imp ss imp' ts' HI, advs T ts -> parse_block f script bs cs start ts acc imp = Ok (ss, imp', ts') ->
      pre script (len ts) HI (cmds acc) imp -> (len ts <= HI)%nat -> pre script (len ts') HI (cmds ss) imp') /\
  (forall script bs cs start ts acc imp ss imp' ts' HI, advs T ts -> parse_switch_block f script bs cs start ts acc imp = Ok (ss, imp', ts') ->
      pre script (len ts) HI (cmds acc) imp -> (len ts <= HI)%nat -> pre script (len ts') HI (cmds ss) imp') /\
  (forall req script bs cs ts e b imp ts', advs T ts -> parse_cond f req script bs cs ts = Ok (e, b, imp, ts') ->
      span script (len ts') (len ts) (obexp_cmds e ++ cmds b) imp) /\
  (forall script bs cs ts ss imp ts', advs T ts -> parse_if f script bs cs ts = Ok (ss, imp, ts') ->
      span script (len ts') (len ts) (cmds ss) imp) /\
  (forall script bs cs ts acc imp l imp' ts' HI X, advs T ts -> parse_elifs f script bs cs ts acc imp = Ok (l, imp', ts') ->
      span script (len ts) HI (X ++ conds_cmds acc) imp -> (len ts <= HI)%nat -> span script (len ts') HI (X ++ conds_cmds l) imp') /\
  (forall script bs cs ts ss imp ts', advs T ts -> parse_switch f script bs cs ts = Ok (ss, imp, ts') ->
      span script (len ts') (len ts) (cmds ss) imp) /\
  (forall script bs cs brace ts acc seen hasdef imp l imp' ts' HI, advs T ts ->
      parse_cases f script bs cs brace ts acc seen hasdef imp = Ok (l, imp', ts') ->
      pre script (len ts) HI (cases_cmds acc) imp -> (len ts <= HI)%nat -> pre script (len ts') HI (cases_cmds l) imp') /\
  (forall script bs cs ts ss imp ts', advs T ts -> parse_pory f script bs cs ts = Ok (ss, imp, ts') ->
      span script (len ts') (len ts) (cmds ss) imp) /\
  (forall script bs cs start ts acc l ts' HI, advs T ts -> parse_pory_cases f script bs cs start ts acc = Ok (l, ts') ->
      pcases_span script (len ts) HI acc -> (len ts <= HI)%nat -> pcases_span script (len ts') HI l) /\
  (forall script bs cs multi ts acc imp ss imp' ts' HI, advs T ts -> parse_pory_stmts f script bs cs multi ts acc imp = Ok (ss, imp', ts') ->
      pre script (len ts) HI (cmds acc) imp -> (len ts <= HI)%nat -> pre script (len ts') HI (cmds ss) imp').

Tactic Notation "bind" hyp(H) "as" simple_intropattern(p) "eqn" ident(E) :=
  apply AutoVarProgram.bind_inv in H; destruct H as (p & E & H); cbn beta iota in H.

Lemma pi_all : forall f, PI f.
Proof.
  induction f as [|f IH].
  - unfold PI. split; [|split; [|split; [|split; [|split; [|split; [|split; [|split; [|split; [|split]]]]]]]]]; intros; discriminate.
  - destruct IH as (Istmt & Iblock & Iswb & Icond & Iif & Ielifs & Iswitch & Icases & Ipory & Ipcases & Ipstmts).
    destruct (adv_all autovars switches parse_format consts parse_format_advs ee f)
      as (Astmt & Ablock & Aswb & Acond & Aif & Aelifs & Aswitch & Acases & Apory & Apcases & Apstmts).
    unfold PI. split; [|split; [|split; [|split; [|split; [|split; [|split; [|split; [|split; [|split]]]]]]]]].
    + (* parse_stmt *)
      intros script bs cs ts ss imp ts' A H. rewrite parse_stmt_unfold in H.
      destruct (ttype (cur ts)) eqn:TY; try discriminate.
      * destruct (try_label ts) as [[l ts1]|] eqn:TL.
        -- inversion H; subst. unfold try_label in TL.
           destruct (peekis COLON ts); [inversion TL; subst; apply span_nil|].
           destruct (peekis LPAREN ts && _ && _ && _); inversion TL; subst; apply span_nil.
        -- bind H as [[c imp1] ts1] eqn E1. inversion H; subst. rewrite cmds_single. cbn [stmt_cmds]. eapply command_span; eassumption.
      * eapply Iif; eauto.
      * (* do *)
        destruct (expect_peek LBRACE ts) as [ts1|] eqn:P1; [|discriminate]. bind H as [[b imp1] ts2] eqn E2.
        destruct (expect_peek WHILE ts2) as [ts3|] eqn:P3; [|discriminate].
        destruct (expect_peek LPAREN ts3) as [ts4|] eqn:P4; [|discriminate]. bind H as [[e imp2] ts5] eqn E5. inversion H; subst.
        apply expect_peek_some in P1, P3, P4. subst ts1 ts3 ts4.
        assert (A1 : advs T (adv (adv ts))) by advs_go.
        assert (A4 : advs T (adv (adv ts2))) by advs_go.
        pose proof (Iblock _ _ _ _ _ _ _ _ _ _ (len (adv (adv ts))) A1 E2 (pre_nil _ _ _) (Nat.le_refl _)) as S1. apply pre_span in S1.
        pose proof (proj1 (bexp_span f) _ _ _ _ _ _ _ A4 E5) as S2.
        lenle (adv (adv ts)) ts2. lenle (adv (adv ts2)) ts'. adv_lens.
        rewrite cmds_single. cbn [stmt_cmds]. fold (cmds b).
        eapply span_app; [eapply span_weaken; [exact S1|apply Nat.le_refl|]|exact S2|eapply sep_le; [apply sep_adv|]| |]; lia.
      * (* while *)
        bind H as [[[c b] imp1] ts1] eqn E1. inversion H; subst. rewrite cmds_single. cbn [stmt_cmds]. fold (cmds b). eapply Icond; eauto.
      * destruct bs as [|tg bs]; [discriminate|]. inversion H; subst. apply span_nil.
      * destruct cs as [|tg cs]; [discriminate|]. destruct (peekis RBRACE ts); [|discriminate]. inversion H; subst. apply span_nil.
      * eapply Iswitch; eauto.
      * eapply Ipory; eauto.
    + (* parse_block *)
      intros script bs cs start ts acc imp ss imp' ts' HI A H Hacc LH. rewrite parse_block_unfold in H.
      destruct (curis RBRACE ts); [inversion H; subst; exact Hacc|].
      destruct (curis EOF ts); [discriminate|]. bind H as [[ss1 imp1] ts1] eqn E1.
      pose proof (Istmt _ _ _ _ _ _ _ A E1) as S1. lenle ts ts1. adv_lens.
      eapply Iblock; [|exact H| |]; [advs_go| |lia]. rewrite cmds_app.
      eapply pre_step; [exact Hacc|exact S1|lia|lia|apply sep_adv].
    + (* parse_switch_block *)
      intros script bs cs start ts acc imp ss imp' ts' HI A H Hacc LH. rewrite parse_switch_block_unfold in H.
      destruct (curis RBRACE ts || curis CASE ts || curis DEFAULT ts); [inversion H; subst; exact Hacc|].
      destruct (curis EOF ts); [discriminate|]. bind H as [[ss1 imp1] ts1] eqn E1.
      pose proof (Istmt _ _ _ _ _ _ _ A E1) as S1. lenle ts ts1. adv_lens.
      eapply Iswb; [|exact H| |]; [advs_go| |lia]. rewrite cmds_app.
      eapply pre_step; [exact Hacc|exact S1|lia|lia|apply sep_adv].
    + (* parse_cond *)
      intros req script bs cs ts e b imp ts' A H. rewrite parse_cond_unfold in H. bind H as [[e1 imp1] ts1] eqn E1.
      destruct (expect_peek LBRACE ts1) as [ts2|] eqn:P2; [|discriminate]. bind H as [[b1 imp2] ts3] eqn E3. inversion H; subst.
      apply expect_peek_some in P2. subst ts2.
      assert (A1 : advs T ts1 /\ span script (len ts1) (len ts) (obexp_cmds e) imp1 /\ (len ts1 <= len ts)%nat).
      { destruct (req || negb (peekis LBRACE ts)).
        - destruct (expect_peek LPAREN ts) as [tsa|] eqn:PA; [|discriminate]. bind E1 as [[e0 imp0'] tsb] eqn EB. inversion E1; subst.
          apply expect_peek_some in PA. subst tsa.
          assert (Aa : advs T (adv ts)) by advs_go. split; [advs_go|].
          pose proof (proj1 (bexp_span f) _ _ _ _ _ _ _ Aa EB) as S. lenle (adv ts) ts1. adv_lens.
          split; [|lia]. cbn [obexp_cmds]. eapply span_weaken; [exact S|lia|lia].
        - inversion E1; subst. split; [exact A|]. split; [apply span_nil|lia]. }
      destruct A1 as (A1 & S1 & L1).
      assert (A2 : advs T (adv (adv ts1))) by advs_go.
      pose proof (Iblock _ _ _ _ _ _ _ _ _ _ (len (adv (adv ts1))) A2 E3 (pre_nil _ _ _) (Nat.le_refl _)) as S2. apply pre_span in S2.
      lenle (adv (adv ts1)) ts'. adv_lens.
      eapply span_app; [exact S1|exact S2|eapply sep_le; [apply sep_adv|]| |]; lia.
    + (* parse_if *)
      intros script bs cs ts ss imp ts' A H. rewrite parse_if_unfold in H. bind H as [[[o l] imp1] ts1] eqn E1.
      destruct o as [e1|]; [|discriminate]. bind H as [[l0 imp2] t0] eqn E2.
      pose proof (Icond _ _ _ _ _ _ _ _ _ A E1) as S1. cbn [obexp_cmds] in S1.
      assert (A1 : advs T ts1) by advs_go. lenle ts ts1.
      assert (A0 : advs T t0) by advs_go. lenle ts1 t0.
      pose proof (Ielifs _ _ _ _ _ _ _ _ _ (len ts) (bexp_cmds e1 ++ cmds l) A1 E2) as S2. unfold conds_cmds at 1 in S2. cbn [flat_map] in S2.
      rewrite app_nil_r in S2. specialize (S2 S1 LL).
      assert (C : conds_cmds ((e1, l) :: l0) = (bexp_cmds e1 ++ cmds l) ++ conds_cmds l0) by reflexivity.
      destruct (peekis ELSE t0).
      * cbn zeta in H. destruct (expect_peek LBRACE (adv t0)) as [ts4|] eqn:P4; [|discriminate]. bind H as [[eb imp3] ts5] eqn E5. inversion H; subst.
        apply expect_peek_some in P4. subst ts4.
        assert (A4 : advs T (adv (adv (adv t0)))) by advs_go.
        pose proof (Iblock _ _ _ _ _ _ _ _ _ _ (len (adv (adv (adv t0)))) A4 E5 (pre_nil _ _ _) (Nat.le_refl _)) as S3. apply pre_span in S3.
        lenle (adv (adv (adv t0))) ts'. adv_lens.
        rewrite cmds_single, stmt_cmds_if, C. cbn [ocmds].
        eapply span_app; [exact S2|exact S3|eapply sep_le; [apply sep_adv|]| |]; lia.
      * inversion H; subst. rewrite cmds_single, stmt_cmds_if, C. cbn [ocmds]. rewrite app_nil_r. exact S2.
    + (* parse_elifs *)
      intros script bs cs ts acc imp l imp' ts' HI X A H Hacc LH. rewrite parse_elifs_unfold in H.
      destruct (peekis ELSEIF ts); [|inversion H; subst; exact Hacc]. bind H as [[[o b1] imp1] ts1] eqn E1.
      destruct o as [e1|]; [|discriminate].
      assert (Aa : advs T (adv ts)) by advs_go.
      pose proof (Icond _ _ _ _ _ _ _ _ _ Aa E1) as S1. cbn [obexp_cmds] in S1. lenle (adv ts) ts1. adv_lens.
      eapply Ielifs; [|exact H| |]; [advs_go| |lia].
      rewrite conds_cmds_app, app_assoc. unfold conds_cmds at 2. cbn [flat_map fst snd]. rewrite app_nil_r.
      eapply span_app; [exact Hacc|exact S1|apply sep_adv| |]; lia.
    + (* parse_switch *)
      intros script bs cs ts ss imp ts' A H. rewrite parse_switch_unfold in H. cbn zeta in H.
      destruct (expect_peek LPAREN ts) as [ts1|] eqn:P1; [|discriminate]. bind H as [[r0 imp1] ts2] eqn E2.
      bind H as [[[operand oline] pre0] ts3] eqn E3.
      destruct (expect_peek LBRACE ts3) as [ts4|] eqn:P4; [|discriminate]. bind H as [[l imp2] ts5] eqn E5.
      destruct l as [|c0 l]; [discriminate|]. inversion H; subst.
      apply expect_peek_some in P1, P4. subst ts1 ts4.
      assert (A1 : advs T (adv ts)) by advs_go.
      pose proof (voa_span _ _ _ _ _ _ A1 E2) as S1.
      assert (A2 : advs T ts2) by advs_go.
      assert (A3 : advs (adv ts2) ts3 /\ opt_cmd pre0 = voa_cmds r0).
      { destruct r0 as [[v c]|].
        - destruct (expect_peek RPAREN ts2) as [tsx|] eqn:PX; [|discriminate]. inversion E3; subst.
          apply expect_peek_some in PX. subst ts3. split; [apply advs_refl|reflexivity].
        - cbn zeta in E3. bind E3 as [parts tsx] eqn EX. inversion E3; subst. split; [advs_go|reflexivity]. }
      destruct A3 as [A3 EP]. apply advs_len in A3.
      assert (A4 : advs T (adv (adv ts3))).
      { eapply advs_trans; [exact A2|]. destruct r0 as [[v c]|].
        - destruct (expect_peek RPAREN ts2) as [tsx|] eqn:PX; [|discriminate]. inversion E3; subst.
          apply expect_peek_some in PX. subst ts3. advs_go.
        - cbn zeta in E3. bind E3 as [parts tsx] eqn EX. inversion E3; subst. advs_go. }
      pose proof (Icases _ _ _ _ _ _ _ _ _ _ _ _ (len (adv (adv ts3))) A4 E5 (pre_nil _ _ _) (Nat.le_refl _)) as S2. apply pre_span in S2.
      lenle (adv ts) ts2. lenle (adv (adv ts3)) ts'. adv_lens.
      rewrite cmds_app, cmds_single, stmt_cmds_switch.
      replace (cmds (match pre0 with Some c => [SCmd c] | None => [] end)) with (voa_cmds r0)
        by (rewrite <- EP; destruct pre0; reflexivity).
      eapply span_app; [eapply span_weaken; [exact S1|apply Nat.le_refl|]|exact S2|eapply sep_le; [apply sep_adv|]| |]; lia.
    + (* parse_cases *)
      intros script bs cs brace ts acc seen hasdef imp l imp' ts' HI A H Hacc LH. rewrite parse_cases_unfold in H.
      destruct (curis RBRACE ts); [inversion H; subst; exact Hacc|].
      destruct (curis CASE ts).
      * cbn zeta in H. destruct (collect_until consts f (is COLON) (adv ts) []) as [[parts ts2]|] eqn:CU; [|discriminate].
        destruct (existsb _ seen); [discriminate|]. bind H as [[b1 imp1] ts3] eqn E3.
        assert (A2 : advs T (adv ts2)) by advs_go.
        pose proof (Iswb _ _ _ _ _ _ _ _ _ _ (len (adv ts2)) A2 E3 (pre_nil _ _ _) (Nat.le_refl _)) as S1.
        lenle (adv ts) ts2. lenle (adv ts2) ts3. adv_lens.
        eapply Icases; [|exact H| |]; [advs_go| |lia].
        rewrite cases_cmds_app. unfold cases_cmds at 2. cbn [flat_map snd]. rewrite app_nil_r.
        eapply pre_app; [exact Hacc|exact S1| | |]; lia.
      * destruct (curis DEFAULT ts); [|discriminate]. destruct hasdef; [discriminate|].
        destruct (expect_peek COLON ts) as [ts1|] eqn:P1; [|discriminate]. bind H as [[b1 imp1] ts2] eqn E2.
        apply expect_peek_some in P1. subst ts1.
        assert (A1 : advs T (adv (adv ts))) by advs_go.
        pose proof (Iswb _ _ _ _ _ _ _ _ _ _ (len (adv (adv ts))) A1 E2 (pre_nil _ _ _) (Nat.le_refl _)) as S1.
        lenle (adv (adv ts)) ts2. adv_lens.
        eapply Icases; [|exact H| |]; [advs_go| |lia].
        rewrite cases_cmds_app. unfold cases_cmds at 2. cbn [flat_map snd]. rewrite app_nil_r.
        eapply pre_app; [exact Hacc|exact S1| | |]; lia.
    + (* parse_pory *)
      intros script bs cs ts ss imp ts' A H. rewrite parse_pory_unfold in H. cbn zeta in H. bind H as [[sc o] ts1] eqn E1. bind H as [l ts2] eqn E2.
      assert (A1 : advs T ts1) by advs_go. lenle ts ts1.
      assert (PC : pcases_span script (len ts2) (len ts1) l) by (eapply Ipcases; [exact A1|exact E2|intros ? ? ? []|lia]).
      destruct (assoc l (sval o)) as [[ss0 imp0']|] eqn:Q1.
      * inversion H; subst. apply assoc_some_in in Q1. eapply span_weaken; [eapply PC; exact Q1|lia|lia].
      * destruct (assoc l (t "_")) as [[ss0 imp0']|] eqn:Q2.
        -- inversion H; subst. apply assoc_some_in in Q2. eapply span_weaken; [eapply PC; exact Q2|lia|lia].
        -- destruct ee; [discriminate|]. inversion H; subst. apply span_nil.
    + (* parse_pory_cases *)
      intros script bs cs start ts acc l ts' HI A H Hacc LH. rewrite parse_pory_cases_unfold in H.
      destruct (curis RBRACE ts); [inversion H; subst; exact Hacc|].
      destruct (curis EOF ts); [discriminate|].
      destruct (negb (curis IDENT ts) && negb (curis INT ts)); [discriminate|]. cbn zeta in H.
      destruct (curis COLON (adv ts) || curis LBRACE (adv ts)); [|discriminate]. bind H as [[l0 i] t0] eqn E0.
      assert (Aa : advs T (adv (adv ts))) by advs_go.
      pose proof (Ipstmts _ _ _ _ _ _ _ _ _ _ (len (adv (adv ts))) Aa E0 (pre_nil _ _ _) (Nat.le_refl _)) as S1. apply pre_span in S1.
      lenle (adv (adv ts)) t0. adv_lens.
      assert (PC : forall n, (n <= len t0)%nat -> pcases_span script n HI ((tlit (cur ts), (l0, i)) :: acc)).
      { intros n Ln k ss imp [X|X].
        - inversion X; subst. eapply span_weaken; [exact S1|lia|lia].
        - eapply span_weaken; [eapply Hacc; exact X|lia|lia]. }
      destruct (curis LBRACE (adv ts)).
      * destruct (negb (curis RBRACE t0)); [discriminate|]. eapply Ipcases; [|exact H|apply PC|]; [advs_go| |]; lia.
      * eapply Ipcases; [|exact H|apply PC|]; [advs_go| |]; lia.
    + (* parse_pory_stmts *)
      intros script bs cs multi ts acc imp ss imp' ts' HI A H Hacc LH. rewrite parse_pory_stmts_unfold in H.
      destruct (curis RBRACE ts); [inversion H; subst; exact Hacc|]. bind H as [[l imp1] ts1] eqn E1.
      assert (S1 : span script (len ts1) (len ts) (cmds l) imp1 /\ advs T ts1 /\ (len ts1 <= len ts)%nat).
      { destruct (curis PORYSWITCH ts).
        - split; [eapply Ipory; eauto|]. split; [advs_go|]. lenle ts ts1. lia.
        - split; [eapply Istmt; eauto|]. split; [advs_go|]. lenle ts ts1. lia. }
      destruct S1 as (S1 & A1 & L1). adv_lens.
      assert (P : pre script (len (adv ts1)) HI (cmds (acc ++ l)) (impadd imp imp1)).
      { rewrite cmds_app. eapply pre_step; [exact Hacc|exact S1|lia|lia|apply sep_adv]. }
      destruct multi.
      * eapply Ipstmts; [|exact H|exact P|]; [advs_go|lia].
      * inversion H; subst. exact P.
Qed.

Theorem parse_block_span f script start ts ss imp ts' :
  advs T ts -> parse_block f script [] [] start ts [] imp0 = Ok (ss, imp, ts') ->
  span script (len ts') (len ts) (cmds ss) imp.
Proof.
  intros A H. destruct (pi_all f) as (_ & Iblock & _). apply pre_span.
  eapply (Iblock script [] []); [exact A|exact H|apply pre_nil|apply Nat.le_refl].
Qed.
End WITHC.

(* ---------- named bodies: script statements and inline map scripts ---------- *)
Definition named_cmds_entries (es : list tableentry) : list (text * cmd) :=
  flat_map (fun e => match teScript e with Some b => map (pair (teName e)) (cmds b) | None => [] end) es.
Definition named_cmds_plain (pl : list mapscript) : list (text * cmd) :=
  flat_map (fun m => match msScript m with Some b => map (pair (msName m)) (cmds b) | None => [] end) pl.
Definition named_cmds_tables (tbs : list tablems) : list (text * cmd) :=
  flat_map (fun tb => named_cmds_entries (tmEntries tb)) tbs.
(* every command of every body of a top-level statement (at any depth), with the name of the script that owns the body:
   the script's name, or the generated name of the inline map script *)
Definition named_cmds_top (tp : top) : list (text * cmd) :=
  match tp with
  | TScript n _ b => map (pair n) (cmds b)
  | TMapScripts _ _ pl tbs => named_cmds_plain pl ++ named_cmds_tables tbs
  | _ => []
  end.
Definition named_cmds (l : list top) : list (text * cmd) := flat_map named_cmds_top l.

Lemma preN_le n HI l I n' : preN n HI l I -> (n' <= n)%nat -> preN n' HI l I.
Proof. intros (lo & S & H) L. exists lo. split; [eapply sep_le; eassumption|exact H]. Qed.

Notation parse_block c := (parse_block autovars switches ee parse_format c).
Notation ms_table c := (ms_table autovars switches ee parse_format c).
Notation ms_entries c := (ms_entries autovars switches ee parse_format c).
Notation parse_mapscripts c := (parse_mapscripts autovars switches ee parse_format c).
Notation parse_script c := (parse_script autovars switches ee parse_format c).
Notation len := (@List.length token).

Ltac adv_ex H := first [eapply parse_block_advs; [exact parse_format_advs|exact H|] | eapply ms_collect_advs; [exact H|]
                       | eapply ms_table_advs; [exact parse_format_advs|exact H|] | eapply ms_entries_advs; [exact parse_format_advs|exact H|]
                       | eapply scope_modifier_advs; [exact H|]].
Ltac advs_now := advs_gox ltac:(fun K => adv_ex K).
Ltac lenle2 a b := let X := fresh "LL" in assert (X : advs a b) by advs_now; apply advs_len in X.
Tactic Notation "bind" hyp(H) "as" simple_intropattern(p) "eqn" ident(E) :=
  apply AutoVarProgram.bind_inv in H; destruct H as (p & E & H); cbn beta iota in H.

Lemma ms_table_span c f : forall mapname tyname ts i acc imp es imp' ts' HI,
  advs T ts -> ms_table c f mapname tyname ts i acc imp = Ok (es, imp', ts') ->
  preN (len ts) HI (named_cmds_entries acc) imp -> (len ts <= HI)%nat -> preN (len ts') HI (named_cmds_entries es) imp'.
Proof.
  induction f as [|f IH]; intros mapname tyname ts i acc imp es imp' ts' HI A H Hacc LH; [discriminate|].
  cbn [Parser.ms_table] in H. destruct (curis RBRACKET ts); [inversion H; subst; exact Hacc|]. cbn zeta in H.
  destruct (ms_collect c f (is COMMA) ts []) as [[cond ts1]|] eqn:C1; [|discriminate].
  destruct cond as [|c0 cond]; [discriminate|].
  destruct (ms_collect c f _ (adv ts1) []) as [[cmp ts3]|] eqn:C3; [|discriminate].
  destruct cmp as [|c1 cmp]; [discriminate|].
  assert (A3 : advs T ts3) by advs_now. lenle2 ts ts1. lenle2 (adv ts1) ts3.
  destruct (curis COLON ts3).
  - destruct (expect_peek IDENT ts3) as [ts4|] eqn:P4; [|discriminate]. apply expect_peek_some in P4. subst ts4. adv_lens.
    eapply IH; [|exact H| |]; [advs_now| |lia].
    unfold named_cmds_entries. rewrite flat_map_app. cbn [flat_map teScript]. rewrite !app_nil_r.
    eapply preN_le; [exact Hacc|lia].
  - bind H as [[b imp1] ts4] eqn E4.
    assert (Ab : advs T (adv ts3)) by advs_now.
    pose proof (parse_block_span c f _ _ _ _ _ _ Ab E4) as S1. lenle2 (adv ts3) ts4. adv_lens.
    eapply IH; [|exact H| |]; [advs_now| |lia].
    unfold named_cmds_entries. rewrite flat_map_app. cbn [flat_map teScript teName]. rewrite app_nil_r.
    eapply preN_app; [exact Hacc|exists (len ts4); split; [apply sep_adv|exact S1]| | |]; lia.
Qed.

Lemma ms_entries_span c f : forall mapname ts plain tables imp plain' tables' imp' ts' HI,
  advs T ts -> ms_entries c f mapname ts plain tables imp = Ok (plain', tables', imp', ts') ->
  preN (len ts) HI (named_cmds_plain plain ++ named_cmds_tables tables) imp -> (len ts <= HI)%nat ->
  preN (len ts') HI (named_cmds_plain plain' ++ named_cmds_tables tables') imp'.
Proof.
  induction f as [|f IH]; intros mapname ts plain tables imp plain' tables' imp' ts' HI A H Hacc LH; [discriminate|].
  cbn [Parser.ms_entries] in H. destruct (curis RBRACE ts); [inversion H; subst; exact Hacc|].
  destruct (negb (curis IDENT ts)); [discriminate|]. cbn zeta in H.
  destruct (curis COLON (adv ts)).
  - destruct (expect_peek IDENT (adv ts)) as [ts2|] eqn:P2; [|discriminate]. apply expect_peek_some in P2. subst ts2. adv_lens.
    eapply IH; [|exact H| |]; [advs_now| |lia].
    unfold named_cmds_plain. rewrite flat_map_app. cbn [flat_map msScript]. rewrite !app_nil_r.
    eapply preN_le; [exact Hacc|lia].
  - destruct (curis LBRACE (adv ts)).
    + bind H as [[b imp1] ts2] eqn E2.
      assert (Ab : advs T (adv (adv ts))) by advs_now.
      pose proof (parse_block_span c f _ _ _ _ _ _ Ab E2) as S1. lenle2 (adv (adv ts)) ts2. adv_lens.
      eapply IH; [|exact H| |]; [advs_now| |lia].
      eapply preN_incl.
      * eapply preN_app; [exact Hacc|exists (len ts2); split; [apply sep_adv|exact S1]| | |]; lia.
      * intros x Hx. unfold named_cmds_plain in Hx. rewrite flat_map_app in Hx. cbn [flat_map msScript msName] in Hx. rewrite app_nil_r in Hx.
        apply in_app_or in Hx. destruct Hx as [Hx|Hx]; [apply in_app_or in Hx; destruct Hx as [Hx|Hx]|].
        -- apply in_or_app. left. apply in_or_app. now left.
        -- apply in_or_app. now right.
        -- apply in_or_app. left. apply in_or_app. now right.
    + destruct (curis LBRACKET (adv ts)); [|discriminate]. bind H as [[es imp1] ts2] eqn E2.
      assert (Ab : advs T (adv (adv ts))) by advs_now.
      pose proof (ms_table_span c f _ _ _ _ _ _ _ _ _ (len (adv (adv ts))) Ab E2 (preN_nil _ _) (Nat.le_refl _)) as S1.
      lenle2 (adv (adv ts)) ts2. adv_lens.
      eapply IH; [|exact H| |]; [advs_now| |lia].
      unfold named_cmds_tables. rewrite flat_map_app. cbn [flat_map tmEntries]. rewrite app_nil_r, app_assoc.
      eapply preN_app; [exact Hacc|eapply preN_le; [exact S1|lia]| | |]; lia.
Qed.

Lemma parse_mapscripts_span c f ts tp imp ts' :
  advs T ts -> parse_mapscripts c f ts = Ok (tp, imp, ts') -> spanN (len ts') (len ts) (named_cmds_top tp) imp.
Proof.
  intros A E. unfold Parser.parse_mapscripts in E. bind E as [g0 ts0] eqn E0. cbn zeta in E.
  destruct (expect_peek IDENT ts0) as [ts2|] eqn:P2; [|discriminate].
  destruct (expect_peek LBRACE ts2) as [ts3|] eqn:P3; [|discriminate]. bind E as [[[plain tables] imp1] ts4] eqn E4. inversion E; subst.
  apply expect_peek_some in P2, P3. subst ts2 ts3.
  assert (A3 : advs T (adv (adv (adv ts0)))) by advs_now.
  pose proof (ms_entries_span _ _ _ _ _ _ _ _ _ _ _ (len (adv (adv (adv ts0)))) A3 E4 (preN_nil _ _) (Nat.le_refl _)) as M.
  lenle2 ts ts0. adv_lens. cbn [named_cmds_top]. eapply spanN_weaken; [eapply preN_done; [exact M|apply Nat.le_refl]|lia|lia].
Qed.

Lemma parse_script_span c f ts name g b imp ts' :
  advs T ts -> parse_script c f ts = Ok (name, g, b, imp, ts') -> span name (len ts') (len ts) (cmds b) imp.
Proof.
  intros A E. unfold Parser.parse_script in E. cbn zeta in E. bind E as [g0 ts0] eqn E0.
  destruct (expect_peek IDENT ts0) as [ts2|] eqn:P2; [|discriminate].
  destruct (expect_peek LBRACE ts2) as [ts3|] eqn:P3; [|discriminate]. bind E as [[b0 imp1] ts4] eqn E4. inversion E; subst.
  apply expect_peek_some in P2, P3. subst ts2 ts3.
  assert (A3 : advs T (adv (adv (adv ts0)))) by advs_now.
  pose proof (parse_block_span _ _ _ _ _ _ _ _ A3 E4) as S. lenle2 ts ts0. adv_lens.
  eapply span_weaken; [exact S|lia|lia].
Qed.

(* ====================================================================================================== *)
(*  3. hoisting and patching of one top-level statement                                                     *)
(* ====================================================================================================== *)
(* the label the hoisting state [h] holds for an inline text (content after terminator / format() processing, string type)
   and for a moves() argument (the key of its expanded step list) *)
Definition tlabel (h : hst) (it : imptext) (l : text) : Prop := find_text (hset h) (tlit (itTok it)) (itType it) = Some l.
Definition mlabel (h : hst) (im : impmov) (l : text) : Prop := assoc (hmset h) (mov_key (imToks im)) = Some l.
Definition argT (k : nat) (it : imptext) : bool := Nat.eqb (itArg it) k.
Definition argM (k : nat) (im : impmov) : bool := Nat.eqb (imArg im) k.

(* [c] is a command of the final program inside a body owned by [script]: it is the command [c0] the command parser
   returned at a position of the program, with the same name, token, id and number of arguments; argument k is the
   argument of [c0] overwritten, in this order, by the labels of the inline texts recorded for position k and then by
   the labels of the moves() recorded for position k (no inline item at k: unchanged; one: its label) *)
Definition hoisted (h : hst) (script : text) (c : cmd) : Prop :=
  exists c0 impc, orig script c0 impc /\
    cname c = cname c0 /\ ctok c = ctok c0 /\ Ast.cid c = Ast.cid c0 /\ List.length (cargs c) = List.length (cargs c0) /\
    forall k, exists tl ml,
      Forall2 (tlabel h) (filter (argT k) (idT impc)) tl /\ Forall2 (mlabel h) (filter (argM k) (idM impc)) ml /\
      nth_error (cargs c) k = overwrite (nth_error (cargs c0) k) (tl ++ ml).

Lemma filter_addr_T i k l : filter (addr_T i k) l = filter (argT k) (filter (cidT i) l).
Proof.
  induction l as [|x l IH]; [reflexivity|]. cbn [filter]. unfold addr_T at 1, cidT at 1.
  destruct (Nat.eqb (itCid x) i); cbn [andb filter]; [unfold argT at 1; destruct (Nat.eqb (itArg x) k); now rewrite IH|exact IH].
Qed.
Lemma filter_addr_M i k l : filter (addr_M i k) l = filter (argM k) (filter (cidM i) l).
Proof.
  induction l as [|x l IH]; [reflexivity|]. cbn [filter]. unfold addr_M at 1, cidM at 1.
  destruct (Nat.eqb (imCid x) i); cbn [andb filter]; [unfold argM at 1; destruct (Nat.eqb (imArg x) k); now rewrite IH|exact IH].
Qed.

Lemma own_hoisted script imp c0 h h' ps :
  own script imp c0 -> add_implicit imp h = (h', ps) -> hoisted h' script (pcmd ps c0).
Proof.
  intros (impc & O & FT & FM) HA. pose proof O as (consts & f & ts & ts1 & A & HC).
  destruct (command_inline_data_in_range _ _ _ _ _ _ _ _ _ _ HC) as (_ & _ & _ & BT & BM). rewrite Forall_forall in BT, BM.
  destruct (add_implicit_patches _ _ _ _ HA) as (pt & pm & -> & Ft & Fm).
  destruct (apply_patches_spec (pt ++ pm) c0) as (args' & EA & LA & NA).
  { intros i a l Hin Hi. apply in_app_or in Hin. destruct Hin as [Hin|Hin].
    - destruct (text_patch_in _ _ _ Ft _ _ _ Hin) as (it & Hit & H1 & H2).
      assert (I : In it (idT impc)) by (rewrite <- FT; apply filter_In; split; [exact Hit|unfold cidT; apply Nat.eqb_eq; congruence]).
      destruct (BT it I). lia.
    - destruct (mov_patch_in _ _ _ Fm _ _ _ Hin) as (im & Him & H1 & H2).
      assert (I : In im (idM impc)) by (rewrite <- FM; apply filter_In; split; [exact Him|unfold cidM; apply Nat.eqb_eq; congruence]).
      destruct (BM im I). lia. }
  exists c0, impc. unfold pcmd. rewrite EA. cbn [cname ctok Ast.cid cargs]. split; [exact O|].
  split; [reflexivity|]. split; [reflexivity|]. split; [reflexivity|]. split; [exact LA|].
  intros k. exists (labels_for pt (Ast.cid c0) k), (labels_for pm (Ast.cid c0) k).
  pose proof (labels_for_texts _ _ _ (Ast.cid c0) k Ft) as LT. pose proof (labels_for_movs _ _ _ (Ast.cid c0) k Fm) as LM.
  rewrite filter_addr_T, FT in LT. rewrite filter_addr_M, FM in LM.
  split; [exact LT|]. split; [exact LM|]. rewrite NA, labels_for_app. reflexivity.
Qed.

Lemma hoisted_mono h h' script c :
  (forall v ty l, find_text (hset h) v ty = Some l -> find_text (hset h') v ty = Some l) ->
  (forall k l, assoc (hmset h) k = Some l -> assoc (hmset h') k = Some l) ->
  hoisted h script c -> hoisted h' script c.
Proof.
  intros M1 M2 (c0 & impc & O & E1 & E2 & E3 & E4 & K). exists c0, impc. repeat (split; [assumption|]).
  intros k. destruct (K k) as (tl & ml & F1 & F2 & N). exists tl, ml. split; [|split; [|exact N]].
  - eapply CmdArgs.Forall2_imp; [|exact F1]. intros it l. apply M1.
  - eapply CmdArgs.Forall2_imp; [|exact F2]. intros im l. apply M2.
Qed.

Lemma add_implicit_mono imp h h' ps : add_implicit imp h = (h', ps) ->
  (forall v ty l, find_text (hset h) v ty = Some l -> find_text (hset h') v ty = Some l) /\
  (forall k l, assoc (hmset h) k = Some l -> assoc (hmset h') k = Some l).
Proof.
  unfold add_implicit. destruct (add_texts (idT imp) h []) as [h1 ps1] eqn:E1. intros E2.
  destruct (add_texts_patches _ _ _ _ _ E1) as (M1 & HM & _).
  destruct (add_movs_patches _ _ _ _ _ E2) as (M2 & HS & _). split.
  - intros v ty l Q. rewrite HS. apply M1, Q.
  - intros k l Q. apply M2. rewrite HM. exact Q.
Qed.

Definition all_hoisted (h : hst) (l : list (text * cmd)) : Prop := forall sc, In sc l -> hoisted h (fst sc) (snd sc).

Lemma spanN_hoisted lo hi l imp h h' ps :
  spanN lo hi l imp -> add_implicit imp h = (h', ps) -> all_hoisted h' (map (fun sc => (fst sc, pcmd ps (snd sc))) l).
Proof.
  intros (_ & _ & HC) HA sc Hsc. apply in_map_iff in Hsc. destruct Hsc as ([s c0] & <- & Hin). cbn [fst snd].
  destruct (HC _ Hin) as [_ O]. eapply own_hoisted; eassumption.
Qed.

(* ====================================================================================================== *)
(*  4. whole programs                                                                                      *)
(* ====================================================================================================== *)
Notation parse_tops := (parse_tops autovars switches ee parse_format).
Notation parse_program := (parse_program autovars switches ee parse_format).

Definition patch_named (ps : list patch) (sc : text * cmd) : text * cmd := (fst sc, pcmd ps (snd sc)).

Lemma named_cmds_entries_patch ps es :
  named_cmds_entries (map (fun e => {| teCond := teCond e; teCondLit := teCondLit e; teCmp := teCmp e; teName := teName e;
                                       teScript := match teScript e with Some b => Some (map (pstmt ps) b) | None => None end |}) es) =
  map (patch_named ps) (named_cmds_entries es).
Proof.
  induction es as [|e r IH]; [reflexivity|]. unfold named_cmds_entries in *. cbn [map flat_map teScript teName]. rewrite map_app, IH. f_equal.
  destruct (teScript e) as [b|]; [|reflexivity]. rewrite cmds_pstmt, !map_map. reflexivity.
Qed.

Lemma named_cmds_top_patch ps n g plain tables :
  named_cmds_top (TMapScripts n g
     (map (fun m => {| msType := msType m; msName := msName m;
                       msScript := match msScript m with Some b => Some (map (pstmt ps) b) | None => None end |}) plain)
     (map (fun tb => {| tmType := tmType tb; tmName := tmName tb;
                        tmEntries := map (fun e => {| teCond := teCond e; teCondLit := teCondLit e; teCmp := teCmp e; teName := teName e;
                                                      teScript := match teScript e with Some b => Some (map (pstmt ps) b) | None => None end |}) (tmEntries tb) |}) tables)) =
  map (patch_named ps) (named_cmds_top (TMapScripts n g plain tables)).
Proof.
  cbn [named_cmds_top]. rewrite map_app. f_equal.
  - induction plain as [|m r IH]; [reflexivity|]. unfold named_cmds_plain in *. cbn [map flat_map msScript msName]. rewrite map_app, IH. f_equal.
    destruct (msScript m) as [b|]; [|reflexivity]. rewrite cmds_pstmt, !map_map. reflexivity.
  - induction tables as [|tb r IH]; [reflexivity|]. unfold named_cmds_tables in *. cbn [map flat_map tmEntries]. rewrite map_app, IH. f_equal.
    apply named_cmds_entries_patch.
Qed.

Lemma named_cmds_app a b : named_cmds (a ++ b) = named_cmds a ++ named_cmds b.
Proof. apply flat_map_app. Qed.

Lemma all_hoisted_app h a b : all_hoisted h a -> all_hoisted h b -> all_hoisted h (a ++ b).
Proof. intros Ha Hb sc Hsc. apply in_app_or in Hsc. destruct Hsc; auto. Qed.
Lemma all_hoisted_mono imp h h' ps l : add_implicit imp h = (h', ps) -> all_hoisted h l -> all_hoisted h' l.
Proof. intros HA H sc Hsc. destruct (add_implicit_mono _ _ _ _ HA) as [M1 M2]. eapply hoisted_mono; [exact M1|exact M2|apply H, Hsc]. Qed.

Lemma parse_tops_hoisted f : forall st ts st',
  advs T ts -> parse_tops f st ts = Ok st' -> all_hoisted (ph st) (named_cmds (ptops st)) ->
  all_hoisted (ph st') (named_cmds (ptops st')).
Proof.
  induction f as [|f IH]; intros st ts st' A H Hacc; [discriminate|].
  cbn [Parser.parse_tops] in H. destruct (curis EOF ts); [inversion H; subst; exact Hacc|]. cbn zeta in H.
  destruct (ttype (cur ts)); try discriminate.
  - (* script *)
    bind H as [[[[name g] b] imp] ts1] eqn E. destruct (add_implicit imp (ph st)) as [h' ps] eqn:HA.
    assert (A1 : advs T ts1) by (eapply parse_script_advs; [exact parse_format_advs|exact E|exact A]).
    eapply IH; [apply advs_k_adv; exact A1|exact H|]. cbn [ptops ph]. rewrite named_cmds_app. apply all_hoisted_app.
    + eapply all_hoisted_mono; eassumption.
    + unfold named_cmds. cbn [flat_map named_cmds_top]. rewrite app_nil_r, cmds_pstmt, map_map.
      pose proof (parse_script_span _ _ _ _ _ _ _ _ A E) as S.
      pose proof (spanN_hoisted _ _ _ _ _ _ _ S HA) as X. rewrite map_map in X. exact X.
  - (* raw *)
    bind H as [tp ts1] eqn E. eapply IH; [apply advs_k_adv; eapply parse_raw_advs; [exact E|exact A]|exact H|].
    cbn [ptops ph]. rewrite named_cmds_app. apply all_hoisted_app; [exact Hacc|].
    unfold parse_raw in E. destruct (expect_peek RAWSTRING ts); [|discriminate]. inversion E; subst. intros ? [].
  - (* text *)
    bind H as [td ts1] eqn E. eapply IH; [apply advs_k_adv; eapply parse_text_advs; [exact parse_format_advs|exact E|exact A]|exact H|].
    cbn [ptops ph]. rewrite named_cmds_app. apply all_hoisted_app; [exact Hacc|]. intros ? [].
  - (* movement *)
    bind H as [tp ts1] eqn E. eapply IH; [apply advs_k_adv; eapply parse_movement_advs; [exact E|exact A]|exact H|].
    cbn [ptops ph]. rewrite named_cmds_app. apply all_hoisted_app; [exact Hacc|].
    unfold parse_movement in E. bind E as [g0 ts0] eqn E0.
    destruct (expect_peek IDENT ts0) as [ts2|]; [|discriminate].
    destruct (expect_peek LBRACE ts2) as [ts3|]; [|discriminate]. bind E as [steps ts4] eqn E4. inversion E; subst. intros ? [].
  - (* mart *)
    bind H as [tp ts1] eqn E. eapply IH; [apply advs_k_adv; eapply parse_mart_advs; [exact E|exact A]|exact H|].
    cbn [ptops ph]. rewrite named_cmds_app. apply all_hoisted_app; [exact Hacc|].
    unfold parse_mart in E. bind E as [g0 ts0] eqn E0.
    destruct (expect_peek IDENT ts0) as [ts2|]; [|discriminate].
    destruct (expect_peek LBRACE ts2) as [ts3|]; [|discriminate]. bind E as [items ts4] eqn E4. inversion E; subst. intros ? [].
  - (* mapscripts *)
    bind H as [[tp imp] ts1] eqn E. destruct (add_implicit imp (ph st)) as [h' ps] eqn:HA.
    assert (A1 : advs T ts1) by (eapply parse_mapscripts_advs; [exact parse_format_advs|exact E|exact A]).
    eapply IH; [apply advs_k_adv; exact A1|exact H|]. cbn [ptops ph]. rewrite named_cmds_app. apply all_hoisted_app.
    + eapply all_hoisted_mono; eassumption.
    + pose proof (parse_mapscripts_span _ _ _ _ _ _ A E) as S.
      pose proof (spanN_hoisted _ _ _ _ _ _ _ S HA) as X.
      unfold Parser.parse_mapscripts in E. bind E as [g0 ts0] eqn E0. cbn zeta in E.
      destruct (expect_peek IDENT ts0) as [ts2|] eqn:P2; [|discriminate].
      destruct (expect_peek LBRACE ts2) as [ts3|] eqn:P3; [|discriminate]. bind E as [[[plain tables] imp1] ts4] eqn E4. inversion E; subst.
      unfold named_cmds. cbn [flat_map]. rewrite app_nil_r, named_cmds_top_patch. exact X.
  - (* const *)
    bind H as [c' ts1] eqn E. eapply IH; [apply advs_k_adv; eapply parse_const_advs; [exact E|exact A]|exact H|]. exact Hacc.
Qed.

Lemma named_cmds_mov_defs : forall G pre0, named_cmds (mov_defs pre0 G) = [].
Proof. induction G as [|im r IH]; intros pre0; [reflexivity|]. cbn [mov_defs]. unfold named_cmds in *. cbn [flat_map mov_def named_cmds_top app]. apply IH. Qed.

(* MAIN 1 (no premise on the mode): every command of every body of an accepted program is a hoisted command w.r.t. the
   final hoisting tables *)
Theorem program_commands_hoisted p :
  parse_program T = Ok p ->
  exists st, parse_tops (5 * List.length T + 4) pstate0 T = Ok st /\ all_hoisted (ph st) (named_cmds (tops p)).
Proof.
  intros H. unfold Parser.parse_program in H. fold pstate0 in H.
  destruct (parse_tops (5 * List.length T + 4) pstate0 T) as [st| | |] eqn:E; try discriminate H. cbn beta iota zeta in H.
  destruct (dup_text [] _); [discriminate|]. destruct (dup_mov [] _); [discriminate|]. inversion H; subst. cbn [tops].
  exists st. split; [reflexivity|]. rewrite named_cmds_app. apply all_hoisted_app.
  - eapply parse_tops_hoisted; [apply advs_refl|exact E|intros ? []].
  - destruct (parse_tops_hoists _ _ _ _ _ _ _ _ E) as (imps & pss & R & _). cbn [ph pstate0] in R.
    destruct (hoist_all_table _ _ _ _ _ _ hoist_table_0 R) as [_ M]. rewrite (mt_defs _ _ M), named_cmds_mov_defs. intros ? [].
Qed.
End SPAN.

(* ====================================================================================================== *)
(*  5. what a label of the final tables denotes: definition, emission, sharing, name                        *)
(* ====================================================================================================== *)
Definition is_label (l : text) (i : instr) : bool := match i with ILabel n _ => text_eqb n l | _ => false end.

Lemma filter_marker l mp line : filter (is_label l) (marker mp line) = [].
Proof. unfold marker. destruct mp; reflexivity. Qed.
Lemma filter_data l dir lines : filter (is_label l) (map (fun line => IData dir line) lines) = [].
Proof. induction lines as [|x r IH]; [reflexivity|exact IH]. Qed.

Lemma emit_text_labels mp x l :
  filter (is_label l) (emit_text mp x) = if text_eqb (xname x) l then [ILabel (xname x) (xglob x)] else [].
Proof.
  unfold emit_text. rewrite !filter_app, filter_marker, filter_data, !app_nil_r. cbn [filter is_label].
  destruct (text_eqb (xname x) l); reflexivity.
Qed.

Lemma emit_texts_labels_none mp l : forall txs k, ~ In l (map xname txs) -> filter (is_label l) (emit_texts mp txs k) = [].
Proof.
  induction txs as [|y r IH]; intros k N; [reflexivity|]. cbn [emit_texts]. rewrite !filter_app, emit_text_labels.
  rewrite (Hoisting.text_eqb_neq (xname y) l) by (intros E; apply N; left; exact E).
  rewrite IH by (intros I; apply N; right; exact I). destruct k; reflexivity.
Qed.

(* in the text section of the output a text name that is unique among the texts labels exactly one line *)
Lemma emit_texts_labels mp : forall txs k x, NoDup (map xname txs) -> In x txs ->
  filter (is_label (xname x)) (emit_texts mp txs k) = [ILabel (xname x) (xglob x)].
Proof.
  induction txs as [|y r IH]; intros k x ND I; [destruct I|]. cbn [map] in ND. inversion ND as [|? ? N1 ND']; subst.
  cbn [emit_texts]. rewrite !filter_app, emit_text_labels. destruct I as [->|I].
  - rewrite Hoisting.text_eqb_refl, emit_texts_labels_none by exact N1. destruct k; reflexivity.
  - rewrite (Hoisting.text_eqb_neq (xname y) (xname x)) by (intros E; apply N1; rewrite E; apply in_map; exact I).
    rewrite (IH _ _ ND' I). destruct k; reflexivity.
Qed.

(* a top-level statement's block is a contiguous part of the output *)
Lemma emit_tops_in mp tl opt : forall l i out n tp x,
  emit_tops mp tl opt l i = Emitter.Ok (out, n) -> In tp l -> emit_top mp tl opt tp = Some (Emitter.Ok x) ->
  exists a b, out = a ++ x ++ b.
Proof.
  induction l as [|y r IH]; intros i out n tp x H I E; [destruct I|]. cbn [emit_tops] in H. destruct I as [->|I].
  - rewrite E in H. cbn [bind_i] in H. destruct (emit_tops mp tl opt r (S i)) as [[z m]| | | |]; try discriminate H.
    cbn [bind_i] in H. inversion H; subst. exists (match i with O => [] | _ => [IBlank] end), z. reflexivity.
  - destruct (emit_top mp tl opt y) as [rt|].
    + destruct rt as [u| | | |]; try discriminate H. cbn [bind_i] in H.
      destruct (emit_tops mp tl opt r (S i)) as [[z m]| | | |] eqn:R; try discriminate H. cbn [bind_i] in H. inversion H; subst.
      destruct (IH _ _ _ _ _ R I E) as (a & b & ->). exists ((match i with O => [] | _ => [IBlank] end) ++ u ++ a), b.
      rewrite <- !app_assoc. reflexivity.
    + eapply IH; eassumption.
Qed.

Section LABELS.
Variable autovars : list (text * autovar).
Variable switches : list (text * text).
Variable ee : bool.
Variable parse_format : toks -> res (token * text * text * toks).
Hypothesis EE : ee = true.
Variable T : toks.
Notation parse_tops := (parse_tops autovars switches ee parse_format).
Notation parse_program := (parse_program autovars switches ee parse_format).

(* MAIN 2: the label the final tables hold for an inline text.  (1)(2) it names exactly one text of the program: local,
   with exactly the written content (after terminator / format() processing) and string type; (3) in the emitted
   instructions the text section contains the block of that text - label, then one data line per line of the content -
   and no other line of the text section defines the label; (4) two inline texts have the same label iff they have the
   same (content, type); (5) the label is <script>_Text_<n>: <script> is the script recorded for the FIRST inline text of
   the file (in source order) with that (content, type) and n the number of earlier first appearances of that script *)
Theorem inline_text_label p st it l :
  parse_program T = Ok p -> parse_tops (5 * List.length T + 4) pstate0 T = Ok st -> tlabel (ph st) it l ->
  (exists x, In x (texts p) /\ xname x = l /\ xvalue x = tlit (itTok it) /\ xtype x = itType it /\ xglob x = false /\
     (forall y, In y (texts p) -> xname y = l -> y = x) /\
     List.length (filter (fun y => text_eqb (xname y) l) (texts p)) = 1%nat /\
     forall optimize mp out, emit_program_instrs optimize mp p = Emitter.Ok out ->
       exists a n pre post, out = a ++ emit_texts mp (texts p) n /\
         emit_texts mp (texts p) n = pre ++ emit_text mp x ++ post /\
         filter (is_label l) (emit_texts mp (texts p) n) = [ILabel l false]) /\
  (forall it' l', tlabel (ph st) it' l' -> (tkey it = tkey it' <-> l = l')) /\
  (exists imps pss A fo B P Q,
     hoist_all imps hst0 = (ph st, pss) /\ Forall (parsed_imp autovars switches ee parse_format) imps /\
     new_texts [] (flat_map idT imps) = A ++ fo :: B /\ tkey fo = tkey it /\
     flat_map idT imps = P ++ fo :: Q /\ ~ In (tkey it) (map tkey P) /\
     l = text_label (itScript fo) (owned (itScript fo) (map itScript A))).
Proof.
  intros HP HT HL. unfold tlabel in HL.
  destruct (program_text_label_defined_once _ _ _ _ EE _ _ _ _ _ _ HP HT HL) as (L1 & x & Ix & E1 & E2 & E3 & E4 & U).
  destruct (program_hoisting _ _ _ _ EE _ _ HP) as (st' & imps & pss & HT' & R & PI & [TT MT] & _ & _ & ND & _).
  rewrite HT in HT'. inversion HT'; subst st'. split; [|split].
  - exists x. repeat (split; [assumption|]). intros optimize mp out HO. unfold emit_program_instrs in HO.
    destruct (emit_tops mp (map xname (texts p)) optimize (tops p) 0) as [[a n]| | | |]; try discriminate HO. inversion HO; subst.
    destruct (TextLex.emit_texts_in mp (texts p) n x Ix) as (pre0 & post & E). exists a, n, pre0, post.
    split; [reflexivity|]. split; [exact E|]. rewrite <- E4. apply emit_texts_labels; assumption.
  - intros it' l' HL'. unfold tlabel in HL'. split.
    + unfold tkey. intros E. inversion E as [[Ea Eb]]. rewrite Ea, Eb in HL. congruence.
    + intros <-. apply find_text_some_key in HL, HL'.
      destruct (program_text_label_determines_content _ _ _ _ EE _ _ _ _ _ _ _ _ HP HT HL HL') as [Ea Eb]. unfold tkey. now rewrite Ea, Eb.
  - apply (text_table_lookup _ _ TT) in HL. destruct HL as (A & fo & B & EF & EK & EL).
    assert (IF : In fo (new_texts [] (flat_map idT imps))) by (rewrite EF; apply in_or_app; right; now left).
    destruct (new_texts_inv _ _ _ IF) as (P & Q & EP & _ & NP).
    exists imps, pss, A, fo, B, P, Q. unfold tkey at 2. rewrite EK in NP. repeat (split; [assumption|]). exact EL.
Qed.

(* MAIN 3: the label the final tables hold for a moves() argument.  (1)(2) it names exactly one movement statement of the
   program: local, its steps have the key of the written (expanded) steps - the same step literals when no literal contains
   a colon; (3) the emitted instructions contain the block of that movement (label, then its steps); (4) two moves() have the
   same label iff they have the same key; (5) the label is <script>_Movement_<n> of the first moves() with that key *)
Theorem inline_moves_label p st im l :
  parse_program T = Ok p -> parse_tops (5 * List.length T + 4) pstate0 T = Ok st -> mlabel (ph st) im l ->
  (exists tk steps, In (TMovement l false tk steps) (tops p) /\ mov_key steps = mov_key (imToks im) /\
     (Forall no_colon steps -> Forall no_colon (imToks im) -> map tlit steps = map tlit (imToks im)) /\
     (forall g' tk' steps', In (TMovement l g' tk' steps') (tops p) -> g' = false /\ tk' = tk /\ steps' = steps) /\
     List.length (filter (is_mov_named l) (tops p)) = 1%nat /\
     forall optimize mp out, emit_program_instrs optimize mp p = Emitter.Ok out ->
       exists a b, out = a ++ emit_movement mp l false tk steps ++ b) /\
  (forall im' l', mlabel (ph st) im' l' -> (mkey im = mkey im' <-> l = l')) /\
  (exists imps pss A fo B P Q,
     hoist_all imps hst0 = (ph st, pss) /\ Forall (parsed_imp autovars switches ee parse_format) imps /\
     new_movs [] (flat_map idM imps) = A ++ fo :: B /\ mkey fo = mkey im /\
     flat_map idM imps = P ++ fo :: Q /\ ~ In (mkey im) (map mkey P) /\
     l = mov_label (imScript fo) (owned (imScript fo) (map imScript A))).
Proof.
  intros HP HT HL. unfold mlabel in HL.
  destruct (program_mov_label_defined_once _ _ _ _ EE _ _ _ _ _ HP HT HL) as (L1 & tk & steps & I1 & K1 & U).
  destruct (program_hoisting _ _ _ _ EE _ _ HP) as (st' & imps & pss & HT' & R & PI & [TT MT] & _ & _ & _ & ND).
  rewrite HT in HT'. inversion HT'; subst st'. split; [|split].
  - exists tk, steps. split; [exact I1|]. split; [exact K1|]. split; [intros N1 N2; apply mov_key_injective; assumption|].
    split; [exact U|]. split; [exact L1|]. intros optimize mp out HO. unfold emit_program_instrs in HO.
    destruct (emit_tops mp (map xname (texts p)) optimize (tops p) 0) as [[a n]| | | |] eqn:ET; try discriminate HO. inversion HO; subst.
    destruct (emit_tops_in _ _ _ _ _ _ _ _ _ ET I1 eq_refl) as (a1 & b1 & ->). exists a1, (b1 ++ emit_texts mp (texts p) n).
    rewrite <- !app_assoc. reflexivity.
  - intros im' l' HL'. unfold mlabel in HL'. split.
    + unfold mkey. intros E. rewrite E in HL. congruence.
    + intros <-. apply assoc_some_in in HL, HL'.
      exact (program_mov_label_determines_content _ _ _ _ EE _ _ _ _ _ _ HP HT HL HL').
  - apply (mov_table_lookup _ _ MT) in HL. destruct HL as (A & fo & B & EF & EK & EL).
    assert (IF : In fo (new_movs [] (flat_map idM imps))) by (rewrite EF; apply in_or_app; right; now left).
    destruct (new_movs_inv _ _ _ IF) as (P & Q & EP & _ & NP).
    exists imps, pss, A, fo, B, P, Q. unfold mkey at 2. rewrite EK in NP. repeat (split; [assumption|]). exact EL.
Qed.
End LABELS.

(* ---------- the script recorded with an inline item is the owner of the body the command stands in ---------- *)
Section SCRIPTS.
Variable switches : list (text * text).
Variable ee : bool.
Variable parse_format : toks -> res (token * text * text * toks).
Variable consts : list (text * text).
Notation command_args := (command_args switches ee parse_format consts).
Notation command_stmt := (command_stmt switches ee parse_format consts).

Lemma command_args_scripts script cmdtok cidv : forall f ts depth parts args TT MM r i ts',
  command_args f script cmdtok cidv ts depth parts args {| idT := TT; idM := MM |} = Ok (r, i, ts') ->
  exists nT nM, i = {| idT := TT ++ nT; idM := MM ++ nM |} /\
    Forall (fun it => itScript it = script /\ exists v, tlit (itTok it) = terminate v (itType it)) nT /\
    Forall (fun im => imScript im = script /\ imCmdTok im = cmdtok) nM.
Proof.
  induction f as [|f IH]; intros ts depth parts args TT MM r i ts' H; [discriminate|].
  rewrite CmdArgs.command_args_unfold in H. cbv zeta in H. cbn [idT idM] in H.
  destruct (curis RPAREN ts && Nat.eqb depth 0).
  { inversion H; subst. exists [], []. rewrite !app_nil_r. split; [reflexivity|]. split; constructor. }
  destruct (curis EOF ts); [discriminate|].
  destruct (curis COMMA ts); [exact (IH _ _ _ _ _ _ _ _ _ H)|].
  destruct (curis LPAREN ts); [exact (IH _ _ _ _ _ _ _ _ _ H)|].
  destruct (curis RPAREN ts); [exact (IH _ _ _ _ _ _ _ _ _ H)|].
  destruct (curis FORMAT ts).
  { destruct (parse_format ts) as [[[[tk v] sty] ts1]| | |]; try discriminate.
    destruct (IH _ _ _ _ _ _ _ _ _ H) as (nT & nM & E & FT & FM).
    eexists (_ :: nT), nM. rewrite <- app_assoc in E. split; [exact E|]. split; [|exact FM]. constructor; [split; [reflexivity|eexists; reflexivity]|exact FT]. }
  destruct (curis STRING ts).
  { destruct (IH _ _ _ _ _ _ _ _ _ H) as (nT & nM & E & FT & FM).
    eexists (_ :: nT), nM. rewrite <- app_assoc in E. split; [exact E|]. split; [|exact FM]. constructor; [split; [reflexivity|eexists; reflexivity]|exact FT]. }
  destruct (curis STRINGTYPE ts).
  { destruct (negb (curis STRING (adv ts))); [discriminate|].
    destruct (IH _ _ _ _ _ _ _ _ _ H) as (nT & nM & E & FT & FM).
    eexists (_ :: nT), nM. rewrite <- app_assoc in E. split; [exact E|]. split; [|exact FM]. constructor; [split; [reflexivity|eexists; reflexivity]|exact FT]. }
  destruct (curis MOVES ts).
  { destruct (moves_operator switches ee f ts) as [[mv ts1]| | |]; try discriminate.
    destruct (IH _ _ _ _ _ _ _ _ _ H) as (nT & nM & E & FT & FM).
    eexists nT, (_ :: nM). rewrite <- app_assoc in E. split; [exact E|]. split; [exact FT|]. constructor; [split; reflexivity|exact FM]. }
  exact (IH _ _ _ _ _ _ _ _ _ H).
Qed.

Lemma command_stmt_scripts f script ts c imp ts' :
  command_stmt f script ts = Ok (c, imp, ts') ->
  Forall (fun it => itScript it = script /\ exists v, tlit (itTok it) = terminate v (itType it)) (idT imp) /\
  Forall (fun im => imScript im = script /\ imCmdTok im = ctok c) (idM imp).
Proof.
  intros H. unfold Parser.command_stmt in H. destruct (peekis LPAREN ts).
  - unfold imp0 in H.
    destruct (command_args f script (cur ts) (List.length ts) (adv (adv ts)) 0 [] [] {| idT := []; idM := [] |})
      as [[[args i] ts1]| | |] eqn:E; try discriminate.
    inversion H; subst. cbn [ctok]. destruct (command_args_scripts _ _ _ _ _ _ _ _ _ _ _ _ _ E) as (nT & nM & -> & FT & FM).
    cbn [idT idM app]. auto.
  - inversion H; subst. cbn. split; constructor.
Qed.
End SCRIPTS.

Lemma overwrite_nil o : overwrite o [] = o.
Proof. reflexivity. Qed.
Lemma overwrite_last o ls l : overwrite o (ls ++ [l]) = Some l.
Proof. unfold overwrite. rewrite fold_left_app. reflexivity. Qed.

Lemma Forall2_nil_l {A B} (R : A -> B -> Prop) l : Forall2 R [] l -> l = [].
Proof. intros H. inversion H. reflexivity. Qed.
Lemma Forall2_snoc_l {A B} (R : A -> B -> Prop) a x l : Forall2 R (a ++ [x]) l -> exists l' y, l = l' ++ [y] /\ R x y.
Proof.
  intros H. apply Forall2_app_inv_l in H. destruct H as (l1 & l2 & H1 & H2 & ->).
  inversion H2 as [|? y ? l3 Hy H3]; subst. inversion H3; subst. exists l1, y. auto.
Qed.
Lemma Forall2_in_l {A B} (R : A -> B -> Prop) a l x : Forall2 R a l -> In x a -> exists y, R x y.
Proof. induction 1 as [|a0 y0 a l Hy _ IH]; intros I; [destruct I|]. destruct I as [<-|I]; eauto. Qed.

(* every body of the program is a named body *)
Lemma body_named l b : In b (bodies_of l) -> exists script, forall c, In c (cmds b) -> In (script, c) (named_cmds l).
Proof.
  unfold bodies_of, named_cmds. intros H. apply in_flat_map in H. destruct H as (tp & Itp & Ib).
  destruct tp as [n g body|v ln| |n g tk st|n g tk items itoks|n g plain tables]; cbn [bodies_of_top] in Ib; try (destruct Ib; fail).
  - destruct Ib as [<-|[]]. exists n. intros c Ic. apply in_flat_map. eexists. split; [exact Itp|]. cbn [named_cmds_top].
    apply in_map. exact Ic.
  - apply in_app_or in Ib. destruct Ib as [Ib|Ib].
    + apply in_flat_map in Ib. destruct Ib as (m & Im & Ib). destruct (msScript m) as [b0|] eqn:Em; [|destruct Ib]. destruct Ib as [<-|[]].
      exists (msName m). intros c Ic. apply in_flat_map. exists (TMapScripts n g plain tables). split; [exact Itp|]. cbn [named_cmds_top].
      apply in_or_app. left. unfold named_cmds_plain. apply in_flat_map. exists m. split; [exact Im|]. rewrite Em. apply in_map. exact Ic.
    + apply in_flat_map in Ib. destruct Ib as (tb & Itb & Ib). apply in_flat_map in Ib. destruct Ib as (e & Ie & Ib).
      destruct (teScript e) as [b0|] eqn:Ee; [|destruct Ib]. destruct Ib as [<-|[]].
      exists (teName e). intros c Ic. apply in_flat_map. exists (TMapScripts n g plain tables). split; [exact Itp|]. cbn [named_cmds_top].
      apply in_or_app. right. unfold named_cmds_tables. apply in_flat_map. exists tb. split; [exact Itb|].
      unfold named_cmds_entries. apply in_flat_map. exists e. split; [exact Ie|]. rewrite Ee. apply in_map. exact Ic.
Qed.

(* ====================================================================================================== *)
(*  6. the program-level statement                                                                          *)
(* ====================================================================================================== *)
Section PROGRAM.
Variable autovars : list (text * autovar).
Variable switches : list (text * text).
Variable ee : bool.
Variable parse_format : toks -> res (token * text * text * toks).
Hypothesis parse_format_advs : forall ts tk v sty ts', parse_format ts = Ok (tk, v, sty, ts') -> forall a, advs a ts -> advs a ts'.
Variable T : toks.
Notation parse_tops := (parse_tops autovars switches ee parse_format).
Notation parse_program := (parse_program autovars switches ee parse_format).
Notation orig := (orig switches ee parse_format T).

(* MAIN 4: EVERY command [c] of EVERY body (script statement or inline map script, owner name [script]; at any depth, also
   the commands in front of conditions) of an accepted program is the command [c0] that the command parser returned at a
   position of the program, and its arguments are: unchanged where nothing inline was written; the label of the inline
   text where (one or several, the last wins) inline texts and no moves() were written; the label of the (last) moves()
   where one was written.  Every inline item of the command - also an overwritten one - has a label in the final tables
   [ph st], and is recorded with the owner's name.  What these labels denote: inline_text_label / inline_moves_label. *)
Theorem program_inline_arguments p :
  parse_program T = Ok p ->
  exists st, parse_tops (5 * List.length T + 4) pstate0 T = Ok st /\
  forall script c, In (script, c) (named_cmds (tops p)) ->
  exists c0 impc,
    orig script c0 impc /\
    cname c = cname c0 /\ ctok c = ctok c0 /\ Ast.cid c = Ast.cid c0 /\ List.length (cargs c) = List.length (cargs c0) /\
    (forall k, filter (argT k) (idT impc) = [] -> filter (argM k) (idM impc) = [] -> nth_error (cargs c) k = nth_error (cargs c0) k) /\
    (forall k pre0 it, filter (argT k) (idT impc) = pre0 ++ [it] -> filter (argM k) (idM impc) = [] ->
       exists l, nth_error (cargs c) k = Some l /\ tlabel (ph st) it l) /\
    (forall k pre0 im, filter (argM k) (idM impc) = pre0 ++ [im] ->
       exists l, nth_error (cargs c) k = Some l /\ mlabel (ph st) im l) /\
    (forall it, In it (idT impc) ->
       itCid it = Ast.cid c /\ (itArg it < List.length (cargs c))%nat /\ itScript it = script /\
       (exists v, tlit (itTok it) = terminate v (itType it)) /\ exists l, tlabel (ph st) it l) /\
    (forall im, In im (idM impc) ->
       imCid im = Ast.cid c /\ (imArg im < List.length (cargs c))%nat /\ imScript im = script /\ imCmdTok im = ctok c /\
       exists l, mlabel (ph st) im l).
Proof.
  intros HP. destruct (program_commands_hoisted autovars switches ee parse_format parse_format_advs T p HP) as (st & HT & AH).
  exists st. split; [exact HT|]. intros script c Hin. destruct (AH _ Hin) as (c0 & impc & O & E1 & E2 & E3 & E4 & K). cbn [fst snd] in *.
  exists c0, impc. split; [exact O|]. repeat (split; [assumption|]).
  pose proof O as (consts & f & ts & ts1 & A & HC).
  destruct (command_inline_data_in_range _ _ _ _ _ _ _ _ _ _ HC) as (_ & _ & _ & BT & BM). rewrite Forall_forall in BT, BM.
  destruct (command_stmt_scripts _ _ _ _ _ _ _ _ _ _ HC) as (ST & SM). rewrite Forall_forall in ST, SM.
  split; [|split; [|split; [|split]]].
  - intros k HTk HMk. destruct (K k) as (tl & ml & F1 & F2 & N). rewrite HTk in F1. rewrite HMk in F2.
    apply Forall2_nil_l in F1, F2. subst. exact N.
  - intros k pre0 it HTk HMk. destruct (K k) as (tl & ml & F1 & F2 & N). rewrite HTk in F1. rewrite HMk in F2.
    apply Forall2_nil_l in F2. subst ml. destruct (Forall2_snoc_l _ _ _ _ F1) as (tl' & l & -> & HL).
    exists l. split; [|exact HL]. rewrite N, app_nil_r. apply overwrite_last.
  - intros k pre0 im HMk. destruct (K k) as (tl & ml & F1 & F2 & N). rewrite HMk in F2.
    destruct (Forall2_snoc_l _ _ _ _ F2) as (ml' & l & -> & HL).
    exists l. split; [|exact HL]. rewrite N, app_assoc. apply overwrite_last.
  - intros it Hit. destruct (BT it Hit) as [B1 B2]. split; [congruence|]. split; [lia|]. split; [apply ST, Hit|]. split; [apply ST, Hit|].
    destruct (K (itArg it)) as (tl & ml & F1 & _ & _). eapply Forall2_in_l; [exact F1|]. apply filter_In. split; [exact Hit|].
    unfold argT. apply Nat.eqb_refl.
  - intros im Him. destruct (BM im Him) as [B1 B2]. destruct (SM im Him) as [S1 S2]. split; [congruence|]. split; [lia|].
    split; [exact S1|]. split; [congruence|].
    destruct (K (imArg im)) as (tl & ml & _ & F2 & _). eapply Forall2_in_l; [exact F2|]. apply filter_In. split; [exact Him|].
    unfold argM. apply Nat.eqb_refl.
Qed.

(* the same on the sites of AutoVarProgram.v: a command statement of a block at any depth of a body, or the command in
   front of a leaf of a condition at any depth of a body *)
Corollary program_command_sites p body c :
  parse_program T = Ok p -> In body (bodies_of (tops p)) -> cmd_at c body ->
  exists script, In (script, c) (named_cmds (tops p)).
Proof.
  intros _ HB HC. destruct (body_named _ _ HB) as (script & HS). exists script. apply HS, cmd_at_cmds, HC.
Qed.
End PROGRAM.

(* ====================================================================================================== *)
(*  7. composition: arguments of commands -> definitions and emitted blocks (real compilation, ee = true)   *)
(* ====================================================================================================== *)
Section FINAL.
Variable autovars : list (text * autovar).
Variable switches : list (text * text).
Variable parse_format : toks -> res (token * text * text * toks).
Hypothesis parse_format_advs : forall ts tk v sty ts', parse_format ts = Ok (tk, v, sty, ts') -> forall a, advs a ts -> advs a ts'.
Variable T : toks.
Notation parse_program := (parse_program autovars switches true parse_format).
Notation orig := (orig switches true parse_format T).

(* MAIN 5 (texts): an argument written with an inline text (STRING, TYPE STRING or format(); when several inline texts
   were written in one argument, the last) and no moves() is, in the final program, the name of exactly one text of the
   program, local, whose value is the written content after terminator / format() processing and whose type is the
   written string type; the emitted text section contains its block and defines the label nowhere else *)
Theorem inline_text_argument_defined p :
  parse_program T = Ok p ->
  forall script c, In (script, c) (named_cmds (tops p)) ->
  exists c0 impc, orig script c0 impc /\ cname c = cname c0 /\ ctok c = ctok c0 /\ Ast.cid c = Ast.cid c0 /\
    forall k pre0 it, filter (argT k) (idT impc) = pre0 ++ [it] -> filter (argM k) (idM impc) = [] ->
    exists l x, nth_error (cargs c) k = Some l /\ itScript it = script /\ (exists v, tlit (itTok it) = terminate v (itType it)) /\
      In x (texts p) /\ xname x = l /\ xvalue x = tlit (itTok it) /\ xtype x = itType it /\ xglob x = false /\
      (forall y, In y (texts p) -> xname y = l -> y = x) /\
      forall optimize mp out, emit_program_instrs optimize mp p = Emitter.Ok out ->
        exists a n pre post, out = a ++ emit_texts mp (texts p) n /\
          emit_texts mp (texts p) n = pre ++ emit_text mp x ++ post /\
          filter (is_label l) (emit_texts mp (texts p) n) = [ILabel l false].
Proof.
  intros HP script c Hin.
  destruct (program_inline_arguments autovars switches true parse_format parse_format_advs T p HP) as (st & HT & K).
  destruct (K _ _ Hin) as (c0 & impc & O & E1 & E2 & E3 & _ & _ & KT & _ & KI & _).
  exists c0, impc. repeat (split; [assumption|]). intros k pre0 it F1 F2. destruct (KT _ _ _ F1 F2) as (l & N & HL).
  destruct (inline_text_label autovars switches true parse_format eq_refl T p st it l HP HT HL) as ((x & Ix & X1 & X2 & X3 & X4 & U & _ & EM) & _ & _).
  assert (Iit : In it (idT impc)).
  { assert (I : In it (filter (argT k) (idT impc))) by (rewrite F1; apply in_or_app; right; now left). apply filter_In in I. tauto. }
  destruct (KI it Iit) as (_ & _ & SS & TV & _).
  exists l, x. repeat (split; [assumption|]). exact EM.
Qed.

(* MAIN 5 (movements): an argument written with moves() (the last one, when several were written) is the name of exactly
   one movement statement of the program, local, with the key of the written steps (the same step literals when no
   literal contains a colon), and the emitted instructions contain its block *)
Theorem inline_moves_argument_defined p :
  parse_program T = Ok p ->
  forall script c, In (script, c) (named_cmds (tops p)) ->
  exists c0 impc, orig script c0 impc /\ cname c = cname c0 /\ ctok c = ctok c0 /\ Ast.cid c = Ast.cid c0 /\
    forall k pre0 im, filter (argM k) (idM impc) = pre0 ++ [im] ->
    exists l tk steps, nth_error (cargs c) k = Some l /\ imScript im = script /\
      In (TMovement l false tk steps) (tops p) /\ mov_key steps = mov_key (imToks im) /\
      (Forall no_colon steps -> Forall no_colon (imToks im) -> map tlit steps = map tlit (imToks im)) /\
      (forall g' tk' steps', In (TMovement l g' tk' steps') (tops p) -> g' = false /\ tk' = tk /\ steps' = steps) /\
      forall optimize mp out, emit_program_instrs optimize mp p = Emitter.Ok out ->
        exists a b, out = a ++ emit_movement mp l false tk steps ++ b.
Proof.
  intros HP script c Hin.
  destruct (program_inline_arguments autovars switches true parse_format parse_format_advs T p HP) as (st & HT & K).
  destruct (K _ _ Hin) as (c0 & impc & O & E1 & E2 & E3 & _ & _ & _ & KM & _ & KI).
  exists c0, impc. repeat (split; [assumption|]). intros k pre0 im F2. destruct (KM _ _ _ F2) as (l & N & HL).
  destruct (inline_moves_label autovars switches true parse_format eq_refl T p st im l HP HT HL) as ((tk & steps & I1 & K1 & K2 & U & _ & EM) & _ & _).
  assert (Iim : In im (idM impc)).
  { assert (I : In im (filter (argM k) (idM impc))) by (rewrite F2; apply in_or_app; right; now left). apply filter_In in I. tauto. }
  destruct (KI im Iim) as (_ & _ & SS & _).
  exists l, tk, steps. repeat (split; [assumption|]). exact EM.
Qed.

(* MAIN 6 (sharing, whole file): two arguments written with inline texts - in any two commands of any two bodies - are the
   same label iff the written (content, type) pairs are the same; likewise for moves() and their keys *)
Theorem inline_arguments_share_labels p :
  parse_program T = Ok p ->
  forall s1 c1 s2 c2, In (s1, c1) (named_cmds (tops p)) -> In (s2, c2) (named_cmds (tops p)) ->
  exists c01 impc1 c02 impc2, orig s1 c01 impc1 /\ Ast.cid c1 = Ast.cid c01 /\ orig s2 c02 impc2 /\ Ast.cid c2 = Ast.cid c02 /\
    (forall k1 p1 it1 k2 p2 it2,
       filter (argT k1) (idT impc1) = p1 ++ [it1] -> filter (argM k1) (idM impc1) = [] ->
       filter (argT k2) (idT impc2) = p2 ++ [it2] -> filter (argM k2) (idM impc2) = [] ->
       (nth_error (cargs c1) k1 = nth_error (cargs c2) k2 <-> tkey it1 = tkey it2)) /\
    (forall k1 p1 im1 k2 p2 im2,
       filter (argM k1) (idM impc1) = p1 ++ [im1] -> filter (argM k2) (idM impc2) = p2 ++ [im2] ->
       (nth_error (cargs c1) k1 = nth_error (cargs c2) k2 <-> mkey im1 = mkey im2)).
Proof.
  intros HP s1 c1 s2 c2 H1 H2.
  destruct (program_inline_arguments autovars switches true parse_format parse_format_advs T p HP) as (st & HT & K).
  destruct (K _ _ H1) as (c01 & impc1 & O1 & _ & _ & E1 & _ & _ & KT1 & KM1 & _).
  destruct (K _ _ H2) as (c02 & impc2 & O2 & _ & _ & E2 & _ & _ & KT2 & KM2 & _).
  exists c01, impc1, c02, impc2. repeat (split; [assumption|]). split.
  - intros k1 p1 it1 k2 p2 it2 F1 G1 F2 G2. destruct (KT1 _ _ _ F1 G1) as (l1 & N1 & L1). destruct (KT2 _ _ _ F2 G2) as (l2 & N2 & L2).
    rewrite N1, N2.
    destruct (inline_text_label autovars switches true parse_format eq_refl T p st it1 l1 HP HT L1) as (_ & SH & _).
    rewrite (SH it2 l2 L2). split; [intros E; congruence|intros ->; reflexivity].
  - intros k1 p1 im1 k2 p2 im2 F1 F2. destruct (KM1 _ _ _ F1) as (l1 & N1 & L1). destruct (KM2 _ _ _ F2) as (l2 & N2 & L2).
    rewrite N1, N2.
    destruct (inline_moves_label autovars switches true parse_format eq_refl T p st im1 l1 HP HT L1) as (_ & SH & _).
    rewrite (SH im2 l2 L2). split; [intros E; congruence|intros ->; reflexivity].
Qed.
End FINAL.

Section NAMES.
Variable autovars : list (text * autovar).
Variable switches : list (text * text).
Variable parse_format : toks -> res (token * text * text * toks).
Hypothesis parse_format_advs : forall ts tk v sty ts', parse_format ts = Ok (tk, v, sty, ts') -> forall a, advs a ts -> advs a ts'.
Variable T : toks.
Notation parse_program := (parse_program autovars switches true parse_format).
Notation orig := (orig switches true parse_format T).

(* MAIN 7 (names): there is the list [imps] of the inline data of the script / mapscripts statements of the file, in source
   order, such that the label of an argument written with an inline text is <script>_Text_<n>, where <script> is the
   script recorded with the FIRST inline text [fo] of the file with that (content, type) and n the number of DIFFERENT
   (content, type) pairs first used by that script before [fo]; likewise <script>_Movement_<n> for moves() *)
Theorem inline_argument_names p :
  parse_program T = Ok p ->
  exists imps, Forall (parsed_imp autovars switches true parse_format) imps /\
  forall script c, In (script, c) (named_cmds (tops p)) ->
  exists c0 impc, orig script c0 impc /\ Ast.cid c = Ast.cid c0 /\
    (forall k pre0 it, filter (argT k) (idT impc) = pre0 ++ [it] -> filter (argM k) (idM impc) = [] ->
       exists A fo B P Q,
         new_texts [] (flat_map idT imps) = A ++ fo :: B /\ tkey fo = tkey it /\
         flat_map idT imps = P ++ fo :: Q /\ ~ In (tkey it) (map tkey P) /\
         nth_error (cargs c) k = Some (text_label (itScript fo) (owned (itScript fo) (map itScript A)))) /\
    (forall k pre0 im, filter (argM k) (idM impc) = pre0 ++ [im] ->
       exists A fo B P Q,
         new_movs [] (flat_map idM imps) = A ++ fo :: B /\ mkey fo = mkey im /\
         flat_map idM imps = P ++ fo :: Q /\ ~ In (mkey im) (map mkey P) /\
         nth_error (cargs c) k = Some (mov_label (imScript fo) (owned (imScript fo) (map imScript A)))).
Proof.
  intros HP.
  destruct (program_inline_arguments autovars switches true parse_format parse_format_advs T p HP) as (st & HT & K).
  destruct (program_hoisting _ _ _ _ eq_refl _ _ HP) as (st' & imps & pss & HT' & R & PI & [TT MT] & _).
  rewrite HT in HT'. inversion HT'; subst st'.
  exists imps. split; [exact PI|]. intros script c Hin.
  destruct (K _ _ Hin) as (c0 & impc & O & _ & _ & E3 & _ & _ & KT & KM & _).
  exists c0, impc. split; [exact O|]. split; [exact E3|]. split.
  - intros k pre0 it F1 F2. destruct (KT _ _ _ F1 F2) as (l & N & HL). unfold tlabel in HL.
    apply (text_table_lookup _ _ TT) in HL. destruct HL as (A & fo & B & EF & EK & EL).
    assert (IF : In fo (new_texts [] (flat_map idT imps))) by (rewrite EF; apply in_or_app; right; now left).
    destruct (new_texts_inv _ _ _ IF) as (P & Q & EP & _ & NP).
    exists A, fo, B, P, Q. unfold tkey at 2. rewrite EK in NP. repeat (split; [assumption|]). rewrite N, EL. reflexivity.
  - intros k pre0 im F2. destruct (KM _ _ _ F2) as (l & N & HL). unfold mlabel in HL.
    apply (mov_table_lookup _ _ MT) in HL. destruct HL as (A & fo & B & EF & EK & EL).
    assert (IF : In fo (new_movs [] (flat_map idM imps))) by (rewrite EF; apply in_or_app; right; now left).
    destruct (new_movs_inv _ _ _ IF) as (P & Q & EP & _ & NP).
    exists A, fo, B, P, Q. unfold mkey at 2. rewrite EK in NP. repeat (split; [assumption|]). rewrite N, EL. reflexivity.
Qed.
End NAMES.


(* ====================================================================================================== *)
(*  8. THE THEOREMS ON SOURCE TEXTS (real compilation): any source text, any classification of non-ASCII    *)
(*     code points, any command configuration, switches and fonts                                           *)
(* ====================================================================================================== *)
Section SOURCE.
Variables (hl hd hs : N -> bool) (autovars : list (text * autovar)) (switches : list (text * text))
          (fc : Format.fontcfg) (cli_font : text) (cli_maxlen : Z) (s : text).
Notation pf := (Format.parse_format fc cli_font cli_maxlen true).
Notation TS := (lex hl hd hs s).
Notation parse_program := (parse_program autovars switches true pf).
Notation parse_tops := (parse_tops autovars switches true pf).
Notation orig := (orig switches true pf TS).

Theorem compiled_commands_are_patched_commands p :
  parse_program TS = Ok p ->
  exists st, parse_tops (5 * List.length TS + 4) pstate0 TS = Ok st /\
  forall script c, In (script, c) (named_cmds (tops p)) ->
  exists c0 impc,
    orig script c0 impc /\
    cname c = cname c0 /\ ctok c = ctok c0 /\ Ast.cid c = Ast.cid c0 /\ List.length (cargs c) = List.length (cargs c0) /\
    (forall k, filter (argT k) (idT impc) = [] -> filter (argM k) (idM impc) = [] -> nth_error (cargs c) k = nth_error (cargs c0) k) /\
    (forall k pre0 it, filter (argT k) (idT impc) = pre0 ++ [it] -> filter (argM k) (idM impc) = [] ->
       exists l, nth_error (cargs c) k = Some l /\ tlabel (ph st) it l) /\
    (forall k pre0 im, filter (argM k) (idM impc) = pre0 ++ [im] ->
       exists l, nth_error (cargs c) k = Some l /\ mlabel (ph st) im l) /\
    (forall it, In it (idT impc) ->
       itCid it = Ast.cid c /\ (itArg it < List.length (cargs c))%nat /\ itScript it = script /\
       (exists v, tlit (itTok it) = terminate v (itType it)) /\ exists l, tlabel (ph st) it l) /\
    (forall im, In im (idM impc) ->
       imCid im = Ast.cid c /\ (imArg im < List.length (cargs c))%nat /\ imScript im = script /\ imCmdTok im = ctok c /\
       exists l, mlabel (ph st) im l).
Proof. apply program_inline_arguments. apply ProgSrc.parse_format_advs. Qed.

Theorem compiled_inline_text_argument p :
  parse_program TS = Ok p ->
  forall script c, In (script, c) (named_cmds (tops p)) ->
  exists c0 impc, orig script c0 impc /\ cname c = cname c0 /\ ctok c = ctok c0 /\ Ast.cid c = Ast.cid c0 /\
    forall k pre0 it, filter (argT k) (idT impc) = pre0 ++ [it] -> filter (argM k) (idM impc) = [] ->
    exists l x, nth_error (cargs c) k = Some l /\ itScript it = script /\ (exists v, tlit (itTok it) = terminate v (itType it)) /\
      In x (texts p) /\ xname x = l /\ xvalue x = tlit (itTok it) /\ xtype x = itType it /\ xglob x = false /\
      (forall y, In y (texts p) -> xname y = l -> y = x) /\
      forall optimize mp out, emit_program_instrs optimize mp p = Emitter.Ok out ->
        exists a n pre post, out = a ++ emit_texts mp (texts p) n /\
          emit_texts mp (texts p) n = pre ++ emit_text mp x ++ post /\
          filter (is_label l) (emit_texts mp (texts p) n) = [ILabel l false].
Proof. apply inline_text_argument_defined. apply ProgSrc.parse_format_advs. Qed.

Theorem compiled_inline_moves_argument p :
  parse_program TS = Ok p ->
  forall script c, In (script, c) (named_cmds (tops p)) ->
  exists c0 impc, orig script c0 impc /\ cname c = cname c0 /\ ctok c = ctok c0 /\ Ast.cid c = Ast.cid c0 /\
    forall k pre0 im, filter (argM k) (idM impc) = pre0 ++ [im] ->
    exists l tk steps, nth_error (cargs c) k = Some l /\ imScript im = script /\
      In (TMovement l false tk steps) (tops p) /\ mov_key steps = mov_key (imToks im) /\
      (Forall no_colon steps -> Forall no_colon (imToks im) -> map tlit steps = map tlit (imToks im)) /\
      (forall g' tk' steps', In (TMovement l g' tk' steps') (tops p) -> g' = false /\ tk' = tk /\ steps' = steps) /\
      forall optimize mp out, emit_program_instrs optimize mp p = Emitter.Ok out ->
        exists a b, out = a ++ emit_movement mp l false tk steps ++ b.
Proof. apply inline_moves_argument_defined. apply ProgSrc.parse_format_advs. Qed.

Theorem compiled_inline_arguments_share_labels p :
  parse_program TS = Ok p ->
  forall s1 c1 s2 c2, In (s1, c1) (named_cmds (tops p)) -> In (s2, c2) (named_cmds (tops p)) ->
  exists c01 impc1 c02 impc2, orig s1 c01 impc1 /\ Ast.cid c1 = Ast.cid c01 /\ orig s2 c02 impc2 /\ Ast.cid c2 = Ast.cid c02 /\
    (forall k1 p1 it1 k2 p2 it2,
       filter (argT k1) (idT impc1) = p1 ++ [it1] -> filter (argM k1) (idM impc1) = [] ->
       filter (argT k2) (idT impc2) = p2 ++ [it2] -> filter (argM k2) (idM impc2) = [] ->
       (nth_error (cargs c1) k1 = nth_error (cargs c2) k2 <-> tkey it1 = tkey it2)) /\
    (forall k1 p1 im1 k2 p2 im2,
       filter (argM k1) (idM impc1) = p1 ++ [im1] -> filter (argM k2) (idM impc2) = p2 ++ [im2] ->
       (nth_error (cargs c1) k1 = nth_error (cargs c2) k2 <-> mkey im1 = mkey im2)).
Proof. apply inline_arguments_share_labels. apply ProgSrc.parse_format_advs. Qed.

Theorem compiled_inline_argument_names p :
  parse_program TS = Ok p ->
  exists imps, Forall (parsed_imp autovars switches true pf) imps /\
  forall script c, In (script, c) (named_cmds (tops p)) ->
  exists c0 impc, orig script c0 impc /\ Ast.cid c = Ast.cid c0 /\
    (forall k pre0 it, filter (argT k) (idT impc) = pre0 ++ [it] -> filter (argM k) (idM impc) = [] ->
       exists A fo B P Q,
         new_texts [] (flat_map idT imps) = A ++ fo :: B /\ tkey fo = tkey it /\
         flat_map idT imps = P ++ fo :: Q /\ ~ In (tkey it) (map tkey P) /\
         nth_error (cargs c) k = Some (text_label (itScript fo) (owned (itScript fo) (map itScript A)))) /\
    (forall k pre0 im, filter (argM k) (idM impc) = pre0 ++ [im] ->
       exists A fo B P Q,
         new_movs [] (flat_map idM imps) = A ++ fo :: B /\ mkey fo = mkey im /\
         flat_map idM imps = P ++ fo :: Q /\ ~ In (mkey im) (map mkey P) /\
         nth_error (cargs c) k = Some (mov_label (imScript fo) (owned (imScript fo) (map imScript A)))).
Proof. apply inline_argument_names. apply ProgSrc.parse_format_advs. Qed.
End SOURCE.

(* ====================================================================================================== *)
(*  9. Examples: the hypotheses are satisfiable; what the model does in the corner cases; a counterexample   *)
(* ====================================================================================================== *)
Module Examples.
Open Scope string_scope.
Definition nf (_ : N) : bool := false.
Definition fc0 : Format.fontcfg := {| Format.fcDefault := []; Format.fcFonts := [] |}.
Definition show (x : text) : string := string_of_list_ascii (map ascii_of_N x).
Definition ex_av : list (text * autovar) := [(t "getx", {| avName := t "VAR_RESULT"; avPos := None |})].
Definition ex_src : string :=
  "script A { msgbox(""hi"") applymovement(2, moves(walk_up * 2 walk_down)) foo(1, ""a"" x ""b"", moves(x) ""c"") }
   script B { if (getx(""hi"") == 1) { msgbox(ascii""hi"") } msgbox(""hi"") bar(moves(walk_up walk_up walk_down)) }
   mapscripts M { ON_LOAD { msgbox(""yo"") msgbox(""hi"") } }".
Definition ex_T : toks := lex nf nf nf (t ex_src).
Definition ex_parse := parse_program ex_av [] true (Format.parse_format fc0 [] 0%Z true) ex_T.
Definition ex_p : program := match ex_parse with Ok p => p | _ => {| tops := []; texts := [] |} end.
Definition view_cmd (sc : text * cmd) := (show (fst sc), show (cname (snd sc)), map show (cargs (snd sc))).

(* the hypotheses of the theorems of section 8 hold: the program is accepted, and these are its commands.  "hi" is shared by
   script A, the AutoVar command getx in front of B's condition, B's body and the inline map script; ascii"hi" is another
   text; moves(walk_up * 2 walk_down) and moves(walk_up walk_up walk_down) expand to the same steps and share A_Movement_0.
   In  foo(1, "a" x "b", moves(x) "c")  the second argument has two inline texts: the LAST wins (A_Text_2), the first is
   defined (A_Text_1) but not referenced, and the plain piece x is dropped; in the third argument the moves() wins over the text written after it. *)
Example ex_accepted : ex_parse = Ok ex_p.
Proof. vm_compute. reflexivity. Qed.
Example ex_commands :
  map view_cmd (named_cmds (tops ex_p)) =
  [("A", "msgbox", ["A_Text_0"]); ("A", "applymovement", ["2"; "A_Movement_0"]); ("A", "foo", ["1"; "A_Text_2"; "A_Movement_1"]);
   ("B", "getx", ["A_Text_0"]); ("B", "msgbox", ["B_Text_0"]); ("B", "msgbox", ["A_Text_0"]); ("B", "bar", ["A_Movement_0"]);
   ("M_ON_LOAD", "msgbox", ["M_ON_LOAD_Text_0"]); ("M_ON_LOAD", "msgbox", ["A_Text_0"])].
Proof. vm_compute. reflexivity. Qed.
Example ex_texts :
  map (fun x => (show (xname x), show (xvalue x), show (xtype x), xglob x)) (texts ex_p) =
  [("A_Text_0", "hi$", "", false); ("A_Text_1", "a$", "", false); ("A_Text_2", "b$", "", false); ("A_Text_3", "c$", "", false);
   ("B_Text_0", "hi\0", "ascii", false); ("M_ON_LOAD_Text_0", "yo$", "", false)].
Proof. vm_compute. reflexivity. Qed.

(* COUNTEREXAMPLE to "the label is defined exactly once in the whole output": the name check of parse_program compares text
   names with text names and movement names with movement names only; a SCRIPT named like a generated text label is accepted
   and the output defines the label twice (as the script S_Text_0 and as the text).  This is why (3) is stated for the text
   section / the movement statements. *)
Definition cx_src : string := "script S_Text_0 { end } script S { msgbox(""hi"") }".
Definition cx_parse := parse_program [] [] true (Format.parse_format fc0 [] 0%Z true) (lex nf nf nf (t cx_src)).
Definition cx_p : program := match cx_parse with Ok p => p | _ => {| tops := []; texts := [] |} end.
Example label_defined_twice_in_output :
  cx_parse = Ok cx_p /\
  exists out, emit_program_instrs false None cx_p = Emitter.Ok out /\
    filter (is_label (t "S_Text_0")) out = [ILabel (t "S_Text_0") true; ILabel (t "S_Text_0") false].
Proof. split; [vm_compute; reflexivity|]. eexists. split; vm_compute; reflexivity. Qed.
End Examples.

