(* C01 / C04: the worklist neither loses nor duplicates a statement: for every measure of statement lists (here: the
   user labels), what the pending and finished chunks carry is a permutation of what the script body carries.  Consequence:
   the chunk labels of the final graph are exactly the labels the author wrote, so the label premise of C01 (labels_okb)
   follows from 'the labels of a script are pairwise distinct'. *)
From Coq Require Import List String Ascii ZArith NArith Lia Bool Permutation.
From Pory Require Import Lexer Ast Emitter Sem2 SemTgt Tr EmitProps RenderCheck LabelSim C01Final Worklist.
From Pory Require SrcWf.
Import ListNotations.
Open Scope list_scope.

Section MEASURE.
Variable X : Type.
Variable M : list stmt -> list X.
Hypothesis M_nil : M [] = [].

Definition Mrem (cs : list chunk) : list X := List.concat (map (fun c => M (cstmts c)) cs).
Lemma Mrem_app a b : Mrem (a ++ b) = Mrem a ++ Mrem b.
Proof. unfold Mrem. now rewrite map_app, List.concat_app. Qed.
Lemma Mrem_cons c cs : Mrem (c :: cs) = M (cstmts c) ++ Mrem cs.
Proof. reflexivity. Qed.
Lemma Mrem_prebranched cs : Forall prebranched cs -> Mrem cs = [].
Proof. induction 1 as [|c r (E & _) _ IH]; [reflexivity|]. unfold Mrem in *. cbn. rewrite E, M_nil, IH. reflexivity. Qed.
Definition Msub (s : stmt) : list X := List.concat (map M (subblocks s)).

Lemma sfb_M cur pre s rest' cn post ret c0 :
  cstmts cur = pre ++ s :: rest' -> split_for_branch cur (List.length pre) cn = (post, ret, c0) -> Mrem post = M rest'.
Proof.
  intros E H. destruct (sfb_spec _ _ _ _ _ _ _ _ E H) as [(-> & -> & -> & ->)|(N & -> & -> & ->)].
  - unfold Mrem. cbn. now rewrite M_nil.
  - unfold Mrem. cbn. now rewrite app_nil_r.
Qed.
Lemma bodies_M : forall bodies cn ret cs c', mk_body_chunks bodies cn ret = (cs, c') -> Mrem cs = List.concat (map M bodies).
Proof.
  induction bodies as [|b r IH]; intros cn ret cs c' H; cbn in H.
  - inversion H; subst. reflexivity.
  - destruct (mk_body_chunks r (cn + 1) ret) as [cs1 c1] eqn:E. inversion H; subst. unfold Mrem in *. cbn. rewrite (IH _ _ _ _ E). reflexivity.
Qed.

Lemma create_if_M e b more els cur pre rest' cn news br ret c' :
  cstmts cur = pre ++ SIf ((e, b) :: more) els :: rest' ->
  create_if ((e, b) :: more) els cur (List.length pre) cn = (news, br, ret, c') -> (0 <= cn)%Z ->
  Permutation (Mrem news) (Msub (SIf ((e, b) :: more) els) ++ M rest').
Proof.
  intros E H Hc. rewrite create_if_unfold in H.
  destruct (split_for_branch cur (List.length pre) cn) as [[post ret0] c0] eqn:ES.
  destruct (mk_body_chunks (b :: map snd more) c0 ret0) as [bodychunks c1] eqn:EB.
  destruct (sfb_news _ _ _ _ _ _ _ _ E ES) as [P1 _]. assert (C0 : (cn <= c0)%Z) by (destruct P1; assumption).
  pose proof (sfb_M _ _ _ _ _ _ _ _ E ES) as P2. pose proof (bodies_M _ _ _ _ _ EB) as B5.
  destruct (mk_body_chunks_spec _ _ _ _ _ EB) as (B1 & _).
  set (EL := match els with Some eb => let c := (c1 + 1)%Z in ([mk c ret0 eb None], c, c) | None => ([], c1, ret0) end) in H.
  assert (NE : (c1 <= snd (fst EL))%Z /\ Mrem (fst (fst EL)) = List.concat (map M (match els with Some eb => [eb] | None => [] end))).
  { subst EL. destruct els as [eb|]; cbn; (split; [lia|]); unfold Mrem; cbn; reflexivity. }
  destruct EL as [[elsechunk c2] finalfail]. cbn [fst snd] in NE. destruct NE as [C2 NE2].
  destruct (stitch_elifs (rev (combine (map fst more) (tl (map cid bodychunks)))) c2 finalfail) as [[cs entryfail] c3] eqn:EST.
  destruct (stitch_news _ _ _ _ _ _ EST ltac:(lia)) as [S1 S2]. assert (C3 : (c2 <= c3)%Z) by (destruct S1; assumption).
  destruct (split_bexp e c3 (hd 0%Z (map cid bodychunks)) entryfail (-1)) as [[[cs1 x] entry] c4] eqn:EX.
  destruct (split_bexp_ids _ _ _ _ _ _ _ _ _ EX ltac:(lia)) as (_ & _ & _ & X2 & _).
  inversion H; subst.
  rewrite !Mrem_app. rewrite (Mrem_prebranched cs S2), (Mrem_prebranched cs1 X2), !app_nil_r. rewrite P2, B5, NE2.
  unfold Msub. cbn [subblocks map snd]. rewrite map_app, List.concat_app.
  etransitivity; [apply Permutation_app_comm|]. rewrite <- !app_assoc. reflexivity.
Qed.

Lemma loop_M (body : list stmt) post cs c0 ret0 entry rest' :
  Mrem post = M rest' -> Forall prebranched cs ->
  Permutation (Mrem (post ++ cs ++ [mk (c0 + 2) (c0 + 1) body None; mk (c0 + 1) ret0 [] (Some (BrJump entry))])) (M body ++ M rest').
Proof.
  intros P2 PB. rewrite !Mrem_app, P2, (Mrem_prebranched cs PB). unfold Mrem at 1. cbn. rewrite M_nil, !app_nil_r. apply Permutation_app_comm.
Qed.

Lemma create_while_M tg c body cur pre rest' cn news br ret c' :
  cstmts cur = pre ++ SWhile tg c body :: rest' ->
  create_while c body cur (List.length pre) cn = (news, br, ret, c') -> (0 <= cn)%Z ->
  Permutation (Mrem news) (Msub (SWhile tg c body) ++ M rest').
Proof.
  intros E H Hc. unfold create_while in H.
  destruct (split_for_branch cur (List.length pre) cn) as [[post ret0] c0] eqn:ES.
  destruct (sfb_news _ _ _ _ _ _ _ _ E ES) as [P1 _]. assert (C0 : (cn <= c0)%Z) by (destruct P1; assumption).
  pose proof (sfb_M _ _ _ _ _ _ _ _ E ES) as P2. unfold Msub. cbn [subblocks map List.concat]. rewrite app_nil_r.
  destruct c as [e|].
  - destruct (split_bexp e (c0 + 2) (c0 + 2) ret0 (-1)) as [[[cs x] entry] c1] eqn:EX.
    destruct (split_bexp_ids _ _ _ _ _ _ _ _ _ EX ltac:(lia)) as (_ & _ & _ & X4 & _). inversion H; subst. apply loop_M; assumption.
  - inversion H; subst. apply (loop_M body post [] c0 ret (c0 + 2)%Z rest' P2). constructor.
Qed.
Lemma create_dowhile_M tg body e cur pre rest' cn news br ret c' :
  cstmts cur = pre ++ SDoWhile tg body e :: rest' ->
  create_dowhile body e cur (List.length pre) cn = (news, br, ret, c') -> (0 <= cn)%Z ->
  Permutation (Mrem news) (Msub (SDoWhile tg body e) ++ M rest').
Proof.
  intros E H Hc. unfold create_dowhile in H.
  destruct (split_for_branch cur (List.length pre) cn) as [[post ret0] c0] eqn:ES.
  destruct (sfb_news _ _ _ _ _ _ _ _ E ES) as [P1 _]. assert (C0 : (cn <= c0)%Z) by (destruct P1; assumption).
  pose proof (sfb_M _ _ _ _ _ _ _ _ E ES) as P2. unfold Msub. cbn [subblocks map List.concat]. rewrite app_nil_r.
  destruct (split_bexp e (c0 + 2) (c0 + 2) ret0 (-1)) as [[[cs x] entry] c1] eqn:EX.
  destruct (split_bexp_ids _ _ _ _ _ _ _ _ _ EX ltac:(lia)) as (_ & _ & _ & X4 & _). inversion H; subst. apply loop_M; assumption.
Qed.

Definition Mcases (cs : list scase) : list X := List.concat (map (fun c : scase => M (sc_body c)) cs).
Lemma Mcases_app a b : Mcases (a ++ b) = Mcases a ++ Mcases b.
Proof. unfold Mcases. now rewrite map_app, List.concat_app. Qed.
Lemma Mcases_empties T : Forall emptyb T -> Mcases T = [].
Proof. induction 1 as [|x T H _ IH]; [reflexivity|]. unfold Mcases in *. cbn. rewrite H, M_nil, IH. reflexivity. Qed.

Lemma sw_suf_M ret : forall f S st st' el,
  sw_suf f S ret st = (st', el) -> (List.length S < f)%nat ->
  exists extra, sw_new st' = sw_new st ++ extra /\ Mrem extra = Mcases S.
Proof.
  induction f as [|f IH]; intros S st st' el H L; [lia|].
  destruct S as [|c r].
  - cbn in H. inversion H; subst. exists []. rewrite app_nil_r. split; reflexivity.
  - cbn [sw_suf] in H. cbn [List.length] in L. destruct (sc_body c) as [|s0 b0] eqn:Bc.
    + destruct (find_bodied r 0) as [[k cj]|] eqn:FB.
      * destruct (find_bodied_some _ _ _ FB) as (E & r' & -> & HE & N & LEN).
        assert (F2 : skipn (S k) (E ++ cj :: r') = r') by (rewrite <- LEN; apply skipn_app_here). rewrite F2 in H.
        destruct (IH _ _ _ _ H) as (ex & A1 & A2); [rewrite app_length in L; cbn in L; lia|]. cbn [sw_new] in A1.
        exists (mk (sw_counter st + 1) ret (sc_body cj) None :: ex). split; [rewrite A1, <- app_assoc; reflexivity|].
        change (c :: E ++ cj :: r') with ((c :: E) ++ cj :: r'). rewrite Mcases_app, (Mcases_empties (c :: E)) by (constructor; assumption).
        unfold Mrem, Mcases in *. cbn. rewrite A2. reflexivity.
      * pose proof (find_bodied_none _ _ FB) as HR. assert (HT : Forall emptyb (c :: r)) by (constructor; assumption).
        rewrite (Mcases_empties _ HT).
        destruct (sw_def st) as [dd|].
        -- assert (H' : ({| sw_new := sw_new st ++ [mk (sw_counter st + 1) ret [] None];
                           sw_cases := sw_cases st ++ flat_map (case_entry (sw_counter st + 1)) (c :: r);
                           sw_def := Some dd; sw_counter := (sw_counter st + 1)%Z |}, false) = (st', el)) by (destruct (sw_cases st); exact H).
           inversion H'; subst. cbn. exists [mk (sw_counter st + 1) ret [] None]. split; [reflexivity|]. unfold Mrem. cbn. now rewrite M_nil.
        -- assert (H' : st' = st) by (destruct (sw_cases st); inversion H; reflexivity). subst st'. exists []. rewrite app_nil_r. split; reflexivity.
    + destruct (IH _ _ _ _ H) as (ex & A1 & A2); [lia|]. cbn [sw_new] in A1.
      exists (mk (sw_counter st + 1) ret (s0 :: b0) None :: ex). split; [rewrite A1, <- app_assoc; reflexivity|].
      unfold Mrem, Mcases in *. cbn. rewrite A2, Bc. reflexivity.
Qed.

Lemma create_switch_M tg op ol cases cur pre rest' cn news br ret c' :
  cstmts cur = pre ++ SSwitch tg op ol cases :: rest' ->
  create_switch op ol cases cur (List.length pre) cn = (news, br, ret, c') -> (0 <= cn)%Z ->
  Permutation (Mrem news) (Msub (SSwitch tg op ol cases) ++ M rest').
Proof.
  intros E H Hc. unfold create_switch in H.
  destruct (split_for_branch cur (List.length pre) cn) as [[post ret0] c0] eqn:ES.
  pose proof (sfb_M _ _ _ _ _ _ _ _ E ES) as P2.
  cbv zeta in H. rewrite sw_loop_suf in H. change (skipn 0 cases) with cases in H.
  match type of H with context[sw_suf ?a ?b ?c ?d] => destruct (sw_suf a b c d) as [st el] eqn:SW end.
  assert (LL : (List.length cases < S (List.length cases))%nat) by lia.
  destruct (sw_suf_M _ _ _ _ _ _ SW LL) as (ex & A1 & A2). cbn in A1. inversion H; subst.
  rewrite !Mrem_app, P2, Mrem_cons, A2. cbn [cstmts mk]. rewrite M_nil. cbn [app].
  unfold Msub, Mcases. cbn [subblocks]. rewrite map_map. apply Permutation_app_comm.
Qed.
End MEASURE.

(* ---------- one worklist step conserves every additive measure ---------- *)
Section CONSERVE.
Variable X : Type.
Variable M : list stmt -> list X.
Hypothesis M_nil : M [] = [].
Hypothesis M_app : forall a b, M (a ++ b) = M a ++ M b.
Hypothesis M_cmd : forall c, M [SCmd c] = [].
Hypothesis M_ctl : forall s, is_simple s = false -> M [s] = Msub X M s.

Lemma M_split pre s rest' : M (pre ++ s :: rest') = M pre ++ M [s] ++ M rest'.
Proof. change (s :: rest') with ([s] ++ rest'). now rewrite !M_app. Qed.

Lemma wstep_M w cur rest fin news c' nt :
  Inv w -> remaining w = cur :: rest -> wstep w = SNext fin news c' nt ->
  Permutation (M (cstmts fin) ++ Mrem X M news) (M (cstmts cur)) /\ Forall simple (cstmts fin).
Proof.
  intros I R H. unfold wstep in H. rewrite R in H. pose proof (inv_cnt w I) as CN.
  pose proof (scan_ok (cstmts cur) 0 (List.length (cstmts cur)) eq_refl) as SC.
  destruct (scan (cstmts cur) 0 (List.length (cstmts cur))) as [i er]. inversion SC as [pre c e E F ER Q1|F Q1|pre s rest' E F NS Q1]; subst.
  - cbn [Nat.add] in H. inversion H; subst. clear H. cbn [cstmts]. rewrite E, firstn_app_here. split; [|exact F].
    rewrite M_app, M_cmd. reflexivity.
  - cbn [Nat.add] in H. rewrite Nat.eqb_refl in H. inversion H; subst. split; [|exact F]. unfold Mrem. cbn. rewrite app_nil_r. reflexivity.
  - cbn [Nat.add] in H.
    assert (NE : Nat.eqb (List.length pre) (List.length (cstmts cur)) = false).
    { apply Nat.eqb_neq. rewrite E, app_length. cbn. lia. }
    rewrite NE in H. rewrite E in H at 1. rewrite nth_error_app_here in H.
    assert (FN : firstn (List.length pre) (cstmts cur) = pre) by (rewrite E; apply firstn_app_here).
    assert (MC : M (cstmts cur) = M pre ++ Msub X M s ++ M rest') by (rewrite E, M_split, (M_ctl s NS); reflexivity). rewrite MC. clear MC.
    destruct s as [c|nm g tk|conds els|tag c body|tag body c|tag|tag|tag op ol cases]; try discriminate NS.
    + destruct conds as [|[e b] more].
      * (* an if without branches: create_if on [] *)
        destruct (create_if [] els cur (List.length pre) (counter w)) as [[[news0 br] ret] c0] eqn:CI. inversion H; subst. cbn [cstmts]. rewrite FN.
        split; [|exact F]. apply Permutation_app_head. revert CI. unfold create_if. cbn. intros CI.
        exfalso. pose proof (inv_ok w I) as OKs. rewrite R in OKs. inversion OKs as [|? ? OK1 _]; subst. rewrite E in OK1.
        apply okb_app in OK1. destruct OK1 as [_ OK1]. apply okb_cons in OK1. destruct OK1 as (_ & IF1 & _). exact (ifok1_if _ _ IF1 eq_refl).
      * destruct (create_if ((e, b) :: more) els cur (List.length pre) (counter w)) as [[[news0 br] ret] c0] eqn:CI. inversion H; subst. cbn [cstmts]. rewrite FN.
        split; [|exact F]. apply Permutation_app_head. eapply create_if_M; eauto.
    + destruct (create_while c body cur (List.length pre) (counter w)) as [[[news0 br] ret] c0] eqn:CI. inversion H; subst. cbn [cstmts]. rewrite FN.
      split; [|exact F]. apply Permutation_app_head. eapply create_while_M; eauto.
    + destruct (create_dowhile body c cur (List.length pre) (counter w)) as [[[news0 br] ret] c0] eqn:CI. inversion H; subst. cbn [cstmts]. rewrite FN.
      split; [|exact F]. apply Permutation_app_head. eapply create_dowhile_M; eauto.
    + destruct (tm_get (brk w) tag); [|discriminate]. destruct (split_for_branch cur (List.length pre) (counter w)) as [[post ret] c0] eqn:ES.
      inversion H; subst. cbn [cstmts]. rewrite FN. split; [|exact F]. apply Permutation_app_head.
      rewrite (sfb_M X M M_nil _ _ _ _ _ _ _ _ E ES). reflexivity.
    + destruct (tm_get (org w) tag); [|discriminate]. destruct (split_for_branch cur (List.length pre) (counter w)) as [[post ret] c0] eqn:ES.
      inversion H; subst. cbn [cstmts]. rewrite FN. split; [|exact F]. apply Permutation_app_head.
      rewrite (sfb_M X M M_nil _ _ _ _ _ _ _ _ E ES). reflexivity.
    + destruct (create_switch op ol cases cur (List.length pre) (counter w)) as [[[news0 br] ret] c0] eqn:CI. inversion H; subst. cbn [cstmts]. rewrite FN.
      split; [|exact F]. apply Permutation_app_head. eapply create_switch_M; eauto.
Qed.

Definition MW (w : wst) : list X := Mrem X M (remaining w) ++ Mrem X M (finals w).
Definition simple_finals (w : wst) : Prop := Forall (fun c => Forall simple (cstmts c)) (finals w).

Theorem work_conserves : forall f w w', Inv w -> simple_finals w -> work f w = Ok w' ->
  Permutation (Mrem X M (finals w')) (MW w) /\ simple_finals w'.
Proof.
  induction f as [|f IH]; intros w w' I SF H; [discriminate|]. rewrite work_S in H.
  destruct (wstep w) as [|fin news c' nt| |] eqn:WS; try discriminate.
  - inversion H; subst. unfold wstep in WS. destruct (remaining w') as [|cur rest] eqn:R.
    + unfold MW. rewrite R. split; [reflexivity|exact SF].
    + exfalso. destruct (scan (cstmts cur) 0 (List.length (cstmts cur))) as [i [e|]]; [discriminate|].
      destruct (Nat.eqb i (List.length (cstmts cur))); [discriminate|].
      destruct (nth_error (cstmts cur) i) as [[c|n g tk|conds els|tag c body|tag body c|tag|tag|tag op ol cases]|]; try discriminate.
      * destruct (create_if conds els cur i (counter w')) as [[[? ?] ?] ?]. discriminate.
      * destruct (create_while c body cur i (counter w')) as [[[? ?] ?] ?]. discriminate.
      * destruct (create_dowhile body c cur i (counter w')) as [[[? ?] ?] ?]. discriminate.
      * destruct (tm_get (brk w') tag); [|discriminate]. destruct (split_for_branch cur i (counter w')) as [[? ?] ?]. discriminate.
      * destruct (tm_get (org w') tag); [|discriminate]. destruct (split_for_branch cur i (counter w')) as [[? ?] ?]. discriminate.
      * destruct (create_switch op ol cases cur i (counter w')) as [[[? ?] ?] ?]. discriminate.
  - destruct (remaining w) as [|cur rest] eqn:R; [unfold wstep in WS; rewrite R in WS; discriminate|].
    destruct (wstep_inv _ _ _ _ _ _ _ I R WS) as (I1 & SFE & _ & _).
    destruct (wstep_M _ _ _ _ _ _ _ I R WS) as [PM FS].
    assert (SF1 : simple_finals (wnext w fin news c' nt)) by (unfold simple_finals; rewrite SFE; constructor; assumption).
    destruct (IH _ _ I1 SF1 H) as [P1 S1]. split; [|exact S1].
    etransitivity; [exact P1|]. unfold MW. rewrite SFE. unfold wnext at 1. cbn [remaining]. rewrite R. cbn [tl].
    rewrite Mrem_app, !Mrem_cons. rewrite <- PM.
    (* rest ++ news ++ fin ++ finals  ~  (fin ++ news) ++ rest ++ finals *)
    rewrite <- !app_assoc. etransitivity; [apply Permutation_app_swap_app|].
    etransitivity; [apply Permutation_app_head, Permutation_app_swap_app|]. apply Permutation_app_swap_app.
Qed.
End CONSERVE.

(* ---------- the measure "user labels", deep ---------- *)
Fixpoint dlab1 (s : stmt) : list text :=
  let dl := fix dl (ss : list stmt) : list text := match ss with [] => [] | x :: r => dlab1 x ++ dl r end in
  match s with
  | SLabel n _ _ => [n]
  | SIf conds els =>
      (fix go (cs : list (bexp * list stmt)) : list text := match cs with [] => [] | (_, b) :: r => dl b ++ go r end) conds ++
      match els with Some b => dl b | None => [] end
  | SWhile _ _ b => dl b
  | SDoWhile _ b _ => dl b
  | SSwitch _ _ _ cases =>
      (fix go (cs : list scase) : list text := match cs with [] => [] | c :: r => dl (sc_body c) ++ go r end) cases
  | _ => []
  end.
Fixpoint dlabs (ss : list stmt) : list text := match ss with [] => [] | x :: r => dlab1 x ++ dlabs r end.
Definition dlabs_local := fix dl (ss : list stmt) : list text := match ss with [] => [] | x :: r => dlab1 x ++ dl r end.
Lemma dlabs_local_eq ss : dlabs_local ss = dlabs ss.
Proof. induction ss as [|x r IH]; [reflexivity|]. cbn. now rewrite IH. Qed.

Lemma dlab1_if conds els : dlab1 (SIf conds els) = List.concat (map (fun cb : bexp * list stmt => dlabs (snd cb)) conds) ++ match els with Some b => dlabs b | None => [] end.
Proof.
  change (dlab1 (SIf conds els)) with
    ((fix go (cs : list (bexp * list stmt)) : list text := match cs with [] => [] | (_, b) :: r => dlabs_local b ++ go r end) conds ++
     match els with Some b => dlabs_local b | None => [] end).
  f_equal.
  - induction conds as [|[e b] r IH]; [reflexivity|]. cbn. rewrite IH, dlabs_local_eq. reflexivity.
Qed.
Lemma dlab1_while tg c b : dlab1 (SWhile tg c b) = dlabs b.
Proof. change (dlab1 (SWhile tg c b)) with (dlabs_local b). apply dlabs_local_eq. Qed.
Lemma dlab1_dowhile tg b c : dlab1 (SDoWhile tg b c) = dlabs b.
Proof. change (dlab1 (SDoWhile tg b c)) with (dlabs_local b). apply dlabs_local_eq. Qed.
Lemma dlab1_switch tg o ol cases : dlab1 (SSwitch tg o ol cases) = List.concat (map (fun c : scase => dlabs (sc_body c)) cases).
Proof.
  change (dlab1 (SSwitch tg o ol cases)) with
    ((fix go (cs : list scase) : list text := match cs with [] => [] | c :: r => dlabs_local (sc_body c) ++ go r end) cases).
  induction cases as [|c r IH]; [reflexivity|]. cbn. rewrite IH, dlabs_local_eq. reflexivity.
Qed.
Lemma dlabs_app a b : dlabs (a ++ b) = dlabs a ++ dlabs b.
Proof. induction a as [|x r IH]; [reflexivity|]. cbn. now rewrite IH, app_assoc. Qed.
Lemma dlabs_ctl s : is_simple s = false -> dlabs [s] = Msub text dlabs s.
Proof.
  intros NS. cbn [dlabs]. rewrite app_nil_r. unfold Msub.
  destruct s as [c|nm g tk|conds els|tag c body|tag body c|tag|tag|tag op ol cases]; try discriminate NS; cbn [subblocks]; try reflexivity.
  - rewrite dlab1_if, map_app, List.concat_app, map_map. f_equal. destruct els; cbn; [now rewrite app_nil_r|reflexivity].
  - rewrite dlab1_while. cbn. now rewrite app_nil_r.
  - rewrite dlab1_dowhile. cbn. now rewrite app_nil_r.
  - rewrite dlab1_switch, map_map. reflexivity.
Qed.
Lemma dlabs_simple ss : Forall simple ss -> dlabs ss = map Datatypes.fst (user_labels ss).
Proof.
  induction 1 as [|x r H _ IH]; [reflexivity|]. cbn [dlabs user_labels flat_map]. rewrite map_app, IH. f_equal.
  destruct x; try discriminate H; reflexivity.
Qed.

(* every label written anywhere in a body is found by the source semantics' label search *)
Definition found1 (l : text) (s : stmt) : Prop :=
  match s with SLabel _ _ _ => True | _ => In l (dlab1 s) -> forall k, fl_stmt l s k <> None end.
Lemma found_all l : forall ss, In l (dlabs ss) -> forall k, fl_body l ss k <> None.
Proof.
  apply (stmts_ind2 (found1 l) (fun ss => In l (dlabs ss) -> forall k, fl_body l ss k <> None)); unfold found1.
  - intros [].
  - intros s r Hs Hr Hin k. cbn [dlabs] in Hin.
    destruct s as [c|nm g tk|conds els|tag c body|tag body c|tag|tag|tag op ol cases];
      try (rewrite fl_body_other by (intros; discriminate);
           match goal with |- context[fl_stmt l ?s ?kk] => destruct (fl_stmt l s kk) as [a|] eqn:E end; [discriminate|];
           apply in_app_or in Hin; destruct Hin as [Hin|Hin]; [exfalso; exact (Hs Hin _ E)|exact (Hr Hin k)]).
    rewrite fl_body_label. destruct (text_eqb nm l) eqn:Q; [discriminate|].
    destruct Hin as [->|Hin]; [rewrite (proj2 (text_eqb_iff l l) eq_refl) in Q; discriminate|exact (Hr Hin k)].
  - intros c [].
  - intros; exact Logic.I.
  - intros conds els FC FE Hin k. rewrite fl_stmt_if. rewrite dlab1_if in Hin.
    induction FC as [|[e b] r Hb _ IH]; cbn [fl_conds].
    + cbn in Hin. destruct els as [b|]; [exact (FE Hin k)|destruct Hin].
    + cbn [map List.concat snd] in Hin. rewrite <- app_assoc in Hin. apply in_app_or in Hin.
      destruct (fl_body l b k) as [a|] eqn:E; [discriminate|]. destruct Hin as [Hin|Hin]; [exfalso; exact (Hb Hin k E)|exact (IH Hin)].
  - intros tg c b Hb Hin k. rewrite fl_stmt_while. rewrite dlab1_while in Hin. exact (Hb Hin _).
  - intros tg b c Hb Hin k. rewrite fl_stmt_dowhile. rewrite dlab1_dowhile in Hin. exact (Hb Hin _).
  - intros tg [].
  - intros tg [].
  - intros tg o ol cases FC Hin k. rewrite fl_stmt_switch. rewrite dlab1_switch in Hin.
    induction FC as [|c r Hc _ IH]; cbn [fl_cases]; [destruct Hin|].
    cbn [map List.concat] in Hin. apply in_app_or in Hin.
    destruct (fl_body l (sc_body c) (Kswitch tg k)) as [a|] eqn:E; [discriminate|]. destruct Hin as [Hin|Hin]; [exfalso; exact (Hc Hin _ E)|exact (IH Hin)].
Qed.

Lemma Mrem_simple_finals fs : Forall (fun c => Forall simple (cstmts c)) fs -> Mrem text dlabs fs = chunk_labels fs.
Proof.
  induction 1 as [|c r H _ IH]; [reflexivity|]. rewrite Mrem_cons, IH, (dlabs_simple _ H). reflexivity.
Qed.

Local Opaque work_fuel work.
(* the labels carried by the chunks of the final graph are, as a multiset, exactly the labels written in the script body *)
Theorem chunk_labels_are_source_labels body w :
  emit_graph body = Emitter.Ok w -> src_ok body -> Permutation (chunk_labels (finals w)) (dlabs body).
Proof.
  intros H [OK ND]. unfold emit_graph in H.
  assert (I0 : Inv {| remaining := [mk 0 (-1) body None]; finals := []; counter := 0; brk := []; org := [] |}).
  { constructor; cbn.
    - lia.
    - repeat constructor. intros [].
    - repeat constructor; cbn; lia.
    - constructor; [right; split; reflexivity|constructor].
    - constructor; [exact OK|constructor].
    - unfold tags_rem. cbn. rewrite !app_nil_r. exact ND.
    - reflexivity. }
  destruct (work_conserves text dlabs eq_refl dlabs_app (fun _ => eq_refl) dlabs_ctl _ _ _ I0 (Forall_nil _) H) as [P S].
  rewrite (Mrem_simple_finals _ S) in P. etransitivity; [exact P|]. unfold MW, Mrem. cbn. rewrite !app_nil_r. reflexivity.
Qed.

(* hence the label premise of C01 is a property of the source: labels pairwise distinct *)
Theorem labels_ok_from_source body w :
  emit_graph body = Emitter.Ok w -> src_ok body -> NoDup (dlabs body) -> labels_okb body (finals w) = true.
Proof.
  intros H S ND. pose proof (chunk_labels_are_source_labels body w H S) as P.
  unfold labels_okb. destruct S as [OK _]. unfold okb in OK. apply andb_prop in OK. destruct OK as [SW _].
  rewrite SW. cbn [andb]. apply andb_true_intro. split.
  - apply SrcWf.nodupt_complete. eapply Permutation_NoDup; [symmetry; exact P|exact ND].
  - apply forallb_forall. intros n Hn. assert (Hb : In n (dlabs body)) by (eapply Permutation_in; [exact P|exact Hn]).
    pose proof (found_all n body Hb Kstop) as F. destruct (fl_body n body Kstop); [reflexivity|contradiction].
Qed.
