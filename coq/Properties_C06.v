(* C06 - Inline text and moves() are hoisted to labels that denote exactly that content. *)
From Coq Require Import List ZArith Bool.
From Pory Require Import Lexer Ast Parser C06Proofs.
Import ListNotations.

(* PARTIAL: inline texts (the movement twin add_movs has the same structure and is covered by the correspondence only).
   Every occurrence gets one patch addressed to its command and argument; the label it receives is defined in the
   final text list with exactly the occurrence's content and string type, as a local label. Missing for the full
   statement: uniqueness of the definition (injectivity of the generated names) and the numbering formula. *)
Theorem hoisted_label_denotes_content_partial :
  forall its h ps h' ps', add_texts its h ps = (h', ps') -> table_ok h ->
    exists labels, List.length labels = List.length its /\
      Forall2 (fun it l => exists x, In x (htexts h') /\ xname x = l /\ xvalue x = tlit (itTok it) /\ xtype x = itType it /\ xglob x = false) its labels.
Proof. exact label_denotes_content. Qed.
Print Assumptions hoisted_label_denotes_content_partial.

(* identical content of the same string type shares one label, across the whole file (the table is threaded through all scripts) *)
Theorem same_content_shares_label :
  forall its h ps h' ps', add_texts its h ps = (h', ps') -> table_ok h ->
    exists labels, List.length labels = List.length its /\
      forall i j a b (la lb : text), nth_error its i = Some a -> nth_error its j = Some b ->
        nth_error labels i = Some la -> nth_error labels j = Some lb ->
        tlit (itTok a) = tlit (itTok b) -> itType a = itType b -> la = lb.
Proof. exact same_content_same_label. Qed.
Print Assumptions same_content_shares_label.

(* patches are appended one per occurrence in order, and labels given earlier are never changed by later occurrences *)
Theorem hoisting_is_monotone :
  forall its h ps h' ps', add_texts its h ps = (h', ps') -> table_ok h ->
    table_ok h' /\
    (forall v ty l, find_text (hset h) v ty = Some l -> find_text (hset h') v ty = Some l) /\
    exists labels, ps' = ps ++ map (fun p => patch_for (fst p) (snd p)) (combine its labels) /\ List.length labels = List.length its /\
      Forall2 (fun it l => find_text (hset h') (tlit (itTok it)) (itType it) = Some l) its labels.
Proof. exact add_texts_spec. Qed.
Print Assumptions hoisting_is_monotone.
