(* C06 - Inline text and moves() are hoisted to labels that denote exactly that content. *)
From Coq Require Import List ZArith Bool.
From Pory Require Import Lexer Ast Parser C06Proofs.
Import ListNotations.

(* PARTIAL: inline texts (the movement twin add_movs has the same structure and is covered by the correspondence only).
   Every occurrence gets one patch addressed to its command and argument; the label it receives is defined in the
   final text list with exactly the occurrence's content and string type, as a local label. Missing for the full
   statement: uniqueness of the definition (injectivity of the generated names) and the numbering formula. *)
Theorem hoisted_label_denotes_content_partial :
  forall its h ps h' ps', add_texts its h ps = (h', ps') -> table_ok h ->
    exists labels, List.length labels = List.length its /\
      Forall2 (fun it l => exists x, In x (htexts h') /\ xname x = l /\ xvalue x = tlit (itTok it) /\ xtype x = itType it /\ xglob x = false) its labels.
Proof. exact label_denotes_content. Qed.
Print Assumptions hoisted_label_denotes_content_partial.

(* identical content of the same string type shares one label, across the whole file (the table is threaded through all scripts) *)
Theorem same_content_shares_label :
  forall its h ps h' ps', add_texts its h ps = (h', ps') -> table_ok h ->
    exists labels, List.length labels = List.length its /\
      forall i j a b (la lb : text), nth_error its i = Some a -> nth_error its j = Some b ->
        nth_error labels i = Some la -> nth_error labels j = Some lb ->
        tlit (itTok a) = tlit (itTok b) -> itType a = itType b -> la = lb.
Proof. exact same_content_same_label. Qed.
Print Assumptions same_content_shares_label.

(* patches are appended one per occurrence in order, and labels given earlier are never changed by later occurrences *)
Theorem hoisting_is_monotone :
  forall its h ps h' ps', add_texts its h ps = (h', ps') -> table_ok h ->
    table_ok h' /\
    (forall v ty l, find_text (hset h) v ty = Some l -> find_text (hset h') v ty = Some l) /\
    exists labels, ps' = ps ++ map (fun p => patch_for (fst p) (snd p)) (combine its labels) /\ List.length labels = List.length its /\
      Forall2 (fun it l => find_text (hset h') (tlit (itTok it)) (itType it) = Some l) its labels.
Proof. exact add_texts_spec. Qed.
Print Assumptions hoisting_is_monotone.

(* ---------- numbering, sharing, injectivity, defined once - texts and movements (Hoisting.v) ---------- *)
(* text_label s n = s ++ "_Text_" ++ n, mov_label s n = s ++ "_Movement_" ++ n; `owned s owners` = how many labels script s already
   owns; `hoist_table F G h`: the hoisting state h is exactly the table built from the first occurrences F (texts) and G (movements)
   in order.  (1) a new content gets <script>_Text_<number the script already owns> (add_implicit_new_text / _mov), (2) a known content
   gets the label of its first occurrence, across scripts (add_implicit_known_*; program level: hoist_all_labels), (3) label names
   are injective and text / movement names never collide, the map label -> content is a function, (4) every hoisted label is
   defined exactly once in the program's text list / movement list with exactly that content; a clash with a user-defined text or
   movement name is a compile error. *)
From Pory Require Import Hoisting.
Theorem text_label_injective :
  forall (s : text) (n : nat) (s' : text) (m : nat), printable n -> printable m -> text_label s n = text_label s' m -> s = s' /\ n = m.
Proof. exact Hoisting.text_label_injective. Qed.
Print Assumptions text_label_injective.

Theorem mov_label_injective :
  forall (s : text) (n : nat) (s' : text) (m : nat), printable n -> printable m -> mov_label s n = mov_label s' m -> s = s' /\ n = m.
Proof. exact Hoisting.mov_label_injective. Qed.
Print Assumptions mov_label_injective.

Theorem text_label_not_mov_label :
  forall (s : text) (n : nat) (s' : text) (m : nat), text_label s n <> mov_label s' m.
Proof. exact Hoisting.text_label_not_mov_label. Qed.
Print Assumptions text_label_not_mov_label.

Theorem add_implicit_new_text :
  forall (F : list imptext) (G : list impmov) (h : hst) (it : imptext),
  hoist_table F G h ->
  ~ In (tkey it) (map tkey F) ->
  let lbl := text_label (itScript it) (owned (itScript it) (map itScript F)) in
  add_implicit {| idT := [it]; idM := [] |} h = (define_text h it, [(itCid it, itArg it, lbl)]) /\
  htexts (define_text h it) = htexts h ++ [text_def lbl it] /\ hoist_table (F ++ [it]) G (define_text h it).
Proof. exact Hoisting.add_implicit_new_text. Qed.
Print Assumptions add_implicit_new_text.

Theorem add_implicit_known_text :
  forall (F : list imptext) (G : list impmov) (h : hst) (it : imptext),
  hoist_table F G h ->
  In (tkey it) (map tkey F) ->
  exists (A : list imptext) (fo : imptext) (B : list imptext),
    F = A ++ fo :: B /\
    tkey fo = tkey it /\
    add_implicit {| idT := [it]; idM := [] |} h = (h, [(itCid it, itArg it, text_label (itScript fo) (owned (itScript fo) (map itScript A)))]).
Proof. exact Hoisting.add_implicit_known_text. Qed.
Print Assumptions add_implicit_known_text.

Theorem add_implicit_new_mov :
  forall (F : list imptext) (G : list impmov) (h : hst) (im : impmov),
  hoist_table F G h ->
  ~ In (mkey im) (map mkey G) ->
  let lbl := mov_label (imScript im) (owned (imScript im) (map imScript G)) in
  add_implicit {| idT := []; idM := [im] |} h = (define_mov h im, [(imCid im, imArg im, lbl)]) /\
  hmovs (define_mov h im) = hmovs h ++ [TMovement lbl false (imCmdTok im) (imToks im)] /\ hoist_table F (G ++ [im]) (define_mov h im).
Proof. exact Hoisting.add_implicit_new_mov. Qed.
Print Assumptions add_implicit_new_mov.

Theorem add_implicit_known_mov :
  forall (F : list imptext) (G : list impmov) (h : hst) (im : impmov),
  hoist_table F G h ->
  In (mkey im) (map mkey G) ->
  exists (A : list impmov) (fo : impmov) (B : list impmov),
    G = A ++ fo :: B /\
    mkey fo = mkey im /\
    add_implicit {| idT := []; idM := [im] |} h = (h, [(imCid im, imArg im, mov_label (imScript fo) (owned (imScript fo) (map imScript A)))]).
Proof. exact Hoisting.add_implicit_known_mov. Qed.
Print Assumptions add_implicit_known_mov.

Theorem add_implicit_table :
  forall (imp : impdata) (F : list imptext) (G : list impmov) (h h' : hst) (ps : list patch),
  hoist_table F G h ->
  add_implicit imp h = (h', ps) ->
  hoist_table (F ++ new_texts (map tkey F) (idT imp)) (G ++ new_movs (map mkey G) (idM imp)) h' /\
  (exists tl ml : list text,
     ps =
     map (fun p : imptext * text => text_patch (fst p) (snd p)) (combine (idT imp) tl) ++
     map (fun p : impmov * text => mov_patch (fst p) (snd p)) (combine (idM imp) ml) /\
     length tl = length (idT imp) /\
     length ml = length (idM imp) /\
     Forall2 (fun (it : imptext) (l : text) => find_text (hset h') (tlit (itTok it)) (itType it) = Some l) (idT imp) tl /\
     Forall2 (fun (im : impmov) (l : text) => assoc (hmset h') (mov_key (imToks im)) = Some l) (idM imp) ml).
Proof. exact Hoisting.add_implicit_table. Qed.
Print Assumptions add_implicit_table.

Theorem add_implicit_labels :
  forall (imp : impdata) (F : list imptext) (G : list impmov) (h h' : hst) (ps : list patch),
  hoist_table F G h ->
  add_implicit imp h = (h', ps) ->
  let F' := F ++ new_texts (map tkey F) (idT imp) in
  let G' := G ++ new_movs (map mkey G) (idM imp) in
  exists tl ml : list text,
    ps =
    map (fun p : imptext * text => text_patch (fst p) (snd p)) (combine (idT imp) tl) ++
    map (fun p : impmov * text => mov_patch (fst p) (snd p)) (combine (idM imp) ml) /\
    Forall2
      (fun (it : imptext) (l : text) =>
       exists (A : list imptext) (fo : imptext) (B : list imptext),
         F' = A ++ fo :: B /\ tkey fo = tkey it /\ l = text_label (itScript fo) (owned (itScript fo) (map itScript A))) 
      (idT imp) tl /\
    Forall2
      (fun (im : impmov) (l : text) =>
       exists (A : list impmov) (fo : impmov) (B : list impmov),
         G' = A ++ fo :: B /\ mkey fo = mkey im /\ l = mov_label (imScript fo) (owned (imScript fo) (map imScript A))) 
      (idM imp) ml.
Proof. exact Hoisting.add_implicit_labels. Qed.
Print Assumptions add_implicit_labels.

Theorem text_table_lookup :
  forall (F : list imptext) (h : hst),
  text_table F h ->
  forall v ty l : text,
  find_text (hset h) v ty = Some l <->
  (exists (A : list imptext) (it : imptext) (B : list imptext),
     F = A ++ it :: B /\ tkey it = (v, ty) /\ l = text_label (itScript it) (owned (itScript it) (map itScript A))).
Proof. exact Hoisting.text_table_lookup. Qed.
Print Assumptions text_table_lookup.

Theorem mov_table_lookup :
  forall (G : list impmov) (h : hst),
  mov_table G h ->
  forall k l : text,
  assoc (hmset h) k = Some l <->
  (exists (A : list impmov) (im : impmov) (B : list impmov),
     G = A ++ im :: B /\ mkey im = k /\ l = mov_label (imScript im) (owned (imScript im) (map imScript A))).
Proof. exact Hoisting.mov_table_lookup. Qed.
Print Assumptions mov_table_lookup.

Theorem hoist_all_table :
  forall (imps : list impdata) (F : list imptext) (G : list impmov) (h h' : hst) (pss : list (list patch)),
  hoist_table F G h ->
  hoist_all imps h = (h', pss) ->
  hoist_table (F ++ new_texts (map tkey F) (flat_map idT imps)) (G ++ new_movs (map mkey G) (flat_map idM imps)) h'.
Proof. exact Hoisting.hoist_all_table. Qed.
Print Assumptions hoist_all_table.

Theorem hoist_all_labels :
  forall (imps : list impdata) (F : list imptext) (G : list impmov) (h h' : hst) (pss : list (list patch)),
  hoist_table F G h ->
  hoist_all imps h = (h', pss) ->
  length pss = length imps /\
  (forall (i : nat) (imp : impdata) (ps : list patch),
   nth_error imps i = Some imp ->
   nth_error pss i = Some ps ->
   exists tl ml : list text,
     ps =
     map (fun p : imptext * text => text_patch (fst p) (snd p)) (combine (idT imp) tl) ++
     map (fun p : impmov * text => mov_patch (fst p) (snd p)) (combine (idM imp) ml) /\
     length tl = length (idT imp) /\
     length ml = length (idM imp) /\
     Forall2 (fun (it : imptext) (l : text) => find_text (hset h') (tlit (itTok it)) (itType it) = Some l) (idT imp) tl /\
     Forall2 (fun (im : impmov) (l : text) => assoc (hmset h') (mov_key (imToks im)) = Some l) (idM imp) ml).
Proof. exact Hoisting.hoist_all_labels. Qed.
Print Assumptions hoist_all_labels.

Theorem hoisted_text_names_distinct :
  forall (F : list imptext) (h : hst), text_table F h -> printable (length (htexts h)) -> NoDup (map xname (htexts h)).
Proof. exact Hoisting.hoisted_text_names_distinct. Qed.
Print Assumptions hoisted_text_names_distinct.

Theorem text_label_determines_content :
  forall (F : list imptext) (h : hst) (v ty v' ty' l : text),
  text_table F h -> printable (length (htexts h)) -> In (v, ty, l) (hset h) -> In (v', ty', l) (hset h) -> v = v' /\ ty = ty'.
Proof. exact Hoisting.text_label_determines_content. Qed.
Print Assumptions text_label_determines_content.

Theorem hoisted_text_defined_once :
  forall (F : list imptext) (h : hst) (v ty l : text),
  text_table F h ->
  printable (length (htexts h)) ->
  find_text (hset h) v ty = Some l ->
  length (filter (fun y : textdef => text_eqb (xname y) l) (htexts h)) = 1 /\
  (exists x : textdef,
     In x (htexts h) /\
     xname x = l /\ xvalue x = v /\ xtype x = ty /\ xglob x = false /\ (forall y : textdef, In y (htexts h) -> xname y = l -> y = x)).
Proof. exact Hoisting.hoisted_text_defined_once. Qed.
Print Assumptions hoisted_text_defined_once.

Theorem hoisted_mov_names_distinct :
  forall (G : list impmov) (h : hst), mov_table G h -> printable (length (hmovs h)) -> NoDup (mov_names (hmovs h)).
Proof. exact Hoisting.hoisted_mov_names_distinct. Qed.
Print Assumptions hoisted_mov_names_distinct.

Theorem mov_label_determines_content :
  forall (G : list impmov) (h : hst) (k k' l : text),
  mov_table G h -> printable (length (hmovs h)) -> In (k, l) (hmset h) -> In (k', l) (hmset h) -> k = k'.
Proof. exact Hoisting.mov_label_determines_content. Qed.
Print Assumptions mov_label_determines_content.

Theorem hoisted_mov_defined_once :
  forall (G : list impmov) (h : hst) (k l : text),
  mov_table G h ->
  printable (length (hmovs h)) ->
  assoc (hmset h) k = Some l ->
  length (filter (is_mov_named l) (hmovs h)) = 1 /\
  (exists (tk : token) (steps : list token),
     In (TMovement l false tk steps) (hmovs h) /\
     mov_key steps = k /\
     (forall (g' : bool) (tk' : token) (steps' : list token),
      In (TMovement l g' tk' steps') (hmovs h) -> g' = false /\ tk' = tk /\ steps' = steps)).
Proof. exact Hoisting.hoisted_mov_defined_once. Qed.
Print Assumptions hoisted_mov_defined_once.

Theorem mov_key_injective :
  forall a b : list token, Forall no_colon a -> Forall no_colon b -> mov_key a = mov_key b -> map tlit a = map tlit b.
Proof. exact Hoisting.mov_key_injective. Qed.
Print Assumptions mov_key_injective.

Theorem parse_tops_hoists :
  forall (autovars : list (text * autovar)) (switches : list (text * text)) (env_errors : bool)
    (parse_format : toks -> res (token * text * text * toks)) (f : nat) (st : pstate) (ts : toks) (st' : pstate),
  parse_tops autovars switches env_errors parse_format f st ts = Ok st' ->
  exists (imps : list impdata) (pss : list (list patch)),
    hoist_all imps (ph st) = (ph st', pss) /\ Forall (parsed_imp autovars switches env_errors parse_format) imps.
Proof. exact Hoisting.parse_tops_hoists. Qed.
Print Assumptions parse_tops_hoists.

Theorem parse_program_outcome :
  forall (autovars : list (text * autovar)) (switches : list (text * text)) (env_errors : bool)
    (parse_format : toks -> res (token * text * text * toks)),
  env_errors = true ->
  forall (ts : list token) (st : pstate),
  parse_tops autovars switches env_errors parse_format (5 * length ts + 4) pstate0 ts = Ok st ->
  let texts := htexts (ph st) ++ ptexts st in
  let tops := ptops st ++ hmovs (ph st) in
  NoDup (map xname texts) /\
  NoDup (mov_names tops) /\ parse_program autovars switches env_errors parse_format ts = Ok {| tops := tops; texts := texts |} \/
  ~ NoDup (map xname texts) /\
  (exists x : textdef,
     In x texts /\
     parse_program autovars switches env_errors parse_format ts =
     err_tok (xtok x)
       (String.String (Ascii.Ascii false false true false false true true false)
          (String.String (Ascii.Ascii true false true false true true true false)
             (String.String (Ascii.Ascii false false false false true true true false)
                (String.String (Ascii.Ascii false false true true false true true false)
                   (String.String (Ascii.Ascii true false false true false true true false)
                      (String.String (Ascii.Ascii true true false false false true true false)
                         (String.String (Ascii.Ascii true false false false false true true false)
                            (String.String (Ascii.Ascii false false true false true true true false)
                               (String.String (Ascii.Ascii true false true false false true true false)
                                  (String.String (Ascii.Ascii false false false false false true false false)
                                     (String.String (Ascii.Ascii false false true false true true true false)
                                        (String.String (Ascii.Ascii true false true false false true true false)
                                           (String.String (Ascii.Ascii false false false true true true true false)
                                              (String.String (Ascii.Ascii false false true false true true true false)
                                                 (String.String (Ascii.Ascii false false false false false true false false)
                                                    (String.String (Ascii.Ascii false false true true false true true false)
                                                       (String.String (Ascii.Ascii true false false false false true true false)
                                                          (String.String (Ascii.Ascii false true false false false true true false)
                                                             (String.String (Ascii.Ascii true false true false false true true false)
                                                                (String.String (Ascii.Ascii false false true true false true true false)
                                                                   String.EmptyString))))))))))))))))))))) \/
  NoDup (map xname texts) /\
  ~ NoDup (mov_names tops) /\
  (exists tk : token,
     parse_program autovars switches env_errors parse_format ts =
     err_tok tk
       (String.String (Ascii.Ascii false false true false false true true false)
          (String.String (Ascii.Ascii true false true false true true true false)
             (String.String (Ascii.Ascii false false false false true true true false)
                (String.String (Ascii.Ascii false false true true false true true false)
                   (String.String (Ascii.Ascii true false false true false true true false)
                      (String.String (Ascii.Ascii true true false false false true true false)
                         (String.String (Ascii.Ascii true false false false false true true false)
                            (String.String (Ascii.Ascii false false true false true true true false)
                               (String.String (Ascii.Ascii true false true false false true true false)
                                  (String.String (Ascii.Ascii false false false false false true false false)
                                     (String.String (Ascii.Ascii true false true true false true true false)
                                        (String.String (Ascii.Ascii true true true true false true true false)
                                           (String.String (Ascii.Ascii false true true false true true true false)
                                              (String.String (Ascii.Ascii true false true false false true true false)
                                                 (String.String (Ascii.Ascii true false true true false true true false)
                                                    (String.String (Ascii.Ascii true false true false false true true false)
                                                       (String.String (Ascii.Ascii false true true true false true true false)
                                                          (String.String (Ascii.Ascii false false true false true true true false)
                                                             (String.String (Ascii.Ascii false false false false false true false false)
                                                                (String.String (Ascii.Ascii false false true true false true true false)
                                                                   (String.String (Ascii.Ascii true false false false false true true false)
                                                                      (String.String (Ascii.Ascii false true false false false true true false)
                                                                         (String.String
                                                                            (Ascii.Ascii true false true false false true true false)
                                                                            (String.String
                                                                               (Ascii.Ascii false false true true false true true false)
                                                                               String.EmptyString))))))))))))))))))))))))).
Proof. exact Hoisting.parse_program_outcome. Qed.
Print Assumptions parse_program_outcome.

Theorem program_hoisting :
  forall (autovars : list (text * autovar)) (switches : list (text * text)) (env_errors : bool)
    (parse_format : toks -> res (token * text * text * toks)),
  env_errors = true ->
  forall (ts : toks) (p : program),
  parse_program autovars switches env_errors parse_format ts = Ok p ->
  exists (st : pstate) (imps : list impdata) (pss : list (list patch)),
    parse_tops autovars switches env_errors parse_format (5 * length ts + 4) pstate0 ts = Ok st /\
    hoist_all imps hst0 = (ph st, pss) /\
    Forall (parsed_imp autovars switches env_errors parse_format) imps /\
    hoist_table (new_texts [] (flat_map idT imps)) (new_movs [] (flat_map idM imps)) (ph st) /\
    texts p = text_defs [] (new_texts [] (flat_map idT imps)) ++ ptexts st /\
    tops p = ptops st ++ mov_defs [] (new_movs [] (flat_map idM imps)) /\ NoDup (map xname (texts p)) /\ NoDup (mov_names (tops p)).
Proof. exact Hoisting.program_hoisting. Qed.
Print Assumptions program_hoisting.

Theorem program_text_label_defined_once :
  forall (autovars : list (text * autovar)) (switches : list (text * text)) (env_errors : bool)
    (parse_format : toks -> res (token * text * text * toks)),
  env_errors = true ->
  forall (ts : toks) (p : program) (st : pstate) (v ty l : text),
  parse_program autovars switches env_errors parse_format ts = Ok p ->
  parse_tops autovars switches env_errors parse_format (5 * length ts + 4) pstate0 ts = Ok st ->
  find_text (hset (ph st)) v ty = Some l ->
  length (filter (fun y : textdef => text_eqb (xname y) l) (texts p)) = 1 /\
  (exists x : textdef,
     In x (texts p) /\
     xname x = l /\ xvalue x = v /\ xtype x = ty /\ xglob x = false /\ (forall y : textdef, In y (texts p) -> xname y = l -> y = x)).
Proof. exact Hoisting.program_text_label_defined_once. Qed.
Print Assumptions program_text_label_defined_once.

Theorem program_mov_label_defined_once :
  forall (autovars : list (text * autovar)) (switches : list (text * text)) (env_errors : bool)
    (parse_format : toks -> res (token * text * text * toks)),
  env_errors = true ->
  forall (ts : toks) (p : program) (st : pstate) (k l : text),
  parse_program autovars switches env_errors parse_format ts = Ok p ->
  parse_tops autovars switches env_errors parse_format (5 * length ts + 4) pstate0 ts = Ok st ->
  assoc (hmset (ph st)) k = Some l ->
  length (filter (is_mov_named l) (tops p)) = 1 /\
  (exists (tk : token) (steps : list token),
     In (TMovement l false tk steps) (tops p) /\
     mov_key steps = k /\
     (forall (g' : bool) (tk' : token) (steps' : list token),
      In (TMovement l g' tk' steps') (tops p) -> g' = false /\ tk' = tk /\ steps' = steps)).
Proof. exact Hoisting.program_mov_label_defined_once. Qed.
Print Assumptions program_mov_label_defined_once.

Theorem program_text_label_determines_content :
  forall (autovars : list (text * autovar)) (switches : list (text * text)) (env_errors : bool)
    (parse_format : toks -> res (token * text * text * toks)),
  env_errors = true ->
  forall (ts : toks) (p : program) (st : pstate) (v ty v' ty' l : text),
  parse_program autovars switches env_errors parse_format ts = Ok p ->
  parse_tops autovars switches env_errors parse_format (5 * length ts + 4) pstate0 ts = Ok st ->
  In (v, ty, l) (hset (ph st)) -> In (v', ty', l) (hset (ph st)) -> v = v' /\ ty = ty'.
Proof. exact Hoisting.program_text_label_determines_content. Qed.
Print Assumptions program_text_label_determines_content.

Theorem program_mov_label_determines_content :
  forall (autovars : list (text * autovar)) (switches : list (text * text)) (env_errors : bool)
    (parse_format : toks -> res (token * text * text * toks)),
  env_errors = true ->
  forall (ts : toks) (p : program) (st : pstate) (k k' l : text),
  parse_program autovars switches env_errors parse_format ts = Ok p ->
  parse_tops autovars switches env_errors parse_format (5 * length ts + 4) pstate0 ts = Ok st ->
  In (k, l) (hmset (ph st)) -> In (k', l) (hmset (ph st)) -> k = k'.
Proof. exact Hoisting.program_mov_label_determines_content. Qed.
Print Assumptions program_mov_label_determines_content.

Theorem text_name_clash_is_error :
  forall (autovars : list (text * autovar)) (switches : list (text * text)) (env_errors : bool)
    (parse_format : toks -> res (token * text * text * toks)),
  env_errors = true ->
  forall (ts : list token) (st : pstate) (x y : textdef),
  parse_tops autovars switches env_errors parse_format (5 * length ts + 4) pstate0 ts = Ok st ->
  In x (htexts (ph st)) ->
  In y (ptexts st) ->
  xname x = xname y ->
  exists z : textdef,
    parse_program autovars switches env_errors parse_format ts =
    err_tok (xtok z)
      (String.String (Ascii.Ascii false false true false false true true false)
         (String.String (Ascii.Ascii true false true false true true true false)
            (String.String (Ascii.Ascii false false false false true true true false)
               (String.String (Ascii.Ascii false false true true false true true false)
                  (String.String (Ascii.Ascii true false false true false true true false)
                     (String.String (Ascii.Ascii true true false false false true true false)
                        (String.String (Ascii.Ascii true false false false false true true false)
                           (String.String (Ascii.Ascii false false true false true true true false)
                              (String.String (Ascii.Ascii true false true false false true true false)
                                 (String.String (Ascii.Ascii false false false false false true false false)
                                    (String.String (Ascii.Ascii false false true false true true true false)
                                       (String.String (Ascii.Ascii true false true false false true true false)
                                          (String.String (Ascii.Ascii false false false true true true true false)
                                             (String.String (Ascii.Ascii false false true false true true true false)
                                                (String.String (Ascii.Ascii false false false false false true false false)
                                                   (String.String (Ascii.Ascii false false true true false true true false)
                                                      (String.String (Ascii.Ascii true false false false false true true false)
                                                         (String.String (Ascii.Ascii false true false false false true true false)
                                                            (String.String (Ascii.Ascii true false true false false true true false)
                                                               (String.String (Ascii.Ascii false false true true false true true false)
                                                                  String.EmptyString)))))))))))))))))))).
Proof. exact Hoisting.text_name_clash_is_error. Qed.
Print Assumptions text_name_clash_is_error.

Theorem mov_name_clash_is_error :
  forall (autovars : list (text * autovar)) (switches : list (text * text)) (env_errors : bool)
    (parse_format : toks -> res (token * text * text * toks)),
  env_errors = true ->
  forall (ts : list token) (st : pstate) (n : text) (g : bool) (tk : token) (steps : list token) (g' : bool) (tk' : token) (steps' : list token),
  parse_tops autovars switches env_errors parse_format (5 * length ts + 4) pstate0 ts = Ok st ->
  In (TMovement n g tk steps) (ptops st) ->
  In (TMovement n g' tk' steps') (hmovs (ph st)) -> exists e : perr, parse_program autovars switches env_errors parse_format ts = Err e.
Proof. exact Hoisting.mov_name_clash_is_error. Qed.
Print Assumptions mov_name_clash_is_error.


(* ---- whole programs (HoistProgram.v). cmds / named_cmds: every command of every script body and inline map-script body at any
   depth, AutoVar commands in front of conditions included. program_commands_hoisted, program_inline_arguments: every such
   command comes from a run of command_stmt at a position of the program's token stream; an argument without inline data is
   unchanged, an argument with an inline text / moves() is the label of that item in the final hoisting table.
   inline_text_label / inline_moves_label: that label names exactly ONE text (movement) of the program, local, with exactly the
   written content after terminator / format() processing and the written type; its block is in the output and no other line
   of the text section defines it; two items share a label IFF type and content coincide; the name is <script>_Text_<n> of
   the first appearance in source order, n = the labels that script owned before. inline_*_argument_defined,
   inline_arguments_share_labels, inline_argument_names; compiled_*: the same from the source text. Not claimed: uniqueness
   in the WHOLE output - Examples.label_defined_twice_in_output: a script the author names S_Text_0 clashes (boundary B2). ---- *)
From Pory Require HoistProgram. Open Scope list_scope.
Theorem program_commands_hoisted :
  forall (autovars : list (text * autovar)) (switches : list (text * text)) (ee : bool)
    (parse_format : toks -> res (token * text * text * toks)),
  (forall (ts : toks) (tk : token) (v sty : text) (ts' : toks),
   parse_format ts = Ok (tk, v, sty, ts') -> forall a : toks, Consume.advs a ts -> Consume.advs a ts') ->
  forall (T : toks) (p : program),
  parse_program autovars switches ee parse_format T = Ok p ->
  exists st : pstate,
    parse_tops autovars switches ee parse_format (5 * length T + 4) pstate0 T = Ok st /\
    HoistProgram.all_hoisted switches ee parse_format T (ph st) (HoistProgram.named_cmds (tops p)).
Proof. exact HoistProgram.program_commands_hoisted. Qed.
Print Assumptions program_commands_hoisted.

Theorem program_inline_arguments :
  forall (autovars : list (text * autovar)) (switches : list (text * text)) (ee : bool)
    (parse_format : toks -> res (token * text * text * toks)),
  (forall (ts : toks) (tk : token) (v sty : text) (ts' : toks),
   parse_format ts = Ok (tk, v, sty, ts') -> forall a : toks, Consume.advs a ts -> Consume.advs a ts') ->
  forall (T : toks) (p : program),
  parse_program autovars switches ee parse_format T = Ok p ->
  exists st : pstate,
    parse_tops autovars switches ee parse_format (5 * length T + 4) pstate0 T = Ok st /\
    (forall (script : text) (c : cmd),
     In (script, c) (HoistProgram.named_cmds (tops p)) ->
     exists (c0 : cmd) (impc : impdata),
       HoistProgram.orig switches ee parse_format T script c0 impc /\
       cname c = cname c0 /\
       ctok c = ctok c0 /\
       cid c = cid c0 /\
       length (cargs c) = length (cargs c0) /\
       (forall k : nat,
        filter (HoistProgram.argT k) (idT impc) = [] ->
        filter (HoistProgram.argM k) (idM impc) = [] -> nth_error (cargs c) k = nth_error (cargs c0) k) /\
       (forall (k : nat) (pre0 : list imptext) (it : imptext),
        filter (HoistProgram.argT k) (idT impc) = pre0 ++ [it] ->
        filter (HoistProgram.argM k) (idM impc) = [] -> exists l : text, nth_error (cargs c) k = Some l /\ HoistProgram.tlabel (ph st) it l) /\
       (forall (k : nat) (pre0 : list impmov) (im : impmov),
        filter (HoistProgram.argM k) (idM impc) = pre0 ++ [im] ->
        exists l : text, nth_error (cargs c) k = Some l /\ HoistProgram.mlabel (ph st) im l) /\
       (forall it : imptext,
        In it (idT impc) ->
        itCid it = cid c /\
        itArg it < length (cargs c) /\
        itScript it = script /\
        (exists v : text, tlit (itTok it) = terminate v (itType it)) /\ (exists l : text, HoistProgram.tlabel (ph st) it l)) /\
       (forall im : impmov,
        In im (idM impc) ->
        imCid im = cid c /\
        imArg im < length (cargs c) /\ imScript im = script /\ imCmdTok im = ctok c /\ (exists l : text, HoistProgram.mlabel (ph st) im l))).
Proof. exact HoistProgram.program_inline_arguments. Qed.
Print Assumptions program_inline_arguments.

Theorem program_command_sites :
  forall (autovars : list (text * autovar)) (switches : list (text * text)) (ee : bool)
    (parse_format : toks -> res (token * text * text * toks)) (T : toks) (p : program) (body : list stmt) (c : cmd),
  parse_program autovars switches ee parse_format T = Ok p ->
  In body (ProgWf.bodies_of (tops p)) -> HoistProgram.cmd_at c body -> exists script : text, In (script, c) (HoistProgram.named_cmds (tops p)).
Proof. exact HoistProgram.program_command_sites. Qed.
Print Assumptions program_command_sites.

Theorem inline_text_label :
  forall (autovars : list (text * autovar)) (switches : list (text * text)) (ee : bool)
    (parse_format : toks -> res (token * text * text * toks)),
  ee = true ->
  forall (T : toks) (p : program) (st : pstate) (it : imptext) (l : text),
  parse_program autovars switches ee parse_format T = Ok p ->
  parse_tops autovars switches ee parse_format (5 * length T + 4) pstate0 T = Ok st ->
  HoistProgram.tlabel (ph st) it l ->
  (exists x : textdef,
     In x (texts p) /\
     xname x = l /\
     xvalue x = tlit (itTok it) /\
     xtype x = itType it /\
     xglob x = false /\
     (forall y : textdef, In y (texts p) -> xname y = l -> y = x) /\
     length (filter (fun y : textdef => text_eqb (xname y) l) (texts p)) = 1 /\
     (forall (optimize : bool) (mp : option text) (out : list Emitter.instr),
      Emitter.emit_program_instrs optimize mp p = Emitter.Ok out ->
      exists (a : list Emitter.instr) (n : nat) (pre post : list Emitter.instr),
        out = a ++ Emitter.emit_texts mp (texts p) n /\
        Emitter.emit_texts mp (texts p) n = pre ++ Emitter.emit_text mp x ++ post /\
        filter (HoistProgram.is_label l) (Emitter.emit_texts mp (texts p) n) = [Emitter.ILabel l false])) /\
  (forall (it' : imptext) (l' : text), HoistProgram.tlabel (ph st) it' l' -> tkey it = tkey it' <-> l = l') /\
  (exists (imps : list impdata) (pss : list (list patch)) (A : list imptext) (fo : imptext) (B P Q : list imptext),
     hoist_all imps hst0 = (ph st, pss) /\
     Forall (parsed_imp autovars switches ee parse_format) imps /\
     new_texts [] (flat_map idT imps) = A ++ fo :: B /\
     tkey fo = tkey it /\
     flat_map idT imps = P ++ fo :: Q /\ ~ In (tkey it) (map tkey P) /\ l = text_label (itScript fo) (owned (itScript fo) (map itScript A))).
Proof. exact HoistProgram.inline_text_label. Qed.
Print Assumptions inline_text_label.

Theorem inline_moves_label :
  forall (autovars : list (text * autovar)) (switches : list (text * text)) (ee : bool)
    (parse_format : toks -> res (token * text * text * toks)),
  ee = true ->
  forall (T : toks) (p : program) (st : pstate) (im : impmov) (l : text),
  parse_program autovars switches ee parse_format T = Ok p ->
  parse_tops autovars switches ee parse_format (5 * length T + 4) pstate0 T = Ok st ->
  HoistProgram.mlabel (ph st) im l ->
  (exists (tk : token) (steps : list token),
     In (TMovement l false tk steps) (tops p) /\
     mov_key steps = mov_key (imToks im) /\
     (Forall no_colon steps -> Forall no_colon (imToks im) -> map tlit steps = map tlit (imToks im)) /\
     (forall (g' : bool) (tk' : token) (steps' : list token),
      In (TMovement l g' tk' steps') (tops p) -> g' = false /\ tk' = tk /\ steps' = steps) /\
     length (filter (is_mov_named l) (tops p)) = 1 /\
     (forall (optimize : bool) (mp : option text) (out : list Emitter.instr),
      Emitter.emit_program_instrs optimize mp p = Emitter.Ok out ->
      exists a b : list Emitter.instr, out = a ++ Emitter.emit_movement mp l false tk steps ++ b)) /\
  (forall (im' : impmov) (l' : text), HoistProgram.mlabel (ph st) im' l' -> mkey im = mkey im' <-> l = l') /\
  (exists (imps : list impdata) (pss : list (list patch)) (A : list impmov) (fo : impmov) (B P Q : list impmov),
     hoist_all imps hst0 = (ph st, pss) /\
     Forall (parsed_imp autovars switches ee parse_format) imps /\
     new_movs [] (flat_map idM imps) = A ++ fo :: B /\
     mkey fo = mkey im /\
     flat_map idM imps = P ++ fo :: Q /\ ~ In (mkey im) (map mkey P) /\ l = mov_label (imScript fo) (owned (imScript fo) (map imScript A))).
Proof. exact HoistProgram.inline_moves_label. Qed.
Print Assumptions inline_moves_label.

Theorem inline_text_argument_defined :
  forall (autovars : list (text * autovar)) (switches : list (text * text)) (parse_format : toks -> res (token * text * text * toks)),
  (forall (ts : toks) (tk : token) (v sty : text) (ts' : toks),
   parse_format ts = Ok (tk, v, sty, ts') -> forall a : toks, Consume.advs a ts -> Consume.advs a ts') ->
  forall (T : toks) (p : program),
  parse_program autovars switches true parse_format T = Ok p ->
  forall (script : text) (c : cmd),
  In (script, c) (HoistProgram.named_cmds (tops p)) ->
  exists (c0 : cmd) (impc : impdata),
    HoistProgram.orig switches true parse_format T script c0 impc /\
    cname c = cname c0 /\
    ctok c = ctok c0 /\
    cid c = cid c0 /\
    (forall (k : nat) (pre0 : list imptext) (it : imptext),
     filter (HoistProgram.argT k) (idT impc) = pre0 ++ [it] ->
     filter (HoistProgram.argM k) (idM impc) = [] ->
     exists (l : text) (x : textdef),
       nth_error (cargs c) k = Some l /\
       itScript it = script /\
       (exists v : text, tlit (itTok it) = terminate v (itType it)) /\
       In x (texts p) /\
       xname x = l /\
       xvalue x = tlit (itTok it) /\
       xtype x = itType it /\
       xglob x = false /\
       (forall y : textdef, In y (texts p) -> xname y = l -> y = x) /\
       (forall (optimize : bool) (mp : option text) (out : list Emitter.instr),
        Emitter.emit_program_instrs optimize mp p = Emitter.Ok out ->
        exists (a : list Emitter.instr) (n : nat) (pre post : list Emitter.instr),
          out = a ++ Emitter.emit_texts mp (texts p) n /\
          Emitter.emit_texts mp (texts p) n = pre ++ Emitter.emit_text mp x ++ post /\
          filter (HoistProgram.is_label l) (Emitter.emit_texts mp (texts p) n) = [Emitter.ILabel l false])).
Proof. exact HoistProgram.inline_text_argument_defined. Qed.
Print Assumptions inline_text_argument_defined.

Theorem inline_moves_argument_defined :
  forall (autovars : list (text * autovar)) (switches : list (text * text)) (parse_format : toks -> res (token * text * text * toks)),
  (forall (ts : toks) (tk : token) (v sty : text) (ts' : toks),
   parse_format ts = Ok (tk, v, sty, ts') -> forall a : toks, Consume.advs a ts -> Consume.advs a ts') ->
  forall (T : toks) (p : program),
  parse_program autovars switches true parse_format T = Ok p ->
  forall (script : text) (c : cmd),
  In (script, c) (HoistProgram.named_cmds (tops p)) ->
  exists (c0 : cmd) (impc : impdata),
    HoistProgram.orig switches true parse_format T script c0 impc /\
    cname c = cname c0 /\
    ctok c = ctok c0 /\
    cid c = cid c0 /\
    (forall (k : nat) (pre0 : list impmov) (im : impmov),
     filter (HoistProgram.argM k) (idM impc) = pre0 ++ [im] ->
     exists (l : text) (tk : token) (steps : list token),
       nth_error (cargs c) k = Some l /\
       imScript im = script /\
       In (TMovement l false tk steps) (tops p) /\
       mov_key steps = mov_key (imToks im) /\
       (Forall no_colon steps -> Forall no_colon (imToks im) -> map tlit steps = map tlit (imToks im)) /\
       (forall (g' : bool) (tk' : token) (steps' : list token),
        In (TMovement l g' tk' steps') (tops p) -> g' = false /\ tk' = tk /\ steps' = steps) /\
       (forall (optimize : bool) (mp : option text) (out : list Emitter.instr),
        Emitter.emit_program_instrs optimize mp p = Emitter.Ok out ->
        exists a b : list Emitter.instr, out = a ++ Emitter.emit_movement mp l false tk steps ++ b)).
Proof. exact HoistProgram.inline_moves_argument_defined. Qed.
Print Assumptions inline_moves_argument_defined.

Theorem inline_arguments_share_labels :
  forall (autovars : list (text * autovar)) (switches : list (text * text)) (parse_format : toks -> res (token * text * text * toks)),
  (forall (ts : toks) (tk : token) (v sty : text) (ts' : toks),
   parse_format ts = Ok (tk, v, sty, ts') -> forall a : toks, Consume.advs a ts -> Consume.advs a ts') ->
  forall (T : toks) (p : program),
  parse_program autovars switches true parse_format T = Ok p ->
  forall (s1 : text) (c1 : cmd) (s2 : text) (c2 : cmd),
  In (s1, c1) (HoistProgram.named_cmds (tops p)) ->
  In (s2, c2) (HoistProgram.named_cmds (tops p)) ->
  exists (c01 : cmd) (impc1 : impdata) (c02 : cmd) (impc2 : impdata),
    HoistProgram.orig switches true parse_format T s1 c01 impc1 /\
    cid c1 = cid c01 /\
    HoistProgram.orig switches true parse_format T s2 c02 impc2 /\
    cid c2 = cid c02 /\
    (forall (k1 : nat) (p1 : list imptext) (it1 : imptext) (k2 : nat) (p2 : list imptext) (it2 : imptext),
     filter (HoistProgram.argT k1) (idT impc1) = p1 ++ [it1] ->
     filter (HoistProgram.argM k1) (idM impc1) = [] ->
     filter (HoistProgram.argT k2) (idT impc2) = p2 ++ [it2] ->
     filter (HoistProgram.argM k2) (idM impc2) = [] -> nth_error (cargs c1) k1 = nth_error (cargs c2) k2 <-> tkey it1 = tkey it2) /\
    (forall (k1 : nat) (p1 : list impmov) (im1 : impmov) (k2 : nat) (p2 : list impmov) (im2 : impmov),
     filter (HoistProgram.argM k1) (idM impc1) = p1 ++ [im1] ->
     filter (HoistProgram.argM k2) (idM impc2) = p2 ++ [im2] -> nth_error (cargs c1) k1 = nth_error (cargs c2) k2 <-> mkey im1 = mkey im2).
Proof. exact HoistProgram.inline_arguments_share_labels. Qed.
Print Assumptions inline_arguments_share_labels.

Theorem inline_argument_names :
  forall (autovars : list (text * autovar)) (switches : list (text * text)) (parse_format : toks -> res (token * text * text * toks)),
  (forall (ts : toks) (tk : token) (v sty : text) (ts' : toks),
   parse_format ts = Ok (tk, v, sty, ts') -> forall a : toks, Consume.advs a ts -> Consume.advs a ts') ->
  forall (T : toks) (p : program),
  parse_program autovars switches true parse_format T = Ok p ->
  exists imps : list impdata,
    Forall (parsed_imp autovars switches true parse_format) imps /\
    (forall (script : text) (c : cmd),
     In (script, c) (HoistProgram.named_cmds (tops p)) ->
     exists (c0 : cmd) (impc : impdata),
       HoistProgram.orig switches true parse_format T script c0 impc /\
       cid c = cid c0 /\
       (forall (k : nat) (pre0 : list imptext) (it : imptext),
        filter (HoistProgram.argT k) (idT impc) = pre0 ++ [it] ->
        filter (HoistProgram.argM k) (idM impc) = [] ->
        exists (A : list imptext) (fo : imptext) (B P Q : list imptext),
          new_texts [] (flat_map idT imps) = A ++ fo :: B /\
          tkey fo = tkey it /\
          flat_map idT imps = P ++ fo :: Q /\
          ~ In (tkey it) (map tkey P) /\ nth_error (cargs c) k = Some (text_label (itScript fo) (owned (itScript fo) (map itScript A)))) /\
       (forall (k : nat) (pre0 : list impmov) (im : impmov),
        filter (HoistProgram.argM k) (idM impc) = pre0 ++ [im] ->
        exists (A : list impmov) (fo : impmov) (B P Q : list impmov),
          new_movs [] (flat_map idM imps) = A ++ fo :: B /\
          mkey fo = mkey im /\
          flat_map idM imps = P ++ fo :: Q /\
          ~ In (mkey im) (map mkey P) /\ nth_error (cargs c) k = Some (mov_label (imScript fo) (owned (imScript fo) (map imScript A))))).
Proof. exact HoistProgram.inline_argument_names. Qed.
Print Assumptions inline_argument_names.

Theorem compiled_commands_are_patched_commands :
  forall (hl hd hs : N -> bool) (autovars : list (text * autovar)) (switches : list (text * text)) (fc : Format.fontcfg) 
    (cli_font : text) (cli_maxlen : Z) (s : text) (p : program),
  parse_program autovars switches true (Format.parse_format fc cli_font cli_maxlen true) (lex hl hd hs s) = Ok p ->
  exists st : pstate,
    parse_tops autovars switches true (Format.parse_format fc cli_font cli_maxlen true) (5 * length (lex hl hd hs s) + 4) pstate0
      (lex hl hd hs s) = Ok st /\
    (forall (script : text) (c : cmd),
     In (script, c) (HoistProgram.named_cmds (tops p)) ->
     exists (c0 : cmd) (impc : impdata),
       HoistProgram.orig switches true (Format.parse_format fc cli_font cli_maxlen true) (lex hl hd hs s) script c0 impc /\
       cname c = cname c0 /\
       ctok c = ctok c0 /\
       cid c = cid c0 /\
       length (cargs c) = length (cargs c0) /\
       (forall k : nat,
        filter (HoistProgram.argT k) (idT impc) = [] ->
        filter (HoistProgram.argM k) (idM impc) = [] -> nth_error (cargs c) k = nth_error (cargs c0) k) /\
       (forall (k : nat) (pre0 : list imptext) (it : imptext),
        filter (HoistProgram.argT k) (idT impc) = pre0 ++ [it] ->
        filter (HoistProgram.argM k) (idM impc) = [] -> exists l : text, nth_error (cargs c) k = Some l /\ HoistProgram.tlabel (ph st) it l) /\
       (forall (k : nat) (pre0 : list impmov) (im : impmov),
        filter (HoistProgram.argM k) (idM impc) = pre0 ++ [im] ->
        exists l : text, nth_error (cargs c) k = Some l /\ HoistProgram.mlabel (ph st) im l) /\
       (forall it : imptext,
        In it (idT impc) ->
        itCid it = cid c /\
        itArg it < length (cargs c) /\
        itScript it = script /\
        (exists v : text, tlit (itTok it) = terminate v (itType it)) /\ (exists l : text, HoistProgram.tlabel (ph st) it l)) /\
       (forall im : impmov,
        In im (idM impc) ->
        imCid im = cid c /\
        imArg im < length (cargs c) /\ imScript im = script /\ imCmdTok im = ctok c /\ (exists l : text, HoistProgram.mlabel (ph st) im l))).
Proof. exact HoistProgram.compiled_commands_are_patched_commands. Qed.
Print Assumptions compiled_commands_are_patched_commands.

Theorem compiled_inline_text_argument :
  forall (hl hd hs : N -> bool) (autovars : list (text * autovar)) (switches : list (text * text)) (fc : Format.fontcfg) 
    (cli_font : text) (cli_maxlen : Z) (s : text) (p : program),
  parse_program autovars switches true (Format.parse_format fc cli_font cli_maxlen true) (lex hl hd hs s) = Ok p ->
  forall (script : text) (c : cmd),
  In (script, c) (HoistProgram.named_cmds (tops p)) ->
  exists (c0 : cmd) (impc : impdata),
    HoistProgram.orig switches true (Format.parse_format fc cli_font cli_maxlen true) (lex hl hd hs s) script c0 impc /\
    cname c = cname c0 /\
    ctok c = ctok c0 /\
    cid c = cid c0 /\
    (forall (k : nat) (pre0 : list imptext) (it : imptext),
     filter (HoistProgram.argT k) (idT impc) = pre0 ++ [it] ->
     filter (HoistProgram.argM k) (idM impc) = [] ->
     exists (l : text) (x : textdef),
       nth_error (cargs c) k = Some l /\
       itScript it = script /\
       (exists v : text, tlit (itTok it) = terminate v (itType it)) /\
       In x (texts p) /\
       xname x = l /\
       xvalue x = tlit (itTok it) /\
       xtype x = itType it /\
       xglob x = false /\
       (forall y : textdef, In y (texts p) -> xname y = l -> y = x) /\
       (forall (optimize : bool) (mp : option text) (out : list Emitter.instr),
        Emitter.emit_program_instrs optimize mp p = Emitter.Ok out ->
        exists (a : list Emitter.instr) (n : nat) (pre post : list Emitter.instr),
          out = a ++ Emitter.emit_texts mp (texts p) n /\
          Emitter.emit_texts mp (texts p) n = pre ++ Emitter.emit_text mp x ++ post /\
          filter (HoistProgram.is_label l) (Emitter.emit_texts mp (texts p) n) = [Emitter.ILabel l false])).
Proof. exact HoistProgram.compiled_inline_text_argument. Qed.
Print Assumptions compiled_inline_text_argument.

Theorem compiled_inline_moves_argument :
  forall (hl hd hs : N -> bool) (autovars : list (text * autovar)) (switches : list (text * text)) (fc : Format.fontcfg) 
    (cli_font : text) (cli_maxlen : Z) (s : text) (p : program),
  parse_program autovars switches true (Format.parse_format fc cli_font cli_maxlen true) (lex hl hd hs s) = Ok p ->
  forall (script : text) (c : cmd),
  In (script, c) (HoistProgram.named_cmds (tops p)) ->
  exists (c0 : cmd) (impc : impdata),
    HoistProgram.orig switches true (Format.parse_format fc cli_font cli_maxlen true) (lex hl hd hs s) script c0 impc /\
    cname c = cname c0 /\
    ctok c = ctok c0 /\
    cid c = cid c0 /\
    (forall (k : nat) (pre0 : list impmov) (im : impmov),
     filter (HoistProgram.argM k) (idM impc) = pre0 ++ [im] ->
     exists (l : text) (tk : token) (steps : list token),
       nth_error (cargs c) k = Some l /\
       imScript im = script /\
       In (TMovement l false tk steps) (tops p) /\
       mov_key steps = mov_key (imToks im) /\
       (Forall no_colon steps -> Forall no_colon (imToks im) -> map tlit steps = map tlit (imToks im)) /\
       (forall (g' : bool) (tk' : token) (steps' : list token),
        In (TMovement l g' tk' steps') (tops p) -> g' = false /\ tk' = tk /\ steps' = steps) /\
       (forall (optimize : bool) (mp : option text) (out : list Emitter.instr),
        Emitter.emit_program_instrs optimize mp p = Emitter.Ok out ->
        exists a b : list Emitter.instr, out = a ++ Emitter.emit_movement mp l false tk steps ++ b)).
Proof. exact HoistProgram.compiled_inline_moves_argument. Qed.
Print Assumptions compiled_inline_moves_argument.

Theorem compiled_inline_arguments_share_labels :
  forall (hl hd hs : N -> bool) (autovars : list (text * autovar)) (switches : list (text * text)) (fc : Format.fontcfg) 
    (cli_font : text) (cli_maxlen : Z) (s : text) (p : program),
  parse_program autovars switches true (Format.parse_format fc cli_font cli_maxlen true) (lex hl hd hs s) = Ok p ->
  forall (s1 : text) (c1 : cmd) (s2 : text) (c2 : cmd),
  In (s1, c1) (HoistProgram.named_cmds (tops p)) ->
  In (s2, c2) (HoistProgram.named_cmds (tops p)) ->
  exists (c01 : cmd) (impc1 : impdata) (c02 : cmd) (impc2 : impdata),
    HoistProgram.orig switches true (Format.parse_format fc cli_font cli_maxlen true) (lex hl hd hs s) s1 c01 impc1 /\
    cid c1 = cid c01 /\
    HoistProgram.orig switches true (Format.parse_format fc cli_font cli_maxlen true) (lex hl hd hs s) s2 c02 impc2 /\
    cid c2 = cid c02 /\
    (forall (k1 : nat) (p1 : list imptext) (it1 : imptext) (k2 : nat) (p2 : list imptext) (it2 : imptext),
     filter (HoistProgram.argT k1) (idT impc1) = p1 ++ [it1] ->
     filter (HoistProgram.argM k1) (idM impc1) = [] ->
     filter (HoistProgram.argT k2) (idT impc2) = p2 ++ [it2] ->
     filter (HoistProgram.argM k2) (idM impc2) = [] -> nth_error (cargs c1) k1 = nth_error (cargs c2) k2 <-> tkey it1 = tkey it2) /\
    (forall (k1 : nat) (p1 : list impmov) (im1 : impmov) (k2 : nat) (p2 : list impmov) (im2 : impmov),
     filter (HoistProgram.argM k1) (idM impc1) = p1 ++ [im1] ->
     filter (HoistProgram.argM k2) (idM impc2) = p2 ++ [im2] -> nth_error (cargs c1) k1 = nth_error (cargs c2) k2 <-> mkey im1 = mkey im2).
Proof. exact HoistProgram.compiled_inline_arguments_share_labels. Qed.
Print Assumptions compiled_inline_arguments_share_labels.

Theorem compiled_inline_argument_names :
  forall (hl hd hs : N -> bool) (autovars : list (text * autovar)) (switches : list (text * text)) (fc : Format.fontcfg) 
    (cli_font : text) (cli_maxlen : Z) (s : text) (p : program),
  parse_program autovars switches true (Format.parse_format fc cli_font cli_maxlen true) (lex hl hd hs s) = Ok p ->
  exists imps : list impdata,
    Forall (parsed_imp autovars switches true (Format.parse_format fc cli_font cli_maxlen true)) imps /\
    (forall (script : text) (c : cmd),
     In (script, c) (HoistProgram.named_cmds (tops p)) ->
     exists (c0 : cmd) (impc : impdata),
       HoistProgram.orig switches true (Format.parse_format fc cli_font cli_maxlen true) (lex hl hd hs s) script c0 impc /\
       cid c = cid c0 /\
       (forall (k : nat) (pre0 : list imptext) (it : imptext),
        filter (HoistProgram.argT k) (idT impc) = pre0 ++ [it] ->
        filter (HoistProgram.argM k) (idM impc) = [] ->
        exists (A : list imptext) (fo : imptext) (B P Q : list imptext),
          new_texts [] (flat_map idT imps) = A ++ fo :: B /\
          tkey fo = tkey it /\
          flat_map idT imps = P ++ fo :: Q /\
          ~ In (tkey it) (map tkey P) /\ nth_error (cargs c) k = Some (text_label (itScript fo) (owned (itScript fo) (map itScript A)))) /\
       (forall (k : nat) (pre0 : list impmov) (im : impmov),
        filter (HoistProgram.argM k) (idM impc) = pre0 ++ [im] ->
        exists (A : list impmov) (fo : impmov) (B P Q : list impmov),
          new_movs [] (flat_map idM imps) = A ++ fo :: B /\
          mkey fo = mkey im /\
          flat_map idM imps = P ++ fo :: Q /\
          ~ In (mkey im) (map mkey P) /\ nth_error (cargs c) k = Some (mov_label (imScript fo) (owned (imScript fo) (map imScript A))))).
Proof. exact HoistProgram.compiled_inline_argument_names. Qed.
Print Assumptions compiled_inline_argument_names.


(* TextProgram.v *)
From Pory Require TextProgram.
Theorem program_text_argument_label :
  forall (autovars : list (text * autovar)) (switches : list (text * text)) (parse_format : toks -> res (token * text * text * toks)),
  (forall (ts : toks) (tk : token) (v sty : text) (ts' : toks),
   parse_format ts = Ok (tk, v, sty, ts') -> forall a : toks, Consume.advs a ts -> Consume.advs a ts') ->
  forall (T : toks) (p : program),
  parse_program autovars switches true parse_format T = Ok p ->
  forall (script : text) (c : cmd),
  In (script, c) (HoistProgram.named_cmds (tops p)) ->
  forall (name : token) (k : nat) (tk : token) (v sty : text),
  TextProgram.written_text switches parse_format T c name k tk v sty ->
  cname c = tlit name /\
  ctok c = name /\
  (exists (st : pstate) (l : text),
     parse_tops autovars switches true parse_format (5 * length T + 4) pstate0 T = Ok st /\
     nth_error (cargs c) k = Some l /\ find_text (hset (ph st)) (terminate v sty) sty = Some l).
Proof. exact TextProgram.program_text_argument_label. Qed.
Print Assumptions program_text_argument_label.

Theorem program_text_argument :
  forall (autovars : list (text * autovar)) (switches : list (text * text)) (parse_format : toks -> res (token * text * text * toks)),
  (forall (ts : toks) (tk : token) (v sty : text) (ts' : toks),
   parse_format ts = Ok (tk, v, sty, ts') -> forall a : toks, Consume.advs a ts -> Consume.advs a ts') ->
  forall (T : toks) (p : program),
  parse_program autovars switches true parse_format T = Ok p ->
  forall (script : text) (c : cmd),
  In (script, c) (HoistProgram.named_cmds (tops p)) ->
  forall (name : token) (k : nat) (tk : token) (v sty : text),
  TextProgram.written_text switches parse_format T c name k tk v sty ->
  cname c = tlit name /\
  ctok c = name /\
  (exists (l : text) (x : textdef),
     nth_error (cargs c) k = Some l /\
     In x (texts p) /\
     xname x = l /\
     xvalue x = terminate v sty /\
     xtype x = sty /\
     xglob x = false /\
     (forall y : textdef, In y (texts p) -> xname y = l -> y = x) /\
     length (filter (fun y : textdef => text_eqb (xname y) l) (texts p)) = 1 /\
     (forall (optimize : bool) (mp : option text) (out : list Emitter.instr),
      Emitter.emit_program_instrs optimize mp p = Emitter.Ok out ->
      exists (a : list Emitter.instr) (n : nat) (pre post : list Emitter.instr),
        out = a ++ Emitter.emit_texts mp (texts p) n /\
        Emitter.emit_texts mp (texts p) n = pre ++ Emitter.emit_text mp x ++ post /\
        filter (HoistProgram.is_label l) (Emitter.emit_texts mp (texts p) n) = [Emitter.ILabel l false]) /\
     (forall (optimize : bool) (mp : option text) (out : list Emitter.instr),
      Emitter.emit_program_instrs optimize mp p = Emitter.Ok out -> exists X Y : list Emitter.instr, out = X ++ Emitter.emit_text mp x ++ Y)).
Proof. exact TextProgram.program_text_argument. Qed.
Print Assumptions program_text_argument.

Theorem program_text_argument_lines :
  forall (autovars : list (text * autovar)) (switches : list (text * text)) (parse_format : toks -> res (token * text * text * toks)),
  (forall (ts : toks) (tk : token) (v sty : text) (ts' : toks),
   parse_format ts = Ok (tk, v, sty, ts') -> forall a : toks, Consume.advs a ts -> Consume.advs a ts') ->
  forall (T : toks) (p : program),
  parse_program autovars switches true parse_format T = Ok p ->
  forall (script : text) (c : cmd),
  In (script, c) (HoistProgram.named_cmds (tops p)) ->
  forall (name : token) (k : nat) (tk : token) (v sty : text),
  TextProgram.written_text switches parse_format T c name k tk v sty ->
  exists l : text,
    nth_error (cargs c) k = Some l /\
    length (filter (fun y : textdef => text_eqb (xname y) l) (texts p)) = 1 /\
    (forall (optimize : bool) (out : list Emitter.instr),
     Emitter.emit_program_instrs optimize None p = Emitter.Ok out ->
     exists X Y : list Emitter.instr,
       out =
       X ++
       (Emitter.ILabel l false
        :: map
             (fun line : text =>
              Emitter.IData
                match sty with
                | [] =>
                    t
                      (String.String (Ascii.Ascii true true false false true true true false)
                         (String.String (Ascii.Ascii false false true false true true true false)
                            (String.String (Ascii.Ascii false true false false true true true false)
                               (String.String (Ascii.Ascii true false false true false true true false)
                                  (String.String (Ascii.Ascii false true true true false true true false)
                                     (String.String (Ascii.Ascii true true true false false true true false) String.EmptyString))))))
                | _ :: _ => sty
                end line) (Emitter.split_nl (terminate v sty) [])) ++ Y).
Proof. exact TextProgram.program_text_argument_lines. Qed.
Print Assumptions program_text_argument_lines.

Theorem program_text_arguments_share :
  forall (autovars : list (text * autovar)) (switches : list (text * text)) (parse_format : toks -> res (token * text * text * toks)),
  (forall (ts : toks) (tk : token) (v sty : text) (ts' : toks),
   parse_format ts = Ok (tk, v, sty, ts') -> forall a : toks, Consume.advs a ts -> Consume.advs a ts') ->
  forall (T : toks) (p : program),
  parse_program autovars switches true parse_format T = Ok p ->
  forall (s1 : text) (c1 : cmd) (s2 : text) (c2 : cmd),
  In (s1, c1) (HoistProgram.named_cmds (tops p)) ->
  In (s2, c2) (HoistProgram.named_cmds (tops p)) ->
  forall (n1 : token) (k1 : nat) (tk1 : token) (v1 sty1 : text) (n2 : token) (k2 : nat) (tk2 : token) (v2 sty2 : text),
  TextProgram.written_text switches parse_format T c1 n1 k1 tk1 v1 sty1 ->
  TextProgram.written_text switches parse_format T c2 n2 k2 tk2 v2 sty2 ->
  nth_error (cargs c1) k1 = nth_error (cargs c2) k2 <-> terminate v1 sty1 = terminate v2 sty2 /\ sty1 = sty2.
Proof. exact TextProgram.program_text_arguments_share. Qed.
Print Assumptions program_text_arguments_share.

Theorem program_str_argument :
  forall (autovars : list (text * autovar)) (switches : list (text * text)) (parse_format : toks -> res (token * text * text * toks)),
  (forall (ts : toks) (tk : token) (v sty : text) (ts' : toks),
   parse_format ts = Ok (tk, v, sty, ts') -> forall a : toks, Consume.advs a ts -> Consume.advs a ts') ->
  forall (T : toks) (p : program),
  parse_program autovars switches true parse_format T = Ok p ->
  forall (script : text) (c : cmd),
  In (script, c) (HoistProgram.named_cmds (tops p)) ->
  forall (name : token) (k : nat) (tk : token),
  TextProgram.written_str switches parse_format T c name k tk ->
  exists (l : text) (x : textdef),
    nth_error (cargs c) k = Some l /\
    In x (texts p) /\
    xname x = l /\
    xvalue x = terminate (tlit tk) [] /\
    xtype x = [] /\
    xglob x = false /\
    (forall y : textdef, In y (texts p) -> xname y = l -> y = x) /\
    length (filter (fun y : textdef => text_eqb (xname y) l) (texts p)) = 1 /\
    (forall (optimize : bool) (mp : option text) (out : list Emitter.instr),
     Emitter.emit_program_instrs optimize mp p = Emitter.Ok out -> exists X Y : list Emitter.instr, out = X ++ Emitter.emit_text mp x ++ Y) /\
    (forall (optimize : bool) (out : list Emitter.instr),
     Emitter.emit_program_instrs optimize None p = Emitter.Ok out ->
     exists X Y : list Emitter.instr,
       out =
       X ++
       (Emitter.ILabel l false
        :: map
             (fun line : text =>
              Emitter.IData
                (t
                   (String.String (Ascii.Ascii true true false false true true true false)
                      (String.String (Ascii.Ascii false false true false true true true false)
                         (String.String (Ascii.Ascii false true false false true true true false)
                            (String.String (Ascii.Ascii true false false true false true true false)
                               (String.String (Ascii.Ascii false true true true false true true false)
                                  (String.String (Ascii.Ascii true true true false false true true false) String.EmptyString))))))) line)
             (Emitter.split_nl (terminate (tlit tk) []) [])) ++ Y).
Proof. exact TextProgram.program_str_argument. Qed.
Print Assumptions program_str_argument.

Theorem program_typed_argument :
  forall (autovars : list (text * autovar)) (switches : list (text * text)) (parse_format : toks -> res (token * text * text * toks)),
  (forall (ts : toks) (tk : token) (v sty : text) (ts' : toks),
   parse_format ts = Ok (tk, v, sty, ts') -> forall a : toks, Consume.advs a ts -> Consume.advs a ts') ->
  forall (T : toks) (p : program),
  parse_program autovars switches true parse_format T = Ok p ->
  forall (script : text) (c : cmd),
  In (script, c) (HoistProgram.named_cmds (tops p)) ->
  forall (name : token) (k : nat) (ty tk : token),
  TextProgram.written_typed switches parse_format T c name k ty tk ->
  exists (l : text) (x : textdef),
    nth_error (cargs c) k = Some l /\
    In x (texts p) /\
    xname x = l /\
    xvalue x = terminate (tlit tk) (tlit ty) /\
    xtype x = tlit ty /\
    xglob x = false /\
    (forall y : textdef, In y (texts p) -> xname y = l -> y = x) /\
    length (filter (fun y : textdef => text_eqb (xname y) l) (texts p)) = 1 /\
    (forall (optimize : bool) (mp : option text) (out : list Emitter.instr),
     Emitter.emit_program_instrs optimize mp p = Emitter.Ok out -> exists X Y : list Emitter.instr, out = X ++ Emitter.emit_text mp x ++ Y).
Proof. exact TextProgram.program_typed_argument. Qed.
Print Assumptions program_typed_argument.

Theorem program_format_argument :
  forall (autovars : list (text * autovar)) (switches : list (text * text)) (parse_format : toks -> res (token * text * text * toks)),
  (forall (ts : toks) (tk : token) (v sty : text) (ts' : toks),
   parse_format ts = Ok (tk, v, sty, ts') -> forall a : toks, Consume.advs a ts -> Consume.advs a ts') ->
  forall (T : toks) (p : program),
  parse_program autovars switches true parse_format T = Ok p ->
  forall (script : text) (c : cmd),
  In (script, c) (HoistProgram.named_cmds (tops p)) ->
  forall (name : token) (k : nat) (lt : list token) (clo tk : token) (v sty : text),
  TextProgram.written_format switches parse_format T c name k lt clo tk v sty ->
  (forall R : list token, R <> [] -> parse_format (lt ++ R) = Ok (tk, v, sty, clo :: R)) /\
  (exists (l : text) (x : textdef),
     nth_error (cargs c) k = Some l /\
     In x (texts p) /\
     xname x = l /\
     xvalue x = terminate v sty /\
     xtype x = sty /\
     xglob x = false /\
     (forall y : textdef, In y (texts p) -> xname y = l -> y = x) /\
     length (filter (fun y : textdef => text_eqb (xname y) l) (texts p)) = 1 /\
     (forall (optimize : bool) (mp : option text) (out : list Emitter.instr),
      Emitter.emit_program_instrs optimize mp p = Emitter.Ok out -> exists X Y : list Emitter.instr, out = X ++ Emitter.emit_text mp x ++ Y)).
Proof. exact TextProgram.program_format_argument. Qed.
Print Assumptions program_format_argument.

Theorem program_text_argument_name :
  forall (autovars : list (text * autovar)) (switches : list (text * text)) (parse_format : toks -> res (token * text * text * toks)),
  (forall (ts : toks) (tk : token) (v sty : text) (ts' : toks),
   parse_format ts = Ok (tk, v, sty, ts') -> forall a : toks, Consume.advs a ts -> Consume.advs a ts') ->
  forall (T : toks) (p : program),
  parse_program autovars switches true parse_format T = Ok p ->
  forall (script : text) (c : cmd),
  In (script, c) (HoistProgram.named_cmds (tops p)) ->
  forall (name : token) (k : nat) (tk : token) (v sty : text),
  TextProgram.written_text switches parse_format T c name k tk v sty ->
  exists (l : text) (st : pstate) (imps : list impdata) (pss : list (list patch)) (A : list imptext) (fo : imptext) 
  (B P Q : list imptext),
    nth_error (cargs c) k = Some l /\
    parse_tops autovars switches true parse_format (5 * length T + 4) pstate0 T = Ok st /\
    hoist_all imps hst0 = (ph st, pss) /\
    Forall (parsed_imp autovars switches true parse_format) imps /\
    new_texts [] (flat_map idT imps) = A ++ fo :: B /\
    tkey fo = (terminate v sty, sty) /\
    flat_map idT imps = P ++ fo :: Q /\
    ~ In (terminate v sty, sty) (map tkey P) /\ l = text_label (itScript fo) (owned (itScript fo) (map itScript A)).
Proof. exact TextProgram.program_text_argument_name. Qed.
Print Assumptions program_text_argument_name.

Theorem compiled_text_argument :
  forall (hl hd hs : N -> bool) (autovars : list (text * autovar)) (switches : list (text * text)) (fc : Format.fontcfg) 
    (cli_font : text) (cli_maxlen : Z) (s : text) (p : program),
  parse_program autovars switches true (Format.parse_format fc cli_font cli_maxlen true) (lex hl hd hs s) = Ok p ->
  forall (script : text) (c : cmd),
  In (script, c) (HoistProgram.named_cmds (tops p)) ->
  forall (name : token) (k : nat) (tk : token) (v sty : text),
  TextProgram.written_text switches (Format.parse_format fc cli_font cli_maxlen true) (lex hl hd hs s) c name k tk v sty ->
  cname c = tlit name /\
  ctok c = name /\
  (exists (l : text) (x : textdef),
     nth_error (cargs c) k = Some l /\
     In x (texts p) /\
     xname x = l /\
     xvalue x = terminate v sty /\
     xtype x = sty /\
     xglob x = false /\
     (forall y : textdef, In y (texts p) -> xname y = l -> y = x) /\
     length (filter (fun y : textdef => text_eqb (xname y) l) (texts p)) = 1 /\
     (forall (optimize : bool) (mp : option text) (out : list Emitter.instr),
      Emitter.emit_program_instrs optimize mp p = Emitter.Ok out ->
      exists (a : list Emitter.instr) (n : nat) (pre post : list Emitter.instr),
        out = a ++ Emitter.emit_texts mp (texts p) n /\
        Emitter.emit_texts mp (texts p) n = pre ++ Emitter.emit_text mp x ++ post /\
        filter (HoistProgram.is_label l) (Emitter.emit_texts mp (texts p) n) = [Emitter.ILabel l false]) /\
     (forall (optimize : bool) (mp : option text) (out : list Emitter.instr),
      Emitter.emit_program_instrs optimize mp p = Emitter.Ok out -> exists X Y : list Emitter.instr, out = X ++ Emitter.emit_text mp x ++ Y)).
Proof. exact TextProgram.compiled_text_argument. Qed.
Print Assumptions compiled_text_argument.

Theorem compiled_text_argument_lines :
  forall (hl hd hs : N -> bool) (autovars : list (text * autovar)) (switches : list (text * text)) (fc : Format.fontcfg) 
    (cli_font : text) (cli_maxlen : Z) (s : text) (p : program),
  parse_program autovars switches true (Format.parse_format fc cli_font cli_maxlen true) (lex hl hd hs s) = Ok p ->
  forall (script : text) (c : cmd),
  In (script, c) (HoistProgram.named_cmds (tops p)) ->
  forall (name : token) (k : nat) (tk : token) (v sty : text),
  TextProgram.written_text switches (Format.parse_format fc cli_font cli_maxlen true) (lex hl hd hs s) c name k tk v sty ->
  exists l : text,
    nth_error (cargs c) k = Some l /\
    length (filter (fun y : textdef => text_eqb (xname y) l) (texts p)) = 1 /\
    (forall (optimize : bool) (out : list Emitter.instr),
     Emitter.emit_program_instrs optimize None p = Emitter.Ok out ->
     exists X Y : list Emitter.instr,
       out =
       X ++
       (Emitter.ILabel l false
        :: map
             (fun line : text =>
              Emitter.IData
                match sty with
                | [] =>
                    t
                      (String.String (Ascii.Ascii true true false false true true true false)
                         (String.String (Ascii.Ascii false false true false true true true false)
                            (String.String (Ascii.Ascii false true false false true true true false)
                               (String.String (Ascii.Ascii true false false true false true true false)
                                  (String.String (Ascii.Ascii false true true true false true true false)
                                     (String.String (Ascii.Ascii true true true false false true true false) String.EmptyString))))))
                | _ :: _ => sty
                end line) (Emitter.split_nl (terminate v sty) [])) ++ Y).
Proof. exact TextProgram.compiled_text_argument_lines. Qed.
Print Assumptions compiled_text_argument_lines.

Theorem compiled_text_arguments_share :
  forall (hl hd hs : N -> bool) (autovars : list (text * autovar)) (switches : list (text * text)) (fc : Format.fontcfg) 
    (cli_font : text) (cli_maxlen : Z) (s : text) (p : program),
  parse_program autovars switches true (Format.parse_format fc cli_font cli_maxlen true) (lex hl hd hs s) = Ok p ->
  forall (s1 : text) (c1 : cmd) (s2 : text) (c2 : cmd),
  In (s1, c1) (HoistProgram.named_cmds (tops p)) ->
  In (s2, c2) (HoistProgram.named_cmds (tops p)) ->
  forall (n1 : token) (k1 : nat) (tk1 : token) (v1 sty1 : text) (n2 : token) (k2 : nat) (tk2 : token) (v2 sty2 : text),
  TextProgram.written_text switches (Format.parse_format fc cli_font cli_maxlen true) (lex hl hd hs s) c1 n1 k1 tk1 v1 sty1 ->
  TextProgram.written_text switches (Format.parse_format fc cli_font cli_maxlen true) (lex hl hd hs s) c2 n2 k2 tk2 v2 sty2 ->
  nth_error (cargs c1) k1 = nth_error (cargs c2) k2 <-> terminate v1 sty1 = terminate v2 sty2 /\ sty1 = sty2.
Proof. exact TextProgram.compiled_text_arguments_share. Qed.
Print Assumptions compiled_text_arguments_share.

Theorem program_every_text_argument :
  forall (autovars : list (text * autovar)) (switches : list (text * text)) (parse_format : toks -> res (token * text * text * toks)),
  (forall (ts : toks) (tk : token) (v sty : text) (ts' : toks),
   parse_format ts = Ok (tk, v, sty, ts') -> forall a : toks, Consume.advs a ts -> Consume.advs a ts') ->
  forall (T : toks) (p : program),
  parse_program autovars switches true parse_format T = Ok p ->
  Consume.eof_ended T ->
  forall (script : text) (c : cmd),
  In (script, c) (HoistProgram.named_cmds (tops p)) ->
  cargs c = [] \/
  (exists (pre : list token) (name lp : token) (a : CmdArgs.arglist) (rp : token) (rest : list token),
     T = pre ++ name :: lp :: CmdArgs.arg_tokens a ++ rp :: rest /\
     cid c = length (name :: lp :: CmdArgs.arg_tokens a ++ rp :: rest) /\
     ttype lp = LPAREN /\
     ttype rp = RPAREN /\
     CmdConverse.wf_args_at switches true parse_format a (rp :: rest) /\
     CmdArgs.balanced (CmdArgs.flat a) /\
     cname c = tlit name /\
     ctok c = name /\
     length (cargs c) = length (CmdArgs.strip_last_empty (CmdArgs.groups_of a)) /\
     (forall (k : nat) (g1 : list CmdArgs.piece) (q : CmdArgs.piece) (g2 : list CmdArgs.piece) (tk : token) (v sty : text),
      nth_error (CmdArgs.groups_of a) k = Some (g1 ++ q :: g2) ->
      TextProgram.piece_text q = Some (tk, v, sty) ->
      Forall (fun q' : CmdArgs.piece => TextProgram.is_text q' = false) g2 ->
      Forall (fun q' : CmdArgs.piece => MovesProgram.is_moves q' = false) (g1 ++ q :: g2) ->
      TextProgram.text_piece_compiled switches parse_format T p c k q v sty)).
Proof. exact TextProgram.program_every_text_argument. Qed.
Print Assumptions program_every_text_argument.

Theorem compiled_every_text_argument :
  forall (hl hd hs : N -> bool) (autovars : list (text * autovar)) (switches : list (text * text)) (fc : Format.fontcfg) 
    (cli_font : text) (cli_maxlen : Z) (s : text) (p : program),
  parse_program autovars switches true (Format.parse_format fc cli_font cli_maxlen true) (lex hl hd hs s) = Ok p ->
  forall (script : text) (c : cmd),
  In (script, c) (HoistProgram.named_cmds (tops p)) ->
  cargs c = [] \/
  (exists (pre : list token) (name lp : token) (a : CmdArgs.arglist) (rp : token) (rest : list token),
     lex hl hd hs s = pre ++ name :: lp :: CmdArgs.arg_tokens a ++ rp :: rest /\
     cid c = length (name :: lp :: CmdArgs.arg_tokens a ++ rp :: rest) /\
     ttype lp = LPAREN /\
     ttype rp = RPAREN /\
     CmdConverse.wf_args_at switches true (Format.parse_format fc cli_font cli_maxlen true) a (rp :: rest) /\
     CmdArgs.balanced (CmdArgs.flat a) /\
     cname c = tlit name /\
     ctok c = name /\
     length (cargs c) = length (CmdArgs.strip_last_empty (CmdArgs.groups_of a)) /\
     (forall (k : nat) (g1 : list CmdArgs.piece) (q : CmdArgs.piece) (g2 : list CmdArgs.piece) (tk : token) (v sty : text),
      nth_error (CmdArgs.groups_of a) k = Some (g1 ++ q :: g2) ->
      TextProgram.piece_text q = Some (tk, v, sty) ->
      Forall (fun q' : CmdArgs.piece => TextProgram.is_text q' = false) g2 ->
      Forall (fun q' : CmdArgs.piece => MovesProgram.is_moves q' = false) (g1 ++ q :: g2) ->
      TextProgram.text_piece_compiled switches (Format.parse_format fc cli_font cli_maxlen true) (lex hl hd hs s) p c k q v sty)).
Proof. exact TextProgram.compiled_every_text_argument. Qed.
Print Assumptions compiled_every_text_argument.

