(* C12 - poryswitch in STATEMENT position: the token-level TWIN of a statement poryswitch.

   The twin of a stream that contains  poryswitch ( NAME ) { case* }  in a block is the stream in which these tokens are
   replaced by the body tokens of the selected case (the last case whose label is the -s value, else the last '_'; ':' form:
   the one statement, '{' form: the statements between the braces), every token keeping its position.  Tags of loops /
   switches and command ids are numbers of tokens still to read, so the two parses differ by shifts of these numbers:
   s1 = sh z (body ++ rest) in front of the poryswitch, s2 = sh ra rest inside the case body, none behind the poryswitch.

   MAIN STATEMENTS (all closed under the global context; pf is the format() operator of the parser model with the three
   facts format_advs / format_local / format_lt, which are theorems for Format.parse_format: Independence.real_format_advs, _local, _lt)

   Part 1  stmt_la        Independence.swp_all for parse_stmt needs the token BEHIND the statement unchanged (Gw 2).  Here:
                          parse_stmt .. x = Ok (ss, imp, y) with y right in front of the replaced end (Gw 1 y) gives the
                          shifted result on the swapped stream as soon as the new next token answers the four look-ahead
                          questions ':' '(' 'else' 'elif' like the old one (LA) and - only inside a loop - a '}' behind a
                          `continue` stays a '}' (LC).   elifs_la, if_la, command_stmt_la, try_label_la_none below it.
   Part 2  srun           a run of statements parsed one after another by the model's parse_stmt;
           block_srun     parse_block goes on behind a run with its statements / inline data appended;  block_acc;
           pstmts_srun, pstmts1_srun   the body of a poryswitch case ('{' form / ':' form) is a run;
           srun_swap      a run is a run (shifted) when the end of the stream behind it is replaced (LA, LC);
           cases_table_acc, case_seq, case_at   the case table of a statement poryswitch = the written cases in source
                          order, each body a run (fuel-aware version of TagRename.stmt_cases_table);
           block_pory_step   parse_block at a poryswitch, any fuel above the bound: selected entry appended, or error
                          "no poryswitch case found" (normal mode) / nothing appended (lint mode) when there is no entry;
           twin_block_step   THE STEP: the selected entry is one written case with body run  body ++ ra -> ra;  in the
                          original parse_block goes on at  rest = adv ts2  with (ss, imp') appended; in the twin
                          body ++ rest  it goes on at the same rest with (g_stmt s2 ss, g_imp s2 imp') appended (LA, LC);
                          any break / continue scopes bs cs (they are shifted by s2 as well, see NOT PROVED).
   Part 3  twin_script_block   one poryswitch directly in the block of a script / map script (bs = cs = []):
                          parse_block f .. x [] imp0 = Ok (b, imp, y)  with the poryswitch behind the run b1  ==>
                          b = b1 ++ ss ++ b3, imp = i1 + imp' + i3, and the twin  pre ++ body ++ rest  parses with the same
                          fuel to  (g s1 b1 ++ g s2 ss ++ b3, g s1 i1 + g s2 imp' + i3, y);  NO look-ahead premise is left
                          (it follows from the success of the original); the twin is strictly shorter.
           twin_blocks_same_shape   the two statement lists have the same TagRename.shape.
   Examples  twin_script_block_hyps (hypotheses satisfiable on TagRename.src_pory: 3 cases, a while loop selected),
           continue_counterexample  FINDING: `... { poryswitch(G) { RUBY { continue } } lock }` inside a loop compiles, its
                          twin `... { continue lock }` is rejected ("'continue' must be the last statement in block
                          scope"; same rule in parser.go:1548): the C12 text is false for such programs; this is exactly LC.

   NOT PROVED (remaining steps to the program-level statement `compile original = compile twin`):
   (a) nesting in control constructs: inside a loop / switch the scopes bs cs of the block are shifted by s1 while the case
       body is shifted by s2; needed: the statement parser with other scope stacks of the same shape gives the same result
       up to the tags of the free break / continue (one more 11-fold induction), then twin_block_step applies as it is;
       several poryswitches: induction over the block with twin_block_step (each step is independent of the others).
   (b) parse_script / parse_tops / parse_program: the three shifts (s1, s2, identity) act on disjoint ranges of ids
       (SrcWf.gw_all for tags, HoistProgram.pi_all for command ids), so they are one renaming, injective on the ids in use;
       with Independence.add_implicit_g / pstmts_g (patching commutes with an injective renaming), Independence.
       tops_run_context (statements in front of the script), FuelOk.parse_tops_fuel_independent (the twin is shorter) and
       twin_blocks_same_shape, TagRename.compile_same_shape then gives equal compile outcomes. *)
From Coq Require Import List String Ascii ZArith NArith Lia Bool.
From Pory Require Import Lexer Ast Parser Consume Independence.
From Pory Require PorySwitchLists FuelOk TagRename C13Proofs ProgSrc.
Import ListNotations.
Open Scope list_scope.

Ltac dH H := first [discriminate H | unfold err_range, err_tok in H; discriminate H].

(* ------------------------------------------------------------------------------------------------------------ *)
(* Part 1: the statement parser looks ONE token beyond the last token of a statement (is it ':' / '(' - a label   *)
(* or a command with arguments -, 'else' / 'elif' after an if, '}' after continue).  Independence.swp_all needs   *)
(* that token unchanged (Gw 2).  Here: it is enough that the new next token answers these questions in the same   *)
(* way (LA); for `continue` (only inside a loop, cs <> []): a closing brace stays a closing brace (LC).           *)
(* ------------------------------------------------------------------------------------------------------------ *)
Section LOOKAHEAD.
Variables ra rb : toks.
Hypothesis ra_ne : ra <> [].
Hypothesis rb_ne : rb <> [].
Local Notation swap := (swap ra rb).
Local Notation Gw := (Gw ra).
Local Notation sh := (sh ra rb).

Definition LA : Prop :=
  is COLON (cur ra) = is COLON (cur rb) /\ is LPAREN (cur ra) = is LPAREN (cur rb) /\
  is ELSE (cur ra) = is ELSE (cur rb) /\ is ELSEIF (cur ra) = is ELSEIF (cur rb).
Definition LC : Prop := is RBRACE (cur ra) = true -> is RBRACE (cur rb) = true.

Lemma Gw_len' n x : Gw n x -> (n + 1 <= len x)%nat.
Proof. intros (u & -> & K). rewrite app_length. assert (1 <= len ra)%nat by (destruct ra; [congruence|cbn; lia]). lia. Qed.

Lemma pk_at (u r : toks) : r <> [] -> pk (len u) (u ++ r) = cur r.
Proof.
  intros N. unfold pk. rewrite app_nth2 by lia. rewrite Nat.sub_diag. destruct r; [congruence|reflexivity].
Qed.

Lemma pk_la i ty s : Gw i s -> is ty (cur ra) = is ty (cur rb) -> is ty (pk i (swap s)) = is ty (pk i s).
Proof.
  intros (u & -> & K) E. rewrite swap_app. destruct (Nat.eq_dec i (len u)) as [->|N].
  - rewrite !pk_at by assumption. symmetry. exact E.
  - rewrite !pk_app_lt by lia. reflexivity.
Qed.
Lemma peekis_la ty s : Gw 1 s -> is ty (cur ra) = is ty (cur rb) -> peekis ty (swap s) = peekis ty s.
Proof. intros G E. unfold peekis. apply pk_la; assumption. Qed.
Lemma peekis_lc s : LC -> Gw 1 s -> peekis RBRACE s = true -> peekis RBRACE (swap s) = true.
Proof.
  intros C (u & -> & K) E. rewrite swap_app. unfold peekis in *. destruct (Nat.eq_dec 1 (len u)) as [Q|N].
  - rewrite Q in *. rewrite pk_at in * by assumption. apply C. exact E.
  - rewrite pk_app_lt in * by lia. exact E.
Qed.

Variable av : list (text * autovar).
Variable sw : list (text * text).
Variable pf : toks -> res (token * text * text * toks).
Variable c : list (text * text).
Hypothesis pf_advs : forall ts tk v sty ts', pf ts = Ok (tk, v, sty, ts') -> forall a, advs a ts -> advs a ts'.
Hypothesis pf_swap : forall x tk v sty y, pf x = Ok (tk, v, sty, y) -> Gw 1 y -> pf (swap x) = Ok (tk, v, sty, swap y).
Hypothesis la : LA.

Local Notation P_stmt ee := (parse_stmt av sw ee pf c).
Local Notation P_block ee := (parse_block av sw ee pf c).
Local Notation P_cond ee := (parse_cond av sw ee pf c).
Local Notation P_if ee := (parse_if av sw ee pf c).
Local Notation P_elifs ee := (parse_elifs av sw ee pf c).
Local Notation P_switch ee := (parse_switch av sw ee pf c).
Local Notation P_pory ee := (parse_pory av sw ee pf c).

Let SW f ee := swp_all ra rb ra_ne rb_ne av sw pf c pf_advs pf_swap f ee.
Local Definition Jblock f ee := proj1 (proj2 (SW f ee)).
Local Definition Jcond f ee := proj1 (proj2 (proj2 (proj2 (SW f ee)))).
Local Definition Jswitch f ee := proj1 (proj2 (proj2 (proj2 (proj2 (proj2 (proj2 (SW f ee))))))).
Local Definition Jpory f ee := proj1 (proj2 (proj2 (proj2 (proj2 (proj2 (proj2 (proj2 (proj2 (SW f ee))))))))).

Lemma a_cond' ee f req script bs cs ts e b imp ts' : P_cond ee f req script bs cs ts = Ok (e, b, imp, ts') -> forall a, advs a ts -> advs a ts'.
Proof. apply (adv_all av sw pf c pf_advs ee f). Qed.
Lemma a_elifs' ee f script bs cs ts acc imp l imp' ts' : P_elifs ee f script bs cs ts acc imp = Ok (l, imp', ts') -> forall a, advs a ts -> advs a ts'.
Proof. apply (adv_all av sw pf c pf_advs ee f). Qed.
Lemma a_block' ee f script bs cs start ts acc imp ss imp' ts' : P_block ee f script bs cs start ts acc imp = Ok (ss, imp', ts') -> forall a, advs a ts -> advs a ts'.
Proof. apply (adv_all av sw pf c pf_advs ee f). Qed.

(* elif chain: the look at the token behind the last '}' *)
Lemma elifs_la ee : forall f script bs cs x acc imp l imp' y,
  P_elifs ee f script bs cs x acc imp = Ok (l, imp', y) -> Gw 1 y ->
  P_elifs ee f script (map sh bs) (map sh cs) (swap x) (g_elifs sh acc) (g_imp sh imp) = Ok (g_elifs sh l, g_imp sh imp', swap y).
Proof.
  induction f as [|f IH]; intros script bs cs x acc imp l imp' y H GS; [discriminate H|].
  rewrite parse_elifs_unfold in H |- *.
  assert (G1 : Gw 1 x) by (eapply G_advs; [|exact GS]; eapply a_elifs'; [rewrite parse_elifs_unfold; exact H|apply advs_refl]).
  rewrite (peekis_la ELSEIF x G1) by apply la.
  destruct (peekis ELSEIF x) eqn:PE.
  - destruct (P_cond ee f true script bs cs (adv x)) as [[[[e b] imp1] ts1]| | |] eqn:EC; try discriminate H.
    cbv beta iota zeta in H. destruct e as [e1|]; [|discriminate H].
    assert (A1 : advs ts1 y) by (eapply a_elifs'; [exact H|apply advs_refl]).
    assert (G2 : Gw 1 ts1) by (eapply G_advs; [exact A1|exact GS]).
    assert (G3 : Gw 1 (adv x)) by (eapply G_advs; [|exact G2]; eapply a_cond'; [exact EC|apply advs_refl]).
    rewrite (swap_adv ra rb ra_ne rb_ne x G1).
    rewrite (Jcond f ee _ _ _ _ _ _ _ _ _ EC G2). cbn [g_obexp].
    specialize (IH _ _ _ _ _ _ _ _ _ H GS). unfold g_elifs in IH |- *. rewrite map_app in IH. cbn [map fst snd] in IH.
    unfold g_imp in IH |- *. unfold impadd in IH |- *. cbn [idT idM] in IH |- *. rewrite !map_app in IH. exact IH.
  - inversion H; subst. reflexivity.
Qed.

Lemma if_la ee f script bs cs x ss imp y :
  P_if ee f script bs cs x = Ok (ss, imp, y) -> Gw 1 y ->
  P_if ee f script (map sh bs) (map sh cs) (swap x) = Ok (map (g_stmt sh) ss, g_imp sh imp, swap y).
Proof.
  destruct f as [|f]; intros H GS; [discriminate H|]. rewrite parse_if_unfold in H |- *.
  destruct (P_cond ee f true script bs cs x) as [[[[e b] imp1] ts1]| | |] eqn:EC; try discriminate H.
  cbv beta iota zeta in H. destruct e as [e1|]; [|discriminate H].
  destruct (P_elifs ee f script bs cs ts1 [] imp1) as [[[elifs imp2] ts2]| | |] eqn:EE; try discriminate H.
  cbv beta iota zeta in H.
  assert (A2 : advs ts2 y).
  { destruct (peekis ELSE ts2); [|inversion H; apply advs_refl].
    destruct (expect_peek LBRACE (adv ts2)) as [ts4|] eqn:EP; [|dH H].
    destruct (P_block ee f script bs cs (cur ts4) (adv ts4) [] imp0) as [[[eb imp3] ts5]| | |] eqn:EB; try discriminate H.
    inversion H; subst. eapply a_block'; [exact EB|]. apply advs_k_adv. eapply advs_k_peek; [exact EP|]. apply advs_k_adv, advs_refl. }
  assert (G2 : Gw 1 ts2) by (eapply G_advs; [exact A2|exact GS]).
  assert (G1 : Gw 1 ts1) by (eapply G_advs; [|exact G2]; eapply a_elifs'; [exact EE|apply advs_refl]).
  rewrite (Jcond f ee _ _ _ _ _ _ _ _ _ EC G1). cbn [g_obexp].
  pose proof (elifs_la ee f _ _ _ _ _ _ _ _ _ EE G2) as E2. cbn [g_elifs map] in E2. rewrite E2.
  rewrite (peekis_la ELSE ts2 G2) by apply la.
  destruct (peekis ELSE ts2) eqn:PE.
  - destruct (expect_peek LBRACE (adv ts2)) as [ts4|] eqn:EP; [|dH H].
    destruct (P_block ee f script bs cs (cur ts4) (adv ts4) [] imp0) as [[[eb imp3] ts5]| | |] eqn:EB; try discriminate H.
    inversion H; subst. clear H.
    assert (G5 : Gw 1 (adv ts4)) by (eapply G_advs; [|exact GS]; eapply a_block'; [exact EB|apply advs_refl]).
    assert (G4 : Gw 2 ts4) by (apply (G_adv_inv ra ra_ne); [lia|exact G5]).
    pose proof (expect_peek_some _ _ _ EP) as Q. subst ts4.
    assert (G6 : Gw 3 (adv ts2)) by (apply (G_adv_inv ra ra_ne); [lia|exact G4]).
    rewrite (swap_adv ra rb ra_ne rb_ne ts2 G2).
    rewrite (swap_expect_peek ra rb ra_ne rb_ne LBRACE (adv ts2)) by (eapply G_le; [|exact G6]; lia). rewrite EP.
    rewrite (swap_cur ra rb (adv (adv ts2))) by (eapply G_le; [|exact G4]; lia).
    rewrite (swap_adv ra rb ra_ne rb_ne (adv (adv ts2))) by (eapply G_le; [|exact G4]; lia).
    pose proof (Jblock f ee _ _ _ _ _ _ _ _ _ _ EB GS) as E3. cbn [map] in E3. unfold g_imp at 1 in E3. cbn [idT idM imp0 map] in E3.
    change {| idT := []; idM := [] |} with imp0 in E3. rewrite E3.
    f_equal. unfold g_imp, impadd. cbn [idT idM]. rewrite !map_app. reflexivity.
  - inversion H; subst. reflexivity.
Qed.

Lemma command_stmt_la ee f script x cm imp y :
  command_stmt sw ee pf c f script x = Ok (cm, imp, y) -> Gw 1 y ->
  command_stmt sw ee pf c f script (swap x) = Ok (g_cmd sh cm, g_imp sh imp, swap y).
Proof.
  intros H GS.
  assert (G1 : Gw 1 x) by (eapply G_advs; [|exact GS]; eapply command_stmt_advs; [exact pf_advs|exact H|apply advs_refl]).
  unfold command_stmt in H |- *. rewrite (peekis_la LPAREN x G1) by apply la.
  rewrite (swap_cur ra rb x G1). rewrite (s_len ra rb x) by (eapply G_le; [|exact G1]; lia).
  destruct (peekis LPAREN x) eqn:PL.
  - destruct (command_args sw ee pf c f script (cur x) (len x) (adv (adv x)) 0 [] [] imp0) as [[[args imp'] y']| | |] eqn:CA; try discriminate H.
    inversion H; subst. clear H.
    assert (G3 : Gw 1 (adv (adv x))) by (eapply G_advs; [|exact GS]; eapply command_args_advs; [exact pf_advs|exact CA|apply advs_refl]).
    assert (G2 : Gw 2 (adv x)) by (apply (G_adv_inv ra ra_ne); [lia|exact G3]).
    rewrite (swap_adv ra rb ra_ne rb_ne x G1). rewrite (swap_adv ra rb ra_ne rb_ne (adv x)) by (eapply G_le; [|exact G2]; lia).
    pose proof (command_args_swap ra rb ra_ne rb_ne pf pf_advs pf_swap sw ee c f _ _ _ _ _ _ _ _ _ _ _ CA GS) as E.
    change (g_imp sh imp0) with imp0 in E. rewrite E. reflexivity.
  - inversion H; subst. reflexivity.
Qed.

Lemma try_label_la_none ee f script x cm imp y :
  try_label x = None -> command_stmt sw ee pf c f script x = Ok (cm, imp, y) -> Gw 1 y -> try_label (swap x) = None.
Proof.
  intros H HC GS.
  assert (A0 : advs x y) by (eapply command_stmt_advs; [exact pf_advs|exact HC|apply advs_refl]).
  assert (G1 : Gw 1 x) by (eapply G_advs; [exact A0|exact GS]).
  unfold try_label in H |- *.
  rewrite (peekis_la COLON x G1) by apply la. destruct (peekis COLON x) eqn:PC; [discriminate H|].
  rewrite (peekis_la LPAREN x G1) by apply la. destruct (peekis LPAREN x) eqn:PL; [|reflexivity].
  unfold command_stmt in HC. rewrite PL in HC.
  destruct (command_args sw ee pf c f script (cur x) (len x) (adv (adv x)) 0 [] [] imp0) as [[[args imp'] y']| | |] eqn:CA; try discriminate HC.
  injection HC as _ _ <-.
  assert (A2 : advs (adv (adv x)) y') by (eapply command_args_advs; [exact pf_advs|exact CA|apply advs_refl]).
  assert (G3 : Gw 3 x).
  { apply (G_adv_inv ra ra_ne); [lia|]. apply (G_adv_inv ra ra_ne); [lia|]. eapply G_advs; [exact A2|exact GS]. }
  rewrite (swap_pk2 ra rb x G3).
  cbn [andb] in H |- *.
  destruct (is GLOBAL (pk 2 x) || is LOCAL (pk 2 x)) eqn:B; [|reflexivity].
  assert (CR : curis RPAREN (adv (adv x)) = false).
  { unfold curis. rewrite cur_adv2 by (pose proof (Gw_len' _ _ G3); lia).
    apply orb_true_iff in B. destruct B as [B|B]; (eapply is_excl; [exact B|discriminate]). }
  pose proof (command_args_adv1 pf pf_advs _ _ _ _ _ _ _ _ _ _ _ _ _ _ _ CA CR) as A3.
  assert (G4 : Gw 4 x).
  { apply (G_adv_inv ra ra_ne); [lia|]. apply (G_adv_inv ra ra_ne); [lia|]. apply (G_adv_inv ra ra_ne); [lia|]. eapply G_advs; [exact A3|exact GS]. }
  rewrite (swap_pk3 ra rb x G4). cbn [andb] in H |- *.
  destruct (is RPAREN (pk 3 x)); [|reflexivity]. cbn [andb] in H |- *.
  rewrite (pk_la 4 COLON x G4) by apply la. destruct (is COLON (pk 4 x)); [discriminate H|reflexivity].
Qed.


Lemma a_stmt' ee f script bs cs ts ss imp ts' : P_stmt ee f script bs cs ts = Ok (ss, imp, ts') -> forall a, advs a ts -> advs a ts'.
Proof. apply (adv_all av sw pf c pf_advs ee f). Qed.
Lemma a_switch' ee f script bs cs ts ss imp ts' : P_switch ee f script bs cs ts = Ok (ss, imp, ts') -> forall a, advs a ts -> advs a ts'.
Proof. apply (adv_all av sw pf c pf_advs ee f). Qed.
Lemma a_pory' ee f script bs cs ts ss imp ts' : P_pory ee f script bs cs ts = Ok (ss, imp, ts') -> forall a, advs a ts -> advs a ts'.
Proof. apply (adv_all av sw pf c pf_advs ee f). Qed.
Lemma a_if' ee f script bs cs ts ss imp ts' : P_if ee f script bs cs ts = Ok (ss, imp, ts') -> forall a, advs a ts -> advs a ts'.
Proof. apply (adv_all av sw pf c pf_advs ee f). Qed.
Lemma right_side_advs' ee f left single negated script ts e i ts' :
  right_side av sw ee pf c f left single negated script ts = Ok (e, i, ts') -> forall a, advs a ts -> advs a ts'.
Proof. apply (bexp_advs av sw pf c pf_advs ee f). Qed.

Ltac wkL := walkx ltac:(fun K => first
  [ eapply FuelOk.list_cases_advs; [exact K|] | eapply pf_advs; [exact K|] | eapply right_side_advs'; [exact K|]
  | eapply a_stmt'; [exact K|] | eapply a_block'; [exact K|] | eapply a_cond'; [exact K|]
  | eapply a_if'; [exact K|] | eapply a_elifs'; [exact K|] | eapply a_switch'; [exact K|] | eapply a_pory'; [exact K|] ]).
Ltac tblL h :=
  lazymatch h with
  | @parse_block => constr:(Jblock) | @parse_cond => constr:(Jcond)
  | @parse_switch => constr:(Jswitch) | @parse_pory => constr:(Jpory) | @parse_if => constr:(if_la)
  | @bool_expr => constr:(bool_expr_swap ra rb ra_ne rb_ne av pf pf_advs pf_swap)
  end.
Ltac callsL := idtac;
  lazymatch goal with
  | |- ?L = _ =>
    let sc := scrut L in
    lazymatch sc with
    | context [swap ?z] =>
        let hs := head_of sc in
        let lem := tblL hs in
        match goal with
        | E : ?LE = _ |- _ =>
            let he := head_of LE in constr_eq hs he; has_arg LE z;
            let E' := fresh "E'" in
            pose proof E as E'; eapply lem in E'; [ nrm_in E'; rw_head E'; clear E' | good wkL .. ]
        end
    end
  end.

(* MAIN LEMMA of part 1: one statement, its last token right in front of the replaced end *)
Lemma stmt_la ee f script bs cs x ss imp y :
  P_stmt ee f script bs cs x = Ok (ss, imp, y) -> Gw 1 y -> (cs = [] \/ LC) ->
  P_stmt ee f script (map sh bs) (map sh cs) (swap x) = Ok (map (g_stmt sh) ss, g_imp sh imp, swap y).
Proof.
  destruct f as [|f]; intros H GS HC; [discriminate H|].
  assert (G1 : Gw 1 x) by (eapply G_advs; [|exact GS]; eapply a_stmt'; [exact H|apply advs_refl]).
  rewrite parse_stmt_unfold in H |- *. rewrite (swap_cur ra rb x G1).
  destruct (ttype (cur x)) eqn:TY; try (dH H).
  - (* IDENT *)
    destruct (try_label x) as [[l ts1]|] eqn:TL.
    + inversion H; subst. rewrite (try_label_swap_some ra rb ra_ne rb_ne _ _ _ TL GS). reflexivity.
    + destruct (command_stmt sw ee pf c f script x) as [[[cm imp'] y']| | |] eqn:CS; try discriminate H.
      inversion H; subst. rewrite (try_label_la_none ee f script x cm imp y TL CS GS).
      rewrite (command_stmt_la ee f script x cm imp y CS GS). reflexivity.
  - (* IF *) apply if_la; assumption.
  - (* WHILE *) asplit H. replay ltac:(good wkL) callsL.
  - (* DO *) asplit H. all: replay ltac:(good wkL) callsL.
  - (* BREAK *) asplit H. all: replay ltac:(good wkL) callsL.
  - (* CONTINUE *)
    destruct cs as [|tg cs']; [dH H|]. destruct HC as [HC|HC]; [discriminate HC|].
    destruct (peekis RBRACE x) eqn:PR; [|dH H]. inversion H; subst. cbn [map].
    rewrite (peekis_lc y HC G1 PR). reflexivity.
  - (* SWITCH *) eapply Jswitch in H; [exact H|exact GS].
  - (* PORYSWITCH *) eapply Jpory in H; [exact H|exact GS].
Qed.

End LOOKAHEAD.

(* ------------------------------------------------------------------------------------------------------------ *)
(* Part 2: runs of statements.  srun script bs cs x ss imp z: the statements ss (with inline data imp) are parsed  *)
(* one after another by the model's parse_stmt, starting at the stream x; z is the stream behind the last one.    *)
(* ------------------------------------------------------------------------------------------------------------ *)
Lemma impadd_imp0_r i : impadd i imp0 = i.
Proof. destruct i as [a b]. unfold impadd. cbn. rewrite !app_nil_r. reflexivity. Qed.
Lemma impadd_imp0_l i : impadd imp0 i = i.
Proof. destruct i as [a b]. reflexivity. Qed.
Lemma impadd_assoc a b c : impadd (impadd a b) c = impadd a (impadd b c).
Proof. unfold impadd. cbn. rewrite !app_assoc. reflexivity. Qed.
Lemma g_imp_add g a b : g_imp g (impadd a b) = impadd (g_imp g a) (g_imp g b).
Proof. unfold g_imp, impadd. cbn. rewrite !map_app. reflexivity. Qed.

Lemma fuel_up {A} (F : nat -> A) b : (forall f, (b <= f)%nat -> F (S f) = F f) -> forall f g, (b <= f)%nat -> (b <= g)%nat -> F f = F g.
Proof.
  intros H. assert (E : forall k, F (k + b)%nat = F b).
  { induction k as [|k IH]; [reflexivity|]. cbn [Nat.add]. rewrite H by lia. exact IH. }
  intros f g Lf Lg. replace f with ((f - b) + b)%nat by lia. replace g with ((g - b) + b)%nat by lia. rewrite !E. reflexivity.
Qed.

Section RUN.
Variable av : list (text * autovar).
Variable sw : list (text * text).
Variable ee : bool.
Variable pf : toks -> res (token * text * text * toks).
Variable c : list (text * text).
Hypothesis pf_advs : format_advs pf.
Hypothesis pf_local : format_local pf.
Hypothesis pf_lt : format_lt pf.

Local Notation P_stmt := (parse_stmt av sw ee pf c).
Local Notation P_block := (parse_block av sw ee pf c).
Local Notation P_pory := (parse_pory av sw ee pf c).
Local Notation P_pcases := (parse_pory_cases av sw ee pf c).
Local Notation P_pstmts := (parse_pory_stmts av sw ee pf c).

Let STS f := FuelOk.sts_all av sw ee pf c pf_advs pf_lt f.

Lemma stmt_fuel script bs cs x f g : eof_ended x -> (5 * len x + 2 <= f)%nat -> (5 * len x + 2 <= g)%nat ->
  P_stmt f script bs cs x = P_stmt g script bs cs x.
Proof. intros E. apply (fuel_up (fun f => P_stmt f script bs cs x)). intros k K. apply (STS k); assumption. Qed.
Lemma block_fuel script bs cs start x acc i f g : eof_ended x -> (5 * len x + 3 <= f)%nat -> (5 * len x + 3 <= g)%nat ->
  P_block f script bs cs start x acc i = P_block g script bs cs start x acc i.
Proof. intros E. apply (fuel_up (fun f => P_block f script bs cs start x acc i)). intros k K. apply (STS k); assumption. Qed.
Lemma pstmts_fuel script bs cs multi x acc i f g : eof_ended x -> (5 * len x + 3 <= f)%nat -> (5 * len x + 3 <= g)%nat ->
  P_pstmts f script bs cs multi x acc i = P_pstmts g script bs cs multi x acc i.
Proof. intros E. apply (fuel_up (fun f => P_pstmts f script bs cs multi x acc i)). intros k K. apply (STS k); assumption. Qed.
Lemma pcases_fuel script bs cs start x acc f g : eof_ended x -> (5 * len x <= f)%nat -> (5 * len x <= g)%nat ->
  P_pcases f script bs cs start x acc = P_pcases g script bs cs start x acc.
Proof. intros E. apply (fuel_up (fun f => P_pcases f script bs cs start x acc)). intros k K. apply (STS k); assumption. Qed.

Lemma a_stmt2 f script bs cs ts ss imp ts' : P_stmt f script bs cs ts = Ok (ss, imp, ts') -> advs ts ts'.
Proof. intros H. eapply (proj1 (adv_all av sw pf c pf_advs ee f)); [exact H|apply advs_refl]. Qed.

(* a statement starts with one of eight token types: never '}' nor the end of the file, nor ':' '(' 'else' 'elif' *)
Lemma stmt_start f script bs cs x r : P_stmt f script bs cs x = Ok r ->
  curis RBRACE x = false /\ curis EOF x = false /\
  is COLON (cur x) = false /\ is LPAREN (cur x) = false /\ is ELSE (cur x) = false /\ is ELSEIF (cur x) = false.
Proof.
  destruct f as [|f]; [discriminate|]. rewrite parse_stmt_unfold. unfold curis, is. intros H.
  destruct (ttype (cur x)); try (dH H); repeat split; reflexivity.
Qed.

Inductive srun (script : text) (bs cs : list nat) : toks -> list stmt -> impdata -> toks -> Prop :=
| srun_nil x : srun script bs cs x [] imp0 x
| srun_cons x f ss imp y ss' imp' z :
    (5 * len x + 2 <= f)%nat -> P_stmt f script bs cs x = Ok (ss, imp, y) -> (2 <= len y)%nat ->
    srun script bs cs (adv y) ss' imp' z -> srun script bs cs x (ss ++ ss') (impadd imp imp') z.

Lemma srun_advs script bs cs x ss imp z : srun script bs cs x ss imp z -> advs x z.
Proof.
  induction 1 as [x|x f ss imp y ss' imp' z B H L R IH]; [apply advs_refl|].
  eapply advs_trans; [|exact IH]. apply advs_adv_r. eapply a_stmt2. exact H.
Qed.

Lemma adv_after_lt x y : eof_ended x -> advs x y -> ttype (cur x) <> EOF -> (len (adv y) < len x)%nat.
Proof. intros E A N. exact (FuelOk.lt_adv_after x y A N E). Qed.

Lemma curis_eof_ne x : curis EOF x = false -> ttype (cur x) <> EOF.
Proof. unfold curis, is, tt_eqb. destruct (toktype_eq_dec (ttype (cur x)) EOF); [discriminate|auto]. Qed.

(* a run is what parse_block does with these statements: it goes on behind them with the statements appended *)
Lemma block_srun script bs cs x ss imp z : srun script bs cs x ss imp z -> eof_ended x ->
  forall f start acc i, (5 * len x + 3 <= f)%nat ->
  P_block f script bs cs start x acc i = P_block f script bs cs start z (acc ++ ss) (impadd i imp).
Proof.
  induction 1 as [x|x f0 ss imp y ss' imp' z B H L R IH]; intros E f start acc i F.
  - rewrite app_nil_r, impadd_imp0_r. reflexivity.
  - destruct f as [|f]; [lia|]. rewrite parse_block_unfold.
    destruct (stmt_start _ _ _ _ _ _ H) as (S1 & S2 & _). rewrite S1, S2.
    rewrite (stmt_fuel script bs cs x f f0 E) by lia. rewrite H.
    pose proof (a_stmt2 _ _ _ _ _ _ _ _ H) as A.
    pose proof (adv_after_lt x y E A (curis_eof_ne _ S2)) as LT.
    assert (E' : eof_ended (adv y)) by (eapply advs_eof; [apply advs_adv_r; exact A|exact E]).
    rewrite (block_fuel script bs cs start (adv y) (acc ++ ss) (impadd i imp) f (S f) E') by lia.
    rewrite (IH E' (S f) start (acc ++ ss) (impadd i imp)) by lia.
    rewrite app_assoc, impadd_assoc. reflexivity.
Qed.

(* the accumulators of parse_block are only prepended to *)
Lemma block_acc : forall f script bs cs start x acc i,
  P_block f script bs cs start x acc i =
  match P_block f script bs cs start x [] imp0 with
  | Ok (b, i', y) => Ok (acc ++ b, impadd i i', y) | Err e => Err e | Panic => Panic | Fuel => Fuel end.
Proof.
  induction f as [|f IH]; intros script bs cs start x acc i; [reflexivity|]. rewrite !parse_block_unfold.
  destruct (curis RBRACE x); [rewrite app_nil_r, impadd_imp0_r; reflexivity|].
  destruct (curis EOF x); [reflexivity|].
  destruct (P_stmt f script bs cs x) as [[[ss imp'] ts1]| | |]; try reflexivity.
  rewrite (IH script bs cs start (adv ts1) (acc ++ ss) (impadd i imp')).
  rewrite (IH script bs cs start (adv ts1) ([] ++ ss) (impadd imp0 imp')).
  destruct (P_block f script bs cs start (adv ts1) [] imp0) as [[[b i'] y]| | |]; try reflexivity.
  cbn [app]. rewrite impadd_imp0_l, <- app_assoc, impadd_assoc. reflexivity.
Qed.

(* the statements of a poryswitch case in braces are a run that ends at the closing brace *)
Lemma single_eof (y : toks) : eof_ended y -> (len y < 2)%nat -> curis EOF y = true /\ adv y = y.
Proof.
  intros [N E] L. destruct y as [|a [|b r]]; [congruence| |cbn in L; lia]. cbn in E. unfold curis, is, cur. cbn [hd]. rewrite E.
  split; [unfold tt_eqb; destruct (toktype_eq_dec EOF EOF); congruence|reflexivity].
Qed.
Lemma curis_excl ty1 ty2 x : curis ty1 x = true -> ty1 <> ty2 -> curis ty2 x = false.
Proof. unfold curis. apply is_excl. Qed.

Lemma srun_from_eof script bs cs x ss imp z : srun script bs cs x ss imp z -> curis EOF x = true -> z = x.
Proof.
  intros R E. inversion R as [|? f ss0 imp1 y ss' imp' ? B H L R']; subst; [reflexivity|].
  destruct (stmt_start _ _ _ _ _ _ H) as (_ & S2 & _). congruence.
Qed.

Lemma pory_step_is_stmt f script bs cs x : eof_ended x -> (5 * len x + 2 <= f)%nat ->
  (if curis PORYSWITCH x then P_pory f script bs cs x else P_stmt f script bs cs x) = P_stmt (S f) script bs cs x.
Proof.
  intros E F. destruct (curis PORYSWITCH x) eqn:CP.
  - rewrite parse_stmt_unfold. rewrite (TagRename.BlockStep.curis_type _ _ CP). reflexivity.
  - apply stmt_fuel; [exact E|lia|lia].
Qed.

Lemma pstmts_srun : forall f script bs cs x acc i ss imp y, eof_ended x -> (5 * len x + 3 <= f)%nat ->
  P_pstmts f script bs cs true x acc i = Ok (ss, imp, y) ->
  exists ss0 i0, srun script bs cs x ss0 i0 y /\ ss = acc ++ ss0 /\ imp = impadd i i0 /\ curis RBRACE y = true.
Proof.
  induction f as [|f IH]; intros script bs cs x acc i ss imp y E F H; [discriminate H|].
  rewrite parse_pory_stmts_unfold in H. destruct (curis RBRACE x) eqn:CR.
  - inversion H; subst. exists [], imp0. rewrite app_nil_r, impadd_imp0_r. split; [constructor|auto].
  - rewrite (pory_step_is_stmt f script bs cs x E) in H by lia.
    destruct (P_stmt (S f) script bs cs x) as [[[ss1 imp1] y1]| | |] eqn:ES; try discriminate H. cbv beta iota zeta in H.
    destruct (stmt_start _ _ _ _ _ _ ES) as (_ & S2 & _).
    pose proof (a_stmt2 _ _ _ _ _ _ _ _ ES) as A.
    pose proof (adv_after_lt x y1 E A (curis_eof_ne _ S2)) as LT.
    assert (E1 : eof_ended y1) by (eapply advs_eof; [exact A|exact E]).
    assert (E' : eof_ended (adv y1)) by (eapply advs_eof; [apply advs_adv_r; exact A|exact E]).
    destruct (IH _ _ _ _ _ _ _ _ _ E' ltac:(lia) H) as (ss0 & i0 & R & -> & -> & RB).
    assert (L2 : (2 <= len y1)%nat).
    { destruct (Nat.lt_ge_cases (len y1) 2) as [L|L]; [|exact L]. exfalso.
      destruct (single_eof y1 E1 L) as [CE AE]. rewrite AE in R. pose proof (srun_from_eof _ _ _ _ _ _ _ R CE). subst y.
      rewrite (curis_excl EOF RBRACE y1 CE) in RB; [discriminate RB|discriminate]. }
    exists (ss1 ++ ss0), (impadd imp1 i0). split; [econstructor; [|exact ES|exact L2|exact R]; lia|].
    rewrite app_assoc, impadd_assoc. auto.
Qed.

(* the one statement of a case written with ':' *)
Lemma pstmts1_srun f script bs cs x ss imp y : eof_ended x -> (5 * len x + 3 <= f)%nat ->
  P_pstmts f script bs cs false x [] imp0 = Ok (ss, imp, y) -> curis EOF y = false ->
  srun script bs cs x ss imp y.
Proof.
  destruct f as [|f]; intros E F H NE; [discriminate H|].
  rewrite parse_pory_stmts_unfold in H. destruct (curis RBRACE x) eqn:CR.
  - inversion H; subst. constructor.
  - rewrite (pory_step_is_stmt f script bs cs x E) in H by lia.
    destruct (P_stmt (S f) script bs cs x) as [[[ss1 imp1] y1]| | |] eqn:ES; try discriminate H. cbv beta iota zeta in H.
    cbn [app] in H. rewrite impadd_imp0_l in H. injection H as Hs Hi Hy. subst ss imp y.
    pose proof (a_stmt2 _ _ _ _ _ _ _ _ ES) as A.
    assert (E1 : eof_ended y1) by (eapply advs_eof; [exact A|exact E]).
    assert (L2 : (2 <= len y1)%nat).
    { destruct (Nat.lt_ge_cases (len y1) 2) as [L|L]; [|exact L]. exfalso.
      destruct (single_eof y1 E1 L) as [CE AE]. rewrite AE in NE. congruence. }
    rewrite <- (app_nil_r ss1), <- (impadd_imp0_r imp1). econstructor; [|exact ES|exact L2|constructor]. lia.
Qed.

(* ---------- a run with another end of the stream ---------- *)
Lemma Gw_back ra y : (2 <= len y)%nat -> Gw ra 0 (adv y) -> Gw ra 1 y.
Proof.
  intros L (u & K & _). destruct y as [|a [|b r]]; cbn in L; try lia. cbn [adv] in K.
  exists (a :: u). cbn [app]. rewrite <- K. split; [reflexivity|cbn; lia].
Qed.

Lemma srun_swap ra rb script bs cs x ss imp z :
  ra <> [] -> rb <> [] -> LA ra rb -> (cs = [] \/ LC ra rb) ->
  srun script bs cs x ss imp z -> eof_ended x -> Gw ra 0 z ->
  srun script (map (sh ra rb) bs) (map (sh ra rb) cs) (swap ra rb x)
       (map (g_stmt (sh ra rb)) ss) (g_imp (sh ra rb) imp) (swap ra rb z).
Proof.
  intros ra_ne rb_ne la HC R. induction R as [x|x f0 ss imp y ss' imp' z B H L R IH]; intros E GZ.
  - change (g_imp (sh ra rb) imp0) with imp0. cbn [map]. constructor.
  - pose proof (a_stmt2 _ _ _ _ _ _ _ _ H) as A.
    assert (G0 : Gw ra 0 (adv y)) by (eapply G_advs; [eapply srun_advs; exact R|exact GZ]).
    pose proof (Gw_back ra y L G0) as G1.
    set (f' := Nat.max f0 (5 * len (swap ra rb x) + 2)).
    assert (H' : P_stmt f' script bs cs x = Ok (ss, imp, y)).
    { rewrite (stmt_fuel script bs cs x f' f0 E); [exact H| |exact B]. unfold f'. lia. }
    pose proof (stmt_la ra rb ra_ne rb_ne av sw pf c pf_advs (pf_local ra rb ra_ne rb_ne) la ee f' _ _ _ _ _ _ _ H' G1 HC) as HS.
    rewrite map_app, g_imp_add. econstructor; [|exact HS| |].
    + unfold f'. lia.
    + destruct (G_swap ra rb 1 y G1) as (u & _ & -> & K). rewrite app_length. destruct rb; [congruence|cbn; lia].
    + rewrite (swap_adv ra rb ra_ne rb_ne y G1). apply IH; [|exact GZ].
      eapply advs_eof; [apply advs_adv_r; exact A|exact E].
Qed.

(* ---------- the case table of a statement poryswitch, with the case bodies as runs ---------- *)
(* a written case at ts: label (identifier or integer), then ':' and one statement, or '{' statements '}'.  ra: the stream
   right behind the statements of the body (at the '}' for the brace form); ts': where the next case starts *)
Definition case_at script bs cs (ts : toks) (key : text) (ss : list stmt) (imp : impdata) (ra ts' : toks) : Prop :=
  (curis IDENT ts = true \/ curis INT ts = true) /\ key = tlit (cur ts) /\
  srun script bs cs (adv (adv ts)) ss imp ra /\
  ((curis COLON (adv ts) = true /\ curis LBRACE (adv ts) = false /\ ts' = ra) \/
   (curis LBRACE (adv ts) = true /\ curis RBRACE ra = true /\ ts' = adv ra)).
Inductive case_seq script bs cs : toks -> list (text * (list stmt * impdata)) -> toks -> Prop :=
| cs_done ts : case_seq script bs cs ts [] ts
| cs_more ts key ss imp ra ts1 l ts' :
    curis RBRACE ts = false -> case_at script bs cs ts key ss imp ra ts1 -> case_seq script bs cs ts1 l ts' ->
    case_seq script bs cs ts ((key, (ss, imp)) :: l) ts'.

Lemma case_seq_not_eof script bs cs ts l ts' : case_seq script bs cs ts l ts' -> curis RBRACE ts' = true -> curis EOF ts = false.
Proof.
  intros SQ RB. destruct SQ as [ts|ts key ss imp ra ts1 l ts' NR CA SQ']; (destruct (curis EOF ts) eqn:CE; [exfalso|reflexivity]).
  - rewrite (curis_excl EOF RBRACE ts CE) in RB; [discriminate RB|discriminate].
  - destruct CA as ([CI|CI] & _); [rewrite (curis_excl EOF IDENT ts CE) in CI|rewrite (curis_excl EOF INT ts CE) in CI]; discriminate.
Qed.

Lemma cases_table_acc : forall f script bs cs start ts acc cases ts', eof_ended ts -> (5 * len ts <= f)%nat ->
  P_pcases f script bs cs start ts acc = Ok (cases, ts') ->
  exists l, case_seq script bs cs ts l ts' /\ curis RBRACE ts' = true /\ cases = rev l ++ acc.
Proof.
  induction f as [|f IH]; intros script bs cs start ts acc cases ts' E F H; [discriminate H|].
  rewrite parse_pory_cases_unfold in H.
  destruct (curis RBRACE ts) eqn:ER.
  { inversion H; subst. exists []. split; [constructor|]. split; [exact ER|reflexivity]. }
  destruct (curis EOF ts) eqn:EE; [dH H|].
  destruct (negb (curis IDENT ts) && negb (curis INT ts)) eqn:EI; [dH H|].
  assert (LAB : curis IDENT ts = true \/ curis INT ts = true).
  { destruct (curis IDENT ts); [left; reflexivity|]. destruct (curis INT ts); [right; reflexivity|discriminate EI]. }
  cbv zeta in H. destruct (curis COLON (adv ts) || curis LBRACE (adv ts)) eqn:EC; [|dH H].
  pose proof (adv_strict ts E (curis_eof_ne _ EE)) as L1.
  assert (E1 : eof_ended (adv ts)) by (eapply advs_eof; [apply advs_adv_r, advs_refl|exact E]).
  assert (N1 : ttype (cur (adv ts)) <> EOF).
  { apply curis_eof_ne. apply orb_true_iff in EC. destruct EC as [EC|EC]; (eapply curis_excl; [exact EC|discriminate]). }
  pose proof (adv_strict (adv ts) E1 N1) as L2.
  assert (E2 : eof_ended (adv (adv ts))) by (eapply advs_eof; [apply advs_adv_r, advs_refl|exact E1]).
  destruct (P_pstmts f script bs cs (curis LBRACE (adv ts)) (adv (adv ts)) [] imp0) as [[[ss imp] ts2]| | |] eqn:EP;
    try discriminate H. cbv beta iota in H.
  assert (A2 : advs (adv (adv ts)) ts2).
  { eapply (proj2 (proj2 (proj2 (proj2 (proj2 (proj2 (proj2 (proj2 (proj2 (proj2 (adv_all av sw pf c pf_advs ee f)))))))))));
      [exact EP|apply advs_refl]. }
  pose proof (advs_len _ _ A2) as L3. pose proof (advs_eof _ _ A2 E2) as E3.
  assert (B2 : (5 * len (adv (adv ts)) + 3 <= f)%nat) by lia.
  assert (B3 : (5 * len ts2 <= f)%nat) by lia.
  destruct (curis LBRACE (adv ts)) eqn:EB.
  - destruct (curis RBRACE ts2) eqn:ER2; cbn [negb] in H; [|dH H].
    destruct (pstmts_srun _ _ _ _ _ _ _ _ _ _ E2 B2 EP) as (ss0 & i0 & R & Hs & Hi & RB).
    cbn [app] in Hs. rewrite impadd_imp0_l in Hi. subst ss imp.
    assert (E4 : eof_ended (adv ts2)) by (eapply advs_eof; [apply advs_adv_r, advs_refl|exact E3]).
    pose proof (adv_len ts2) as L4. assert (B4 : (5 * len (adv ts2) <= f)%nat) by lia.
    destruct (IH _ _ _ _ _ _ _ _ E4 B4 H) as (l & SQ & RB' & EQ). exists ((tlit (cur ts), (ss0, i0)) :: l).
    split; [|split; [exact RB'|]].
    + econstructor; [exact ER| |exact SQ]. split; [exact LAB|]. split; [reflexivity|]. split; [exact R|]. right. auto.
    + rewrite EQ. cbn [rev]. rewrite <- app_assoc. reflexivity.
  - destruct (IH _ _ _ _ _ _ _ _ E3 B3 H) as (l & SQ & RB' & EQ).
    pose proof (case_seq_not_eof _ _ _ _ _ _ SQ RB') as NE.
    pose proof (pstmts1_srun _ _ _ _ _ _ _ _ E2 B2 EP NE) as R.
    exists ((tlit (cur ts), (ss, imp)) :: l).
    split; [|split; [exact RB'|]].
    + econstructor; [exact ER| |exact SQ]. split; [exact LAB|]. split; [reflexivity|]. split; [exact R|]. left.
      rewrite orb_false_r in EC. auto.
    + rewrite EQ. cbn [rev]. rewrite <- app_assoc. reflexivity.
Qed.

Lemma case_seq_split script bs cs : forall ts l ts', case_seq script bs cs ts l ts' ->
  forall l1 key ss imp l2, l = l1 ++ (key, (ss, imp)) :: l2 ->
  exists tsc ra tsn, case_seq script bs cs ts l1 tsc /\ case_at script bs cs tsc key ss imp ra tsn /\
                     case_seq script bs cs tsn l2 ts'.
Proof.
  induction 1 as [ts|ts x0 ss0 imp0' ra0 ts1 l ts' NR ST SQ IH]; intros l1 key ss imp l2 E.
  - destruct l1; discriminate E.
  - destruct l1 as [|y l1]; cbn in E.
    + inversion E; subst. exists ts, ra0, ts1. split; [constructor|]. split; assumption.
    + inversion E; subst. destruct (IH _ _ _ _ _ eq_refl) as (tsc & ra & tsn & A & B & C).
      exists tsc, ra, tsn. split; [econstructor; eassumption|]. split; assumption.
Qed.

Lemma case_seq_advs script bs cs ts l ts' : case_seq script bs cs ts l ts' -> advs ts ts'.
Proof.
  induction 1 as [ts|ts key ss imp ra ts1 l ts' NR CA SQ IH]; [apply advs_refl|].
  eapply advs_trans; [|exact IH]. destruct CA as (_ & _ & R & [(_ & _ & ->)|(_ & _ & ->)]).
  - apply advs_step, advs_step. eapply srun_advs. exact R.
  - apply advs_adv_r. apply advs_step, advs_step. eapply srun_advs. exact R.
Qed.

(* ---------- THE STEP: a statement poryswitch met in a block, and its twin ---------- *)
Lemma firstn_split_suffix (v s : toks) : firstn (len (v ++ s) - len s) (v ++ s) = v.
Proof. rewrite app_length. replace (len v + len s - len s)%nat with (len v + 0)%nat by lia. rewrite firstn_app_2. cbn. apply app_nil_r. Qed.

(* original side, any fuel above the bound *)
Lemma block_pory_step script bs cs z sc sv ts1 F cases ts2 :
  eof_ended z -> curis PORYSWITCH z = true -> poryswitch_header sw ee z = Ok (sc, sv, ts1) -> (5 * len z <= F)%nat ->
  P_pcases F script bs cs (cur ts1) ts1 [] = Ok (cases, ts2) ->
  forall f start acc i, (5 * len z + 3 <= f)%nat ->
  P_block f script bs cs start z acc i =
  match PorySwitchLists.pory_select cases sv with
  | Some (ss, imp') => P_block f script bs cs start (adv ts2) (acc ++ ss) (impadd i imp')
  | None => if ee then err_tok (cur z) "no poryswitch case found" else P_block f script bs cs start (adv ts2) acc i
  end.
Proof.
  intros E CP HH BF HC f start acc i Bf.
  assert (A1 : advs z ts1) by (eapply poryswitch_header_advs; [exact HH|apply advs_refl]).
  pose proof (FuelOk.poryswitch_header_lt _ _ _ _ _ _ HH E) as L1. pose proof (advs_eof _ _ A1 E) as E1.
  assert (A2 : advs ts1 ts2).
  { eapply (proj1 (proj2 (proj2 (proj2 (proj2 (proj2 (proj2 (proj2 (proj2 (proj2 (adv_all av sw pf c pf_advs ee F)))))))))));
      [exact HC|apply advs_refl]. }
  pose proof (advs_len _ _ A2) as L2. pose proof (advs_eof _ _ A2 E1) as E2.
  assert (E3 : eof_ended (adv ts2)) by (eapply advs_eof; [apply advs_adv_r, advs_refl|exact E2]).
  pose proof (adv_len ts2) as L3.
  destruct f as [|[|[|f']]]; try lia.
  rewrite (pcases_fuel script bs cs (cur ts1) ts1 [] F f' E1) in HC by lia.
  rewrite (TagRename.BlockStep.block_poryswitch_step av sw ee pf c f' script bs cs start z acc i sc sv ts1 cases ts2 CP HH HC).
  destruct (PorySwitchLists.pory_select cases sv) as [[ss imp']|].
  - apply block_fuel; [exact E3|lia|lia].
  - match goal with |- (if ?b then ?x else ?y) = (if ?b then ?x else ?y') => assert (Q : y = y'); [|rewrite Q; reflexivity] end.
    rewrite (app_nil_r acc), (impadd_imp0_r i). apply block_fuel; [exact E3|lia|lia].
Qed.

(* MAIN THEOREM of part 2.  z: a stream at a statement poryswitch whose cases all parse; (ss, imp') the selected entry.
   Then (1) the entry is ONE written case - the last one labelled with the switch value, else the last one labelled '_' -
   whose body is the run of statements between  adv (adv tsc)  (behind the label and ':' / '{') and ra;
   (2) parse_block, in the ORIGINAL, goes on behind the closing brace of the poryswitch with ss and imp' appended;
   (3) in the TWIN - body ++ rest, the body tokens of that case followed by what follows the poryswitch - parse_block goes
   on at the same place, rest, with the same statements and inline data appended up to the shift  sh ra rest  of tags / ids,
   provided the first token of rest is not ':' '(' 'else' 'elif' (LA: the token seen by the one-token look-ahead of the last
   statement of the body) and, if the block is inside a loop, provided `continue` at the end of the body is still followed
   by '}' (LC; see continue_counterexample). *)
Theorem twin_block_step script bs cs z sc sv ts1 F cases ts2 ss imp' :
  eof_ended z -> curis PORYSWITCH z = true -> poryswitch_header sw ee z = Ok (sc, sv, ts1) -> (5 * len z <= F)%nat ->
  P_pcases F script bs cs (cur ts1) ts1 [] = Ok (cases, ts2) ->
  PorySwitchLists.pory_select cases sv = Some (ss, imp') ->
  exists l key l1 l2 tsc ra tsn body,
    cases = rev l /\ l = l1 ++ (key, (ss, imp')) :: l2 /\ assoc l2 key = None /\
    (key = sval sv \/ (key = t "_" /\ assoc l (sval sv) = None)) /\
    case_seq script bs cs ts1 l1 tsc /\ case_at script bs cs tsc key ss imp' ra tsn /\ case_seq script bs cs tsn l2 ts2 /\
    curis RBRACE ts2 = true /\ adv (adv tsc) = body ++ ra /\ ra <> [] /\ (len (adv ts2) < len ra)%nat /\
    (forall f start acc i, (5 * len z + 3 <= f)%nat ->
       P_block f script bs cs start z acc i = P_block f script bs cs start (adv ts2) (acc ++ ss) (impadd i imp')) /\
    (let rest := adv ts2 in let s := sh ra rest in
     LA ra rest -> (cs = [] \/ LC ra rest) ->
     srun script (map s bs) (map s cs) (body ++ rest) (map (g_stmt s) ss) (g_imp s imp') rest /\
     forall f start acc i, (5 * len (body ++ rest) + 3 <= f)%nat ->
       P_block f script (map s bs) (map s cs) start (body ++ rest) acc i =
       P_block f script (map s bs) (map s cs) start rest (acc ++ map (g_stmt s) ss) (impadd i (g_imp s imp'))).
Proof.
  intros E CP HH BF HC SEL.
  assert (A1 : advs z ts1) by (eapply poryswitch_header_advs; [exact HH|apply advs_refl]).
  pose proof (advs_len _ _ A1) as L1. pose proof (advs_eof _ _ A1 E) as E1.
  assert (B1 : (5 * len ts1 <= F)%nat) by lia.
  destruct (cases_table_acc _ _ _ _ _ _ _ _ _ E1 B1 HC) as (l & SQ & RB & EQ). rewrite app_nil_r in EQ. subst cases.
  pose proof SEL as SEL'. apply PorySwitchLists.poryswitch_last_case_wins in SEL'. destruct SEL' as (key & l1 & l2 & EL & NL & W).
  destruct (case_seq_split _ _ _ _ _ _ SQ _ _ _ _ _ EL) as (tsc & ra & tsn & SQ1 & CA & SQ2).
  pose proof CA as (LAB & KEY & R & FORM).
  pose proof (srun_advs _ _ _ _ _ _ _ R) as AR. destruct (advs_suffix _ _ AR) as (body & EB).
  assert (Atsc : advs ts1 tsc) by (eapply case_seq_advs; exact SQ1).
  assert (Etsc : eof_ended tsc) by (eapply advs_eof; eassumption).
  assert (Ex : eof_ended (adv (adv tsc))) by (eapply advs_eof; [apply advs_adv_r, advs_adv_r, advs_refl|exact Etsc]).
  assert (Era : eof_ended ra) by (eapply advs_eof; eassumption).
  assert (A2 : advs tsn ts2) by (eapply case_seq_advs; exact SQ2).
  assert (E2 : eof_ended ts2) by (eapply advs_eof; [exact A2|]; eapply advs_eof; [|exact Era]; destruct FORM as [(_ & _ & ->)|(_ & _ & ->)]; [apply advs_refl|apply advs_adv_r, advs_refl]).
  assert (Erest : eof_ended (adv ts2)) by (eapply advs_eof; [apply advs_adv_r, advs_refl|exact E2]).
  assert (RANE : ra <> []) by (destruct Era; assumption).
  assert (LR : (len (adv ts2) < len ra)%nat).
  { assert (NE2 : ttype (cur ts2) <> EOF) by (apply curis_eof_ne; eapply curis_excl; [exact RB|discriminate]).
    pose proof (adv_strict ts2 E2 NE2) as S2. pose proof (advs_len _ _ A2) as S3.
    destruct FORM as [(_ & _ & ->)|(_ & _ & ->)]; [lia|]. pose proof (adv_len ra). lia. }
  exists l, key, l1, l2, tsc, ra, tsn, body.
  split; [reflexivity|]. split; [exact EL|]. split; [exact NL|]. split; [exact W|]. split; [exact SQ1|]. split; [exact CA|].
  split; [exact SQ2|]. split; [exact RB|]. split; [exact EB|]. split; [exact RANE|]. split; [exact LR|]. split.
  - intros f start acc i Bf. rewrite (block_pory_step script bs cs z sc sv ts1 F (rev l) ts2 E CP HH BF HC f start acc i Bf).
    rewrite SEL. reflexivity.
  - intros rest s la HLC.
    assert (RNE : rest <> []) by (destruct Erest; assumption).
    assert (GZ : Gw ra 0 ra) by (exists []; split; [reflexivity|cbn; lia]).
    pose proof (srun_swap ra rest script bs cs _ _ _ _ RANE RNE la HLC R Ex GZ) as RS.
    assert (SWX : swap ra rest (adv (adv tsc)) = body ++ rest) by (rewrite EB; apply swap_app).
    assert (SWZ : swap ra rest ra = rest) by (apply (swap_app ra rest [])).
    rewrite SWX, SWZ in RS. fold s in RS. split; [exact RS|].
    intros f start acc i Bf. apply (block_srun _ _ _ _ _ _ _ RS); [|exact Bf].
    apply ProgSrc.eof_ended_app. exact Erest.
Qed.

(* ---------- Part 3: one poryswitch directly in the block of a script (bs = cs = []) ---------- *)
Lemma block_ok_start f script bs cs start x acc i r : P_block f script bs cs start x acc i = Ok r ->
  is COLON (cur x) = false /\ is LPAREN (cur x) = false /\ is ELSE (cur x) = false /\ is ELSEIF (cur x) = false.
Proof.
  destruct f as [|f]; [discriminate|]. rewrite parse_block_unfold. intros H. destruct (curis RBRACE x) eqn:CR.
  - repeat split; (eapply is_excl; [exact CR|discriminate]).
  - destruct (curis EOF x); [dH H|].
    destruct (P_stmt f script bs cs x) as [[[ss imp'] ts1]| | |] eqn:ES; try discriminate H.
    destruct (stmt_start _ _ _ _ _ _ ES) as (_ & _ & Q). exact Q.
Qed.

Lemma srun_start script bs cs x ss imp z f start acc i r : srun script bs cs x ss imp z ->
  P_block f script bs cs start z acc i = Ok r ->
  is COLON (cur x) = false /\ is LPAREN (cur x) = false /\ is ELSE (cur x) = false /\ is ELSEIF (cur x) = false.
Proof.
  intros R H. destruct R as [x|x f0 ss imp y ss' imp' z B HS L R].
  - eapply block_ok_start. exact H.
  - destruct (stmt_start _ _ _ _ _ _ HS) as (_ & _ & Q). exact Q.
Qed.

Lemma case_ra_start script bs cs tsc key ss imp ra tsn l2 ts2 :
  case_at script bs cs tsc key ss imp ra tsn -> case_seq script bs cs tsn l2 ts2 -> curis RBRACE ts2 = true ->
  is COLON (cur ra) = false /\ is LPAREN (cur ra) = false /\ is ELSE (cur ra) = false /\ is ELSEIF (cur ra) = false.
Proof.
  intros (_ & _ & _ & FORM) SQ RB. destruct FORM as [(_ & _ & ->)|(_ & CR & _)].
  - destruct SQ as [ts|ts k0 ss0 imp1 ra0 ts1 l ts' NR CA SQ'].
    + repeat split; (eapply is_excl; [exact RB|discriminate]).
    + destruct CA as ([CI|CI] & _); repeat split; (eapply is_excl; [exact CI|discriminate]).
  - repeat split; (eapply is_excl; [exact CR|discriminate]).
Qed.

(* MAIN THEOREM of part 3.  x: the stream at the first token of the body of a script (or of a map script) whose block parses
   to (b, imp, y) and contains, behind the run of statements b1, a poryswitch at z with the selected entry (ss, imp').  Then
   the TWIN stream  pre ++ body ++ rest  (the tokens pre before the poryswitch, the body tokens of the selected case - with
   their positions -, the tokens rest behind the closing brace of the poryswitch) parses, as a block, to the same statements
   and inline data up to the shifts s1 (in front of the poryswitch) and s2 (in the case body) of tags and command ids, and
   ends at the same closing brace y.  No condition on the look-ahead is left: it follows from the success of the original. *)
Theorem twin_script_block script x b1 i1 z sc sv ts1 F cases ts2 ss imp' start f b imp y :
  eof_ended x -> srun script [] [] x b1 i1 z ->
  curis PORYSWITCH z = true -> poryswitch_header sw ee z = Ok (sc, sv, ts1) -> (5 * len z <= F)%nat ->
  P_pcases F script [] [] (cur ts1) ts1 [] = Ok (cases, ts2) ->
  PorySwitchLists.pory_select cases sv = Some (ss, imp') ->
  (5 * len x + 3 <= f)%nat ->
  P_block f script [] [] start x [] imp0 = Ok (b, imp, y) ->
  exists pre l key l1 l2 tsc ra tsn body b3 i3,
    x = pre ++ z /\
    cases = rev l /\ l = l1 ++ (key, (ss, imp')) :: l2 /\ assoc l2 key = None /\
    (key = sval sv \/ (key = t "_" /\ assoc l (sval sv) = None)) /\
    case_seq script [] [] ts1 l1 tsc /\ case_at script [] [] tsc key ss imp' ra tsn /\ case_seq script [] [] tsn l2 ts2 /\
    curis RBRACE ts2 = true /\ adv (adv tsc) = body ++ ra /\
    b = b1 ++ ss ++ b3 /\ imp = impadd i1 (impadd imp' i3) /\
    P_block f script [] [] start (adv ts2) [] imp0 = Ok (b3, i3, y) /\
    let rest := adv ts2 in let s1 := sh z (body ++ rest) in let s2 := sh ra rest in
    (len (pre ++ body ++ rest) < len x)%nat /\
    P_block f script [] [] start (pre ++ body ++ rest) [] imp0 =
      Ok (map (g_stmt s1) b1 ++ map (g_stmt s2) ss ++ b3, impadd (g_imp s1 i1) (impadd (g_imp s2 imp') i3), y).
Proof.
  intros E R1 CP HH BF HC SEL Bf H.
  pose proof (srun_advs _ _ _ _ _ _ _ R1) as A0. destruct (advs_suffix _ _ A0) as (pre & EX).
  pose proof (advs_eof _ _ A0 E) as Ez. pose proof (advs_len _ _ A0) as Lz.
  destruct (twin_block_step script [] [] z sc sv ts1 F cases ts2 ss imp' Ez CP HH BF HC SEL)
    as (l & key & l1 & l2 & tsc & ra & tsn & body & EQ & EL & NL & W & SQ1 & CA & SQ2 & RB & EB & RANE & LR & ORIG & TWIN).
  (* the original *)
  rewrite (block_srun _ _ _ _ _ _ _ R1 E f start [] imp0 Bf) in H. cbn [app] in H. rewrite impadd_imp0_l in H.
  rewrite (ORIG f start b1 i1) in H by lia. rewrite block_acc in H.
  destruct (P_block f script [] [] start (adv ts2) [] imp0) as [[[b3 i3] y3]| | |] eqn:E3; try discriminate H.
  injection H as Hb Hi Hy. subst y3.
  (* look-ahead conditions from the success of the original *)
  pose proof (case_ra_start _ _ _ _ _ _ _ _ _ _ _ CA SQ2 RB) as (Q1 & Q2 & Q3 & Q4).
  pose proof (block_ok_start _ _ _ _ _ _ _ _ _ E3) as (P1 & P2 & P3 & P4).
  assert (la2 : LA ra (adv ts2)) by (unfold LA; rewrite Q1, Q2, Q3, Q4, P1, P2, P3, P4; auto).
  destruct (TWIN la2 (or_introl eq_refl)) as (RS2 & TW2). cbn [map] in RS2, TW2.
  pose proof (srun_start _ _ _ _ _ _ _ _ _ _ _ _ RS2 E3) as (T1 & T2 & T3 & T4).
  assert (la1 : LA z (body ++ adv ts2)).
  { pose proof (TagRename.BlockStep.curis_type _ _ CP) as TY. unfold LA, is. rewrite TY. unfold is in T1, T2, T3, T4.
    rewrite T1, T2, T3, T4. auto. }
  assert (ZNE : z <> []) by (destruct Ez; assumption).
  assert (Etw : eof_ended (body ++ adv ts2)).
  { apply ProgSrc.eof_ended_app. eapply advs_eof; [|exact Ez]. eapply advs_trans; [eapply poryswitch_header_advs; [exact HH|apply advs_refl]|].
    eapply advs_adv_r. eapply advs_trans; [eapply case_seq_advs; exact SQ1|]. 
    destruct CA as (_ & _ & RR & FORM). eapply advs_trans; [apply advs_step, advs_step; eapply srun_advs; exact RR|].
    eapply advs_trans; [|eapply case_seq_advs; exact SQ2]. destruct FORM as [(_ & _ & ->)|(_ & _ & ->)]; [apply advs_refl|apply advs_adv_r, advs_refl]. }
  assert (TNE : body ++ adv ts2 <> []) by (destruct Etw; assumption).
  assert (GZ : Gw z 0 z) by (exists []; split; [reflexivity|cbn; lia]).
  pose proof (srun_swap z (body ++ adv ts2) script [] [] _ _ _ _ ZNE TNE la1 (or_introl eq_refl) R1 E GZ) as RS1.
  cbn [map] in RS1.
  assert (SWX : swap z (body ++ adv ts2) x = pre ++ body ++ adv ts2) by (rewrite EX; apply swap_app).
  assert (SWZ : swap z (body ++ adv ts2) z = body ++ adv ts2) by (apply (swap_app z (body ++ adv ts2) [])).
  rewrite SWX, SWZ in RS1.
  (* lengths *)
  assert (Lbody : (len (body ++ adv ts2) < len z)%nat).
  { assert (A3 : advs z (adv (adv tsc))).
    { eapply advs_trans; [eapply poryswitch_header_advs; [exact HH|apply advs_refl]|].
      eapply advs_trans; [eapply case_seq_advs; exact SQ1|]. apply advs_adv_r, advs_adv_r, advs_refl. }
    pose proof (advs_len _ _ A3) as L3. rewrite EB in L3. rewrite !app_length in *. lia. }
  assert (Ltw : (len (pre ++ body ++ adv ts2) < len x)%nat) by (rewrite EX; rewrite !app_length in *; lia).
  exists pre, l, key, l1, l2, tsc, ra, tsn, body, b3, i3.
  split; [exact EX|]. split; [exact EQ|]. split; [exact EL|]. split; [exact NL|]. split; [exact W|]. split; [exact SQ1|].
  split; [exact CA|]. split; [exact SQ2|]. split; [exact RB|]. split; [exact EB|].
  split; [rewrite <- Hb, app_assoc; reflexivity|]. split; [rewrite <- Hi, impadd_assoc; reflexivity|]. split; [reflexivity|].
  cbv zeta. split; [exact Ltw|].
  assert (Etwin : eof_ended (pre ++ body ++ adv ts2)) by (apply ProgSrc.eof_ended_app; exact Etw).
  rewrite (block_srun _ _ _ _ _ _ _ RS1 Etwin f start [] imp0) by lia. cbn [app]. rewrite impadd_imp0_l.
  rewrite TW2 by lia. rewrite block_acc, E3. rewrite <- app_assoc, impadd_assoc. reflexivity.
Qed.

End RUN.


(* ---------- the two blocks have the same SHAPE (TagRename.shape: all tags and command ids set to 0) ---------- *)
Lemma g_bexp_mp g e : g_bexp g e = TagRename.mp_bexp (g_cmd g) e.
Proof.
  induction e as [l|o a IHa b IHb]; cbn [g_bexp TagRename.mp_bexp]; [|rewrite IHa, IHb; reflexivity].
  reflexivity.
Qed.
Lemma g_stmts_mp g : forall b, map (g_stmt g) b = TagRename.mp_stmts g (g_cmd g) b.
Proof. reflexivity. Qed.
Lemma cmd_same_g_cmd g : TagRename.cmd_same (g_cmd g).
Proof. intros c. repeat split; reflexivity. Qed.
Lemma shape_g_stmts g b : TagRename.shape (map (g_stmt g) b) = TagRename.shape b.
Proof. rewrite g_stmts_mp. apply TagRename.shape_renamed. apply cmd_same_g_cmd. Qed.
Lemma shape_app a b : TagRename.shape (a ++ b) = TagRename.shape a ++ TagRename.shape b.
Proof. unfold TagRename.shape, TagRename.mp_stmts. apply map_app. Qed.

Theorem twin_blocks_same_shape s1 s2 b1 ss b3 :
  TagRename.shape (map (g_stmt s1) b1 ++ map (g_stmt s2) ss ++ b3) = TagRename.shape (b1 ++ ss ++ b3).
Proof. rewrite !shape_app, !shape_g_stmts. reflexivity. Qed.

(* ---------- the hypotheses of twin_script_block hold on a concrete script (TagRename.src_pory) ---------- *)
Definition ex_ts : toks := Eval vm_compute in lex TagRename.nf TagRename.nf TagRename.nf (t TagRename.src_pory).
Definition ex_pf := Format.parse_format TagRename.fc0 [] 0%Z true.
Example twin_script_block_hyps :
  let x := skipn 3 ex_ts in
  exists b1 i1 z sc sv ts1 cases ts2 ss imp' b imp y,
    eof_ended x /\ srun [] TagRename.sw0 true ex_pf [] (t "A") [] [] x b1 i1 z /\
    curis PORYSWITCH z = true /\ poryswitch_header TagRename.sw0 true z = Ok (sc, sv, ts1) /\
    parse_pory_cases [] TagRename.sw0 true ex_pf [] (5 * len z) (t "A") [] [] (cur ts1) ts1 [] = Ok (cases, ts2) /\
    PorySwitchLists.pory_select cases sv = Some (ss, imp') /\
    parse_block [] TagRename.sw0 true ex_pf [] (5 * len x + 3) (t "A") [] [] (cur (skipn 2 ex_ts)) x [] imp0 = Ok (b, imp, y) /\
    List.length b1 = 1%nat /\ List.length cases = 3%nat /\ (exists tg cnd bd, ss = [SWhile tg cnd bd]) /\ List.length b = 4%nat.
Proof.
  cbv zeta. do 13 eexists.
  split; [split; [vm_compute; congruence|vm_compute; reflexivity]|].
  split.
  { eapply (srun_cons [] TagRename.sw0 true ex_pf [] (t "A") [] [] (skipn 3 ex_ts) (5 * len (skipn 3 ex_ts) + 2));
      [apply Nat.le_refl|vm_compute; reflexivity|vm_compute; lia|apply srun_nil]. }
  split; [vm_compute; reflexivity|]. split; [vm_compute; reflexivity|]. split; [vm_compute; reflexivity|].
  split; [vm_compute; reflexivity|]. split; [vm_compute; reflexivity|].
  split; [vm_compute; reflexivity|]. split; [vm_compute; reflexivity|].
  split; [do 3 eexists; vm_compute; reflexivity|vm_compute; reflexivity].
Qed.

(* ---------- FINDING: `continue` as the last statement of the selected case.  Inside the poryswitch it is followed by the
   closing brace of the case, so the parser's rule "continue must be the last statement of its block" is satisfied although
   statements follow the poryswitch in the loop body; in the twin the rule is violated.  The original compiles, the twin is
   rejected: the property text of C12 ("compiling a program equals compiling the same program with every poryswitch replaced
   by the content of the selected case") does not hold for such programs.  This is the condition LC of twin_block_step. ---------- *)
Open Scope string_scope.
Definition src_cont : string :=
  "script A { while (flag(F)) { poryswitch(GAME) { RUBY { continue } } lock } }".
Definition src_cont_twin : string :=
  "script A { while (flag(F)) {                           continue     lock } }".
Example continue_counterexample :
  (exists out, TagRename.comp0 src_cont = Compile.OutText out) /\
  (exists e, TagRename.comp0 src_cont_twin = Compile.OutErr e /\ emsg e = t "'continue' must be the last statement in block scope") /\
  (* same tokens: the twin is the original without the tokens of the poryswitch frame *)
  (let ts := lex TagRename.nf TagRename.nf TagRename.nf (t src_cont) in
   lex TagRename.nf TagRename.nf TagRename.nf (t src_cont_twin) = (firstn 11 ts ++ [nth 18 ts eof0] ++ skipn 21 ts)%list).
Proof.
  split; [eexists; vm_compute; reflexivity|]. split; [eexists; split; vm_compute; reflexivity|]. vm_compute. reflexivity.
Qed.
Close Scope string_scope.

(* ---------- the instances for the parser that Compile.compile runs (format() = Format.parse_format) ---------- *)
Definition twin_block_step_real av sw ee fc font ml c :=
  twin_block_step av sw ee (Format.parse_format fc font ml ee) c
    (real_format_advs fc font ml ee) (real_format_local fc font ml ee) (real_format_lt fc font ml ee).
Definition twin_script_block_real av sw ee fc font ml c :=
  twin_script_block av sw ee (Format.parse_format fc font ml ee) c
    (real_format_advs fc font ml ee) (real_format_local fc font ml ee) (real_format_lt fc font ml ee).
Definition block_pory_step_real av sw ee fc font ml c :=
  block_pory_step av sw ee (Format.parse_format fc font ml ee) c
    (real_format_advs fc font ml ee) (real_format_lt fc font ml ee).
