(* C07: the executable format_text of the model is the abstract line filler of FmtLayout.v applied to the words that
   get_next_word yields, printed with single spaces and break codes - so layout_fits_and_discipline speaks about the
   text that the model (and, by the FMT correspondence, the implementation) actually produces. *)
From Coq Require Import List String Ascii ZArith NArith Lia Bool.
From Pory Require Import Lexer Ast Parser Format FmtLayout.
Import ListNotations.
Open Scope list_scope.
Local Open Scope Z_scope.

Definition classify (w : text) : tok text :=
  if is_line_break w then
    WBreak text (if is_auto w then EN else if is_para w then Ep else if text_eqb w (bs 108) then El else En)
  else WWord text w.

Definition code (b : obrk) : text := match b with Bn => bs 110 | Bl => bs 108 | Bp => bs 112 end.
Fixpoint join_words (ws : list text) : text :=
  match ws with [] => [] | [w] => w | w :: r => w ++ [32%N] ++ join_words r end.
Definition print_line (l : line text) : text :=
  join_words (lwords text l) ++ match lbrk text l with Some b => code b ++ [10%N] | None => [] end.
Definition print_lines (ls : list (line text)) : text := flat_map print_line ls.

Lemma join_words_snoc ws w : ws <> [] -> join_words (ws ++ [w]) = join_words ws ++ [32%N] ++ w.
Proof.
  induction ws as [|a r IH]; intros H; [congruence|]. destruct r as [|b r]; [reflexivity|].
  cbn [app join_words] in *. rewrite IH by discriminate. now rewrite <- !app_assoc.
Qed.
Lemma join_words_nil ws : Forall (fun w => w <> []) ws -> join_words ws = [] -> ws = [].
Proof.
  destruct ws as [|a r]; [reflexivity|]. intros F H. exfalso. inversion F as [|? ? Ha _]; subst.
  destruct r; cbn in H; [congruence|]. destruct a; [congruence|discriminate].
Qed.

Section R.
Variable fc : fontcfg.
Variable txt : text.
Variable maxW cursor numLines spaceW : Z.
Variable fontID : text.

(* the words the loop visits, starting with [word] already read and [pos] the position after it; None = out of fuel *)
Fixpoint words_from (fuel : nat) (pos : nat) (word : text) : option (list text) :=
  match fuel with
  | O => None
  | S f => match word with
           | [] => Some []
           | _ => let '(endp, nextw) := get_next_word (skipn pos txt) in
                  match words_from f (pos + endp)%nat nextw with Some r => Some (word :: r) | None => None end
           end
  end.

Notation width := (fun w => word_width fc w fontID).
Notation astep := (step text width spaceW maxW cursor numLines).
Notation arun := (run text width spaceW maxW cursor numLines).

Definition Rel (s : fst) (a : st text) : Prop :=
  fOut s = print_lines (rev (out text a)) /\ fLine s = join_words (rev (cur text a)) /\ fW s = cw text a /\ fN s = ln text a /\
  fFirst s = (match cur text a with [] => true | _ => false end) /\ Forall (fun w => w <> []) (cur text a).

Lemma is_line_break_cases w : is_line_break w = true ->
  (is_auto w = true /\ w = bs 78) \/ (is_auto w = false /\ is_para w = true /\ w = bs 112) \/
  (is_auto w = false /\ is_para w = false /\ text_eqb w (bs 108) = true /\ w = bs 108) \/
  (is_auto w = false /\ is_para w = false /\ text_eqb w (bs 108) = false /\ w = bs 110).
Proof.
  unfold is_line_break, is_auto, is_para. intros H.
  assert (E : forall a b, text_eqb a b = true -> a = b).
  { intros a b X. unfold text_eqb in X. destruct (list_eq_dec N.eq_dec a b); [auto|discriminate]. }
  destruct (text_eqb w (bs 78)) eqn:A; [left; split; [reflexivity|apply E, A]|].
  destruct (text_eqb w (bs 112)) eqn:P; [right; left; repeat split; apply E, P|].
  destruct (text_eqb w (bs 108)) eqn:L; [right; right; left; repeat split; apply E, L|].
  destruct (text_eqb w (bs 110)) eqn:Nn; [right; right; right; repeat split; apply E, Nn|].
  cbn in H. discriminate.
Qed.

Lemma print_lines_snoc ls l : print_lines (ls ++ [l]) = print_lines ls ++ print_line l.
Proof. unfold print_lines. rewrite flat_map_app. cbn. now rewrite app_nil_r. Qed.

(* one iteration of the loop is one step of the abstract line filler *)
Lemma loop_refines fuel : forall pos word s a ws,
  Rel s a -> words_from fuel pos word = Some ws ->
  fmt_loop fuel fc txt maxW cursor fontID numLines spaceW pos word s =
  print_lines (finish text (arun a (map classify ws))).
Proof.
  induction fuel as [|f IH]; intros pos word s a ws HR HW; [discriminate|].
  cbn [words_from] in HW. cbn [fmt_loop].
  destruct HR as (RO & RL & RW & RN & RF & RE).
  destruct word as [|c0 w0].
  - (* no more words *)
    inversion HW; subst. cbn [map run]. unfold finish. rewrite RO, RL.
    destruct (cur text a) as [|x r] eqn:EC; cbn [rev join_words].
    + reflexivity.
    + destruct (join_words (rev r ++ [x])) eqn:J.
      * exfalso. assert (X : rev (x :: r) = []) by (apply join_words_nil; [apply Forall_rev; exact RE|exact J]).
        apply (f_equal (@List.length text)) in X. rewrite rev_length in X. discriminate.
      * cbn [rev]. rewrite print_lines_snoc. unfold print_line. cbn [lwords lbrk]. rewrite app_nil_r, <- J. reflexivity.
  - set (word := c0 :: w0) in *.
    destruct (get_next_word (skipn pos txt)) as [endp nextw] eqn:GN.
    destruct (words_from f (pos + endp)%nat nextw) as [r|] eqn:WR; [|discriminate]. inversion HW; subst ws. clear HW.
    cbn [map run].
    assert (NX : hd_error (map classify r) = match nextw with [] => None | _ => Some (classify nextw) end).
    { destruct f as [|f']; [discriminate|]. cbn [words_from] in WR. destruct nextw as [|c1 w1]; [inversion WR; reflexivity|].
      destruct (get_next_word (skipn (pos + endp) txt)) as [e2 n2]. destruct (words_from f' _ n2); [|discriminate]. inversion WR; reflexivity. }
    apply IH with (ws := r); [|exact WR]. rewrite NX. clear IH WR NX.
    unfold classify at 1. destruct (is_line_break word) eqn:LB.
    + (* explicit break *)
      unfold Rel. cbn [step out cur cw ln fOut fLine fW fN fFirst].
      repeat split; try reflexivity.
      * cbn [rev]. rewrite print_lines_snoc, RO, RL. unfold print_line. cbn [lwords lbrk]. rewrite <- ?app_assoc. do 2 f_equal.
        destruct (is_line_break_cases word LB) as [(A & E)|[(A & P & E)|[(A & P & L & E)|(A & P & L & E)]]]; rewrite A, ?P, ?L; try rewrite E; rewrite ?RN; try reflexivity.
        destruct (ln text a <? numLines - 1); reflexivity.
      * destruct (is_line_break_cases word LB) as [(A & E)|[(A & P & E)|[(A & P & L & E)|(A & P & L & E)]]]; rewrite A, ?P, ?L, ?RN; try reflexivity.
        unfold is_para. rewrite E. rewrite ?RN. reflexivity.
      * constructor.
    + (* a word *)
      cbn [step]. rewrite <- RW, <- RN.
      assert (FE : (match fLine s with [] => false | _ => true end) = negb (match cur text a with [] => true | _ => false end)).
      { rewrite RL. destruct (cur text a) as [|x r0] eqn:EC; [reflexivity|]. cbn [negb].
        destruct (join_words (rev (x :: r0))) eqn:J; [|reflexivity].
        exfalso. assert (X : rev (x :: r0) = []) by (apply join_words_nil; [apply Forall_rev; exact RE|exact J]).
        apply (f_equal (@List.length text)) in X. rewrite rev_length in X. discriminate. }
      assert (NW : (if fFirst s then word_width fc word fontID else word_width fc word fontID + spaceW) =
                   match cur text a with [] => word_width fc word fontID | _ => word_width fc word fontID + spaceW end).
      { rewrite RF. destruct (cur text a); reflexivity. }
      assert (RS : (if (match nextw with [] => false | _ => true end) && ((numLines - 1 <=? fN s) || is_para nextw)
                    then fW s + (if fFirst s then word_width fc word fontID else word_width fc word fontID + spaceW) + cursor
                    else fW s + (if fFirst s then word_width fc word fontID else word_width fc word fontID + spaceW)) =
                   fW s + match cur text a with [] => word_width fc word fontID | _ => word_width fc word fontID + spaceW end +
                   reserve_at text cursor numLines (fN s) (match nextw with [] => None | _ => Some (classify nextw) end)).
      { rewrite NW. unfold reserve_at. destruct nextw as [|c1 w1]; cbn [andb is_some]; [lia|].
        assert (IP : is_p text (Some (classify (c1 :: w1))) = is_para (c1 :: w1)).
        { unfold classify. destruct (is_line_break (c1 :: w1)) eqn:LB2.
          - destruct (is_line_break_cases _ LB2) as [(A & E)|[(A & P & E)|[(A & P & L & E)|(A & P & L & E)]]]; rewrite A, ?P, ?L; cbn; try reflexivity.
            unfold is_para. rewrite E. reflexivity.
          - cbn. unfold is_line_break in LB2. unfold is_para. apply orb_false_iff in LB2. destruct LB2 as [LB2 _].
            apply orb_false_iff in LB2. destruct LB2 as [_ LB2]. symmetry. exact LB2. }
        rewrite IP. destruct ((numLines - 1 <=? fN s) || is_para (c1 :: w1)); lia. }
      rewrite RS, FE.
      destruct ((maxW <? _) && negb _) eqn:BRK.
      * unfold Rel. cbn [out cur cw ln fOut fLine fW fN fFirst]. repeat split; try reflexivity.
        -- cbn [rev]. rewrite print_lines_snoc, RO, RL. unfold print_line. cbn [lwords lbrk]. rewrite <- ?app_assoc. do 2 f_equal.
           destruct (numLines - 1 <=? fN s); reflexivity.
        -- constructor; [discriminate|constructor].
      * unfold Rel. cbn [out cur cw ln fOut fLine fW fN fFirst]. repeat split; try reflexivity; try assumption.
        -- cbn [rev]. rewrite RF, RL. destruct (cur text a) as [|x r0] eqn:EC; [reflexivity|].
           rewrite join_words_snoc; [now rewrite <- app_assoc|]. intros X. apply (f_equal (@List.length text)) in X. rewrite rev_length in X. discriminate.
        -- rewrite NW. reflexivity.
        -- constructor; [discriminate|exact RE].
Qed.
End R.

(* THE THEOREM: what format_text returns is the printed abstract layout of the words get_next_word yields *)
Theorem format_text_refines fc txt0 maxW cursor fontID numLines ws :
  let txt := map (fun c => if (c =? 10)%N then 32%N else c) txt0 in
  let spaceW := rune_width fc 32%N fontID in
  words_from txt (S (List.length txt)) (Datatypes.fst (get_next_word txt)) (Datatypes.snd (get_next_word txt)) = Some ws ->
  format_text fc txt0 maxW cursor fontID numLines = None \/
  format_text fc txt0 maxW cursor fontID numLines =
    Some (print_lines (layout text (fun w => word_width fc w fontID) spaceW maxW cursor numLines (map classify ws))).
Proof.
  intros txt spaceW HW. unfold format_text.
  destruct (negb (font_valid fc fontID) && _ && _); [now left|]. right.
  fold txt. fold spaceW. destruct (get_next_word txt) as [pos word] eqn:GN. cbn [Datatypes.fst Datatypes.snd] in HW.
  destruct word as [|c0 w0].
  - cbn in HW. inversion HW; subst. reflexivity.
  - f_equal. apply loop_refines; [|exact HW].
    unfold Rel, init. cbn. repeat split; constructor.
Qed.

(* hence (with layout_fits_and_discipline): every line of the produced text with at least two words fits into maxW,
   including the cursor reserve where the prompt is shown, and inserted breaks follow the text-box discipline *)
Corollary format_text_lines_fit fc txt0 maxW cursor fontID numLines ws out :
  let txt := map (fun c => if (c =? 10)%N then 32%N else c) txt0 in
  let spaceW := rune_width fc 32%N fontID in
  let width := fun w => word_width fc w fontID in
  words_from txt (S (List.length txt)) (Datatypes.fst (get_next_word txt)) (Datatypes.snd (get_next_word txt)) = Some ws ->
  format_text fc txt0 maxW cursor fontID numLines = Some out ->
  exists ls, out = print_lines ls /\
    Forall2 (fun i l => line_ok text width spaceW maxW cursor numLines i l /\ disc_ok text numLines i l) (indices text 0 ls) ls.
Proof.
  intros txt spaceW width HW HF.
  destruct (format_text_refines fc txt0 maxW cursor fontID numLines ws HW) as [E|E]; [congruence|].
  rewrite E in HF. inversion HF; subst. eexists. split; [reflexivity|]. apply layout_fits_and_discipline.
Qed.

(* nothing is lost, duplicated or reordered: the words of the produced lines, in order, are the words of the input *)
Section W.
Variable word : Type.
Variable width : word -> Z.
Variable space maxW cursor numLines : Z.
Definition words_of_toks (ts : list (tok word)) : list word := flat_map (fun t => match t with WWord _ w => [w] | _ => [] end) ts.
Definition words_of_state (s : st word) : list word := flat_map (lwords word) (rev (out word s)) ++ rev (cur word s).

Lemma step_words s w nxt :
  words_of_state (step word width space maxW cursor numLines s w nxt) = words_of_state s ++ words_of_toks [w].
Proof.
  unfold words_of_state, words_of_toks. destruct w as [x|b]; cbn [step flat_map app].
  - destruct ((maxW <? _) && negb _); cbn [out cur rev flat_map].
    + rewrite flat_map_app. cbn. rewrite app_nil_r, <- app_assoc. reflexivity.
    + rewrite <- app_assoc. reflexivity.
  - cbn [out cur rev flat_map]. rewrite flat_map_app. cbn. rewrite !app_nil_r. reflexivity.
Qed.

Lemma run_words ts : forall s, words_of_state (run word width space maxW cursor numLines s ts) = words_of_state s ++ words_of_toks ts.
Proof.
  induction ts as [|w r IH]; intros s; cbn [run].
  - unfold words_of_toks. cbn. now rewrite app_nil_r.
  - rewrite IH, step_words. unfold words_of_toks. cbn [flat_map]. rewrite app_nil_r, <- app_assoc. reflexivity.
Qed.

Theorem layout_keeps_words ts :
  flat_map (lwords word) (layout word width space maxW cursor numLines ts) = words_of_toks ts.
Proof.
  unfold layout, finish. pose proof (run_words ts (init word)) as H. unfold words_of_state in H. cbn [init out cur rev flat_map app] in H.
  destruct (cur word (run word width space maxW cursor numLines (init word) ts)) as [|y c].
  - cbn in H. rewrite app_nil_r in H. exact H.
  - cbn [rev]. rewrite flat_map_app. cbn [flat_map lwords]. rewrite app_nil_r. exact H.
Qed.
End W.
