(* The chunk order is a permutation of the chunk ids.

   Emitter.order_of yields either the ascending ids [0; ...; n-1] or the fall-through chains of optimizeChunkOrder
   (opt_order).  From a density hypothesis on the chunk graph (the ids are pairwise distinct and lie in [0, n)) we prove
   that both orders are permutations of the ids of the graph; the four conjuncts of RenderCheck.wf_render that speak only
   about the order follow, and stop being run-time premises.  We also characterise how every element of the optimized
   order got to its place (opt_order_step), and the last element of the plain order (plain_order_last). *)
From Coq Require Import List String Ascii ZArith NArith Arith Lia Bool Permutation.
From Pory Require Import Lexer Ast Emitter RenderCheck.
Import ListNotations.
Open Scope list_scope.

Definition dense (G : list chunk) : Prop :=
  NoDup (map cid G) /\ Forall (fun c => (0 <= cid c < Z.of_nat (List.length G))%Z) G.

(* ---------- range ---------- *)
Lemma range_in : forall n from x, In x (range n from) <-> (from <= x < from + Z.of_nat n)%Z.
Proof.
  induction n as [|k IH]; intros from x.
  - cbn [range In]. lia.
  - cbn [range In]. rewrite IH. lia.
Qed.

Lemma range_length : forall n from, List.length (range n from) = n.
Proof. induction n as [|k IH]; intros from; cbn [range List.length]; [reflexivity|now rewrite IH]. Qed.

Lemma range_nodup : forall n from, NoDup (range n from).
Proof.
  induction n as [|k IH]; intros from; cbn [range]; constructor; [|apply IH].
  rewrite range_in. lia.
Qed.

Lemma range_snoc : forall k from, range (S k) from = range k from ++ [(from + Z.of_nat k)%Z].
Proof.
  induction k as [|k IH]; intros from.
  - cbn [range app]. f_equal. cbn. lia.
  - change (range (S (S k)) from) with (from :: range (S k) (from + 1)%Z). rewrite IH.
    cbn [range app]. f_equal. f_equal. f_equal. lia.
Qed.

(* ---------- completeness of nodupz ---------- *)
Lemma nodupz_complete : forall l, NoDup l -> nodupz l = true.
Proof.
  induction l as [|x r IH]; intros ND; cbn [nodupz]; [reflexivity|].
  inversion ND as [|? ? N1 N2]; subst. rewrite (IH N2), andb_true_r.
  destruct (zmem x r) eqn:E; [|reflexivity]. exfalso. apply N1, zmem_in, E.
Qed.

(* ---------- pigeonhole ---------- *)
Lemma bounded_length : forall (l : list Z) n, NoDup l -> (forall x, In x l -> (0 <= x < Z.of_nat n)%Z) -> List.length l <= n.
Proof.
  intros l n ND B. rewrite <- (range_length n 0%Z). apply NoDup_incl_length; [exact ND|].
  intros x Hx. apply range_in. specialize (B x Hx). lia.
Qed.

Lemma bounded_full : forall (l : list Z) n, NoDup l -> (forall x, In x l -> (0 <= x < Z.of_nat n)%Z) -> n <= List.length l ->
  forall x, (0 <= x < Z.of_nat n)%Z -> In x l.
Proof.
  intros l n ND B L x Hx.
  assert (I : incl (range n 0%Z) l).
  { apply NoDup_length_incl; [exact ND|rewrite range_length; exact L|].
    intros y Hy. apply range_in. specialize (B y Hy). lia. }
  apply I, range_in. lia.
Qed.

(* some id of [0, n) is missing from a short list: the contrapositive form used below *)
Lemma short_not_full : forall (l : list Z) n, List.length l < n -> ~ (forall x, (0 <= x < Z.of_nat n)%Z -> In x l).
Proof.
  intros l n L F.
  assert (I : incl (range n 0%Z) l) by (intros y Hy; apply F; apply range_in in Hy; lia).
  pose proof (NoDup_incl_length (range_nodup n 0%Z) I) as K. rewrite range_length in K. lia.
Qed.

(* ---------- first_unvisited ---------- *)
Lemma fu_some : forall fuel i n v r, first_unvisited fuel i n v = Some r ->
  (i <= r < n)%Z /\ ~ In r v /\ forall j, (i <= j < r)%Z -> In j v.
Proof.
  induction fuel as [|f IH]; intros i n v r H; cbn [first_unvisited] in H; [discriminate|].
  destruct (Z.ltb_spec i n) as [Lt|Ge]; [|discriminate].
  destruct (zmem i v) eqn:E.
  - apply IH in H. destruct H as (A & B & C). split; [lia|split; [exact B|]].
    intros j Hj. destruct (Z.eq_dec j i) as [->|Ne]; [apply zmem_in; exact E|apply C; lia].
  - inversion H; subst r. split; [lia|split].
    + intros X. apply zmem_in in X. rewrite X in E. discriminate.
    + intros j Hj. lia.
Qed.

Lemma fu_none : forall fuel i n v, first_unvisited fuel i n v = None -> (n - i < Z.of_nat fuel)%Z ->
  forall j, (i <= j < n)%Z -> In j v.
Proof.
  induction fuel as [|f IH]; intros i n v H F j Hj; [cbn in F; lia|].
  cbn [first_unvisited] in H.
  destruct (Z.ltb_spec i n) as [Lt|Ge]; [|lia].
  destruct (zmem i v) eqn:E; [|discriminate].
  destruct (Z.eq_dec j i) as [->|Ne]; [apply zmem_in; exact E|].
  apply (IH (i + 1)%Z n v H); lia.
Qed.

(* ---------- get_chunk ---------- *)
Lemma get_chunk_in : forall G i c, get_chunk G i = Some c -> In c G /\ cid c = i.
Proof.
  induction G as [|x r IH]; intros i c H; cbn [get_chunk] in H; [discriminate|].
  destruct (cid x =? i)%Z eqn:E.
  - inversion H; subst c. split; [left; reflexivity|apply Z.eqb_eq; exact E].
  - destruct (IH i c H) as [A B]. split; [right; exact A|exact B].
Qed.

Lemma opt_order_S : forall f fs n acc, opt_order (S f) fs n acc =
  if Nat.leb n (List.length acc) then rev acc else
  match acc with
  | [] => opt_order f fs n [0%Z]
  | last :: _ =>
      let nxt := match get_chunk fs last with Some c => tail_of c | None => (-1)%Z end in
      if andb (negb (Z.eqb nxt (-1))) (andb (negb (zmem nxt acc)) (match get_chunk fs nxt with Some _ => true | None => false end))
      then opt_order f fs n (nxt :: acc)
      else match first_unvisited (S n) 1 (Z.of_nat n) acc with
           | Some i => opt_order f fs n (i :: acc)
           | None => rev acc
           end
  end.
Proof. reflexivity. Qed.

(* ---------- how an order is built: the provenance of every element ---------- *)
Section ORD.
Variable G : list chunk.
Local Notation n := (List.length G).

(* l is an order read left to right *)
Definition stepP (l : list Z) : Prop :=
  forall pre d post, l = pre ++ d :: post ->
    (pre = [] /\ d = 0%Z) \/
    (exists pre' p c, pre = pre' ++ [p] /\ get_chunk G p = Some c /\ tail_of c = d) \/
    (pre <> [] /\ forall i, (1 <= i < d)%Z -> In i pre).

Lemma stepP_nil : stepP [].
Proof. intros pre d post E. destruct pre; discriminate. Qed.

Lemma last_case : forall (A : Type) (l : list A), l = [] \/ exists l' y, l = l' ++ [y].
Proof. intros A l. induction l as [|y l' _] using rev_ind; [left; reflexivity|right; eauto]. Qed.

Lemma stepP_snoc : forall l x, stepP l ->
  ((l = [] /\ x = 0%Z) \/
   (exists l' p c, l = l' ++ [p] /\ get_chunk G p = Some c /\ tail_of c = x) \/
   (l <> [] /\ forall i, (1 <= i < x)%Z -> In i l)) ->
  stepP (l ++ [x]).
Proof.
  intros l x H Hx pre d post E.
  destruct (last_case _ post) as [->|(post' & y & ->)].
  - apply app_inj_tail in E. destruct E as [-> ->]. exact Hx.
  - change (pre ++ d :: post' ++ [y]) with (pre ++ (d :: post') ++ [y]) in E. rewrite app_assoc in E.
    apply app_inj_tail in E. destruct E as [E _]. exact (H pre d post' E).
Qed.

Hypothesis HD : dense G.

Lemma ids_range : forall x, In x (map cid G) -> (0 <= x < Z.of_nat n)%Z.
Proof.
  intros x Hx. apply in_map_iff in Hx. destruct Hx as (c & <- & Hc).
  destruct HD as [_ F]. rewrite Forall_forall in F. exact (F c Hc).
Qed.

Lemma ids_full : forall x, (0 <= x < Z.of_nat n)%Z -> In x (map cid G).
Proof.
  intros x Hx. destruct HD as [ND _].
  apply (bounded_full (map cid G) n ND ids_range); [rewrite map_length; auto|exact Hx].
Qed.

Lemma get_chunk_range : forall i c, get_chunk G i = Some c -> (0 <= i < Z.of_nat n)%Z.
Proof.
  intros i c H. destruct (get_chunk_in _ _ _ H) as [A B]. apply ids_range. rewrite <- B. apply in_map. exact A.
Qed.

(* the invariant of the loop of opt_order; acc is the order so far, reversed *)
Definition Inv (acc : list Z) : Prop :=
  NoDup acc /\ (forall x, In x acc -> (0 <= x < Z.of_nat n)%Z) /\ (acc = [] \/ In 0%Z acc) /\ stepP (rev acc).

Lemma Inv_nil : Inv [].
Proof. split; [constructor|split; [intros x []|split; [left; reflexivity|exact stepP_nil]]]. Qed.

Lemma Inv_length : forall acc, Inv acc -> List.length acc <= n.
Proof. intros acc (ND & B & _). exact (bounded_length acc n ND B). Qed.

Lemma Inv_cons : forall x acc, Inv acc -> ~ In x acc -> (0 <= x < Z.of_nat n)%Z ->
  ((acc = [] /\ x = 0%Z) \/
   (exists tl p c, acc = p :: tl /\ get_chunk G p = Some c /\ tail_of c = x) \/
   (acc <> [] /\ forall i, (1 <= i < x)%Z -> In i acc)) ->
  Inv (x :: acc).
Proof.
  intros x acc (ND & B & Z0 & SP) NI R How.
  split; [constructor; assumption|split; [|split]].
  - intros y [<-|Hy]; [exact R|exact (B y Hy)].
  - right. destruct Z0 as [->|Z0].
    + destruct How as [[_ ->]|[(tl & p & c & E & _)|[E _]]]; [left; reflexivity|discriminate|congruence].
    + right. exact Z0.
  - cbn [rev]. apply stepP_snoc; [exact SP|].
    destruct How as [[-> ->]|[(tl & p & c & -> & Hc & Ht)|[NE F]]].
    + left. split; reflexivity.
    + right. left. exists (rev tl), p, c. cbn [rev]. split; [reflexivity|split; assumption].
    + right. right. split; [intros X; apply NE; rewrite <- (rev_involutive acc), X; reflexivity|].
      intros i Hi. apply in_rev. rewrite rev_involutive. exact (F i Hi).
Qed.

Lemma opt_order_inv : forall fuel acc, Inv acc -> n <= fuel + List.length acc ->
  exists acc', opt_order fuel G n acc = rev acc' /\ Inv acc' /\ List.length acc' = n.
Proof.
  induction fuel as [|f IH]; intros acc HI Hf.
  - cbn [opt_order]. exists acc. split; [reflexivity|split; [exact HI|]]. pose proof (Inv_length acc HI). lia.
  - rewrite opt_order_S. destruct (Nat.leb_spec n (List.length acc)) as [Le|Lt].
    + exists acc. split; [reflexivity|split; [exact HI|]]. pose proof (Inv_length acc HI). lia.
    + destruct acc as [|last tl].
      * apply IH; [|cbn [List.length] in *; lia].
        apply Inv_cons; [exact HI|intros []|cbn [List.length] in Lt; lia|left; split; reflexivity].
      * cbv zeta.
        set (nxt := match get_chunk G last with Some c => tail_of c | None => (-1)%Z end).
        destruct (negb (nxt =? -1)%Z && (negb (zmem nxt (last :: tl)) && match get_chunk G nxt with Some _ => true | None => false end)) eqn:C.
        -- apply andb_prop in C. destruct C as [C1 C2]. apply andb_prop in C2. destruct C2 as [C2 C3].
           apply IH; [|cbn [List.length] in *; lia].
           apply Inv_cons; [exact HI| | |].
           ++ intros X. apply zmem_in in X. rewrite X in C2. discriminate.
           ++ destruct (get_chunk G nxt) as [c|] eqn:E; [|discriminate]. exact (get_chunk_range _ _ E).
           ++ right. left. subst nxt. destruct (get_chunk G last) as [c|] eqn:E.
              ** exists tl, last, c. split; [reflexivity|split; [exact E|reflexivity]].
              ** rewrite Z.eqb_refl in C1. discriminate.
        -- destruct (first_unvisited (S n) 1 (Z.of_nat n) (last :: tl)) as [i|] eqn:F.
           ++ apply fu_some in F. destruct F as (F1 & F2 & F3).
              apply IH; [|cbn [List.length] in *; lia].
              apply Inv_cons; [exact HI|exact F2|lia|].
              right. right. split; [discriminate|exact F3].
           ++ exfalso. apply (short_not_full (last :: tl) n Lt).
              intros x Hx. destruct (Z.eq_dec x 0) as [->|Ne].
              ** destruct HI as (_ & _ & [E|Z0] & _); [discriminate|exact Z0].
              ** apply (fu_none _ _ _ _ F); lia.
Qed.

(* the optimized order is the reverse of an accumulator satisfying the invariant and holding n ids *)
Lemma opt_order_final : exists acc, order_of true G = rev acc /\ Inv acc /\ List.length acc = n.
Proof. unfold order_of. apply opt_order_inv; [exact Inv_nil|cbn [List.length]; lia]. Qed.

Lemma order_perm : forall b, Permutation (order_of b G) (map cid G).
Proof.
  intros [|].
  - destruct opt_order_final as (acc & -> & (ND & B & _) & L).
    apply Permutation_trans with acc; [apply Permutation_sym, Permutation_rev|].
    apply NoDup_Permutation; [exact ND|exact (proj1 HD)|].
    intros x. split; intros Hx.
    + apply ids_full, B, Hx.
    + apply (bounded_full acc n ND B); [lia|apply ids_range, Hx].
  - unfold order_of. apply NoDup_Permutation; [apply range_nodup|exact (proj1 HD)|].
    intros x. rewrite range_in. split; intros Hx.
    + apply ids_full. lia.
    + apply ids_range in Hx. lia.
Qed.

End ORD.

(* ================= main theorems ================= *)

Theorem order_of_perm : forall b G, dense G -> G <> [] -> Permutation (order_of b G) (map cid G).
Proof. intros b G HD _. exact (order_perm G HD b). Qed.

(* the hypothesis G <> [] of order_of_perm is not needed *)
Theorem order_of_perm_all : forall b G, dense G -> Permutation (order_of b G) (map cid G).
Proof. intros b G HD. exact (order_perm G HD b). Qed.

Theorem order_conjuncts : forall b G, dense G -> G <> [] ->
  let order := order_of b G in
  nodupz order = true /\
  forallb (fun d => (0 <=? d)%Z && match get_chunk G d with Some c => (cid c =? d)%Z | None => false end) order = true /\
  forallb (fun c => zmem (cid c) order) G = true /\
  zmem 0%Z order = true.
Proof.
  intros b G HD NE order. pose proof (order_perm G HD b) as P. fold order in P.
  split; [|split; [|split]].
  - apply nodupz_complete. apply (Permutation_NoDup (Permutation_sym P)). exact (proj1 HD).
  - apply forallb_forall. intros d Hd. apply (Permutation_in _ P) in Hd.
    pose proof (ids_range G HD d Hd) as R.
    apply in_map_iff in Hd. destruct Hd as (c & <- & Hc).
    rewrite (get_chunk_nodup G (proj1 HD) c Hc), Z.eqb_refl, andb_true_r. apply Z.leb_le. lia.
  - apply forallb_forall. intros c Hc. apply zmem_in. apply (Permutation_in _ (Permutation_sym P)). apply in_map. exact Hc.
  - apply zmem_in. apply (Permutation_in _ (Permutation_sym P)). apply (ids_full G HD).
    destruct G as [|c r]; [congruence|]. cbn [List.length]. lia.
Qed.

(* how each element of the optimized order got there: chunk 0 first; then either the fall-through successor (tail_of) of the
   element just before it, or the smallest id not yet placed *)
Theorem opt_order_step : forall G, dense G -> G <> [] ->
  forall pre d post, order_of true G = pre ++ d :: post ->
    (pre = [] /\ d = 0%Z) \/
    (exists pre' p c, pre = pre' ++ [p] /\ get_chunk G p = Some c /\ tail_of c = d) \/
    (forall i, (1 <= i < d)%Z -> In i pre).
Proof.
  intros G HD _ pre d post E.
  destruct (opt_order_final G HD) as (acc & Ea & (_ & _ & _ & SP) & _).
  rewrite Ea in E. destruct (SP pre d post E) as [H|[H|[_ H]]]; [left; exact H|right; left; exact H|right; right; exact H].
Qed.

Theorem plain_order_last : forall G, G <> [] -> exists pre, order_of false G = pre ++ [Z.of_nat (List.length G) - 1]%Z.
Proof.
  intros G NE. unfold order_of. destruct (List.length G) as [|k] eqn:L.
  - destruct G; [congruence|discriminate].
  - exists (range k 0%Z). rewrite range_snoc. f_equal. f_equal. lia.
Qed.

(* ---------- complements ---------- *)

(* a slightly stronger form of opt_order_step: the "smallest id not yet placed" case never applies to the first element *)
Theorem opt_order_step_strong : forall G, dense G ->
  forall pre d post, order_of true G = pre ++ d :: post ->
    (pre = [] /\ d = 0%Z) \/
    (exists pre' p c, pre = pre' ++ [p] /\ get_chunk G p = Some c /\ tail_of c = d) \/
    (pre <> [] /\ (forall i, (1 <= i < d)%Z -> In i pre) /\ ~ In d pre).
Proof.
  intros G HD pre d post E.
  destruct (opt_order_final G HD) as (acc & Ea & (ND & _ & _ & SP) & _).
  rewrite Ea in E. destruct (SP pre d post E) as [H|[H|[H1 H2]]]; [left; exact H|right; left; exact H|].
  right. right. split; [exact H1|split; [exact H2|]].
  assert (N : NoDup (pre ++ d :: post)) by (rewrite <- E; apply NoDup_rev; exact ND).
  apply NoDup_remove_2 in N. intros X. apply N, in_or_app. left. exact X.
Qed.

(* the optimized order starts with chunk 0 *)
Theorem opt_order_head : forall G, dense G -> G <> [] -> exists post, order_of true G = 0%Z :: post.
Proof.
  intros G HD NE.
  destruct (order_of true G) as [|d post] eqn:E.
  - exfalso. pose proof (order_perm G HD true) as P. rewrite E in P. apply Permutation_nil in P.
    destruct G; [congruence|discriminate].
  - destruct (opt_order_step_strong G HD [] d post E) as [[_ ->]|[(pre' & p & c & X & _)|[X _]]].
    + exists post. reflexivity.
    + destruct pre'; discriminate.
    + congruence.
Qed.

(* ---------- the density hypothesis is decidable, and holds on a concrete graph produced by the emitter ---------- *)
Definition denseb (G : list chunk) : bool :=
  nodupz (map cid G) && forallb (fun c => (0 <=? cid c)%Z && (cid c <? Z.of_nat (List.length G))%Z) G.

Lemma denseb_sound : forall G, denseb G = true -> dense G.
Proof.
  intros G H. unfold denseb in H. apply andb_prop in H. destruct H as [H1 H2].
  split; [apply nodupz_sound; exact H1|].
  apply Forall_forall. intros c Hc. rewrite forallb_forall in H2. specialize (H2 c Hc).
  apply andb_prop in H2. destruct H2 as [A B]. apply Z.leb_le in A. apply Z.ltb_lt in B. lia.
Qed.

Lemma denseb_complete : forall G, dense G -> denseb G = true.
Proof.
  intros G [ND F]. unfold denseb. rewrite (nodupz_complete _ ND). cbn [andb].
  apply forallb_forall. intros c Hc. rewrite Forall_forall in F. specialize (F c Hc).
  apply andb_true_intro. split; [apply Z.leb_le|apply Z.ltb_lt]; lia.
Qed.

Module EXAMPLE.
Definition tk0 : token := {| ttype := IDENT; tlit := t "x"; tline := 1; tsb := 0; tsu := 0; teline := 1; teb := 0; teu := 0 |}.
Definition c0 (s : string) : cmd := {| cname := t s; cargs := []; ctok := tk0; Ast.cid := 0 |}.
Definition lf (s : string) : bexp :=
  BLeaf {| lk := KFlag; loperand := t s; lline := 1; lop := OEq; lvalue := t "TRUE"; lstrict := false; lpre := None |}.
(* lock
   if (flag(A) || flag(B)) { msgbox } elif (flag(C)) { while (flag(D)) { step; break } } else { other }
   release *)
Definition body_ex : list stmt :=
  [ SCmd (c0 "lock");
    SIf [(BBin BOr (lf "A") (lf "B"), [SCmd (c0 "msgbox")]);
         (lf "C", [SWhile 0 (Some (lf "D")) [SCmd (c0 "step"); SBreak 0]])] (Some [SCmd (c0 "other")]);
    SCmd (c0 "release") ].
Definition G_ex : list chunk := match emit_graph body_ex with Emitter.Ok w => finals w | _ => [] end.

(* the chunk graph of this script has 12 chunks, stored in an order that is not the order of the ids *)
Example G_ex_ids : map cid G_ex = [9; 10; 11; 6; 8; 7; 5; 4; 3; 2; 1; 0]%Z.
Proof. vm_compute. reflexivity. Qed.

Example hypotheses_hold : dense G_ex /\ G_ex <> [].
Proof. split; [apply denseb_sound; vm_compute; reflexivity|intros X; apply (f_equal (@List.length chunk)) in X; vm_compute in X; discriminate]. Qed.

Example orders_ex :
  order_of true G_ex = [0; 7; 6; 8; 5; 4; 1; 2; 3; 9; 11; 10]%Z /\
  order_of false G_ex = [0; 1; 2; 3; 4; 5; 6; 7; 8; 9; 10; 11]%Z.
Proof. split; vm_compute; reflexivity. Qed.

(* the theorems, instantiated *)
Example perm_ex : Permutation (order_of true G_ex) (map cid G_ex).
Proof. exact (order_of_perm true G_ex (proj1 hypotheses_hold) (proj2 hypotheses_hold)). Qed.
End EXAMPLE.

(* density cannot be dropped: for a graph with a hole in its ids (ids 0 and 2, n = 2) both orders are [0; 1], which is
   not a permutation of the ids, and 1 is not a chunk (the second order conjunct of wf_render fails) *)
Module COUNTER.
Definition G_hole : list chunk := [mk 0 (-1) [] None; mk 2 (-1) [] None].
Example hole_not_dense : denseb G_hole = false.
Proof. reflexivity. Qed.
Example hole_orders : order_of false G_hole = [0; 1]%Z /\ order_of true G_hole = [0; 1]%Z /\ get_chunk G_hole 1 = None.
Proof. split; [|split]; vm_compute; reflexivity. Qed.
Example hole_not_perm : forall b, ~ Permutation (order_of b G_hole) (map cid G_hole).
Proof.
  intros b P. assert (I : In 2%Z (order_of b G_hole)) by (apply (Permutation_in _ (Permutation_sym P)); right; left; reflexivity).
  destruct b; vm_compute in I; intuition discriminate.
Qed.
End COUNTER.
