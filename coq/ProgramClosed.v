(* C04 at PROGRAM level: the instruction list  emit_program_instrs optimize mp p  of a whole accepted program is closed.

   Properties_C04.v proves C04 script by script.  This file proves it for the one instruction list the compiler emits for the whole
   program - script statements, inline map scripts, raw blocks, movements, marts, mapscripts headers and tables, texts - for both
   optimize settings and line markers on or off.  All statements are about the model's own functions (Parser.parse_program,
   Emitter.emit_program_instrs, Emitter.emit_script); the helper notions are: lnames (the labels an instruction list defines, in
   order), targets_of (the labels of its generated goto / goto_if_* / case lines), NameClash.scripts_of (the scripts of a program:
   script statements and inline map scripts, in emission order), dlabs (the labels written in a script body, at any depth).

   MAIN STATEMENTS, in words
   program_labels (from source) / program_parts (from the source check)
       the label definitions of the output are, as a multiset: one per movement (statements and hoisted moves()), mart, mapscripts
       header, mapscripts table and text (statements and hoisted strings) - data_names p - and for each script its name, the labels
       its author wrote in its body, and generated labels name_i for pairwise distinct chunk numbers 0 < i < 10^40, each of them
       the target of a generated jump of that script; the generated references of the output are those of the scripts' codes.
   names_ok p  (executable condition on the names of the parsed program)
       the names of movements, marts, mapscripts headers and tables, texts, scripts (inline map scripts included) and the labels
       written in script bodies are pairwise distinct, and none of them reads as <name of a script of the program>_<digits>.
   program_labels_distinct       names_ok p  ->  all labels of the output are pairwise distinct.
   distinct_labels_need_distinct_names   conversely, distinct labels force the first half of names_ok (it is not stronger than needed).
   program_generated_references_defined  every generated goto / goto_if_* / case of the output names a label defined in the output.
   mapscripts_references_defined  header lines `map_script TYPE, name` and table lines `map_script_2 var, value, name` are in the
       output; the names the compiler generated in them (inline scripts, tables) are defined labels.
   patch_labels_are_program_names, patched_arguments_defined   the statements of the program are those the parser appended - a
       script statement is the parsed script with every command c replaced by pcmd ps c (relation hoisted_tops) - followed by the
       hoisted movements; every label of every patch is the name of a text / movement of the program, hence defined in the output;
       every argument of a patched command is the argument the parser collected or such a label.
   program_author_labels_present / _once   every label the author wrote in a script (loops, cases, after a break, unreachable code) and
       every script name is a label of the output; exactly once under names_ok.
   program_scripts_closed        every script is a segment of the output, pre ++ code ++ post, whose code ends with return / end / goto
       followed by a blank line (ends_in_terminator, stronger than ProgramRun.closed) and whose generated jumps stay inside it.
   script_targets_defined, script_ends_in_terminator, script_label_names   the same per script, WITHOUT the hypotheses on names
       (names_okb, NoDup of labels) that wf_render_from_source needs.
   graph_size                    a chunk graph has at most work_fuel = 10000 chunks: the 10^40 premise of the decimal printer is discharged.
   program_closed (MAIN)         accepted source text (real compilation, ee = true) + names_ok + emitted  ->  labels pairwise
       distinct /\ closed_any_names (all of the above that needs no condition on names) /\ every label defined exactly once, in
       particular every script name and every author's label.
   program_closed_any_names      the part that holds for every accepted program, whatever its names.

   FINDING (EXAMPLES.generated_text_name_vs_chunk_label, confirmed with the Go compiler): `script A { msgbox("a") msgbox("b") }` and
   `script A_Text { if (flag(F)) { lock } release }` compile into an output that defines A_Text_1 twice (hoisted text of A, chunk 1
   of A_Text) although no name of the author has a generated form.  Hence names_ok also inspects the generated text / movement /
   map script names; a condition on the author's names alone of the kind "not of a generated form" does not give C04.

   NOT proved here: that the patches recorded by the parser are exactly the inline strings / moves() of the source (CmdArgs.v covers
   command statements); references written by the author (goto(L), call(L), `TYPE: Name` entries, labels inside raw blocks) are
   outside "generated references"; labels written inside raw blocks are ILine text, not label definitions of the model.
   names_ok is sufficient, not necessary (EXAMPLES.names_ok_is_conservative). *)
From Coq Require Import List String Ascii ZArith NArith Lia Bool Permutation.
From Pory Require Import Lexer Ast Format Emitter Sem2 SemTgt EmitProps RenderSim RenderCheck.
From Pory Require Import Parser Tr LabelSim C01Final Worklist WorkRefs WorkLabels WorkShape OrderPerm LabelsUnique ProgWf ProgSrc
                         NameClash RenderFromSource C01Main C01Top OptimSame ProgramRun Hoisting.
Import ListNotations.
Open Scope list_scope.

(* ================================================================================================================== *)
(* PART 0: the size of a chunk graph (the bound 10^40 of the model's decimal printer is never reached)                 *)
(* ================================================================================================================== *)
Lemma set_final_length fs c : (List.length (set_final fs c) <= S (List.length fs))%nat.
Proof.
  unfold set_final. cbn [List.length]. apply le_n_S.
  induction fs as [|x r IH]; [apply le_n|]. cbn [filter List.length]. destruct (negb _); cbn [List.length]; lia.
Qed.

Lemma work_finals_length : forall f w w', work f w = Emitter.Ok w' ->
  (List.length (finals w') <= List.length (finals w) + f)%nat.
Proof.
  induction f as [|f IH]; intros w w' H; [discriminate H|]. rewrite work_S in H.
  destruct (wstep w) as [|fin news c' nt| |]; try discriminate H.
  - inversion H; subst. lia.
  - apply IH in H. unfold wnext in H. cbn [finals] in H. pose proof (set_final_length (finals w) fin). lia.
Qed.

(* every chunk graph the emitter builds has at most work_fuel = 10000 chunks *)
Theorem graph_size body w : emit_graph body = Emitter.Ok w -> (Z.of_nat (List.length (finals w)) <= 10 ^ 40)%Z.
Proof.
  unfold emit_graph. intros H. apply work_finals_length in H. cbn [finals List.length] in H.
  apply Z.le_trans with (Z.of_nat work_fuel); [apply Nat2Z.inj_le; exact H|].
  intros X. vm_compute in X. discriminate X.
Qed.

(* ================================================================================================================== *)
(* PART 1: one script - its labels, its generated references, its end (no hypothesis on names)                         *)
(* ================================================================================================================== *)
(* the code ends with return / end / goto followed by the blank line that separates it from what follows *)
Definition ends_in_terminator (code : list instr) : Prop :=
  exists body term, code = body ++ [term; IBlank] /\ (term = IReturn \/ term = IEnd \/ exists l, term = IGoto l).

Lemma ends_in_terminator_closed code : ends_in_terminator code -> closed code.
Proof.
  intros (body & term & E & T). exists body, term, [IBlank]. split; [exact E|]. split; [|reflexivity].
  destruct T as [->|[->|(l & ->)]]; reflexivity.
Qed.

Lemma gof_regs' name d next m1 y : In y (Datatypes.snd (Datatypes.fst (goto_or_fall name d next m1))) -> y = d /\ (m1 = true -> d <> (-1)%Z).
Proof.
  unfold goto_or_fall. destruct m1; cbn [andb].
  - destruct (Z.eqb_spec d (-1)); [intros []|]. destruct (d =? next)%Z; [intros []|]. cbn. intros [<-|[]]. split; [reflexivity|intros _; assumption].
  - destruct (d =? next)%Z; [intros []|]. cbn. intros [<-|[]]. split; [reflexivity|discriminate].
Qed.

Lemma gof_term' name d nx m1 x rg : goto_or_fall name d nx m1 = (x, rg, false) ->
  exists term, x = [term] /\ (term = IReturn \/ term = IEnd \/ exists l, term = IGoto l).
Proof.
  unfold goto_or_fall. destruct (m1 && (d =? -1)%Z); [intros H; inversion H; subst; eexists; split; [reflexivity|auto]|].
  destruct (d =? nx)%Z; [discriminate|]. intros H; inversion H; subst; eexists; split; [reflexivity|]. right. right. eauto.
Qed.

(* a chunk that does not fall through ends with return / end / goto *)
Lemma render_branch_term' mp name c nx b rg : render_branch mp name c nx = (b, rg, false) ->
  exists b0 term, b = b0 ++ [term] /\ (term = IReturn \/ term = IEnd \/ exists l, term = IGoto l).
Proof.
  unfold render_branch. destruct (cbr c) as [[d|d|l tr fa|op ol cases dd dest]|].
  - intros H. destruct (gof_term' _ _ _ _ _ _ H) as (tm & -> & T). exists [], tm. auto.
  - intros H. destruct (gof_term' _ _ _ _ _ _ H) as (tm & -> & T). exists [], tm. auto.
  - destruct (goto_or_fall name fa nx true) as [[x regs] fall] eqn:E. intros H. inversion H; subst.
    destruct (gof_term' _ _ _ _ _ _ E) as (tm & -> & T). eexists _, tm. split; [|exact T]. rewrite !app_assoc. reflexivity.
  - destruct dd as [dd|].
    + destruct (dd =? nx)%Z; [discriminate|]. intros H; inversion H; subst. eexists _, _. split; [rewrite !app_assoc; reflexivity|]. right. right. eauto.
    + destruct (dest =? nx)%Z; [discriminate|]. destruct (dest =? -1)%Z; intros H; inversion H; subst;
        (eexists _, _; split; [rewrite !app_assoc; reflexivity|]); [left; reflexivity|right; right; eauto].
  - destruct (cret c =? -1)%Z.
    + intros H; inversion H; subst. exists [], (if cend c then IEnd else IReturn). split; [reflexivity|]. destruct (cend c); auto.
    + destruct (cret c =? nx)%Z; [discriminate|]. intros H; inversion H; subst. exists [], (IGoto (lbl name (cret c))). split; [reflexivity|]. right. right. eauto.
Qed.

Lemma all_regs_in_chunk mp name G : forall order nx y, In y (all_regs mp name G order nx) ->
  exists c nx', In c G /\ In y (Datatypes.snd (Datatypes.fst (render_branch mp name c nx'))).
Proof.
  induction order as [|i r IH]; intros nx y H; cbn [all_regs] in H; [destruct H|]. apply in_app_or in H. destruct H as [H|H]; [|eapply IH; exact H].
  destruct (get_chunk G i) as [c|] eqn:E; [|destruct H]. exists c, (hd nx r). split; [eapply EmitProps.get_chunk_in; exact E|exact H].
Qed.

Local Opaque emit_graph order_of emit_script.
Section SCRIPT1.
Variable mp : option text.
Variable tl : list text.
Variable name : text.
Variable glob : bool.
Variable body : list stmt.
Variable w : wst.
Hypothesis HW : emit_graph body = Emitter.Ok w.
Hypothesis HS : src_ok body.
Let G := finals w.

(* every chunk id registered as a jump target is a chunk of the graph, and never chunk 0 *)
Lemma regs_real c nx y : In c G -> In y (Datatypes.snd (Datatypes.fst (render_branch mp name c nx))) -> (0 < y)%Z /\ In y (map cid G).
Proof.
  intros Hc Hy. destruct (final_graph_shape body w HW HS) as (_ & _ & ST & TG & _). fold G in ST, TG.
  assert (S1 : forall d, In d (stargets c) -> (0 < d)%Z /\ In d (map cid G)) by (intros d Hd; exact (ST c Hc d Hd)).
  assert (T1 : forall d, In d (targets c) -> d <> (-1)%Z -> (0 < d)%Z /\ In d (map cid G)).
  { intros d Hd N. destruct (TG c Hc d Hd) as [Q|Q]; [contradiction|exact Q]. }
  unfold render_branch in Hy. unfold stargets in S1. unfold targets in T1.
  destruct (cbr c) as [[d|d|l tr fa|op ol cases dd dest]|].
  - apply gof_regs' in Hy. destruct Hy as [-> _]. apply S1. now left.
  - apply gof_regs' in Hy. destruct Hy as [-> N]. apply T1; [now left|auto].
  - destruct (goto_or_fall name fa nx true) as [[x regs] fall] eqn:E. cbn in Hy. destruct Hy as [<-|Hy]; [apply S1; now left|].
    assert (Hy' : In y (Datatypes.snd (Datatypes.fst (goto_or_fall name fa nx true)))) by (rewrite E; exact Hy).
    apply gof_regs' in Hy'. destruct Hy' as [-> N]. apply T1; [right; now left|auto].
  - assert (CS : forall y, In y (map (fun '(_, _, d) => d) cases) -> In y (map (fun x : text * Z * Z => Datatypes.snd x) cases)).
    { intros z Hz. rewrite in_map_iff in *. destruct Hz as ([[v vl] d0] & <- & Hx). exists (v, vl, d0). auto. }
    destruct dd as [dd|].
    + destruct (dd =? nx)%Z; cbn in Hy.
      * apply S1. apply in_or_app. left. apply CS. exact Hy.
      * apply in_app_or in Hy. apply S1. apply in_or_app. destruct Hy as [Hy|Hy]; [left; apply CS; exact Hy|right; exact Hy].
    + destruct (dest =? nx)%Z; [|destruct (Z.eqb_spec dest (-1))]; cbn in Hy.
      * apply S1. rewrite app_nil_r. apply CS. exact Hy.
      * apply S1. rewrite app_nil_r. apply CS. exact Hy.
      * apply in_app_or in Hy. destruct Hy as [Hy|[<-|[]]]; [apply S1; rewrite app_nil_r; apply CS; exact Hy|].
        apply T1; [apply in_or_app; right; now left|assumption].
  - destruct (Z.eqb_spec (cret c) (-1)); [destruct Hy|]. destruct (cret c =? nx)%Z; [destruct Hy|]. cbn in Hy. destruct Hy as [<-|[]].
    apply T1; [now left|assumption].
Qed.

(* GENERATED REFERENCES RESOLVE INSIDE THE SCRIPT: the label of every generated goto / conditional goto / case line of the
   code of a script is defined in that code *)
Theorem script_targets_defined opt code :
  emit_script mp tl name glob opt body = Emitter.Ok code ->
  forall l, In l (targets_of code) -> In l (lnames code).
Proof.
  intros H l Hl. destruct (script_code mp tl name glob body w HW opt code H) as (_ & C & T). fold G in C, T.
  set (regs := all_regs mp name G (order_of opt G) (-1)) in *.
  rewrite T in Hl. apply in_map_iff in Hl. destruct Hl as (r & <- & Hr).
  destruct (all_regs_in_chunk _ _ _ _ _ _ Hr) as (c & nx' & Hc & Hy). destruct (regs_real c nx' r Hc Hy) as [P I].
  assert (IO : In r (order_of opt G)) by (apply (Permutation_in _ (Permutation_sym (G_order_perm body w HW HS opt))); exact I).
  destruct (G_order_chunk body w HW HS opt r IO) as (cr & GC & _).
  assert (X : In (ILabel (lbl name r) false) code).
  { rewrite C. eapply labelpart_in_blocks; [exact IO|exact GC|]. unfold labelpart.
    destruct (Z.eqb_spec r 0) as [Z0|_]; [lia|]. fold regs. apply zmem_in in Hr. rewrite Hr. now left. }
  unfold lnames, labels_of. apply in_map_iff. exists (lbl name r, false). split; [reflexivity|]. apply in_flat_map. exists (ILabel (lbl name r) false). split; [exact X|now left].
Qed.

(* NO RUN-OFF: the code of the script ends with return / end / goto and a blank line *)
Theorem script_ends_in_terminator opt code :
  emit_script mp tl name glob opt body = Emitter.Ok code -> ends_in_terminator code.
Proof.
  intros H. destruct (script_code mp tl name glob body w HW opt code H) as (_ & C & _). fold G in C.
  pose proof (G_order_zero body w HW HS opt) as Z0. fold G in Z0.
  destruct (rev (order_of opt G)) as [|d rv] eqn:RV.
  { exfalso. assert (E : order_of opt G = []) by (rewrite <- (rev_involutive (order_of opt G)), RV; reflexivity). rewrite E in Z0. destruct Z0. }
  assert (ORD : order_of opt G = rev rv ++ [d]) by (rewrite <- (rev_involutive (order_of opt G)), RV; reflexivity).
  assert (Hd : In d (order_of opt G)) by (rewrite ORD; apply in_or_app; right; now left).
  destruct (G_order_chunk body w HW HS opt d Hd) as (c & GC & _). fold G in GC.
  pose proof (last_no_fall mp name body w HW HS opt (rev rv) d c ORD GC) as NF.
  rewrite ORD, blocks_app in C. cbn [blocks hd] in C. unfold block_of in C. rewrite GC in C. unfold RenderSim.body_of in C.
  destruct (render_branch mp name c (-1)%Z) as [[b rg] fall] eqn:RB. cbn [Datatypes.snd] in NF. subst fall. cbv beta iota in C.
  destruct (render_branch_term' _ _ _ _ _ _ RB) as (b0 & tm & -> & T).
  exists (blocks mp name glob G (all_regs mp name G (rev rv ++ [d]) (-1)) (rev rv) d ++
          labelpart name glob (all_regs mp name G (rev rv ++ [d]) (-1)) d ++ flat_map (render_stmt mp) (cstmts c) ++ b0), tm.
  split; [|exact T]. rewrite C, app_nil_r, <- !app_assoc. reflexivity.
Qed.

(* THE LABELS OF THE SCRIPT: its name, every label statement of the body (any depth, as often as written), and generated
   labels name_i for pairwise distinct chunk numbers 0 < i < 10^40, each of them the target of a generated jump of the code *)
Theorem script_label_names opt code :
  emit_script mp tl name glob opt body = Emitter.Ok code ->
  exists gen : list Z,
    Permutation (lnames code) (name :: dlabs body ++ map (lbl name) gen) /\ NoDup gen /\
    forall i, In i gen -> (0 < i < 10 ^ 40)%Z /\ In (lbl name i) (targets_of code).
Proof.
  intros H. destruct (script_labels mp tl name glob body w HW HS opt code H) as (gen & P & ND & R).
  exists gen. split; [|split; [exact ND|]].
  - unfold lnames. apply (Permutation_map Datatypes.fst) in P. cbn [map] in P. rewrite map_app, slabs_names, map_map in P. exact P.
  - intros i Hi. destruct (R i Hi) as [B T]. split; [|exact T]. pose proof (graph_size body w HW). lia.
Qed.
End SCRIPT1.

(* ================================================================================================================== *)
(* PART 2: the label definitions and the generated references of the whole program                                     *)
(* ================================================================================================================== *)
(* ---------- data pieces: what a per-instruction collector (labels, jump targets) finds in them ---------- *)
Section DATA.
Variable X : Type.
Variable h : instr -> list X.
Hypothesis h_marker : forall l, h (IMarker l) = [].
Hypothesis h_line : forall s, h (ILine s) = [].
Hypothesis h_blank : h IBlank = [].
Hypothesis h_data : forall d c, h (IData d c) = [].
Variable mp : option text.
Notation F := (flat_map h).

Lemma F_marker l : F (marker mp l) = [].
Proof. unfold marker. destruct mp; cbn [flat_map]; rewrite ?h_marker; reflexivity. Qed.
Lemma F_raw_lines : forall lines ln, F (emit_raw_lines mp lines ln) = [].
Proof. induction lines as [|l r IH]; intros ln; cbn [emit_raw_lines]; [reflexivity|]. rewrite !flat_map_app, F_marker, IH. cbn [flat_map]. now rewrite h_line. Qed.
Lemma F_raw v ln : F (emit_raw mp v ln) = [].
Proof. apply F_raw_lines. Qed.
Lemma F_steps : forall steps, F (emit_steps mp steps) = [].
Proof.
  induction steps as [|s r IH]; cbn [emit_steps]; [cbn [flat_map]; now rewrite h_line|].
  rewrite !flat_map_app, F_marker. cbn [flat_map]. rewrite h_line. destruct (text_eqb _ _); [reflexivity|exact IH].
Qed.
Lemma F_movement n g tk steps : F (emit_movement mp n g tk steps) = h (ILabel n g).
Proof. unfold emit_movement. rewrite !flat_map_app, F_marker, F_steps. cbn [flat_map app]. now rewrite !app_nil_r. Qed.
Lemma F_items : forall items itoks, F (emit_items mp items itoks) = [].
Proof.
  induction items as [|i r IH]; intros [|tk rt]; cbn [emit_items]; try reflexivity.
  destruct (text_eqb _ _); [reflexivity|]. rewrite !flat_map_app, F_marker, IH. cbn [flat_map]. now rewrite h_line.
Qed.
Lemma F_mart n g tk items itoks : F (emit_mart mp n g tk items itoks) = h (ILabel n g).
Proof. unfold emit_mart. rewrite !flat_map_app, F_marker, F_items. cbn [flat_map app]. now rewrite !h_line, !app_nil_r. Qed.
Lemma F_lines {A} (mk : A -> Z) (ln : A -> text) : forall l, F (flat_map (fun a => marker mp (mk a) ++ [ILine (ln a)]) l) = [].
Proof. induction l as [|a r IH]; [reflexivity|]. cbn [flat_map]. rewrite !flat_map_app, F_marker, IH. cbn [flat_map]. now rewrite h_line. Qed.
Lemma F_mshead n g plain tables : F (mapscripts_head mp n g plain tables) = h (ILabel n g).
Proof.
  unfold mapscripts_head. rewrite !flat_map_app.
  rewrite (F_lines (fun m => tline (msType m)) (fun m => tab ++ t "map_script " ++ tlit (msType m) ++ t ", " ++ msName m)).
  rewrite (F_lines (fun tb => tline (tmType tb)) (fun tb => tab ++ t "map_script " ++ tlit (tmType tb) ++ t ", " ++ tmName tb)).
  cbn [flat_map app]. now rewrite h_line, h_blank, !app_nil_r.
Qed.
Lemma F_thead tb : F (table_head mp tb) = h (ILabel (tmName tb) false).
Proof.
  unfold table_head. rewrite !flat_map_app.
  rewrite (F_lines (fun e => tline (teCond e)) (fun e => tab ++ t "map_script_2 " ++ teCondLit e ++ t ", " ++ teCmp e ++ t ", " ++ teName e)).
  cbn [flat_map app]. now rewrite h_line, h_blank, !app_nil_r.
Qed.
Lemma F_text x : F (emit_text mp x) = h (ILabel (xname x) (xglob x)).
Proof.
  unfold emit_text. rewrite !flat_map_app, F_marker. cbn [flat_map app]. rewrite app_nil_r.
  assert (Q : forall d l, F (map (fun line => IData d line) l) = []).
  { intros d l. induction l as [|a r IH]; [reflexivity|]. cbn [map flat_map]. now rewrite h_data, IH. }
  rewrite Q. now rewrite app_nil_r.
Qed.
Lemma F_texts : forall l k, F (emit_texts mp l k) = flat_map (fun x => h (ILabel (xname x) (xglob x))) l.
Proof.
  induction l as [|x r IH]; intros k; [reflexivity|]. cbn [emit_texts flat_map]. rewrite !flat_map_app, F_text, IH.
  destruct k; cbn [flat_map app]; [reflexivity|]. now rewrite h_blank.
Qed.

(* the label lines of a top-level statement outside script code *)
Definition top_label_instrs (tp : top) : list instr :=
  match tp with
  | TMovement n g _ _ => [ILabel n g]
  | TMart n g _ _ _ => [ILabel n g]
  | TMapScripts n g _ tables => ILabel n g :: map (fun tb => ILabel (tmName tb) false) tables
  | _ => []
  end.

Definition pdF (pc : OptimSame.piece) : list X := match pc with PData is => F is | PScript _ _ _ => [] end.

Lemma pdF_scripts l : flat_map pdF (scripts_pieces l) = [].
Proof. induction l as [|[n [b|]] r IH]; [reflexivity| |exact IH]. unfold scripts_pieces. cbn [flat_map Datatypes.snd Datatypes.fst app pdF]. exact IH. Qed.

Lemma pdF_tables : forall tables, flat_map pdF (tables_pieces mp tables) = F (map (fun tb => ILabel (tmName tb) false) tables).
Proof.
  induction tables as [|tb r IH]; [reflexivity|]. cbn [tables_pieces flat_map map]. fold (tables_pieces mp r).
  rewrite flat_map_app, IH. change (PData ?x :: ?l) with ([PData x] ++ l). rewrite flat_map_app, pdF_scripts, app_nil_r.
  cbn [flat_map pdF]. now rewrite F_thead, app_nil_r.
Qed.

Lemma pdF_top tp : flat_map pdF (match top_pieces mp tp with Some ps => ps | None => [] end) = F (top_label_instrs tp).
Proof.
  destruct tp as [n g b|v ln| |n g tk steps|n g tk items itoks|n g plain tables]; cbn [top_pieces top_label_instrs flat_map pdF app]; try reflexivity.
  - now rewrite F_raw.
  - now rewrite F_movement, !app_nil_r.
  - now rewrite F_mart, !app_nil_r.
  - rewrite flat_map_app, pdF_scripts, pdF_tables, F_mshead. reflexivity.
Qed.

Lemma pdF_tops : forall l i, flat_map pdF (Datatypes.fst (tops_pieces mp l i)) = F (flat_map top_label_instrs l).
Proof.
  induction l as [|tp r IH]; intros i; [reflexivity|]. cbn [tops_pieces flat_map]. rewrite flat_map_app, <- (pdF_top tp).
  destruct (top_pieces mp tp) as [ps|]; [|cbn [flat_map app]; apply IH].
  specialize (IH (S i)). destruct (tops_pieces mp r (S i)) as [rest n]. cbn [Datatypes.fst] in *.
  rewrite !flat_map_app, IH. destruct i; cbn [flat_map pdF app]; [reflexivity|]. now rewrite h_blank.
Qed.

Lemma pdF_program p :
  flat_map pdF (program_pieces mp p) = F (flat_map top_label_instrs (tops p)) ++ flat_map (fun x => h (ILabel (xname x) (xglob x))) (texts p).
Proof.
  unfold program_pieces. pose proof (pdF_tops (tops p) 0) as H. destruct (tops_pieces mp (tops p) 0) as [ps n]. cbn [Datatypes.fst] in H.
  rewrite flat_map_app, H. cbn [flat_map pdF]. now rewrite F_texts, app_nil_r.
Qed.

End DATA.

(* the pieces put together: data pieces as they are, script pieces by their codes *)
Lemma assembled mp tl opt : forall ps codes, Forall2 (realizes mp tl opt) ps codes ->
  exists scodes, Forall2 (fun s code => script_result mp tl opt s = Emitter.Ok code) (piece_scripts ps) scodes /\
    forall X (h : instr -> list X), Permutation (flat_map h (List.concat codes)) (flat_map (pdF X h) ps ++ flat_map (flat_map h) scodes).
Proof.
  induction 1 as [|pc code ps codes R _ (scodes & FS & P)].
  - exists []. split; [constructor|reflexivity].
  - destruct pc as [is|n g b]; cbn [realizes] in R; cbn [List.concat].
    + subst code. exists scodes. split; [exact FS|]. intros X h. rewrite flat_map_app. cbn [flat_map pdF]. rewrite <- app_assoc. apply Permutation_app_head. apply P.
    + exists (code :: scodes). split; [constructor; [exact R|exact FS]|]. intros X h. rewrite flat_map_app. cbn [flat_map pdF app].
      etransitivity; [apply Permutation_app_head; apply P|]. rewrite !app_assoc. apply Permutation_app_tail. apply Permutation_app_comm.
Qed.

(* ---------- the two collectors ---------- *)
Definition hname (i : instr) : list text := match i with ILabel n _ => [n] | _ => [] end.
Definition htarget (i : instr) : list text :=
  match i with IGoto l | IGotoIfSet _ l | IGotoIfUnset _ l | IGotoIfCmp _ l | IGotoIf _ l | ICase _ l => [l] | _ => [] end.
Lemma lnames_hname is : lnames is = flat_map hname is.
Proof. induction is as [|i r IH]; [reflexivity|]. change (i :: r) with ([i] ++ r). rewrite lnames_app, flat_map_app, IH. destruct i; reflexivity. Qed.
Lemma targets_htarget is : targets_of is = flat_map htarget is.
Proof. reflexivity. Qed.

(* ---------- names ---------- *)
Definition script_name (s : NameClash.script) : text := Datatypes.fst (Datatypes.fst s).
Definition script_body (s : NameClash.script) : list stmt := Datatypes.snd s.

(* the names defined outside script code: movements (statements and hoisted moves()), marts, mapscripts headers, mapscripts
   tables; then the texts (hoisted and statements) *)
Definition top_data_names (tp : top) : list text :=
  match tp with
  | TMovement n _ _ _ => [n]
  | TMart n _ _ _ _ => [n]
  | TMapScripts n _ _ tables => n :: map tmName tables
  | _ => []
  end.
Definition data_names (p : program) : list text := flat_map top_data_names (tops p) ++ map xname (texts p).

Lemma top_data_names_eq tp : flat_map hname (top_label_instrs tp) = top_data_names tp.
Proof.
  destruct tp as [n g b|v ln| |n g tk steps|n g tk items itoks|n g plain tables]; try reflexivity.
  cbn [top_label_instrs top_data_names flat_map hname app]. f_equal. induction tables as [|tb r IH]; [reflexivity|]. cbn [map flat_map hname app]. now rewrite IH.
Qed.
Lemma data_names_eq p :
  flat_map hname (flat_map top_label_instrs (tops p)) ++ flat_map (fun x => hname (ILabel (xname x) (xglob x))) (texts p) = data_names p.
Proof.
  unfold data_names.
  assert (A : forall l, flat_map hname (flat_map top_label_instrs l) = flat_map top_data_names l).
  { induction l as [|tp r IH]; [reflexivity|]. cbn [flat_map]. now rewrite flat_map_app, IH, top_data_names_eq. }
  assert (B : forall l, flat_map (fun x => hname (ILabel (xname x) (xglob x))) l = map xname l).
  { induction l as [|x r IH]; [reflexivity|]. cbn [flat_map map]. rewrite IH. reflexivity. }
  now rewrite A, B.
Qed.
Lemma no_data_targets p :
  flat_map htarget (flat_map top_label_instrs (tops p)) ++ flat_map (fun x => htarget (ILabel (xname x) (xglob x))) (texts p) = [].
Proof.
  assert (A : flat_map htarget (flat_map top_label_instrs (tops p)) = []).
  { induction (tops p) as [|tp r IH]; [reflexivity|]. cbn [flat_map]. rewrite flat_map_app, IH, app_nil_r.
    destruct tp as [n g b|v ln| |n g tk steps|n g tk items itoks|n g plain tables]; try reflexivity.
    cbn [top_label_instrs flat_map htarget app]. induction tables as [|tb q IH']; [reflexivity|]. cbn [map flat_map htarget app]. exact IH'. }
  rewrite A. cbn [app]. induction (texts p) as [|x r IH]; [reflexivity|]. cbn [flat_map htarget app]. exact IH.
Qed.

(* ---------- the parts of a program: each script with its code and its generated chunk numbers ---------- *)
Definition part : Type := (NameClash.script * list instr * list Z)%type.
Definition p_script (x : part) : NameClash.script := Datatypes.fst (Datatypes.fst x).
Definition p_code (x : part) : list instr := Datatypes.snd (Datatypes.fst x).
Definition p_gen (x : part) : list Z := Datatypes.snd x.

(* the labels a script contributes: its name, the labels the author wrote in its body, its generated labels *)
Definition own_names (x : part) : list text :=
  script_name (p_script x) :: dlabs (script_body (p_script x)) ++ map (lbl (script_name (p_script x))) (p_gen x).

Definition part_ok (mp : option text) (tl : list text) (opt : bool) (x : part) : Prop :=
  script_result mp tl opt (p_script x) = Emitter.Ok (p_code x) /\
  Permutation (lnames (p_code x)) (own_names x) /\
  NoDup (p_gen x) /\
  (forall i, In i (p_gen x) -> (0 < i < 10 ^ 40)%Z /\ In (lbl (script_name (p_script x)) i) (targets_of (p_code x))) /\
  (forall l, In l (targets_of (p_code x)) -> In l (lnames (p_code x))) /\
  ends_in_terminator (p_code x).

Lemma emit_script_graph mp tl name glob opt body code :
  emit_script mp tl name glob opt body = Emitter.Ok code -> exists w, emit_graph body = Emitter.Ok w.
Proof. rewrite emit_script_eq. destruct (emit_graph body) as [w| | | |]; try discriminate. eauto. Qed.

Lemma parts_exist mp tl opt : forall ss scodes,
  Forall (fun s : NameClash.script => src_ok (Datatypes.snd s)) ss ->
  Forall2 (fun s code => script_result mp tl opt s = Emitter.Ok code) ss scodes ->
  exists parts, map p_script parts = ss /\ map p_code parts = scodes /\ Forall (part_ok mp tl opt) parts.
Proof.
  intros ss scodes SO F2. induction F2 as [|s code ss scodes R _ IH].
  - exists []. split; [reflexivity|]. split; [reflexivity|constructor].
  - inversion SO as [|? ? S1 S2]; subst. destruct (IH S2) as (parts & E1 & E2 & FP).
    destruct s as [[n g] b]. unfold script_result in R. cbn [Datatypes.fst Datatypes.snd] in R, S1.
    destruct (emit_script_graph _ _ _ _ _ _ _ R) as (w & HW).
    destruct (script_label_names mp tl n g b w HW S1 opt code R) as (gen & P & ND & GT).
    exists ((n, g, b, code, gen) :: parts). split; [cbn [map]; now rewrite E1|]. split; [cbn [map]; now rewrite E2|].
    constructor; [|exact FP]. unfold part_ok, own_names, p_script, p_code, p_gen, script_name, script_body, script_result. cbn [Datatypes.fst Datatypes.snd].
    split; [exact R|]. split; [exact P|]. split; [exact ND|]. split; [exact GT|].
    split; [exact (script_targets_defined mp tl n g b w HW S1 opt code R)|exact (script_ends_in_terminator mp tl n g b w HW S1 opt code R)].
Qed.

Lemma Permutation_flat_map_pointwise {A B} (f g : A -> list B) : forall l,
  Forall (fun x => Permutation (f x) (g x)) l -> Permutation (flat_map f l) (flat_map g l).
Proof. induction 1 as [|x l P _ IH]; [reflexivity|]. cbn [flat_map]. apply Permutation_app; assumption. Qed.

Lemma flat_map_map' {A B C} (f : A -> B) (g : B -> list C) l : flat_map g (map f l) = flat_map (fun x => g (f x)) l.
Proof. induction l as [|x r IH]; [reflexivity|]. cbn [map flat_map]. now rewrite IH. Qed.

(* THEOREM (label definitions and generated references of the program).  For every program whose script bodies pass the source
   check (every accepted program) and that is emitted: there is, for each script of the program in emission order (script
   statements and inline map scripts, NameClash.scripts_of), its code and a duplicate-free list of chunk numbers such that
   - the code is the result of emit_script for it and has the properties part_ok (labels = name + author's labels + generated
     labels, every generated label is a jump target, every jump target is a label of the code, the code ends in a terminator);
   - the label definitions of the WHOLE list are, as a multiset: one per movement, mart, mapscripts header, mapscripts table and
     text (data_names), plus the labels of each script;
   - the generated references (goto / conditional goto / case lines) of the WHOLE list are those of the scripts' codes. *)
Theorem program_parts opt mp p prog :
  Forall src_ok (bodies_of (tops p)) ->
  emit_program_instrs opt mp p = Emitter.Ok prog ->
  exists parts : list part,
    map p_script parts = scripts_of (tops p) /\
    Forall (part_ok mp (map xname (texts p)) opt) parts /\
    Permutation (lnames prog) (data_names p ++ flat_map own_names parts) /\
    Permutation (targets_of prog) (flat_map (fun x => targets_of (p_code x)) parts).
Proof.
  intros SO H. apply program_layout in H. destruct H as (codes & F2 & ->).
  destruct (assembled _ _ _ _ _ F2) as (scodes & FS & P). rewrite program_pieces_scripts in FS.
  destruct (parts_exist _ _ _ _ _ (src_ok_scripts _ SO) FS) as (parts & E1 & E2 & FP).
  exists parts. split; [exact E1|]. split; [exact FP|]. split.
  - rewrite lnames_hname. etransitivity; [apply (P _ hname)|].
    rewrite (pdF_program _ hname (fun _ => eq_refl) (fun _ => eq_refl) eq_refl (fun _ _ => eq_refl)), data_names_eq.
    apply Permutation_app_head. rewrite <- E2, flat_map_map'. apply Permutation_flat_map_pointwise.
    rewrite Forall_forall in *. intros x Hx. destruct (FP x Hx) as (_ & Q & _). rewrite <- lnames_hname. exact Q.
  - rewrite targets_htarget. etransitivity; [apply (P _ htarget)|].
    rewrite (pdF_program _ htarget (fun _ => eq_refl) (fun _ => eq_refl) eq_refl (fun _ _ => eq_refl)), no_data_targets. cbn [app].
    rewrite <- E2, flat_map_map'. reflexivity.
Qed.

(* ================================================================================================================== *)
(* PART 3: the executable condition on names, and distinctness of all labels of the program                            *)
(* ================================================================================================================== *)
(* ---------- reading a name as  <script>_<digits> ---------- *)
Fixpoint strip_prefix (pre x : text) : option text :=
  match pre with
  | [] => Some x
  | a :: pre' => match x with b :: y => if N.eqb a b then strip_prefix pre' y else None | [] => None end
  end.
Definition digitb (c : N) : bool := (48 <=? c)%N && (c <=? 57)%N.
(* x is s, an underscore, and a non-empty string of decimal digits: the shape of the chunk labels of a script named s *)
Definition imitates (s x : text) : bool :=
  match strip_prefix (s ++ t "_") x with Some (d :: ds) => forallb digitb (d :: ds) | _ => false end.

Lemma strip_prefix_app pre x : strip_prefix pre (pre ++ x) = Some x.
Proof. induction pre as [|a r IH]; [reflexivity|]. cbn [app strip_prefix]. now rewrite N.eqb_refl. Qed.

Lemma strip_prefix_some pre : forall x y, strip_prefix pre x = Some y -> x = pre ++ y.
Proof.
  induction pre as [|a r IH]; intros x y H; cbn [strip_prefix] in H; [inversion H; reflexivity|].
  destruct x as [|b x]; [discriminate|]. destruct (N.eqb_spec a b) as [->|]; [|discriminate]. cbn [app]. f_equal. apply IH. exact H.
Qed.

Lemma digitb_iff c : digitb c = true <-> NameClash.is_digit c.
Proof. unfold digitb, NameClash.is_digit. rewrite andb_true_iff, !N.leb_le. tauto. Qed.

Lemma decZ_digits i : (0 <= i)%Z -> Forall NameClash.is_digit (decZ i).
Proof. intros H. rewrite decZ_nonneg by exact H. rewrite <- nat_text_dec. apply NameClash.nat_text_digits. Qed.

(* the chunk labels of a script do read so *)
Lemma imitates_lbl s i : (0 <= i)%Z -> imitates s (lbl s i) = true.
Proof.
  intros H. unfold imitates, lbl. rewrite app_assoc, strip_prefix_app.
  pose proof (decZ_nonempty i H) as NE. pose proof (decZ_digits i H) as D. destruct (decZ i) as [|d ds]; [congruence|].
  apply forallb_forall. intros c Hc. apply digitb_iff. rewrite Forall_forall in D. exact (D c Hc).
Qed.

(* the reading is what it says *)
Lemma imitates_spec s x : imitates s x = true <-> exists ds, x = s ++ t "_" ++ ds /\ ds <> [] /\ Forall NameClash.is_digit ds.
Proof.
  unfold imitates. split.
  - destruct (strip_prefix (s ++ t "_") x) as [[|d ds]|] eqn:E; try discriminate. intros H. apply strip_prefix_some in E.
    exists (d :: ds). split; [now rewrite E, <- app_assoc|]. split; [discriminate|].
    rewrite forallb_forall in H. apply Forall_forall. intros c Hc. apply digitb_iff. exact (H c Hc).
  - intros (ds & -> & NE & D). rewrite app_assoc, strip_prefix_app. destruct ds as [|d ds]; [congruence|].
    apply forallb_forall. intros c Hc. apply digitb_iff. rewrite Forall_forall in D. exact (D c Hc).
Qed.

(* generated labels of different scripts: the script name can be read back *)
Lemma lbl_script_inj s s' i j : (0 <= i)%Z -> (0 <= j)%Z -> lbl s i = lbl s' j -> s = s'.
Proof.
  intros Hi Hj E. unfold lbl in E.
  destruct (gen_name_inj [] s s' (decZ i) (decZ j) (decZ_digits i Hi) (decZ_digits j Hj) E) as [A _]. exact A.
Qed.

(* ---------- the names of a program ---------- *)
(* what a script brings that the author chose: its name and the labels written in its body, at any depth *)
Definition author_names (s : NameClash.script) : list text := script_name s :: dlabs (script_body s).
(* every name that becomes a label of the output and is not a generated chunk label *)
Definition all_names (p : program) : list text := data_names p ++ flat_map author_names (scripts_of (tops p)).
Definition script_names (p : program) : list text := map script_name (scripts_of (tops p)).

(* THE CONDITION ON NAMES (executable, a function of the parsed program):
   - the names of movements, marts, mapscripts headers, mapscripts tables, texts, scripts (script statements and inline map
     scripts) and the labels written inside script bodies are pairwise distinct;
   - none of them reads as  <name of a script of the program>_<digits>  (the shape of that script's chunk labels). *)
Definition names_ok (p : program) : bool :=
  nodupt (all_names p) &&
  forallb (fun x => forallb (fun s => negb (imitates s x)) (script_names p)) (all_names p).

Lemma names_ok_spec p : names_ok p = true ->
  NoDup (all_names p) /\ forall x s, In x (all_names p) -> In s (script_names p) -> imitates s x = false.
Proof.
  unfold names_ok. intros H. apply andb_prop in H. destruct H as [H1 H2]. split; [apply nodupt_sound; exact H1|].
  intros x s Hx Hs. rewrite forallb_forall in H2. specialize (H2 x Hx). rewrite forallb_forall in H2. specialize (H2 s Hs).
  now apply negb_true_iff in H2.
Qed.

(* ---------- duplicate-free lists ---------- *)
Lemma nodup_heads {A B} (hd : A -> B) (tl : A -> list B) : forall l, NoDup (flat_map (fun x => hd x :: tl x) l) -> NoDup (map hd l).
Proof.
  induction l as [|x r IH]; cbn [flat_map map app]; intros H; [constructor|]. inversion H as [|? ? N1 N2]; subst.
  constructor; [|apply IH; exact (nodup_app_r _ _ N2)].
  intros X. apply N1. apply in_or_app. right. apply in_map_iff in X. destruct X as (y & E & Hy).
  apply in_flat_map. exists y. split; [exact Hy|]. left. exact E.
Qed.

Lemma nodup_map_on {A B} (f : A -> B) : forall l, (forall a b, In a l -> In b l -> f a = f b -> a = b) -> NoDup l -> NoDup (map f l).
Proof.
  induction l as [|x r IH]; intros INJ ND; cbn [map]; [constructor|]. inversion ND as [|? ? N1 N2]; subst.
  constructor; [|apply IH; [intros a b Ha Hb; apply INJ; now right|exact N2]].
  intros X. apply in_map_iff in X. destruct X as (y & E & Hy). apply N1. rewrite <- (INJ y x); [exact Hy|now right|now left|exact E].
Qed.

Definition gen_names (x : part) : list text := map (lbl (script_name (p_script x))) (p_gen x).
Definition gen_ok (x : part) : Prop := NoDup (p_gen x) /\ forall i, In i (p_gen x) -> (0 < i < 10 ^ 40)%Z.

(* the generated labels of scripts with pairwise distinct names are pairwise distinct *)
Lemma gen_names_nodup : forall parts, NoDup (map (fun x => script_name (p_script x)) parts) -> Forall gen_ok parts ->
  NoDup (flat_map gen_names parts).
Proof.
  induction parts as [|x r IH]; intros ND F; cbn [flat_map]; [constructor|].
  inversion ND as [|? ? N1 N2]; subst. inversion F as [|? ? [G1 G2] F']; subst.
  apply nodup_app_intro; [|apply IH; assumption|].
  - unfold gen_names. apply nodup_map_on; [|exact G1]. intros a b Ha Hb E.
    apply (lbl_inj (script_name (p_script x))); [pose proof (G2 a Ha); lia|pose proof (G2 b Hb); lia|exact E].
  - intros l Hl Hr. unfold gen_names in Hl. apply in_map_iff in Hl. destruct Hl as (i & <- & Hi).
    apply in_flat_map in Hr. destruct Hr as (y & Hy & Hr). unfold gen_names in Hr. apply in_map_iff in Hr. destruct Hr as (j & E & Hj).
    rewrite Forall_forall in F'. destruct (F' y Hy) as [_ Y2].
    assert (S : script_name (p_script y) = script_name (p_script x)).
    { apply (lbl_script_inj _ _ j i); [pose proof (Y2 j Hj); lia|pose proof (G2 i Hi); lia|exact E]. }
    apply N1. rewrite <- S. apply in_map_iff. exists y. auto.
Qed.

(* THEOREM (distinctness).  If the names of the program pass names_ok, then the list made of the data names and, for each
   script, its name, the labels of its author and its generated labels, is duplicate-free *)
Theorem names_ok_all_distinct p parts :
  names_ok p = true ->
  map p_script parts = scripts_of (tops p) -> Forall gen_ok parts ->
  NoDup (data_names p ++ flat_map own_names parts).
Proof.
  intros NK E F. destruct (names_ok_spec p NK) as [ND NI].
  assert (AUTH : flat_map (fun x => author_names (p_script x)) parts = flat_map author_names (scripts_of (tops p))).
  { rewrite <- E, flat_map_map'. reflexivity. }
  assert (P : Permutation (data_names p ++ flat_map own_names parts) (all_names p ++ flat_map gen_names parts)).
  { unfold all_names. rewrite <- AUTH, <- app_assoc. apply Permutation_app_head.
    apply (perm_flat_map_app (fun x => author_names (p_script x)) gen_names parts). }
  apply (Permutation_NoDup (Permutation_sym P)).
  assert (SN : map (fun x => script_name (p_script x)) parts = script_names p).
  { unfold script_names. rewrite <- E, map_map. reflexivity. }
  apply nodup_app_intro; [exact ND| |].
  - apply gen_names_nodup; [|exact F]. rewrite SN. unfold script_names.
    apply (nodup_heads script_name (fun s => dlabs (script_body s))). unfold all_names in ND. exact (nodup_app_r _ _ ND).
  - intros l Hl Hg. apply in_flat_map in Hg. destruct Hg as (x & Hx & Hg). unfold gen_names in Hg. apply in_map_iff in Hg.
    destruct Hg as (i & <- & Hi). rewrite Forall_forall in F. destruct (F x Hx) as [_ B]. specialize (B i Hi).
    assert (Hs : In (script_name (p_script x)) (script_names p)) by (rewrite <- SN; apply in_map_iff; exists x; auto).
    specialize (NI _ _ Hl Hs). rewrite imitates_lbl in NI by lia. discriminate NI.
Qed.

(* ================================================================================================================== *)
(* PART 4: the closedness theorems for an emitted program (hypothesis on the bodies: the source check, a theorem for    *)
(*         every accepted program - see part 7)                                                                        *)
(* ================================================================================================================== *)
Lemma part_gen_ok mp tl opt x : part_ok mp tl opt x -> gen_ok x.
Proof. intros (_ & _ & ND & GT & _). split; [exact ND|]. intros i Hi. exact (proj1 (GT i Hi)). Qed.

Lemma part_of_script (parts : list part) ss s : map p_script parts = ss -> In s ss -> exists x, In x parts /\ p_script x = s.
Proof. intros <- H. apply in_map_iff in H. destruct H as (x & E & Hx). eauto. Qed.

Lemma own_names_in_prog p prog parts x l :
  Permutation (lnames prog) (data_names p ++ flat_map own_names parts) -> In x parts -> In l (own_names x) -> In l (lnames prog).
Proof.
  intros P Hx Hl. apply (Permutation_in _ (Permutation_sym P)). apply in_or_app. right. apply in_flat_map. exists x. auto.
Qed.

(* (1) ALL LABELS OF THE PROGRAM ARE PAIRWISE DISTINCT under names_ok *)
Theorem program_labels_distinct opt mp p prog :
  Forall src_ok (bodies_of (tops p)) ->
  emit_program_instrs opt mp p = Emitter.Ok prog ->
  names_ok p = true ->
  NoDup (lnames prog).
Proof.
  intros SO H NK. destruct (program_parts opt mp p prog SO H) as (parts & E & FP & PL & _).
  apply (Permutation_NoDup (Permutation_sym PL)). apply names_ok_all_distinct; [exact NK|exact E|].
  rewrite Forall_forall in *. intros x Hx. eapply part_gen_ok. exact (FP x Hx).
Qed.

(* ... and the first half of names_ok is necessary: labels pairwise distinct only if the names are *)
Theorem distinct_labels_need_distinct_names opt mp p prog :
  Forall src_ok (bodies_of (tops p)) ->
  emit_program_instrs opt mp p = Emitter.Ok prog ->
  NoDup (lnames prog) -> NoDup (all_names p).
Proof.
  intros SO H ND. destruct (program_parts opt mp p prog SO H) as (parts & E & FP & PL & _).
  apply (Permutation_NoDup PL) in ND.
  assert (P : Permutation (data_names p ++ flat_map own_names parts) (all_names p ++ flat_map gen_names parts)).
  { unfold all_names. rewrite <- E, flat_map_map', <- app_assoc. apply Permutation_app_head.
    apply (perm_flat_map_app (fun x => author_names (p_script x)) gen_names parts). }
  apply (Permutation_NoDup P) in ND. exact (nodup_app_l _ _ ND).
Qed.

(* (2) EVERY GENERATED REFERENCE IS DEFINED: the label of every goto / goto_if_* / case line that the emitter generated, anywhere
   in the output, is defined in the output (no hypothesis on names) *)
Theorem program_generated_references_defined opt mp p prog :
  Forall src_ok (bodies_of (tops p)) ->
  emit_program_instrs opt mp p = Emitter.Ok prog ->
  forall l, In l (targets_of prog) -> In l (lnames prog).
Proof.
  intros SO H l Hl. destruct (program_parts opt mp p prog SO H) as (parts & E & FP & PL & PT).
  apply (Permutation_in _ PT) in Hl. apply in_flat_map in Hl. destruct Hl as (x & Hx & Hl).
  rewrite Forall_forall in FP. destruct (FP x Hx) as (_ & PO & _ & _ & TD & _).
  apply (own_names_in_prog p prog parts x l PL Hx). apply (Permutation_in _ PO). apply TD. exact Hl.
Qed.

Definition text_dec := Hoisting.text_dec.

Lemma count_occ_nodup_in (l : list text) x : NoDup l -> In x l -> count_occ text_dec l x = 1%nat.
Proof. intros ND H. apply NoDup_count_occ' with (decA := text_dec) in H; assumption. Qed.

(* (3) THE AUTHOR'S LABELS ARE STILL THERE: every label written in the body of a script (at any depth: inside loops, switch cases,
   after a break, in unreachable code) and the script's own name are labels of the output (no hypothesis on names) ... *)
Theorem program_author_labels_present opt mp p prog :
  Forall src_ok (bodies_of (tops p)) ->
  emit_program_instrs opt mp p = Emitter.Ok prog ->
  forall name glob body, In (name, glob, body) (scripts_of (tops p)) ->
  In name (lnames prog) /\ forall l, In l (dlabs body) -> In l (lnames prog).
Proof.
  intros SO H name glob body Hs. destruct (program_parts opt mp p prog SO H) as (parts & E & FP & PL & _).
  destruct (part_of_script parts _ _ E Hs) as (x & Hx & Ex).
  assert (O : forall l, In l (name :: dlabs body) -> In l (lnames prog)).
  { intros l Hl. apply (own_names_in_prog p prog parts x l PL Hx). unfold own_names. rewrite Ex. cbn [script_name script_body Datatypes.fst Datatypes.snd].
    destruct Hl as [<-|Hl]; [now left|right; apply in_or_app; now left]. }
  split; [apply O; now left|intros l Hl; apply O; now right].
Qed.

(* ... and under names_ok each of them is defined EXACTLY ONCE in the whole output *)
Theorem program_author_labels_once opt mp p prog :
  Forall src_ok (bodies_of (tops p)) ->
  emit_program_instrs opt mp p = Emitter.Ok prog ->
  names_ok p = true ->
  forall name glob body, In (name, glob, body) (scripts_of (tops p)) ->
  count_occ text_dec (lnames prog) name = 1%nat /\ forall l, In l (dlabs body) -> count_occ text_dec (lnames prog) l = 1%nat.
Proof.
  intros SO H NK name glob body Hs. pose proof (program_labels_distinct opt mp p prog SO H NK) as ND.
  destruct (program_author_labels_present opt mp p prog SO H name glob body Hs) as [A B].
  split; [apply count_occ_nodup_in; assumption|]. intros l Hl. apply count_occ_nodup_in; [exact ND|apply B; exact Hl].
Qed.

(* (4) NO RUN-OFF: every script of the program (script statements and inline map scripts) has its code as a segment of the
   output; the segment ends with return / end / goto followed by a blank line - execution cannot continue into what follows -
   and the generated jumps of the segment stay inside the segment (no hypothesis on names) *)
Theorem program_scripts_closed opt mp p prog :
  Forall src_ok (bodies_of (tops p)) ->
  emit_program_instrs opt mp p = Emitter.Ok prog ->
  forall name glob body, In (name, glob, body) (scripts_of (tops p)) ->
  exists code pre post,
    emit_script mp (map xname (texts p)) name glob opt body = Emitter.Ok code /\
    prog = pre ++ code ++ post /\
    ends_in_terminator code /\ closed code /\
    In name (lnames code) /\
    (forall l, In l (targets_of code) -> In l (lnames code)).
Proof.
  intros SO H name glob body Hs. destruct (program_parts opt mp p prog SO H) as (parts & E & FP & _ & _).
  destruct (part_of_script parts _ _ E Hs) as (x & Hx & Ex). rewrite Forall_forall in FP.
  destruct (FP x Hx) as (R & PO & _ & _ & TD & ET). rewrite Ex in R. unfold script_result in R. cbn [Datatypes.fst Datatypes.snd] in R.
  destruct (program_contains_scripts opt mp p prog H name glob body Hs) as (code & pre & post & R' & EP).
  assert (code = p_code x) by congruence. subst code.
  exists (p_code x), pre, post. split; [exact R|]. split; [exact EP|]. split; [exact ET|]. split; [apply ends_in_terminator_closed; exact ET|].
  split; [|exact TD]. apply (Permutation_in _ (Permutation_sym PO)). unfold own_names. rewrite Ex. now left.
Qed.

(* ================================================================================================================== *)
(* PART 5: the references of mapscripts headers and tables                                                             *)
(* ================================================================================================================== *)
Lemma piece_in_concat mp tl opt : forall ps codes, Forall2 (realizes mp tl opt) ps codes ->
  forall is, In (PData is) ps -> forall i, In i is -> In i (List.concat codes).
Proof.
  induction 1 as [|pc code ps codes R _ IH]; intros is Hp i Hi; [destruct Hp|]. cbn [List.concat]. apply in_or_app.
  destruct Hp as [->|Hp]; [left; cbn [realizes] in R; subst code; exact Hi|right; eapply IH; eassumption].
Qed.

Lemma tops_pieces_in mp : forall l i tp ps, In tp l -> top_pieces mp tp = Some ps ->
  forall pc, In pc ps -> In pc (Datatypes.fst (tops_pieces mp l i)).
Proof.
  induction l as [|tp0 r IH]; intros i tp ps Ht TP pc Hpc; [destruct Ht|]. cbn [tops_pieces].
  destruct Ht as [->|Ht].
  - rewrite TP. destruct (tops_pieces mp r (S i)) as [rest n]. cbn [Datatypes.fst]. apply in_or_app. right. apply in_or_app. now left.
  - destruct (top_pieces mp tp0) as [ps0|]; [|eapply IH; eassumption].
    specialize (IH (S i) tp ps Ht TP pc Hpc). destruct (tops_pieces mp r (S i)) as [rest n]. cbn [Datatypes.fst] in *.
    apply in_or_app. right. apply in_or_app. now right.
Qed.

Lemma program_piece_in mp p tp ps pc : In tp (tops p) -> top_pieces mp tp = Some ps -> In pc ps -> In pc (program_pieces mp p).
Proof.
  intros Ht TP Hpc. unfold program_pieces. pose proof (tops_pieces_in mp (tops p) 0 tp ps Ht TP pc Hpc) as H.
  destruct (tops_pieces mp (tops p) 0) as [ps0 n]. cbn [Datatypes.fst] in H. apply in_or_app. now left.
Qed.

(* the lines of a mapscripts statement that mention a name *)
Definition ms_ref_line (ty : token) (name : text) : instr := ILine (tab ++ t "map_script " ++ tlit ty ++ t ", " ++ name).
Definition ms2_ref_line (e : tableentry) : instr :=
  ILine (tab ++ t "map_script_2 " ++ teCondLit e ++ t ", " ++ teCmp e ++ t ", " ++ teName e).

(* (2b) MAPSCRIPTS REFERENCES: for every mapscripts statement of the program, the header is in the output under the statement's
   name; every header line  map_script TYPE, name  is in the output, and its name is a defined label when it is the generated
   name of an inline script or of a table; every table line  map_script_2 var, value, name  is in the output, and its name is a
   defined label when it is the generated name of an inline script.  (A name the author wrote in `TYPE: Name` refers to a script
   the author must supply, possibly in another file: nothing is claimed for it.) *)
Theorem mapscripts_references_defined opt mp p prog :
  Forall src_ok (bodies_of (tops p)) ->
  emit_program_instrs opt mp p = Emitter.Ok prog ->
  forall n g plain tables, In (TMapScripts n g plain tables) (tops p) ->
  In n (lnames prog) /\
  (forall m, In m plain -> In (ms_ref_line (msType m) (msName m)) prog /\ (msScript m <> None -> In (msName m) (lnames prog))) /\
  (forall tb, In tb tables ->
     In (ms_ref_line (tmType tb) (tmName tb)) prog /\ In (tmName tb) (lnames prog) /\
     forall e, In e (tmEntries tb) -> In (ms2_ref_line e) prog /\ (teScript e <> None -> In (teName e) (lnames prog))).
Proof.
  intros SO H n g plain tables Ht.
  destruct (program_parts opt mp p prog SO H) as (parts & _ & _ & PL & _).
  assert (DN : forall x, In x (n :: map tmName tables) -> In x (lnames prog)).
  { intros x Hx. apply (Permutation_in _ (Permutation_sym PL)). apply in_or_app. left. unfold data_names. apply in_or_app. left.
    apply in_flat_map. exists (TMapScripts n g plain tables). split; [exact Ht|exact Hx]. }
  assert (SC : forall nm b, In (nm, false, b) (scripts_of_top (TMapScripts n g plain tables)) -> In nm (lnames prog)).
  { intros nm b Hs. refine (proj1 (program_author_labels_present opt mp p prog SO H nm false b _)).
    unfold scripts_of. apply in_flat_map. exists (TMapScripts n g plain tables). split; [exact Ht|exact Hs]. }
  pose proof H as L. apply program_layout in L. destruct L as (codes & F2 & ->).
  assert (HD : forall i, In i (mapscripts_head mp n g plain tables) -> In i (List.concat codes)).
  { apply (piece_in_concat _ _ _ _ _ F2). eapply program_piece_in; [exact Ht|reflexivity|now left]. }
  assert (TH : forall tb, In tb tables -> forall i, In i (table_head mp tb) -> In i (List.concat codes)).
  { intros tb Htb. apply (piece_in_concat _ _ _ _ _ F2). eapply program_piece_in; [exact Ht|reflexivity|]. right. apply in_or_app. right.
    unfold tables_pieces. apply in_flat_map. exists tb. split; [exact Htb|now left]. }
  split; [apply DN; now left|]. split.
  - intros m Hm. split.
    + apply HD. unfold mapscripts_head. apply in_or_app. right. apply in_or_app. left. apply in_flat_map. exists m. split; [exact Hm|].
      apply in_or_app. right. now left.
    + intros NS. destruct (msScript m) as [b|] eqn:MS; [|congruence]. apply (SC (msName m) b). cbn [scripts_of_top]. apply in_or_app. left.
      apply in_flat_map. exists m. split; [exact Hm|]. rewrite MS. now left.
  - intros tb Htb. split; [|split].
    + apply HD. unfold mapscripts_head. apply in_or_app. right. apply in_or_app. right. apply in_or_app. left. apply in_flat_map. exists tb.
      split; [exact Htb|]. apply in_or_app. right. now left.
    + apply DN. right. apply in_map. exact Htb.
    + intros e He. split.
      * apply (TH tb Htb). unfold table_head. apply in_or_app. right. apply in_or_app. left. apply in_flat_map. exists e. split; [exact He|].
        apply in_or_app. right. now left.
      * intros NS. destruct (teScript e) as [b|] eqn:TS; [|congruence]. apply (SC (teName e) b). cbn [scripts_of_top]. apply in_or_app. right.
        apply in_flat_map. exists tb. split; [exact Htb|]. apply in_flat_map. exists e. split; [exact He|]. rewrite TS. now left.
Qed.

(* ================================================================================================================== *)
(* PART 6: hoisted text / movement labels (the labels patched into command arguments) are defined in the output         *)
(* ================================================================================================================== *)
Lemma forall2_combine {A B} (R : A -> B -> Prop) : forall a b, Forall2 R a b -> forall x y, In (x, y) (combine a b) -> R x y.
Proof. induction 1 as [|x0 y0 a b R0 _ IH]; intros x y H; [destruct H|]. cbn [combine] in H. destruct H as [E|H]; [inversion E; subst; exact R0|auto]. Qed.

(* ---------- what patching does to the arguments of a command ---------- *)
Lemma set_nth_spec : forall a l v l', set_nth a l v = Some l' ->
  forall k x, nth_error l' k = Some x -> (k = a /\ x = v) \/ nth_error l k = Some x.
Proof.
  induction a as [|a IH]; intros [|y l] v l' H k x Hk; cbn [set_nth] in H; try discriminate H.
  - inversion H; subst. destruct k as [|k]; cbn [nth_error] in *; [left; inversion Hk; auto|right; exact Hk].
  - destruct (set_nth a l v) as [r'|] eqn:E; [|discriminate H]. inversion H; subst.
    destruct k as [|k]; cbn [nth_error] in *; [right; exact Hk|].
    destruct (IH _ _ _ E k x Hk) as [[-> ->]|Q]; [left; auto|right; exact Q].
Qed.

Lemma apply_patches_args : forall ps c c', apply_patches ps c = Some c' ->
  forall k x, nth_error (cargs c') k = Some x -> nth_error (cargs c) k = Some x \/ In (Ast.cid c, k, x) ps.
Proof.
  induction ps as [|[[i a] l] r IH]; intros c c' H k x Hk; cbn [apply_patches] in H.
  - inversion H; subst. left. exact Hk.
  - destruct (Nat.eqb_spec i (Ast.cid c)) as [->|NE].
    + destruct (set_nth a (cargs c) l) as [args|] eqn:E; [|discriminate H].
      destruct (IH _ _ H k x Hk) as [Q|Q]; cbn [cargs Ast.cid] in Q.
      * destruct (set_nth_spec _ _ _ _ E k x Q) as [[-> ->]|Q']; [right; now left|left; exact Q'].
      * right. right. exact Q.
    + destruct (IH _ _ H k x Hk) as [Q|Q]; [left; exact Q|right; right; exact Q].
Qed.

(* every argument of a patched command is the argument the parser collected, or the label of a patch addressed to that command
   and that argument position *)
Lemma pcmd_args ps c k x : nth_error (cargs (pcmd ps c)) k = Some x -> nth_error (cargs c) k = Some x \/ In (Ast.cid c, k, x) ps.
Proof.
  unfold pcmd. destruct (apply_patches ps c) as [c'|] eqn:E; [apply apply_patches_args; exact E|].
  cbn [cargs]. destruct k; discriminate.
Qed.

Section HOIST.
Variable autovars : list (text * autovar).
Variable switches : list (text * text).
Variable pf : toks -> Parser.res (token * text * text * toks).
Notation parse_tops := (Parser.parse_tops autovars switches true pf).
Notation parse_program := (Parser.parse_program autovars switches true pf).
Notation parse_script := (Parser.parse_script autovars switches true pf).
Notation parse_mapscripts := (Parser.parse_mapscripts autovars switches true pf).

(* what parse_tops does to a mapscripts statement with the patches of its inline data *)
Definition patch_mapscripts (ps : list patch) (tp : top) : top :=
  match tp with
  | TMapScripts n g plain tables =>
      TMapScripts n g
        (map (fun m => {| msType := msType m; msName := msName m;
                          msScript := match msScript m with Some b => Some (map (pstmt ps) b) | None => None end |}) plain)
        (map (fun tb => {| tmType := tmType tb; tmName := tmName tb;
                           tmEntries := map (fun e => {| teCond := teCond e; teCondLit := teCondLit e; teCmp := teCmp e; teName := teName e;
                                                         teScript := match teScript e with Some b => Some (map (pstmt ps) b) | None => None end |}) (tmEntries tb) |}) tables)
  | other => other
  end.

(* the top-level statements parse_tops appends, with the inline data of each script / mapscripts statement (in order) and the
   patch list applied to its bodies: a script statement is the parsed script with its commands patched by pstmt ps *)
Inductive hoisted_tops : list top -> list impdata -> list (list patch) -> Prop :=
| ht_nil : hoisted_tops [] [] []
| ht_script c f ts name g b imp ts1 ps news imps pss :
    parse_script c f ts = Parser.Ok (name, g, b, imp, ts1) -> hoisted_tops news imps pss ->
    hoisted_tops (TScript name g (map (pstmt ps) b) :: news) (imp :: imps) (ps :: pss)
| ht_mapscripts c f ts tp imp ts1 ps news imps pss :
    parse_mapscripts c f ts = Parser.Ok (tp, imp, ts1) -> hoisted_tops news imps pss ->
    hoisted_tops (patch_mapscripts ps tp :: news) (imp :: imps) (ps :: pss)
| ht_other tp news imps pss : hoisted_tops news imps pss -> hoisted_tops (tp :: news) imps pss.

Lemma parse_tops_hoisted : forall f st ts st',
  parse_tops f st ts = Parser.Ok st' ->
  exists imps pss news, hoist_all imps (ph st) = (ph st', pss) /\ ptops st' = ptops st ++ news /\ hoisted_tops news imps pss.
Proof.
  induction f as [|f IH]; intros st ts st' H; [discriminate H|]. cbn [Parser.parse_tops] in H.
  destruct (curis EOF ts).
  { inversion H; subst. exists [], [], []. split; [reflexivity|]. split; [now rewrite app_nil_r|constructor]. }
  destruct (ttype (cur ts)); try discriminate H.
  - (* SCRIPT *)
    destruct (parse_script (pconsts st) f ts) as [[[[[name g] b] imp] ts1]| | |] eqn:E; try discriminate H.
    destruct (add_implicit imp (ph st)) as [h1 ps] eqn:A.
    destruct (IH _ _ _ H) as (imps & pss & news & R & T & HT). cbn [ph ptops] in R, T.
    exists (imp :: imps), (ps :: pss), (TScript name g (map (pstmt ps) b) :: news).
    split; [cbn [hoist_all]; rewrite A, R; reflexivity|]. split; [rewrite T, <- app_assoc; reflexivity|].
    eapply ht_script; eassumption.
  - (* RAW *)
    match type of H with (match ?m with _ => _ end) = _ => destruct m as [[tp ts1]| | |]; try discriminate H end.
    destruct (IH _ _ _ H) as (imps & pss & news & R & T & HT). cbn [ph ptops] in R, T.
    exists imps, pss, (tp :: news). split; [exact R|]. split; [rewrite T, <- app_assoc; reflexivity|constructor; exact HT].
  - (* TEXT *)
    match type of H with (match ?m with _ => _ end) = _ => destruct m as [[tp ts1]| | |]; try discriminate H end.
    destruct (IH _ _ _ H) as (imps & pss & news & R & T & HT). cbn [ph ptops] in R, T.
    exists imps, pss, (TTextStmt :: news). split; [exact R|]. split; [rewrite T, <- app_assoc; reflexivity|constructor; exact HT].
  - (* MOVEMENT *)
    match type of H with (match ?m with _ => _ end) = _ => destruct m as [[tp ts1]| | |]; try discriminate H end.
    destruct (IH _ _ _ H) as (imps & pss & news & R & T & HT). cbn [ph ptops] in R, T.
    exists imps, pss, (tp :: news). split; [exact R|]. split; [rewrite T, <- app_assoc; reflexivity|constructor; exact HT].
  - (* MART *)
    match type of H with (match ?m with _ => _ end) = _ => destruct m as [[tp ts1]| | |]; try discriminate H end.
    destruct (IH _ _ _ H) as (imps & pss & news & R & T & HT). cbn [ph ptops] in R, T.
    exists imps, pss, (tp :: news). split; [exact R|]. split; [rewrite T, <- app_assoc; reflexivity|constructor; exact HT].
  - (* MAPSCRIPTS *)
    destruct (parse_mapscripts (pconsts st) f ts) as [[[tp imp] ts1]| | |] eqn:E; try discriminate H.
    destruct (add_implicit imp (ph st)) as [h1 ps] eqn:A.
    destruct (IH _ _ _ H) as (imps & pss & news & R & T & HT). cbn [ph ptops] in R, T.
    exists (imp :: imps), (ps :: pss), (patch_mapscripts ps tp :: news).
    split; [cbn [hoist_all]; rewrite A, R; reflexivity|]. split; [rewrite T, <- app_assoc; reflexivity|].
    eapply ht_mapscripts; eassumption.
  - (* CONST *)
    match type of H with (match ?m with _ => _ end) = _ => destruct m as [[tp ts1]| | |]; try discriminate H end.
    destruct (IH _ _ _ H) as (imps & pss & news & R & T & HT). cbn [ph ptops] in R, T.
    exists imps, pss, news. split; [exact R|]. split; [exact T|exact HT].
Qed.

(* every label of every patch is the name of a text of the program or of a movement statement of the program *)
Theorem patch_labels_are_program_names ts p :
  parse_program ts = Parser.Ok p ->
  exists imps pss news,
    tops p = news ++ Hoisting.mov_defs [] (Hoisting.new_movs [] (flat_map idM imps)) /\
    hoisted_tops news imps pss /\
    forall ps, In ps pss -> forall c a l, In (c, a, l) ps ->
      (exists x, In x (texts p) /\ xname x = l) \/ (exists tk steps, In (TMovement l false tk steps) (tops p)).
Proof.
  intros H. destruct (Hoisting.parse_program_ok autovars switches true pf eq_refl ts p H) as (st & E & Tx & Tp & _).
  destruct (parse_tops_hoisted _ _ _ _ E) as (imps & pss & news & R & T & HT). cbn [ph ptops Hoisting.pstate0 app] in R, T.
  pose proof (hoist_all_table _ _ _ _ _ _ hoist_table_0 R) as [_ MT]. cbn [map app] in MT.
  exists imps, pss, news. split; [rewrite Tp, T, (Hoisting.mt_defs _ _ MT); reflexivity|]. split; [exact HT|].
  destruct (hoist_all_labels _ _ _ _ _ _ hoist_table_0 R) as (LEN & LAB).
  intros ps Hps c a l Hl. apply In_nth_error in Hps. destruct Hps as (i & Hi).
  assert (LI : (i < List.length imps)%nat) by (rewrite <- LEN; apply nth_error_Some; congruence).
  destruct (nth_error imps i) as [imp|] eqn:NI; [|apply nth_error_None in NI; lia].
  destruct (LAB i imp ps NI Hi) as (tl & ml & -> & _ & _ & FT & FM).
  apply in_app_or in Hl. destruct Hl as [Hl|Hl]; apply in_map_iff in Hl; destruct Hl as ([x l'] & EQ & Hc).
  - unfold text_patch in EQ. cbn [Datatypes.fst Datatypes.snd] in EQ. inversion EQ; subst. left.
    pose proof (forall2_combine _ _ _ FT _ _ Hc) as Q. cbn beta in Q.
    destruct (program_text_label_defined_once autovars switches true pf eq_refl ts p st _ _ _ H E Q) as (_ & y & Hy & Ny & _). eauto.
  - unfold mov_patch in EQ. cbn [Datatypes.fst Datatypes.snd] in EQ. inversion EQ; subst. right.
    pose proof (forall2_combine _ _ _ FM _ _ Hc) as Q. cbn beta in Q.
    destruct (program_mov_label_defined_once autovars switches true pf eq_refl ts p st _ _ H E Q) as (_ & tk & steps & J & _). eauto.
Qed.
End HOIST.

(* ================================================================================================================== *)
(* PART 7: source texts - the main theorems                                                                            *)
(* ================================================================================================================== *)
Section SOURCE.
Variables (hl hd hs : N -> bool) (autovars : list (text * autovar)) (switches : list (text * text))
          (fc : Format.fontcfg) (cli_font : text) (cli_maxlen : Z) (src : text) (p : program).
(* the program is accepted by a real compilation (ee = true: the name check of the parser looks at generated names too) *)
Hypothesis HP : parse_program autovars switches true (parse_format fc cli_font cli_maxlen true) (lex hl hd hs src) = Parser.Ok p.

Lemma accepted_src_ok_all : Forall src_ok (bodies_of (tops p)).
Proof.
  pose proof (accepted_bodies_are_src_ok hl hd hs autovars switches true fc cli_font cli_maxlen src p HP) as A.
  rewrite Forall_forall in *. intros b Hb. exact (proj1 (A b Hb)).
Qed.

(* THE LABEL DEFINITIONS OF THE OUTPUT, as a multiset: one per movement (statements and hoisted moves()), mart, mapscripts header,
   mapscripts table and text (statements and hoisted strings): data_names p; and for each script of the program (script statements
   and inline map scripts, in emission order): its name, the labels the author wrote in its body, and generated labels name_i for
   pairwise distinct chunk numbers i, each the target of a generated jump of that script's code. *)
Theorem program_labels optimize mp prog :
  emit_program_instrs optimize mp p = Emitter.Ok prog ->
  exists parts : list part,
    map p_script parts = scripts_of (tops p) /\
    Forall (part_ok mp (map xname (texts p)) optimize) parts /\
    Permutation (lnames prog) (data_names p ++ flat_map own_names parts) /\
    Permutation (targets_of prog) (flat_map (fun x => targets_of (p_code x)) parts).
Proof. apply program_parts. exact accepted_src_ok_all. Qed.

(* the statement of closedness that needs no condition on names *)
Definition closed_any_names (optimize : bool) (mp : option text) (prog : list instr) : Prop :=
  (* every generated goto / goto_if / case names a label of the output *)
  (forall l, In l (targets_of prog) -> In l (lnames prog)) /\
  (* mapscripts: header and table lines are in the output, generated names in them are defined *)
  (forall n g plain tables, In (TMapScripts n g plain tables) (tops p) ->
     In n (lnames prog) /\
     (forall m, In m plain -> In (ms_ref_line (msType m) (msName m)) prog /\ (msScript m <> None -> In (msName m) (lnames prog))) /\
     (forall tb, In tb tables ->
        In (ms_ref_line (tmType tb) (tmName tb)) prog /\ In (tmName tb) (lnames prog) /\
        forall e, In e (tmEntries tb) -> In (ms2_ref_line e) prog /\ (teScript e <> None -> In (teName e) (lnames prog)))) /\
  (* hoisting: the statements of the program are those the parser appended (scripts with their commands patched) followed by the
     hoisted movements; every label of every patch is defined in the output *)
  (exists imps pss news,
     tops p = news ++ Hoisting.mov_defs [] (Hoisting.new_movs [] (flat_map idM imps)) /\
     hoisted_tops autovars switches (parse_format fc cli_font cli_maxlen true) news imps pss /\
     forall ps, In ps pss -> forall c a l, In (c, a, l) ps -> In l (lnames prog)) /\
  (* the author's labels and the script names are there *)
  (forall name glob body, In (name, glob, body) (scripts_of (tops p)) ->
     In name (lnames prog) /\ forall l, In l (dlabs body) -> In l (lnames prog)) /\
  (* every script is a segment that ends in a terminator and whose generated jumps stay inside *)
  (forall name glob body, In (name, glob, body) (scripts_of (tops p)) ->
     exists code pre post,
       emit_script mp (map xname (texts p)) name glob optimize body = Emitter.Ok code /\
       prog = pre ++ code ++ post /\ ends_in_terminator code /\ closed code /\ In name (lnames code) /\
       (forall l, In l (targets_of code) -> In l (lnames code))).

Theorem program_closed_any_names optimize mp prog :
  emit_program_instrs optimize mp p = Emitter.Ok prog -> closed_any_names optimize mp prog.
Proof.
  intros HE. pose proof accepted_src_ok_all as SO.
  split; [exact (program_generated_references_defined optimize mp p prog SO HE)|].
  split; [exact (mapscripts_references_defined optimize mp p prog SO HE)|].
  split; [|split; [exact (program_author_labels_present optimize mp p prog SO HE)|exact (program_scripts_closed optimize mp p prog SO HE)]].
  destruct (patch_labels_are_program_names autovars switches _ _ p HP) as (imps & pss & news & T & HT & PL).
  exists imps, pss, news. split; [exact T|]. split; [exact HT|].
  destruct (program_parts optimize mp p prog SO HE) as (parts & _ & _ & PM & _).
  intros ps Hps c a l Hl. apply (Permutation_in _ (Permutation_sym PM)). apply in_or_app. left. unfold data_names.
  destruct (PL ps Hps c a l Hl) as [(x & Hx & <-)|(tk & steps & J)].
  - apply in_or_app. right. apply in_map. exact Hx.
  - apply in_or_app. left. apply in_flat_map. exists (TMovement l false tk steps). split; [exact J|now left].
Qed.

(* the labels in command arguments: the scripts of the program are the parsed scripts with every command c replaced by pcmd ps c
   (hoisted_tops, Parser.pstmt); whatever the command, each of its arguments afterwards is the argument the parser collected for
   it or a label that is defined in the output *)
Theorem patched_arguments_defined optimize mp prog :
  emit_program_instrs optimize mp p = Emitter.Ok prog ->
  exists imps pss news,
    tops p = news ++ Hoisting.mov_defs [] (Hoisting.new_movs [] (flat_map idM imps)) /\
    hoisted_tops autovars switches (parse_format fc cli_font cli_maxlen true) news imps pss /\
    forall ps, In ps pss -> forall c k x, nth_error (cargs (pcmd ps c)) k = Some x ->
      nth_error (cargs c) k = Some x \/ In x (lnames prog).
Proof.
  intros HE. destruct (program_closed_any_names optimize mp prog HE) as (_ & _ & (imps & pss & news & T & HT & PL) & _).
  exists imps, pss, news. split; [exact T|]. split; [exact HT|]. intros ps Hps c k x Hk.
  destruct (pcmd_args ps c k x Hk) as [Q|Q]; [left; exact Q|right; exact (PL ps Hps _ _ _ Q)].
Qed.

(* MAIN THEOREM (C04 for the whole program).  For every source text accepted by a real compilation whose names pass the
   executable check names_ok, both optimize settings, line markers on or off, when the program is emitted:
   (1) all labels of the output are pairwise distinct;
   (2) every generated reference is defined: goto / goto_if / case targets, mapscripts header and table entries, the labels
       hoisting patched into command arguments - and each of the latter exactly once;
   (3) every label the author wrote in a script (any depth, unreachable code included) and every script name is defined exactly once;
   (4) every script is a segment of the output that ends with return / end / goto + blank line, its generated jumps staying inside. *)
Theorem program_closed optimize mp prog :
  emit_program_instrs optimize mp p = Emitter.Ok prog ->
  names_ok p = true ->
  NoDup (lnames prog) /\
  closed_any_names optimize mp prog /\
  (forall l, In l (lnames prog) -> count_occ text_dec (lnames prog) l = 1%nat) /\
  (forall name glob body, In (name, glob, body) (scripts_of (tops p)) ->
     count_occ text_dec (lnames prog) name = 1%nat /\ forall l, In l (dlabs body) -> count_occ text_dec (lnames prog) l = 1%nat).
Proof.
  intros HE NK. pose proof accepted_src_ok_all as SO.
  pose proof (program_labels_distinct optimize mp p prog SO HE NK) as ND.
  split; [exact ND|]. split; [exact (program_closed_any_names optimize mp prog HE)|].
  split; [intros l Hl; apply count_occ_nodup_in; assumption|exact (program_author_labels_once optimize mp p prog SO HE NK)].
Qed.
End SOURCE.

(* ================================================================================================================== *)
(* PART 8: examples - the hypotheses are satisfiable; what names_ok excludes, and a clash the property text does not    *)
(* ================================================================================================================== *)
Module EXAMPLES.
Local Open Scope string_scope.
Definition parse (s : string) := parse_program [] [] true (parse_format NameClash.fc0 [] 0%Z true) (lex NameClash.nf NameClash.nf NameClash.nf (t s)).
Definition prog_of (s : string) : program := match parse s with Parser.Ok p => p | _ => {| tops := []; texts := [] |} end.
Definition out_of (o : bool) (mp : option text) (s : string) : list instr :=
  match emit_program_instrs o mp (prog_of s) with Emitter.Ok x => x | _ => [] end.
Definition labels_of_out (o : bool) (s : string) : list string := map NameClash.show (lnames (out_of o None s)).

(* two scripts (if / while / break / switch, labels at depth and in unreachable code, a goto into another script), a raw block,
   a movement, a mart, a text, a mapscripts statement with an inline script, a label entry and a table with an inline row; inline
   strings (one shared by two scripts) and a moves() argument *)
Definition ex_src : string :=
  "script A { lock" ++ NameClash.nl ++
  " if (flag(F)) { Inner: msgbox(""hi"") } else { while (flag(G)) { applymovement(2, moves(walk_up walk_down)) if (flag(H)) { break } } }" ++ NameClash.nl ++
  " Done(global): msgbox(""bye"") release }" ++ NameClash.nl ++
  "raw `x`" ++ NameClash.nl ++ "movement M { walk_up }" ++ NameClash.nl ++ "mart Shop { ITEM_POTION ITEM_BALL }" ++ NameClash.nl ++ "text T { ""hello"" }" ++ NameClash.nl ++
  "mapscripts MS { MAP_SCRIPT_ON_LOAD { if (flag(Q)) { lock } release } MAP_SCRIPT_ON_RESUME: B MAP_SCRIPT_ON_FRAME_TABLE [ VAR_T, 0: B " ++ NameClash.nl ++
  " VAR_T, 1 { while (flag(Z)) { msgbox(""hi"") } } ] }" ++ NameClash.nl ++
  "script B { switch (var(V)) { case 1: lock case 2: return Unreached: release default: end } goto(Done) }".

(* the hypotheses of program_closed hold for it, in all four configurations *)
Example ex_hypotheses :
  parse_program [] [] true (parse_format NameClash.fc0 [] 0%Z true) (lex NameClash.nf NameClash.nf NameClash.nf (t ex_src)) = Parser.Ok (prog_of ex_src) /\
  names_ok (prog_of ex_src) = true /\
  forall o mp, In mp [None; Some (t "f.pory")] -> emit_program_instrs o mp (prog_of ex_src) = Emitter.Ok (out_of o mp ex_src).
Proof.
  split; [vm_compute; reflexivity|]. split; [vm_compute; reflexivity|].
  intros [|] mp [<-|[<-|[]]]; vm_compute; reflexivity.
Qed.

Example ex_names :
  map NameClash.show (all_names (prog_of ex_src)) =
    ["M"; "Shop"; "MS"; "MS_MAP_SCRIPT_ON_FRAME_TABLE"; "A_Movement_0"; "A_Text_0"; "A_Text_1"; "T";
     "A"; "Inner"; "Done"; "MS_MAP_SCRIPT_ON_LOAD"; "MS_MAP_SCRIPT_ON_FRAME_TABLE_1"; "B"; "Unreached"] /\
  labels_of_out true ex_src =
    ["A"; "A_5"; "A_1"; "Done"; "A_2"; "Inner"; "A_6"; "A_8"; "M"; "Shop"; "MS"; "MS_MAP_SCRIPT_ON_LOAD"; "MS_MAP_SCRIPT_ON_LOAD_1";
     "MS_MAP_SCRIPT_ON_LOAD_2"; "MS_MAP_SCRIPT_ON_FRAME_TABLE"; "MS_MAP_SCRIPT_ON_FRAME_TABLE_1"; "MS_MAP_SCRIPT_ON_FRAME_TABLE_1_1";
     "MS_MAP_SCRIPT_ON_FRAME_TABLE_1_2"; "B"; "B_1"; "B_3"; "B_4"; "Unreached"; "A_Movement_0"; "A_Text_0"; "A_Text_1"; "T"].
Proof. split; vm_compute; reflexivity. Qed.

(* the theorem applied to it *)
Example ex_closed o mp prog : emit_program_instrs o mp (prog_of ex_src) = Emitter.Ok prog ->
  NoDup (lnames prog) /\ (forall l, In l (targets_of prog) -> In l (lnames prog)) /\
  (forall name glob body, In (name, glob, body) (scripts_of (tops (prog_of ex_src))) -> forall l, In l (dlabs body) ->
     count_occ text_dec (lnames prog) l = 1%nat).
Proof.
  intros HE. destruct ex_hypotheses as (HP & NK & _).
  destruct (program_closed NameClash.nf NameClash.nf NameClash.nf [] [] NameClash.fc0 [] 0%Z (t ex_src) (prog_of ex_src) HP o mp prog HE NK)
    as (ND & (TD & _) & _ & AL).
  split; [exact ND|]. split; [exact TD|]. intros name glob body Hs. exact (proj2 (AL name glob body Hs)).
Qed.

(* ---------- what names_ok excludes (each is compiled by the model, and by poryscript, into duplicate labels) ---------- *)
Definition dup_out (s : string) : Prop :=
  (exists p prog, parse s = Parser.Ok p /\ emit_program_instrs false None p = Emitter.Ok prog /\ ~ NoDup (lnames prog)) /\
  names_ok (prog_of s) = false.
Ltac dup_tac :=
  split; [|vm_compute; reflexivity];
  eexists _, _; split; [vm_compute; reflexivity|]; split; [vm_compute; reflexivity|];
  intros ND; apply SrcWf.nodupt_complete in ND; vm_compute in ND; discriminate ND.

(* two scripts of one name; a script named like a chunk label of another script; an author's label named like one *)
Example dup_two_scripts : dup_out ("script A { lock }" ++ NameClash.nl ++ "script A { release }").
Proof. dup_tac. Qed.
Example dup_script_vs_chunk : dup_out ("script A { if (flag(F)) { lock } release }" ++ NameClash.nl ++ "script A_1 { release }").
Proof. dup_tac. Qed.
Example dup_label_vs_other_chunk : dup_out ("script A { if (flag(F)) { lock } release }" ++ NameClash.nl ++ "script B { A_1: release }").
Proof. dup_tac. Qed.
Example dup_label_vs_movement : dup_out ("movement M { walk_up }" ++ NameClash.nl ++ "script A { M: lock }").
Proof. dup_tac. Qed.

(* FINDING.  No name the author chose has one of the generated forms  <script>_<n>, <script>_Text_<n>, <script>_Movement_<n>,
   yet the output defines A_Text_1 twice: the second inline string of script A is hoisted as A_Text_1, and chunk 1 of the
   script the author called A_Text is labelled A_Text_1.  The compiler accepts the program (checked with poryscript itself:
   same output).  names_ok rejects it because the GENERATED text name A_Text_1 reads as <script A_Text>_<1>: the check has to
   look at the generated text / movement names too, a condition on the author's names alone ("not of a generated form") is
   not enough for C04 as worded. *)
Definition src_text_vs_chunk : string :=
  "script A { msgbox(""a"") msgbox(""b"") }" ++ NameClash.nl ++ "script A_Text { if (flag(F)) { lock } release }".
Example generated_text_name_vs_chunk_label :
  dup_out src_text_vs_chunk /\
  labels_of_out false src_text_vs_chunk = ["A"; "A_Text"; "A_Text_1"; "A_Text_2"; "A_Text_3"; "A_Text_0"; "A_Text_1"].
Proof. split; [dup_tac|vm_compute; reflexivity]. Qed.
(* the same with moves() *)
Example generated_movement_name_vs_chunk_label :
  dup_out ("script A { applymovement(1, moves(walk_up)) applymovement(1, moves(walk_down)) }" ++ NameClash.nl ++
           "script A_Movement { if (flag(F)) { lock } release }").
Proof. dup_tac. Qed.

(* names_ok is sufficient, not necessary: a label named like a chunk label that the script does not have is harmless *)
Example names_ok_is_conservative :
  let s := "script A { A_7: lock }" in
  names_ok (prog_of s) = false /\ exists prog, emit_program_instrs false None (prog_of s) = Emitter.Ok prog /\ NoDup (lnames prog).
Proof.
  split; [vm_compute; reflexivity|]. eexists. split; [vm_compute; reflexivity|]. apply nodupt_sound. vm_compute. reflexivity.
Qed.
End EXAMPLES.
