(* C17 - Compilation is deterministic and independent of unrelated statements.
   The model is a Gallina function (lexer, parser, emitter): it has no state that survives a call, so the same input
   gives the same result by construction; that the Go program behaves like this function over histories of calls in one
   process is what the HIST correspondence checks. What is proved here is independence of unrelated statements. *)
From Coq Require Import List ZArith Bool.
From Pory Require Import Lexer Ast Emitter C17Proofs.
Import ListNotations.

(* the code of a program is the concatenation (with blank-line separators) of one block per top-level statement, each
   block computed from that statement alone, given the marker mode, -optimize and the set of text labels *)
Theorem emit_tops_compositional :
  forall mp tl opt l i,
    emit_tops mp tl opt l i = bind_i (collect mp tl opt l) (fun bs => Ok (seq_blocks bs i, (i + List.length bs)%nat)).
Proof. exact C17Proofs.emit_tops_compositional. Qed.
Print Assumptions emit_tops_compositional.

(* ... and the set of text labels (the only thing a script block sees of the rest of the file) can only turn a script into
   a clash error; it never changes emitted code *)
Theorem script_code_independent_of_texts :
  forall mp tl1 tl2 name glob opt body x y,
    emit_script mp tl1 name glob opt body = Ok x -> emit_script mp tl2 name glob opt body = Ok y -> x = y.
Proof. exact C17Proofs.script_code_independent_of_texts. Qed.
Print Assumptions script_code_independent_of_texts.

(* ---- parser side of 'independent of unrelated statements' (Independence.v). swap ra rb s = the stream s with its rest ra replaced
   by rb. parse_raw_swap, parse_movement_swap, parse_mart_swap, parse_text_swap, parse_const_swap2: a top-level statement parser gives
   the same result whatever follows the statement (for const: if the next token has the same top-level class); parse_script_swap,
   parse_mapscripts_swap: the same up to the shift of loop / switch tags and command ids, which are the number of tokens still to
   read (TagRename.v: the emitter does not see that shift). top_step_context / tops_run_context: the loop parse_tops processes a
   statement as it does in any other file, given the same constant table and hoisting state - the ONLY two channels between
   statements; top_step_state: only const changes the constants, only script / mapscripts with inline data change the hoisting
   state. parse_program_same_statements_real: the statements X get the same AST alone and between A and B (A without constants
   and inline data). const_at_end_of_file (Independence.v): the one dependence on what follows - a const that ends the file
   takes the EOF token into its (unusable) value. ---- *)
From Pory Require Import Parser Format Independence. Open Scope list_scope.
Theorem parse_raw_swap :
  forall ra rb : toks,
  ra <> [] ->
  rb <> [] -> forall (x : toks) (tp : top) (y : toks), parse_raw x = Ok (tp, y) -> Gw ra 1 y -> parse_raw (swap ra rb x) = Ok (tp, swap ra rb y).
Proof. exact Independence.parse_raw_swap. Qed.
Print Assumptions parse_raw_swap.

Theorem parse_movement_swap :
  forall ra rb : toks,
  ra <> [] ->
  rb <> [] ->
  forall (sw : list (text * text)) (ee : bool) (f : nat) (x : toks) (tp : top) (y : toks),
  parse_movement sw ee f x = Ok (tp, y) -> Gw ra 1 y -> parse_movement sw ee f (swap ra rb x) = Ok (tp, swap ra rb y).
Proof. exact Independence.parse_movement_swap. Qed.
Print Assumptions parse_movement_swap.

Theorem parse_mart_swap :
  forall ra rb : toks,
  ra <> [] ->
  rb <> [] ->
  forall (sw : list (text * text)) (ee : bool) (c : list (text * text)) (f : nat) (x : toks) (tp : top) (y : toks),
  parse_mart sw ee c f x = Ok (tp, y) -> Gw ra 1 y -> parse_mart sw ee c f (swap ra rb x) = Ok (tp, swap ra rb y).
Proof. exact Independence.parse_mart_swap. Qed.
Print Assumptions parse_mart_swap.

Theorem parse_text_swap :
  forall ra rb : toks,
  ra <> [] ->
  rb <> [] ->
  forall pf : toks -> res (token * text * text * toks),
  (forall (ts : toks) (tk : token) (v sty : text) (ts' : toks),
   pf ts = Ok (tk, v, sty, ts') -> forall a : toks, Consume.advs a ts -> Consume.advs a ts') ->
  (forall (x : toks) (tk : token) (v sty : text) (y : toks),
   pf x = Ok (tk, v, sty, y) -> Gw ra 1 y -> pf (swap ra rb x) = Ok (tk, v, sty, swap ra rb y)) ->
  forall (sw : list (text * text)) (ee : bool) (f : nat) (x : toks) (td : textdef) (y : toks),
  parse_text sw ee pf f x = Ok (td, y) -> Gw ra 1 y -> parse_text sw ee pf f (swap ra rb x) = Ok (td, swap ra rb y).
Proof. exact Independence.parse_text_swap. Qed.
Print Assumptions parse_text_swap.

Theorem parse_const_swap2 :
  forall ra rb : toks,
  ra <> [] ->
  rb <> [] ->
  class_ok ra rb ->
  forall (f : nat) (c : list (text * text)) (x : toks) (c' : list (text * text)) (y : toks),
  parse_const f c x = Ok (c', y) -> Gw ra 1 y -> parse_const f c (swap ra rb x) = Ok (c', swap ra rb y).
Proof. exact Independence.parse_const_swap2. Qed.
Print Assumptions parse_const_swap2.

Theorem parse_script_swap :
  forall ra rb : toks,
  ra <> [] ->
  rb <> [] ->
  forall (av : list (text * autovar)) (sw : list (text * text)) (pf : toks -> res (token * text * text * toks)),
  (forall (ts : toks) (tk : token) (v sty : text) (ts' : toks),
   pf ts = Ok (tk, v, sty, ts') -> forall a : toks, Consume.advs a ts -> Consume.advs a ts') ->
  (forall (x : toks) (tk : token) (v sty : text) (y : toks),
   pf x = Ok (tk, v, sty, y) -> Gw ra 1 y -> pf (swap ra rb x) = Ok (tk, v, sty, swap ra rb y)) ->
  forall (ee : bool) (c : list (text * text)) (f : nat) (x : toks) (name : text) (g : bool) (b : list stmt) (imp : impdata) (y : toks),
  parse_script av sw ee pf c f x = Ok (name, g, b, imp, y) ->
  Gw ra 1 y -> parse_script av sw ee pf c f (swap ra rb x) = Ok (name, g, map (g_stmt (sh ra rb)) b, g_imp (sh ra rb) imp, swap ra rb y).
Proof. exact Independence.parse_script_swap. Qed.
Print Assumptions parse_script_swap.

Theorem parse_mapscripts_swap :
  forall ra rb : toks,
  ra <> [] ->
  rb <> [] ->
  forall (av : list (text * autovar)) (sw : list (text * text)) (pf : toks -> res (token * text * text * toks)),
  (forall (ts : toks) (tk : token) (v sty : text) (ts' : toks),
   pf ts = Ok (tk, v, sty, ts') -> forall a : toks, Consume.advs a ts -> Consume.advs a ts') ->
  (forall (x : toks) (tk : token) (v sty : text) (y : toks),
   pf x = Ok (tk, v, sty, y) -> Gw ra 1 y -> pf (swap ra rb x) = Ok (tk, v, sty, swap ra rb y)) ->
  forall (ee : bool) (c : list (text * text)) (f : nat) (x : toks) (tp : top) (imp : impdata) (y : toks),
  parse_mapscripts av sw ee pf c f x = Ok (tp, imp, y) ->
  Gw ra 1 y -> parse_mapscripts av sw ee pf c f (swap ra rb x) = Ok (g_top (sh ra rb) tp, g_imp (sh ra rb) imp, swap ra rb y).
Proof. exact Independence.parse_mapscripts_swap. Qed.
Print Assumptions parse_mapscripts_swap.

Theorem parse_tops_step :
  forall (av : list (text * autovar)) (sw : list (text * text)) (ee : bool) (pf : toks -> res (token * text * text * toks)) 
    (f : nat) (st : pstate) (ts : toks),
  parse_tops av sw ee pf (S f) st ts =
  (if curis EOF ts
   then Ok st
   else
    do (c', h', tps, txs, ts1) <- top_step av sw ee pf f (pconsts st) (ph st) ts; parse_tops av sw ee pf f (st_add st c' h' tps txs) (adv ts1)).
Proof. exact Independence.parse_tops_step. Qed.
Print Assumptions parse_tops_step.

Theorem top_step_context :
  forall (av : list (text * autovar)) (sw : list (text * text)) (ee : bool) (pf : toks -> res (token * text * text * toks)),
  format_advs pf ->
  format_local pf ->
  forall ra rb : list token,
  ra <> [] ->
  rb <> [] ->
  forall (f : nat) (c : list (text * text)) (h : hst) (x : toks) (c' : list (text * text)) (h' : hst) (tps : list top) 
    (txs : list textdef) (y : toks),
  top_step av sw ee pf f c h x = Ok (c', h', tps, txs, y) ->
  Gw ra 1 y ->
  class_ok ra rb ->
  exists tps' : list top,
    top_step av sw ee pf f c h (swap ra rb x) = Ok (c', h', tps', txs, swap ra rb y) /\
    (len ra <= len rb -> tps' = map (g_top (sh ra rb)) tps) /\ (len rb <= len ra -> tps = map (g_top (sh rb ra)) tps').
Proof. exact Independence.top_step_context. Qed.
Print Assumptions top_step_context.

Theorem top_step_state :
  forall (av : list (text * autovar)) (sw : list (text * text)) (ee : bool) (pf : toks -> res (token * text * text * toks)) 
    (f : nat) (c : list (text * text)) (h : hst) (ts : toks) (c' : list (text * text)) (h' : hst) (tps : list top) (txs : list textdef)
    (ts' : toks),
  top_step av sw ee pf f c h ts = Ok (c', h', tps, txs, ts') ->
  (ttype (cur ts) <> CONST -> c' = c) /\
  (ttype (cur ts) = CONST -> h' = h /\ tps = [] /\ txs = [] /\ (exists name v : text, c' = (name, v) :: c)) /\
  (ttype (cur ts) <> SCRIPT -> ttype (cur ts) <> MAPSCRIPTS -> h' = h) /\
  (ttype (cur ts) = SCRIPT ->
   exists (name : text) (g : bool) (b : list stmt) (imp : impdata),
     parse_script av sw ee pf c f ts = Ok (name, g, b, imp, ts') /\
     h' = Datatypes.fst (add_implicit imp h) /\
     tps = [TScript name g (map (pstmt (snd (add_implicit imp h))) b)] /\ (idT imp = [] -> idM imp = [] -> h' = h)) /\
  (ttype (cur ts) = MAPSCRIPTS ->
   exists (tp : top) (imp : impdata),
     parse_mapscripts av sw ee pf c f ts = Ok (tp, imp, ts') /\
     h' = Datatypes.fst (add_implicit imp h) /\ tps = [patch_top (snd (add_implicit imp h)) tp] /\ (idT imp = [] -> idM imp = [] -> h' = h)).
Proof. exact Independence.top_step_state. Qed.
Print Assumptions top_step_state.

Theorem tops_run_context :
  forall (av : list (text * autovar)) (sw : list (text * text)) (ee : bool) (pf : toks -> res (token * text * text * toks)),
  format_advs pf ->
  format_local pf ->
  forall (ra : toks) (rb : list token),
  Consume.eof_ended ra ->
  rb <> [] ->
  class_ok ra rb ->
  forall (f : nat) (st : pstate) (x : toks) (f' : nat) (st' : pstate) (y : toks),
  tops_run av sw ee pf f st x f' st' y ->
  Gw ra 0 y ->
  forall st2 : pstate,
  pconsts st2 = pconsts st ->
  ph st2 = ph st ->
  exists (d d' : list top) (e : list textdef),
    ptops st' = ptops st ++ d /\
    ptexts st' = ptexts st ++ e /\
    shifted ra rb d d' /\
    tops_run av sw ee pf f st2 (swap ra rb x) f' {| pconsts := pconsts st'; ph := ph st'; ptops := ptops st2 ++ d'; ptexts := ptexts st2 ++ e |}
      (swap ra rb y).
Proof. exact Independence.tops_run_context. Qed.
Print Assumptions tops_run_context.

Theorem tops_run_parse_tops :
  forall (av : list (text * autovar)) (sw : list (text * text)) (ee : bool) (pf : toks -> res (token * text * text * toks)) 
    (f : nat) (st : pstate) (ts : toks) (f' : nat) (st' : pstate) (ts' : toks),
  tops_run av sw ee pf f st ts f' st' ts' -> parse_tops av sw ee pf f st ts = parse_tops av sw ee pf f' st' ts'.
Proof. exact Independence.tops_run_parse_tops. Qed.
Print Assumptions tops_run_parse_tops.

Theorem parse_tops_same_statements :
  forall (av : list (text * autovar)) (sw : list (text * text)) (ee : bool) (pf : toks -> res (token * text * text * toks)),
  format_advs pf ->
  format_local pf ->
  forall (ra : toks) (rb X : list token),
  Consume.eof_ended ra ->
  rb <> [] ->
  class_ok ra rb ->
  forall (f : nat) (st : pstate) (f' : nat) (st' : pstate),
  tops_run av sw ee pf f st (X ++ ra) f' st' ra ->
  forall stf : pstate,
  parse_tops av sw ee pf f st (X ++ rb) = Ok stf ->
  exists (d d' : list top) (e : list textdef) (rt : list top) (rx : list textdef),
    ptops st' = ptops st ++ d /\
    ptexts st' = ptexts st ++ e /\ shifted ra rb d d' /\ ptops stf = ptops st ++ d' ++ rt /\ ptexts stf = ptexts st ++ e ++ rx.
Proof. exact Independence.parse_tops_same_statements. Qed.
Print Assumptions parse_tops_same_statements.

Theorem same_statements_in_two_files :
  forall (av : list (text * autovar)) (sw : list (text * text)) (ee : bool) (pf : toks -> res (token * text * text * toks)),
  format_advs pf ->
  format_local pf ->
  format_lt pf ->
  forall (ra rb : toks) (A X : list token) (st0 : pstate),
  Consume.eof_ended ra ->
  Consume.eof_ended rb ->
  class_ok ra rb ->
  forall (F1 f1 : nat) (st1 : pstate),
  tops_run av sw ee pf F1 st0 (X ++ ra) f1 st1 ra ->
  5 * len (X ++ ra) + 4 <= F1 ->
  forall (F2 f2 : nat) (stA : pstate),
  tops_run av sw ee pf F2 st0 (A ++ X ++ rb) f2 stA (X ++ rb) ->
  5 * len (A ++ X ++ rb) + 4 <= F2 ->
  pconsts stA = pconsts st0 ->
  ph stA = ph st0 ->
  exists (d d' : list top) (e : list textdef),
    ptops st1 = ptops st0 ++ d /\
    ptexts st1 = ptexts st0 ++ e /\
    shifted ra rb d d' /\
    tops_run av sw ee pf F2 st0 (A ++ X ++ rb) (f2 - (F1 - f1))
      {| pconsts := pconsts st1; ph := ph st1; ptops := ptops stA ++ d'; ptexts := ptexts stA ++ e |} rb.
Proof. exact Independence.same_statements_in_two_files. Qed.
Print Assumptions same_statements_in_two_files.

Theorem top_step_context_real :
  forall (av : list (text * autovar)) (sw : list (text * text)) (ee : bool) (fc : fontcfg) (cli_font : text) (cli_maxlen : Z)
    (ra rb : list token),
  ra <> [] ->
  rb <> [] ->
  forall (f : nat) (c : list (text * text)) (h : hst) (x : toks) (c' : list (text * text)) (h' : hst) (tps : list top) 
    (txs : list textdef) (y : toks),
  top_step av sw ee (parse_format fc cli_font cli_maxlen ee) f c h x = Ok (c', h', tps, txs, y) ->
  Gw ra 1 y ->
  class_ok ra rb ->
  exists tps' : list top,
    top_step av sw ee (parse_format fc cli_font cli_maxlen ee) f c h (swap ra rb x) = Ok (c', h', tps', txs, swap ra rb y) /\
    (len ra <= len rb -> tps' = map (g_top (sh ra rb)) tps) /\ (len rb <= len ra -> tps = map (g_top (sh rb ra)) tps').
Proof. exact Independence.top_step_context_real. Qed.
Print Assumptions top_step_context_real.

Theorem tops_run_context_real :
  forall (av : list (text * autovar)) (sw : list (text * text)) (ee : bool) (fc : fontcfg) (cli_font : text) (cli_maxlen : Z) 
    (ra : toks) (rb : list token),
  Consume.eof_ended ra ->
  rb <> [] ->
  class_ok ra rb ->
  forall (f : nat) (st : pstate) (x : toks) (f' : nat) (st' : pstate) (y : toks),
  tops_run av sw ee (parse_format fc cli_font cli_maxlen ee) f st x f' st' y ->
  Gw ra 0 y ->
  forall st2 : pstate,
  pconsts st2 = pconsts st ->
  ph st2 = ph st ->
  exists (d d' : list top) (e : list textdef),
    ptops st' = ptops st ++ d /\
    ptexts st' = ptexts st ++ e /\
    shifted ra rb d d' /\
    tops_run av sw ee (parse_format fc cli_font cli_maxlen ee) f st2 (swap ra rb x) f'
      {| pconsts := pconsts st'; ph := ph st'; ptops := ptops st2 ++ d'; ptexts := ptexts st2 ++ e |} (swap ra rb y).
Proof. exact Independence.tops_run_context_real. Qed.
Print Assumptions tops_run_context_real.

Theorem parse_tops_same_statements_real :
  forall (av : list (text * autovar)) (sw : list (text * text)) (ee : bool) (fc : fontcfg) (cli_font : text) (cli_maxlen : Z) 
    (ra : toks) (rb X : list token),
  Consume.eof_ended ra ->
  rb <> [] ->
  class_ok ra rb ->
  forall (f : nat) (st : pstate) (f' : nat) (st' : pstate),
  tops_run av sw ee (parse_format fc cli_font cli_maxlen ee) f st (X ++ ra) f' st' ra ->
  forall stf : pstate,
  parse_tops av sw ee (parse_format fc cli_font cli_maxlen ee) f st (X ++ rb) = Ok stf ->
  exists (d d' : list top) (e : list textdef) (rt : list top) (rx : list textdef),
    ptops st' = ptops st ++ d /\
    ptexts st' = ptexts st ++ e /\ shifted ra rb d d' /\ ptops stf = ptops st ++ d' ++ rt /\ ptexts stf = ptexts st ++ e ++ rx.
Proof. exact Independence.parse_tops_same_statements_real. Qed.
Print Assumptions parse_tops_same_statements_real.

Theorem parse_program_same_statements_real :
  forall (av : list (text * autovar)) (sw : list (text * text)) (ee : bool) (fc : fontcfg) (cli_font : text) (cli_maxlen : Z) 
    (ra rb : toks) (A X : list token),
  Consume.eof_ended ra ->
  Consume.eof_ended rb ->
  class_ok ra rb ->
  let st0 := {| pconsts := []; ph := hst0; ptops := []; ptexts := [] |} in
  forall (f1 : nat) (st1 : pstate),
  tops_run av sw ee (parse_format fc cli_font cli_maxlen ee) (5 * len (X ++ ra) + 4) st0 (X ++ ra) f1 st1 ra ->
  forall (f2 : nat) (stA : pstate),
  tops_run av sw ee (parse_format fc cli_font cli_maxlen ee) (5 * len (A ++ X ++ rb) + 4) st0 (A ++ X ++ rb) f2 stA (X ++ rb) ->
  pconsts stA = [] ->
  ph stA = hst0 ->
  forall p : program,
  parse_program av sw ee (parse_format fc cli_font cli_maxlen ee) (A ++ X ++ rb) = Ok p ->
  exists (d' rt : list top) (ht rx : list textdef),
    shifted ra rb (ptops st1) d' /\ tops p = ptops stA ++ d' ++ rt /\ texts p = ht ++ ptexts stA ++ ptexts st1 ++ rx.
Proof. exact Independence.parse_program_same_statements_real. Qed.
Print Assumptions parse_program_same_statements_real.

