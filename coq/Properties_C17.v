(* C17 - Compilation is deterministic and independent of unrelated statements.
   The model is a Gallina function (lexer, parser, emitter): it has no state that survives a call, so the same input
   gives the same result by construction; that the Go program behaves like this function over histories of calls in one
   process is what the HIST correspondence checks. What is proved here is independence of unrelated statements. *)
From Coq Require Import List ZArith Bool.
From Pory Require Import Lexer Ast Emitter C17Proofs.
Import ListNotations.

(* the code of a program is the concatenation (with blank-line separators) of one block per top-level statement, each
   block computed from that statement alone, given the marker mode, -optimize and the set of text labels *)
Theorem emit_tops_compositional :
  forall mp tl opt l i,
    emit_tops mp tl opt l i = bind_i (collect mp tl opt l) (fun bs => Ok (seq_blocks bs i, (i + List.length bs)%nat)).
Proof. exact C17Proofs.emit_tops_compositional. Qed.
Print Assumptions emit_tops_compositional.

(* ... and the set of text labels (the only thing a script block sees of the rest of the file) can only turn a script into
   a clash error; it never changes emitted code *)
Theorem script_code_independent_of_texts :
  forall mp tl1 tl2 name glob opt body x y,
    emit_script mp tl1 name glob opt body = Ok x -> emit_script mp tl2 name glob opt body = Ok y -> x = y.
Proof. exact C17Proofs.script_code_independent_of_texts. Qed.
Print Assumptions script_code_independent_of_texts.
