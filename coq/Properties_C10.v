(* C10 - Commands pass through verbatim, in order, with their argument tokens. *)
From Coq Require Import List ZArith Bool String.
From Pory Require Import Lexer Ast Emitter EmitProps.
Import ListNotations.
Open Scope string_scope.
Open Scope list_scope.

Theorem command_line_without_args : forall c, cargs c = [] -> render_cmd c = tab ++ cname c ++ nl.
Proof. exact render_cmd_noargs. Qed.
Print Assumptions command_line_without_args.

Theorem command_line_with_args : forall c a r,
  cargs c = a :: r -> render_cmd c = tab ++ cname c ++ t " " ++ join (t ", ") (a :: r) ++ nl.
Proof. exact render_cmd_args. Qed.
Print Assumptions command_line_with_args.

(* within a chunk (a straight-line stretch) commands and labels come out in source order, none dropped or duplicated *)
Theorem commands_in_order :
  forall mp ss, filter is_cmd_or_label (flat_map (render_stmt mp) ss) = flat_map stmt_instr ss.
Proof. exact render_stmts_filter. Qed.
Print Assumptions commands_in_order.

(* ---------- the parser's argument collection (CmdArgs.v) ---------- *)
(* Source grammar of an argument list: pieces (plain tokens, parentheses, strings, typed strings, format(...), moves(...))
   grouped by commas; `render_group` = the pieces of a group, constants substituted token by token, joined by single spaces;
   `line_of` = the printed argument text. For every argument list of that grammar the command parser consumes exactly its
   tokens and returns the command with exactly those arguments, in order; a block of such commands is parsed into exactly those
   commands in order (nothing dropped, duplicated, merged or reordered); after hoisting, the final line is the name followed by
   the source tokens with inline texts / moves() replaced by their labels. *)

From Pory Require Import Parser Format Consume CmdArgs.
Theorem command_without_parentheses :
  forall (switches : list (text * text)) (env_errors : bool) (parse_format : toks -> res (token * text * text * toks))
    (consts : list (text * text)) (f : nat) (script : text) (ts : toks),
  peekis LPAREN ts = false ->
  command_stmt switches env_errors parse_format consts f script ts =
  Ok ({| cname := tlit (cur ts); cargs := []; ctok := cur ts; Ast.cid := Datatypes.length ts |}, imp0, ts).
Proof. exact CmdArgs.command_without_parentheses. Qed.
Print Assumptions command_without_parentheses.

Theorem command_with_empty_parentheses :
  forall (switches : list (text * text)) (env_errors : bool) (parse_format : toks -> res (token * text * text * toks))
    (consts : list (text * text)) (f : nat) (script : text) (name lp rp : token) (rest : list token),
  ttype lp = LPAREN ->
  ttype rp = RPAREN ->
  0 < f ->
  exists c : cmd,
    command_stmt switches env_errors parse_format consts f script (name :: lp :: rp :: rest) = Ok (c, imp0, rp :: rest) /\
    cname c = tlit name /\ cargs c = [].
Proof. exact CmdArgs.command_with_empty_parentheses. Qed.
Print Assumptions command_with_empty_parentheses.

Theorem command_with_arguments :
  forall (switches : list (text * text)) (env_errors : bool) (parse_format : toks -> res (token * text * text * toks))
    (consts : list (text * text)) (f : nat) (script : text) (name lp : token) (a : arglist) (rp : token) (rest : list token),
  ttype lp = LPAREN ->
  ttype rp = RPAREN ->
  wf_args switches env_errors parse_format a ->
  balanced (flat a) ->
  Datatypes.length (arg_tokens a) < f ->
  let ts := name :: lp :: arg_tokens a ++ rp :: rest in
  command_stmt switches env_errors parse_format consts f script ts =
  Ok
    ({| cname := tlit name; cargs := map (render_group consts) (strip_last_empty (groups_of a)); ctok := name; Ast.cid := Datatypes.length ts |},
     {|
       idT := groups_texts script (Datatypes.length ts) 0 (groups_of a); idM := groups_movs script name (Datatypes.length ts) 0 (groups_of a)
     |}, rp :: rest).
Proof. exact CmdArgs.command_with_arguments. Qed.
Print Assumptions command_with_arguments.

Theorem command_with_nonempty_arguments :
  forall (switches : list (text * text)) (env_errors : bool) (parse_format : toks -> res (token * text * text * toks))
    (consts : list (text * text)) (f : nat) (script : text) (name lp : token) (a : arglist) (rp : token) (rest : list token),
  ttype lp = LPAREN ->
  ttype rp = RPAREN ->
  wf_args switches env_errors parse_format a ->
  balanced (flat a) ->
  Forall (fun g : list piece => g <> []) (groups_of a) ->
  Datatypes.length (arg_tokens a) < f ->
  exists (c : cmd) (imp : impdata),
    command_stmt switches env_errors parse_format consts f script (name :: lp :: arg_tokens a ++ rp :: rest) = Ok (c, imp, rp :: rest) /\
    cname c = tlit name /\ cargs c = map (render_group consts) (groups_of a).
Proof. exact CmdArgs.command_with_nonempty_arguments. Qed.
Print Assumptions command_with_nonempty_arguments.

Theorem command_line :
  forall (switches : list (text * text)) (env_errors : bool) (parse_format : toks -> res (token * text * text * toks))
    (consts : list (text * text)) (f : nat) (script : text) (name lp : token) (a : arglist) (rp : token) (rest : list token),
  ttype lp = LPAREN ->
  ttype rp = RPAREN ->
  wf_args switches env_errors parse_format a ->
  balanced (flat a) ->
  Forall (fun g : list piece => g <> []) (groups_of a) ->
  Datatypes.length (arg_tokens a) < f ->
  exists (c : cmd) (imp : impdata),
    command_stmt switches env_errors parse_format consts f script (name :: lp :: arg_tokens a ++ rp :: rest) = Ok (c, imp, rp :: rest) /\
    render_cmd c = tab ++ tlit name ++ t " " ++ line_of consts (flat a) ++ nl.
Proof. exact CmdArgs.command_line. Qed.
Print Assumptions command_line.

Theorem command_statement_without_parentheses :
  forall (autovars : list (text * autovar)) (switches : list (text * text)) (env_errors : bool)
    (parse_format : toks -> res (token * text * text * toks)) (consts : list (text * text)) (f : nat) (script : text) 
    (bs cs : list nat) (ts : toks),
  ttype (cur ts) = IDENT ->
  peekis LPAREN ts = false ->
  peekis COLON ts = false ->
  parse_stmt autovars switches env_errors parse_format consts (S f) script bs cs ts =
  Ok ([SCmd {| cname := tlit (cur ts); cargs := []; ctok := cur ts; Ast.cid := Datatypes.length ts |}], imp0, ts).
Proof. exact CmdArgs.command_statement_without_parentheses. Qed.
Print Assumptions command_statement_without_parentheses.

Theorem command_statement_with_arguments :
  forall (autovars : list (text * autovar)) (switches : list (text * text)) (env_errors : bool)
    (parse_format : toks -> res (token * text * text * toks)) (consts : list (text * text)) (f : nat) (script : text) 
    (bs cs : list nat) (name lp : token) (a : arglist) (rp y : token) (K : list token),
  ttype name = IDENT ->
  ttype lp = LPAREN ->
  ttype rp = RPAREN ->
  wf_args switches env_errors parse_format a ->
  balanced (flat a) ->
  ttype y <> COLON ->
  Datatypes.length (arg_tokens a) < f ->
  let ts := name :: lp :: arg_tokens a ++ rp :: y :: K in
  parse_stmt autovars switches env_errors parse_format consts (S f) script bs cs ts =
  Ok
    ([SCmd
        {|
          cname := tlit name; cargs := map (render_group consts) (strip_last_empty (groups_of a)); ctok := name; Ast.cid := Datatypes.length ts
        |}],
     {|
       idT := groups_texts script (Datatypes.length ts) 0 (groups_of a); idM := groups_movs script name (Datatypes.length ts) 0 (groups_of a)
     |}, rp :: y :: K).
Proof. exact CmdArgs.command_statement_with_arguments. Qed.
Print Assumptions command_statement_with_arguments.

Theorem straight_line_commands :
  forall (autovars : list (text * autovar)) (switches : list (text * text)) (env_errors : bool)
    (parse_format : toks -> res (token * text * text * toks)) (consts : list (text * text)) (l : list cmdsrc),
  Forall (wf_cmdsrc switches env_errors parse_format) l ->
  forall (F : nat) (script : text) (bs cs : list nat) (start : token) (K : list token) (y : token) (K' : list token) 
    (acc : list stmt) (imp : impdata),
  K = y :: K' ->
  ttype y <> COLON ->
  ttype y <> LPAREN ->
  Datatypes.length (flat_map cmd_tokens l) + 2 < F ->
  parse_block autovars switches env_errors parse_format consts F script bs cs start (flat_map cmd_tokens l ++ K) acc imp =
  parse_block autovars switches env_errors parse_format consts (F - Datatypes.length l) script bs cs start K (acc ++ block_cmds consts l K)
    (block_imp script l K imp).
Proof. exact CmdArgs.straight_line_commands. Qed.
Print Assumptions straight_line_commands.

Theorem block_of_commands :
  forall (autovars : list (text * autovar)) (switches : list (text * text)) (env_errors : bool)
    (parse_format : toks -> res (token * text * text * toks)) (consts : list (text * text)) (l : list cmdsrc),
  Forall (wf_cmdsrc switches env_errors parse_format) l ->
  forall (F : nat) (script : text) (bs cs : list nat) (start rb : token) (rest : list token),
  ttype rb = RBRACE ->
  Datatypes.length (flat_map cmd_tokens l) + 2 < F ->
  parse_block autovars switches env_errors parse_format consts F script bs cs start (flat_map cmd_tokens l ++ rb :: rest) [] imp0 =
  Ok (block_cmds consts l (rb :: rest), block_imp script l (rb :: rest) imp0, rb :: rest).
Proof. exact CmdArgs.block_of_commands. Qed.
Print Assumptions block_of_commands.

Theorem command_inline_data_in_range :
  forall (switches : list (text * text)) (env_errors : bool) (parse_format : toks -> res (token * text * text * toks))
    (consts : list (text * text)) (f : nat) (script : text) (ts : toks) (c : cmd) (imp : impdata) (ts' : toks),
  command_stmt switches env_errors parse_format consts f script ts = Ok (c, imp, ts') ->
  cname c = tlit (cur ts) /\
  ctok c = cur ts /\
  Ast.cid c = Datatypes.length ts /\
  Forall (fun it : imptext => itCid it = Ast.cid c /\ itArg it < Datatypes.length (cargs c)) (idT imp) /\
  Forall (fun im : impmov => imCid im = Ast.cid c /\ imArg im < Datatypes.length (cargs c)) (idM imp).
Proof. exact CmdArgs.command_inline_data_in_range. Qed.
Print Assumptions command_inline_data_in_range.

Theorem patching_keeps_command :
  forall (switches : list (text * text)) (env_errors : bool) (parse_format : toks -> res (token * text * text * toks))
    (consts : list (text * text)) (f : nat) (script : text) (ts : toks) (c : cmd) (imp : impdata) (ts' : toks),
  command_stmt switches env_errors parse_format consts f script ts = Ok (c, imp, ts') ->
  forall (impB impA : impdata) (h h' : hst) (ps : list patch),
  (forall it : imptext, In it (idT impB ++ idT impA) -> itCid it <> Ast.cid c) ->
  (forall im : impmov, In im (idM impB ++ idM impA) -> imCid im <> Ast.cid c) ->
  add_implicit (impadd impB (impadd imp impA)) h = (h', ps) ->
  exists args' : list text,
    pcmd ps c = {| cname := cname c; cargs := args'; ctok := ctok c; Ast.cid := Ast.cid c |} /\
    Datatypes.length args' = Datatypes.length (cargs c).
Proof. exact CmdArgs.patching_keeps_command. Qed.
Print Assumptions patching_keeps_command.

Theorem inline_arguments_become_labels :
  forall (switches : list (text * text)) (env_errors : bool) (parse_format : toks -> res (token * text * text * toks))
    (consts : list (text * text)) (f : nat) (script : text) (name lp : token) (a : arglist) (rp : token) (rest : list token),
  ttype lp = LPAREN ->
  ttype rp = RPAREN ->
  wf_args switches env_errors parse_format a ->
  balanced (flat a) ->
  Forall simple_group (groups_of a) ->
  Datatypes.length (arg_tokens a) < f ->
  forall (c : cmd) (imp : impdata) (ts' : toks),
  command_stmt switches env_errors parse_format consts f script (name :: lp :: arg_tokens a ++ rp :: rest) = Ok (c, imp, ts') ->
  forall (impB impA : impdata) (h h' : hst) (ps : list patch),
  (forall it : imptext, In it (idT impB ++ idT impA) -> itCid it <> Ast.cid c) ->
  (forall im : impmov, In im (idM impB ++ idM impA) -> imCid im <> Ast.cid c) ->
  add_implicit (impadd impB (impadd imp impA)) h = (h', ps) ->
  exists args' : list text,
    pcmd ps c = {| cname := tlit name; cargs := args'; ctok := name; Ast.cid := Ast.cid c |} /\
    Forall2 (arg_of consts h') (strip_last_empty (groups_of a)) args'.
Proof. exact CmdArgs.inline_arguments_become_labels. Qed.
Print Assumptions inline_arguments_become_labels.

Theorem plain_command_final_line :
  forall (switches : list (text * text)) (env_errors : bool) (parse_format : toks -> res (token * text * text * toks))
    (consts : list (text * text)) (f : nat) (script : text) (name lp : token) (a : arglist) (rp : token) (rest : list token),
  ttype lp = LPAREN ->
  ttype rp = RPAREN ->
  wf_args switches env_errors parse_format a ->
  balanced (flat a) ->
  Forall (fun g : list piece => g <> [] /\ pure g) (groups_of a) ->
  Datatypes.length (arg_tokens a) < f ->
  forall (c : cmd) (imp : impdata) (ts' : toks),
  command_stmt switches env_errors parse_format consts f script (name :: lp :: arg_tokens a ++ rp :: rest) = Ok (c, imp, ts') ->
  forall (impB impA : impdata) (h h' : hst) (ps : list patch),
  (forall it : imptext, In it (idT impB ++ idT impA) -> itCid it <> Ast.cid c) ->
  (forall im : impmov, In im (idM impB ++ idM impA) -> imCid im <> Ast.cid c) ->
  add_implicit (impadd impB (impadd imp impA)) h = (h', ps) ->
  render_cmd (pcmd ps c) = tab ++ tlit name ++ t " " ++ line_of consts (flat a) ++ nl.
Proof. exact CmdArgs.plain_command_final_line. Qed.
Print Assumptions plain_command_final_line.

Theorem stretch_hoisted :
  forall (switches : list (text * text)) (env_errors : bool) (parse_format : toks -> res (token * text * text * toks))
    (consts : list (text * text)) (script : text) (l : list cmdsrc) (K : list token),
  Forall (wf_cmdsrc switches env_errors parse_format) l ->
  Forall simple_cmdsrc l ->
  forall (impB impA : impdata) (h h' : hst) (ps : list patch),
  (forall it : imptext, In it (idT impB) -> Datatypes.length (flat_map cmd_tokens l ++ K) < itCid it) ->
  (forall im : impmov, In im (idM impB) -> Datatypes.length (flat_map cmd_tokens l ++ K) < imCid im) ->
  (forall it : imptext, In it (idT impA) -> itCid it <= Datatypes.length K) ->
  (forall im : impmov, In im (idM impA) -> imCid im <= Datatypes.length K) ->
  add_implicit (impadd (block_imp script l K impB) impA) h = (h', ps) ->
  Forall2 (final_cmd consts h') l (map (pstmt ps) (block_cmds consts l K)).
Proof. exact CmdArgs.stretch_hoisted. Qed.
Print Assumptions stretch_hoisted.

Theorem block_of_commands_hoisted :
  forall (autovars : list (text * autovar)) (switches : list (text * text)) (env_errors : bool)
    (parse_format : toks -> res (token * text * text * toks)) (consts : list (text * text)) (l : list cmdsrc),
  Forall (wf_cmdsrc switches env_errors parse_format) l ->
  Forall simple_cmdsrc l ->
  forall (F : nat) (script : text) (bs cs : list nat) (start rb : token) (rest : list token) (b : list stmt) (imp : impdata) (ts' : toks),
  ttype rb = RBRACE ->
  Datatypes.length (flat_map cmd_tokens l) + 2 < F ->
  parse_block autovars switches env_errors parse_format consts F script bs cs start (flat_map cmd_tokens l ++ rb :: rest) [] imp0 =
  Ok (b, imp, ts') ->
  ts' = rb :: rest /\
  (forall (h h' : hst) (ps : list patch), add_implicit imp h = (h', ps) -> Forall2 (final_cmd consts h') l (map (pstmt ps) b)).
Proof. exact CmdArgs.block_of_commands_hoisted. Qed.
Print Assumptions block_of_commands_hoisted.

Theorem plain_moves_accepted :
  forall (switches : list (text * text)) (env_errors : bool) (steps : list mstep) (mvtok lp clo : token),
  Forall wf_mstep steps ->
  ttype lp = LPAREN ->
  ttype clo = RPAREN ->
  let lt := mvtok :: lp :: flat_map step_toks steps ++ [clo] in
  forall (f : nat) (R : list token),
  Datatypes.length lt <= f -> R <> [] -> moves_operator switches env_errors f (lt ++ R) = Ok (flat_map step_out steps, clo :: R).
Proof. exact CmdArgs.plain_moves_accepted. Qed.
Print Assumptions plain_moves_accepted.


(* ---- the converse and the end-to-end statement (CmdConverse.v). command_stmt_accepted / plain_command_exact: every token sequence
   command_stmt accepts is a command of the argument grammar (for streams without format() / moves(): accepted IFF in the grammar
   with balanced parentheses). patched_arguments / stretch_hoisted_gen: what every argument becomes after hoisting, with NO
   well-formedness premise (final_arg: the label of the last moves() of the group, else of the last inline text, else the
   rendered tokens - boundaries B5 / B10 as a theorem). emit_script_cmds / script_text_cmds: a body of commands is emitted as
   the label, one line per command in source order, the terminator. straight_line_script(_text): from the source tokens of
   `script NAME { commands }` to the output text, both settings: nothing dropped, duplicated, merged or reordered.
   condition_command: an AutoVar command inside a condition is the same command, rendered by the same render_cmd.
   chunks_are_source_stretches / stretch_rendered_in_order: inside control constructs every chunk holds consecutive simple
   statements of one source block, rendered consecutively in source order. Premise final_endret_bare: a final end / return
   written WITH arguments is rendered without them (known finding D22). ---- *)
From Pory Require Import CmdConverse. Open Scope list_scope.
Theorem command_stmt_accepted :
  forall (switches : list (text * text)) (env_errors : bool) (parse_format : toks -> res (token * text * text * toks))
    (consts : list (text * text)),
  (forall (ts : toks) (tk : token) (v sty : text) (ts' : toks),
   parse_format ts = Ok (tk, v, sty, ts') -> forall a : toks, advs a ts -> advs a ts') ->
  forall (f : nat) (script : text) (ts : toks) (c : cmd) (imp : impdata) (ts' : toks),
  eof_ended ts ->
  command_stmt switches env_errors parse_format consts f script ts = Ok (c, imp, ts') ->
  peekis LPAREN ts = false /\
  ts' = ts /\ imp = imp0 /\ c = {| cname := tlit (cur ts); cargs := []; ctok := cur ts; Ast.cid := Datatypes.length ts |} \/
  (exists (name lp : token) (a : arglist) (rp : token) (rest : list token),
     ts = name :: lp :: arg_tokens a ++ rp :: rest /\
     ts' = rp :: rest /\
     ttype lp = LPAREN /\
     ttype rp = RPAREN /\
     wf_args_at switches env_errors parse_format a (rp :: rest) /\
     balanced (flat a) /\ c = cmd_of consts name a (Datatypes.length ts) /\ imp = imp_of script name a (Datatypes.length ts)).
Proof. exact CmdConverse.command_stmt_accepted. Qed.
Print Assumptions command_stmt_accepted.

Theorem command_stmt_accepted_plain :
  forall (switches : list (text * text)) (env_errors : bool) (parse_format : toks -> res (token * text * text * toks))
    (consts : list (text * text)),
  (forall (ts : toks) (tk : token) (v sty : text) (ts' : toks),
   parse_format ts = Ok (tk, v, sty, ts') -> forall a : toks, advs a ts -> advs a ts') ->
  forall (f : nat) (script : text) (ts : toks) (c : cmd) (imp : impdata) (ts' : toks),
  eof_ended ts ->
  Forall no_subparser_tok ts ->
  peekis LPAREN ts = true ->
  command_stmt switches env_errors parse_format consts f script ts = Ok (c, imp, ts') ->
  exists (name lp : token) (a : arglist) (rp : token) (rest : list token),
    ts = name :: lp :: arg_tokens a ++ rp :: rest /\
    ts' = rp :: rest /\
    ttype lp = LPAREN /\
    ttype rp = RPAREN /\
    wf_args switches env_errors parse_format a /\
    balanced (flat a) /\ c = cmd_of consts name a (Datatypes.length ts) /\ imp = imp_of script name a (Datatypes.length ts).
Proof. exact CmdConverse.command_stmt_accepted_plain. Qed.
Print Assumptions command_stmt_accepted_plain.

Theorem plain_command_exact :
  forall (switches : list (text * text)) (env_errors : bool) (parse_format : toks -> res (token * text * text * toks))
    (consts : list (text * text)),
  (forall (ts : toks) (tk : token) (v sty : text) (ts' : toks),
   parse_format ts = Ok (tk, v, sty, ts') -> forall a : toks, advs a ts -> advs a ts') ->
  forall (script : text) (ts : toks),
  eof_ended ts ->
  Forall no_subparser_tok ts ->
  peekis LPAREN ts = true ->
  (exists (f : nat) (c : cmd) (imp : impdata) (ts' : toks), command_stmt switches env_errors parse_format consts f script ts = Ok (c, imp, ts')) <->
  (exists (name lp : token) (a : arglist) (rp : token) (rest : list token),
     ts = name :: lp :: arg_tokens a ++ rp :: rest /\
     ttype lp = LPAREN /\ ttype rp = RPAREN /\ wf_args switches env_errors parse_format a /\ balanced (flat a)).
Proof. exact CmdConverse.plain_command_exact. Qed.
Print Assumptions plain_command_exact.

Theorem balanced_iff_depth :
  forall es : list elem, balanced es <-> depth_e 0 es = Some 0.
Proof. exact CmdConverse.balanced_iff_depth. Qed.
Print Assumptions balanced_iff_depth.

Theorem patched_arguments :
  forall (consts : list (text * text)) (script : text) (name : token) (a : arglist) (n : nat) (impB impA : impdata) 
    (h h' : hst) (ps : list patch),
  (forall it : imptext, In it (idT impB ++ idT impA) -> itCid it <> n) ->
  (forall im : impmov, In im (idM impB ++ idM impA) -> imCid im <> n) ->
  add_implicit (impadd impB (impadd (imp_of script name a n) impA)) h = (h', ps) ->
  exists args' : list text,
    pcmd ps (cmd_of consts name a n) = {| cname := tlit name; cargs := args'; ctok := name; Ast.cid := n |} /\
    Forall2 (final_arg consts h') (strip_last_empty (groups_of a)) args'.
Proof. exact CmdConverse.patched_arguments. Qed.
Print Assumptions patched_arguments.

Theorem stretch_hoisted_gen :
  forall (consts : list (text * text)) (script : text) (l : list cmdsrc) (K : list token) (impB impA : impdata) (h h' : hst) (ps : list patch),
  (forall it : imptext, In it (idT impB) -> Datatypes.length (flat_map cmd_tokens l ++ K) < itCid it) ->
  (forall im : impmov, In im (idM impB) -> Datatypes.length (flat_map cmd_tokens l ++ K) < imCid im) ->
  (forall it : imptext, In it (idT impA) -> itCid it <= Datatypes.length K) ->
  (forall im : impmov, In im (idM impA) -> imCid im <= Datatypes.length K) ->
  add_implicit (impadd (block_imp script l K impB) impA) h = (h', ps) ->
  exists cs : list cmd, map (pstmt ps) (block_cmds consts l K) = map SCmd cs /\ Forall2 (final_command consts h') l cs.
Proof. exact CmdConverse.stretch_hoisted_gen. Qed.
Print Assumptions stretch_hoisted_gen.

Theorem emit_script_cmds :
  forall (mp : option text) (tl : list text) (name : text) (glob optimize : bool) (cs : list cmd),
  emit_script mp tl name glob optimize (map SCmd cs) =
  Emitter.Ok (ILabel name glob :: flat_map (render_stmt mp) (map SCmd (kept_cmds cs)) ++ [terminator cs; IBlank]).
Proof. exact CmdConverse.emit_script_cmds. Qed.
Print Assumptions emit_script_cmds.

Theorem emit_script_cmds_nomarkers :
  forall (tl : list text) (name : text) (glob optimize : bool) (cs : list cmd),
  emit_script None tl name glob optimize (map SCmd cs) = Emitter.Ok (ILabel name glob :: map ICmd (kept_cmds cs) ++ [terminator cs; IBlank]).
Proof. exact CmdConverse.emit_script_cmds_nomarkers. Qed.
Print Assumptions emit_script_cmds_nomarkers.

Theorem script_text_cmds :
  forall (tl : list text) (name : text) (glob optimize : bool) (cs : list cmd),
  final_endret_bare cs ->
  exists is : list instr,
    emit_script None tl name glob optimize (map SCmd cs) = Emitter.Ok is /\
    print_instrs None is =
    name ++
    (if glob then t "::" else t ":") ++
    nl ++ flat_map render_cmd cs ++ match last_endret cs with
                                    | Some _ => []
                                    | None => tab ++ t "return" ++ nl
                                    end ++ nl.
Proof. exact CmdConverse.script_text_cmds. Qed.
Print Assumptions script_text_cmds.

Theorem straight_line_script :
  forall (autovars : list (text * autovar)) (switches : list (text * text)) (env_errors : bool)
    (parse_format : toks -> res (token * text * text * toks)) (consts : list (text * text)) (l : list cmdsrc),
  Forall (wf_cmdsrc switches env_errors parse_format) l ->
  forall (F : nat) (hd : list token) (g : bool) (name lb rb : token) (rest : list token),
  script_head hd g ->
  ttype name = IDENT ->
  ttype lb = LBRACE ->
  ttype rb = RBRACE ->
  Datatypes.length (flat_map cmd_tokens l) + 2 < F ->
  exists (b : list stmt) (imp : impdata),
    parse_script autovars switches env_errors parse_format consts F (hd ++ name :: lb :: flat_map cmd_tokens l ++ rb :: rest) =
    Ok (tlit name, g, b, imp, rb :: rest) /\
    (forall (h h' : hst) (ps : list patch),
     add_implicit imp h = (h', ps) ->
     exists cs : list cmd,
       map (pstmt ps) b = map SCmd cs /\
       Forall2 (final_command consts h') l cs /\
       (forall (tl : list text) (optimize : bool),
        emit_script None tl (tlit name) g optimize (map (pstmt ps) b) =
        Emitter.Ok (ILabel (tlit name) g :: map ICmd (kept_cmds cs) ++ [terminator cs; IBlank]))).
Proof. exact CmdConverse.straight_line_script. Qed.
Print Assumptions straight_line_script.

Theorem straight_line_script_text :
  forall (autovars : list (text * autovar)) (switches : list (text * text)) (env_errors : bool)
    (parse_format : toks -> res (token * text * text * toks)) (consts : list (text * text)) (l : list cmdsrc),
  Forall (wf_cmdsrc switches env_errors parse_format) l ->
  Forall plain_cmdsrc l ->
  src_final_bare l ->
  forall (F : nat) (hd : list token) (g : bool) (name lb rb : token) (rest : list token),
  script_head hd g ->
  ttype name = IDENT ->
  ttype lb = LBRACE ->
  ttype rb = RBRACE ->
  Datatypes.length (flat_map cmd_tokens l) + 2 < F ->
  exists (b : list stmt) (imp : impdata),
    parse_script autovars switches env_errors parse_format consts F (hd ++ name :: lb :: flat_map cmd_tokens l ++ rb :: rest) =
    Ok (tlit name, g, b, imp, rb :: rest) /\
    (forall (h h' : hst) (ps : list patch) (tl : list text) (optimize : bool),
     add_implicit imp h = (h', ps) ->
     exists is : list instr,
       emit_script None tl (tlit name) g optimize (map (pstmt ps) b) = Emitter.Ok is /\
       print_instrs None is =
       tlit name ++
       (if g then t "::" else t ":") ++ nl ++ flat_map (src_line consts) l ++ (if src_needs_return l then tab ++ t "return" ++ nl else []) ++ nl).
Proof. exact CmdConverse.straight_line_script_text. Qed.
Print Assumptions straight_line_script_text.

Theorem condition_command :
  forall (autovars : list (text * autovar)) (switches : list (text * text)) (env_errors : bool)
    (parse_format : toks -> res (token * text * text * toks)) (consts : list (text * text)) (script : text) (f : nat) 
    (pre name lp : token) (a : arglist) (rp : token) (R : list token) (av : autovar) (v : text) (l : leaf) (imp : impdata) 
    (rest : toks),
  AutoVarParse.cmd_ok switches env_errors parse_format name lp a rp ->
  assoc autovars (tlit name) = Some av ->
  AutoVarParse.compared_var av (AutoVarParse.parsed_cmd consts name lp a rp R) = Some v ->
  Datatypes.length (arg_tokens a) < f ->
  R <> [] ->
  leaf_expr autovars switches env_errors parse_format consts f script (pre :: name :: lp :: arg_tokens a ++ rp :: R) = Ok (l, imp, rest) ->
  let n := Datatypes.length (name :: lp :: arg_tokens a ++ rp :: R) in
  lpre l = Some (cmd_of consts name a n) /\
  imp = imp_of script name a n /\
  (forall (impB impA : impdata) (h h' : hst) (ps : list patch),
   (forall it : imptext, In it (idT impB ++ idT impA) -> itCid it <> n) ->
   (forall im : impmov, In im (idM impB ++ idM impA) -> imCid im <> n) ->
   add_implicit (impadd impB (impadd imp impA)) h = (h', ps) ->
   exists args' : list text,
     let c' := {| cname := tlit name; cargs := args'; ctok := name; Ast.cid := n |} in
     lpre (pleaf ps l) = Some c' /\
     Forall2 (final_arg consts h') (strip_last_empty (groups_of a)) args' /\
     (forall (mp : option text) (nm : text) (ch : chunk) (next tr fa : Z),
      cbr ch = Some (BrLeaf (pleaf ps l) tr fa) ->
      exists more : list instr,
        Datatypes.fst (Datatypes.fst (render_branch mp nm ch next)) = ICmd c' :: more /\ print_instr [] (ICmd c') = render_cmd c')).
Proof. exact CmdConverse.condition_command. Qed.
Print Assumptions condition_command.

Theorem chunks_are_source_stretches :
  forall (body : list stmt) (w : wst),
  emit_graph body = Emitter.Ok w ->
  Worklist.src_ok body -> forall c : chunk, In c (finals w) -> Forall Tr.simple (cstmts c) /\ stretch_of body (cstmts c).
Proof. exact CmdConverse.chunks_are_source_stretches. Qed.
Print Assumptions chunks_are_source_stretches.

Theorem stretch_rendered_in_order :
  forall (mp : option text) (tl : list text) (name : text) (glob optimize : bool) (body : list stmt) (w : wst) (code : list instr),
  emit_graph body = Emitter.Ok w ->
  Worklist.src_ok body ->
  emit_script mp tl name glob optimize body = Emitter.Ok code ->
  forall c : chunk,
  In c (finals w) ->
  Forall Tr.simple (cstmts c) /\
  stretch_of body (cstmts c) /\ (exists before after : list instr, code = before ++ flat_map (render_stmt mp) (cstmts c) ++ after).
Proof. exact CmdConverse.stretch_rendered_in_order. Qed.
Print Assumptions stretch_rendered_in_order.


(* SwitchOperandCmd.v *)
From Pory Require SwitchOperandCmd.
Theorem switch_operand_statement :
  forall (autovars : list (text * autovar)) (switches : list (text * text)) (env_errors : bool)
    (parse_format : toks -> res (token * text * text * toks)) (consts : list (text * text)) (script : text) (f : nat) 
    (bs cs : list nat) (sw lp0 name lp : token) (a : arglist) (rp rp0 lb : token) (R : list token) (av : autovar) (v : text),
  ttype sw = SWITCH ->
  ttype lp0 = LPAREN ->
  AutoVarParse.cmd_ok switches env_errors parse_format name lp a rp ->
  ttype rp0 = RPAREN ->
  ttype lb = LBRACE ->
  assoc autovars (tlit name) = Some av ->
  AutoVarParse.compared_var av (AutoVarParse.parsed_cmd consts name lp a rp (rp0 :: lb :: R)) = Some v ->
  Datatypes.length (arg_tokens a) < f ->
  R <> [] ->
  let ts := sw :: lp0 :: name :: lp :: arg_tokens a ++ rp :: rp0 :: lb :: R in
  parse_stmt autovars switches env_errors parse_format consts (S (S f)) script bs cs ts =
  match parse_cases autovars switches env_errors parse_format consts f script (Datatypes.length ts :: bs) cs lb R [] [] false imp0 with
  | Ok ([], _, ts5) => err_range sw (cur ts5) "switch statement has no cases or default case"
  | Ok ((_ :: _) as cases, imp', ts5) =>
      Ok
        ([SCmd (AutoVarParse.parsed_cmd consts name lp a rp (rp0 :: lb :: R)); SSwitch (Datatypes.length ts) v (tline name) cases],
         impadd (AutoVarParse.parsed_imp script name lp a rp (rp0 :: lb :: R)) imp', ts5)
  | Err e => Err e
  | Panic => Panic
  | Fuel => Fuel
  end.
Proof. exact SwitchOperandCmd.switch_operand_statement. Qed.
Print Assumptions switch_operand_statement.

Theorem operand_pair_patched :
  forall (ps : list patch) (pre : list stmt) (c : cmd) (tg : nat) (v : text) (ol : Z) (cases : list (bool * text * Z * list stmt))
    (rest : list stmt),
  Forall Tr.simple pre ->
  exists cases' : list (bool * text * Z * list stmt),
    Datatypes.length cases' = Datatypes.length cases /\
    map (pstmt ps) (pre ++ SCmd c :: SSwitch tg v ol cases :: rest) =
    map (pstmt ps) pre ++ SCmd (pcmd ps c) :: SSwitch tg v ol cases' :: map (pstmt ps) rest /\ Forall Tr.simple (map (pstmt ps) pre).
Proof. exact SwitchOperandCmd.operand_pair_patched. Qed.
Print Assumptions operand_pair_patched.

Theorem switch_operand_block :
  forall (G : list chunk) (B O : tagmap) (pre : list stmt) (c : cmd) (tg : nat) (v : text) (ol : Z) (cases : list (bool * text * Z * list stmt))
    (rest : list stmt) (p ret : Z),
  Forall Tr.simple pre ->
  Tr.tr_block G B O (pre ++ SCmd c :: SSwitch tg v ol cases :: rest) p ret -> SwitchOperandCmd.operand_chunks G p pre c v cases.
Proof. exact SwitchOperandCmd.switch_operand_block. Qed.
Print Assumptions switch_operand_block.

Theorem switch_operand_graph :
  forall (body : list stmt) (w : wst) (pre : list stmt) (c : cmd) (tg : nat) (v : text) (ol : Z) (cases : list (bool * text * Z * list stmt))
    (rest : list stmt),
  emit_graph body = Emitter.Ok w ->
  Worklist.src_ok body ->
  body = pre ++ SCmd c :: SSwitch tg v ol cases :: rest -> Forall Tr.simple pre -> SwitchOperandCmd.operand_chunks (finals w) 0 pre c v cases.
Proof. exact SwitchOperandCmd.switch_operand_graph. Qed.
Print Assumptions switch_operand_graph.

Theorem switch_operand_emitted :
  forall (mp : option text) (tl : list text) (name : text) (glob optimize : bool) (body : list stmt) (w : wst) (code : list instr)
    (pre : list stmt) (c : cmd) (tg : nat) (v : text) (ol : Z) (cases : list (bool * text * Z * list stmt)) (rest : list stmt),
  emit_graph body = Emitter.Ok w ->
  Worklist.src_ok body ->
  emit_script mp tl name glob optimize body = Emitter.Ok code ->
  body = pre ++ SCmd c :: SSwitch tg v ol cases :: rest ->
  Forall Tr.simple pre ->
  exists (sid : BinNums.Z) (Z : list instr),
    code = ILabel name glob :: flat_map (render_stmt mp) pre ++ marker mp (tline (ctok c)) ++ ICmd c :: Z /\
    ((forall m : text -> bool, Sem2.select_case cases m = []) \/
     (exists sw Z' : list instr,
        SwitchOperandCmd.switch_lines mp name v sw /\
        (Z = sw ++ Z' \/
         Z = ILabel (lbl name sid) false :: sw ++ Z' \/
         (exists A : list instr, Z = IGoto (lbl name sid) :: IBlank :: A ++ ILabel (lbl name sid) false :: sw ++ Z')))).
Proof. exact SwitchOperandCmd.switch_operand_emitted. Qed.
Print Assumptions switch_operand_emitted.

