(* C10 - Commands pass through verbatim, in order, with their argument tokens. *)
From Coq Require Import List ZArith Bool String.
From Pory Require Import Lexer Ast Emitter EmitProps.
Import ListNotations.
Open Scope string_scope.
Open Scope list_scope.

Theorem command_line_without_args : forall c, cargs c = [] -> render_cmd c = tab ++ cname c ++ nl.
Proof. exact render_cmd_noargs. Qed.
Print Assumptions command_line_without_args.

Theorem command_line_with_args : forall c a r,
  cargs c = a :: r -> render_cmd c = tab ++ cname c ++ t " " ++ join (t ", ") (a :: r) ++ nl.
Proof. exact render_cmd_args. Qed.
Print Assumptions command_line_with_args.

(* within a chunk (a straight-line stretch) commands and labels come out in source order, none dropped or duplicated *)
Theorem commands_in_order :
  forall mp ss, filter is_cmd_or_label (flat_map (render_stmt mp) ss) = flat_map stmt_instr ss.
Proof. exact render_stmts_filter. Qed.
Print Assumptions commands_in_order.
