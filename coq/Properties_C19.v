(* C19 - Tokenisation ignores layout and comments and reports true positions.
   PARTIAL: proved is that every token's start and end line is a line of the source, for every input and every
   classification of non-ASCII code points; layout invariance and exact columns are decided per run by the LEX
   correspondence (all eight token fields) and the direct position oracle. *)
From Coq Require Import List ZArith Bool.
From Pory Require Import Lexer LexInv Tables TablesOK.
Import ListNotations.
Local Open Scope Z_scope.

Theorem token_lines_in_range_partial :
  forall is_letter_hi is_digit_hi is_space_hi (s : text),
    Forall (fun tk => 1 <= tline tk <= 1 + nl s /\ 1 <= teline tk <= 1 + nl s) (lex is_letter_hi is_digit_hi is_space_hi s).
Proof. exact lex_lines_in_range. Qed.
Print Assumptions token_lines_in_range_partial.

(* the keyword table of the model is the table of token/token.go (regenerated from /repo on every run) *)
Theorem keywords_are_the_go_table : go_keywords = keywords.
Proof. exact keywords_agree. Qed.
Print Assumptions keywords_are_the_go_table.
