(* C19 - Tokenisation ignores layout and comments and reports true positions.
   Proved, for every input and every classification of non-ASCII code points:
   - positions (tokens_are_located): line, byte column and character column of every token are those of its first character;
     non-string tokens stand verbatim there and end at start + length;
   - layout, first half (token_shapes_ignore_positions, layout_before_a_token_is_ignored, leading_layout_is_ignored): the
     sequence of token types and literals is a function of the remaining characters only, and any run of whitespace and
     complete comments in front of the point where the lexer starts a token changes nothing.
   - layout, second half (layout_between_tokens): at every point the lexer reaches between two tokens, inserting a gap that
     begins with a whitespace character changes nothing, neither for the tokens before that point nor for those after.
   - the rest (LexRest.v, second half of this file): gaps that begin with a comment directly after a token (allowed unless
     '/' meets '//'), the end of the file (trailing layout, unterminated last comment), end positions of string tokens.
   Not covered by a theorem: the claim about the compiled output (a corollary through the parser, which reads types and
   literals only: decided by the correspondence under PROJ text and the `layout` oracle). *)
From Coq Require Import List String ZArith NArith Bool.
Open Scope string_scope. Open Scope list_scope.
From Pory Require Import Lexer LexInv LexLayout LexPos LexBetween Tables TablesOK.
Import ListNotations.
Local Open Scope Z_scope.

Theorem token_lines_in_range_partial :
  forall is_letter_hi is_digit_hi is_space_hi (s : text),
    Forall (fun tk => 1 <= tline tk <= 1 + nl s /\ 1 <= teline tk <= 1 + nl s) (lex is_letter_hi is_digit_hi is_space_hi s).
Proof. exact lex_lines_in_range. Qed.
Print Assumptions token_lines_in_range_partial.

(* the keyword table of the model is the table of token/token.go (regenerated from /repo on every run) *)
Theorem keywords_are_the_go_table : go_keywords = keywords.
Proof. exact keywords_agree. Qed.
Print Assumptions keywords_are_the_go_table.


(* ---------- positions ---------- *)
Theorem tokens_are_located :
  forall is_letter_hi is_digit_hi is_space_hi (s : text),
    Forall (fun tk => ttype tk = EOF \/ located s tk) (lex is_letter_hi is_digit_hi is_space_hi s).
Proof. exact LexPos.tokens_are_located. Qed.
Print Assumptions tokens_are_located.

(* ---------- layout ---------- *)
(* types and literals do not depend on the position counters: two lexer states with the same remaining characters
   produce the same token types and literals (with any fuel) *)
Theorem token_shapes_ignore_positions :
  forall is_letter_hi is_digit_hi is_space_hi f l l', chs l = chs l' ->
    map shape (lex_all is_letter_hi is_digit_hi is_space_hi f l) = map shape (lex_all is_letter_hi is_digit_hi is_space_hi f l').
Proof. intros hl hd hs f l l' E. apply lex_all_leq. apply sim_leq. exact E. Qed.
Print Assumptions token_shapes_ignore_positions.

(* a gap (whitespace characters and '#' / '//' comments closed by their newline, in any mix) in front of the point where
   the lexer is about to read a token - at the start of the file or after any number of tokens - is ignored *)
Theorem layout_before_a_token_is_ignored :
  forall is_letter_hi is_digit_hi is_space_hi f g l l', gap g -> chs l = g ++ chs l' ->
    map shape (lex_all is_letter_hi is_digit_hi is_space_hi f l) = map shape (lex_all is_letter_hi is_digit_hi is_space_hi f l').
Proof. intros hl hd hs f g l l' G E. apply lex_all_leq. apply (gap_leq g); assumption. Qed.
Print Assumptions layout_before_a_token_is_ignored.

Theorem leading_layout_is_ignored :
  forall is_letter_hi is_digit_hi is_space_hi g s, gap g ->
    map shape (lex is_letter_hi is_digit_hi is_space_hi (g ++ s)) = map shape (lex is_letter_hi is_digit_hi is_space_hi s).
Proof. exact lex_leading_layout. Qed.
Print Assumptions leading_layout_is_ignored.

(* the lexer always terminates with fuel to spare: every token that is not the final EOF consumes a character *)
Theorem lexer_progress :
  forall is_letter_hi is_digit_hi is_space_hi l ts l', next_token_aux is_letter_hi is_digit_hi is_space_hi l = (ts, l', false) ->
    (List.length (chs l') < List.length (chs l))%nat.
Proof. exact next_token_progress. Qed.
Print Assumptions lexer_progress.


(* layout between tokens: if the lexer, run on p ++ r, stands after k tokens exactly in front of r, then a gap that begins
   with a whitespace character may be inserted there without changing any token type or literal *)
Theorem layout_between_tokens :
  forall is_letter_hi is_digit_hi is_space_hi (p r g : list N) (k : nat),
  r <> [] -> gap g -> (exists b g0, g = b :: g0 /\ is_ws b = true) ->
  reaches is_letter_hi is_digit_hi is_space_hi r k (init (p ++ r)) ->
  map shape (lex is_letter_hi is_digit_hi is_space_hi (p ++ g ++ r)) = map shape (lex is_letter_hi is_digit_hi is_space_hi (p ++ r)).
Proof. exact LexBetween.layout_between_tokens. Qed.
Print Assumptions layout_between_tokens.

(* non-vacuity: in "ab(c" the lexer stands in front of "(c" after one token *)
Theorem between_premise_example :
  reaches (fun _ => false) (fun _ => false) (fun _ => false) (t "(c") 1 (init (t "ab" ++ t "(c")).
Proof. exact reaches_example. Qed.
Print Assumptions between_premise_example.

(* ---- the rest (LexRest.v): (1) a gap that starts with a comment directly after a token - any gap may be inserted at a token
   boundary unless the text before ends with '/' and the gap begins with '/' (then "//" starts one character earlier:
   comment_gap_counterexample); (2) the end of the file: trailing whitespace and comments, the last comment possibly
   not closed by a newline, give no token before EOF; a file of layout only is EOF; (3) end positions of STRING tokens:
   line, byte column and character column of the position behind the closing quote of the last part. ---- *)

From Pory Require Import LexRest. Open Scope list_scope.
Theorem layout_between_tokens_any_gap :
  forall (is_letter_hi is_digit_hi is_space_hi : N -> bool) (p r g : list N) (k : nat),
  r <> [] ->
  gap g ->
  ~ fuses p g ->
  reaches is_letter_hi is_digit_hi is_space_hi r k (init (p ++ r)) ->
  map shape (lex is_letter_hi is_digit_hi is_space_hi (p ++ g ++ r)) = map shape (lex is_letter_hi is_digit_hi is_space_hi (p ++ r)).
Proof. exact LexRest.layout_between_tokens_any_gap. Qed.
Print Assumptions layout_between_tokens_any_gap.

Theorem trailing_layout_then_eof :
  forall (is_letter_hi is_digit_hi is_space_hi : N -> bool) (p r g : list N) (k : nat) (ts : list token) (lo' : lx),
  r <> [] ->
  runs is_letter_hi is_digit_hi is_space_hi k (init (p ++ r)) ts lo' ->
  chs lo' = r -> tgap g -> ~ fuses p g -> map shape (lex is_letter_hi is_digit_hi is_space_hi (p ++ g)) = map shape ts ++ [(EOF, [])].
Proof. exact LexRest.trailing_layout_then_eof. Qed.
Print Assumptions trailing_layout_then_eof.

Theorem trailing_layout_is_ignored :
  forall (is_letter_hi is_digit_hi is_space_hi : N -> bool) (p r g : list N) (k : nat),
  r <> [] ->
  reaches is_letter_hi is_digit_hi is_space_hi r k (init (p ++ r)) ->
  tgap g ->
  ~ fuses p g -> map shape (lex is_letter_hi is_digit_hi is_space_hi (p ++ g)) = map shape (lex is_letter_hi is_digit_hi is_space_hi p).
Proof. exact LexRest.trailing_layout_is_ignored. Qed.
Print Assumptions trailing_layout_is_ignored.

Theorem only_layout_is_eof :
  forall (is_letter_hi is_digit_hi is_space_hi : N -> bool) (g : list N),
  tgap g -> map shape (lex is_letter_hi is_digit_hi is_space_hi g) = [(EOF, [])].
Proof. exact LexRest.only_layout_is_eof. Qed.
Print Assumptions only_layout_is_eof.

Theorem comment_gap_counterexample :
  reaches no_hi no_hi no_hi (t "a") 1 (init (t "/" ++ t "a")) /\
  gap (47%N :: 47%N :: [120%N] ++ [10%N]) /\
  map shape (lex no_hi no_hi no_hi (t "/" ++ (47%N :: 47%N :: [120%N] ++ [10%N]) ++ t "a")) = [(IDENT, t "a"); (EOF, [])] /\
  map shape (lex no_hi no_hi no_hi (t "/" ++ t "a")) = [(ILLEGAL, t "/"); (IDENT, t "a"); (EOF, [])].
Proof. exact LexRest.comment_gap_counterexample. Qed.
Print Assumptions comment_gap_counterexample.

Theorem string_tokens_end_located :
  forall (is_letter_hi is_digit_hi is_space_hi : N -> bool) (s : text),
  Forall (fun tk : token => ttype tk = STRING -> string_ends s tk) (lex is_letter_hi is_digit_hi is_space_hi s).
Proof. exact LexRest.string_tokens_end_located. Qed.
Print Assumptions string_tokens_end_located.

Theorem string_token_end_of_parts :
  forall (hl hd hs : N -> bool) (s pre : list N) (ps : list (list N * list N)) (b g r : list N) (k : nat) (ts : list token) (l : lx),
  s = pre ++ TextLex.src_parts (ps ++ [(b, g)]) ++ r ->
  runs hl hd hs k (init s) ts l ->
  chs (skipall l) = TextLex.src_parts (ps ++ [(b, g)]) ++ r ->
  Forall TextLex.part_ok (ps ++ [(b, g)]) ->
  TextLex.no_quote r ->
  exists (tk : token) (l' : lx),
    next_token_aux hl hd hs l = ([tk], l', false) /\
    ttype tk = STRING /\
    (tline tk, tsb tk, tsu tk) = endpos pre /\ (teline tk, teb tk, teu tk) = endpos (pre ++ TextLex.src_parts ps ++ 34%N :: b ++ [34%N]).
Proof. exact LexRest.string_token_end_of_parts. Qed.
Print Assumptions string_token_end_of_parts.

Theorem one_line_string_end :
  forall (hl hd hs : N -> bool) (s pre b g r : list N) (k : nat) (ts : list token) (l : lx),
  s = pre ++ (34%N :: b ++ 34%N :: g) ++ r ->
  runs hl hd hs k (init s) ts l ->
  chs (skipall l) = (34%N :: b ++ 34%N :: g) ++ r ->
  TextLex.body_ok b ->
  Forall (fun c : N => c <> 10%N) b ->
  gap g ->
  TextLex.no_quote r ->
  exists (tk : token) (l' : lx),
    next_token_aux hl hd hs l = ([tk], l', false) /\
    ttype tk = STRING /\ teline tk = tline tk /\ teb tk = tsb tk + bytes b + 2 /\ teu tk = tsu tk + Z.of_nat (Datatypes.length b) + 2.
Proof. exact LexRest.one_line_string_end. Qed.
Print Assumptions one_line_string_end.


(* ---- 'and hence never changes the compiled output without line markers', emitter half (ShapeEmit.v): with line markers off
   the emitter's result is a function of the ERASURE of the program (every token of the AST with its six position fields set
   to 0, every line field 0): emit_program_erase, emit_program_instrs_erase, print_instrs_erase; two programs of equal
   erasure give the same text, or a label clash at tokens of the same type and literal (equal_erasures_equal_output,
   compile_equal_erasures). equal_shapes_equal_output / leading_ / layout_between_tokens_ / trailing_layout_same_output:
   layout does not change the compiled output, given that the parser reads token types and literals only (premise
   parser_reads_shapes = the main theorem of ShapeParse.v, parser half). ex_markers_differ: with markers on the outputs
   differ, so 'without line markers' is necessary. ---- *)
From Pory Require Import Ast Emitter ShapeEmit. Open Scope list_scope.
Theorem emit_program_erase :
  forall (optimize : bool) (p : program), emit_program optimize None (erase_program p) = eres (fun x : text => x) (emit_program optimize None p).
Proof. exact ShapeEmit.emit_program_erase. Qed.
Print Assumptions emit_program_erase.

Theorem emit_program_erase_ok :
  forall (optimize : bool) (p : program) (x : text), emit_program optimize None p = Ok x <-> emit_program optimize None (erase_program p) = Ok x.
Proof. exact ShapeEmit.emit_program_erase_ok. Qed.
Print Assumptions emit_program_erase_ok.

Theorem emit_program_erase_label :
  forall (optimize : bool) (p : program) (tk : token) (b : bool),
  emit_program optimize None p = ErrLabel tk b -> emit_program optimize None (erase_program p) = ErrLabel (erase_tok tk) b.
Proof. exact ShapeEmit.emit_program_erase_label. Qed.
Print Assumptions emit_program_erase_label.

Theorem emit_program_instrs_erase :
  forall (optimize : bool) (p : program),
  emit_program_instrs optimize None (erase_program p) = eres erase_instrs (emit_program_instrs optimize None p).
Proof. exact ShapeEmit.emit_program_instrs_erase. Qed.
Print Assumptions emit_program_instrs_erase.

Theorem print_instrs_erase :
  forall (mpath : option text) (is : list instr), print_instrs mpath (erase_instrs is) = print_instrs mpath is.
Proof. exact ShapeEmit.print_instrs_erase. Qed.
Print Assumptions print_instrs_erase.

Theorem equal_erasures_equal_output :
  forall (optimize : bool) (p1 p2 : program),
  erase_program p1 = erase_program p2 -> same_result (emit_program optimize None p1) (emit_program optimize None p2).
Proof. exact ShapeEmit.equal_erasures_equal_output. Qed.
Print Assumptions equal_erasures_equal_output.

Theorem equal_erasures_equal_text :
  forall (optimize : bool) (p1 p2 : program) (x : text),
  erase_program p1 = erase_program p2 -> emit_program optimize None p1 = Ok x -> emit_program optimize None p2 = Ok x.
Proof. exact ShapeEmit.equal_erasures_equal_text. Qed.
Print Assumptions equal_erasures_equal_text.

Theorem compile_equal_erasures :
  forall (is_letter_hi is_digit_hi is_space_hi : N -> bool) (autovars : list (text * Parser.autovar)) (switches : list (text * text))
    (env_errors : bool) (fc : Format.fontcfg) (cli_font : text) (cli_maxlen : Z) (optimize : bool) (src1 src2 : text) 
    (p1 p2 : program),
  Parser.parse_program autovars switches env_errors (Format.parse_format fc cli_font cli_maxlen env_errors)
    (lex is_letter_hi is_digit_hi is_space_hi src1) = Parser.Ok p1 ->
  Parser.parse_program autovars switches env_errors (Format.parse_format fc cli_font cli_maxlen env_errors)
    (lex is_letter_hi is_digit_hi is_space_hi src2) = Parser.Ok p2 ->
  erase_program p1 = erase_program p2 ->
  same_outcome (Compile.compile is_letter_hi is_digit_hi is_space_hi autovars switches env_errors fc cli_font cli_maxlen optimize None src1)
    (Compile.compile is_letter_hi is_digit_hi is_space_hi autovars switches env_errors fc cli_font cli_maxlen optimize None src2).
Proof. exact ShapeEmit.compile_equal_erasures. Qed.
Print Assumptions compile_equal_erasures.

Theorem compile_equal_erasures_text :
  forall (is_letter_hi is_digit_hi is_space_hi : N -> bool) (autovars : list (text * Parser.autovar)) (switches : list (text * text))
    (env_errors : bool) (fc : Format.fontcfg) (cli_font : text) (cli_maxlen : Z) (optimize : bool) (src1 src2 : text) 
    (p1 p2 : program) (out : text),
  Parser.parse_program autovars switches env_errors (Format.parse_format fc cli_font cli_maxlen env_errors)
    (lex is_letter_hi is_digit_hi is_space_hi src1) = Parser.Ok p1 ->
  Parser.parse_program autovars switches env_errors (Format.parse_format fc cli_font cli_maxlen env_errors)
    (lex is_letter_hi is_digit_hi is_space_hi src2) = Parser.Ok p2 ->
  erase_program p1 = erase_program p2 ->
  Compile.compile is_letter_hi is_digit_hi is_space_hi autovars switches env_errors fc cli_font cli_maxlen optimize None src1 =
  Compile.OutText out ->
  Compile.compile is_letter_hi is_digit_hi is_space_hi autovars switches env_errors fc cli_font cli_maxlen optimize None src2 =
  Compile.OutText out.
Proof. exact ShapeEmit.compile_equal_erasures_text. Qed.
Print Assumptions compile_equal_erasures_text.

Theorem compile_agree :
  forall (is_letter_hi is_digit_hi is_space_hi : N -> bool) (autovars : list (text * Parser.autovar)) (switches : list (text * text))
    (env_errors : bool) (fc : Format.fontcfg) (cli_font : text) (cli_maxlen : Z) (optimize : bool) (src1 src2 : text),
  parse_agree
    (Parser.parse_program autovars switches env_errors (Format.parse_format fc cli_font cli_maxlen env_errors)
       (lex is_letter_hi is_digit_hi is_space_hi src1))
    (Parser.parse_program autovars switches env_errors (Format.parse_format fc cli_font cli_maxlen env_errors)
       (lex is_letter_hi is_digit_hi is_space_hi src2)) ->
  agree_outcome (Compile.compile is_letter_hi is_digit_hi is_space_hi autovars switches env_errors fc cli_font cli_maxlen optimize None src1)
    (Compile.compile is_letter_hi is_digit_hi is_space_hi autovars switches env_errors fc cli_font cli_maxlen optimize None src2).
Proof. exact ShapeEmit.compile_agree. Qed.
Print Assumptions compile_agree.

Theorem commuting_parser_reads_shapes :
  forall (ep : Parser.perr -> Parser.perr) (P : list token -> Parser.res program),
  (forall e : Parser.perr, Parser.emsg (ep e) = Parser.emsg e) ->
  (forall ts : list token, P (map erase_tok ts) = erase_pres ep (P ts)) ->
  forall ts1 ts2 : list token, map shape ts1 = map shape ts2 -> parse_agree (P ts1) (P ts2).
Proof. exact ShapeEmit.commuting_parser_reads_shapes. Qed.
Print Assumptions commuting_parser_reads_shapes.

Theorem equal_shapes_equal_output :
  forall (is_letter_hi is_digit_hi is_space_hi : N -> bool) (autovars : list (text * Parser.autovar)) (switches : list (text * text))
    (env_errors : bool) (fc : Format.fontcfg) (cli_font : text) (cli_maxlen : Z),
  (forall ts1 ts2 : list token,
   map shape ts1 = map shape ts2 ->
   parse_agree (Parser.parse_program autovars switches env_errors (Format.parse_format fc cli_font cli_maxlen env_errors) ts1)
     (Parser.parse_program autovars switches env_errors (Format.parse_format fc cli_font cli_maxlen env_errors) ts2)) ->
  forall (optimize : bool) (src1 src2 : text),
  map shape (lex is_letter_hi is_digit_hi is_space_hi src1) = map shape (lex is_letter_hi is_digit_hi is_space_hi src2) ->
  agree_outcome (Compile.compile is_letter_hi is_digit_hi is_space_hi autovars switches env_errors fc cli_font cli_maxlen optimize None src1)
    (Compile.compile is_letter_hi is_digit_hi is_space_hi autovars switches env_errors fc cli_font cli_maxlen optimize None src2).
Proof. exact ShapeEmit.equal_shapes_equal_output. Qed.
Print Assumptions equal_shapes_equal_output.

Theorem leading_layout_same_output :
  forall (is_letter_hi is_digit_hi is_space_hi : N -> bool) (autovars : list (text * Parser.autovar)) (switches : list (text * text))
    (env_errors : bool) (fc : Format.fontcfg) (cli_font : text) (cli_maxlen : Z),
  (forall ts1 ts2 : list token,
   map shape ts1 = map shape ts2 ->
   parse_agree (Parser.parse_program autovars switches env_errors (Format.parse_format fc cli_font cli_maxlen env_errors) ts1)
     (Parser.parse_program autovars switches env_errors (Format.parse_format fc cli_font cli_maxlen env_errors) ts2)) ->
  forall (optimize : bool) (g s : list N),
  gap g ->
  agree_outcome
    (Compile.compile is_letter_hi is_digit_hi is_space_hi autovars switches env_errors fc cli_font cli_maxlen optimize None (g ++ s))
    (Compile.compile is_letter_hi is_digit_hi is_space_hi autovars switches env_errors fc cli_font cli_maxlen optimize None s).
Proof. exact ShapeEmit.leading_layout_same_output. Qed.
Print Assumptions leading_layout_same_output.

Theorem layout_between_tokens_same_output :
  forall (is_letter_hi is_digit_hi is_space_hi : N -> bool) (autovars : list (text * Parser.autovar)) (switches : list (text * text))
    (env_errors : bool) (fc : Format.fontcfg) (cli_font : text) (cli_maxlen : Z),
  (forall ts1 ts2 : list token,
   map shape ts1 = map shape ts2 ->
   parse_agree (Parser.parse_program autovars switches env_errors (Format.parse_format fc cli_font cli_maxlen env_errors) ts1)
     (Parser.parse_program autovars switches env_errors (Format.parse_format fc cli_font cli_maxlen env_errors) ts2)) ->
  forall (optimize : bool) (p r g : list N) (k : nat),
  r <> [] ->
  gap g ->
  ~ fuses p g ->
  reaches is_letter_hi is_digit_hi is_space_hi r k (init (p ++ r)) ->
  agree_outcome
    (Compile.compile is_letter_hi is_digit_hi is_space_hi autovars switches env_errors fc cli_font cli_maxlen optimize None (p ++ g ++ r))
    (Compile.compile is_letter_hi is_digit_hi is_space_hi autovars switches env_errors fc cli_font cli_maxlen optimize None (p ++ r)).
Proof. exact ShapeEmit.layout_between_tokens_same_output. Qed.
Print Assumptions layout_between_tokens_same_output.

Theorem trailing_layout_same_output :
  forall (is_letter_hi is_digit_hi is_space_hi : N -> bool) (autovars : list (text * Parser.autovar)) (switches : list (text * text))
    (env_errors : bool) (fc : Format.fontcfg) (cli_font : text) (cli_maxlen : Z),
  (forall ts1 ts2 : list token,
   map shape ts1 = map shape ts2 ->
   parse_agree (Parser.parse_program autovars switches env_errors (Format.parse_format fc cli_font cli_maxlen env_errors) ts1)
     (Parser.parse_program autovars switches env_errors (Format.parse_format fc cli_font cli_maxlen env_errors) ts2)) ->
  forall (optimize : bool) (p r g : list N) (k : nat),
  r <> [] ->
  reaches is_letter_hi is_digit_hi is_space_hi r k (init (p ++ r)) ->
  tgap g ->
  ~ fuses p g ->
  agree_outcome
    (Compile.compile is_letter_hi is_digit_hi is_space_hi autovars switches env_errors fc cli_font cli_maxlen optimize None (p ++ g))
    (Compile.compile is_letter_hi is_digit_hi is_space_hi autovars switches env_errors fc cli_font cli_maxlen optimize None p).
Proof. exact ShapeEmit.trailing_layout_same_output. Qed.
Print Assumptions trailing_layout_same_output.

Theorem erase_program_idem :
  forall p : program, erase_program (erase_program p) = erase_program p.
Proof. exact ShapeEmit.erase_program_idem. Qed.
Print Assumptions erase_program_idem.


(* ---- parser half (ShapeParse.v): the parser reads token types and literals only. parse_program_commutes_with_erasure: parsing
   the position-erased token list gives the erased result (Ok programs erased, errors with erased positions); hence
   parser_reads_shapes_only / equal_shapes_parse_agree: two token lists of equal shapes are accepted or rejected together, with
   programs of equal erasure / errors of the same message - for the real format() operator too (parse_format_erase_real).
   COMPOSED (ShapeCompose.v), no hypothesis left: same_tokens_same_output, leading_ / layout_between_tokens_ /
   trailing_layout_never_changes_the_output: inserting or removing spaces, tabs, newlines and comments between tokens never
   changes the compiled output without line markers (the same text; or an error with the same message; or the same
   failure kind), for every configuration, mode and both -optimize settings. ---- *)
From Pory Require ShapeParse. From Pory Require Import ShapeCompose. Open Scope list_scope.
Theorem parse_program_commutes_with_erasure :
  forall (autovars : list (text * Parser.autovar)) (switches : list (text * text)) (env_errors : bool) (fc : Format.fontcfg) 
    (cli_font : text) (cli_maxlen : Z) (ts : list token),
  Parser.parse_program autovars switches env_errors (Format.parse_format fc cli_font cli_maxlen env_errors) (map ShapeParse.erase_tok ts) =
  ShapeParse.erase_res ShapeParse.erase_program
    (Parser.parse_program autovars switches env_errors (Format.parse_format fc cli_font cli_maxlen env_errors) ts).
Proof. exact ShapeParse.parse_program_commutes_with_erasure. Qed.
Print Assumptions parse_program_commutes_with_erasure.

Theorem parser_reads_shapes_only :
  forall (autovars : list (text * Parser.autovar)) (switches : list (text * text)) (env_errors : bool) (fc : Format.fontcfg) 
    (cli_font : text) (cli_maxlen : Z) (ts1 ts2 : list token),
  map shape ts1 = map shape ts2 ->
  ShapeParse.erase_res ShapeParse.erase_program
    (Parser.parse_program autovars switches env_errors (Format.parse_format fc cli_font cli_maxlen env_errors) ts1) =
  ShapeParse.erase_res ShapeParse.erase_program
    (Parser.parse_program autovars switches env_errors (Format.parse_format fc cli_font cli_maxlen env_errors) ts2).
Proof. exact ShapeParse.parser_reads_shapes_only. Qed.
Print Assumptions parser_reads_shapes_only.

Theorem equal_shapes_parse_agree :
  forall (autovars : list (text * Parser.autovar)) (switches : list (text * text)) (env_errors : bool) (fc : Format.fontcfg) 
    (cli_font : text) (cli_maxlen : Z) (ts1 ts2 : list token),
  map shape ts1 = map shape ts2 ->
  ShapeParse.parse_agree (Parser.parse_program autovars switches env_errors (Format.parse_format fc cli_font cli_maxlen env_errors) ts1)
    (Parser.parse_program autovars switches env_errors (Format.parse_format fc cli_font cli_maxlen env_errors) ts2).
Proof. exact ShapeParse.equal_shapes_parse_agree. Qed.
Print Assumptions equal_shapes_parse_agree.

Theorem equal_shapes_accepted_together :
  forall (autovars : list (text * Parser.autovar)) (switches : list (text * text)) (env_errors : bool) (fc : Format.fontcfg) 
    (cli_font : text) (cli_maxlen : Z) (ts1 ts2 : list token),
  map shape ts1 = map shape ts2 ->
  (exists p1 : program,
     Parser.parse_program autovars switches env_errors (Format.parse_format fc cli_font cli_maxlen env_errors) ts1 = Parser.Ok p1) <->
  (exists p2 : program,
     Parser.parse_program autovars switches env_errors (Format.parse_format fc cli_font cli_maxlen env_errors) ts2 = Parser.Ok p2).
Proof. exact ShapeParse.equal_shapes_accepted_together. Qed.
Print Assumptions equal_shapes_accepted_together.

Theorem equal_shapes_same_error :
  forall (autovars : list (text * Parser.autovar)) (switches : list (text * text)) (env_errors : bool) (fc : Format.fontcfg) 
    (cli_font : text) (cli_maxlen : Z) (ts1 ts2 : list token) (e1 : Parser.perr),
  map shape ts1 = map shape ts2 ->
  Parser.parse_program autovars switches env_errors (Format.parse_format fc cli_font cli_maxlen env_errors) ts1 = Parser.Err e1 ->
  exists e2 : Parser.perr,
    Parser.parse_program autovars switches env_errors (Format.parse_format fc cli_font cli_maxlen env_errors) ts2 = Parser.Err e2 /\
    Parser.emsg e2 = Parser.emsg e1.
Proof. exact ShapeParse.equal_shapes_same_error. Qed.
Print Assumptions equal_shapes_same_error.

Theorem parse_format_erase_real :
  forall (fc : Format.fontcfg) (cli_font : text) (cli_maxlen : Z) (env_errors : bool) (ts : list token),
  Format.parse_format fc cli_font cli_maxlen env_errors (map ShapeParse.erase_tok ts) =
  ShapeParse.erase_res (ShapeParse.ep4 ShapeParse.erase_tok ShapeParse.same ShapeParse.same (map ShapeParse.erase_tok))
    (Format.parse_format fc cli_font cli_maxlen env_errors ts).
Proof. exact ShapeParse.parse_format_erase_real. Qed.
Print Assumptions parse_format_erase_real.

Theorem same_tokens_same_output :
  forall (hl hd hs : N -> bool) (autovars : list (text * Parser.autovar)) (switches : list (text * text)) (ee : bool) 
    (fc : Format.fontcfg) (cli_font : text) (cli_maxlen : Z) (optimize : bool) (src1 src2 : text),
  map shape (lex hl hd hs src1) = map shape (lex hl hd hs src2) ->
  agree_outcome (Compile.compile hl hd hs autovars switches ee fc cli_font cli_maxlen optimize None src1)
    (Compile.compile hl hd hs autovars switches ee fc cli_font cli_maxlen optimize None src2).
Proof. exact ShapeCompose.same_tokens_same_output. Qed.
Print Assumptions same_tokens_same_output.

Theorem leading_layout_never_changes_the_output :
  forall (hl hd hs : N -> bool) (autovars : list (text * Parser.autovar)) (switches : list (text * text)) (ee : bool) 
    (fc : Format.fontcfg) (cli_font : text) (cli_maxlen : Z) (optimize : bool) (g s : list N),
  gap g ->
  agree_outcome (Compile.compile hl hd hs autovars switches ee fc cli_font cli_maxlen optimize None (g ++ s))
    (Compile.compile hl hd hs autovars switches ee fc cli_font cli_maxlen optimize None s).
Proof. exact ShapeCompose.leading_layout_never_changes_the_output. Qed.
Print Assumptions leading_layout_never_changes_the_output.

Theorem layout_between_tokens_never_changes_the_output :
  forall (hl hd hs : N -> bool) (autovars : list (text * Parser.autovar)) (switches : list (text * text)) (ee : bool) 
    (fc : Format.fontcfg) (cli_font : text) (cli_maxlen : Z) (optimize : bool) (p r g : list N) (k : nat),
  r <> [] ->
  gap g ->
  ~ fuses p g ->
  reaches hl hd hs r k (init (p ++ r)) ->
  agree_outcome (Compile.compile hl hd hs autovars switches ee fc cli_font cli_maxlen optimize None (p ++ g ++ r))
    (Compile.compile hl hd hs autovars switches ee fc cli_font cli_maxlen optimize None (p ++ r)).
Proof. exact ShapeCompose.layout_between_tokens_never_changes_the_output. Qed.
Print Assumptions layout_between_tokens_never_changes_the_output.

Theorem trailing_layout_never_changes_the_output :
  forall (hl hd hs : N -> bool) (autovars : list (text * Parser.autovar)) (switches : list (text * text)) (ee : bool) 
    (fc : Format.fontcfg) (cli_font : text) (cli_maxlen : Z) (optimize : bool) (p r g : list N) (k : nat),
  r <> [] ->
  reaches hl hd hs r k (init (p ++ r)) ->
  tgap g ->
  ~ fuses p g ->
  agree_outcome (Compile.compile hl hd hs autovars switches ee fc cli_font cli_maxlen optimize None (p ++ g))
    (Compile.compile hl hd hs autovars switches ee fc cli_font cli_maxlen optimize None p).
Proof. exact ShapeCompose.trailing_layout_never_changes_the_output. Qed.
Print Assumptions trailing_layout_never_changes_the_output.

