(* C19 - Tokenisation ignores layout and comments and reports true positions.
   Proved, for every input and every classification of non-ASCII code points:
   - positions (tokens_are_located): line, byte column and character column of every token are those of its first character;
     non-string tokens stand verbatim there and end at start + length;
   - layout, first half (token_shapes_ignore_positions, layout_before_a_token_is_ignored, leading_layout_is_ignored): the
     sequence of token types and literals is a function of the remaining characters only, and any run of whitespace and
     complete comments in front of the point where the lexer starts a token changes nothing.
   PARTIAL: that inserting layout directly after a token does not change the tokens before it ("the scanners stop at
   whitespace") is not proved; it is decided per run by the LEXPAIR correspondence (lexeme sequences in two layouts). *)
From Coq Require Import List ZArith Bool.
From Pory Require Import Lexer LexInv LexLayout LexPos Tables TablesOK.
Import ListNotations.
Local Open Scope Z_scope.

Theorem token_lines_in_range_partial :
  forall is_letter_hi is_digit_hi is_space_hi (s : text),
    Forall (fun tk => 1 <= tline tk <= 1 + nl s /\ 1 <= teline tk <= 1 + nl s) (lex is_letter_hi is_digit_hi is_space_hi s).
Proof. exact lex_lines_in_range. Qed.
Print Assumptions token_lines_in_range_partial.

(* the keyword table of the model is the table of token/token.go (regenerated from /repo on every run) *)
Theorem keywords_are_the_go_table : go_keywords = keywords.
Proof. exact keywords_agree. Qed.
Print Assumptions keywords_are_the_go_table.


(* ---------- positions ---------- *)
Theorem tokens_are_located :
  forall is_letter_hi is_digit_hi is_space_hi (s : text),
    Forall (fun tk => ttype tk = EOF \/ located s tk) (lex is_letter_hi is_digit_hi is_space_hi s).
Proof. exact LexPos.tokens_are_located. Qed.
Print Assumptions tokens_are_located.

(* ---------- layout ---------- *)
(* types and literals do not depend on the position counters: two lexer states with the same remaining characters
   produce the same token types and literals (with any fuel) *)
Theorem token_shapes_ignore_positions :
  forall is_letter_hi is_digit_hi is_space_hi f l l', chs l = chs l' ->
    map shape (lex_all is_letter_hi is_digit_hi is_space_hi f l) = map shape (lex_all is_letter_hi is_digit_hi is_space_hi f l').
Proof. intros hl hd hs f l l' E. apply lex_all_leq. apply sim_leq. exact E. Qed.
Print Assumptions token_shapes_ignore_positions.

(* a gap (whitespace characters and '#' / '//' comments closed by their newline, in any mix) in front of the point where
   the lexer is about to read a token - at the start of the file or after any number of tokens - is ignored *)
Theorem layout_before_a_token_is_ignored :
  forall is_letter_hi is_digit_hi is_space_hi f g l l', gap g -> chs l = g ++ chs l' ->
    map shape (lex_all is_letter_hi is_digit_hi is_space_hi f l) = map shape (lex_all is_letter_hi is_digit_hi is_space_hi f l').
Proof. intros hl hd hs f g l l' G E. apply lex_all_leq. apply (gap_leq g); assumption. Qed.
Print Assumptions layout_before_a_token_is_ignored.

Theorem leading_layout_is_ignored :
  forall is_letter_hi is_digit_hi is_space_hi g s, gap g ->
    map shape (lex is_letter_hi is_digit_hi is_space_hi (g ++ s)) = map shape (lex is_letter_hi is_digit_hi is_space_hi s).
Proof. exact lex_leading_layout. Qed.
Print Assumptions leading_layout_is_ignored.

(* the lexer always terminates with fuel to spare: every token that is not the final EOF consumes a character *)
Theorem lexer_progress :
  forall is_letter_hi is_digit_hi is_space_hi l ts l', next_token_aux is_letter_hi is_digit_hi is_space_hi l = (ts, l', false) ->
    (List.length (chs l') < List.length (chs l))%nat.
Proof. exact next_token_progress. Qed.
Print Assumptions lexer_progress.
