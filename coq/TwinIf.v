(* C12 - poryswitch in STATEMENT position, nested in control constructs: extension of TwinNested.v by `if` and `switch`.

   Context (TwinParse.v, TwinProgram.v, TwinNested.v): the twin of a token stream  U ++ z  with a statement poryswitch at z is
   U ++ body ++ rest  (body = the tokens of the statements of the selected case, rest = the tokens behind the closing brace
   of the poryswitch).  TwinNested proves  compile original = compile twin  for a poryswitch at any depth of while / do-while
   bodies of a top-level script.  This file adds
   - ALL bodies of an  if (..) { .. } [elif (..) { .. }]* [else { .. }]  statement: the first body, the body of any elif
     part and the else body (any parts in front of and behind the body that holds the poryswitch),
   - the body of ANY  case v:  /  default:  of a  switch (..) { .. }  statement (any cases in front and behind),
   at any depth and mixed with while / do-while in any order (a while in a case body in an else body ...).

   MAIN STATEMENTS (all closed under the global context; pf = the format() operator with format_advs / format_local /
   format_lt, theorems for Format.parse_format; the *_compile theorem is about Compile.compile itself)

   IF
   elifs_acc        the accumulator lemma of Parser.parse_elifs, an EQUATION for every fuel and every outcome:
                    parse_elifs f .. x acc imp  =  (acc ++ l, impadd imp i, y)  when  parse_elifs f .. x [] imp0 = Ok (l, i, y),
                    and the same error / panic / fuel exit otherwise.
   rest_elifs       an elif chain that lies BEHIND the poryswitch (len r <= len rest), parsed with the renamed scope stacks
                    map G0 bs / map G0 cs: same tokens consumed, the result renamed with G0 (G0 is the identity on its ids:
                    id bounds of the elif list from SrcWf.gw_all / HoistProgram.pi_all / ParseWf.wf_all, scope_all, key_all).
   cond_fuel, cond_facts, cond_front_twin   parse_cond (condition required) is fuel independent; id bounds of its result; a
                    condition + body in FRONT of the poryswitch is shifted in the twin and all its ids are above len z.
   erun             a run of elif parts parsed by the model's parse_cond;  elifs_erun: parse_elifs goes on behind a run with its
                    parts appended (fuel f - number of parts);  erun_twin: a run in front of the poryswitch is a run in the twin.
   if_front_eq      parse_if = if_tail (the elif chain from yk, the else part) after the front part condition + first body + run.
   twin_if_step     THE STEP for the FIRST body: the block that is the first body of the if statement at w has a twin (TWb, same
                    scope stacks: `if` pushes nothing)  ==>  the if statement has a twin (TWs); the elif chain and the else
                    block are handled by rest_elifs / TwinNested.rest_block.   (analogue of TwinNested.twin_while_step)
   twin_elif_step   the same for the body of an ELIF part (front: cond_front_twin, erun_twin; behind: rest_elifs, rest_block);
   twin_else_step   the same for the ELSE body.
   SWITCH
   swb_srun, swb_acc, swb_pory_step, swb_ok_start, swb_fuel, swb_bnd   the parse_block lemmas of TwinParse for parse_switch_block;
   TWsb, twin_swb_base, rest_swb, twin_swb_step_in   the analogues of TwinNested.TWb / twin_block_base / rest_block /
                    twin_block_step_in for the body of a switch case (a statement list that ends at '}' `case` or `default`).
   switch_head, parse_switch_head   parse_switch = head ( `switch ( operand ) {` ) ; parse_cases ; assembly - an equation;
                    switch_head_fuel / _swap / _facts (fuel independence, the twin, id bounds).
   case_hd, parse_cases_hd   one step of parse_cases = label of the case (`case v :` with the duplicate check / `default :`
                    with the second-default check) ; parse_switch_block ; parse_cases - an equation; case_hd_fuel / _swap / _facts.
   cases_acc        the accumulator lemma of parse_cases (equation, every fuel, every outcome).
   crun             a run of cases (threading the seen values and the default flag);  cases_crun: parse_cases goes on behind a
                    run;  cases_char: a successful parse_cases IS a run that ends at '}';  crun_twin (a run in front of the
                    poryswitch), rest_crun / rest_cases (cases behind the poryswitch, other scope stacks).
   twin_switch_step THE STEP for switch: the body of a case / default of the switch statement at w has a twin (TWsb with the tag
                    of the switch pushed on the break stack)  ==>  the switch statement has a twin (TWs).
   ANY DEPTH
   nest2 k          the position of z (k = true: in a block, k = false: in a switch case body): directly in the statement list, or
                    in the body of a `while` / `do .. while`, or in the first / an elif / the else body of an `if`, or in a case
                    body of a `switch` of the list, recursively (constructors nest2_here, nest2_while, nest2_do, nest2_if,
                    nest2_elif, nest2_else, nest2_switch);   nest_nest2: every TwinNested.nest is a nest2 true.
   nest2_twin       nest2 k bs cs x ==> TWk k bs cs x  (TWb for k = true, TWsb for k = false; induction over the depth).
   twin_nested2_block    block of a script ([] []): exists G injective, parse_block .. (swap z (body ++ rest) x) =
                    Ok (map (g_stmt G) b, g_imp G imp, y).
   twin_nested2_program  parse_program (U ++ z) = Ok p1 ==> exists p2, parse_program (U ++ body ++ rest) = Ok p2 with the same
                    TagRename.shape_program, the twin strictly shorter.
   twin_nested2_compile  lex src = U ++ z, lex src' = U ++ body ++ rest, src parses ==> Compile.compile src = Compile.compile src'.
   Examples (all hypotheses of twin_nested2_compile on concrete programs, by vm_compute): twin_nested2_compile_example (first
   body of an if with an elif and an else part), .._nontrivial (text output, the two parsed programs differ),
   twin_nested2_mixed_example (depth 2: first body of an if with an else part, inside a while body, a statement behind),
   twin_nested2_else_example (else body, an elif part in front), twin_nested2_elif_example (second elif body, an else part
   behind), twin_nested2_switch_example (second case of a switch, a case in front, a default behind),
   twin_nested2_switch_default_example (the poryswitch is the whole default body, the selected case ends with a `break` that
   is bound by the switch), twin_nested2_elif_else_nontrivial, twin_nested2_switch_nontrivial.

   NOT PROVED: inline scripts of mapscripts and the case "original does not parse" are open as in TwinNested.v; the premise
   LC (TwinParse) is inherited from TwinNested (only needed when a LOOP encloses the poryswitch: csz <> []); several
   poryswitches in one program need one application of the theorem per poryswitch (the twin is again a program). *)
From Coq Require Import List String Ascii ZArith NArith Lia Bool.
From Pory Require Import Lexer Ast Parser Consume Independence.
From Pory Require PorySwitchLists FuelOk TagRename ProgSrc TwinParse Tr Worklist HoistProgram LabelSim TwinProgram SrcWf ParseWf.
From Pory Require Import TwinNested.
Import ListNotations.
Open Scope list_scope.

(* ---------- the ids of an if statement ---------- *)
Lemma ids_if_split conds els n : In n (TwinProgram.ids [SIf conds els]) ->
  In n (TwinProgram.ids [SIf conds None]) \/ (exists b, els = Some b /\ In n (TwinProgram.ids b)).
Proof.
  unfold TwinProgram.ids, TagRename.atags, HoistProgram.cmds. cbn [flat_map TagRename.atags1]. rewrite !HoistProgram.stmt_cmds_if.
  rewrite !app_nil_r, !map_app, !in_app_iff. destruct els as [b|]; cbn [HoistProgram.ocmds map]; [|cbn [In]; tauto].
  intros [[H|H]|[H|H]]; try tauto; right; exists b; (split; [reflexivity|]); unfold HoistProgram.cmds; rewrite in_app_iff; tauto.
Qed.
Lemma ids_if_cons e b r n : In n (TwinProgram.ids [SIf ((e, b) :: r) None]) ->
  In n (map cid (HoistProgram.bexp_cmds e)) \/ In n (TwinProgram.ids b) \/ In n (TwinProgram.ids [SIf r None]).
Proof.
  unfold TwinProgram.ids, TagRename.atags, HoistProgram.cmds. cbn [flat_map TagRename.atags1]. rewrite !HoistProgram.stmt_cmds_if.
  unfold HoistProgram.conds_cmds. cbn [flat_map fst snd HoistProgram.ocmds]. unfold HoistProgram.cmds.
  rewrite ?app_nil_r, ?map_app, ?in_app_iff, ?map_app, ?in_app_iff. cbn [In]. tauto.
Qed.

Section TWIN2.
Variable av : list (text * autovar).
Variable sw : list (text * text).
Variable ee : bool.
Variable pf : toks -> res (token * text * text * toks).
Variable c : list (text * text).
Hypothesis pf_advs : format_advs pf.
Hypothesis pf_local : format_local pf.
Hypothesis pf_lt : format_lt pf.
Local Notation P_stmt := (parse_stmt av sw ee pf c).
Local Notation P_block := (parse_block av sw ee pf c).
Local Notation P_cond := (parse_cond av sw ee pf c).
Local Notation P_if := (parse_if av sw ee pf c).
Local Notation P_elifs := (parse_elifs av sw ee pf c).
Local Notation P_pcases := (parse_pory_cases av sw ee pf c).
Local Notation srun := (TwinParse.srun av sw ee pf c).

Variable script : text.
Variables z body ra rest : toks.
Variables bsz csz : list nat.
Variable scn : text.
Variable sv : option text.
Variables ts1 ts2 : toks.
Variable F : nat.
Variable cases : list (text * (list stmt * impdata)).
Variable ss : list stmt.
Variable imp' : impdata.
Hypothesis Ez : eof_ended z.
Hypothesis CP : curis PORYSWITCH z = true.
Hypothesis HH : poryswitch_header sw ee z = Ok (scn, sv, ts1).
Hypothesis BF : (5 * len z <= F)%nat.
Hypothesis HC : P_pcases F script bsz csz (cur ts1) ts1 [] = Ok (cases, ts2).
Hypothesis SEL : PorySwitchLists.pory_select cases sv = Some (ss, imp').
Hypothesis AB : advs ts1 (body ++ ra).
Hypothesis RR : srun script bsz csz (body ++ ra) ss imp' ra.
Hypothesis AR : advs ra ts2.
Hypothesis RAK : curis RBRACE ra = true \/ curis IDENT ra = true \/ curis INT ra = true.
Hypothesis Drest : rest = adv ts2.
Hypothesis HLC : csz = [] \/ TwinParse.LC ra rest.
Hypothesis Hbz : Forall (fun n => len z < n)%nat bsz.
Hypothesis Hcz : Forall (fun n => len z < n)%nat csz.

Local Notation tw := (body ++ rest).
Local Notation s1 := (sh z (body ++ rest)).
Local Notation swp := (swap z (body ++ rest)).
Local Notation G0' := (G0 z body ra rest).
Local Notation okid' := (okid z body ra rest).
Local Notation allok' := (allok z body ra rest).
Local Notation TWb' := (TWb av sw ee pf c script z body ra rest).
Local Notation TWs' := (TWs av sw ee pf c script z body ra rest).
Local Notation cond_head' := (cond_head av sw ee pf c script).

Local Definition G0hi n := G0_hi z body ra rest F BF n.
Local Definition G0lo n := G0_lo sw ee z body ra rest scn sv ts1 F Ez HH BF AB n.
Local Definition Lr' := Lr av sw ee pf c pf_advs pf_lt script z body ra rest bsz csz scn sv ts1 ts2 F cases ss imp' Ez HH BF HC AB RR AR Drest.
Local Definition Lb' := Lb sw ee z body ra scn sv ts1 F Ez HH BF AB.
Local Definition Erest' := Erest av sw ee pf c pf_advs script z body ra rest bsz csz scn sv ts1 ts2 ss imp' Ez HH AB RR AR Drest.
Local Definition Etw' := Etw av sw ee pf c pf_advs script z body ra rest bsz csz scn sv ts1 ts2 ss imp' Ez HH AB RR AR Drest.
Local Definition TWNE' := TWNE av sw ee pf c pf_advs script z body ra rest bsz csz scn sv ts1 ts2 ss imp' Ez HH AB RR AR Drest.
Local Definition ZNE' := ZNE z Ez.
Local Definition CEz' := CEz z CP.
Local Definition s1eq n := s1_eq av sw ee pf c pf_advs pf_lt script z body ra rest bsz csz scn sv ts1 ts2 F cases ss imp' Ez HH BF HC AB RR AR Drest n.
Local Definition hdhi l t0 := hd_hi z ra rest csz ts2 Drest HLC l t0.
Local Definition rest_block' := rest_block av sw ee pf c pf_advs pf_lt script z body ra rest bsz csz scn sv ts1 ts2 F cases ss imp' Ez HH BF HC AB RR AR Drest HLC.
Local Definition cond_head_swap' := cond_head_swap av sw ee pf c pf_advs pf_local script z body ra rest bsz csz scn sv ts1 ts2 F ss imp' Ez HH BF AB RR AR Drest.
Local Definition cond_head_ids' := cond_head_ids av sw ee pf c pf_advs script z F BF.
Local Definition cond_head_advs' := cond_head_advs av sw ee pf c pf_advs script.

(* ---------- the accumulator of parse_elifs ---------- *)
Lemma elifs_acc : forall f bs cs x acc imp,
  P_elifs f script bs cs x acc imp =
  match P_elifs f script bs cs x [] imp0 with
  | Ok (l, i, y) => Ok (acc ++ l, impadd imp i, y) | Err e => Err e | Panic => Panic | Fuel => Fuel end.
Proof.
  induction f as [|f IH]; intros bs cs x acc imp; [reflexivity|].
  rewrite !parse_elifs_unfold. destruct (peekis ELSEIF x); [|rewrite app_nil_r, TwinParse.impadd_imp0_r; reflexivity].
  destruct (P_cond f true script bs cs (adv x)) as [[[[e b] i'] t1]| | |]; try reflexivity.
  destruct e as [e1|]; [|reflexivity].
  rewrite (IH bs cs t1 (acc ++ [(e1, b)]) (impadd imp i')). rewrite (IH bs cs t1 ([] ++ [(e1, b)]) (impadd imp0 i')).
  destruct (P_elifs f script bs cs t1 [] imp0) as [[[l i] y]| | |]; try reflexivity.
  cbn [app]. rewrite <- app_assoc, TwinParse.impadd_imp0_l, TwinParse.impadd_assoc. reflexivity.
Qed.

(* ---------- the elif chain behind the poryswitch: same tokens in the twin, other scope stacks ---------- *)
Lemma rest_elifs f bs cs r l i y : eof_ended r -> (len r <= len rest)%nat ->
  Forall (fun n => len z < n)%nat bs -> Forall (fun n => len z < n)%nat cs ->
  P_elifs f script bs cs r [] imp0 = Ok (l, i, y) ->
  P_elifs f script (map G0' bs) (map G0' cs) r [] imp0 = Ok (g_elifs G0' l, g_imp G0' i, y) /\ allok' [SIf l None] i /\ advs r y.
Proof.
  intros E L Hb Hc E3. pose proof Lr' as LR.
  destruct (SrcWf.gw_all av sw pf c pf_advs ee f) as (_ & _ & _ & _ & _ & Gel & _).
  destruct (ParseWf.wf_all av sw ee pf c f) as (_ & _ & _ & _ & _ & Wel & _).
  destruct (HoistProgram.pi_all av sw ee pf pf_advs r c f) as (_ & _ & _ & _ & _ & Pel & _).
  assert (A : advs r y) by (eapply (proj1 (proj2 (proj2 (proj2 (proj2 (proj2 (adv_all av sw pf c pf_advs ee f))))))); [exact E3|apply advs_refl]).
  assert (GC : SrcWf.GoodC (len y) (len r) l).
  { eapply Gel; [exact E|exact E3|apply Nat.le_refl|]. split; [constructor|split; constructor]. }
  destruct GC as (_ & GT & _).
  assert (SC : Tr.scoped_conds (hd_error bs) (hd_error cs) l) by (eapply Wel; [exact E3|constructor]).
  pose proof (Pel script bs cs r [] imp0 l i y (len r) [] (advs_refl r) E3 (HoistProgram.span_nil sw ee pf r script (len r) (len r)) (Nat.le_refl _)) as SP.
  cbn [app] in SP. destruct SP as (HT & HM & HCm).
  assert (S3 : Tr.scoped (hd_error bs) (hd_error cs) [SIf l None]) by (constructor; [constructor; [exact SC|constructor]|constructor]).
  assert (B3 : bnd (fun n => n <= len r)%nat [SIf l None] i).
  { split; [|split].
    - intros n Hn. cbn [Worklist.tags] in Hn. rewrite Worklist.tags1_if in Hn. cbn [Worklist.tags_opt] in Hn. rewrite !app_nil_r in Hn.
      rewrite Forall_forall in GT. specialize (GT n Hn). lia.
    - intros c0 Hc0. rewrite HoistProgram.cmds_cons, HoistProgram.stmt_cmds_if in Hc0. cbn [HoistProgram.ocmds] in Hc0.
      change (HoistProgram.cmds []) with (@nil cmd) in Hc0. rewrite !app_nil_r in Hc0.
      destruct (HCm (script, c0)) as [B _]; [apply in_map; exact Hc0|]. cbn [snd] in B. lia.
    - intros n Hn. unfold TwinProgram.imp_ids in Hn. apply in_app_or in Hn. destruct Hn as [Hn|Hn]; apply in_map_iff in Hn; destruct Hn as (it & <- & Hit).
      + specialize (HT it Hit). lia.
      + specialize (HM it Hit). lia. }
  pose proof (proj1 (proj2 (proj2 (proj2 (proj2 (proj2 (scope_all av sw ee pf c f)))))) script bs cs (map G0' bs) (map G0' cs) r [] imp0
                (se_map G0' bs) (se_map G0' cs)) as Q.
  cbn [rt_elifs map] in Q. rewrite E3 in Q. cbn [rmap fst snd] in Q. rewrite !hd_error_map in Q.
  assert (X3 : map (rt_stmt (option_map G0' (hd_error bs)) (option_map G0' (hd_error cs))) [SIf l None] = map (g_stmt G0') [SIf l None]).
  { rewrite <- (TwinProgram.g_stmts_id [SIf l None]) at 1. apply key_all; [exact S3| |].
    - intros n Hn. destruct B3 as (B3a & _). specialize (B3a n Hn). cbv beta in B3a. symmetry. apply G0lo. lia.
    - intros c0 Hn. destruct B3 as (_ & B3b & _). specialize (B3b c0 Hn). cbv beta in B3b. symmetry. apply G0lo. lia. }
  cbn [map rt_stmt g_stmt] in X3. injection X3 as X3.
  assert (X3i : i = g_imp G0' i).
  { rewrite <- (TwinProgram.g_imp_id i) at 1. apply TwinProgram.g_imp_ext. intros n Hn. destruct B3 as (_ & _ & B3c). specialize (B3c n Hn).
    cbv beta in B3c. symmetry. apply G0lo. lia. }
  split; [|split; [|exact A]].
  - rewrite Q. unfold rt_elifs, g_elifs. rewrite X3, <- X3i. reflexivity.
  - split; [|intros n Hn; destruct B3 as (_ & _ & B3c); specialize (B3c n Hn); right; right; cbv beta in B3c; lia].
    intros n Hn. eapply (ids_of_bnd okid'); [exact S3| | | |exact Hn].
    + eapply bnd_weaken; [|exact B3]. cbv beta. intros n0 Hn0. right. right. lia.
    + intros t0 Ht. left. eapply hdhi; [|exact Ht]; assumption.
    + intros t0 Ht. left. eapply hdhi; [|exact Ht]; assumption.
Qed.

(* cond_head with fuel bounds that fit the extra level of parse_if *)
Lemma cond_head_fuel2 req ts f g0 : eof_ended ts -> (5 * len ts <= f + 3)%nat -> (5 * len ts <= g0 + 3)%nat ->
  cond_head' f req ts = cond_head' g0 req ts.
Proof.
  intros E Lf Lg. unfold cond_head. destruct (req || negb (peekis LBRACE ts)); [|reflexivity].
  destruct (expect_peek LPAREN ts) as [tsa|] eqn:EP; [|reflexivity].
  rewrite (expect_peek_some _ _ _ EP). pose proof (adv_len ts) as La.
  assert (Ea : eof_ended (adv ts)) by (eapply advs_eof; [apply advs_adv_r, advs_refl|exact E]).
  rewrite (TwinParse.fuel_up (fun k => bool_expr av sw ee pf c k false false script (adv ts)) (5 * len (adv ts) + 2)%nat) with (g := g0); [reflexivity| | |].
  - intros k K. apply (FuelOk.bool_expr_st av sw ee pf c pf_advs pf_lt); assumption.
  - unfold expect_peek in EP. destruct (peekis LPAREN ts) eqn:PL; [|discriminate EP].
    pose proof (peek_strict LPAREN ts E ltac:(discriminate) PL). lia.
  - unfold expect_peek in EP. destruct (peekis LPAREN ts) eqn:PL; [|discriminate EP].
    pose proof (peek_strict LPAREN ts E ltac:(discriminate) PL). lia.
Qed.

(* STEP (if): the poryswitch lies in the FIRST body of the if statement at w; any elif / else parts follow *)
Lemma twin_if_step w bs cs f0 e ie t1 t2 : eof_ended w -> ttype (cur w) = IF ->
  (5 * len w <= f0)%nat -> cond_head' f0 true w = Ok (e, ie, t1) -> expect_peek LBRACE t1 = Some t2 -> Gw z 0 (adv t2) ->
  Forall (fun n => len z < n)%nat bs -> Forall (fun n => len z < n)%nat cs ->
  TWb' bs cs (adv t2) -> TWs' bs cs w.
Proof.
  intros E TY Lf0 CH EP GX2 Hb Hc IHb f b imp y Bf H.
  pose proof ZNE' as ZNE0. pose proof TWNE' as TWNE0. pose proof CEz' as CEz0. pose proof Etw' as Etw0.
  pose proof (cond_head_advs' _ _ _ _ _ _ CH) as A1. pose proof (advs_eof _ _ A1 E) as Et1.
  pose proof (expect_peek_some _ _ _ EP) as Q2.
  assert (Et2 : eof_ended t2) by (rewrite Q2; eapply advs_eof; [apply advs_adv_r, advs_refl|exact Et1]).
  assert (Gt2 : Gw z 1 t2) by (apply TwinProgram.Gw_step_back; [exact Et2|exact ZNE0|exact CEz0|exact GX2]).
  assert (Gt1 : Gw z 2 t1) by (apply (G_adv_inv z ZNE0); [lia|rewrite <- Q2; exact Gt2]).
  assert (Gw2 : Gw z 2 w) by (eapply G_advs; [exact A1|exact Gt1]).
  assert (Gw1 : Gw z 1 w) by (eapply G_le; [|exact Gw2]; lia).
  assert (Gw0 : Gw z 0 w) by (eapply G_le; [|exact Gw2]; lia).
  assert (Lzt1 : (len z < len t1)%nat) by (destruct Gt1 as (u1 & EU & KU); rewrite EU, app_length; lia).
  assert (Lzw : (len z < len w)%nat) by (pose proof (advs_len _ _ A1); lia).
  destruct f as [|[|[|f3]]]; [lia|lia|lia|].
  rewrite parse_stmt_unfold, TY in H. rewrite parse_if_unfold, parse_cond_head in H.
  rewrite (cond_head_fuel2 true w f3 f0 E ltac:(lia) ltac:(lia)), CH in H. cbv beta iota in H. rewrite EP in H.
  destruct (P_block f3 script bs cs (cur t2) (adv t2) [] imp0) as [[[bd ibd] y3]| | |] eqn:EB; try discriminate H.
  cbv beta iota in H. destruct e as [e1|]; [|discriminate H].
  rewrite elifs_acc in H.
  destruct (P_elifs (S f3) script bs cs y3 [] imp0) as [[[el iel] y4]| | |] eqn:EE; try discriminate H.
  cbv beta iota zeta in H. cbn [app] in H.
  pose proof (adv_len t2) as La2. pose proof (advs_len _ _ A1) as L1. assert (L12 : (len t2 < len t1)%nat).
  { rewrite Q2. unfold expect_peek in EP. destruct (peekis LBRACE t1) eqn:PL; [|discriminate EP]. apply (peek_strict LBRACE t1 Et1 ltac:(discriminate) PL). }
  destruct (IHb f3 (cur t2) bd ibd y3 ltac:(lia) EB) as (TB & OKB & la1 & L2 & Lyr).
  assert (A3 : advs (adv t2) y3) by (eapply (proj1 (proj2 (adv_all av sw pf c pf_advs ee _))); [exact EB|apply advs_refl]).
  assert (Ey3 : eof_ended y3) by (eapply advs_eof; [exact A3|]; eapply advs_eof; [apply advs_adv_r, advs_refl|exact Et2]).
  destruct (rest_elifs (S f3) bs cs y3 el iel y4 Ey3 Lyr Hb Hc EE) as (TE & OKE & A4).
  pose proof (advs_eof _ _ A4 Ey3) as Ey4. pose proof (advs_len _ _ A4) as L4.
  destruct (cond_head_ids' _ _ _ _ _ _ CH) as [CI1 CI2]. cbn [HoistProgram.obexp_cmds] in CI1.
  assert (XE : g_bexp s1 e1 = g_bexp G0' e1).
  { apply g_bexp_ext_cmds. intros c0 Hc0. symmetry. apply G0hi. specialize (CI1 c0 Hc0). lia. }
  assert (XI : g_imp s1 ie = g_imp G0' ie).
  { apply TwinProgram.g_imp_ext. intros n Hn. symmetry. apply G0hi. specialize (CI2 n Hn). lia. }
  assert (Esw : eof_ended (swp w)).
  { destruct (G_swap z tw 0 w Gw0) as (u & _ & -> & _). apply ProgSrc.eof_ended_app. exact Etw0. }
  assert (Lsw : (len (swp w) <= len w)%nat) by (rewrite (s_len z tw w Gw0), s1eq; lia).
  (* the twin up to the end of the elif chain *)
  assert (FRONT : P_stmt (S (S (S f3))) script (map G0' bs) (map G0' cs) (swp w) =
     if peekis ELSE y4 then
        match expect_peek LBRACE (adv y4) with
        | None => err_range (cur (adv y4)) (pk 1 (adv y4)) "missing opening curly brace of else statement"
        | Some ts4 =>
            do (eb, imp3, ts5) <- P_block (S f3) script (map G0' bs) (map G0' cs) (cur ts4) (adv ts4) [] imp0;
            Ok ([SIf ((g_bexp G0' e1, map (g_stmt G0') bd) :: g_elifs G0' el) (Some eb)],
                impadd (impadd (impadd (g_imp G0' ie) (g_imp G0' ibd)) (g_imp G0' iel)) imp3, ts5)
        end
      else Ok ([SIf ((g_bexp G0' e1, map (g_stmt G0') bd) :: g_elifs G0' el) None],
               impadd (impadd (g_imp G0' ie) (g_imp G0' ibd)) (g_imp G0' iel), y4)).
  { rewrite parse_stmt_unfold, (swap_cur z tw w Gw1), TY. rewrite parse_if_unfold, parse_cond_head.
    rewrite (cond_head_fuel2 true (swp w) f3 f0 Esw ltac:(lia) ltac:(lia)).
    rewrite (cond_head_swap' _ _ _ _ _ _ CH Gt1). cbv beta iota.
    rewrite (swap_expect_peek z tw ZNE0 TWNE0 LBRACE t1 Gt1), EP.
    rewrite (swap_cur z tw t2 Gt2), (swap_adv z tw ZNE0 TWNE0 t2 Gt2).
    rewrite TB. cbv beta iota. cbn [g_obexp]. rewrite elifs_acc, TE. cbv beta iota zeta. cbn [app]. rewrite XE, XI. reflexivity. }
  assert (OKF : forall n, In n (TwinProgram.ids [SIf ((e1, bd) :: el) None]) -> okid' n).
  { intros n Hn. apply ids_if_cons in Hn. destruct Hn as [Hn|[Hn|Hn]].
    - apply in_map_iff in Hn. destruct Hn as (c0 & <- & Hc0). left. specialize (CI1 c0 Hc0). lia.
    - apply (proj1 OKB). exact Hn.
    - apply (proj1 OKE). exact Hn. }
  assert (OKI : forall n, In n (TwinProgram.imp_ids (impadd (impadd ie ibd) iel)) -> okid' n).
  { intros n Hn. apply TwinProgram.imp_ids_add in Hn. destruct Hn as [Hn|Hn]; [|apply (proj2 OKE); exact Hn].
    apply TwinProgram.imp_ids_add in Hn. destruct Hn as [Hn|Hn]; [left; specialize (CI2 n Hn); lia|apply (proj2 OKB); exact Hn]. }
  destruct (peekis ELSE y4) eqn:PE.
  - destruct (expect_peek LBRACE (adv y4)) as [t4|] eqn:EP4; [|unfold err_range in H; discriminate H].
    destruct (P_block (S f3) script bs cs (cur t4) (adv t4) [] imp0) as [[[eb ieb] y5]| | |] eqn:EBe; try discriminate H.
    injection H as <- <- <-.
    pose proof (expect_peek_some _ _ _ EP4) as Q4. pose proof (adv_len y4) as La4. pose proof (adv_len (adv y4)) as La5. pose proof (adv_len t4) as La6.
    assert (Et4 : eof_ended (adv t4)).
    { rewrite Q4. eapply advs_eof; [apply advs_adv_r, advs_adv_r, advs_adv_r, advs_refl|exact Ey4]. }
    assert (L5 : (len (adv t4) <= len rest)%nat) by (rewrite Q4 in *; lia).
    destruct (rest_block' (S f3) bs cs (cur t4) (adv t4) eb ieb y5 Et4 L5 Hb Hc EBe) as (TE2 & OK2).
    assert (A5 : advs (adv t4) y5) by (eapply (proj1 (proj2 (adv_all av sw pf c pf_advs ee _))); [exact EBe|apply advs_refl]).
    pose proof (advs_len _ _ A5) as L6.
    split; [|split; [|split; [exact la1|lia]]].
    + rewrite FRONT, TE2. cbv beta iota. cbn [map g_stmt fst snd]. rewrite !TwinParse.g_imp_add. reflexivity.
    + split.
      * intros n Hn. apply ids_if_split in Hn. destruct Hn as [Hn|(b0 & EQ & Hn)]; [apply OKF; exact Hn|].
        injection EQ as <-. apply (proj1 OK2). exact Hn.
      * intros n Hn. apply TwinProgram.imp_ids_add in Hn. destruct Hn as [Hn|Hn]; [apply OKI; exact Hn|apply (proj2 OK2); exact Hn].
  - injection H as <- <- <-.
    split; [|split; [|split; [exact la1|lia]]].
    + rewrite FRONT. cbn [map g_stmt fst snd]. rewrite !TwinParse.g_imp_add. reflexivity.
    + split; [exact OKF|exact OKI].
Qed.


(* ---------- the parts of an if statement in FRONT of the poryswitch: condition + first body, elif parts ---------- *)
Lemma cond_head_true_lt f x e ie tq : eof_ended x -> cond_head' f true x = Ok (e, ie, tq) -> (len tq < len x)%nat /\ exists e1, e = Some e1.
Proof.
  intros E H. unfold cond_head in H. cbn [orb] in H.
  destruct (expect_peek LPAREN x) as [tsa|] eqn:EP; [|unfold err_range in H; discriminate H].
  destruct (bool_expr av sw ee pf c f false false script tsa) as [[[e0 i0] tsb]| | |] eqn:EB; try discriminate H.
  injection H as <- <- <-. split; [|eexists; reflexivity].
  pose proof (expect_peek_some _ _ _ EP) as Q. subst tsa.
  assert (A : advs (adv x) tsb) by (eapply (proj1 (bexp_advs av sw pf c pf_advs ee f)); [exact EB|apply advs_refl]).
  pose proof (advs_len _ _ A). unfold expect_peek in EP. destruct (peekis LPAREN x) eqn:PL; [|discriminate EP].
  pose proof (peek_strict LPAREN x E ltac:(discriminate) PL). lia.
Qed.

Lemma eof_len1 x : eof_ended x -> (1 <= len x)%nat.
Proof. intros [NE _]. destruct x; [congruence|cbn; lia]. Qed.

(* parse_cond (condition required) does not depend on the fuel *)
Lemma cond_fuel bs cs x f g : eof_ended x -> (5 * len x <= f + 2)%nat -> (5 * len x <= g + 2)%nat ->
  P_cond f true script bs cs x = P_cond g true script bs cs x.
Proof.
  intros E Lf Lg. pose proof (eof_len1 x E).
  destruct f as [|f']; [lia|]. destruct g as [|g']; [lia|].
  rewrite !parse_cond_head. rewrite (cond_head_fuel2 true x f' g' E ltac:(lia) ltac:(lia)).
  destruct (cond_head' g' true x) as [[[e i] tq]| | |] eqn:CH; try reflexivity. cbv beta iota.
  destruct (expect_peek LBRACE tq) as [t2|] eqn:EP; [|reflexivity].
  destruct (cond_head_true_lt _ _ _ _ _ E CH) as [L1 _].
  pose proof (cond_head_advs' _ _ _ _ _ _ CH) as A1. pose proof (advs_eof _ _ A1 E) as Etq.
  pose proof (expect_peek_some _ _ _ EP) as Q2.
  assert (L2 : (len t2 < len tq)%nat).
  { rewrite Q2. unfold expect_peek in EP. destruct (peekis LBRACE tq) eqn:PL; [|discriminate EP]. apply (peek_strict LBRACE tq Etq ltac:(discriminate) PL). }
  pose proof (adv_len t2) as L3.
  assert (Et2 : eof_ended (adv t2)). { rewrite Q2. eapply advs_eof; [apply advs_adv_r, advs_adv_r, advs_refl|exact Etq]. }
  rewrite (TwinParse.block_fuel av sw ee pf c pf_advs pf_lt script bs cs (cur t2) (adv t2) [] imp0 f' g' Et2 ltac:(lia) ltac:(lia)). reflexivity.
Qed.

Lemma cond_facts f bs cs x e bd i y : eof_ended x -> P_cond f true script bs cs x = Ok (e, bd, i, y) ->
  advs x y /\ (len y < len x)%nat /\ Tr.scoped (hd_error bs) (hd_error cs) bd /\
  bnd (fun n => len y <= n)%nat bd i /\ (forall c0, In c0 (HoistProgram.obexp_cmds e) -> (len y <= cid c0)%nat).
Proof.
  intros E H.
  destruct (SrcWf.gw_all av sw pf c pf_advs ee f) as (_ & _ & _ & Gc & _).
  destruct (ParseWf.wf_all av sw ee pf c f) as (_ & _ & _ & Wc & _).
  destruct (HoistProgram.pi_all av sw ee pf pf_advs x c f) as (_ & _ & _ & Pc & _).
  destruct (Gc _ _ _ _ _ _ _ _ _ E H) as (L & _ & GT & _).
  pose proof (Pc _ _ _ _ _ _ _ _ _ (advs_refl x) H) as (HT & HM & HCm).
  split; [eapply (proj1 (proj2 (proj2 (proj2 (adv_all av sw pf c pf_advs ee f))))); [exact H|apply advs_refl]|].
  split; [exact L|]. split; [exact (Wc _ _ _ _ _ _ _ _ _ H)|]. split; [split; [|split]|].
  - intros n Hn. rewrite Forall_forall in GT. specialize (GT n Hn). lia.
  - intros c0 Hc0. destruct (HCm (script, c0)) as [B _]; [apply in_map; apply in_or_app; right; exact Hc0|]. cbn [snd] in B. lia.
  - intros n Hn. unfold TwinProgram.imp_ids in Hn. apply in_app_or in Hn. destruct Hn as [Hn|Hn]; apply in_map_iff in Hn; destruct Hn as (it & <- & Hit).
    + specialize (HT it Hit). lia.
    + specialize (HM it Hit). lia.
  - intros c0 Hc0. destruct (HCm (script, c0)) as [B _]; [apply in_map; apply in_or_app; left; exact Hc0|]. cbn [snd] in B. lia.
Qed.

(* condition + body in front of the poryswitch: shifted in the twin, all ids above len z *)
Lemma cond_front_twin f bs cs x e1 bd i y : eof_ended x -> P_cond f true script bs cs x = Ok (Some e1, bd, i, y) -> Gw z 1 y ->
  Forall (fun n => len z < n)%nat bs -> Forall (fun n => len z < n)%nat cs ->
  P_cond f true script (map G0' bs) (map G0' cs) (swp x) = Ok (Some (g_bexp G0' e1), map (g_stmt G0') bd, g_imp G0' i, swp y) /\
  (forall c0, In c0 (HoistProgram.bexp_cmds e1) -> (len z < cid c0)%nat) /\
  (forall n, In n (TwinProgram.ids bd) -> (len z < n)%nat) /\ (forall n, In n (TwinProgram.imp_ids i) -> (len z < n)%nat).
Proof.
  intros E H GY Hb Hc. pose proof ZNE' as ZNE0. pose proof TWNE' as TWNE0.
  destruct (cond_facts _ _ _ _ _ _ _ _ E H) as (A & L & SC & B & CE). cbn [HoistProgram.obexp_cmds] in CE.
  assert (Lzy : (len z < len y)%nat) by (destruct GY as (u & EU & KU); rewrite EU, app_length; lia).
  pose proof (proj1 (proj2 (proj2 (proj2 (swp_all z tw ZNE0 TWNE0 av sw pf c pf_advs (pf_local z tw ZNE0 TWNE0) f ee)))) true script bs cs x (Some e1) bd i y H GY) as T.
  cbn [g_obexp] in T.
  assert (BW : bnd (fun n => len z < n)%nat bd i) by (eapply bnd_weaken; [|exact B]; cbv beta; intros; lia).
  assert (H1 : forall t0, hd_error bs = Some t0 -> (len z < t0)%nat) by (intros t0 Ht; eapply hdhi; [|exact Ht]; assumption).
  assert (H2 : forall t0, hd_error cs = Some t0 -> (len z < t0)%nat) by (intros t0 Ht; eapply hdhi; [|exact Ht]; assumption).
  destruct (piece_ext z body ra rest (fun n => len z < n)%nat s1 _ _ bd i SC BW H1 H2) as [X1 X1i].
  { intros n Hn. symmetry. apply G0hi. exact Hn. }
  assert (XE : g_bexp s1 e1 = g_bexp G0' e1). { apply g_bexp_ext_cmds. intros c0 Hc0. symmetry. apply G0hi. specialize (CE c0 Hc0). lia. }
  rewrite X1, X1i, XE, <- (map_G0_hi z body ra rest F BF bs Hb), <- (map_G0_hi z body ra rest F BF cs Hc) in T.
  split; [exact T|]. split; [intros c0 Hc0; specialize (CE c0 Hc0); lia|]. split.
  - intros n Hn. eapply (ids_of_bnd (fun n => len z < n)%nat); [exact SC|exact BW|exact H1|exact H2|exact Hn].
  - intros n Hn. destruct BW as (_ & _ & B3). exact (B3 n Hn).
Qed.

(* a run of elif parts *)
Inductive erun (bs cs : list nat) : toks -> list (bexp * list stmt) -> impdata -> toks -> Prop :=
| erun_nil y : erun bs cs y [] imp0 y
| erun_cons y f0 e bd i y' l i' y'' : peekis ELSEIF y = true -> (5 * len y <= f0 + 2)%nat ->
    P_cond f0 true script bs cs (adv y) = Ok (Some e, bd, i, y') -> erun bs cs y' l i' y'' ->
    erun bs cs y ((e, bd) :: l) (impadd i i') y''.

Lemma erun_facts bs cs y l i yk : erun bs cs y l i yk -> eof_ended y -> advs y yk /\ (len yk + List.length l <= len y)%nat.
Proof.
  induction 1 as [y|y f0 e bd i y' l i' y'' PE Lf0 HC0 R IH]; intros E; [split; [apply advs_refl|cbn; lia]|].
  assert (Ea : eof_ended (adv y)) by (eapply advs_eof; [apply advs_adv_r, advs_refl|exact E]).
  destruct (cond_facts _ _ _ _ _ _ _ _ Ea HC0) as (A & L & _). destruct (IH (advs_eof _ _ A Ea)) as [A2 L2].
  pose proof (adv_len y). split; [|cbn [List.length]; lia].
  eapply advs_trans; [apply advs_adv_r, advs_refl|]. eapply advs_trans; [exact A|exact A2].
Qed.

Lemma elifs_erun bs cs y l i yk : erun bs cs y l i yk -> eof_ended y -> forall f acc imp, (5 * len y <= f + 1)%nat ->
  P_elifs f script bs cs y acc imp =
  match P_elifs (f - List.length l) script bs cs yk [] imp0 with
  | Ok (l2, i2, y2) => Ok (acc ++ l ++ l2, impadd imp (impadd i i2), y2) | Err e => Err e | Panic => Panic | Fuel => Fuel end.
Proof.
  induction 1 as [y|y f0 e bd i y' l i' y'' PE Lf0 HC0 R IH]; intros E f acc imp Lf.
  - cbn [List.length app]. rewrite Nat.sub_0_r. rewrite elifs_acc.
    destruct (P_elifs f script bs cs y [] imp0) as [[[l2 i2] y2]| | |]; try reflexivity; try (rewrite TwinParse.impadd_imp0_l; reflexivity).
  - pose proof (eof_len1 y E). destruct f as [|f']; [lia|]. rewrite parse_elifs_unfold, PE.
    assert (Ea : eof_ended (adv y)) by (eapply advs_eof; [apply advs_adv_r, advs_refl|exact E]).
    pose proof (adv_len y).
    rewrite (cond_fuel bs cs (adv y) f' f0 Ea ltac:(lia) ltac:(lia)), HC0. cbv beta iota.
    destruct (cond_facts _ _ _ _ _ _ _ _ Ea HC0) as (A & L & _).
    rewrite (IH (advs_eof _ _ A Ea) f' (acc ++ [(e, bd)]) (impadd imp i) ltac:(lia)).
    cbn [List.length Nat.sub].
    destruct (P_elifs (f' - List.length l) script bs cs y'' [] imp0) as [[[l2 i2] y2]| | |]; try reflexivity.
    rewrite <- !app_assoc. cbn [app]. rewrite !TwinParse.impadd_assoc. reflexivity.
Qed.

Lemma erun_twin bs cs y l i yk : erun bs cs y l i yk -> eof_ended y -> Gw z 1 yk ->
  Forall (fun n => len z < n)%nat bs -> Forall (fun n => len z < n)%nat cs ->
  erun (map G0' bs) (map G0' cs) (swp y) (g_elifs G0' l) (g_imp G0' i) (swp yk) /\
  (forall n, In n (TwinProgram.ids [SIf l None]) -> (len z < n)%nat) /\ (forall n, In n (TwinProgram.imp_ids i) -> (len z < n)%nat).
Proof.
  pose proof ZNE' as ZNE0. pose proof TWNE' as TWNE0.
  induction 1 as [y|y f0 e bd i y' l i' y'' PE Lf0 HC0 R IH]; intros E GY Hb Hc.
  - split; [constructor|]. split; [intros n Hn; cbv in Hn; contradiction|intros n Hn; cbv in Hn; contradiction].
  - assert (Ea : eof_ended (adv y)) by (eapply advs_eof; [apply advs_adv_r, advs_refl|exact E]).
    destruct (cond_facts _ _ _ _ _ _ _ _ Ea HC0) as (A & L & _). pose proof (advs_eof _ _ A Ea) as Ey'.
    destruct (erun_facts _ _ _ _ _ _ R Ey') as [A2 _].
    assert (G1 : Gw z 1 y') by (eapply G_advs; [exact A2|exact GY]).
    assert (Ga : Gw z 1 (adv y)) by (eapply G_advs; [exact A|exact G1]).
    assert (G2 : Gw z 2 y) by (apply (G_adv_inv z ZNE0); [lia|exact Ga]).
    assert (G0y : Gw z 0 y) by (eapply G_le; [|exact G2]; lia).
    assert (G1y : Gw z 1 y) by (eapply G_le; [|exact G2]; lia).
    destruct (IH Ey' GY Hb Hc) as (R' & I1 & I2).
    destruct (cond_front_twin _ _ _ _ _ _ _ _ Ea HC0 G1 Hb Hc) as (T & C1 & C2 & C3).
    split; [|split].
    + cbn [g_elifs map fst snd]. rewrite TwinParse.g_imp_add. fold (g_elifs G0' l).
      eapply (erun_cons _ _ _ f0); [rewrite (swap_peekis z tw ELSEIF y G2); exact PE| | |exact R'].
      * rewrite (s_len z tw y G0y), s1eq. lia.
      * rewrite (swap_adv z tw ZNE0 TWNE0 y G1y). exact T.
    + intros n Hn. apply ids_if_cons in Hn. destruct Hn as [Hn|[Hn|Hn]]; [|apply C2; exact Hn|apply I1; exact Hn].
      apply in_map_iff in Hn. destruct Hn as (c0 & <- & Hc0). apply C1. exact Hc0.
    + intros n Hn. apply TwinProgram.imp_ids_add in Hn. destruct Hn; [apply C3|apply I2]; assumption.
Qed.

(* the if statement behind its front part *)
Definition if_tail (f fk : nat) (bs cs : list nat) (e1 : bexp) (bd : list stmt) (l : list (bexp * list stmt)) (i1 il : impdata) (yk : toks)
  : res (list stmt * impdata * toks) :=
  match P_elifs fk script bs cs yk [] imp0 with
  | Ok (l2, i2, y2) =>
      if peekis ELSE y2 then
        match expect_peek LBRACE (adv y2) with
        | None => err_range (cur (adv y2)) (pk 1 (adv y2)) "missing opening curly brace of else statement"
        | Some ts4 =>
            do (eb, imp3, ts5) <- P_block f script bs cs (cur ts4) (adv ts4) [] imp0;
            Ok ([SIf ((e1, bd) :: l ++ l2) (Some eb)], impadd (impadd i1 (impadd il i2)) imp3, ts5)
        end
      else Ok ([SIf ((e1, bd) :: l ++ l2) None], impadd i1 (impadd il i2), y2)
  | Err e => Err e | Panic => Panic | Fuel => Fuel
  end.

Lemma if_front_eq w bs cs f0 f2 e1 bd i1 y3 l il yk : eof_ended w -> (5 * len w <= f2 + 2)%nat -> (5 * len w <= f0 + 2)%nat ->
  P_cond f0 true script bs cs w = Ok (Some e1, bd, i1, y3) -> erun bs cs y3 l il yk ->
  P_if (S f2) script bs cs w = if_tail f2 (f2 - List.length l) bs cs e1 bd l i1 il yk.
Proof.
  intros E L2 L0 HC0 R. rewrite parse_if_unfold, (cond_fuel bs cs w f2 f0 E L2 L0), HC0. cbv beta iota.
  destruct (cond_facts _ _ _ _ _ _ _ _ E HC0) as (A & L & _).
  rewrite (elifs_erun _ _ _ _ _ _ R (advs_eof _ _ A E) f2 [] i1 ltac:(lia)). unfold if_tail.
  destruct (P_elifs (f2 - List.length l) script bs cs yk [] imp0) as [[[l2 i2] y2]| | |]; reflexivity.
Qed.

Lemma g_elifs_length g l : List.length (g_elifs g l) = List.length l.
Proof. unfold g_elifs. apply map_length. Qed.

(* STEP (else): the poryswitch lies in the ELSE body of the if statement at w; condition, first body and all elif parts in front *)
Lemma twin_else_step w bs cs f0 e1 bd i1 y3 l il yk t4 : eof_ended w -> ttype (cur w) = IF ->
  (5 * len w <= f0 + 2)%nat -> P_cond f0 true script bs cs w = Ok (Some e1, bd, i1, y3) -> erun bs cs y3 l il yk ->
  peekis ELSEIF yk = false -> peekis ELSE yk = true -> expect_peek LBRACE (adv yk) = Some t4 -> Gw z 0 (adv t4) ->
  Forall (fun n => len z < n)%nat bs -> Forall (fun n => len z < n)%nat cs ->
  TWb' bs cs (adv t4) -> TWs' bs cs w.
Proof.
  intros E TY L0 HC0 R PEI PEL EP4 GX2 Hb Hc IHb f b imp y Bf H.
  pose proof ZNE' as ZNE0. pose proof TWNE' as TWNE0. pose proof CEz' as CEz0. pose proof Etw' as Etw0.
  destruct (cond_facts _ _ _ _ _ _ _ _ E HC0) as (A & L & _). pose proof (advs_eof _ _ A E) as Ey3.
  destruct (erun_facts _ _ _ _ _ _ R Ey3) as [A2 L2]. pose proof (advs_eof _ _ A2 Ey3) as Eyk.
  pose proof (expect_peek_some _ _ _ EP4) as Q4.
  assert (Et4 : eof_ended t4) by (rewrite Q4; eapply advs_eof; [apply advs_adv_r, advs_adv_r, advs_refl|exact Eyk]).
  assert (Gt4 : Gw z 1 t4) by (apply TwinProgram.Gw_step_back; [exact Et4|exact ZNE0|exact CEz0|exact GX2]).
  assert (Gak : Gw z 2 (adv yk)) by (apply (G_adv_inv z ZNE0); [lia|rewrite <- Q4; exact Gt4]).
  assert (Gyk3 : Gw z 3 yk) by (apply (G_adv_inv z ZNE0); [lia|exact Gak]).
  assert (Gyk2 : Gw z 2 yk) by (eapply G_le; [|exact Gyk3]; lia).
  assert (Gyk1 : Gw z 1 yk) by (eapply G_le; [|exact Gyk3]; lia).
  assert (Gy3 : Gw z 1 y3) by (eapply G_advs; [exact A2|exact Gyk1]).
  assert (Gw1 : Gw z 1 w) by (eapply G_advs; [exact A|exact Gy3]).
  assert (Gw0 : Gw z 0 w) by (eapply G_le; [|exact Gw1]; lia).
  pose proof (adv_len yk) as La1. pose proof (adv_len (adv yk)) as La2. pose proof (adv_len t4) as La3. rewrite <- Q4 in La2.
  destruct f as [|[|f2]]; [lia|lia|]. rewrite parse_stmt_unfold, TY in H.
  rewrite (if_front_eq w bs cs f0 f2 _ _ _ _ _ _ _ E ltac:(lia) L0 HC0 R) in H. unfold if_tail in H.
  destruct (f2 - List.length l)%nat as [|fk'] eqn:FK; [lia|].
  rewrite parse_elifs_unfold, PEI in H. rewrite PEL, EP4 in H.
  destruct (P_block f2 script bs cs (cur t4) (adv t4) [] imp0) as [[[eb ieb] y5]| | |] eqn:EBe; try discriminate H.
  injection H as <- <- <-.
  destruct (IHb f2 (cur t4) eb ieb y5 ltac:(lia) EBe) as (TB & OKB & la1 & L5 & Lyr).
  destruct (cond_front_twin _ _ _ _ _ _ _ _ E HC0 Gy3 Hb Hc) as (TC & C1 & C2 & C3).
  destruct (erun_twin _ _ _ _ _ _ R Ey3 Gyk1 Hb Hc) as (TR & I1 & I2).
  assert (Esw : eof_ended (swp w)).
  { destruct (G_swap z tw 0 w Gw0) as (u & _ & -> & _). apply ProgSrc.eof_ended_app. exact Etw0. }
  assert (Lsw : (len (swp w) <= len w)%nat) by (rewrite (s_len z tw w Gw0), s1eq; lia).
  split; [|split; [|split; [exact la1|exact Lyr]]].
  - rewrite parse_stmt_unfold, (swap_cur z tw w Gw1), TY.
    rewrite (if_front_eq (swp w) (map G0' bs) (map G0' cs) f0 f2 _ _ _ _ _ _ _ Esw ltac:(lia) ltac:(lia) TC TR). unfold if_tail.
    rewrite g_elifs_length, FK. rewrite parse_elifs_unfold. rewrite (swap_peekis z tw ELSEIF yk Gyk2), PEI.
    rewrite (swap_peekis z tw ELSE yk Gyk2), PEL.
    rewrite (swap_adv z tw ZNE0 TWNE0 yk Gyk1), (swap_expect_peek z tw ZNE0 TWNE0 LBRACE (adv yk) Gak), EP4.
    rewrite (swap_cur z tw t4 Gt4), (swap_adv z tw ZNE0 TWNE0 t4 Gt4), TB. cbv beta iota.
    rewrite !app_nil_r. cbn [map g_stmt fst snd]. rewrite !TwinParse.g_imp_add. unfold g_elifs. reflexivity.
  - split.
    + intros n Hn. apply ids_if_split in Hn. destruct Hn as [Hn|(b0 & EQ & Hn)].
      * rewrite app_nil_r in Hn. apply ids_if_cons in Hn. left. destruct Hn as [Hn|[Hn|Hn]]; [|apply C2; exact Hn|apply I1; exact Hn].
        apply in_map_iff in Hn. destruct Hn as (c0 & <- & Hc0). apply C1. exact Hc0.
      * injection EQ as <-. apply (proj1 OKB). exact Hn.
    + intros n Hn. apply TwinProgram.imp_ids_add in Hn. destruct Hn as [Hn|Hn]; [|apply (proj2 OKB); exact Hn].
      apply TwinProgram.imp_ids_add in Hn. destruct Hn as [Hn|Hn]; [left; apply C3; exact Hn|].
      apply TwinProgram.imp_ids_add in Hn. destruct Hn as [Hn|Hn]; [left; apply I2; exact Hn|cbv in Hn; contradiction].
Qed.

Lemma ids_if_app a b n : In n (TwinProgram.ids [SIf (a ++ b) None]) ->
  In n (TwinProgram.ids [SIf a None]) \/ In n (TwinProgram.ids [SIf b None]).
Proof.
  unfold TwinProgram.ids, TagRename.atags, HoistProgram.cmds. cbn [flat_map TagRename.atags1]. rewrite !HoistProgram.stmt_cmds_if.
  unfold HoistProgram.conds_cmds. rewrite !flat_map_app. cbn [HoistProgram.ocmds].
  rewrite ?app_nil_r, ?map_app, ?in_app_iff, ?map_app, ?in_app_iff. cbn [In]. tauto.
Qed.

(* STEP (elif): the poryswitch lies in the body of an ELIF part of the if statement at w; condition, first body and the earlier
   elif parts in front, later elif parts and the else part behind *)
Lemma twin_elif_step w bs cs f0 e1 bd i1 y3 l il yk f1 e ie t1 t2 : eof_ended w -> ttype (cur w) = IF ->
  (5 * len w <= f0 + 2)%nat -> P_cond f0 true script bs cs w = Ok (Some e1, bd, i1, y3) -> erun bs cs y3 l il yk ->
  peekis ELSEIF yk = true -> (5 * len yk <= f1)%nat -> cond_head' f1 true (adv yk) = Ok (e, ie, t1) ->
  expect_peek LBRACE t1 = Some t2 -> Gw z 0 (adv t2) ->
  Forall (fun n => len z < n)%nat bs -> Forall (fun n => len z < n)%nat cs ->
  TWb' bs cs (adv t2) -> TWs' bs cs w.
Proof.
  intros E TY L0 HC0 R PEI Lf1 CH EP GX2 Hb Hc IHb f b imp y Bf H.
  pose proof ZNE' as ZNE0. pose proof TWNE' as TWNE0. pose proof CEz' as CEz0. pose proof Etw' as Etw0.
  destruct (cond_facts _ _ _ _ _ _ _ _ E HC0) as (A & L & _). pose proof (advs_eof _ _ A E) as Ey3.
  destruct (erun_facts _ _ _ _ _ _ R Ey3) as [A2 L2]. pose proof (advs_eof _ _ A2 Ey3) as Eyk.
  assert (Eak : eof_ended (adv yk)) by (eapply advs_eof; [apply advs_adv_r, advs_refl|exact Eyk]).
  pose proof (cond_head_advs' _ _ _ _ _ _ CH) as A1. pose proof (advs_eof _ _ A1 Eak) as Et1.
  pose proof (expect_peek_some _ _ _ EP) as Q2.
  assert (Et2 : eof_ended t2) by (rewrite Q2; eapply advs_eof; [apply advs_adv_r, advs_refl|exact Et1]).
  assert (Gt2 : Gw z 1 t2) by (apply TwinProgram.Gw_step_back; [exact Et2|exact ZNE0|exact CEz0|exact GX2]).
  assert (Gt1 : Gw z 2 t1) by (apply (G_adv_inv z ZNE0); [lia|rewrite <- Q2; exact Gt2]).
  assert (Gak : Gw z 2 (adv yk)) by (eapply G_advs; [exact A1|exact Gt1]).
  assert (Gak1 : Gw z 1 (adv yk)) by (eapply G_le; [|exact Gak]; lia).
  assert (Gak0 : Gw z 0 (adv yk)) by (eapply G_le; [|exact Gak]; lia).
  assert (Gyk3 : Gw z 3 yk) by (apply (G_adv_inv z ZNE0); [lia|exact Gak]).
  assert (Gyk2 : Gw z 2 yk) by (eapply G_le; [|exact Gyk3]; lia).
  assert (Gyk1 : Gw z 1 yk) by (eapply G_le; [|exact Gyk3]; lia).
  assert (Gy3 : Gw z 1 y3) by (eapply G_advs; [exact A2|exact Gyk1]).
  assert (Gw1 : Gw z 1 w) by (eapply G_advs; [exact A|exact Gy3]).
  assert (Gw0 : Gw z 0 w) by (eapply G_le; [|exact Gw1]; lia).
  destruct (cond_head_true_lt _ _ _ _ _ Eak CH) as (Lt1 & e' & ->).
  assert (Lzt1 : (len z < len t1)%nat) by (destruct Gt1 as (u1 & EU & KU); rewrite EU, app_length; lia).
  assert (L12 : (len t2 < len t1)%nat).
  { rewrite Q2. unfold expect_peek in EP. destruct (peekis LBRACE t1) eqn:PL; [|discriminate EP]. apply (peek_strict LBRACE t1 Et1 ltac:(discriminate) PL). }
  pose proof (adv_len yk) as La1. pose proof (adv_len t2) as La2.
  destruct f as [|[|f2]]; [lia|lia|]. rewrite parse_stmt_unfold, TY in H.
  rewrite (if_front_eq w bs cs f0 f2 _ _ _ _ _ _ _ E ltac:(lia) L0 HC0 R) in H. unfold if_tail in H.
  destruct (f2 - List.length l)%nat as [|[|fk]] eqn:FK; [lia|lia|].
  rewrite parse_elifs_unfold, PEI in H. rewrite parse_cond_head in H.
  rewrite (cond_head_fuel2 true (adv yk) fk f1 Eak ltac:(lia) ltac:(lia)), CH in H. cbv beta iota in H. rewrite EP in H.
  destruct (P_block fk script bs cs (cur t2) (adv t2) [] imp0) as [[[b2 ib2] y4]| | |] eqn:EB; try discriminate H.
  cbv beta iota in H. rewrite elifs_acc in H.
  destruct (P_elifs (S fk) script bs cs y4 [] imp0) as [[[el iel] y5]| | |] eqn:EE; try discriminate H.
  cbv beta iota zeta in H. cbn [app] in H.
  destruct (IHb fk (cur t2) b2 ib2 y4 ltac:(lia) EB) as (TB & OKB & la1 & L2' & Lyr).
  assert (A3 : advs (adv t2) y4) by (eapply (proj1 (proj2 (adv_all av sw pf c pf_advs ee _))); [exact EB|apply advs_refl]).
  assert (Ey4 : eof_ended y4) by (eapply advs_eof; [exact A3|]; eapply advs_eof; [apply advs_adv_r, advs_refl|exact Et2]).
  destruct (rest_elifs (S fk) bs cs y4 el iel y5 Ey4 Lyr Hb Hc EE) as (TE & OKE & A4).
  pose proof (advs_eof _ _ A4 Ey4) as Ey5. pose proof (advs_len _ _ A4) as L5.
  destruct (cond_head_ids' _ _ _ _ _ _ CH) as [CI1 CI2]. cbn [HoistProgram.obexp_cmds] in CI1.
  assert (XE : g_bexp s1 e' = g_bexp G0' e').
  { apply g_bexp_ext_cmds. intros c0 Hc0. symmetry. apply G0hi. specialize (CI1 c0 Hc0). lia. }
  assert (XI : g_imp s1 ie = g_imp G0' ie).
  { apply TwinProgram.g_imp_ext. intros n Hn. symmetry. apply G0hi. specialize (CI2 n Hn). lia. }
  destruct (cond_front_twin _ _ _ _ _ _ _ _ E HC0 Gy3 Hb Hc) as (TC & C1 & C2 & C3).
  destruct (erun_twin _ _ _ _ _ _ R Ey3 Gyk1 Hb Hc) as (TR & I1 & I2).
  assert (Esw : eof_ended (swp w)).
  { destruct (G_swap z tw 0 w Gw0) as (u & _ & -> & _). apply ProgSrc.eof_ended_app. exact Etw0. }
  assert (Lsw : (len (swp w) <= len w)%nat) by (rewrite (s_len z tw w Gw0), s1eq; lia).
  assert (Esak : eof_ended (swp (adv yk))).
  { destruct (G_swap z tw 0 (adv yk) Gak0) as (u & _ & -> & _). apply ProgSrc.eof_ended_app. exact Etw0. }
  assert (Lsak : (len (swp (adv yk)) <= len (adv yk))%nat) by (rewrite (s_len z tw (adv yk) Gak0), s1eq; lia).
  assert (FRONT : P_stmt (S (S f2)) script (map G0' bs) (map G0' cs) (swp w) =
     if peekis ELSE y5 then
        match expect_peek LBRACE (adv y5) with
        | None => err_range (cur (adv y5)) (pk 1 (adv y5)) "missing opening curly brace of else statement"
        | Some ts4 =>
            do (eb, imp3, ts5) <- P_block f2 script (map G0' bs) (map G0' cs) (cur ts4) (adv ts4) [] imp0;
            Ok ([SIf ((g_bexp G0' e1, map (g_stmt G0') bd) :: g_elifs G0' l ++ (g_bexp G0' e', map (g_stmt G0') b2) :: g_elifs G0' el) (Some eb)],
                impadd (impadd (g_imp G0' i1) (impadd (g_imp G0' il) (impadd (impadd imp0 (impadd (g_imp G0' ie) (g_imp G0' ib2))) (g_imp G0' iel)))) imp3, ts5)
        end
      else Ok ([SIf ((g_bexp G0' e1, map (g_stmt G0') bd) :: g_elifs G0' l ++ (g_bexp G0' e', map (g_stmt G0') b2) :: g_elifs G0' el) None],
               impadd (g_imp G0' i1) (impadd (g_imp G0' il) (impadd (impadd imp0 (impadd (g_imp G0' ie) (g_imp G0' ib2))) (g_imp G0' iel))), y5)).
  { rewrite parse_stmt_unfold, (swap_cur z tw w Gw1), TY.
    rewrite (if_front_eq (swp w) (map G0' bs) (map G0' cs) f0 f2 _ _ _ _ _ _ _ Esw ltac:(lia) ltac:(lia) TC TR). unfold if_tail.
    rewrite g_elifs_length, FK. rewrite parse_elifs_unfold. rewrite (swap_peekis z tw ELSEIF yk Gyk2), PEI.
    rewrite (swap_adv z tw ZNE0 TWNE0 yk Gyk1). rewrite parse_cond_head.
    rewrite (cond_head_fuel2 true (swp (adv yk)) fk f1 Esak ltac:(lia) ltac:(lia)).
    rewrite (cond_head_swap' _ _ _ _ _ _ CH Gt1). cbv beta iota.
    rewrite (swap_expect_peek z tw ZNE0 TWNE0 LBRACE t1 Gt1), EP.
    rewrite (swap_cur z tw t2 Gt2), (swap_adv z tw ZNE0 TWNE0 t2 Gt2).
    rewrite TB. cbv beta iota. cbn [g_obexp]. rewrite elifs_acc, TE. cbv beta iota zeta. cbn [app]. rewrite XE, XI. reflexivity. }
  assert (OKF : forall n, In n (TwinProgram.ids [SIf ((e1, bd) :: l ++ (e', b2) :: el) None]) -> okid' n).
  { intros n Hn. apply ids_if_cons in Hn. destruct Hn as [Hn|[Hn|Hn]].
    - apply in_map_iff in Hn. destruct Hn as (c0 & <- & Hc0). left. apply C1. exact Hc0.
    - left. apply C2. exact Hn.
    - apply ids_if_app in Hn. destruct Hn as [Hn|Hn]; [left; apply I1; exact Hn|].
      apply ids_if_cons in Hn. destruct Hn as [Hn|[Hn|Hn]].
      + apply in_map_iff in Hn. destruct Hn as (c0 & <- & Hc0). left. specialize (CI1 c0 Hc0). lia.
      + apply (proj1 OKB). exact Hn.
      + apply (proj1 OKE). exact Hn. }
  assert (OKI : forall n, In n (TwinProgram.imp_ids (impadd i1 (impadd il (impadd (impadd imp0 (impadd ie ib2)) iel)))) -> okid' n).
  { intros n Hn. apply TwinProgram.imp_ids_add in Hn. destruct Hn as [Hn|Hn]; [left; apply C3; exact Hn|].
    apply TwinProgram.imp_ids_add in Hn. destruct Hn as [Hn|Hn]; [left; apply I2; exact Hn|].
    apply TwinProgram.imp_ids_add in Hn. destruct Hn as [Hn|Hn]; [|apply (proj2 OKE); exact Hn].
    apply TwinProgram.imp_ids_add in Hn. destruct Hn as [Hn|Hn]; [cbv in Hn; contradiction|].
    apply TwinProgram.imp_ids_add in Hn. destruct Hn as [Hn|Hn]; [left; specialize (CI2 n Hn); lia|apply (proj2 OKB); exact Hn]. }
  destruct (peekis ELSE y5) eqn:PE.
  - destruct (expect_peek LBRACE (adv y5)) as [t4|] eqn:EP4; [|unfold err_range in H; discriminate H].
    destruct (P_block f2 script bs cs (cur t4) (adv t4) [] imp0) as [[[eb ieb] y6]| | |] eqn:EBe; try discriminate H.
    injection H as <- <- <-.
    pose proof (expect_peek_some _ _ _ EP4) as Q4. pose proof (adv_len y5) as La4. pose proof (adv_len (adv y5)) as La5. pose proof (adv_len t4) as La6.
    assert (Et4 : eof_ended (adv t4)).
    { rewrite Q4. eapply advs_eof; [apply advs_adv_r, advs_adv_r, advs_adv_r, advs_refl|exact Ey5]. }
    assert (L6 : (len (adv t4) <= len rest)%nat) by (rewrite Q4 in *; lia).
    destruct (rest_block' f2 bs cs (cur t4) (adv t4) eb ieb y6 Et4 L6 Hb Hc EBe) as (TE2 & OK2).
    assert (A5 : advs (adv t4) y6) by (eapply (proj1 (proj2 (adv_all av sw pf c pf_advs ee _))); [exact EBe|apply advs_refl]).
    pose proof (advs_len _ _ A5) as L7.
    split; [|split; [|split; [exact la1|lia]]].
    + rewrite FRONT, TE2. cbv beta iota. cbn [map g_stmt fst snd]. rewrite !map_app. cbn [map fst snd]. rewrite !TwinParse.g_imp_add. unfold g_elifs. reflexivity.
    + split.
      * intros n Hn. apply ids_if_split in Hn. destruct Hn as [Hn|(b0 & EQ & Hn)]; [apply OKF; exact Hn|].
        injection EQ as <-. apply (proj1 OK2). exact Hn.
      * intros n Hn. apply TwinProgram.imp_ids_add in Hn. destruct Hn as [Hn|Hn]; [apply OKI; exact Hn|apply (proj2 OK2); exact Hn].
  - injection H as <- <- <-.
    split; [|split; [|split; [exact la1|lia]]].
    + rewrite FRONT. cbn [map g_stmt fst snd]. rewrite !map_app. cbn [map fst snd]. rewrite !TwinParse.g_imp_add. unfold g_elifs. reflexivity.
    + split; [exact OKF|exact OKI].
Qed.


(* ------------------------------------------------------------------------------------------------------------ *)
(* switch statements.  Part A: parse_switch_block (the body of one case), the analogues of the parse_block lemmas  *)
(* ------------------------------------------------------------------------------------------------------------ *)
Local Notation P_swb := (parse_switch_block av sw ee pf c).
Local Notation s2 := (sh ra rest).
Ltac dH' H := first [discriminate H | unfold err_range, err_tok in H; discriminate H].

Lemma swb_fuel bs cs start x acc i f g : eof_ended x -> (5 * len x + 3 <= f)%nat -> (5 * len x + 3 <= g)%nat ->
  P_swb f script bs cs start x acc i = P_swb g script bs cs start x acc i.
Proof.
  intros E. apply (TwinParse.fuel_up (fun f => P_swb f script bs cs start x acc i)). intros k K.
  apply (FuelOk.sts_all av sw ee pf c pf_advs pf_lt k); assumption.
Qed.

Lemma stmt_start2 f bs cs x r : P_stmt f script bs cs x = Ok r -> curis CASE x = false /\ curis DEFAULT x = false.
Proof.
  destruct f as [|f]; [discriminate|]. rewrite parse_stmt_unfold. unfold curis, is. intros H.
  destruct (ttype (cur x)); try (dH' H); split; reflexivity.
Qed.

Lemma swb_srun bs cs x ss0 imp z0 : srun script bs cs x ss0 imp z0 -> eof_ended x ->
  forall f start acc i, (5 * len x + 3 <= f)%nat ->
  P_swb f script bs cs start x acc i = P_swb f script bs cs start z0 (acc ++ ss0) (impadd i imp).
Proof.
  induction 1 as [x|x f0 ss0 imp y ss1 imp1 z0 B H L R IH]; intros E f start acc i Ff.
  - rewrite app_nil_r, TwinParse.impadd_imp0_r. reflexivity.
  - destruct f as [|f]; [lia|]. rewrite parse_switch_block_unfold.
    destruct (TwinParse.stmt_start av sw ee pf c _ _ _ _ _ _ H) as (S1 & S2 & _). destruct (stmt_start2 _ _ _ _ _ H) as (S3 & S4).
    rewrite S1, S2, S3, S4. cbn [orb].
    rewrite (TwinParse.stmt_fuel av sw ee pf c pf_advs pf_lt script bs cs x f f0 E) by lia. rewrite H.
    pose proof (TwinParse.a_stmt2 av sw ee pf c pf_advs _ _ _ _ _ _ _ _ H) as A.
    pose proof (TwinParse.adv_after_lt x y E A (TwinParse.curis_eof_ne _ S2)) as LT.
    assert (E' : eof_ended (adv y)) by (eapply advs_eof; [apply advs_adv_r; exact A|exact E]).
    rewrite (swb_fuel bs cs start (adv y) (acc ++ ss0) (impadd i imp) f (S f) E') by lia.
    rewrite (IH E' (S f) start (acc ++ ss0) (impadd i imp)) by lia.
    rewrite app_assoc, TwinParse.impadd_assoc. reflexivity.
Qed.

Lemma swb_acc : forall f bs cs start x acc i,
  P_swb f script bs cs start x acc i =
  match P_swb f script bs cs start x [] imp0 with
  | Ok (b, i', y) => Ok (acc ++ b, impadd i i', y) | Err e => Err e | Panic => Panic | Fuel => Fuel end.
Proof.
  induction f as [|f IH]; intros bs cs start x acc i; [reflexivity|]. rewrite !parse_switch_block_unfold.
  destruct (curis RBRACE x || curis CASE x || curis DEFAULT x); [rewrite app_nil_r, TwinParse.impadd_imp0_r; reflexivity|].
  destruct (curis EOF x); [reflexivity|].
  destruct (P_stmt f script bs cs x) as [[[ss0 imp1] t1]| | |]; try reflexivity.
  rewrite (IH bs cs start (adv t1) (acc ++ ss0) (impadd i imp1)).
  rewrite (IH bs cs start (adv t1) ([] ++ ss0) (impadd imp0 imp1)).
  destruct (P_swb f script bs cs start (adv t1) [] imp0) as [[[b i'] y]| | |]; try reflexivity.
  cbn [app]. rewrite TwinParse.impadd_imp0_l, <- app_assoc, TwinParse.impadd_assoc. reflexivity.
Qed.

Lemma swb_pory_step bs cs z0 sc sv0 t10 F0 cases0 t20 :
  eof_ended z0 -> curis PORYSWITCH z0 = true -> poryswitch_header sw ee z0 = Ok (sc, sv0, t10) -> (5 * len z0 <= F0)%nat ->
  P_pcases F0 script bs cs (cur t10) t10 [] = Ok (cases0, t20) ->
  forall f start acc i, (5 * len z0 + 3 <= f)%nat ->
  P_swb f script bs cs start z0 acc i =
  match PorySwitchLists.pory_select cases0 sv0 with
  | Some (ss0, imp1) => P_swb f script bs cs start (adv t20) (acc ++ ss0) (impadd i imp1)
  | None => if ee then err_tok (cur z0) "no poryswitch case found" else P_swb f script bs cs start (adv t20) acc i
  end.
Proof.
  intros E CP0 HH0 BF0 HC0 f start acc i Bf.
  assert (A1 : advs z0 t10) by (eapply poryswitch_header_advs; [exact HH0|apply advs_refl]).
  pose proof (FuelOk.poryswitch_header_lt _ _ _ _ _ _ HH0 E) as L1. pose proof (advs_eof _ _ A1 E) as E1.
  assert (A2 : advs t10 t20).
  { eapply (proj1 (proj2 (proj2 (proj2 (proj2 (proj2 (proj2 (proj2 (proj2 (proj2 (adv_all av sw pf c pf_advs ee F0)))))))))));
      [exact HC0|apply advs_refl]. }
  pose proof (advs_len _ _ A2) as L2. pose proof (advs_eof _ _ A2 E1) as E2.
  assert (E3 : eof_ended (adv t20)) by (eapply advs_eof; [apply advs_adv_r, advs_refl|exact E2]).
  pose proof (adv_len t20) as L3.
  destruct f as [|[|[|f']]]; try lia.
  rewrite (TwinParse.pcases_fuel av sw ee pf c pf_advs pf_lt script bs cs (cur t10) t10 [] F0 f' E1) in HC0 by lia.
  rewrite (TagRename.BlockStep.switch_block_poryswitch_step av sw ee pf c f' script bs cs start z0 acc i sc sv0 t10 cases0 t20 CP0 HH0 HC0).
  destruct (PorySwitchLists.pory_select cases0 sv0) as [[ss0 imp1]|].
  - apply swb_fuel; [exact E3|lia|lia].
  - match goal with |- (if ?b then ?x else ?y) = (if ?b then ?x else ?y') => assert (Q : y = y'); [|rewrite Q; reflexivity] end.
    rewrite (app_nil_r acc), (TwinParse.impadd_imp0_r i). apply swb_fuel; [exact E3|lia|lia].
Qed.

Lemma swb_ok_start f bs cs start x acc i r : P_swb f script bs cs start x acc i = Ok r ->
  is COLON (cur x) = false /\ is LPAREN (cur x) = false /\ is ELSE (cur x) = false /\ is ELSEIF (cur x) = false.
Proof.
  destruct f as [|f]; [discriminate|]. rewrite parse_switch_block_unfold. intros H.
  destruct (curis RBRACE x) eqn:CR; [repeat split; (eapply is_excl; [exact CR|discriminate])|].
  destruct (curis CASE x) eqn:CC; [repeat split; (eapply is_excl; [exact CC|discriminate])|].
  destruct (curis DEFAULT x) eqn:CD; [repeat split; (eapply is_excl; [exact CD|discriminate])|].
  cbn [orb] in H. destruct (curis EOF x); [dH' H|].
  destruct (P_stmt f script bs cs x) as [[[ss0 imp1] t1]| | |] eqn:ES; try discriminate H.
  destruct (TwinParse.stmt_start av sw ee pf c _ _ _ _ _ _ ES) as (_ & _ & Q). exact Q.
Qed.

Lemma srun_start_swb bs cs x ss0 imp z0 f start acc i r : srun script bs cs x ss0 imp z0 ->
  P_swb f script bs cs start z0 acc i = Ok r ->
  is COLON (cur x) = false /\ is LPAREN (cur x) = false /\ is ELSE (cur x) = false /\ is ELSEIF (cur x) = false.
Proof.
  intros R H. destruct R as [x|x f0 ss0 imp y ss1 imp1 z0 B HS L R].
  - eapply swb_ok_start. exact H.
  - destruct (TwinParse.stmt_start av sw ee pf c _ _ _ _ _ _ HS) as (_ & _ & Q). exact Q.
Qed.

Lemma swb_advs f bs cs start x acc i b imp y : P_swb f script bs cs start x acc i = Ok (b, imp, y) -> advs x y.
Proof. intros H. eapply (proj1 (proj2 (proj2 (adv_all av sw pf c pf_advs ee f)))); [exact H|apply advs_refl]. Qed.

Lemma swb_scopes_ok f bs cs bs' cs' start x acc i b imp y : se bs bs' -> se cs cs' ->
  P_swb f script bs cs start x acc i = Ok (b, imp, y) ->
  P_swb f script bs' cs' start x (map (rt_stmt (hd_error bs') (hd_error cs')) acc) i =
  Ok (map (rt_stmt (hd_error bs') (hd_error cs')) b, imp, y).
Proof. intros Hb Hc H. rewrite (proj1 (proj2 (proj2 (scope_all av sw ee pf c f))) script bs cs bs' cs' start x acc i Hb Hc), H. reflexivity. Qed.

Lemma swb_bnd f bs cs start x b imp y : eof_ended x ->
  P_swb f script bs cs start x [] imp0 = Ok (b, imp, y) ->
  bnd (fun n => n <= len x)%nat b imp /\ Tr.scoped (hd_error bs) (hd_error cs) b.
Proof.
  intros E H.
  destruct (SrcWf.gw_all av sw pf c pf_advs ee f) as (_ & _ & Gswb & _).
  destruct (ParseWf.wf_all av sw ee pf c f) as (_ & _ & Wswb & _).
  destruct (HoistProgram.pi_all av sw ee pf pf_advs x c f) as (_ & _ & Pswb & _).
  pose proof (Gswb _ _ _ _ _ _ _ _ _ _ (len x) E H (Nat.le_refl _) (SrcWf.good_nil _ _)) as (_ & GT & _).
  pose proof (Pswb _ _ _ _ _ _ _ _ _ _ (len x) (advs_refl x) H (HoistProgram.pre_nil sw ee pf x script (len x) (len x)) (Nat.le_refl _)) as SP.
  apply HoistProgram.pre_span in SP.
  destruct (TwinProgram.span_ids _ _ _ _ _ _ _ _ _ SP) as [C1 C2].
  split; [|eapply Wswb; [exact H|constructor]]. split; [|split].
  - intros n Hn. rewrite Forall_forall in GT. specialize (GT n Hn). lia.
  - intros c0 Hc. specialize (C1 (cid c0) (in_map _ _ _ Hc)). lia.
  - intros n Hn. specialize (C2 n Hn). lia.
Qed.

Local Lemma Ebody' : eof_ended (body ++ ra).
Proof. eapply advs_eof; [exact AB|]. eapply advs_eof; [|exact Ez]. eapply poryswitch_header_advs; [exact HH|apply advs_refl]. Qed.
Local Lemma Era' : eof_ended ra.
Proof. eapply advs_eof; [eapply TwinParse.srun_advs; [exact pf_advs|exact RR]|exact Ebody']. Qed.
Local Definition G0mid n := G0_mid z body ra rest F BF n.
Local Definition mapG0hi l := map_G0_hi z body ra rest F BF l.

(* what "the twin of the case body at x" means *)
Definition TWsb (bs cs : list nat) (x : toks) : Prop :=
  forall f start b imp y, (5 * len x + 3 <= f)%nat -> P_swb f script bs cs start x [] imp0 = Ok (b, imp, y) ->
    P_swb f script (map G0' bs) (map G0' cs) start (swp x) [] imp0 = Ok (map (g_stmt G0') b, g_imp G0' imp, y) /\ allok' b imp /\ TwinParse.LA z tw /\ (len y <= len rest)%nat.

Lemma twin_swb_base x b1 i1 : eof_ended x -> srun script bsz csz x b1 i1 z -> TWsb bsz csz x.
Proof.
  intros E R1 f start b imp y Bf H.
  pose proof (TwinParse.srun_advs av sw ee pf c pf_advs _ _ _ _ _ _ _ R1) as A0. destruct (advs_suffix _ _ A0) as (pre & EX).
  pose proof (advs_len _ _ A0) as Lz. pose proof Lb' as Lb'. pose proof Lr' as Lr'. pose proof (Ltw body rest) as Ltw'.
  pose proof Erest' as Erest'. pose proof Etw' as Etw'. pose proof Era' as Era'. pose proof Ebody' as Ebody'.
  (* the original *)
  rewrite (swb_srun _ _ _ _ _ _ R1 E f start [] imp0 Bf) in H. cbn [app] in H.
  rewrite TwinParse.impadd_imp0_l in H.
  rewrite (swb_pory_step bsz csz z scn sv ts1 F cases ts2 Ez CP HH BF HC f start b1 i1) in H by lia.
  rewrite SEL in H. rewrite swb_acc in H. rewrite <- Drest in H.
  destruct (P_swb f script bsz csz start rest [] imp0) as [[[b3 i3] y3]| | |] eqn:E3; try discriminate H.
  injection H as Hb Hi Hy. subst y3.
  (* look-ahead *)
  assert (Q : is COLON (cur ra) = false /\ is LPAREN (cur ra) = false /\ is ELSE (cur ra) = false /\ is ELSEIF (cur ra) = false).
  { destruct RAK as [K|[K|K]]; repeat split; (eapply is_excl; [exact K|discriminate]). }
  destruct Q as (Q1 & Q2 & Q3 & Q4).
  pose proof (swb_ok_start _ _ _ _ _ _ _ _ E3) as (P1 & P2 & P3 & P4).
  assert (la2 : TwinParse.LA ra rest) by (unfold TwinParse.LA; rewrite Q1, Q2, Q3, Q4, P1, P2, P3, P4; auto).
  assert (RANE : ra <> []) by (destruct Era'; assumption).
  assert (RNE : rest <> []) by (destruct Erest'; assumption).
  assert (GR : Gw ra 0 ra) by (exists []; split; [reflexivity|cbn; lia]).
  pose proof (TwinParse.srun_swap av sw ee pf c pf_advs pf_local pf_lt ra rest script bsz csz _ _ _ _ RANE RNE la2 HLC RR Ebody' GR) as RS2.
  rewrite (swap_app ra rest body) in RS2. rewrite (swap_app ra rest [] : swap ra rest ra = rest) in RS2.
  pose proof (swb_scopes_ok f bsz csz (map s2 bsz) (map s2 csz) start rest [] imp0 b3 i3 y (se_map s2 bsz) (se_map s2 csz) E3) as E3s.
  cbn [map] in E3s.
  pose proof (srun_start_swb _ _ _ _ _ _ _ _ _ _ _ RS2 E3s) as (T1 & T2 & T3 & T4).
  assert (la1 : TwinParse.LA z tw).
  { pose proof (TagRename.BlockStep.curis_type _ _ CP) as TY. unfold TwinParse.LA, is. rewrite TY. unfold is in T1, T2, T3, T4.
    rewrite T1, T2, T3, T4. auto. }
  assert (lc1 : csz = [] \/ TwinParse.LC z tw).
  { right. unfold TwinParse.LC. intros K. pose proof (TwinParse.curis_excl PORYSWITCH RBRACE z CP ltac:(discriminate)) as K2. unfold curis in K2. rewrite K2 in K. discriminate K. }
  assert (GZ : Gw z 0 z) by (exists []; split; [reflexivity|cbn; lia]).
  pose proof (TwinParse.srun_swap av sw ee pf c pf_advs pf_local pf_lt z tw script bsz csz _ _ _ _ ZNE' TWNE' la1 lc1 R1 E GZ) as RS1.
  rewrite (swap_app z tw [] : swap z tw z = tw) in RS1.
  (* the pieces, renamed by G0' *)
  destruct (srun_bnd av sw ee pf c pf_advs _ _ _ _ _ _ _ R1 E) as [B1 S1].
  destruct (srun_bnd av sw ee pf c pf_advs _ _ _ _ _ _ _ RR Ebody') as [B2 S2].
  destruct (swb_bnd _ _ _ _ _ _ _ _ Erest' E3) as [B3 S3].
  destruct ((piece_ext z body ra rest) (fun n => len z < n)%nat s1 _ _ b1 i1 S1) as [X1 X1i].
  { eapply bnd_weaken; [|exact B1]. cbv beta. intros; lia. }
  { intros t0 Ht. eapply hdhi; [|exact Ht]; assumption. } { intros t0 Ht. eapply hdhi; [|exact Ht]; assumption. } { intros n Hn. symmetry. apply G0hi. exact Hn. }
  rewrite X1, X1i, <- (mapG0hi bsz Hbz), <- (mapG0hi csz Hcz) in RS1.
  (* the case body: other scope stacks, then key_all *)
  pose proof (srun_scopes av sw ee pf c script (map s2 bsz) (map s2 csz) (map G0' bsz) (map G0' csz) _ _ _ _
                (se_trans _ _ _ (se_sym _ _ (se_map s2 bsz)) (se_map G0' bsz)) (se_trans _ _ _ (se_sym _ _ (se_map s2 csz)) (se_map G0' csz)) RS2) as RS2'.
  rewrite !hd_error_map in RS2'.
  assert (X2 : map (rt_stmt (option_map G0' (hd_error bsz)) (option_map G0' (hd_error csz))) (map (g_stmt s2) ss) = map (g_stmt G0') ss).
  { apply key_all; [exact S2| |].
    - intros n Hn. destruct B2 as (B2a & _). specialize (B2a n Hn). cbv beta in B2a. rewrite app_length in B2a. symmetry. apply G0mid. lia.
    - intros c0 Hn. destruct B2 as (_ & B2b & _). specialize (B2b c0 Hn). cbv beta in B2b. rewrite app_length in B2b. symmetry. apply G0mid. lia. }
  assert (X2i : g_imp s2 imp' = g_imp G0' imp').
  { apply TwinProgram.g_imp_ext. intros n Hn. destruct B2 as (_ & _ & B2c). specialize (B2c n Hn). cbv beta in B2c. rewrite app_length in B2c.
    symmetry. apply G0mid. lia. }
  rewrite X2, X2i in RS2'.
  (* the rest of the block *)
  pose proof (swb_scopes_ok f bsz csz (map G0' bsz) (map G0' csz) start rest [] imp0 b3 i3 y (se_map G0' bsz) (se_map G0' csz) E3) as E3'.
  cbn [map] in E3'. rewrite !hd_error_map in E3'.
  assert (X3 : map (rt_stmt (option_map G0' (hd_error bsz)) (option_map G0' (hd_error csz))) b3 = map (g_stmt G0') b3).
  { rewrite <- (TwinProgram.g_stmts_id b3) at 1. apply key_all; [exact S3| |].
    - intros n Hn. destruct B3 as (B3a & _). specialize (B3a n Hn). cbv beta in B3a. symmetry. apply G0lo. lia.
    - intros c0 Hn. destruct B3 as (_ & B3b & _). specialize (B3b c0 Hn). cbv beta in B3b. symmetry. apply G0lo. lia. }
  assert (X3i : i3 = g_imp G0' i3).
  { rewrite <- (TwinProgram.g_imp_id i3) at 1. apply TwinProgram.g_imp_ext. intros n Hn. destruct B3 as (_ & _ & B3c). specialize (B3c n Hn).
    cbv beta in B3c. symmetry. apply G0lo. lia. }
  rewrite X3 in E3'.
  (* the twin *)
  split; [|split; [|split; [exact la1|exact (advs_len _ _ (swb_advs _ _ _ _ _ _ _ _ _ _ E3))]]].
  - rewrite EX, swap_app.
    assert (Etwin : eof_ended (pre ++ tw)) by (apply ProgSrc.eof_ended_app; exact Etw').
    assert (Ltwin : (len (pre ++ tw) <= len x)%nat) by (rewrite EX, !app_length; lia).
    rewrite EX, swap_app in RS1.
    rewrite (swb_srun _ _ _ _ _ _ RS1 Etwin f start [] imp0) by lia. cbn [app].
    rewrite TwinParse.impadd_imp0_l.
    rewrite (swb_srun _ _ _ _ _ _ RS2' Etw' f start) by (rewrite !app_length in *; lia).
    rewrite swb_acc, E3'. rewrite <- Hb, <- Hi. rewrite !map_app, !TwinParse.g_imp_add, <- X3i.
    rewrite <- app_assoc, TwinParse.impadd_assoc. reflexivity.
  - rewrite <- Hb, <- Hi. rewrite <- app_assoc, TwinParse.impadd_assoc.
    apply (allok_app z body ra rest); [|apply (allok_app z body ra rest)].
    + split; [|intros n Hn; destruct B1 as (_ & _ & B1c); specialize (B1c n Hn); left; cbv beta in B1c; lia].
      intros n Hn. left. eapply (ids_of_bnd (fun n => len z < n)%nat); [exact S1| | | |exact Hn].
      * eapply bnd_weaken; [|exact B1]. cbv beta. intros; lia.
      * intros t0 Ht. eapply hdhi; [|exact Ht]; assumption.
      * intros t0 Ht. eapply hdhi; [|exact Ht]; assumption.
    + split; [|intros n Hn; destruct B2 as (_ & _ & B2c); specialize (B2c n Hn); right; left; cbv beta in B2c; rewrite app_length in B2c; lia].
      intros n Hn. eapply (ids_of_bnd okid'); [exact S2| | | |exact Hn].
      * eapply bnd_weaken; [|exact B2]. cbv beta. intros n0 Hn0. right. left. rewrite app_length in Hn0. lia.
      * intros t0 Ht. left. eapply hdhi; [|exact Ht]; assumption.
      * intros t0 Ht. left. eapply hdhi; [|exact Ht]; assumption.
    + split; [|intros n Hn; destruct B3 as (_ & _ & B3c); specialize (B3c n Hn); right; right; exact B3c].
      intros n Hn. eapply (ids_of_bnd okid'); [exact S3| | | |exact Hn].
      * eapply bnd_weaken; [|exact B3]. cbv beta. intros n0 Hn0. right. right. exact Hn0.
      * intros t0 Ht. left. eapply hdhi; [|exact Ht]; assumption.
      * intros t0 Ht. left. eapply hdhi; [|exact Ht]; assumption.
Qed.

Lemma rest_swb f bs cs start r b3 i3 y : eof_ended r -> (len r <= len rest)%nat ->
  Forall (fun n => len z < n)%nat bs -> Forall (fun n => len z < n)%nat cs ->
  P_swb f script bs cs start r [] imp0 = Ok (b3, i3, y) ->
  P_swb f script (map G0' bs) (map G0' cs) start r [] imp0 = Ok (map (g_stmt G0') b3, g_imp G0' i3, y) /\ allok' b3 i3.
Proof.
  intros E L Hb Hc E3. pose proof Lr' as Lr'.
  destruct (swb_bnd _ _ _ _ _ _ _ _ E E3) as [B3 S3].
  pose proof (swb_scopes_ok f bs cs (map G0' bs) (map G0' cs) start r [] imp0 b3 i3 y (se_map G0' bs) (se_map G0' cs) E3) as E3'.
  cbn [map] in E3'. rewrite !hd_error_map in E3'.
  assert (X3 : map (rt_stmt (option_map G0' (hd_error bs)) (option_map G0' (hd_error cs))) b3 = map (g_stmt G0') b3).
  { rewrite <- (TwinProgram.g_stmts_id b3) at 1. apply key_all; [exact S3| |].
    - intros n Hn. destruct B3 as (B3a & _). specialize (B3a n Hn). cbv beta in B3a. symmetry. apply G0lo. lia.
    - intros c0 Hn. destruct B3 as (_ & B3b & _). specialize (B3b c0 Hn). cbv beta in B3b. symmetry. apply G0lo. lia. }
  assert (X3i : i3 = g_imp G0' i3).
  { rewrite <- (TwinProgram.g_imp_id i3) at 1. apply TwinProgram.g_imp_ext. intros n Hn. destruct B3 as (_ & _ & B3c). specialize (B3c n Hn).
    cbv beta in B3c. symmetry. apply G0lo. lia. }
  rewrite X3 in E3'. rewrite <- X3i. split; [exact E3'|].
  split; [|intros n Hn; destruct B3 as (_ & _ & B3c); specialize (B3c n Hn); right; right; cbv beta in B3c; lia].
  intros n Hn. eapply (ids_of_bnd okid'); [exact S3| | | |exact Hn].
  - eapply bnd_weaken; [|exact B3]. cbv beta. intros n0 Hn0. right. right. lia.
  - intros t0 Ht. left. eapply hdhi; [|exact Ht]; assumption.
  - intros t0 Ht. left. eapply hdhi; [|exact Ht]; assumption.
Qed.

Lemma twin_swb_step_in x b1 i1 w bs cs : eof_ended x -> srun script bs cs x b1 i1 w -> Gw z 1 w ->
  curis RBRACE w = false -> curis CASE w = false -> curis DEFAULT w = false -> curis EOF w = false ->
  Forall (fun n => len z < n)%nat bs -> Forall (fun n => len z < n)%nat cs ->
  TWs' bs cs w -> TWsb bs cs x.
Proof.
  intros E R1 GW NR NCs NDf NE Hb Hc IHw f start b imp y Bf H.
  pose proof (TwinParse.srun_advs av sw ee pf c pf_advs _ _ _ _ _ _ _ R1) as A0. pose proof (advs_len _ _ A0) as Lw.
  pose proof (advs_eof _ _ A0 E) as Ew.
  assert (GW0 : Gw z 0 w) by (eapply G_le; [|exact GW]; lia).
  assert (GX : Gw z 0 x) by (eapply G_advs; [exact A0|exact GW0]).
  assert (Lzw : (len z < len w)%nat) by (destruct GW as (uw & EWu & Ku); rewrite EWu, app_length; lia).
  (* the original *)
  rewrite (swb_srun _ _ _ _ _ _ R1 E f start [] imp0 Bf) in H. cbn [app] in H.
  rewrite TwinParse.impadd_imp0_l in H.
  destruct f as [|f1]; [lia|]. rewrite parse_switch_block_unfold in H. rewrite NR, NCs, NDf, NE in H. cbn [orb] in H.
  destruct (P_stmt f1 script bs cs w) as [[[sw1 iw] yw]| | |] eqn:EW; try discriminate H.
  destruct (IHw f1 sw1 iw yw ltac:(lia) EW) as (TW & OKW & la1 & Lyr).
  rewrite swb_acc in H.
  destruct (P_swb f1 script bs cs start (adv yw) [] imp0) as [[[b3 i3] y3]| | |] eqn:E3; try discriminate H.
  injection H as Hb' Hi' Hy. subst y3.
  pose proof (TwinParse.a_stmt2 av sw ee pf c pf_advs _ _ _ _ _ _ _ _ EW) as Aw.
  assert (Eyw : eof_ended (adv yw)) by (eapply advs_eof; [apply advs_adv_r; exact Aw|exact Ew]).
  pose proof (adv_len yw) as Lay.
  destruct (rest_swb f1 bs cs start (adv yw) b3 i3 y Eyw ltac:(lia) Hb Hc E3) as [E3' OK3].
  (* the run in front of w *)
  assert (lc1 : cs = [] \/ TwinParse.LC z tw).
  { right. unfold TwinParse.LC. intros K. pose proof (TwinParse.curis_excl PORYSWITCH RBRACE z CP ltac:(discriminate)) as K2.
    unfold curis in K2. rewrite K2 in K. discriminate K. }
  pose proof (TwinParse.srun_swap av sw ee pf c pf_advs pf_local pf_lt z tw script bs cs _ _ _ _ ZNE' TWNE' la1 lc1 R1 E GW0) as RS1.
  destruct (srun_bnd av sw ee pf c pf_advs _ _ _ _ _ _ _ R1 E) as [B1 S1].
  destruct ((piece_ext z body ra rest) (fun n => len z < n)%nat s1 _ _ b1 i1 S1) as [X1 X1i].
  { eapply bnd_weaken; [|exact B1]. cbv beta. intros; lia. }
  { intros t0 Ht. eapply hdhi; [|exact Ht]; assumption. } { intros t0 Ht. eapply hdhi; [|exact Ht]; assumption. }
  { intros n Hn. symmetry. apply G0hi. exact Hn. }
  rewrite X1, X1i, <- (mapG0hi bs Hb), <- (mapG0hi cs Hc) in RS1.
  split; [|split; [|split; [exact la1|]]].
  3:{ pose proof (advs_len _ _ (swb_advs _ _ _ _ _ _ _ _ _ _ E3)). lia. }
  - destruct (G_swap z tw 0 x GX) as (u & EXu & SXu & _).
    assert (Etwin : eof_ended (swp x)) by (rewrite SXu; apply ProgSrc.eof_ended_app; exact Etw').
    assert (Ltwin : (len (swp x) <= len x)%nat).
    { rewrite SXu, EXu, !app_length. pose proof Lb'. pose proof Lr'. pose proof (Ltw body rest). lia. }
    rewrite (swb_srun _ _ _ _ _ _ RS1 Etwin (S f1) start [] imp0) by lia. cbn [app].
    rewrite TwinParse.impadd_imp0_l. rewrite parse_switch_block_unfold.
    rewrite (swap_curis z tw RBRACE w GW), (swap_curis z tw CASE w GW), (swap_curis z tw DEFAULT w GW), (swap_curis z tw EOF w GW), NR, NCs, NDf, NE, TW. cbn [orb].
    rewrite swb_acc, E3'. rewrite <- Hb', <- Hi'. rewrite !map_app, !TwinParse.g_imp_add.
    rewrite <- app_assoc, TwinParse.impadd_assoc. reflexivity.
  - rewrite <- Hb', <- Hi'. rewrite <- app_assoc, TwinParse.impadd_assoc.
    apply (allok_app z body ra rest); [|apply (allok_app z body ra rest); [exact OKW|exact OK3]].
    split; [|intros n Hn; destruct B1 as (_ & _ & B1c); specialize (B1c n Hn); left; cbv beta in B1c; lia].
    intros n Hn. left. eapply (ids_of_bnd (fun n => len z < n)%nat); [exact S1| | | |exact Hn].
    + eapply bnd_weaken; [|exact B1]. cbv beta. intros; lia.
    + intros t0 Ht. eapply hdhi; [|exact Ht]; assumption.
    + intros t0 Ht. eapply hdhi; [|exact Ht]; assumption.
Qed.

(* ------------------------------------------------------------------------------------------------------------ *)
(* switch statements.  Part B: the head of a switch, the label of a case, runs of cases                            *)
(* ------------------------------------------------------------------------------------------------------------ *)
Local Notation P_switch := (parse_switch av sw ee pf c).
Local Notation P_cases := (parse_cases av sw ee pf c).

(* switch ( operand ) {  - everything in front of the cases *)
Definition switch_head (f : nat) (w : toks) :=
  match expect_peek LPAREN w with
  | None => err_range (cur w) (pk 1 w) "missing opening parenthesis of switch statement operand"
  | Some t1 =>
      do (r, imp, t2) <- var_or_autovar av sw ee pf c f script t1;
      do (operand, oline, pre, t3) <-
         (match r with
          | None =>
              let t2' := adv t2 in
              do (parts, tx) <- switch_operand c f (cur w) t2' [];
              Ok (join sp parts, tline (cur t2'), None, adv tx)
          | Some (v, c0) =>
              match expect_peek RPAREN t2 with
              | None => err_tok (cur w) "missing closing parenthesis of switch statement value"
              | Some tx => Ok (v, tline (ctok c0), Some c0, tx)
              end
          end);
      match expect_peek LBRACE t3 with
      | None => err_range (cur t3) (pk 1 t3) "missing opening curly brace of switch statement"
      | Some t4 => Ok (operand, oline, pre, imp, t4)
      end
  end.

Lemma parse_switch_head f bs cs w : P_switch (S f) script bs cs w =
  do (operand, oline, pre, imp, t4) <- switch_head f w;
  do (cases0, imp1, t5) <- P_cases f script (len w :: bs) cs (cur t4) (adv t4) [] [] false imp0;
  match cases0 with
  | [] => err_range (cur w) (cur t5) "switch statement has no cases or default case"
  | _ => Ok ((match pre with Some c0 => [SCmd c0] | None => [] end) ++ [SSwitch (len w) operand oline cases0], impadd imp imp1, t5)
  end.
Proof.
  rewrite parse_switch_unfold. unfold switch_head. cbv zeta. destruct (expect_peek LPAREN w) as [t1|]; [|reflexivity].
  destruct (var_or_autovar av sw ee pf c f script t1) as [[[r i] t2]| | |]; try reflexivity. destruct r as [[v c0]|].
  - destruct (expect_peek RPAREN t2) as [tx|]; [|reflexivity]. cbv beta iota. destruct (expect_peek LBRACE tx); reflexivity.
  - destruct (switch_operand c f (cur w) (adv t2) []) as [[p tx]| | |]; try reflexivity. cbv beta iota.
    destruct (expect_peek LBRACE (adv tx)); reflexivity.
Qed.

(* the label of one case:  case v :  /  default :   -> (is default, value, line, start of the body, seen', hasdef') *)
Definition case_hd (f : nat) (y : toks) (seen : list text) (hd : bool) : res (bool * text * Z * toks * list text * bool) :=
  if curis CASE y then
    match collect_until c f (is COLON) (adv y) [] with
    | None => err_tok (cur y) "missing `:` after 'case'"
    | Some (parts, t2) =>
        let v := join sp parts in
        if existsb (text_eqb v) seen then err_range (cur y) (cur t2) "duplicate switch cases detected"
        else Ok (false, v, tline (cur (adv y)), adv t2, v :: seen, hd)
    end
  else if curis DEFAULT y then
    if hd then err_tok (cur y) "multiple `default` cases found in switch statement"
    else match expect_peek COLON y with
         | None => err_tok (cur y) "missing `:` after default"
         | Some t1 => Ok (true, [], 0%Z, adv t1, seen, true)
         end
  else err_tok (cur y) "invalid start of switch case".

Lemma parse_cases_hd f bs cs brace y acc seen hd imp : P_cases (S f) script bs cs brace y acc seen hd imp =
  if curis RBRACE y then Ok (acc, imp, y)
  else do (d, v, ln, xb, seen1, hd1) <- case_hd f y seen hd;
       do (b, i1, y1) <- P_swb f script bs cs brace xb [] imp0;
       P_cases f script bs cs brace y1 (acc ++ [(d, v, ln, b)]) seen1 hd1 (impadd imp i1).
Proof.
  rewrite parse_cases_unfold. unfold case_hd. cbv zeta. destruct (curis RBRACE y); [reflexivity|].
  destruct (curis CASE y).
  - destruct (collect_until c f (is COLON) (adv y) []) as [[parts t2]|]; [|reflexivity].
    destruct (existsb (text_eqb (join sp parts)) seen); reflexivity.
  - destruct (curis DEFAULT y); [|reflexivity]. destruct hd; [reflexivity|]. destruct (expect_peek COLON y); reflexivity.
Qed.

Lemma cases_acc : forall f bs cs brace y acc seen hd imp,
  P_cases f script bs cs brace y acc seen hd imp =
  match P_cases f script bs cs brace y [] seen hd imp0 with
  | Ok (l, i, y1) => Ok (acc ++ l, impadd imp i, y1) | Err e => Err e | Panic => Panic | Fuel => Fuel end.
Proof.
  induction f as [|f IH]; intros bs cs brace y acc seen hd imp; [reflexivity|]. rewrite !parse_cases_hd.
  destruct (curis RBRACE y); [rewrite app_nil_r, TwinParse.impadd_imp0_r; reflexivity|].
  destruct (case_hd f y seen hd) as [[[[[[d v] ln] xb] seen1] hd1]| | |]; try reflexivity.
  destruct (P_swb f script bs cs brace xb [] imp0) as [[[b i1] y1]| | |]; try reflexivity.
  rewrite (IH bs cs brace y1 (acc ++ [(d, v, ln, b)]) seen1 hd1 (impadd imp i1)).
  match goal with |- _ = match P_cases f script bs cs brace y1 ?a seen1 hd1 ?i with _ => _ end => rewrite (IH bs cs brace y1 a seen1 hd1 i) end.
  destruct (P_cases f script bs cs brace y1 [] seen1 hd1 imp0) as [[[l i] y2]| | |]; try reflexivity.
  cbn [app]. rewrite <- app_assoc, TwinParse.impadd_imp0_l, TwinParse.impadd_assoc. reflexivity.
Qed.

Ltac gle := match goal with HG : Gw z ?m ?tt |- Gw z ?n ?tt => eapply G_le; [|exact HG]; lia end.

Lemma switch_head_facts f w op ol pre i t4 : eof_ended w -> switch_head f w = Ok (op, ol, pre, i, t4) ->
  advs w t4 /\ (len t4 + 2 <= len w)%nat /\ (forall c0, pre = Some c0 -> (len t4 <= cid c0)%nat) /\
  (forall n, In n (TwinProgram.imp_ids i) -> (len t4 <= n)%nat).
Proof.
  intros E H. unfold switch_head in H.
  destruct (expect_peek LPAREN w) as [t1|] eqn:EP1; [|dH' H].
  destruct (var_or_autovar av sw ee pf c f script t1) as [[[r i0] t2]| | |] eqn:EV; try discriminate H. cbv beta iota in H.
  pose proof (expect_peek_some _ _ _ EP1) as Q1.
  assert (L1 : (len t1 < len w)%nat).
  { rewrite Q1. unfold expect_peek in EP1. destruct (peekis LPAREN w) eqn:PL; [|discriminate EP1]. apply (peek_strict LPAREN w E ltac:(discriminate) PL). }
  assert (A01 : advs w t1) by (rewrite Q1; apply advs_adv_r, advs_refl).
  assert (A12 : advs t1 t2) by (eapply var_or_autovar_advs; [exact pf_advs|exact EV|apply advs_refl]).
  pose proof (advs_len _ _ A12) as L2.
  pose proof (HoistProgram.voa_span av sw ee pf pf_advs w c f script t1 r i0 t2 A01 EV) as (HT & HM & HCm).
  assert (II : forall n, In n (TwinProgram.imp_ids i0) -> (len t2 <= n)%nat).
  { intros n Hn. unfold TwinProgram.imp_ids in Hn. apply in_app_or in Hn. destruct Hn as [Hn|Hn]; apply in_map_iff in Hn; destruct Hn as (it & <- & Hit).
    - specialize (HT it Hit). lia.
    - specialize (HM it Hit). lia. }
  destruct r as [[v c0]|].
  - destruct (expect_peek RPAREN t2) as [tx|] eqn:EPR; [|dH' H]. cbv beta iota in H.
    destruct (expect_peek LBRACE tx) as [t4'|] eqn:EPL; [|dH' H]. injection H as <- <- <- <- <-.
    pose proof (expect_peek_some _ _ _ EPR) as QR. pose proof (expect_peek_some _ _ _ EPL) as QL.
    pose proof (adv_len t2). pose proof (adv_len tx). subst tx t4'.
    assert (Etx : eof_ended (adv t2)) by (eapply advs_eof; [|exact E]; eapply advs_trans; [exact A01|]; eapply advs_trans; [exact A12|apply advs_adv_r, advs_refl]).
    assert (L4 : (len (adv (adv t2)) < len (adv t2))%nat).
    { unfold expect_peek in EPL. destruct (peekis LBRACE (adv t2)) eqn:PL; [|discriminate EPL]. apply (peek_strict LBRACE _ Etx ltac:(discriminate) PL). }
    split; [eapply advs_trans; [exact A01|]; eapply advs_trans; [exact A12|apply advs_adv_r, advs_adv_r, advs_refl]|].
    split; [lia|]. split; [|intros n Hn; specialize (II n Hn); lia].
    intros c1 EQ. injection EQ as <-. destruct (HCm (script, c0)) as [B _]; [left; reflexivity|]. cbn [snd] in B. lia.
  - destruct (switch_operand c f (cur w) (adv t2) []) as [[p tx]| | |] eqn:ES; try discriminate H. cbv beta iota in H.
    destruct (expect_peek LBRACE (adv tx)) as [t4'|] eqn:EPL; [|dH' H]. injection H as <- <- <- <- <-.
    pose proof (expect_peek_some _ _ _ EPL) as QL. subst t4'.
    assert (A2x : advs (adv t2) tx) by (eapply switch_operand_advs; [exact ES|apply advs_refl]).
    pose proof (advs_len _ _ A2x). pose proof (adv_len t2). pose proof (adv_len tx). pose proof (adv_len (adv tx)).
    assert (Etx : eof_ended (adv tx)).
    { eapply advs_eof; [|exact E]. eapply advs_trans; [exact A01|]. eapply advs_trans; [exact A12|]. apply advs_adv_r. eapply advs_trans; [apply advs_adv_r, advs_refl|exact A2x]. }
    assert (L4 : (len (adv (adv tx)) < len (adv tx))%nat).
    { unfold expect_peek in EPL. destruct (peekis LBRACE (adv tx)) eqn:PL; [|discriminate EPL]. apply (peek_strict LBRACE _ Etx ltac:(discriminate) PL). }
    split; [eapply advs_trans; [exact A01|]; eapply advs_trans; [exact A12|]; eapply advs_trans; [apply advs_adv_r, advs_refl|]; eapply advs_trans; [exact A2x|apply advs_adv_r, advs_adv_r, advs_refl]|].
    split; [lia|]. split; [intros c1 EQ; discriminate EQ|intros n Hn; specialize (II n Hn); lia].
Qed.

Lemma switch_head_fuel w f g : eof_ended w -> (5 * len w <= f)%nat -> (5 * len w <= g)%nat -> switch_head f w = switch_head g w.
Proof.
  intros E Lf Lg. unfold switch_head. destruct (expect_peek LPAREN w) as [t1|] eqn:EP1; [|reflexivity].
  pose proof (expect_peek_some _ _ _ EP1) as Q1.
  assert (L1 : (len t1 < len w)%nat).
  { rewrite Q1. unfold expect_peek in EP1. destruct (peekis LPAREN w) eqn:PL; [|discriminate EP1]. apply (peek_strict LPAREN w E ltac:(discriminate) PL). }
  assert (Et1 : eof_ended t1) by (rewrite Q1; eapply advs_eof; [apply advs_adv_r, advs_refl|exact E]).
  rewrite (TwinParse.fuel_up (fun k => var_or_autovar av sw ee pf c k script t1) (5 * len t1 + 1)%nat) with (g := g); [| | |].
  2:{ intros k K. apply (FuelOk.var_or_autovar_st av sw ee pf c pf_advs pf_lt); assumption. }
  2:{ lia. } 2:{ lia. }
  destruct (var_or_autovar av sw ee pf c g script t1) as [[[r i] t2]| | |] eqn:EV; try reflexivity.
  destruct r as [[v c0]|]; [reflexivity|]. cbv zeta.
  assert (A12 : advs t1 t2) by (eapply var_or_autovar_advs; [exact pf_advs|exact EV|apply advs_refl]).
  pose proof (advs_len _ _ A12) as L2. pose proof (adv_len t2).
  assert (Ea : eof_ended (adv t2)) by (eapply advs_eof; [|exact Et1]; eapply advs_trans; [exact A12|apply advs_adv_r, advs_refl]).
  rewrite (TwinParse.fuel_up (fun k => switch_operand c k (cur w) (adv t2) []) (5 * len (adv t2))%nat) with (g := g); [reflexivity| | |].
  - intros k K. apply FuelOk.switch_operand_st; assumption.
  - lia.
  - lia.
Qed.

Lemma switch_head_swap f w op ol pre i t4 : switch_head f w = Ok (op, ol, pre, i, t4) -> Gw z 2 t4 ->
  switch_head f (swp w) = Ok (op, ol, g_ocmd s1 pre, g_imp s1 i, swp t4).
Proof.
  intros H G4. pose proof ZNE' as ZNE0. pose proof TWNE' as TWNE0. unfold switch_head in H |- *.
  destruct (expect_peek LPAREN w) as [t1|] eqn:EP1; [|dH' H].
  destruct (var_or_autovar av sw ee pf c f script t1) as [[[r i0] t2]| | |] eqn:EV; try discriminate H. cbv beta iota in H.
  pose proof (expect_peek_some _ _ _ EP1) as Q1.
  assert (A12 : advs t1 t2) by (eapply var_or_autovar_advs; [exact pf_advs|exact EV|apply advs_refl]).
  destruct r as [[v c0]|].
  - destruct (expect_peek RPAREN t2) as [tx|] eqn:EPR; [|dH' H]. cbv beta iota in H.
    destruct (expect_peek LBRACE tx) as [t4'|] eqn:EPL; [|dH' H]. injection H as <- <- <- <- <-.
    pose proof (expect_peek_some _ _ _ EPR) as QR. pose proof (expect_peek_some _ _ _ EPL) as QL.
    assert (Gx : Gw z 3 tx) by (apply (G_adv_inv z ZNE0); [lia|rewrite <- QL; exact G4]).
    assert (G2 : Gw z 4 t2) by (apply (G_adv_inv z ZNE0); [lia|rewrite <- QR; exact Gx]).
    assert (G1 : Gw z 4 t1) by (eapply G_advs; [exact A12|exact G2]).
    assert (G0w : Gw z 5 w) by (apply (G_adv_inv z ZNE0); [lia|rewrite <- Q1; exact G1]).
    rewrite (swap_expect_peek z tw ZNE0 TWNE0 LPAREN w ltac:(gle)), EP1.
    rewrite (var_or_autovar_swap z tw ZNE0 TWNE0 av pf pf_advs (pf_local z tw ZNE0 TWNE0) sw ee c f script t1 _ _ _ EV ltac:(gle)).
    cbn [g_vr]. cbv beta iota.
    rewrite (swap_expect_peek z tw ZNE0 TWNE0 RPAREN t2 ltac:(gle)), EPR. cbv beta iota.
    rewrite (swap_expect_peek z tw ZNE0 TWNE0 LBRACE tx ltac:(gle)), EPL. reflexivity.
  - destruct (switch_operand c f (cur w) (adv t2) []) as [[p tx]| | |] eqn:ES; try discriminate H. cbv beta iota in H.
    destruct (expect_peek LBRACE (adv tx)) as [t4'|] eqn:EPL; [|dH' H]. injection H as <- <- <- <- <-.
    pose proof (expect_peek_some _ _ _ EPL) as QL.
    assert (A2x : advs (adv t2) tx) by (eapply switch_operand_advs; [exact ES|apply advs_refl]).
    assert (Gax : Gw z 3 (adv tx)) by (apply (G_adv_inv z ZNE0); [lia|rewrite <- QL; exact G4]).
    assert (Gx : Gw z 4 tx) by (apply (G_adv_inv z ZNE0); [lia|exact Gax]).
    assert (Ga2 : Gw z 4 (adv t2)) by (eapply G_advs; [exact A2x|exact Gx]).
    assert (G2 : Gw z 5 t2) by (apply (G_adv_inv z ZNE0); [lia|exact Ga2]).
    assert (G1 : Gw z 5 t1) by (eapply G_advs; [exact A12|exact G2]).
    assert (G0w : Gw z 6 w) by (apply (G_adv_inv z ZNE0); [lia|rewrite <- Q1; exact G1]).
    rewrite (swap_expect_peek z tw ZNE0 TWNE0 LPAREN w ltac:(gle)), EP1.
    rewrite (var_or_autovar_swap z tw ZNE0 TWNE0 av pf pf_advs (pf_local z tw ZNE0 TWNE0) sw ee c f script t1 _ _ _ EV ltac:(gle)).
    cbn [g_vr]. cbv beta iota zeta.
    rewrite (swap_adv z tw ZNE0 TWNE0 t2 ltac:(gle)), (swap_cur z tw w ltac:(gle)).
    rewrite (switch_operand_swap z tw ZNE0 TWNE0 c f (cur w) (adv t2) [] p tx ES ltac:(gle)). cbv beta iota.
    rewrite (swap_cur z tw (adv t2) ltac:(gle)), (swap_adv z tw ZNE0 TWNE0 tx ltac:(gle)).
    rewrite (swap_expect_peek z tw ZNE0 TWNE0 LBRACE (adv tx) ltac:(gle)), EPL. reflexivity.
Qed.

Lemma case_hd_facts f y seen hd d v ln xb seen1 hd1 : eof_ended y -> case_hd f y seen hd = Ok (d, v, ln, xb, seen1, hd1) ->
  advs y xb /\ (len xb < len y)%nat /\ curis RBRACE y = false.
Proof.
  intros E H. unfold case_hd in H. destruct (curis CASE y) eqn:CC.
  - destruct (collect_until c f (is COLON) (adv y) []) as [[parts t2]|] eqn:EC; [|dH' H].
    cbv zeta in H. destruct (existsb (text_eqb (join sp parts)) seen); [dH' H|]. injection H as <- <- <- <- <- <-.
    assert (A : advs (adv y) t2) by (eapply collect_until_advs; [exact EC|apply advs_refl]).
    pose proof (advs_len _ _ A). pose proof (adv_len t2).
    assert (NE : ttype (cur y) <> EOF) by (apply TwinParse.curis_eof_ne; eapply TwinParse.curis_excl; [exact CC|discriminate]).
    pose proof (adv_strict y E NE).
    split; [eapply advs_trans; [apply advs_adv_r, advs_refl|]; eapply advs_trans; [exact A|apply advs_adv_r, advs_refl]|].
    split; [lia|eapply TwinParse.curis_excl; [exact CC|discriminate]].
  - destruct (curis DEFAULT y) eqn:CD; [|dH' H]. destruct hd; [dH' H|].
    destruct (expect_peek COLON y) as [t1|] eqn:EP; [|dH' H]. injection H as <- <- <- <- <- <-.
    pose proof (expect_peek_some _ _ _ EP) as Q. subst t1. pose proof (adv_len (adv y)).
    assert (NE : ttype (cur y) <> EOF) by (apply TwinParse.curis_eof_ne; eapply TwinParse.curis_excl; [exact CD|discriminate]).
    pose proof (adv_strict y E NE).
    split; [apply advs_adv_r, advs_adv_r, advs_refl|]. split; [lia|eapply TwinParse.curis_excl; [exact CD|discriminate]].
Qed.

Lemma case_hd_fuel y seen hd f g : eof_ended y -> (len y <= f)%nat -> (len y <= g)%nat -> case_hd f y seen hd = case_hd g y seen hd.
Proof.
  intros E Lf Lg. unfold case_hd. destruct (curis CASE y); [|reflexivity].
  assert (Ea : eof_ended (adv y)) by (eapply advs_eof; [apply advs_adv_r, advs_refl|exact E]). pose proof (adv_len y).
  rewrite (TwinParse.fuel_up (fun k => collect_until c k (is COLON) (adv y) []) (len (adv y))) with (g := g); [reflexivity| | |].
  - intros k K. apply FuelOk.collect_until_st; assumption.
  - lia.
  - lia.
Qed.

Lemma case_hd_swap f y seen hd d v ln xb seen1 hd1 : eof_ended y -> case_hd f y seen hd = Ok (d, v, ln, xb, seen1, hd1) -> Gw z 0 xb ->
  case_hd f (swp y) seen hd = Ok (d, v, ln, swp xb, seen1, hd1).
Proof.
  intros E H GX. pose proof ZNE' as ZNE0. pose proof TWNE' as TWNE0. pose proof CEz' as CEz0. unfold case_hd in H |- *. destruct (curis CASE y) eqn:CC.
  - destruct (collect_until c f (is COLON) (adv y) []) as [[parts t2]|] eqn:EC; [|dH' H].
    cbv zeta in H. destruct (existsb (text_eqb (join sp parts)) seen) eqn:EX; [dH' H|]. injection H as <- <- <- <- <- <-.
    assert (A : advs (adv y) t2) by (eapply collect_until_advs; [exact EC|apply advs_refl]).
    assert (Et2 : eof_ended t2) by (eapply advs_eof; [|exact E]; eapply advs_trans; [apply advs_adv_r, advs_refl|exact A]).
    assert (G2 : Gw z 1 t2) by (apply TwinProgram.Gw_step_back; [exact Et2|exact ZNE0|exact CEz0|exact GX]).
    assert (Ga : Gw z 1 (adv y)) by (eapply G_advs; [exact A|exact G2]).
    assert (Gy : Gw z 2 y) by (apply (G_adv_inv z ZNE0); [lia|exact Ga]).
    rewrite (swap_curis z tw CASE y ltac:(gle)), CC. rewrite (swap_adv z tw ZNE0 TWNE0 y ltac:(gle)).
    rewrite (collect_until_swap z tw ZNE0 TWNE0 c f (is COLON) (adv y) [] parts t2 EC ltac:(gle)). cbv zeta. rewrite EX.
    rewrite (swap_cur z tw (adv y) ltac:(gle)), (swap_adv z tw ZNE0 TWNE0 t2 ltac:(gle)). reflexivity.
  - destruct (curis DEFAULT y) eqn:CD; [|dH' H]. destruct hd; [dH' H|].
    destruct (expect_peek COLON y) as [t1|] eqn:EP; [|dH' H]. injection H as <- <- <- <- <- <-.
    pose proof (expect_peek_some _ _ _ EP) as Q.
    assert (Et1 : eof_ended t1) by (rewrite Q; eapply advs_eof; [apply advs_adv_r, advs_refl|exact E]).
    assert (G1 : Gw z 1 t1) by (apply TwinProgram.Gw_step_back; [exact Et1|exact ZNE0|exact CEz0|exact GX]).
    assert (Gy : Gw z 2 y) by (apply (G_adv_inv z ZNE0); [lia|rewrite <- Q; exact G1]).
    rewrite (swap_curis z tw CASE y ltac:(gle)), CC, (swap_curis z tw DEFAULT y ltac:(gle)), CD.
    rewrite (swap_expect_peek z tw ZNE0 TWNE0 COLON y ltac:(gle)), EP. rewrite (swap_adv z tw ZNE0 TWNE0 t1 ltac:(gle)). reflexivity.
Qed.

Lemma swb_bnd2 f bs cs start x b imp y : eof_ended x ->
  P_swb f script bs cs start x [] imp0 = Ok (b, imp, y) ->
  bnd (fun n => len y <= n)%nat b imp /\ Tr.scoped (hd_error bs) (hd_error cs) b.
Proof.
  intros E H.
  destruct (SrcWf.gw_all av sw pf c pf_advs ee f) as (_ & _ & Gswb & _).
  destruct (ParseWf.wf_all av sw ee pf c f) as (_ & _ & Wswb & _).
  destruct (HoistProgram.pi_all av sw ee pf pf_advs x c f) as (_ & _ & Pswb & _).
  pose proof (Gswb _ _ _ _ _ _ _ _ _ _ (len x) E H (Nat.le_refl _) (SrcWf.good_nil _ _)) as (_ & GT & _).
  pose proof (Pswb _ _ _ _ _ _ _ _ _ _ (len x) (advs_refl x) H (HoistProgram.pre_nil sw ee pf x script (len x) (len x)) (Nat.le_refl _)) as SP.
  apply HoistProgram.pre_span in SP.
  destruct (TwinProgram.span_ids _ _ _ _ _ _ _ _ _ SP) as [C1 C2].
  split; [|eapply Wswb; [exact H|constructor]]. split; [|split].
  - intros n Hn. rewrite Forall_forall in GT. specialize (GT n Hn). lia.
  - intros c0 Hc. specialize (C1 (cid c0) (in_map _ _ _ Hc)). lia.
  - intros n Hn. specialize (C2 n Hn). lia.
Qed.

(* a case body in front of the poryswitch: shifted in the twin, all ids above len z *)
Lemma swb_front_twin f bs cs start x b i y : eof_ended x -> P_swb f script bs cs start x [] imp0 = Ok (b, i, y) -> Gw z 1 y ->
  Forall (fun n => len z < n)%nat bs -> Forall (fun n => len z < n)%nat cs ->
  P_swb f script (map G0' bs) (map G0' cs) start (swp x) [] imp0 = Ok (map (g_stmt G0') b, g_imp G0' i, swp y) /\
  (forall n, In n (TwinProgram.ids b) -> (len z < n)%nat) /\ (forall n, In n (TwinProgram.imp_ids i) -> (len z < n)%nat).
Proof.
  intros E H GY Hb Hc. pose proof ZNE' as ZNE0. pose proof TWNE' as TWNE0.
  destruct (swb_bnd2 _ _ _ _ _ _ _ _ E H) as (B & SC).
  assert (Lzy : (len z < len y)%nat) by (destruct GY as (u & EU & KU); rewrite EU, app_length; lia).
  pose proof (proj1 (proj2 (proj2 (swp_all z tw ZNE0 TWNE0 av sw pf c pf_advs (pf_local z tw ZNE0 TWNE0) f ee))) script bs cs start x [] imp0 b i y H GY) as T.
  cbn [map] in T. change (g_imp s1 imp0) with imp0 in T.
  assert (BW : bnd (fun n => len z < n)%nat b i) by (eapply bnd_weaken; [|exact B]; cbv beta; intros; lia).
  assert (H1 : forall t0, hd_error bs = Some t0 -> (len z < t0)%nat) by (intros t0 Ht; eapply hdhi; [|exact Ht]; assumption).
  assert (H2 : forall t0, hd_error cs = Some t0 -> (len z < t0)%nat) by (intros t0 Ht; eapply hdhi; [|exact Ht]; assumption).
  destruct (piece_ext z body ra rest (fun n => len z < n)%nat s1 _ _ b i SC BW H1 H2) as [X1 X1i].
  { intros n Hn. symmetry. apply G0hi. exact Hn. }
  rewrite X1, X1i, <- (map_G0_hi z body ra rest F BF bs Hb), <- (map_G0_hi z body ra rest F BF cs Hc) in T.
  split; [exact T|]. split.
  - intros n Hn. eapply (ids_of_bnd (fun n => len z < n)%nat); [exact SC|exact BW|exact H1|exact H2|exact Hn].
  - intros n Hn. destruct BW as (_ & _ & B3). exact (B3 n Hn).
Qed.

(* a run of cases of a switch statement (seen / hasdef: the values met so far, whether a default was met) *)
Inductive crun (bs cs : list nat) (brace : token) : toks -> list text -> bool -> list scase -> impdata -> toks -> list text -> bool -> Prop :=
| crun_nil y seen hd : crun bs cs brace y seen hd [] imp0 y seen hd
| crun_cons y f0 seen hd d v ln xb seen1 hd1 b i y1 l i' yk seenk hdk :
    (5 * len y + 3 <= f0)%nat -> case_hd f0 y seen hd = Ok (d, v, ln, xb, seen1, hd1) ->
    P_swb f0 script bs cs brace xb [] imp0 = Ok (b, i, y1) -> crun bs cs brace y1 seen1 hd1 l i' yk seenk hdk ->
    crun bs cs brace y seen hd ((d, v, ln, b) :: l) (impadd i i') yk seenk hdk.

Lemma crun_facts bs cs brace y seen hd l i yk seenk hdk : crun bs cs brace y seen hd l i yk seenk hdk -> eof_ended y ->
  advs y yk /\ (len yk + List.length l <= len y)%nat.
Proof.
  induction 1 as [y seen hd|y f0 seen hd d v ln xb seen1 hd1 b i y1 l i' yk seenk hdk Lf0 CH HB R IH]; intros E;
    [split; [apply advs_refl|cbn; lia]|].
  destruct (case_hd_facts _ _ _ _ _ _ _ _ _ _ E CH) as (A1 & L1 & _). pose proof (advs_eof _ _ A1 E) as Exb.
  pose proof (swb_advs _ _ _ _ _ _ _ _ _ _ HB) as A2. pose proof (advs_len _ _ A2). destruct (IH (advs_eof _ _ A2 Exb)) as [A3 L3].
  split; [|cbn [List.length]; lia]. eapply advs_trans; [exact A1|]. eapply advs_trans; [exact A2|exact A3].
Qed.

Lemma cases_crun bs cs brace y seen hd l i yk seenk hdk : crun bs cs brace y seen hd l i yk seenk hdk -> eof_ended y ->
  forall f acc imp, (5 * len y + 4 <= f)%nat ->
  P_cases f script bs cs brace y acc seen hd imp =
  match P_cases (f - List.length l) script bs cs brace yk [] seenk hdk imp0 with
  | Ok (l2, i2, y2) => Ok (acc ++ l ++ l2, impadd imp (impadd i i2), y2) | Err e => Err e | Panic => Panic | Fuel => Fuel end.
Proof.
  induction 1 as [y seen hd|y f0 seen hd d v ln xb seen1 hd1 b i y1 l i' yk seenk hdk Lf0 CH HB R IH]; intros E f acc imp Lf.
  - cbn [List.length app]. rewrite Nat.sub_0_r. rewrite cases_acc.
    destruct (P_cases f script bs cs brace y [] seen hd imp0) as [[[l2 i2] y2]| | |]; try reflexivity; try (rewrite TwinParse.impadd_imp0_l; reflexivity).
  - destruct f as [|f']; [lia|]. rewrite parse_cases_hd.
    destruct (case_hd_facts _ _ _ _ _ _ _ _ _ _ E CH) as (A1 & L1 & NR). rewrite NR.
    rewrite (case_hd_fuel y seen hd f' f0 E ltac:(lia) ltac:(lia)), CH. cbv beta iota.
    pose proof (advs_eof _ _ A1 E) as Exb.
    rewrite (swb_fuel bs cs brace xb [] imp0 f' f0 Exb ltac:(lia) ltac:(lia)), HB. cbv beta iota.
    pose proof (swb_advs _ _ _ _ _ _ _ _ _ _ HB) as A2. pose proof (advs_len _ _ A2).
    rewrite (IH (advs_eof _ _ A2 Exb) f' (acc ++ [(d, v, ln, b)]) (impadd imp i) ltac:(lia)).
    cbn [List.length Nat.sub].
    destruct (P_cases (f' - List.length l) script bs cs brace yk [] seenk hdk imp0) as [[[l2 i2] y2]| | |]; try reflexivity.
    rewrite <- !app_assoc. cbn [app]. rewrite !TwinParse.impadd_assoc. reflexivity.
Qed.

Lemma cases_of_crun bs cs brace y seen hd l i yk seenk hdk : crun bs cs brace y seen hd l i yk seenk hdk -> eof_ended y ->
  curis RBRACE yk = true -> forall f, (5 * len y + 4 <= f)%nat -> P_cases f script bs cs brace y [] seen hd imp0 = Ok (l, i, yk).
Proof.
  intros R E RB f Lf. rewrite (cases_crun _ _ _ _ _ _ _ _ _ _ _ R E f [] imp0 Lf).
  destruct (crun_facts _ _ _ _ _ _ _ _ _ _ _ R E) as [_ L].
  destruct (f - List.length l)%nat as [|fk] eqn:FK; [lia|]. rewrite parse_cases_hd, RB. cbn [app]. rewrite app_nil_r, TwinParse.impadd_imp0_l, TwinParse.impadd_imp0_r. reflexivity.
Qed.

(* parse_cases is a run of cases up to the closing brace *)
Lemma cases_char : forall f bs cs brace y seen hd l i yk, eof_ended y -> (5 * len y + 4 <= f)%nat ->
  P_cases f script bs cs brace y [] seen hd imp0 = Ok (l, i, yk) ->
  exists seenk hdk, crun bs cs brace y seen hd l i yk seenk hdk /\ curis RBRACE yk = true.
Proof.
  induction f as [|f IH]; intros bs cs brace y seen hd l i yk E Lf H; [discriminate H|].
  rewrite parse_cases_hd in H. destruct (curis RBRACE y) eqn:RB.
  - injection H as <- <- <-. exists seen, hd. split; [constructor|exact RB].
  - destruct (case_hd f y seen hd) as [[[[[[d v] ln] xb] seen1] hd1]| | |] eqn:CH; try discriminate H. cbv beta iota in H.
    destruct (P_swb f script bs cs brace xb [] imp0) as [[[b i1] y1]| | |] eqn:HB; try discriminate H. cbv beta iota in H.
    rewrite cases_acc in H.
    destruct (P_cases f script bs cs brace y1 [] seen1 hd1 imp0) as [[[l2 i2] y2]| | |] eqn:HR; try discriminate H.
    injection H as <- <- <-.
    destruct (case_hd_facts _ _ _ _ _ _ _ _ _ _ E CH) as (A1 & L1 & _). pose proof (advs_eof _ _ A1 E) as Exb.
    pose proof (swb_advs _ _ _ _ _ _ _ _ _ _ HB) as A2. pose proof (advs_len _ _ A2).
    destruct (IH bs cs brace y1 seen1 hd1 l2 i2 y2 (advs_eof _ _ A2 Exb) ltac:(lia) HR) as (sk & hk & R & RB2).
    exists sk, hk. split; [|exact RB2]. cbn [app]. rewrite TwinParse.impadd_imp0_l.
    eapply (crun_cons _ _ _ y f); [lia|exact CH|exact HB|exact R].
Qed.

(* a run of cases in FRONT of the poryswitch is a run in the twin *)
Lemma crun_twin bs cs brace y seen hd l i yk seenk hdk : crun bs cs brace y seen hd l i yk seenk hdk -> eof_ended y -> Gw z 1 yk ->
  Forall (fun n => len z < n)%nat bs -> Forall (fun n => len z < n)%nat cs ->
  crun (map G0' bs) (map G0' cs) brace (swp y) seen hd (g_cases G0' l) (g_imp G0' i) (swp yk) seenk hdk /\
  (forall cs0 n, In cs0 l -> In n (TwinProgram.ids (snd cs0)) -> (len z < n)%nat) /\ (forall n, In n (TwinProgram.imp_ids i) -> (len z < n)%nat).
Proof.
  pose proof ZNE' as ZNE0. pose proof TWNE' as TWNE0.
  induction 1 as [y seen hd|y f0 seen hd d v ln xb seen1 hd1 b i y1 l i' yk seenk hdk Lf0 CH HB R IH]; intros E GY Hb Hc.
  - split; [constructor|]. split; [intros cs0 n []|intros n Hn; cbv in Hn; contradiction].
  - destruct (case_hd_facts _ _ _ _ _ _ _ _ _ _ E CH) as (A1 & L1 & _). pose proof (advs_eof _ _ A1 E) as Exb.
    pose proof (swb_advs _ _ _ _ _ _ _ _ _ _ HB) as A2. pose proof (advs_eof _ _ A2 Exb) as Ey1.
    destruct (crun_facts _ _ _ _ _ _ _ _ _ _ _ R Ey1) as [A3 _].
    assert (G1 : Gw z 1 y1) by (eapply G_advs; [exact A3|exact GY]).
    assert (Gxb : Gw z 1 xb) by (eapply G_advs; [exact A2|exact G1]).
    assert (G0y : Gw z 0 y) by (eapply G_advs; [exact A1|]; gle).
    destruct (IH Ey1 GY Hb Hc) as (R' & I1 & I2).
    destruct (swb_front_twin _ _ _ _ _ _ _ _ Exb HB G1 Hb Hc) as (T & C2 & C3).
    split; [|split].
    + cbn [g_cases map fst snd]. rewrite TwinParse.g_imp_add. fold (g_cases G0' l).
      eapply (crun_cons _ _ _ _ f0); [|exact (case_hd_swap _ _ _ _ _ _ _ _ _ _ E CH ltac:(gle))|exact T|exact R'].
      rewrite (s_len z tw y G0y), s1eq. lia.
    + intros cs0 n [<-|Hin] Hn; [cbn [snd] in Hn; apply C2; exact Hn|eapply I1; eassumption].
    + intros n Hn. apply TwinProgram.imp_ids_add in Hn. destruct Hn; [apply C3|apply I2]; assumption.
Qed.

(* a run of cases BEHIND the poryswitch: same tokens in the twin, other scope stacks *)
Lemma rest_crun bs cs brace y seen hd l i yk seenk hdk : crun bs cs brace y seen hd l i yk seenk hdk -> eof_ended y ->
  (len y <= len rest)%nat -> Forall (fun n => len z < n)%nat bs -> Forall (fun n => len z < n)%nat cs ->
  crun (map G0' bs) (map G0' cs) brace y seen hd (g_cases G0' l) (g_imp G0' i) yk seenk hdk /\
  (forall cs0 n, In cs0 l -> In n (TwinProgram.ids (snd cs0)) -> okid' n) /\ (forall n, In n (TwinProgram.imp_ids i) -> okid' n).
Proof.
  induction 1 as [y seen hd|y f0 seen hd d v ln xb seen1 hd1 b i y1 l i' yk seenk hdk Lf0 CH HB R IH]; intros E L Hb Hc.
  - split; [constructor|]. split; [intros cs0 n []|intros n Hn; cbv in Hn; contradiction].
  - destruct (case_hd_facts _ _ _ _ _ _ _ _ _ _ E CH) as (A1 & L1 & _). pose proof (advs_eof _ _ A1 E) as Exb.
    pose proof (swb_advs _ _ _ _ _ _ _ _ _ _ HB) as A2. pose proof (advs_eof _ _ A2 Exb) as Ey1. pose proof (advs_len _ _ A2).
    destruct (IH Ey1 ltac:(lia) Hb Hc) as (R' & I1 & I2).
    destruct (rest_swb f0 bs cs brace xb b i y1 Exb ltac:(lia) Hb Hc HB) as (T & [C2 C3]).
    split; [|split].
    + cbn [g_cases map fst snd]. rewrite TwinParse.g_imp_add. fold (g_cases G0' l).
      eapply (crun_cons _ _ _ _ f0); [exact Lf0|exact CH|exact T|exact R'].
    + intros cs0 n [<-|Hin] Hn; [cbn [snd] in Hn; apply C2; exact Hn|eapply I1; eassumption].
    + intros n Hn. apply TwinProgram.imp_ids_add in Hn. destruct Hn; [apply C3|apply I2]; assumption.
Qed.

Lemma rest_cases f bs cs brace r seen hd l i y : eof_ended r -> (len r <= len rest)%nat -> (5 * len r + 4 <= f)%nat ->
  Forall (fun n => len z < n)%nat bs -> Forall (fun n => len z < n)%nat cs ->
  P_cases f script bs cs brace r [] seen hd imp0 = Ok (l, i, y) ->
  P_cases f script (map G0' bs) (map G0' cs) brace r [] seen hd imp0 = Ok (g_cases G0' l, g_imp G0' i, y) /\
  (forall cs0 n, In cs0 l -> In n (TwinProgram.ids (snd cs0)) -> okid' n) /\ (forall n, In n (TwinProgram.imp_ids i) -> okid' n) /\ advs r y.
Proof.
  intros E L Lf Hb Hc H. destruct (cases_char _ _ _ _ _ _ _ _ _ _ E Lf H) as (sk & hk & R & RB).
  destruct (rest_crun _ _ _ _ _ _ _ _ _ _ _ R E L Hb Hc) as (R' & I1 & I2).
  split; [exact (cases_of_crun _ _ _ _ _ _ _ _ _ _ _ R' E RB f Lf)|]. split; [exact I1|]. split; [exact I2|].
  exact (proj1 (crun_facts _ _ _ _ _ _ _ _ _ _ _ R E)).
Qed.

Lemma g_cases_length g l : List.length (g_cases g l) = List.length l.
Proof. unfold g_cases. apply map_length. Qed.

Lemma ids_switch tg o ol l n : In n (TwinProgram.ids [SSwitch tg o ol l]) ->
  n = tg \/ exists cs0, In cs0 l /\ In n (TwinProgram.ids (snd cs0)).
Proof.
  unfold TwinProgram.ids, TagRename.atags, HoistProgram.cmds. cbn [flat_map TagRename.atags1]. rewrite HoistProgram.stmt_cmds_switch.
  unfold HoistProgram.cases_cmds. repeat rewrite app_nil_r. intros Hn. apply in_app_or in Hn. destruct Hn as [[<-|Hn]|Hn]; [left; reflexivity| |].
  - apply in_flat_map in Hn. destruct Hn as (cs0 & Hin & Hn). right. exists cs0. split; [exact Hin|]. apply in_or_app. left. exact Hn.
  - apply in_map_iff in Hn. destruct Hn as (c0 & <- & Hc0). apply in_flat_map in Hc0. destruct Hc0 as (cs0 & Hin & Hc0).
    right. exists cs0. split; [exact Hin|]. apply in_or_app. right. apply in_map. exact Hc0.
Qed.

(* STEP (switch): the poryswitch lies in the body of a case / default of the switch statement at w; the head and the earlier
   cases (the run lf) in front, the later cases behind *)
Lemma twin_switch_step w bs cs f0 op ol pre ih t4 lf il yk seenk hdk f1 d v ln xb seen1 hd1 : eof_ended w -> ttype (cur w) = SWITCH ->
  (5 * len w <= f0)%nat -> switch_head f0 w = Ok (op, ol, pre, ih, t4) ->
  crun (len w :: bs) cs (cur t4) (adv t4) [] false lf il yk seenk hdk ->
  (len yk <= f1)%nat -> case_hd f1 yk seenk hdk = Ok (d, v, ln, xb, seen1, hd1) -> Gw z 0 xb ->
  Forall (fun n => len z < n)%nat bs -> Forall (fun n => len z < n)%nat cs ->
  TWsb (len w :: bs) cs xb -> TWs' bs cs w.
Proof.
  intros E TY Lf0 SH R Lf1 CH GX Hb Hc IHb f b imp y Bf H.
  pose proof ZNE' as ZNE0. pose proof TWNE' as TWNE0. pose proof CEz' as CEz0. pose proof Etw' as Etw0.
  destruct (switch_head_facts _ _ _ _ _ _ _ E SH) as (A04 & L04 & PI & II). pose proof (advs_eof _ _ A04 E) as Et4.
  assert (Eat4 : eof_ended (adv t4)) by (eapply advs_eof; [apply advs_adv_r, advs_refl|exact Et4]). pose proof (adv_len t4) as La4.
  destruct (crun_facts _ _ _ _ _ _ _ _ _ _ _ R Eat4) as [A4k Lk]. pose proof (advs_eof _ _ A4k Eat4) as Eyk.
  destruct (case_hd_facts _ _ _ _ _ _ _ _ _ _ Eyk CH) as (Akx & Lkx & NRk). pose proof (advs_eof _ _ Akx Eyk) as Exb.
  assert (Gyk1 : Gw z 1 yk).
  { assert (G0k : Gw z 0 yk) by (eapply G_advs; [exact Akx|exact GX]).
    destruct GX as (u & EU & _). destruct G0k as (u' & EU' & _). rewrite EU, EU', !app_length in Lkx. exists u'. split; [exact EU'|lia]. }
  assert (Gat4 : Gw z 1 (adv t4)) by (eapply G_advs; [exact A4k|exact Gyk1]).
  assert (Gt4 : Gw z 2 t4) by (apply (G_adv_inv z ZNE0); [lia|exact Gat4]).
  assert (Gw2 : Gw z 2 w) by (eapply G_advs; [exact A04|exact Gt4]).
  assert (Gw0 : Gw z 0 w) by gle.
  assert (Lzk : (len z < len yk)%nat) by (destruct Gyk1 as (u1 & EU & KU); rewrite EU, app_length; lia).
  pose proof (advs_len _ _ A4k) as L4k.
  assert (Lzw : (len z < len w)%nat) by lia.
  assert (HbW : Forall (fun n => len z < n)%nat (len w :: bs)) by (constructor; assumption).
  destruct f as [|[|f2]]; [lia|lia|]. rewrite parse_stmt_unfold, TY in H. rewrite parse_switch_head in H.
  rewrite (switch_head_fuel w f2 f0 E ltac:(lia) Lf0), SH in H. cbv beta iota in H.
  rewrite (cases_crun _ _ _ _ _ _ _ _ _ _ _ R Eat4 f2 [] imp0 ltac:(lia)) in H.
  destruct (f2 - List.length lf)%nat as [|fk] eqn:FK; [lia|].
  rewrite parse_cases_hd, NRk in H. rewrite (case_hd_fuel yk seenk hdk fk f1 Eyk ltac:(lia) Lf1), CH in H. cbv beta iota in H.
  destruct (P_swb fk script (len w :: bs) cs (cur t4) xb [] imp0) as [[[b2 ib2] y4]| | |] eqn:EB; try discriminate H. cbv beta iota in H.
  rewrite cases_acc in H.
  destruct (P_cases fk script (len w :: bs) cs (cur t4) y4 [] seen1 hd1 imp0) as [[[lr ir] y5]| | |] eqn:ER; try discriminate H.
  cbv beta iota in H. cbn [app] in H.
  destruct (IHb fk (cur t4) b2 ib2 y4 ltac:(lia) EB) as (TB & OKB & la1 & Lyr).
  pose proof (swb_advs _ _ _ _ _ _ _ _ _ _ EB) as Ax4. pose proof (advs_eof _ _ Ax4 Exb) as Ey4. pose proof (advs_len _ _ Ax4) as Lx4.
  destruct (rest_cases fk (len w :: bs) cs (cur t4) y4 seen1 hd1 lr ir y5 Ey4 Lyr ltac:(lia) HbW Hc ER) as (TR & OKR1 & OKR2 & A5).
  pose proof (advs_len _ _ A5) as L5.
  match type of H with match ?L0 with _ => _ end = _ => remember L0 as LL eqn:EL end. destruct LL as [|c1 L']; [destruct lf; discriminate EL|]. cbv beta iota in H. injection H as <- <- <-.
  destruct (crun_twin _ _ _ _ _ _ _ _ _ _ _ R Eat4 Gyk1 HbW Hc) as (TRf & F1 & F2).
  pose proof (switch_head_swap _ _ _ _ _ _ _ SH Gt4) as SHs.
  assert (Esw : eof_ended (swp w)).
  { destruct (G_swap z tw 0 w Gw0) as (u & _ & -> & _). apply ProgSrc.eof_ended_app. exact Etw0. }
  assert (Lsw : (len (swp w) <= len w)%nat) by (rewrite (s_len z tw w Gw0), s1eq; lia).
  assert (Esa : eof_ended (swp (adv t4))).
  { destruct (G_swap z tw 0 (adv t4) ltac:(gle)) as (u & _ & -> & _). apply ProgSrc.eof_ended_app. exact Etw0. }
  assert (Lsa : (len (swp (adv t4)) <= len (adv t4))%nat) by (rewrite (s_len z tw (adv t4) ltac:(gle)), s1eq; lia).
  assert (Esk : eof_ended (swp yk)).
  { destruct (G_swap z tw 0 yk ltac:(gle)) as (u & _ & -> & _). apply ProgSrc.eof_ended_app. exact Etw0. }
  assert (Lsk : (len (swp yk) <= len yk)%nat) by (rewrite (s_len z tw yk ltac:(gle)), s1eq; lia).
  assert (XI : g_imp s1 ih = g_imp G0' ih).
  { apply TwinProgram.g_imp_ext. intros n Hn. symmetry. apply G0hi. specialize (II n Hn). destruct Gt4 as (u1 & EU & KU). rewrite EU, app_length in II. lia. }
  assert (Lzt4 : (len z < len t4)%nat) by (destruct Gt4 as (u1 & EU & KU); rewrite EU, app_length; lia).
  split; [|split; [|split; [exact la1|lia]]].
  - rewrite parse_stmt_unfold, (swap_cur z tw w ltac:(gle)), TY. rewrite parse_switch_head.
    rewrite (switch_head_fuel (swp w) f2 f0 Esw ltac:(lia) ltac:(lia)), SHs. cbv beta iota.
    rewrite (s_len z tw w Gw0), <- (G0hi (len w) Lzw). change (G0' (len w) :: map G0' bs) with (map G0' (len w :: bs)).
    rewrite (swap_cur z tw t4 ltac:(gle)), (swap_adv z tw ZNE0 TWNE0 t4 ltac:(gle)).
    rewrite (cases_crun _ _ _ _ _ _ _ _ _ _ _ TRf Esa f2 [] imp0 ltac:(lia)).
    rewrite g_cases_length, FK. rewrite parse_cases_hd. rewrite (swap_curis z tw RBRACE yk Gyk1), NRk.
    rewrite (case_hd_fuel (swp yk) seenk hdk fk f1 Esk ltac:(lia) ltac:(lia)), (case_hd_swap _ _ _ _ _ _ _ _ _ _ Eyk CH GX). cbv beta iota.
    rewrite TB. cbv beta iota. rewrite cases_acc, TR. cbv beta iota. cbn [app].
    match goal with |- match ?L1 with _ => _ end = _ => assert (EG : L1 = g_cases G0' (c1 :: L')) by (rewrite EL; unfold g_cases; rewrite map_app; reflexivity) end.
    rewrite EG. cbn [g_cases map]. rewrite map_app. cbn [map g_stmt]. rewrite !TwinParse.g_imp_add, XI.
    destruct pre as [c0|]; cbn [g_ocmd map g_stmt]; [|reflexivity].
    assert (XC : g_cmd s1 c0 = g_cmd G0' c0) by (unfold g_cmd; f_equal; symmetry; apply G0hi; specialize (PI c0 eq_refl); lia).
    rewrite XC. reflexivity.
  - apply (allok_app z body ra rest).
    + split; [|intros n Hn; left; specialize (II n Hn); lia].
      intros n Hn. destruct pre as [c0|]; [|cbv in Hn; contradiction]. left.
      unfold TwinProgram.ids in Hn. cbn in Hn. destruct Hn as [<-|[]]. specialize (PI c0 eq_refl). lia.
    + split.
      * intros n Hn. apply ids_switch in Hn. destruct Hn as [->|(cs0 & Hin & Hn)]; [left; exact Lzw|].
        rewrite EL in Hin. apply in_app_or in Hin. destruct Hin as [Hin|[<-|Hin]].
        -- left. eapply F1; eassumption.
        -- cbn [snd] in Hn. apply (proj1 OKB). exact Hn.
        -- eapply OKR1; eassumption.
      * intros n Hn. apply TwinProgram.imp_ids_add in Hn. destruct Hn as [Hn|Hn]; [cbv in Hn; contradiction|].
        apply TwinProgram.imp_ids_add in Hn. destruct Hn as [Hn|Hn]; [left; apply F2; exact Hn|].
        apply TwinProgram.imp_ids_add in Hn. destruct Hn as [Hn|Hn]; [|apply OKR2; exact Hn].
        apply TwinProgram.imp_ids_add in Hn. destruct Hn as [Hn|Hn]; [cbv in Hn; contradiction|apply (proj2 OKB); exact Hn].
Qed.

(* ---------- any nesting depth: while / do-while bodies, the bodies of if / elif / else, the bodies of switch cases ---------- *)
(* k: the kind of the enclosing statement list - true: a block { .. } (parse_block), false: the body of a switch case (parse_switch_block) *)
Definition TWk (k : bool) : list nat -> list nat -> toks -> Prop := if k then TWb' else TWsb.

Inductive nest2 : bool -> list nat -> list nat -> toks -> Prop :=
| nest2_here k x b1 i1 : eof_ended x -> srun script bsz csz x b1 i1 z -> nest2 k bsz csz x
| nest2_while k bs cs x b1 i1 w f0 e ie t1 t2 :
    eof_ended x -> srun script bs cs x b1 i1 w -> ttype (cur w) = WHILE ->
    (5 * len w <= f0)%nat -> cond_head' f0 false w = Ok (e, ie, t1) -> expect_peek LBRACE t1 = Some t2 ->
    nest2 true (len w :: bs) (len w :: cs) (adv t2) -> nest2 k bs cs x
| nest2_do k bs cs x b1 i1 w t1 :
    eof_ended x -> srun script bs cs x b1 i1 w -> ttype (cur w) = DO -> expect_peek LBRACE w = Some t1 ->
    nest2 true (len w :: bs) (len w :: cs) (adv t1) -> nest2 k bs cs x
| nest2_if k bs cs x b1 i1 w f0 e ie t1 t2 :
    eof_ended x -> srun script bs cs x b1 i1 w -> ttype (cur w) = IF ->
    (5 * len w <= f0)%nat -> cond_head' f0 true w = Ok (e, ie, t1) -> expect_peek LBRACE t1 = Some t2 ->
    nest2 true bs cs (adv t2) -> nest2 k bs cs x
| nest2_elif k bs cs x b1 i1 w f0 e1 bd i0 y3 l il yk f1 e ie t1 t2 :
    eof_ended x -> srun script bs cs x b1 i1 w -> ttype (cur w) = IF ->
    (5 * len w <= f0 + 2)%nat -> P_cond f0 true script bs cs w = Ok (Some e1, bd, i0, y3) -> erun bs cs y3 l il yk ->
    peekis ELSEIF yk = true -> (5 * len yk <= f1)%nat -> cond_head' f1 true (adv yk) = Ok (e, ie, t1) ->
    expect_peek LBRACE t1 = Some t2 -> nest2 true bs cs (adv t2) -> nest2 k bs cs x
| nest2_else k bs cs x b1 i1 w f0 e1 bd i0 y3 l il yk t4 :
    eof_ended x -> srun script bs cs x b1 i1 w -> ttype (cur w) = IF ->
    (5 * len w <= f0 + 2)%nat -> P_cond f0 true script bs cs w = Ok (Some e1, bd, i0, y3) -> erun bs cs y3 l il yk ->
    peekis ELSEIF yk = false -> peekis ELSE yk = true -> expect_peek LBRACE (adv yk) = Some t4 ->
    nest2 true bs cs (adv t4) -> nest2 k bs cs x
| nest2_switch k bs cs x b1 i1 w f0 op ol pre ih t4 lf il yk seenk hdk f1 d v ln xb seen1 hd1 :
    eof_ended x -> srun script bs cs x b1 i1 w -> ttype (cur w) = SWITCH ->
    (5 * len w <= f0)%nat -> switch_head f0 w = Ok (op, ol, pre, ih, t4) ->
    crun (len w :: bs) cs (cur t4) (adv t4) [] false lf il yk seenk hdk ->
    (len yk <= f1)%nat -> case_hd f1 yk seenk hdk = Ok (d, v, ln, xb, seen1, hd1) ->
    nest2 false (len w :: bs) cs xb -> nest2 k bs cs x.

(* nest2 extends TwinNested.nest *)
Lemma nest_nest2 bs cs x : nest av sw ee pf c script z bsz csz bs cs x -> nest2 true bs cs x.
Proof.
  induction 1 as [x b1 i1 E R|bs cs x b1 i1 w f0 e ie t1 t2 E R TY Lf CH EP N IH|bs cs x b1 i1 w t1 E R TY EP N IH].
  - eapply nest2_here; eassumption.
  - eapply nest2_while; eassumption.
  - eapply nest2_do; eassumption.
Qed.

Lemma nest2_advs k bs cs x : nest2 k bs cs x -> advs x z.
Proof.
  induction 1 as [k x b1 i1 E R|k bs cs x b1 i1 w f0 e ie t1 t2 E R TY Lf CH EP N IH|k bs cs x b1 i1 w t1 E R TY EP N IH
                 |k bs cs x b1 i1 w f0 e ie t1 t2 E R TY Lf CH EP N IH
                 |k bs cs x b1 i1 w f0 e1 bd i0 y3 l il yk f1 e ie t1 t2 E R TY Lf HC0 RE PEI Lf1 CH EP N IH
                 |k bs cs x b1 i1 w f0 e1 bd i0 y3 l il yk t4 E R TY Lf HC0 RE PEI PEL EP4 N IH
                 |k bs cs x b1 i1 w f0 op ol pre ih t4 lf il yk seenk hdk f1 d v ln xb seen1 hd1 E R TY Lf SH RC Lf1 CHD N IH].
  - eapply TwinParse.srun_advs; [exact pf_advs|exact R].
  - eapply advs_trans; [eapply TwinParse.srun_advs; [exact pf_advs|exact R]|].
    eapply advs_trans; [eapply cond_head_advs'; exact CH|].
    eapply advs_trans; [|exact IH]. rewrite (expect_peek_some _ _ _ EP). apply advs_adv_r, advs_adv_r, advs_refl.
  - eapply advs_trans; [eapply TwinParse.srun_advs; [exact pf_advs|exact R]|].
    eapply advs_trans; [|exact IH]. rewrite (expect_peek_some _ _ _ EP). apply advs_adv_r, advs_adv_r, advs_refl.
  - eapply advs_trans; [eapply TwinParse.srun_advs; [exact pf_advs|exact R]|].
    eapply advs_trans; [eapply cond_head_advs'; exact CH|].
    eapply advs_trans; [|exact IH]. rewrite (expect_peek_some _ _ _ EP). apply advs_adv_r, advs_adv_r, advs_refl.
  - pose proof (TwinParse.srun_advs av sw ee pf c pf_advs _ _ _ _ _ _ _ R) as A0. pose proof (advs_eof _ _ A0 E) as Ew.
    destruct (cond_facts _ _ _ _ _ _ _ _ Ew HC0) as (A1 & _). pose proof (advs_eof _ _ A1 Ew) as Ey3.
    destruct (erun_facts _ _ _ _ _ _ RE Ey3) as [A2 _].
    eapply advs_trans; [exact A0|]. eapply advs_trans; [exact A1|]. eapply advs_trans; [exact A2|].
    eapply advs_trans; [apply advs_adv_r, advs_refl|]. eapply advs_trans; [eapply cond_head_advs'; exact CH|].
    eapply advs_trans; [|exact IH]. rewrite (expect_peek_some _ _ _ EP). apply advs_adv_r, advs_adv_r, advs_refl.
  - pose proof (TwinParse.srun_advs av sw ee pf c pf_advs _ _ _ _ _ _ _ R) as A0. pose proof (advs_eof _ _ A0 E) as Ew.
    destruct (cond_facts _ _ _ _ _ _ _ _ Ew HC0) as (A1 & _). pose proof (advs_eof _ _ A1 Ew) as Ey3.
    destruct (erun_facts _ _ _ _ _ _ RE Ey3) as [A2 _].
    eapply advs_trans; [exact A0|]. eapply advs_trans; [exact A1|]. eapply advs_trans; [exact A2|].
    eapply advs_trans; [|exact IH]. rewrite (expect_peek_some _ _ _ EP4). apply advs_adv_r, advs_adv_r, advs_adv_r, advs_refl.
  - pose proof (TwinParse.srun_advs av sw ee pf c pf_advs _ _ _ _ _ _ _ R) as A0. pose proof (advs_eof _ _ A0 E) as Ew.
    destruct (switch_head_facts _ _ _ _ _ _ _ Ew SH) as (A04 & _). pose proof (advs_eof _ _ A04 Ew) as Et4.
    assert (Eat4 : eof_ended (adv t4)) by (eapply advs_eof; [apply advs_adv_r, advs_refl|exact Et4]).
    destruct (crun_facts _ _ _ _ _ _ _ _ _ _ _ RC Eat4) as [A4k _]. pose proof (advs_eof _ _ A4k Eat4) as Eyk.
    destruct (case_hd_facts _ _ _ _ _ _ _ _ _ _ Eyk CHD) as (Akx & _).
    eapply advs_trans; [exact A0|]. eapply advs_trans; [exact A04|]. eapply advs_trans; [apply advs_adv_r, advs_refl|].
    eapply advs_trans; [exact A4k|]. eapply advs_trans; [exact Akx|exact IH].
Qed.

Lemma nest2_Gw k bs cs x : nest2 k bs cs x -> Gw z 0 x.
Proof. intros N. destruct (advs_suffix _ _ (nest2_advs _ _ _ _ N)) as (u & ->). exists u. split; [reflexivity|apply Nat.le_0_l]. Qed.
Lemma nest2_eof k bs cs x : nest2 k bs cs x -> eof_ended x.
Proof. destruct 1; assumption. Qed.

(* facts about a construct  head ( cond ) {  whose body contains z *)
Lemma cond_construct_facts x b1 i1 bs cs w f0 req e ie t1 t2 : eof_ended x -> srun script bs cs x b1 i1 w ->
  cond_head' f0 req w = Ok (e, ie, t1) -> expect_peek LBRACE t1 = Some t2 -> Gw z 0 (adv t2) ->
  eof_ended w /\ Gw z 2 w /\ (len z < len w)%nat /\ (len (adv t2) < len w)%nat.
Proof.
  intros E R CH EP GX2. pose proof ZNE' as ZNE0. pose proof CEz' as CEz0.
  pose proof (TwinParse.srun_advs av sw ee pf c pf_advs _ _ _ _ _ _ _ R) as A0. pose proof (advs_eof _ _ A0 E) as Ew.
  pose proof (cond_head_advs' _ _ _ _ _ _ CH) as A1. pose proof (advs_eof _ _ A1 Ew) as Et1.
  pose proof (expect_peek_some _ _ _ EP) as Q2.
  assert (Et2 : eof_ended t2) by (rewrite Q2; eapply advs_eof; [apply advs_adv_r, advs_refl|exact Et1]).
  assert (Gt2 : Gw z 1 t2) by (apply TwinProgram.Gw_step_back; [exact Et2|exact ZNE0|exact CEz0|exact GX2]).
  assert (Gt1 : Gw z 2 t1) by (apply (G_adv_inv z ZNE0); [lia|rewrite <- Q2; exact Gt2]).
  assert (Gw2 : Gw z 2 w) by (eapply G_advs; [exact A1|exact Gt1]).
  assert (L12 : (len t2 < len t1)%nat).
  { rewrite Q2. unfold expect_peek in EP. destruct (peekis LBRACE t1) eqn:PL; [|discriminate EP]. apply (peek_strict LBRACE t1 Et1 ltac:(discriminate) PL). }
  pose proof (adv_len t2) as L4. pose proof (advs_len _ _ A1) as L5.
  split; [exact Ew|]. split; [exact Gw2|]. split; [|lia].
  destruct Gw2 as (u1 & EU & KU). rewrite EU, app_length. lia.
Qed.

(* facts about an if statement whose elif / else body at x' (reached from the end yk of the front part) contains z *)
Lemma if_construct_facts x b1 i1 bs cs w f0 e1 bd i0 y3 l il yk x' : eof_ended x -> srun script bs cs x b1 i1 w ->
  P_cond f0 true script bs cs w = Ok (Some e1, bd, i0, y3) -> erun bs cs y3 l il yk -> advs yk x' -> Gw z 0 x' ->
  eof_ended w /\ Gw z 1 w /\ (len z < len w)%nat.
Proof.
  intros E R HC0 RE AX GX.
  pose proof (TwinParse.srun_advs av sw ee pf c pf_advs _ _ _ _ _ _ _ R) as A0. pose proof (advs_eof _ _ A0 E) as Ew.
  destruct (cond_facts _ _ _ _ _ _ _ _ Ew HC0) as (A1 & L & _). pose proof (advs_eof _ _ A1 Ew) as Ey3.
  destruct (erun_facts _ _ _ _ _ _ RE Ey3) as [A2 _].
  assert (G3 : Gw z 0 y3) by (eapply G_advs; [eapply advs_trans; [exact A2|exact AX]|exact GX]).
  assert (G4 : Gw z 0 w) by (eapply G_advs; [exact A1|exact G3]).
  destruct G3 as (u & EU & _). destruct G4 as (u' & EU' & _). rewrite EU, EU', !app_length in L.
  split; [exact Ew|]. split; [exists u'; split; [exact EU'|lia]|rewrite EU', app_length; lia].
Qed.

(* facts about a switch statement whose case body at xb contains z *)
Lemma switch_construct_facts x b1 i1 bs cs w f0 op ol pre ih t4 lf il yk seenk hdk f1 d v ln xb seen1 hd1 :
  eof_ended x -> srun script bs cs x b1 i1 w -> switch_head f0 w = Ok (op, ol, pre, ih, t4) ->
  crun (len w :: bs) cs (cur t4) (adv t4) [] false lf il yk seenk hdk -> case_hd f1 yk seenk hdk = Ok (d, v, ln, xb, seen1, hd1) ->
  Gw z 0 xb -> eof_ended w /\ Gw z 1 w /\ (len z < len w)%nat.
Proof.
  intros E R SH RC CHD GX. pose proof ZNE' as ZNE0.
  pose proof (TwinParse.srun_advs av sw ee pf c pf_advs _ _ _ _ _ _ _ R) as A0. pose proof (advs_eof _ _ A0 E) as Ew.
  destruct (switch_head_facts _ _ _ _ _ _ _ Ew SH) as (A04 & L04 & _). pose proof (advs_eof _ _ A04 Ew) as Et4.
  assert (Eat4 : eof_ended (adv t4)) by (eapply advs_eof; [apply advs_adv_r, advs_refl|exact Et4]).
  destruct (crun_facts _ _ _ _ _ _ _ _ _ _ _ RC Eat4) as [A4k _]. pose proof (advs_eof _ _ A4k Eat4) as Eyk.
  destruct (case_hd_facts _ _ _ _ _ _ _ _ _ _ Eyk CHD) as (Akx & Lkx & _).
  assert (Gyk1 : Gw z 1 yk).
  { assert (G0k : Gw z 0 yk) by (eapply G_advs; [exact Akx|exact GX]).
    destruct GX as (u & EU & _). destruct G0k as (u' & EU' & _). rewrite EU, EU', !app_length in Lkx. exists u'. split; [exact EU'|lia]. }
  assert (Gw1 : Gw z 1 w).
  { eapply G_advs; [exact A04|]. eapply G_advs; [apply advs_adv_r, advs_refl|]. eapply G_advs; [exact A4k|exact Gyk1]. }
  split; [exact Ew|]. split; [exact Gw1|]. destruct Gw1 as (u1 & EU & KU). rewrite EU, app_length. lia.
Qed.

Lemma twin_base_k k x b1 i1 : eof_ended x -> srun script bsz csz x b1 i1 z -> TWk k bsz csz x.
Proof.
  intros E R. destruct k; cbn [TWk].
  - exact (twin_block_base av sw ee pf c pf_advs pf_local pf_lt script z body ra rest bsz csz scn sv ts1 ts2 F cases ss imp'
             Ez CP HH BF HC SEL AB RR AR RAK Drest HLC Hbz Hcz x b1 i1 E R).
  - exact (twin_swb_base x b1 i1 E R).
Qed.

Lemma twin_step_in_k k x b1 i1 w bs cs : eof_ended x -> srun script bs cs x b1 i1 w -> Gw z 1 w ->
  curis RBRACE w = false -> curis CASE w = false -> curis DEFAULT w = false -> curis EOF w = false ->
  Forall (fun n => len z < n)%nat bs -> Forall (fun n => len z < n)%nat cs ->
  TWs' bs cs w -> TWk k bs cs x.
Proof.
  intros E R GW N1 N2 N3 N4 Hb Hc T. destruct k; cbn [TWk].
  - exact (twin_block_step_in av sw ee pf c pf_advs pf_local pf_lt script z body ra rest bsz csz scn sv ts1 ts2 F cases ss imp'
             Ez CP HH BF HC AB RR AR Drest HLC x b1 i1 w bs cs E R GW N1 N4 Hb Hc T).
  - exact (twin_swb_step_in x b1 i1 w bs cs E R GW N1 N2 N3 N4 Hb Hc T).
Qed.

Theorem nest2_twin k bs cs x : nest2 k bs cs x ->
  Forall (fun n => len z < n)%nat bs -> Forall (fun n => len z < n)%nat cs -> TWk k bs cs x.
Proof.
  induction 1 as [k x b1 i1 E R|k bs cs x b1 i1 w f0 e ie t1 t2 E R TY Lf CH EP N IH|k bs cs x b1 i1 w t1 E R TY EP N IH
                 |k bs cs x b1 i1 w f0 e ie t1 t2 E R TY Lf CH EP N IH
                 |k bs cs x b1 i1 w f0 e1 bd i0 y3 l il yk f1 e ie t1 t2 E R TY Lf HC0 RE PEI Lf1 CH EP N IH
                 |k bs cs x b1 i1 w f0 e1 bd i0 y3 l il yk t4 E R TY Lf HC0 RE PEI PEL EP4 N IH
                 |k bs cs x b1 i1 w f0 op ol pre ih t4 lf il yk seenk hdk f1 d v ln xb seen1 hd1 E R TY Lf SH RC Lf1 CHD N IH]; intros Hb Hc.
  - exact (twin_base_k k x b1 i1 E R).
  - pose proof (nest2_Gw _ _ _ _ N) as GX2.
    destruct (cond_construct_facts _ _ _ _ _ _ _ _ _ _ _ _ E R CH EP GX2) as (Ew & Gw2 & Lzw & _).
    pose proof (curis_of_ty _ _ TY) as CW.
    apply (twin_step_in_k k x b1 i1 w bs cs E R); [eapply G_le; [|exact Gw2]; lia| | | | |exact Hb|exact Hc|];
      try (eapply TwinParse.curis_excl; [exact CW|discriminate]).
    apply (twin_while_step av sw ee pf c pf_advs pf_local pf_lt script z body ra rest bsz csz scn sv ts1 ts2 F cases ss imp'
             Ez CP HH BF HC AB RR AR Drest w bs cs f0 e ie t1 t2 Ew TY Lf CH EP GX2 Hb Hc).
    apply IH; constructor; assumption.
  - pose proof (nest2_Gw _ _ _ _ N) as GX2. pose proof ZNE' as ZNE0. pose proof CEz' as CEz0.
    pose proof (TwinParse.srun_advs av sw ee pf c pf_advs _ _ _ _ _ _ _ R) as A0. pose proof (advs_eof _ _ A0 E) as Ew.
    pose proof (expect_peek_some _ _ _ EP) as Q1.
    assert (Et1 : eof_ended t1) by (rewrite Q1; eapply advs_eof; [apply advs_adv_r, advs_refl|exact Ew]).
    assert (Gt1 : Gw z 1 t1) by (apply TwinProgram.Gw_step_back; [exact Et1|exact ZNE0|exact CEz0|exact GX2]).
    assert (Gw2 : Gw z 2 w) by (apply (G_adv_inv z ZNE0); [lia|rewrite <- Q1; exact Gt1]).
    assert (Lzw : (len z < len w)%nat) by (destruct Gw2 as (u1 & EU & KU); rewrite EU, app_length; lia).
    pose proof (curis_of_ty _ _ TY) as CW.
    apply (twin_step_in_k k x b1 i1 w bs cs E R); [eapply G_le; [|exact Gw2]; lia| | | | |exact Hb|exact Hc|];
      try (eapply TwinParse.curis_excl; [exact CW|discriminate]).
    apply (twin_do_step av sw ee pf c pf_advs pf_lt script z body ra rest bsz csz scn sv ts1 ts2 F cases ss imp'
             Ez CP HH BF HC AB RR AR Drest w bs cs t1 Ew TY EP GX2 Hb Hc).
    apply IH; constructor; assumption.
  - pose proof (nest2_Gw _ _ _ _ N) as GX2.
    destruct (cond_construct_facts _ _ _ _ _ _ _ _ _ _ _ _ E R CH EP GX2) as (Ew & Gw2 & Lzw & _).
    pose proof (curis_of_ty _ _ TY) as CW.
    apply (twin_step_in_k k x b1 i1 w bs cs E R); [eapply G_le; [|exact Gw2]; lia| | | | |exact Hb|exact Hc|];
      try (eapply TwinParse.curis_excl; [exact CW|discriminate]).
    apply (twin_if_step w bs cs f0 e ie t1 t2 Ew TY Lf CH EP GX2 Hb Hc).
    apply IH; assumption.
  - pose proof (nest2_Gw _ _ _ _ N) as GX2.
    assert (AX : advs yk (adv t2)).
    { eapply advs_trans; [apply advs_adv_r, advs_refl|]. eapply advs_trans; [eapply cond_head_advs'; exact CH|].
      rewrite (expect_peek_some _ _ _ EP). apply advs_adv_r, advs_adv_r, advs_refl. }
    destruct (if_construct_facts _ _ _ _ _ _ _ _ _ _ _ _ _ _ _ E R HC0 RE AX GX2) as (Ew & Gw1 & Lzw).
    pose proof (curis_of_ty _ _ TY) as CW.
    apply (twin_step_in_k k x b1 i1 w bs cs E R); [exact Gw1| | | | |exact Hb|exact Hc|];
      try (eapply TwinParse.curis_excl; [exact CW|discriminate]).
    apply (twin_elif_step w bs cs f0 e1 bd i0 y3 l il yk f1 e ie t1 t2 Ew TY Lf HC0 RE PEI Lf1 CH EP GX2 Hb Hc).
    apply IH; assumption.
  - pose proof (nest2_Gw _ _ _ _ N) as GX2.
    assert (AX : advs yk (adv t4)).
    { rewrite (expect_peek_some _ _ _ EP4). apply advs_adv_r, advs_adv_r, advs_adv_r, advs_refl. }
    destruct (if_construct_facts _ _ _ _ _ _ _ _ _ _ _ _ _ _ _ E R HC0 RE AX GX2) as (Ew & Gw1 & Lzw).
    pose proof (curis_of_ty _ _ TY) as CW.
    apply (twin_step_in_k k x b1 i1 w bs cs E R); [exact Gw1| | | | |exact Hb|exact Hc|];
      try (eapply TwinParse.curis_excl; [exact CW|discriminate]).
    apply (twin_else_step w bs cs f0 e1 bd i0 y3 l il yk t4 Ew TY Lf HC0 RE PEI PEL EP4 GX2 Hb Hc).
    apply IH; assumption.
  - pose proof (nest2_Gw _ _ _ _ N) as GX2.
    destruct (switch_construct_facts x b1 i1 bs cs w f0 op ol pre ih t4 lf il yk seenk hdk f1 d v ln xb seen1 hd1 E R SH RC CHD GX2) as (Ew & Gw1 & Lzw).
    pose proof (curis_of_ty _ _ TY) as CW.
    apply (twin_step_in_k k x b1 i1 w bs cs E R); [exact Gw1| | | | |exact Hb|exact Hc|];
      try (eapply TwinParse.curis_excl; [exact CW|discriminate]).
    apply (twin_switch_step w bs cs f0 op ol pre ih t4 lf il yk seenk hdk f1 d v ln xb seen1 hd1 Ew TY Lf SH RC Lf1 CHD GX2 Hb Hc).
    apply IH; [constructor; assumption|assumption].
Qed.

(* the block of a script (both stacks empty): ONE injective renaming *)
Theorem twin_nested2_block x f start b imp y : nest2 true [] [] x -> (5 * len x + 3 <= f)%nat ->
  P_block f script [] [] start x [] imp0 = Ok (b, imp, y) ->
  exists G : nat -> nat, (forall a b0, G a = G b0 -> a = b0) /\
    P_block f script [] [] start (swp x) [] imp0 = Ok (map (g_stmt G) b, g_imp G imp, y).
Proof.
  intros N Bf H. destruct (nest2_twin _ _ _ _ N (Forall_nil _) (Forall_nil _) f start b imp y Bf H) as (TB & [O1 O2] & _).
  cbn [map] in TB.
  set (T := TwinProgram.ids b ++ TwinProgram.imp_ids imp).
  assert (INJ : TagRename.inj_on G0' T).
  { intros a b0 Ha Hb0 EQ.
    apply (G0_inj av sw ee pf c pf_advs pf_lt script z body ra rest bsz csz scn sv ts1 ts2 F cases ss imp' Ez HH BF HC AB RR AR Drest); [| |exact EQ].
    - unfold T in Ha. apply in_app_or in Ha. destruct Ha; auto.
    - unfold T in Hb0. apply in_app_or in Hb0. destruct Hb0; auto. }
  exists (TagRename.extend G0' T). split; [apply TagRename.extend_inj; exact INJ|].
  assert (AG : forall n, In n T -> G0' n = TagRename.extend G0' T n) by (intros n Hn; symmetry; apply TagRename.extend_agree; exact Hn).
  rewrite TB.
  assert (Q1 : map (g_stmt G0') b = map (g_stmt (TagRename.extend G0' T)) b); [|assert (Q2 : g_imp G0' imp = g_imp (TagRename.extend G0' T) imp); [|rewrite Q1, Q2; reflexivity]].
  - apply TwinProgram.g_stmts_ext. intros n Hn. apply AG. unfold T. apply in_or_app. left. exact Hn.
  - apply TwinProgram.g_imp_ext. intros n Hn. apply AG. unfold T. apply in_or_app. right. exact Hn.
Qed.

(* the scope stacks at the poryswitch are the tags of the enclosing loops / switches: streams that contain z *)
Lemma nest2_scopes k bs cs x : nest2 k bs cs x ->
  Forall (fun n => len z < n)%nat bs -> Forall (fun n => len z < n)%nat cs ->
  Forall (fun n => len z < n)%nat bsz /\ Forall (fun n => len z < n)%nat csz.
Proof.
  clear Hbz Hcz.
  induction 1 as [k x b1 i1 E R|k bs cs x b1 i1 w f0 e ie t1 t2 E R TY Lf CH EP N IH|k bs cs x b1 i1 w t1 E R TY EP N IH
                 |k bs cs x b1 i1 w f0 e ie t1 t2 E R TY Lf CH EP N IH
                 |k bs cs x b1 i1 w f0 e1 bd i0 y3 l il yk f1 e ie t1 t2 E R TY Lf HC0 RE PEI Lf1 CH EP N IH
                 |k bs cs x b1 i1 w f0 e1 bd i0 y3 l il yk t4 E R TY Lf HC0 RE PEI PEL EP4 N IH
                 |k bs cs x b1 i1 w f0 op ol pre ih t4 lf il yk seenk hdk f1 d v ln xb seen1 hd1 E R TY Lf SH RC Lf1 CHD N IH]; intros Hb Hc.
  - split; assumption.
  - pose proof (nest2_Gw _ _ _ _ N) as GX2.
    destruct (cond_construct_facts _ _ _ _ _ _ _ _ _ _ _ _ E R CH EP GX2) as (Ew & Gw2 & Lzw & _).
    apply IH; constructor; assumption.
  - pose proof (nest2_Gw _ _ _ _ N) as GX2. pose proof ZNE' as ZNE0. pose proof CEz' as CEz0.
    pose proof (TwinParse.srun_advs av sw ee pf c pf_advs _ _ _ _ _ _ _ R) as A0. pose proof (advs_eof _ _ A0 E) as Ew.
    pose proof (expect_peek_some _ _ _ EP) as Q1.
    assert (Et1 : eof_ended t1) by (rewrite Q1; eapply advs_eof; [apply advs_adv_r, advs_refl|exact Ew]).
    assert (Gt1 : Gw z 1 t1) by (apply TwinProgram.Gw_step_back; [exact Et1|exact ZNE0|exact CEz0|exact GX2]).
    assert (Gw2 : Gw z 2 w) by (apply (G_adv_inv z ZNE0); [lia|rewrite <- Q1; exact Gt1]).
    assert (Lzw : (len z < len w)%nat) by (destruct Gw2 as (u1 & EU & KU); rewrite EU, app_length; lia).
    apply IH; constructor; assumption.
  - apply IH; assumption.
  - apply IH; assumption.
  - apply IH; assumption.
  - pose proof (nest2_Gw _ _ _ _ N) as GX2.
    destruct (switch_construct_facts x b1 i1 bs cs w f0 op ol pre ih t4 lf il yk seenk hdk f1 d v ln xb seen1 hd1 E R SH RC CHD GX2) as (Ew & Gw1 & Lzw).
    apply IH; [constructor; assumption|assumption].
Qed.

End TWIN2.

(* ---------- from the block to the PROGRAM and to the compile outcome (route of TwinNested.twin_nested_program) ---------- *)
Section PROGRAM2.
Variable av : list (text * autovar).
Variable sw : list (text * text).
Variable ee : bool.
Variable pf : toks -> res (token * text * text * toks).
Hypothesis pf_advs : format_advs pf.
Hypothesis pf_local : format_local pf.
Hypothesis pf_lt : format_lt pf.

Theorem twin_nested2_program T f1 st1 xs g t1 t2 t3 z body ra bsz csz scn sv ts1 ts2 F cases ss imp' p1 :
  let c := pconsts st1 in let name := tlit (cur t2) in
  eof_ended T ->
  tops_run av sw ee pf (5 * len T + 4) TwinProgram.st0 T f1 st1 xs ->
  ttype (cur xs) = SCRIPT ->
  scope_modifier true xs = Ok (g, t1) -> expect_peek IDENT t1 = Some t2 -> expect_peek LBRACE t2 = Some t3 ->
  nest2 av sw ee pf c name z bsz csz true [] [] (adv t3) ->
  curis PORYSWITCH z = true -> poryswitch_header sw ee z = Ok (scn, sv, ts1) -> (5 * len z <= F)%nat ->
  parse_pory_cases av sw ee pf c F name bsz csz (cur ts1) ts1 [] = Ok (cases, ts2) ->
  PorySwitchLists.pory_select cases sv = Some (ss, imp') ->
  advs ts1 (body ++ ra) -> TwinParse.srun av sw ee pf c name bsz csz (body ++ ra) ss imp' ra -> advs ra ts2 ->
  (curis RBRACE ra = true \/ curis IDENT ra = true \/ curis INT ra = true) ->
  (csz = [] \/ TwinParse.LC ra (adv ts2)) ->
  parse_program av sw ee pf T = Ok p1 ->
  exists U p2,
    T = U ++ z /\
    (len (U ++ body ++ adv ts2) < len T)%nat /\
    parse_program av sw ee pf (U ++ body ++ adv ts2) = Ok p2 /\
    TagRename.shape_program p1 = TagRename.shape_program p2.
Proof.
  intros c name E RUN TY SM EP1 EP2 NEST CP HH BF HC SEL AB RR AR RAK HLC HP.
  (* the original *)
  unfold parse_program in HP.
  destruct (parse_tops av sw ee pf (5 * len T + 4) {| pconsts := []; ph := hst0; ptops := []; ptexts := [] |} T) as [stf| | |] eqn:PT; try discriminate HP.
  destruct (dup_text [] (checked_texts ee stf)) as [xd|] eqn:DT; [unfold err_tok in HP; discriminate HP|].
  destruct (dup_mov [] (checked_tops ee stf)) as [tkd|] eqn:DM; [unfold err_tok in HP; discriminate HP|].
  injection HP as <-.
  fold TwinProgram.st0 in PT. rewrite (tops_run_parse_tops _ _ _ _ _ _ _ _ _ _ RUN) in PT.
  destruct (tops_run_eof av sw ee pf pf_advs _ _ _ _ _ _ RUN E (Nat.le_refl _)) as [Exs Bf1].
  destruct f1 as [|f]; [lia|].
  rewrite parse_tops_step in PT.
  assert (NE : curis EOF xs = false) by (apply (TwinParse.curis_excl SCRIPT EOF); [apply TwinProgram.curis_of_type; exact TY|discriminate]).
  rewrite NE in PT. rewrite (TwinProgram.top_step_script _ _ _ _ _ _ _ _ TY) in PT. rewrite (TwinProgram.parse_script_eq _ _ _ _ _ _ _ _ _ _ _ SM EP1 EP2) in PT.
  fold c name in PT.
  destruct (parse_block av sw ee pf c f name [] [] (cur t3) (adv t3) [] imp0) as [[[b imp] y]| | |] eqn:PB; try discriminate PT.
  destruct (add_implicit imp (ph st1)) as [h' ps] eqn:AI. cbv beta iota in PT.
  (* stream facts *)
  pose proof (expect_peek_some _ _ _ EP1) as Q2. pose proof (expect_peek_some _ _ _ EP2) as Q3.
  assert (A1 : advs xs t1) by (eapply scope_modifier_advs; [exact SM|apply advs_refl]).
  assert (A3 : advs xs (adv t3)) by (apply advs_adv_r; rewrite Q3; apply advs_adv_r; rewrite Q2; apply advs_adv_r; exact A1).
  assert (Et1 : eof_ended t1) by (eapply advs_eof; eassumption).
  assert (Et3 : eof_ended t3) by (rewrite Q3, Q2; eapply advs_eof; [apply advs_adv_r, advs_adv_r, advs_refl|exact Et1]).
  remember (adv t3) as x eqn:Dx.
  assert (Ex : eof_ended x) by (eapply advs_eof; eassumption).
  pose proof (advs_len _ _ A3) as Lx.
  assert (A0 : advs x z) by (eapply nest2_advs; eassumption).
  pose proof (advs_eof _ _ A0 Ex) as Ez.
  assert (NEz : z <> []) by (destruct Ez; assumption).
  assert (CEz' : curis EOF z = false) by (eapply TwinParse.curis_excl; [exact CP|discriminate]).
  assert (HS : Forall (fun n => len z < n)%nat bsz /\ Forall (fun n => len z < n)%nat csz).
  { eapply nest2_scopes; try eassumption; try exact (Forall_nil _). }
  destruct HS as [Hbz Hcz].
  remember (adv ts2) as rest eqn:Drest. remember (body ++ rest) as tw eqn:Dtw.
  destruct (twin_nested2_block av sw ee pf c pf_advs pf_local pf_lt name z body ra rest bsz csz scn sv ts1 ts2 F cases ss imp'
              Ez CP HH BF HC SEL AB RR AR RAK Drest HLC Hbz Hcz x f (cur t3) b imp y NEST ltac:(lia) PB) as (G & Ginj & PBT).
  rewrite <- Dtw in PBT.
  destruct (advs_suffix _ _ A0) as (pre & EX).
  (* lengths *)
  pose proof (Lr av sw ee pf c pf_advs pf_lt name z body ra rest bsz csz scn sv ts1 ts2 F cases ss imp' Ez HH BF HC AB RR AR Drest) as LR.
  pose proof (Lb sw ee z body ra scn sv ts1 F Ez HH BF AB) as Lb'.
  assert (Ltwl : len tw = (len body + len rest)%nat) by (rewrite Dtw; apply app_length).
  pose proof (Erest av sw ee pf c pf_advs name z body ra rest bsz csz scn sv ts1 ts2 ss imp' Ez HH AB RR AR Drest) as Erest'.
  (* the whole streams *)
  pose proof (tops_run_advs av sw ee pf pf_advs _ _ _ _ _ _ RUN) as AT.
  assert (ATz : advs T z) by (eapply advs_trans; [exact AT|]; eapply advs_trans; [exact A3|exact A0]).
  destruct (advs_suffix _ _ ATz) as (U & ET).
  assert (Etw : eof_ended tw) by (rewrite Dtw; apply ProgSrc.eof_ended_app; exact Erest').
  assert (TWNE : tw <> []) by (destruct Etw; assumption).
  assert (GZx : Gw z 0 x) by (exists pre; split; [exact EX|lia]).
  assert (Gt3 : Gw z 1 t3) by (apply TwinProgram.Gw_step_back; [exact Et3|exact NEz|exact CEz'|rewrite <- Dx; exact GZx]).
  assert (Gt2 : Gw z 2 t2) by (apply (G_adv_inv z NEz); [lia|rewrite <- Q3; exact Gt3]).
  assert (Gt1 : Gw z 3 t1) by (apply (G_adv_inv z NEz); [lia|rewrite <- Q2; exact Gt2]).
  assert (Gxs : Gw z 3 xs) by (eapply G_advs; [exact A1|exact Gt1]).
  (* the statements in front of the script, in the twin *)
  assert (CK : class_ok z tw) by (unfold class_ok; rewrite (TagRename.BlockStep.curis_type _ _ CP); discriminate).
  assert (Gxs0 : Gw z 0 xs) by (eapply G_le; [|exact Gxs]; lia).
  destruct (tops_run_context av sw ee pf pf_advs pf_local z tw Ez TWNE CK _ _ _ _ _ _ RUN Gxs0 TwinProgram.st0 eq_refl eq_refl)
    as (d & d' & e & P1 & P2 & SH & RUN').
  cbn [ptops ptexts TwinProgram.st0 app] in P1, P2, RUN'.
  assert (SWT : swap z tw T = U ++ tw) by (rewrite ET; apply swap_app).
  rewrite SWT in RUN'.
  remember {| pconsts := pconsts st1; ph := ph st1; ptops := d'; ptexts := e |} as st1' eqn:Dst1'.
  (* the script statement, in the twin *)
  remember (st_add st1' c h' [TScript name g (map (g_stmt G) (map (pstmt ps) b))] []) as st2' eqn:Dst2'.
  assert (STEP : parse_tops av sw ee pf (S f) st1' (swap z tw xs) = parse_tops av sw ee pf f st2' (adv y)).
  { rewrite parse_tops_step. rewrite (swap_curis z tw EOF xs) by (eapply G_le; [|exact Gxs]; lia). rewrite NE.
    rewrite TwinProgram.top_step_script by (rewrite (swap_cur z tw xs) by (eapply G_le; [|exact Gxs]; lia); exact TY).
    rewrite (TwinProgram.parse_script_eq _ _ _ _ _ _ _ g (swap z tw t1) (swap z tw t2) (swap z tw t3)).
    2:{ apply (scope_modifier_swap z tw NEz TWNE _ _ _ _ SM). eapply G_le; [|exact Gt1]; lia. }
    2:{ rewrite (swap_expect_peek z tw NEz TWNE IDENT t1) by (eapply G_le; [|exact Gt1]; lia). rewrite EP1. reflexivity. }
    2:{ rewrite (swap_expect_peek z tw NEz TWNE LBRACE t2) by exact Gt2. rewrite EP2. reflexivity. }
    rewrite (swap_cur z tw t2) by (eapply G_le; [|exact Gt2]; lia).
    rewrite (swap_cur z tw t3 Gt3). rewrite (swap_adv z tw NEz TWNE t3 Gt3). rewrite <- Dx.
    rewrite Dst1'. cbn [pconsts ph]. fold c name. rewrite PBT. rewrite add_implicit_g, AI. cbn [fst snd].
    rewrite (pstmts_g G Ginj). rewrite Dst2', Dst1'. reflexivity. }
  (* the rest of the loop *)
  assert (Ec2 : pconsts st2' = pconsts (st_add st1 c h' [TScript name g (map (pstmt ps) b)] [])) by (rewrite Dst2', Dst1'; reflexivity).
  assert (Eh2 : ph st2' = ph (st_add st1 c h' [TScript name g (map (pstmt ps) b)] [])) by (rewrite Dst2', Dst1'; reflexivity).
  destruct (TwinProgram.parse_tops_lists av sw ee pf f _ st2' _ _ Ec2 Eh2 PT) as (d2 & e2 & Q1 & Q2' & PT').
  cbn [st_add ptops ptexts] in Q1, Q2'. rewrite P1 in Q1. rewrite P2, app_nil_r in Q2'.
  assert (TX2 : ptexts st2' = e) by (rewrite Dst2', Dst1'; cbn [st_add ptexts]; apply app_nil_r).
  assert (TP2 : ptops st2' = d' ++ [TScript name g (map (g_stmt G) (map (pstmt ps) b))]) by (rewrite Dst2', Dst1'; reflexivity).
  rewrite TX2, TP2 in PT'.
  remember {| pconsts := pconsts stf; ph := ph stf; ptops := (d' ++ [TScript name g (map (g_stmt G) (map (pstmt ps) b))]) ++ d2; ptexts := e ++ e2 |} as stf' eqn:Dstf'.
  assert (SHP : map TagRename.shape_top (ptops stf') = map TagRename.shape_top (ptops stf)).
  { rewrite Dstf', Q1. cbn [ptops]. rewrite !map_app. rewrite (TwinProgram.shifted_shape _ _ _ _ SH). cbn [map TagRename.shape_top].
    rewrite TwinParse.shape_g_stmts. reflexivity. }
  (* the twin program *)
  assert (LT : (len (U ++ tw) < len T)%nat) by (rewrite ET, !app_length, Ltwl; lia).
  assert (ETw : eof_ended (U ++ tw)) by (apply ProgSrc.eof_ended_app; exact Etw).
  assert (PP : parse_tops av sw ee pf (5 * len (U ++ tw) + 4) TwinProgram.st0 (U ++ tw) = Ok stf').
  { rewrite (TwinProgram.parse_tops_fuel av sw ee pf pf_advs pf_lt TwinProgram.st0 (U ++ tw) _ (5 * len T + 4) ETw) by lia.
    rewrite (tops_run_parse_tops _ _ _ _ _ _ _ _ _ _ RUN'). rewrite STEP. exact PT'. }
  exists U.
  exists {| tops := ptops stf' ++ hmovs (ph stf'); texts := htexts (ph stf') ++ ptexts stf' |}.
  split; [exact ET|]. split; [exact LT|].
  assert (PHE : ph stf' = ph stf) by (rewrite Dstf'; reflexivity).
  assert (TXE : ptexts stf' = ptexts stf) by (rewrite Dstf', Q2'; reflexivity).
  split.
  - unfold parse_program. fold TwinProgram.st0. rewrite PP.
    assert (CT : checked_texts ee stf' = checked_texts ee stf) by (unfold checked_texts; rewrite PHE, TXE; reflexivity).
    rewrite CT, DT.
    assert (CM : dup_mov [] (checked_tops ee stf') = dup_mov [] (checked_tops ee stf)).
    { apply TwinProgram.dup_mov_shape. unfold checked_tops. rewrite PHE. destruct ee; [rewrite !map_app, SHP; reflexivity|exact SHP]. }
    rewrite CM, DM. reflexivity.
  - unfold TagRename.shape_program. cbn [tops texts]. rewrite PHE, TXE. f_equal. rewrite !map_app, SHP. reflexivity.
Qed.
End PROGRAM2.

Definition twin_nested2_program_real av sw ee fc font ml :=
  twin_nested2_program av sw ee (Format.parse_format fc font ml ee)
    (real_format_advs fc font ml ee) (real_format_local fc font ml ee) (real_format_lt fc font ml ee).

(* C12 for a poryswitch nested in `while` / `do-while` bodies (any depth) of a top-level script, from source text to output text.
   src: a source whose token stream is U ++ z with a statement poryswitch at z (nest: the position of z in the block of the
   script at xs); body: the tokens of the statements of the selected case, ra: the stream behind them; src': ANY source whose
   token stream is U ++ body ++ (what follows the closing brace of the poryswitch).  If src parses and - a loop encloses the
   poryswitch - LC holds, both compile to the same outcome (the same text, or the same emitter error). *)
Theorem twin_nested2_compile hl hd hs av sw ee fc font ml optimize mpath src f1 st1 xs g t1 t2 t3 z body ra bsz csz scn sv ts1 ts2 F cases ss imp' p1 :
  let pf := Format.parse_format fc font ml ee in
  let T := lex hl hd hs src in
  let c := pconsts st1 in let name := tlit (cur t2) in
  tops_run av sw ee pf (5 * len T + 4) TwinProgram.st0 T f1 st1 xs ->
  ttype (cur xs) = SCRIPT ->
  scope_modifier true xs = Ok (g, t1) -> expect_peek IDENT t1 = Some t2 -> expect_peek LBRACE t2 = Some t3 ->
  nest2 av sw ee pf c name z bsz csz true [] [] (adv t3) ->
  curis PORYSWITCH z = true -> poryswitch_header sw ee z = Ok (scn, sv, ts1) -> (5 * len z <= F)%nat ->
  parse_pory_cases av sw ee pf c F name bsz csz (cur ts1) ts1 [] = Ok (cases, ts2) ->
  PorySwitchLists.pory_select cases sv = Some (ss, imp') ->
  advs ts1 (body ++ ra) -> TwinParse.srun av sw ee pf c name bsz csz (body ++ ra) ss imp' ra -> advs ra ts2 ->
  (curis RBRACE ra = true \/ curis IDENT ra = true \/ curis INT ra = true) ->
  (csz = [] \/ TwinParse.LC ra (adv ts2)) ->
  parse_program av sw ee pf T = Ok p1 ->
  forall U src', T = U ++ z -> lex hl hd hs src' = U ++ body ++ adv ts2 ->
    Compile.compile hl hd hs av sw ee fc font ml optimize mpath src =
    Compile.compile hl hd hs av sw ee fc font ml optimize mpath src'.
Proof.
  intros pf T c name RUN TY SM EP1 EP2 NEST CP HH BF HC SEL AB RR AR RAK HLC HP U src' ET Hl.
  destruct (twin_nested2_program_real av sw ee fc font ml T f1 st1 xs g t1 t2 t3 z body ra bsz csz scn sv ts1 ts2 F cases ss imp' p1
              (ProgSrc.lex_eof hl hd hs src) RUN TY SM EP1 EP2 NEST CP HH BF HC SEL AB RR AR RAK HLC HP)
    as (U0 & p2 & ET0 & LT & HP2 & SHP).
  assert (EU : U0 = U) by (rewrite ET in ET0; apply app_inv_tail in ET0; symmetry; exact ET0).
  subst U0. rewrite <- Hl in HP2.
  exact (TagRename.compile_same_shape hl hd hs av av sw sw ee ee fc fc font font ml ml optimize mpath src src' p1 p2 HP HP2 SHP).
Qed.

(* ---------- the hypotheses of twin_nested2_compile hold on a concrete program: a poryswitch (3 cases, RUBY selected) in the
   first body of an if statement with an elif and an else part behind it ---------- *)
Open Scope string_scope.
Definition ix_src : string :=
  "script A { lock if (flag(F)) { faceplayer poryswitch(GAME) { SAPPHIRE: release RUBY { msgbox(""hi"") } _ { end } } } elif (flag(G)) { lock } else { release } end }".
Definition ix_twin : string :=
  "script A { lock if (flag(F)) { faceplayer                                             msgbox(""hi"")               } elif (flag(G)) { lock } else { release } end }".
Close Scope string_scope.
Definition ix_T : toks := Eval vm_compute in lex nxf nxf nxf (t ix_src).
Lemma ix_T_eq : lex nxf nxf nxf (t ix_src) = ix_T. Proof. vm_compute. reflexivity. Qed.

Example twin_nested2_compile_example :
  Compile.compile nxf nxf nxf [] TagRename.sw0 true TagRename.fc0 [] 0%Z false None (t ix_src) =
  Compile.compile nxf nxf nxf [] TagRename.sw0 true TagRename.fc0 [] 0%Z false None (t ix_twin).
Proof.
  eapply (twin_nested2_compile nxf nxf nxf [] TagRename.sw0 true TagRename.fc0 [] 0%Z false None (t ix_src))
    with (xs := ix_T) (z := skipn 13 ix_T) (body := firstn 4 (skipn 23 ix_T)) (ra := skipn 27 ix_T) (U := firstn 13 ix_T)
         (bsz := []) (csz := []).
  all: rewrite ?ix_T_eq.
  - apply run_refl.
  - vm_compute; reflexivity.
  - vm_compute; reflexivity.
  - vm_compute; reflexivity.
  - vm_compute; reflexivity.
  - (* the position: `lock`, then the if statement; in its first body `faceplayer`, then the poryswitch *)
    eapply (nest2_if _ _ _ _ _ _ _ _ _ _ [] [] _ _ _ (skipn 4 ix_T) (5 * len (skipn 4 ix_T))).
    + vm_compute. split; [congruence|reflexivity].
    + eapply TwinProgram.srun_one; [apply Nat.le_refl|vm_compute; reflexivity|vm_compute; lia|vm_compute; reflexivity].
    + vm_compute; reflexivity.
    + apply Nat.le_refl.
    + vm_compute; reflexivity.
    + vm_compute; reflexivity.
    + eapply nest2_here.
      * vm_compute. split; [congruence|reflexivity].
      * eapply TwinProgram.srun_one; [apply Nat.le_refl|vm_compute; reflexivity|vm_compute; lia|vm_compute; reflexivity].
  - vm_compute; reflexivity.
  - vm_compute; reflexivity.
  - apply Nat.le_refl.
  - vm_compute; reflexivity.
  - vm_compute; reflexivity.
  - match goal with |- advs ?a _ => let n := eval vm_compute in (len a - len (skipn 23 ix_T))%nat in apply (TwinProgram.advs_at n) end;
      [vm_compute; lia|vm_compute; reflexivity].
  - eapply TwinProgram.srun_eq; [TwinProgram.srun_build|vm_compute; reflexivity|vm_compute; reflexivity].
  - match goal with |- advs _ ?b => let n := eval vm_compute in (len (skipn 27 ix_T) - len b)%nat in apply (TwinProgram.advs_at n) end;
      [vm_compute; lia|vm_compute; reflexivity].
  - left. vm_compute. reflexivity.
  - left. reflexivity.
  - vm_compute. reflexivity.
  - symmetry. apply firstn_skipn.
  - vm_compute. reflexivity.
Qed.
Example twin_nested2_compile_example_nontrivial :
  (exists out, Compile.compile nxf nxf nxf [] TagRename.sw0 true TagRename.fc0 [] 0%Z false None (t ix_src) = Compile.OutText out) /\
  (exists p1 p2, parse_program [] TagRename.sw0 true nx_pf (lex nxf nxf nxf (t ix_src)) = Ok p1 /\
                 parse_program [] TagRename.sw0 true nx_pf (lex nxf nxf nxf (t ix_twin)) = Ok p2 /\ tops p1 <> tops p2).
Proof.
  split; [eexists; vm_compute; reflexivity|]. eexists. eexists. split; [vm_compute; reflexivity|]. split; [vm_compute; reflexivity|].
  intros H. vm_compute in H. discriminate H.
Qed.

(* ---------- depth 2, mixed: the poryswitch (colon form, RUBY selected, a case label follows: LC holds trivially) is the first
   statement of the first body of an if (with an else part) inside a while body; a statement follows it ---------- *)
Open Scope string_scope.
Definition i2_src : string :=
  "script B { while (flag(F)) { if (flag(G)) { poryswitch(GAME) { RUBY: msgbox(""hi"") SAPPHIRE: release } lock } else { end } } end }".
Definition i2_twin : string :=
  "script B { while (flag(F)) { if (flag(G)) {                          msgbox(""hi"")                     lock } else { end } } end }".
Close Scope string_scope.
Definition i2_T : toks := Eval vm_compute in lex nxf nxf nxf (t i2_src).
Lemma i2_T_eq : lex nxf nxf nxf (t i2_src) = i2_T. Proof. vm_compute. reflexivity. Qed.

Example twin_nested2_mixed_example :
  Compile.compile nxf nxf nxf [] TagRename.sw0 true TagRename.fc0 [] 0%Z false None (t i2_src) =
  Compile.compile nxf nxf nxf [] TagRename.sw0 true TagRename.fc0 [] 0%Z false None (t i2_twin).
Proof.
  eapply (twin_nested2_compile nxf nxf nxf [] TagRename.sw0 true TagRename.fc0 [] 0%Z false None (t i2_src))
    with (xs := i2_T) (z := skipn 19 i2_T) (body := firstn 4 (skipn 26 i2_T)) (ra := skipn 30 i2_T) (U := firstn 19 i2_T)
         (bsz := [len (skipn 3 i2_T)]) (csz := [len (skipn 3 i2_T)]).
  all: rewrite ?i2_T_eq.
  - apply run_refl.
  - vm_compute; reflexivity.
  - vm_compute; reflexivity.
  - vm_compute; reflexivity.
  - vm_compute; reflexivity.
  - eapply (nest2_while _ _ _ _ _ _ _ _ _ _ [] [] _ [] imp0 (skipn 3 i2_T) (5 * len (skipn 3 i2_T))).
    + vm_compute. split; [congruence|reflexivity].
    + apply TwinParse.srun_nil.
    + vm_compute; reflexivity.
    + apply Nat.le_refl.
    + vm_compute; reflexivity.
    + vm_compute; reflexivity.
    + eapply (nest2_if _ _ _ _ _ _ _ _ _ _ _ _ _ [] imp0 (skipn 11 i2_T) (5 * len (skipn 11 i2_T))).
      * vm_compute. split; [congruence|reflexivity].
      * apply TwinParse.srun_nil.
      * vm_compute; reflexivity.
      * apply Nat.le_refl.
      * vm_compute; reflexivity.
      * vm_compute; reflexivity.
      * eapply (nest2_here _ _ _ _ _ _ _ _ _ _ _ [] imp0).
        -- vm_compute. split; [congruence|reflexivity].
        -- apply TwinParse.srun_nil.
  - vm_compute; reflexivity.
  - vm_compute; reflexivity.
  - apply Nat.le_refl.
  - vm_compute; reflexivity.
  - vm_compute; reflexivity.
  - match goal with |- advs ?a _ => let n := eval vm_compute in (len a - len (skipn 26 i2_T))%nat in apply (TwinProgram.advs_at n) end;
      [vm_compute; lia|vm_compute; reflexivity].
  - eapply TwinProgram.srun_eq; [TwinProgram.srun_build|vm_compute; reflexivity|vm_compute; reflexivity].
  - match goal with |- advs _ ?b => let n := eval vm_compute in (len (skipn 30 i2_T) - len b)%nat in apply (TwinProgram.advs_at n) end;
      [vm_compute; lia|vm_compute; reflexivity].
  - right. left. vm_compute. reflexivity.
  - right. unfold TwinParse.LC. intros K. vm_compute in K. discriminate K.
  - vm_compute. reflexivity.
  - symmetry. apply firstn_skipn.
  - vm_compute. reflexivity.
Qed.

(* ---------- the poryswitch in the ELSE body (an elif part in front) and in an ELIF body (an else part behind) ---------- *)
Open Scope string_scope.
Definition i3_src : string :=
  "script A { lock if (flag(F)) { faceplayer } elif (flag(G)) { lock } else { release poryswitch(GAME) { SAPPHIRE: release RUBY { msgbox(""hi"") } _ { end } } } end }".
Definition i3_twin : string :=
  "script A { lock if (flag(F)) { faceplayer } elif (flag(G)) { lock } else { release                                             msgbox(""hi"")               } end }".
Definition i4_src : string :=
  "script A { lock if (flag(F)) { faceplayer } elif (flag(G)) { lock } elif (flag(H)) { release poryswitch(GAME) { SAPPHIRE: release RUBY { msgbox(""hi"") } _ { end } } } else { lock } end }".
Definition i4_twin : string :=
  "script A { lock if (flag(F)) { faceplayer } elif (flag(G)) { lock } elif (flag(H)) { release                                             msgbox(""hi"")               } else { lock } end }".
Close Scope string_scope.
Definition i3_T : toks := Eval vm_compute in lex nxf nxf nxf (t i3_src).
Lemma i3_T_eq : lex nxf nxf nxf (t i3_src) = i3_T. Proof. vm_compute. reflexivity. Qed.
Definition i4_T : toks := Eval vm_compute in lex nxf nxf nxf (t i4_src).
Lemma i4_T_eq : lex nxf nxf nxf (t i4_src) = i4_T. Proof. vm_compute. reflexivity. Qed.

Example twin_nested2_else_example :
  Compile.compile nxf nxf nxf [] TagRename.sw0 true TagRename.fc0 [] 0%Z false None (t i3_src) =
  Compile.compile nxf nxf nxf [] TagRename.sw0 true TagRename.fc0 [] 0%Z false None (t i3_twin).
Proof.
  eapply (twin_nested2_compile nxf nxf nxf [] TagRename.sw0 true TagRename.fc0 [] 0%Z false None (t i3_src))
    with (xs := i3_T) (z := skipn 27 i3_T) (body := firstn 4 (skipn 37 i3_T)) (ra := skipn 41 i3_T) (U := firstn 27 i3_T)
         (bsz := []) (csz := []).
  all: rewrite ?i3_T_eq.
  - apply run_refl.
  - vm_compute; reflexivity.
  - vm_compute; reflexivity.
  - vm_compute; reflexivity.
  - vm_compute; reflexivity.
  - (* `lock`, then the if statement; front: condition + first body, one elif part; the else body: `release`, then the poryswitch *)
    eapply (nest2_else _ _ _ _ _ _ _ _ _ _ [] [] _ _ _ (skipn 4 i3_T) (5 * len (skipn 4 i3_T))).
    + vm_compute. split; [congruence|reflexivity].
    + eapply TwinProgram.srun_one; [apply Nat.le_refl|vm_compute; reflexivity|vm_compute; lia|vm_compute; reflexivity].
    + vm_compute; reflexivity.
    + lia.
    + vm_compute; reflexivity.
    + eapply erun_cons with (f0 := 400%nat); [vm_compute; reflexivity|vm_compute; lia|vm_compute; reflexivity|apply erun_nil].
    + vm_compute; reflexivity.
    + vm_compute; reflexivity.
    + vm_compute; reflexivity.
    + eapply nest2_here.
      * vm_compute. split; [congruence|reflexivity].
      * eapply TwinProgram.srun_one; [apply Nat.le_refl|vm_compute; reflexivity|vm_compute; lia|vm_compute; reflexivity].
  - vm_compute; reflexivity.
  - vm_compute; reflexivity.
  - apply Nat.le_refl.
  - vm_compute; reflexivity.
  - vm_compute; reflexivity.
  - match goal with |- advs ?a _ => let n := eval vm_compute in (len a - len (skipn 37 i3_T))%nat in apply (TwinProgram.advs_at n) end;
      [vm_compute; lia|vm_compute; reflexivity].
  - eapply TwinProgram.srun_eq; [TwinProgram.srun_build|vm_compute; reflexivity|vm_compute; reflexivity].
  - match goal with |- advs _ ?b => let n := eval vm_compute in (len (skipn 41 i3_T) - len b)%nat in apply (TwinProgram.advs_at n) end;
      [vm_compute; lia|vm_compute; reflexivity].
  - left. vm_compute. reflexivity.
  - left. reflexivity.
  - vm_compute. reflexivity.
  - symmetry. apply firstn_skipn.
  - vm_compute. reflexivity.
Qed.

Example twin_nested2_elif_example :
  Compile.compile nxf nxf nxf [] TagRename.sw0 true TagRename.fc0 [] 0%Z false None (t i4_src) =
  Compile.compile nxf nxf nxf [] TagRename.sw0 true TagRename.fc0 [] 0%Z false None (t i4_twin).
Proof.
  eapply (twin_nested2_compile nxf nxf nxf [] TagRename.sw0 true TagRename.fc0 [] 0%Z false None (t i4_src))
    with (xs := i4_T) (z := skipn 33 i4_T) (body := firstn 4 (skipn 43 i4_T)) (ra := skipn 47 i4_T) (U := firstn 33 i4_T)
         (bsz := []) (csz := []).
  all: rewrite ?i4_T_eq.
  - apply run_refl.
  - vm_compute; reflexivity.
  - vm_compute; reflexivity.
  - vm_compute; reflexivity.
  - vm_compute; reflexivity.
  - (* `lock`, then the if statement; front: condition + first body, one elif part; the second elif body: `release`, then the
       poryswitch; an else part behind *)
    eapply nest2_elif with (w := skipn 4 i4_T) (f0 := (5 * len (skipn 4 i4_T))%nat) (f1 := 400%nat).
    + vm_compute. split; [congruence|reflexivity].
    + eapply TwinProgram.srun_one; [apply Nat.le_refl|vm_compute; reflexivity|vm_compute; lia|vm_compute; reflexivity].
    + vm_compute; reflexivity.
    + lia.
    + vm_compute; reflexivity.
    + eapply erun_cons with (f0 := 400%nat); [vm_compute; reflexivity|vm_compute; lia|vm_compute; reflexivity|apply erun_nil].
    + vm_compute; reflexivity.
    + vm_compute; lia.
    + vm_compute; reflexivity.
    + vm_compute; reflexivity.
    + eapply nest2_here.
      * vm_compute. split; [congruence|reflexivity].
      * eapply TwinProgram.srun_one; [apply Nat.le_refl|vm_compute; reflexivity|vm_compute; lia|vm_compute; reflexivity].
  - vm_compute; reflexivity.
  - vm_compute; reflexivity.
  - apply Nat.le_refl.
  - vm_compute; reflexivity.
  - vm_compute; reflexivity.
  - match goal with |- advs ?a _ => let n := eval vm_compute in (len a - len (skipn 43 i4_T))%nat in apply (TwinProgram.advs_at n) end;
      [vm_compute; lia|vm_compute; reflexivity].
  - eapply TwinProgram.srun_eq; [TwinProgram.srun_build|vm_compute; reflexivity|vm_compute; reflexivity].
  - match goal with |- advs _ ?b => let n := eval vm_compute in (len (skipn 47 i4_T) - len b)%nat in apply (TwinProgram.advs_at n) end;
      [vm_compute; lia|vm_compute; reflexivity].
  - left. vm_compute. reflexivity.
  - left. reflexivity.
  - vm_compute. reflexivity.
  - symmetry. apply firstn_skipn.
  - vm_compute. reflexivity.
Qed.
Example twin_nested2_elif_else_nontrivial :
  (exists out, Compile.compile nxf nxf nxf [] TagRename.sw0 true TagRename.fc0 [] 0%Z false None (t i3_src) = Compile.OutText out) /\
  (exists out, Compile.compile nxf nxf nxf [] TagRename.sw0 true TagRename.fc0 [] 0%Z false None (t i4_src) = Compile.OutText out).
Proof. split; eexists; vm_compute; reflexivity. Qed.

(* ---------- the poryswitch in the body of the second case of a switch statement (a case in front, a default behind) ---------- *)
Open Scope string_scope.
Definition s1_src : string :=
  "script A { lock switch (var(VAR_X)) { case 1: faceplayer case 2: release poryswitch(GAME) { SAPPHIRE: release RUBY { msgbox(""hi"") } _ { end } } default: lock } end }".
Definition s1_twin : string :=
  "script A { lock switch (var(VAR_X)) { case 1: faceplayer case 2: release                                             msgbox(""hi"")               default: lock } end }".
Close Scope string_scope.
Definition s1_T : toks := Eval vm_compute in lex nxf nxf nxf (t s1_src).
Lemma s1_T_eq : lex nxf nxf nxf (t s1_src) = s1_T. Proof. vm_compute. reflexivity. Qed.

Example twin_nested2_switch_example :
  Compile.compile nxf nxf nxf [] TagRename.sw0 true TagRename.fc0 [] 0%Z false None (t s1_src) =
  Compile.compile nxf nxf nxf [] TagRename.sw0 true TagRename.fc0 [] 0%Z false None (t s1_twin).
Proof.
  eapply (twin_nested2_compile nxf nxf nxf [] TagRename.sw0 true TagRename.fc0 [] 0%Z false None (t s1_src))
    with (xs := s1_T) (z := skipn 20 s1_T) (body := firstn 4 (skipn 30 s1_T)) (ra := skipn 34 s1_T) (U := firstn 20 s1_T)
         (bsz := [len (skipn 4 s1_T)]) (csz := []).
  all: rewrite ?s1_T_eq.
  - apply run_refl.
  - vm_compute; reflexivity.
  - vm_compute; reflexivity.
  - vm_compute; reflexivity.
  - vm_compute; reflexivity.
  - (* `lock`, then the switch statement; one case in front; in the body of `case 2:` the statement `release`, then the poryswitch *)
    eapply nest2_switch with (w := skipn 4 s1_T) (f0 := (5 * len (skipn 4 s1_T))%nat) (f1 := 400%nat).
    + vm_compute. split; [congruence|reflexivity].
    + eapply TwinProgram.srun_one; [apply Nat.le_refl|vm_compute; reflexivity|vm_compute; lia|vm_compute; reflexivity].
    + vm_compute; reflexivity.
    + apply Nat.le_refl.
    + vm_compute; reflexivity.
    + eapply crun_cons with (f0 := 400%nat); [vm_compute; lia|vm_compute; reflexivity|vm_compute; reflexivity|apply crun_nil].
    + vm_compute; lia.
    + vm_compute; reflexivity.
    + eapply nest2_here.
      * vm_compute. split; [congruence|reflexivity].
      * eapply TwinProgram.srun_one; [apply Nat.le_refl|vm_compute; reflexivity|vm_compute; lia|vm_compute; reflexivity].
  - vm_compute; reflexivity.
  - vm_compute; reflexivity.
  - apply Nat.le_refl.
  - vm_compute; reflexivity.
  - vm_compute; reflexivity.
  - match goal with |- advs ?a _ => let n := eval vm_compute in (len a - len (skipn 30 s1_T))%nat in apply (TwinProgram.advs_at n) end;
      [vm_compute; lia|vm_compute; reflexivity].
  - eapply TwinProgram.srun_eq; [TwinProgram.srun_build|vm_compute; reflexivity|vm_compute; reflexivity].
  - match goal with |- advs _ ?b => let n := eval vm_compute in (len (skipn 34 s1_T) - len b)%nat in apply (TwinProgram.advs_at n) end;
      [vm_compute; lia|vm_compute; reflexivity].
  - left. vm_compute. reflexivity.
  - left. reflexivity.
  - vm_compute. reflexivity.
  - symmetry. apply firstn_skipn.
  - vm_compute. reflexivity.
Qed.
Example twin_nested2_switch_nontrivial :
  exists out, Compile.compile nxf nxf nxf [] TagRename.sw0 true TagRename.fc0 [] 0%Z false None (t s1_src) = Compile.OutText out.
Proof. eexists; vm_compute; reflexivity. Qed.

(* ---------- the poryswitch is the whole body of `default:` (a case in front), the selected case ends with a `break` of the switch ---------- *)
Open Scope string_scope.
Definition s2_src : string :=
  "script A { switch (var(VAR_X)) { case 1: faceplayer default: poryswitch(GAME) { SAPPHIRE: release RUBY { msgbox(""hi"") break } _ { end } } } end }".
Definition s2_twin : string :=
  "script A { switch (var(VAR_X)) { case 1: faceplayer default:                                             msgbox(""hi"") break               } end }".
Close Scope string_scope.
Definition s2_T : toks := Eval vm_compute in lex nxf nxf nxf (t s2_src).
Lemma s2_T_eq : lex nxf nxf nxf (t s2_src) = s2_T. Proof. vm_compute. reflexivity. Qed.

Example twin_nested2_switch_default_example :
  Compile.compile nxf nxf nxf [] TagRename.sw0 true TagRename.fc0 [] 0%Z false None (t s2_src) =
  Compile.compile nxf nxf nxf [] TagRename.sw0 true TagRename.fc0 [] 0%Z false None (t s2_twin).
Proof.
  eapply (twin_nested2_compile nxf nxf nxf [] TagRename.sw0 true TagRename.fc0 [] 0%Z false None (t s2_src))
    with (xs := s2_T) (z := skipn 17 s2_T) (body := firstn 5 (skipn 27 s2_T)) (ra := skipn 32 s2_T) (U := firstn 17 s2_T)
         (bsz := [len (skipn 3 s2_T)]) (csz := []).
  all: rewrite ?s2_T_eq.
  - apply run_refl.
  - vm_compute; reflexivity.
  - vm_compute; reflexivity.
  - vm_compute; reflexivity.
  - vm_compute; reflexivity.
  - eapply nest2_switch with (w := skipn 3 s2_T) (f0 := (5 * len (skipn 3 s2_T))%nat) (f1 := 400%nat).
    + vm_compute. split; [congruence|reflexivity].
    + apply TwinParse.srun_nil.
    + vm_compute; reflexivity.
    + apply Nat.le_refl.
    + vm_compute; reflexivity.
    + eapply crun_cons with (f0 := 400%nat); [vm_compute; lia|vm_compute; reflexivity|vm_compute; reflexivity|apply crun_nil].
    + vm_compute; lia.
    + vm_compute; reflexivity.
    + eapply nest2_here with (b1 := []) (i1 := imp0).
      * vm_compute. split; [congruence|reflexivity].
      * apply TwinParse.srun_nil.
  - vm_compute; reflexivity.
  - vm_compute; reflexivity.
  - apply Nat.le_refl.
  - vm_compute; reflexivity.
  - vm_compute; reflexivity.
  - match goal with |- advs ?a _ => let n := eval vm_compute in (len a - len (skipn 27 s2_T))%nat in apply (TwinProgram.advs_at n) end;
      [vm_compute; lia|vm_compute; reflexivity].
  - eapply TwinProgram.srun_eq; [TwinProgram.srun_build|vm_compute; reflexivity|vm_compute; reflexivity].
  - match goal with |- advs _ ?b => let n := eval vm_compute in (len (skipn 32 s2_T) - len b)%nat in apply (TwinProgram.advs_at n) end;
      [vm_compute; lia|vm_compute; reflexivity].
  - left. vm_compute. reflexivity.
  - left. reflexivity.
  - vm_compute. reflexivity.
  - symmetry. apply firstn_skipn.
  - vm_compute. reflexivity.
Qed.
